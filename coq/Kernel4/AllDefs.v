(* Kernel4/AllDefs.v -- C01 over ONE history class that mixes every mode: DEFINITIONS ONLY.

     full_inv s     THE invariant = all_inv s /\ cells_topo s /\ lists_nodup s /\ counts_ok s  (counters = number of set flags)
     lists_nodup s  every enabled vertex list and every enabled halfedge list is duplicate-free
     cells_topo s   every live cell topologically closed, no halfface in two live cells (a property of the stored definitions; with both
                    the edge and the face incidences on it follows from all_inv; re-enabling an incidence kind needs it)
     all_inv s      the cache part:
                      ginv s          (Kernel3/GcDefs.v: the enabled caches list exactly the LIVE referrers, stored handles of live
                                       entities are in range, one cache slot / flag per entity, the flagged set is upward closed,
                                       and - with edge and face incidences both on - duplicate-free halfedge->halfface lists and
                                       closed live cells),
                      szd s           (Kernel/Sizes.v: one element per slot in every flag and property array),
                      faces_simple s  (a live face lists no halfedge twice and none together with its opposite),
                      cnt_inv s       (Kernel3/GcHist.v: no deleted-counter undercounts its flags),
                      deferred s = false -> nothing is flagged and all four deleted-counters are zero.
     all_inv_b / full_inv_b   decidable sound checkers (soundness: Kernel4/AllBridges.v, AllCells.v).
     all_op s o     the operations of the class, in state s (see below).
     all_ok ops     the history predicate: every call is of the class and is either invalid (Kernel/Ops.v valid_op: skipped by both
                    sides) or satisfies valid_op3 = valid_op2 (Kernel2/ExactHistory.v: new faces simple, new cells topology-checked
                    on free halffaces without a halfface and its opposite), where an UNCHECKED add_cell is admitted too if its
                    cell would pass the check.

   The class:  add_vertex / add_vertices / add_edge / add_face / add_face(vertices);  topology-checked add_cell on free live
   halffaces, with any incidence kinds enabled (face incidences off: "free" by scan, free_scan_b);  delete_vertex / delete_edge / delete_face / delete_cell of live entities in
   ALL FOUR (deferred x fast) modes;  collect_garbage;  enable_deferred_deletion both ways (leaving deferred mode collects);
   enable_fast_deletion both ways;  vertex / edge / face incidences off and ON again from any state (recomputation and, where the
   library does it, re-ordering of every list: Kernel4/AllReenable.v, AllReenable2.v);
   clear;  property creation / writes / drops;  the four index swaps, also with deletions pending (a deferred-deleted entity that mentions
   a swapped handle keeps a stale definition - known finding D13 - which the invariant does not read).
   NOT in the class: set_edge / set_face / set_cell, add_cell without topology check of a cell the check would reject (the invariant
   is FALSE there: known finding nonmanifold-cells-reorder). *)
From Coq Require Import ZArith Bool Arith List.
From OVM Require Import Base.ListX Kernel.State Kernel.Ops Kernel.Mirror Kernel.Closure Kernel.ExactInv Kernel.InvB Kernel.Sizes Kernel.DeferredDelete Kernel.Reenable
                        Kernel.ShiftFace Kernel.ShiftCompose Kernel.SwapFaceCache Kernel.SwapEdgeCache Kernel.SwapVertexCache
                        Kernel2.LookupModel Kernel2.ReorderExact Kernel2.ExactBase Kernel2.ExactHistory
                        Kernel3.FastDeferred Kernel3.GcDefs Kernel3.GcHist.
Import ListNotations.
Local Open Scope nat_scope.

(* ---------------------------------------------------------------- the invariant *)

Definition quiet_if_immediate (s : mesh) : Prop := deferred s = false -> no_flags s /\ no_pending s.

Definition all_inv (s : mesh) : Prop := ginv s /\ szd s /\ faces_simple s /\ cnt_inv s /\ quiet_if_immediate s.

(* the part about the cell DEFINITIONS that no cache carries while an incidence kind is off, and that re-enabling needs: every live
   cell is topologically closed (each halfedge of each of its halffaces is matched by its opposite in exactly one other halfface of
   the cell - the count part of closed_cell), and no halfface belongs to two live cells *)
Definition topo_cell (s : mesh) (c : nat) : Prop :=
  forall hf, In hf (cell_at s c) -> forall he, In he (halfface s hf) -> length (adj_matches s c hf he) = 1.

Definition cells_topo (s : mesh) : Prop :=
  (forall c, c < nc s -> c_deleted s c = false -> topo_cell s c) /\ no_shared_halfface s.

(* the cache LISTS are duplicate-free: the vertex -> outgoing-halfedge lists (covered by no older history theorem) and the
   halfedge -> incident-halfface lists (in ginv only while the face incidences are on, i.e. while they are re-ordered) *)
Definition all_nd (ll : list (list nat)) : Prop := forall k, NoDup (nth k ll []).
Definition outs_nd (s : mesh) : Prop := vbu s = true -> all_nd (out_hes s).
Definition hfs_nd (s : mesh) : Prop := ebu s = true -> all_nd (inc_hfs s).
Definition lists_nodup (s : mesh) : Prop := outs_nd s /\ hfs_nd s.

(* THE invariant of the unified history theorem (counts_ok, Kernel/DeferredDelete.v: each deleted-counter is EXACTLY the number of set
   flags of its kind - so the logical counts are the numbers of live entities) *)
Definition full_inv (s : mesh) : Prop := all_inv s /\ cells_topo s /\ lists_nodup s /\ counts_ok s.

(* ---------------------------------------------------------------- its checker *)

Definition psized_b (n : nat) (l : list parray) : bool := forallb (fun p => length (pdata p) =? n) l.

Definition szd_b (s : mesh) : bool :=
  (length (vdel s) =? nv s) && (length (edel s) =? length (edges s)) && (length (fdel s) =? length (faces s)) &&
  (length (cdel s) =? length (cells s)) &&
  psized_b (nv s) (pv s) && psized_b (length (edges s)) (pe s) && psized_b (2 * length (edges s)) (phe s) &&
  psized_b (length (faces s)) (pf s) && psized_b (2 * length (faces s)) (phf s) && psized_b (length (cells s)) (pc s) &&
  psized_b 1 (pm s).

Definition faces_simple_live_b (s : mesh) : bool :=
  forallb (fun f => f_deleted s f || simple_hes_b (face_at s f)) (seq 0 (nf s)).

Definition cnt_inv_b (s : mesh) : bool :=
  (ntrue (vdel s) <=? ndv s) && (ntrue (edel s) <=? nde s) && (ntrue (fdel s) <=? ndf s) && (ntrue (cdel s) <=? ndc s).

Definition no_pending_b (s : mesh) : bool := (ndv s =? 0) && (nde s =? 0) && (ndf s =? 0) && (ndc s =? 0).

Definition all_inv_b (s : mesh) : bool :=
  ginv_b s && szd_b s && faces_simple_live_b s && cnt_inv_b s && (deferred s || (no_flags_b s && no_pending_b s)).

Definition topo_cell_b (s : mesh) (c : nat) : bool :=
  forallb (fun hf => forallb (fun he => length (adj_matches s c hf he) =? 1) (halfface s hf)) (cell_at s c).

Definition no_shared_b (s : mesh) : bool :=
  forallb (fun c1 => forallb (fun c2 => (c1 =? c2) || forallb (fun hf => negb (memb hf (cell_at s c2))) (cell_at s c1)) (live_cells s)) (live_cells s).

Definition cells_topo_b (s : mesh) : bool := forallb (topo_cell_b s) (live_cells s) && no_shared_b s.

Definition all_nd_b (ll : list (list nat)) : bool := forallb nodup_b ll.
Definition lists_nodup_b (s : mesh) : bool := (negb (vbu s) || all_nd_b (out_hes s)) && (negb (ebu s) || all_nd_b (inc_hfs s)).

Definition full_inv_b (s : mesh) : bool := all_inv_b s && cells_topo_b s && lists_nodup_b s && counts_ok_b s.

(* ---------------------------------------------------------------- the history class *)

(* the calls whose step needs the cell-topology part of the invariant: those that recompute a cache, and add_cell while an
   incidence kind is off *)
Definition reenable_case (s : mesh) (o : op) : bool :=
  match o with
  | EnableEBU b => b && negb (ebu s)
  | EnableFBU b => b && negb (fbu s)
  | AddCell _ _ => negb (ebu s && fbu s)
  | _ => false
  end.

(* "the halffaces belong to no cell yet", by scan (with the face incidences on the cache answers it: valid_op2) *)
Definition free_scan_b (s : mesh) (hfs : list nat) : bool :=
  forallb (fun hf => forallb (fun c => negb (memb hf (cell_at s c))) (live_cells s)) hfs.

Definition all_op (s : mesh) (o : op) : bool :=
  match o with
  | AddVertex | AddVertices _ | AddEdge _ _ _ | AddFace _ _ | AddFaceV _ => true
  | AddCell hfs _ => fbu s || free_scan_b s hfs
  | SetEdge _ _ _ | SetFace _ _ | SetCell _ _ => false
  | DelVertex _ | DelEdge _ | DelFace _ | DelCell _ => true
  | SwapV _ _ | SwapE _ _ | SwapF _ _ | SwapC _ _ => true
  | CollectGarbage | Clear _ => true
  | EnableVBU _ | EnableEBU _ | EnableFBU _ | EnableDeferred _ | EnableFast _ => true
  | PropCreate _ _ | PropSet _ _ _ _ | PropDrop _ _ => true
  end.

(* the extra validity conditions: valid_op2 (Kernel2/ExactHistory.v), except that add_cell may also be called WITHOUT its topology
   check when the check would pass (the cell is a closed surface) - the library then does exactly what the checked call does *)
Definition valid_op3 (s : mesh) (o : op) : bool :=
  match o with
  | AddCell hfs chk => valid_op2 s (AddCell hfs (chk || cell_check s hfs))
  | _ => valid_op2 s o
  end.

Fixpoint all_ok_from (s : mesh) (ops : list op) : bool :=
  match ops with
  | [] => true
  | o :: r => all_op s o && (negb (valid_op s o) || valid_op3 s o) && all_ok_from (next s o) r
  end.
Definition all_ok (ops : list op) : bool := all_ok_from empty_mesh ops.

(* the same class with every new face a closed loop (C08 closedness): add_face is topology-checked or its loop closes *)
Definition loop_op (s : mesh) (o : op) : bool :=
  match o with
  | AddFace hes chk => chk || loop_ok s hes
  | _ => true
  end.

Fixpoint loops_ok_from (s : mesh) (ops : list op) : bool :=
  match ops with
  | [] => true
  | o :: r => (negb (valid_op s o) || loop_op s o) && loops_ok_from (next s o) r
  end.
Definition loops_ok (ops : list op) : bool := loops_ok_from empty_mesh ops.

Definition faces_closed (s : mesh) : Prop := forall f, f < nf s -> f_deleted s f = false -> closed_cycle s (face_at s f).
