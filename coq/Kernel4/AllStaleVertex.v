(* Kernel4/AllStaleVertex.v -- swap_vertex_indices with deferred-deleted edges that MENTION the swapped vertices (known finding
   D13: their stored endpoints go stale).  As in Kernel4/AllStaleFace.v / AllStaleEdge.v: ginv does not read the endpoints of a
   flagged edge, the swap reads the edge definitions only in its first loop, which treats the live edges alike; so ginv survives
   EVERY vertex swap, and every LIVE edge has its endpoints renamed. *)
From Coq Require Import ZArith Lia Bool Arith List ZifyNat ZifyBool.
From OVM Require Import Base.ListX Base.ListLemmas Kernel.State Kernel.Ops Kernel.Mirror Kernel.Closure Kernel.ExactInv Kernel.SwapEffects
                        Kernel.SwapVertexCache Kernel.ShiftFace Kernel2.LookupModel Kernel2.AdjacentProofs Kernel2.ReorderExact Kernel2.ExactBase Kernel2.ExactHistory
                        Kernel3.GcDefs Kernel3.GcInv Kernel3.GcFastBase Kernel3.GcFastVertex Kernel4.AllStaleFace.
Import ListNotations.
Ltac Zify.zify_post_hook ::= Z.div_mod_to_equations.
Local Open Scope nat_scope.

(* ================================================================== ginv does not read flagged edges *)

Definition edges_agree (t : mesh) (Es : list (nat * nat)) : Prop :=
  length Es = ne t /\ forall e, e < ne t -> e_deleted t e = false -> nth e Es (0, 0) = edge_at t e.

Theorem ginv_edges_ext t Es : edges_agree t Es -> ginv t -> ginv (set_edges Es t).
Proof.
  intros Ag ((VO & EO & FO & (R1 & R2 & R3) & (L1 & L2 & L3 & L4 & L5 & L6)) & LV & (U1 & U2 & U3) & X). pose proof Ag as [L A].
  set (t' := set_edges Es t).
  assert (NE : ne t' = ne t) by exact L.
  assert (EA : forall e, e < ne t -> e_deleted t e = false -> edge_at t' e = edge_at t e) by exact A.
  split; [|split; [exact LV|split]].
  - split; [|split; [|split; [exact FO|split; [split; [|split; [|exact R3]]|]]]].
    + intros V v Hv h. change (out_at t' v) with (out_at t v). change (e_deleted t' (h / 2)) with (e_deleted t (h / 2)). rewrite NE.
      rewrite (VO V v Hv h). unfold he_from.
      split; intros (P & Q & Rr); (split; [exact P|split; [exact Q|]]); [rewrite (EA _ P Q)|rewrite <- (EA _ P Q)]; exact Rr.
    + intros E h Hh x. rewrite NE in Hh. exact (EO E h Hh x).
    + intros e He Hd. rewrite NE in He. change (e_deleted t e = false) in Hd. rewrite (EA e He Hd). exact (R1 e He Hd).
    + intros f Hf Hd h Hh. rewrite NE. exact (R2 f Hf Hd h Hh).
    + split; [exact L1|]. split; [intros E; rewrite NE; exact (L2 E)|]. split; [exact L3|]. split; [|exact (conj L5 L6)].
      change (length (edel t) = ne t'). rewrite NE. exact L4.
  - split; [|split; [exact U2|exact U3]]. intros e He Hd. rewrite NE in He. change (e_deleted t e = false) in Hd. rewrite (EA e He Hd). exact (U1 e He Hd).
  - intros E Fb. destruct (X E Fb) as [SN LC]. split; [intros h Hh; rewrite NE in Hh; exact (SN h Hh)|exact LC].
Qed.

Definition scrub_edges (s : mesh) : list (nat * nat) := map (fun e => if e_deleted s e then (nv s, nv s) else edge_at s e) (seq 0 (ne s)).

Lemma nth_scrub_edges s e : e < ne s -> nth e (scrub_edges s) (0, 0) = if e_deleted s e then (nv s, nv s) else edge_at s e.
Proof.
  intros H. unfold scrub_edges. rewrite (GcFastBase.nth_map_in _ (seq 0 (ne s)) e 0 (0, 0)) by (rewrite seq_length; exact H). rewrite seq_nth by exact H. reflexivity.
Qed.

Lemma scrub_edges_agree s : edges_agree s (scrub_edges s).
Proof.
  split; [unfold scrub_edges; rewrite map_length, seq_length; reflexivity|].
  intros e He Hd. rewrite nth_scrub_edges by exact He. rewrite Hd. reflexivity.
Qed.

Lemma scrub_no_deleted_edge_at s a b : a < nv s -> b < nv s -> no_deleted_edge_at (set_edges (scrub_edges s) s) a b.
Proof.
  intros Ha Hb e He Hd. change (e_deleted s e = true) in Hd. unfold ne in He. cbn [edges set_edges] in He.
  unfold scrub_edges in He. rewrite map_length, seq_length in He.
  unfold edge_at. cbn [edges set_edges]. rewrite nth_scrub_edges, Hd by exact He. unfold at_ab. cbn [fst snd]. lia.
Qed.

(* ================================================================== the swap, split at its only read of the edge definitions *)

Definition sv_swe (a b : nat) (e : nat * nat) : nat * nat := (swap_idx a b (fst e), swap_idx a b (snd e)).

Definition sv_step (a b : nat) (acc : list (nat * nat) * list nat) (heh : nat) : list (nat * nat) * list nat :=
  let '(es, done) := acc in
  let e := heh / 2 in
  if memb e done then acc else (upd e (sv_swe a b (nth e es (0, 0))) es, e :: done).

Definition sv_edges1 (a b : nat) (s : mesh) : list (nat * nat) :=
  if vbu s then fst (fold_left (sv_step a b) (out_at s a ++ out_at s b) (edges s, []))
  else map (sv_swe a b) (edges s).

Definition sv_rest (a b : nat) (X : list (nat * nat)) (s : mesh) : mesh :=
  let s1 := set_edges X s in
  let s2 := set_vdel (swap_nth a b false (vdel s1)) s1 in
  let s3 := if vbu s2 then set_out_hes (swap_nth a b [] (out_hes s2)) s2 else s2 in
  swap_prop_elems KV a b s3.

Lemma swap_vertex_split a b s : a <> b -> swap_vertex_indices a b s = sv_rest a b (sv_edges1 a b s) s.
Proof. intros N. unfold swap_vertex_indices. rewrite (proj2 (Nat.eqb_neq a b) N). reflexivity. Qed.

Lemma sv_rest_set_edges a b X Y s : sv_rest a b X (set_edges Y s) = sv_rest a b X s.
Proof. reflexivity. Qed.

Lemma sv_rest_edges a b X X' s : sv_rest a b X s = set_edges X (sv_rest a b X' s).
Proof. unfold sv_rest. cbv zeta. rsf. destruct (vbu s); reflexivity. Qed.

Lemma edges_sv_rest a b X s : edges (sv_rest a b X s) = X.
Proof. unfold sv_rest. cbv zeta. rsf. destruct (vbu s); reflexivity. Qed.

(* ================================================================== the first loop treats the live edges alike *)

Definition agree_livee (s : mesh) (C D : list (nat * nat)) : Prop :=
  length C = length D /\ forall e, e_deleted s e = false -> nth e C (0, 0) = nth e D (0, 0).

Lemma agree_livee_upd s C D x : agree_livee s C D -> forall g, agree_livee s (upd x (g (nth x C (0, 0))) C) (upd x (g (nth x D (0, 0))) D).
Proof.
  intros [L A] g. split; [rewrite !upd_length; exact L|]. intros c Hd. rewrite !nth_upd, L.
  destruct ((x =? c) && (x <? length D)) eqn:E; [|exact (A c Hd)].
  apply andb_true_iff in E. destruct E as [E _]. apply Nat.eqb_eq in E. subst x. rewrite (A c Hd). reflexivity.
Qed.

Lemma sv_fold_agree a b s l : forall C D done, agree_livee s C D ->
  agree_livee s (fst (fold_left (sv_step a b) l (C, done))) (fst (fold_left (sv_step a b) l (D, done))).
Proof.
  induction l as [|x l IH]; intros C D done Ag; [exact Ag|]. cbn [fold_left].
  change (sv_step a b (C, done) x) with (if memb (x / 2) done then (C, done) else (upd (x / 2) (sv_swe a b (nth (x / 2) C (0, 0))) C, x / 2 :: done)).
  change (sv_step a b (D, done) x) with (if memb (x / 2) done then (D, done) else (upd (x / 2) (sv_swe a b (nth (x / 2) D (0, 0))) D, x / 2 :: done)).
  destruct (memb (x / 2) done); [apply IH; exact Ag|]. apply IH. exact (agree_livee_upd s C D (x / 2) Ag (sv_swe a b)).
Qed.

Lemma sv_edges1_agree a b s Y : length Y = ne s -> agree_livee s (edges s) Y -> agree_livee s (sv_edges1 a b s) (sv_edges1 a b (set_edges Y s)).
Proof.
  intros LY Ag. unfold sv_edges1. change (vbu (set_edges Y s)) with (vbu s). change (out_at (set_edges Y s)) with (out_at s).
  change (edges (set_edges Y s)) with Y. destruct (vbu s).
  - exact (sv_fold_agree a b s _ (edges s) Y [] Ag).
  - destruct Ag as [L A]. split; [rewrite !map_length; exact L|]. intros c Hd.
    destruct (Nat.lt_ge_cases c (ne s)) as [Hc|Hc].
    + rewrite (GcFastBase.nth_map_in _ (edges s) c (0, 0) (0, 0)) by exact Hc.
      rewrite (GcFastBase.nth_map_in _ Y c (0, 0) (0, 0)) by (rewrite LY; exact Hc). f_equal. exact (A c Hd).
    + rewrite !nth_overflow; [reflexivity|rewrite map_length, LY; exact Hc|rewrite map_length; exact Hc].
Qed.

(* ================================================================== ginv through any vertex swap; the live edges are renamed *)

Theorem ginv_swap_vertex_any a b s : ginv s -> a < nv s -> b < nv s ->
  ginv (swap_vertex_indices a b s) /\
  (forall e, e < ne s -> e_deleted s e = false -> edge_at (swap_vertex_indices a b s) e = swap_ends a b (edge_at s e)).
Proof.
  intros I Ha Hb. destruct (Nat.eq_dec a b) as [->|N].
  { rewrite swap_vertex_self. split; [exact I|]. intros e _ _. unfold swap_ends, swap_idx. destruct (edge_at s e) as [x y]. cbn [fst snd].
    destruct (x =? b) eqn:E1; destruct (y =? b) eqn:E2; try apply Nat.eqb_eq in E1; try apply Nat.eqb_eq in E2; subst; reflexivity. }
  set (Y := scrub_edges s). set (sY := set_edges Y s).
  pose proof (scrub_edges_agree s) as AgY. pose proof (ginv_edges_ext s Y AgY I) as IY. fold sY in IY.
  pose proof IY as ((VO & _) & _).
  pose proof (swap_vertex_exact_relabeling a b sY N Ha Hb VO (scrub_no_deleted_edge_at s a b Ha Hb)) as Rl.
  assert (IT : ginv (swap_vertex_indices a b sY)) by (rewrite Rl; apply ginv_vertex_relabeled; assumption).
  assert (E : swap_vertex_indices a b s = set_edges (sv_edges1 a b s) (swap_vertex_indices a b sY)).
  { rewrite (swap_vertex_split a b s N), (swap_vertex_split a b sY N). unfold sY at 2. rewrite sv_rest_set_edges. apply sv_rest_edges. }
  assert (AL : agree_livee s (sv_edges1 a b s) (sv_edges1 a b sY)).
  { apply sv_edges1_agree; [exact (proj1 AgY)|]. destruct AgY as [LY AY]. split; [symmetry; exact LY|]. intros c Hd.
    destruct (Nat.lt_ge_cases c (ne s)) as [Hc|Hc]; [symmetry; exact (AY c Hc Hd)|].
    rewrite (nth_overflow (edges s)) by exact Hc. rewrite (nth_overflow Y) by (unfold Y; rewrite LY; exact Hc). reflexivity. }
  destruct AL as [LL AL].
  assert (CE : edges (swap_vertex_indices a b sY) = sv_edges1 a b sY) by (rewrite (swap_vertex_split a b sY N); apply edges_sv_rest).
  assert (CD : edel (swap_vertex_indices a b sY) = edel s).
  { pose proof (swap_vertex_effect a b sY N) as Ef. cbv zeta in Ef. destruct Ef as (_ & _ & _ & _ & _ & e6 & _). exact e6. }
  assert (NEY : ne (swap_vertex_indices a b sY) = ne s).
  { rewrite Rl. unfold ne, vertex_relabeled. cbn [edges]. rewrite map_length. exact (proj1 AgY). }
  rewrite E. split.
  - apply ginv_edges_ext; [|exact IT]. split.
    + rewrite NEY. unfold ne in NEY. rewrite CE in NEY. rewrite LL. exact NEY.
    + intros e _ Hd. unfold edge_at. rewrite CE. apply AL. unfold e_deleted in *. rewrite CD in Hd. exact Hd.
  - intros e He Hd. change (edge_at (set_edges (sv_edges1 a b s) (swap_vertex_indices a b sY)) e) with (nth e (sv_edges1 a b s) (0, 0)).
    rewrite (AL e Hd), <- CE. fold (edge_at (swap_vertex_indices a b sY) e). rewrite Rl. unfold edge_at, vertex_relabeled. cbn [edges].
    rewrite (GcFastBase.nth_map_in _ (edges sY) e (0, 0) (0, 0)) by (exact (eq_ind_r (fun n => e < n) He (proj1 AgY))). f_equal.
    change (nth e Y (0, 0) = nth e (edges s) (0, 0)). exact (proj2 AgY e He Hd).
Qed.
