(* Kernel4/AllCells.v -- the part of the invariant that re-enabling the edge / face incidences needs and that is a property of the
   DEFINITIONS only (faces, cells, cell flags), not of any cache:
     cells_topo s = every live cell is topologically closed (each halfedge of each of its halffaces is matched by its opposite in
                    exactly one other halfface of the cell: the count part of closed_cell, Kernel2/AdjacentProofs.v)
                    /\ no halfface belongs to two live cells (Kernel/Reenable.v no_shared_halfface).
   With the face incidences on and exact, cells_topo gives live_cells_closed (closed_of_topo); with both kinds on it FOLLOWS from ginv
   (cells_topo_of_ginv).  It travels through every renumbering: cells_from s t - every live cell of t is the image map (r2 gf) of a
   live cell of s, its faces are carried along (map (r2 ge)), the maps are injective where it matters, distinct live cells of t come
   from distinct cells - gives cells_topo s -> cells_topo t (cells_topo_from). *)
From Coq Require Import ZArith Lia Bool Arith List ZifyNat ZifyBool.
From OVM Require Import Base.ListX Base.ListLemmas Kernel.State Kernel.Ops Kernel.Mirror Kernel.Recompute Kernel.Closure Kernel.ExactInv Kernel.Reenable
                        Kernel.ShiftFace Kernel2.LookupModel Kernel2.AdjacentProofs Kernel2.ReorderExact Kernel2.ExactBase
                        Kernel3.GcDefs Kernel3.GcFastBase Kernel4.AllDefs Kernel4.AllFaces.
Import ListNotations.
Ltac Zify.zify_post_hook ::= Z.div_mod_to_equations.
Local Open Scope nat_scope.

(* ================================================================== the definitions (Kernel4/AllDefs.v) and the caches *)

Lemma topo_of_closed s c : closed_cell s c -> topo_cell s c.
Proof. intros Cl hf Hhf. exact (proj2 (Cl hf Hhf)). Qed.

Lemma closed_of_topo s c : fbu s = true -> fbu_ok s -> (forall hf, In hf (cell_at s c) -> hf < 2 * nf s) -> c < nc s -> c_deleted s c = false ->
  topo_cell s c -> closed_cell s c.
Proof. intros Fb FO R Hc Hd T hf Hhf. split; [apply (FO Fb hf (R hf Hhf) c); auto|exact (T hf Hhf)]. Qed.

Lemma no_shared_of_fbu_ok s : fbu s = true -> fbu_ok s -> refs_ok s -> no_shared_halfface s.
Proof.
  intros Fb FO (_ & _ & R3) c1 c2 hf L1 L2 H1 H2. apply In_live_cells in L1, L2. destruct L1 as [A1 B1]. destruct L2 as [A2 B2].
  pose proof (R3 c1 A1 B1 hf H1) as Rg.
  pose proof (proj2 (FO Fb hf Rg c1) (conj A1 (conj B1 H1))) as E1. pose proof (proj2 (FO Fb hf Rg c2) (conj A2 (conj B2 H2))) as E2. congruence.
Qed.

Theorem cells_topo_of_ginv s : ginv s -> ebu s = true -> fbu s = true -> cells_topo s.
Proof.
  intros ((_ & _ & FO & R & _) & _ & _ & X) E Fb. destruct (X E Fb) as [_ LC]. split.
  - intros c Hc Hd. apply topo_of_closed. exact (LC c Hc Hd).
  - exact (no_shared_of_fbu_ok s Fb FO R).
Qed.

Theorem live_cells_closed_of_topo s : fbu s = true -> fbu_ok s -> refs_ok s -> cells_topo s -> live_cells_closed s.
Proof.
  intros Fb FO (_ & _ & R3) [T _] c Hc Hd. apply closed_of_topo; try assumption; [|exact (T c Hc Hd)]. intros hf Hhf. exact (R3 c Hc Hd hf Hhf).
Qed.

(* ================================================================== one cell under a renaming *)

(* the count part of Kernel/ShiftFace.v closed_cell_rename *)
Lemma topo_cell_rename s s' c c' (g k : nat -> nat) :
  cell_at s' c' = map g (cell_at s c) ->
  (forall y z, In y (cell_at s c) -> In z (cell_at s c) -> (g z =? g y) = (z =? y) /\ (g z =? opp (g y)) = (z =? opp y)) ->
  (forall z, In z (cell_at s c) -> halfface s' (g z) = map k (halfface s z)) ->
  (forall y z he0 w, In y (cell_at s c) -> In z (cell_at s c) -> In he0 (halfface s y) -> In w (halfface s z) ->
      (opp (k w) =? k he0) = (opp w =? he0)) ->
  topo_cell s c -> topo_cell s' c'.
Proof.
  intros CA GE HK KE Cl hf' Hhf'. rewrite CA in Hhf'. apply in_map_iff in Hhf'. destruct Hhf' as [y [<- Hy]].
  pose proof (Cl y Hy) as Cnt.
  intros he' Hhe'. rewrite (HK y Hy) in Hhe'. apply in_map_iff in Hhe'. destruct Hhe' as [he0 [<- Hhe0]].
  rewrite <- (Cnt he0 Hhe0). unfold adj_matches. rewrite CA. apply length_flat_map_map. intros z Hz.
  destruct (GE y z Hy Hz) as [-> ->]. destruct ((z =? y) || (z =? opp y)); [reflexivity|].
  rewrite !map_length, (HK z Hz), length_filter_map. apply length_filter_ext_in. intros w Hw. exact (KE y z he0 w Hy Hz Hhe0 Hw).
Qed.

Lemma r2_even r x : Nat.even (r2 r x) = Nat.even x.
Proof. rewrite !even_mod2, r2_mod2. reflexivity. Qed.

Lemma r2_eq_iff r x y : (r (x / 2) = r (y / 2) -> x / 2 = y / 2) -> (r2 r x = r2 r y <-> x = y).
Proof.
  intros I. split; [|intros ->; reflexivity]. intros E.
  assert (A : r (x / 2) = r (y / 2)) by (rewrite <- !r2_div2; rewrite E; reflexivity).
  assert (B : x mod 2 = y mod 2) by (rewrite <- (r2_mod2 r x), <- (r2_mod2 r y), E; reflexivity).
  specialize (I A). lia.
Qed.

Lemma eqb_iff a b c d : (a = b <-> c = d) -> (a =? b) = (c =? d).
Proof. intros H. destruct (Nat.eqb_spec a b) as [E|N]; destruct (Nat.eqb_spec c d) as [E'|N']; try reflexivity; exfalso; tauto. Qed.

(* the halfface of a renamed face *)
Lemma halfface_renamed s t gf ge z : face_at t (gf (z / 2)) = map (r2 ge) (face_at s (z / 2)) ->
  halfface t (r2 gf z) = map (r2 ge) (halfface s z).
Proof.
  intros E. unfold halfface. rewrite r2_div2, r2_even, E. destruct (Nat.even z); [reflexivity|].
  rewrite map_rev, !map_map. f_equal. apply map_ext. intros h. symmetry. apply r2_opp.
Qed.

(* ================================================================== all live cells *)

Definition live_cell (s : mesh) (c : nat) : Prop := c < nc s /\ c_deleted s c = false.

Definition cell_from (s t : mesh) (ge gf : nat -> nat) (c c' : nat) : Prop :=
  live_cell s c /\ cell_at t c' = map (r2 gf) (cell_at s c) /\
  (forall hf, In hf (cell_at s c) -> face_at t (gf (hf / 2)) = map (r2 ge) (face_at s (hf / 2))).

(* among the cells that survive (the domain of R): gf is injective on their faces; ge on the edges of the faces of one cell *)
Definition gf_inj (s : mesh) (R : nat -> nat -> Prop) (gf : nat -> nat) : Prop :=
  forall c1 c1' c2 c2' hf1 hf2, R c1 c1' -> R c2 c2' -> In hf1 (cell_at s c1) -> In hf2 (cell_at s c2) ->
    gf (hf1 / 2) = gf (hf2 / 2) -> hf1 / 2 = hf2 / 2.
Definition ge_inj (s : mesh) (R : nat -> nat -> Prop) (ge : nat -> nat) : Prop :=
  forall c c' hf1 hf2 h1 h2, R c c' -> In hf1 (cell_at s c) -> In hf2 (cell_at s c) ->
    In h1 (face_at s (hf1 / 2)) -> In h2 (face_at s (hf2 / 2)) -> ge (h1 / 2) = ge (h2 / 2) -> h1 / 2 = h2 / 2.

Definition cells_from (s t : mesh) : Prop := exists ge gf (R : nat -> nat -> Prop),
  (forall c', live_cell t c' -> exists c, R c c') /\
  (forall c c', R c c' -> cell_from s t ge gf c c') /\
  (forall c c1 c2, R c c1 -> R c c2 -> c1 = c2) /\
  gf_inj s R gf /\ ge_inj s R ge.

Lemma In_halfface_face s z w : In w (halfface s z) -> exists h, In h (face_at s (z / 2)) /\ h / 2 = w / 2.
Proof.
  intros H. apply In_halfface in H. destruct (Nat.even z); [exists w; auto|]. exists (opp w). split; [exact H|apply opp_div2].
Qed.

Theorem cells_topo_from s t : cells_from s t -> cells_topo s -> cells_topo t.
Proof.
  intros (ge & gf & R & Sur & Fr & Fun & GI & EI) [T NS]. split.
  - intros c' Hc' Hd'. destruct (Sur c' (conj Hc' Hd')) as [c Rc]. destruct (Fr c c' Rc) as (Lc & CA & FA).
    apply (topo_cell_rename s t c c' (r2 gf) (r2 ge)); [exact CA| | | |exact (T c (proj1 Lc) (proj2 Lc))].
    + intros y z Hy Hz. split; apply eqb_iff.
      * apply r2_eq_iff. intros E. exact (GI c c' c c' z y Rc Rc Hz Hy E).
      * rewrite <- r2_opp. apply r2_eq_iff. rewrite opp_div2. intros E. exact (GI c c' c c' z y Rc Rc Hz Hy E).
    + intros z Hz. apply halfface_renamed. exact (FA z Hz).
    + intros y z he0 w Hy Hz Hhe0 Hw. rewrite <- r2_opp. apply eqb_iff. apply r2_eq_iff. rewrite opp_div2.
      destruct (In_halfface_face s z w Hw) as (h1 & Hh1 & E1). destruct (In_halfface_face s y he0 Hhe0) as (h2 & Hh2 & E2).
      rewrite <- E1, <- E2. exact (EI c c' z y h1 h2 Rc Hz Hy Hh1 Hh2).
  - intros c1' c2' x L1 L2 H1 H2. apply In_live_cells in L1, L2.
    destruct (Sur c1' L1) as [c1 R1]. destruct (Sur c2' L2) as [c2 R2].
    destruct (Fr c1 c1' R1) as (Lc1 & CA1 & _). destruct (Fr c2 c2' R2) as (Lc2 & CA2 & _).
    rewrite CA1 in H1. rewrite CA2 in H2. apply in_map_iff in H1, H2. destruct H1 as [y1 [E1 Hy1]]. destruct H2 as [y2 [E2 Hy2]].
    assert (Y : y1 = y2).
    { apply (proj1 (r2_eq_iff gf y1 y2 (fun E => GI c1 c1' c2 c2' y1 y2 R1 R2 Hy1 Hy2 E))). congruence. }
    subst y2. assert (C : c1 = c2) by (apply (NS c1 c2 y1); [apply In_live_cells; exact Lc1|apply In_live_cells; exact Lc2|exact Hy1|exact Hy2]).
    subst c2. exact (Fun c1 c1' c2' R1 R2).
Qed.

(* ---- identity instance: cells and the faces of the live cells untouched, no cell revived *)
Theorem cells_from_same s t : cells t = cells s -> (forall c, c < nc s -> c_deleted t c = false -> c_deleted s c = false) ->
  (forall c hf, live_cell s c -> In hf (cell_at s c) -> face_at t (hf / 2) = face_at s (hf / 2)) -> cells_from s t.
Proof.
  intros Ce D Fa. exists (fun e => e), (fun f => f), (fun c c' => c = c' /\ live_cell s c /\ live_cell t c').
  split; [|split; [|split; [|split]]].
  - intros c' [Hc Hd]. exists c'. unfold nc in Hc. rewrite Ce in Hc. split; [reflexivity|]. split; [exact (conj Hc (D c' Hc Hd))|].
    split; [unfold nc; rewrite Ce; exact Hc|exact Hd].
  - intros c c' (<- & L & _). split; [exact L|]. split; [unfold cell_at; rewrite Ce, map_r2_id; reflexivity|].
    intros hf Hhf. rewrite map_r2_id. exact (Fa c hf L Hhf).
  - intros c c1 c2 (<- & _) (<- & _). reflexivity.
  - intros c1 c1' c2 c2' hf1 hf2 _ _ _ _ E. exact E.
  - intros c c' hf1 hf2 h1 h2 _ _ _ _ _ E. exact E.
Qed.

Lemma cells_from_same_all s t : cells t = cells s -> cdel t = cdel s -> faces t = faces s -> cells_from s t.
Proof.
  intros Ce D Fa. apply cells_from_same; [exact Ce| |].
  - intros c _. unfold c_deleted. rewrite D. tauto.
  - intros c hf _ _. unfold face_at. rewrite Fa. reflexivity.
Qed.

Lemma cells_from_empty s t : nc t = 0 -> cells_from s t.
Proof.
  intros N. exists (fun e => e), (fun f => f), (fun _ _ => False). split; [|split; [|split; [|split]]].
  - intros c' [Hc _]. lia.
  - intros c c' [].
  - intros c c1 c2 [].
  - intros c1 c1' c2 c2' hf1 hf2 [].
  - intros c c' hf1 hf2 h1 h2 [].
Qed.

(* ================================================================== the checker is sound *)

Lemma topo_cell_b_sound s c : topo_cell_b s c = true -> topo_cell s c.
Proof.
  unfold topo_cell_b. rewrite forallb_forall. intros H hf Hhf he Hhe. specialize (H hf Hhf). rewrite forallb_forall in H.
  apply Nat.eqb_eq. exact (H he Hhe).
Qed.

Lemma no_shared_b_sound s : no_shared_b s = true -> no_shared_halfface s.
Proof.
  unfold no_shared_b. rewrite forallb_forall. intros H c1 c2 hf L1 L2 H1 H2. specialize (H c1 L1). rewrite forallb_forall in H. specialize (H c2 L2).
  apply orb_true_iff in H. destruct H as [H|H]; [apply Nat.eqb_eq; exact H|]. rewrite forallb_forall in H. specialize (H hf H1).
  apply memb_In in H2. rewrite H2 in H. discriminate.
Qed.

Theorem cells_topo_b_sound s : cells_topo_b s = true -> cells_topo s.
Proof.
  unfold cells_topo_b. rewrite andb_true_iff, forallb_forall. intros [A B]. split; [|apply no_shared_b_sound; exact B].
  intros c Hc Hd. apply topo_cell_b_sound. apply A. apply In_live_cells. auto.
Qed.
