(* Kernel4/AllExample.v -- a concrete history of the unified class: 51 operations through all four (deferred x fast) deletion
   modes - three tetrahedra; a cell deleted (deferred, fast); swaps of cells and of two faces the DELETED cell mentions (the
   situation of known finding D13); a new cell on the faces of the deleted one; a vertex deleted (deferred, index shifting) with
   its closure; vertex / edge swaps with deletions pending; collect_garbage; an immediate deletion with the face incidences off;
   the face incidences recomputed while the edge incidences are on, then the edge incidences switched off and recomputed while the
   face incidences are on (both times the lists are re-ordered around the surviving cell); an immediate fast deletion; a deferred
   face deletion, a face swap, and the collection on leaving deferred mode in fast mode.  One cell survives everything. *)
From Coq Require Import ZArith List Bool.
From OVM Require Import Kernel.State Kernel.Ops Kernel2.ExactHistory Kernel4.AllDefs.
Import ListNotations.

Definition all_example : list op :=
  [AddVertices 6;
   AddFaceV [0;1;2]; AddFaceV [0;2;3]; AddFaceV [0;3;1]; AddFaceV [1;3;2]; AddCell [0;2;4;6] true;
   AddFaceV [1;2;4]; AddFaceV [2;3;4]; AddFaceV [3;1;4]; AddCell [7;9;11;13] true;
   AddFaceV [2;1;5]; AddFaceV [4;2;5]; AddFaceV [1;4;5]; AddCell [8;14;16;18] true;
   PropCreate KV 7%Z; PropSet KV 0 2 9%Z; PropCreate KHF 0%Z; PropSet KHF 0 3 5%Z; PropCreate KC 1%Z; PropSet KC 0 1 4%Z;
   DelCell 0;                                        (* deferred, fast *)
   SwapC 0 2; SwapF 0 3;                             (* the deleted cell (now in slot 2) mentions faces 0 and 3: D13 *)
   AddCell [0;2;4;6] true;                           (* a new cell on the halffaces the deleted one had *)
   EnableFast false;
   DelVertex 5;                                      (* deferred, index shifting: 3 edges, 3 faces, 1 cell go with it *)
   SwapV 0 4; SwapE 0 1;                             (* deletions pending *)
   CollectGarbage;
   EnableDeferred false; EnableFBU false;
   DelCell 1;                                        (* immediate, index shifting, face incidences off *)
   AddVertex; EnableFBU true;                        (* face incidences recomputed, edge incidences on: every list re-ordered *)
   EnableEBU false; SwapF 0 1; EnableEBU true;       (* edge incidences recomputed, face incidences on: re-ordered again *)
   EnableFast true; AddEdge 0 5 false; DelEdge 9;    (* immediate, fast *)
   EnableVBU false; SwapE 2 3; EnableVBU true;
   EnableDeferred true; DelFace 0; AddVertex; SwapF 0 2; SwapC 0 0;   (* deferred, fast; a swap with the deleted face *)
   EnableDeferred false;                             (* leaving deferred mode collects (fast mode) *)
   PropDrop KV 0; AddEdge 0 6 true].
