(* Kernel4/AllStepGc.v -- the unified invariant all_inv through collect_garbage (both deletion styles: index shifting
   Kernel3/GcMain.v, fast Kernel3/GcFastMain.v; outside deferred mode it does nothing) and through enable_deferred_deletion in both
   directions (leaving deferred mode collects). *)
From Coq Require Import ZArith Lia Bool Arith List ZifyNat ZifyBool.
From OVM Require Import Base.ListX Base.ListLemmas Kernel.State Kernel.Ops Kernel.Mirror Kernel.Closure Kernel.ExactInv Kernel.Sizes Kernel.GcFacts
                        Kernel.SwapInvol Kernel.ShiftFace Kernel.ShiftCompose Kernel2.ExactBase
                        Kernel3.FastDeferred Kernel3.GcDefs Kernel3.GcInv Kernel3.GcMain Kernel3.GcHist Kernel3.GcFastChain Kernel3.GcFastMain
                        Kernel4.AllDefs Kernel4.AllBridges Kernel4.AllFaces Kernel4.AllFacesGc.
Import ListNotations.
Local Open Scope nat_scope.

Lemma collect_garbage_immediate s : deferred s = false -> collect_garbage s = s.
Proof. intros D. unfold collect_garbage. rewrite D. reflexivity. Qed.

Lemma faces_from_refl s : faces_from s s.
Proof. apply faces_from_same_flags; reflexivity. Qed.

(* what a collection in deferred mode leaves *)
Definition collected (s t : mesh) : Prop :=
  ginv t /\ szd t /\ faces_simple t /\ no_flags t /\ no_pending t /\ deferred t = true /\ fast t = fast s /\ faces_from s t.

Theorem collect_garbage_collected s : all_inv s -> deferred s = true -> collected s (collect_garbage s).
Proof.
  intros H D. pose proof (all_inv_gc_ready s H D) as R. pose proof (szd_collect_garbage s (all_inv_szd s H)) as Z.
  destruct (fast s) eqn:F.
  - destruct (collect_garbage_fast_post s R (all_inv_sized s H) F) as (rv & re & rf & rc & Po & NF & NG & Dt & Ft & It & _).
    pose proof (all_inv_ginv s H) as ((_ & _ & _ & Rf & _) & _ & U & _).
    pose proof (faces_from_gc_fast_post s _ rv re rf rc Po Rf U) as FF.
    split; [exact It|]. split; [exact Z|]. split; [exact (faces_simple_from _ _ FF (all_inv_faces_simple s H))|]. split; [exact NF|].
    split; [apply no_pending_needs_gc; exact NG|]. split; [exact Dt|]. split; [congruence|exact FF].
  - pose proof (collect_garbage_nonfast_logical s R F) as C. cbv zeta in C.
    destruct C as (_ & _ & _ & _ & _ & _ & _ & _ & NF & NG & _ & Dt & Ft & _ & (_ & _ & It) & _).
    pose proof (faces_from_gc_nonfast s R F) as FF.
    split; [exact It|]. split; [exact Z|]. split; [exact (faces_simple_from _ _ FF (all_inv_faces_simple s H))|]. split; [exact NF|].
    split; [apply no_pending_needs_gc; exact NG|]. split; [exact Dt|]. split; [congruence|exact FF].
Qed.

Lemma collected_all_inv s t : collected s t -> all_inv t.
Proof.
  intros (I & Z & FS & NF & NP & _). split; [exact I|]. split; [exact Z|]. split; [exact FS|]. split; [apply cnt_inv_no_flags; exact NF|].
  intros _. exact (conj NF NP).
Qed.

Theorem all_inv_collect_garbage s : all_inv s -> all_inv (collect_garbage s) /\ faces_from s (collect_garbage s).
Proof.
  intros H. destruct (deferred s) eqn:D.
  - pose proof (collect_garbage_collected s H D) as C. split; [exact (collected_all_inv _ _ C)|]. exact (proj2 (proj2 (proj2 (proj2 (proj2 (proj2 (proj2 C))))))).
  - rewrite (collect_garbage_immediate s D). split; [exact H|apply faces_from_refl].
Qed.

(* enable_deferred_deletion: the state whose modes are then set *)
Definition ed_mid (b : bool) (s : mesh) : mesh := if deferred s && negb b then collect_garbage s else s.

Lemma enable_deferred_eq b s : enable_deferred b s = set_flags (vbu (ed_mid b s)) (ebu (ed_mid b s)) (fbu (ed_mid b s)) b (fast (ed_mid b s)) (ed_mid b s).
Proof. reflexivity. Qed.

Theorem all_inv_enable_deferred b s : all_inv s -> all_inv (enable_deferred b s) /\ faces_from s (enable_deferred b s).
Proof.
  intros H. rewrite enable_deferred_eq.
  assert (M : all_inv (ed_mid b s) /\ faces_from s (ed_mid b s) /\ (b = false -> no_flags (ed_mid b s) /\ no_pending (ed_mid b s))).
  { unfold ed_mid. destruct (deferred s) eqn:D; destruct b; cbn [andb negb].
    - split; [exact H|]. split; [apply faces_from_refl|discriminate].
    - pose proof (collect_garbage_collected s H D) as C. split; [exact (collected_all_inv _ _ C)|].
      destruct C as (_ & _ & _ & NF & NP & _ & _ & FF). split; [exact FF|]. intros _. exact (conj NF NP).
    - split; [exact H|]. split; [apply faces_from_refl|discriminate].
    - split; [exact H|]. split; [apply faces_from_refl|]. intros _. exact (all_inv_quiet s H D). }
  destruct M as (A & FF & Q). generalize dependent (ed_mid b s). intros m A FF Q.
  split; [apply all_inv_set_modes; assumption|].
  destruct FF as (gv & ge & FF). exists gv, ge. exact FF.
Qed.
