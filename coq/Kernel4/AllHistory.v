(* Kernel4/AllHistory.v -- C01 over ONE history class that mixes all modes: the invariant full_inv (Kernel4/AllDefs.v: the cache
   invariant all_inv, the cell-topology part cells_topo, duplicate-free cache lists lists_nodup) holds after EVERY history accepted
   by all_ok - additions,
   topology-checked add_cell on free halffaces, deletions of live entities in all four (deferred x fast) modes, collect_garbage,
   enable_deferred / enable_fast both ways, vertex incidences on/off, edge / face incidences off AND on again, clear, property
   operations, the four index swaps (also with deletions pending).  Every step either appends (faces_grow) or renumbers (faces_from,
   Kernel4/AllFaces.v) the live faces.  The two older history classes (Kernel2/ExactHistory.v hist_ok, Kernel3/FastHistory.v
   fhist_ok) are sub-classes. *)
From Coq Require Import ZArith Lia Bool Arith List ZifyNat ZifyBool.
From OVM Require Import Base.ListX Base.ListLemmas Kernel.State Kernel.Ops Kernel.Mirror Kernel.Closure Kernel.ExactInv Kernel.ExactRun Kernel.Sizes Kernel.InvB Kernel.DeferredDelete
                        Kernel.ShiftFace Kernel2.ExactBase Kernel2.ExactAddCell Kernel2.ExactHistory Kernel3.FastHistory Kernel3.GcDefs Kernel3.GcHist
                        Kernel4.AllDefs Kernel4.AllBridges Kernel4.AllFaces Kernel4.AllStepMisc Kernel4.AllExec Kernel4.AllCells Kernel4.AllCellsSteps
                        Kernel4.AllReenable Kernel4.AllNoDupBase Kernel4.AllNoDupSteps Kernel4.AllReenable2 Kernel4.AllCounts Kernel4.AllStepAddCell.
Import ListNotations.
Local Open Scope nat_scope.

(* ================================================================== one valid call *)

Theorem full_inv_exec s o : full_inv s -> all_op s o = true -> valid_op s o = true -> valid_op2 s o = true ->
  full_inv (fst (exec s o)) /\ (is_addition o = false -> faces_from s (fst (exec s o))).
Proof.
  intros (H & T & LN & CO) G V V2. destruct (reenable_case s o) eqn:NR.
  - destruct o; try discriminate NR; cbn [reenable_case all_op exec fst is_addition valid_op valid_op2] in *.
    + (* add_cell while an incidence kind is off *)
      split; [|discriminate]. apply negb_true_iff in NR.
      apply andb_true_iff in V2. destruct V2 as [V2 Vopp]. apply andb_true_iff in V2. destruct V2 as [Vchk Vfree]. subst check.
      destruct (cell_check s hfs) eqn:CK.
      2: { pose proof (add_cell_rejected_state s hfs CK) as Q. destruct (add_cell s hfs true). cbn [fst] in *. subst. exact (conj H (conj T (conj LN CO))). }
      assert (NC : new_cell_free s hfs).
      { split; [exact CK|]. intros hf Hhf. pose proof (forallb_lt _ _ V hf Hhf) as Lf. apply live_f_lt in Lf. destruct Lf as [A B].
        pose proof (forallb_lt _ _ Vfree hf Hhf) as Fr. pose proof (forallb_lt _ _ Vopp hf Hhf) as Op. cbn beta in Fr, Op.
        split; [exact A|]. split; [exact B|]. split.
        - destruct (fbu s) eqn:Fb.
          + apply (free_of_cache s hf Fb (proj1 (proj2 (proj2 (all_inv_bu_inv s H))))); [lia|]. destruct (cell_of s hf); [discriminate Fr|reflexivity].
          + cbn [orb] in G. exact (free_scan_b_sound s hfs G hf Hhf).
        - intros Hin. apply memb_In in Hin. rewrite Hin in Op. discriminate. }
      destruct (all_inv_add_cell_partial s hfs H T NR NC) as [A B].
      destruct (add_cell_partial_lists s hfs (all_inv_bu_inv s H) NR) as (o1 & o2 & f1 & f2 & f3).
      pose proof (counts_ok_grows _ _ (grows_add_cell s hfs true) CO) as CO'.
      destruct (add_cell s hfs true) as [t r]. cbn [fst] in *.
      split; [exact A|]. split; [exact B|]. split; [|exact CO'].
      split; [intros Vb; rewrite o1; apply (proj1 LN); congruence|intros Eb; rewrite o2; apply (proj2 LN); congruence].
    + (* enable_ebu true, edge incidences off *) apply andb_true_iff in NR. destruct NR as [-> NR]. apply negb_true_iff in NR.
      destruct (reenable_ebu s H T NR) as (A & B & C).
      split; [exact (conj A (conj B (conj (lists_nodup_reenable_ebu s H T LN NR) (counts_ok_enable_ebu_on s H T NR CO))))|intros _; exact C].
    + (* enable_fbu true, face incidences off *)
      apply andb_true_iff in NR. destruct NR as [-> NR]. apply negb_true_iff in NR. pose proof (counts_ok_enable_fbu true s CO) as CO'. destruct (ebu s) eqn:E.
      * destruct (reenable_fbu_reorder s H T (proj2 LN) E NR) as (A & B & C & o1 & o2 & o3 & o4).
        split; [|intros _; exact C]. split; [exact A|]. split; [exact B|]. split; [|exact CO']. split; [intros Vb; rewrite o1; apply (proj1 LN); congruence|intros _; exact o4].
      * destruct (reenable_fbu s H T NR E) as (A & B & C). split; [exact (conj A (conj B (conj (lists_nodup_reenable_fbu_plain s LN NR E) CO')))|intros _; exact C].
  - destruct (all_inv_exec s o H G NR V V2) as [A B]. split; [|exact B].
    exact (conj A (conj (cells_topo_exec s o H T G NR V V2) (conj (lists_nodup_exec s o H LN G NR V V2) (counts_ok_exec s o H CO G NR V V2)))).
Qed.

(* an unchecked add_cell whose cell passes the check is the checked call *)
Lemma add_cell_unchecked s hfs : cell_check s hfs = true -> add_cell s hfs false = add_cell s hfs true.
Proof. intros C. unfold add_cell. rewrite C. reflexivity. Qed.

Lemma valid_op3_reduce s o : valid_op3 s o = true ->
  exists o', exec s o' = exec s o /\ valid_op s o' = valid_op s o /\ all_op s o' = all_op s o /\ valid_op2 s o' = true /\
             is_addition o' = is_addition o /\ loop_op s o' = loop_op s o.
Proof.
  intros V3. destruct o as [| | | | |hfs check| | | | | | | | | | | | | | | | | | | | | ]; try (eexists; repeat split; try reflexivity; exact V3).
  cbn [valid_op3] in V3. destruct check; [exists (AddCell hfs true); repeat split; exact V3|].
  cbn [orb] in V3. destruct (cell_check s hfs) eqn:C; [|discriminate V3].
  exists (AddCell hfs true). cbn [exec]. rewrite (add_cell_unchecked s hfs C). repeat split. exact V3.
Qed.

Theorem full_inv_exec3 s o : full_inv s -> all_op s o = true -> valid_op s o = true -> valid_op3 s o = true ->
  full_inv (fst (exec s o)) /\ (is_addition o = false -> faces_from s (fst (exec s o))).
Proof.
  intros H G V V3. destruct (valid_op3_reduce s o V3) as (o' & E & Ev & Ea & V2 & Ei & _). rewrite <- E, <- Ei.
  apply full_inv_exec; [exact H|congruence|congruence|exact V2].
Qed.

Theorem full_inv_step s o : full_inv s -> all_op s o = true -> (valid_op s o = true -> valid_op3 s o = true) -> full_inv (next s o).
Proof.
  intros H G V3. destruct (valid_op s o) eqn:V.
  - rewrite (next_valid s o V). exact (proj1 (full_inv_exec3 s o H G V (V3 eq_refl))).
  - rewrite (next_invalid s o V). exact H.
Qed.

(* ================================================================== histories *)

Lemma full_inv_empty : full_inv empty_mesh.
Proof.
  split; [apply all_inv_empty|split; [apply cells_topo_b_sound; vm_compute; reflexivity|split; [apply lists_nodup_b_sound; vm_compute; reflexivity|]]].
  apply counts_ok_b_sound. vm_compute. reflexivity.
Qed.

Lemma full_inv_run_from ops : forall s, full_inv s -> all_ok_from s ops = true -> full_inv (run_from s ops).
Proof.
  induction ops as [|o r IH]; intros s H F; [exact H|]. cbn [all_ok_from] in F.
  apply andb_true_iff in F. destruct F as [F F3]. apply andb_true_iff in F. destruct F as [F1 F2].
  unfold run_from. cbn [fold_left]. apply IH; [|exact F3]. apply full_inv_step; [exact H|exact F1|].
  intros V. rewrite V in F2. exact F2.
Qed.

Theorem full_inv_along_histories ops : all_ok ops = true -> full_inv (run ops).
Proof. intros F. apply full_inv_run_from; [apply full_inv_empty|exact F]. Qed.

Theorem all_inv_along_histories ops : all_ok ops = true -> all_inv (run ops).
Proof. intros F. exact (proj1 (full_inv_along_histories ops F)). Qed.

Theorem full_inv_b_sound s : full_inv_b s = true -> full_inv s.
Proof.
  unfold full_inv_b. rewrite !andb_true_iff. intros [[[A B] C] D].
  exact (conj (all_inv_b_sound s A) (conj (cells_topo_b_sound s B) (conj (lists_nodup_b_sound s C) (counts_ok_b_sound s D)))).
Qed.

(* a history may be continued from any state satisfying the invariant *)
Lemma all_ok_from_app ops1 ops2 : forall s, all_ok_from s (ops1 ++ ops2) = all_ok_from s ops1 && all_ok_from (run_from s ops1) ops2.
Proof.
  induction ops1 as [|o r IH]; intros s; [reflexivity|]. cbn [app all_ok_from]. rewrite IH. unfold run_from. cbn [fold_left]. fold (next s o).
  rewrite andb_assoc. reflexivity.
Qed.

(* ================================================================== the two older history classes are sub-classes *)

Lemma valid_op2_3 s o : valid_op2 s o = true -> valid_op3 s o = true.
Proof.
  intros V2. destruct o; try exact V2. cbn [valid_op3 valid_op2] in *.
  apply andb_true_iff in V2. destruct V2 as [V2 Vo]. apply andb_true_iff in V2. destruct V2 as [-> Vf]. cbn [orb]. rewrite Vf, Vo. reflexivity.
Qed.

Lemma valid_or_2_3 s o : negb (valid_op s o) || valid_op2 s o = true -> negb (valid_op s o) || valid_op3 s o = true.
Proof. intros H. apply orb_true_iff in H. apply orb_true_iff. destruct H as [H|H]; [left; exact H|right; apply valid_op2_3; exact H]. Qed.


Lemma hist_ok_all_ok_from ops : forall s, Hinv s -> hist_ok_from s ops = true -> all_ok_from s ops = true.
Proof.
  induction ops as [|o r IH]; intros s Hi F; [reflexivity|]. cbn [hist_ok_from all_ok_from] in *.
  apply andb_true_iff in F. destruct F as [F F3]. apply andb_true_iff in F. destruct F as [F1 F2].
  pose proof Hi as ((_ & E & Fb & _) & _).
  assert (G : all_op s o = true) by (destruct o; try discriminate F1; cbn [all_op]; try reflexivity; rewrite Fb; reflexivity).
  rewrite G, (valid_or_2_3 s o F2). cbn [andb]. apply IH; [|exact F3]. apply Hinv_step; [exact Hi|exact F1|intros V; rewrite V in F2; exact F2].
Qed.

Theorem hist_ok_all_ok ops : hist_ok ops = true -> all_ok ops = true.
Proof.
  intros F. apply hist_ok_all_ok_from; [|exact F]. split; [apply bu_inv2_empty|split; [apply K_empty|apply szd_empty]].
Qed.

Lemma fhist_ok_all_ok_from ops : forall s, fast_inv s -> fhist_ok_from s ops = true -> all_ok_from s ops = true.
Proof.
  induction ops as [|o r IH]; intros s J F; [reflexivity|]. cbn [fhist_ok_from all_ok_from] in *.
  apply andb_true_iff in F. destruct F as [F F3]. apply andb_true_iff in F. destruct F as [F1 F2].
  assert (G : all_op s o = true).
  { destruct o; try discriminate F1; cbn [all_op fhist_op] in *; try reflexivity. apply andb_true_iff in F1. rewrite (proj2 F1). reflexivity. }
  rewrite G, (valid_or_2_3 s o F2). cbn [andb].
  assert (V2 : valid_op s o = true -> valid_op2 s o = true) by (intros V; rewrite V in F2; exact F2).
  apply IH; [apply fast_inv_step; assumption|exact F3].
Qed.

Theorem fhist_ok_all_ok ops : fhist_ok ops = true -> all_ok ops = true.
Proof. intros F. apply fhist_ok_all_ok_from; [apply fast_inv_empty|exact F]. Qed.
