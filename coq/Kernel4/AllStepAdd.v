(* Kernel4/AllStepAdd.v -- the unified invariant all_inv (Kernel4/AllDefs.v) through the ADDITIONS, in every mode and every
   incidence configuration: add_vertex, add_n_vertices, add_edge, add_face, add_face from vertices, and the topology-checked
   add_cell on free halffaces (edge and face incidences on).  The additions do not read the two deletion modes (Kernel3/FastHistory.v
   add_x_modes), so with both incidence kinds on the deferred-mode lemmas about bu_inv2 (Kernel2/Exact*.v) transport; otherwise the
   growth lemmas about bu_inv (Kernel/ExactInv.v, ExactRun.v) apply.  Flags, counters, up_closed: Kernel3/GcHist.v K_add_x. *)
From Coq Require Import ZArith Lia Bool Arith List ZifyNat ZifyBool.
From OVM Require Import Base.ListX Base.ListLemmas Base.ListLemmas2 Kernel.State Kernel.Ops Kernel.Mirror Kernel.Construct Kernel.Recompute Kernel.Closure
                        Kernel.ExactInv Kernel.ExactRun Kernel.Sizes Kernel.GcFacts Kernel.DeferredDelete Kernel.ShiftFace Kernel.ShiftCompose
                        Kernel2.LookupModel Kernel2.ReorderExact Kernel2.ExactBase Kernel2.ExactAddCell Kernel2.ExactHistory
                        Kernel3.FastDeferred Kernel3.FastHistory Kernel3.GcDefs Kernel3.GcInv Kernel3.GcDeferred Kernel3.GcHist
                        Kernel4.AllDefs Kernel4.AllBridges Kernel4.AllFaces.
Import ListNotations.
Ltac Zify.zify_post_hook ::= Z.div_mod_to_equations.
Local Open Scope nat_scope.

(* ================================================================== the generic addition step *)

Lemma all_inv_bu_inv2_modes s f : all_inv s -> ebu s = true -> fbu s = true -> bu_inv2 (set_modes true f s).
Proof.
  intros H E Fb. pose proof (all_inv_ginv s H) as I. pose proof (ginv_cells_ref_live s I) as CL.
  destruct I as (B & _ & _ & X). destruct (X E Fb) as [SN LC].
  split; [exact B|]. split; [exact E|]. split; [exact Fb|]. split; [reflexivity|]. split; [exact SN|]. split; [exact CL|].
  exact (conj LC (all_inv_faces_simple s H)).
Qed.

Lemma grows_modes s s' : grows s s' -> deferred s' = deferred s /\ ebu s' = ebu s /\ fbu s' = fbu s.
Proof. intros (_ & _ & _ & _ & _ & _ & _ & _ & C & (_ & E & F)). split; [exact (cv_deferred _ _ C)|exact (conj E F)]. Qed.

Theorem all_inv_addition s s' : all_inv s -> grows s s' -> szd s' -> K s' -> faces_simple s' ->
  (ebu s && fbu s = false -> bu_inv s') ->
  (ebu s = true -> fbu s = true -> bu_inv2 (set_modes true (fast s) s) -> bu_inv2 (set_modes true (fast s) s')) -> all_inv s'.
Proof.
  intros H G Z [U Cn] FS H1 H2. destruct (grows_modes s s' G) as (Dm & Em & Fm).
  assert (GI : bu_inv s' /\ gext s').
  { destruct (ebu s && fbu s) eqn:Bo.
    - apply andb_true_iff in Bo. destruct Bo as [E Fb].
      pose proof (H2 E Fb (all_inv_bu_inv2_modes s (fast s) H E Fb)) as ((VO & EO & FO & R & L) & _ & _ & _ & SN & _ & LC & _).
      split; [exact (conj VO (conj EO (conj FO (conj R L))))|]. intros _ _. exact (conj SN LC).
    - split; [exact (H1 eq_refl)|]. intros E Fb. rewrite Em, Fm in *. rewrite E, Fb in Bo. discriminate. }
  destruct GI as [B X].
  split; [exact (conj B (conj (proj1 Z) (conj U X)))|]. split; [exact Z|]. split; [exact FS|]. split; [exact Cn|].
  intros D. rewrite Dm in D. destruct (all_inv_quiet s H D) as [NF NP]. exact (quiet_grows s s' (conj NF NP) G).
Qed.

(* ================================================================== how the additions change edges and faces *)

(* only edges appended *)
Definition edges_grow (s t : mesh) : Prop :=
  (forall e, e < ne s -> edge_at t e = edge_at s e) /\ ne s <= ne t /\ faces t = faces s /\ fdel t = fdel s.

Lemma edges_grow_refl s : edges_grow s s.
Proof. repeat split; auto. Qed.

Lemma edges_grow_trans s t u : edges_grow s t -> edges_grow t u -> edges_grow s u.
Proof.
  intros (A1 & A2 & A3 & A4) (B1 & B2 & B3 & B4). split; [|split; [lia|split; congruence]].
  intros e He. rewrite B1 by lia. apply A1. exact He.
Qed.

Lemma edges_grow_faces_grow s t P : edges_grow s t -> faces_grow s t P.
Proof.
  intros (A1 & A2 & A3 & A4). split; [exact A1|]. split.
  - intros f _. unfold face_at, f_deleted. rewrite A3, A4. auto.
  - intros f Hf Hf'. unfold nf in *. rewrite A3 in Hf'. lia.
Qed.

Lemma edges_grow_add_vertex s : edges_grow s (fst (add_vertex s)).
Proof.
  pose proof (add_vertex_view s) as W. cbv zeta in W. destruct W as (_ & w2 & w3 & _ & _ & w6 & _).
  split; [intros e _; unfold edge_at; rewrite w2; reflexivity|]. split; [unfold ne; rewrite w2; lia|auto].
Qed.

Lemma edges_grow_add_n_vertices n : forall s, edges_grow s (add_n_vertices n s).
Proof.
  induction n as [|n IH]; intros s; [apply edges_grow_refl|]. cbn [add_n_vertices].
  exact (edges_grow_trans _ _ _ (edges_grow_add_vertex s) (IH _)).
Qed.

Lemma edges_grow_append_edge s a b : edges_grow s (fst (append_edge s a b)).
Proof.
  pose proof (append_edge_view s a b) as W. cbv zeta in W. destruct W as (_ & w2 & w3 & _ & _ & w6 & _).
  split; [|split; [unfold ne; rewrite w2, app_length; lia|auto]].
  intros e He. unfold edge_at. rewrite w2. apply app_nth1. exact He.
Qed.

Lemma edges_grow_add_edge s a b d : edges_grow s (fst (add_edge s a b d)).
Proof.
  unfold add_edge. destruct d; [apply edges_grow_append_edge|]. destruct (find_dup_edge s a b); [apply edges_grow_refl|apply edges_grow_append_edge].
Qed.

Lemma edges_grow_add_face_v_step v w acc : edges_grow (fst acc) (fst (add_face_v_step v w acc)).
Proof.
  destruct acc as [s hes]. unfold add_face_v_step. pose proof (edges_grow_add_edge s v w false) as G. destruct (add_edge s v w false). exact G.
Qed.

Lemma edges_grow_add_face_v_edges first : forall vs acc, edges_grow (fst acc) (fst (add_face_v_edges first vs acc)).
Proof.
  induction vs as [|v t IH]; intros acc; [apply edges_grow_refl|]. cbn [add_face_v_edges]. destruct t as [|w t'].
  - apply edges_grow_add_face_v_step.
  - exact (edges_grow_trans _ _ _ (edges_grow_add_face_v_step v w acc) (IH _)).
Qed.

(* one face appended *)
Lemma faces_grow_append_face s hes (P : mesh -> list nat -> Prop) : length (fdel s) = nf s -> P (fst (append_face s hes)) hes ->
  faces_grow s (fst (append_face s hes)) P.
Proof.
  intros L Ph. pose proof (append_face_view s hes) as W. cbv zeta in W. set (t := fst (append_face s hes)) in *.
  destruct W as (_ & w2 & w3 & _ & _ & w6 & _). split; [intros e _; unfold edge_at; rewrite w2; reflexivity|]. split.
  - intros f Hf. unfold face_at, f_deleted. rewrite w3, w6. split; apply app_nth1; [exact Hf|rewrite L; exact Hf].
  - intros f Hf Hf' _. unfold nf in Hf'. rewrite w3, app_length in Hf'. cbn [length] in Hf'. assert (f = nf s) by (unfold nf in *; lia). subst f.
    unfold face_at. rewrite w3. unfold nf. rewrite nth_middle. exact Ph.
Qed.

Lemma faces_grow_add_face s hes c (P : mesh -> list nat -> Prop) : length (fdel s) = nf s ->
  (snd (add_face s hes c) <> None -> P (fst (add_face s hes c)) hes) -> faces_grow s (fst (add_face s hes c)) P.
Proof.
  intros L Ph. unfold add_face in *. destruct (c && negb (loop_ok s hes)).
  - apply edges_grow_faces_grow. apply edges_grow_refl.
  - pose proof (faces_grow_append_face s hes P L) as G. destruct (append_face s hes) as [t f]. cbn [fst snd] in *. apply G. apply Ph. discriminate.
Qed.

Lemma faces_grow_trans_edges s t u P : edges_grow s t -> faces_grow t u P -> faces_grow s u P.
Proof.
  intros (A1 & A2 & A3 & A4) (B1 & B2 & B3). assert (N : nf t = nf s) by (unfold nf; rewrite A3; reflexivity). split; [|split].
  - intros e He. rewrite B1 by lia. apply A1. exact He.
  - intros f Hf. destruct (B2 f ltac:(lia)) as [X Y]. unfold face_at, f_deleted in *. rewrite X, Y, A3, A4. auto.
  - intros f Hf. apply B3. lia.
Qed.

(* ================================================================== the six additions *)

Lemma szd_flag_lens s : szd s -> length (vdel s) = nv s /\ length (edel s) = ne s /\ length (fdel s) = nf s /\ length (cdel s) = nc s.
Proof. intros (a & b & c & d & _). unfold ne, nf, nc. auto. Qed.

Theorem all_inv_add_vertex s : all_inv s -> all_inv (fst (add_vertex s)).
Proof.
  intros H. apply (all_inv_addition s _ H (grows_add_vertex s)).
  - apply szd_add_vertex. exact (all_inv_szd s H).
  - apply K_add_vertex. exact (all_inv_K s H).
  - apply (faces_simple_grow s); [apply edges_grow_faces_grow, edges_grow_add_vertex|exact (all_inv_faces_simple s H)].
  - intros _. apply bu_inv_add_vertex. exact (all_inv_bu_inv s H).
  - intros _ _ B. pose proof (bu_inv2_add_vertex _ B) as B'. rewrite add_vertex_modes in B'. exact B'.
Qed.

Theorem all_inv_add_n_vertices n s : all_inv s -> all_inv (add_n_vertices n s).
Proof.
  intros H. apply (all_inv_addition s _ H (grows_add_n_vertices n s)).
  - apply szd_add_n_vertices. exact (all_inv_szd s H).
  - apply K_add_n_vertices. exact (all_inv_K s H).
  - apply (faces_simple_grow s); [apply edges_grow_faces_grow, edges_grow_add_n_vertices|exact (all_inv_faces_simple s H)].
  - intros _. apply bu_inv_add_n_vertices. exact (all_inv_bu_inv s H).
  - intros _ _ B. pose proof (bu_inv2_add_n_vertices n _ B) as B'. rewrite add_n_vertices_modes in B'. exact B'.
Qed.

Theorem all_inv_add_edge s a b d : all_inv s -> live_v s a = true -> live_v s b = true -> all_inv (fst (add_edge s a b d)).
Proof.
  intros H La Lb. apply live_v_parts in La, Lb. destruct La as [Ha Da]. destruct Lb as [Hb Db].
  destruct (szd_flag_lens s (all_inv_szd s H)) as (_ & Le & _).
  apply (all_inv_addition s _ H (grows_add_edge s a b d)).
  - apply szd_add_edge. exact (all_inv_szd s H).
  - apply K_add_edge; [exact (all_inv_K s H)|exact Le|exact Da|exact Db].
  - apply (faces_simple_grow s); [apply edges_grow_faces_grow, edges_grow_add_edge|exact (all_inv_faces_simple s H)].
  - intros _. apply bu_inv_add_edge; [exact (all_inv_bu_inv s H)|exact Ha|exact Hb].
  - intros _ _ B. pose proof (bu_inv2_add_edge _ a b d B Ha Hb) as B'. rewrite add_edge_modes in B'. exact B'.
Qed.

Theorem all_inv_add_face s hes c : all_inv s -> all_b (live_he s) hes = true -> simple_b hes = true -> all_inv (fst (add_face s hes c)).
Proof.
  intros H V3 V2. destruct (szd_flag_lens s (all_inv_szd s H)) as (_ & _ & Lf & _).
  assert (Rg : forall h, In h hes -> h < 2 * ne s) by (intros h Hh; exact (live_he_lt s h (forallb_lt _ _ V3 h Hh))).
  assert (HL : forall h, In h hes -> e_deleted s (h / 2) = false).
  { intros h Hh. pose proof (forallb_lt _ _ V3 h Hh) as L. apply live_e_lt in L. tauto. }
  apply (all_inv_addition s _ H (grows_add_face s hes c)).
  - apply szd_add_face. exact (all_inv_szd s H).
  - apply K_add_face; [exact (all_inv_K s H)|exact Lf|exact HL].
  - apply (faces_simple_grow s); [|exact (all_inv_faces_simple s H)]. apply faces_grow_add_face; [exact Lf|]. intros _. apply simple_b_sound. exact V2.
  - intros _. apply bu_inv_add_face; [exact (all_inv_bu_inv s H)|exact Rg].
  - intros _ _ B. pose proof (bu_inv2_add_face _ hes c B Rg (simple_b_sound _ V2)) as B'. rewrite add_face_modes in B'. exact B'.
Qed.

Lemma faces_grow_add_face_v s vs (P : mesh -> list nat -> Prop) : length (fdel s) = nf s ->
  (forall f t, vs = f :: t -> let acc := add_face_v_edges f vs (s, []) in P (fst (add_face (fst acc) (snd acc) false)) (snd acc)) ->
  faces_grow s (fst (add_face_v s vs)) P.
Proof.
  intros L Ph. unfold add_face_v. destruct vs as [|f t]; [apply edges_grow_faces_grow, edges_grow_refl|].
  specialize (Ph f t eq_refl). cbv zeta in Ph.
  pose proof (edges_grow_add_face_v_edges f (f :: t) (s, [])) as G. destruct (add_face_v_edges f (f :: t) (s, [])) as [s1 hes]. cbn [fst snd] in *.
  apply (faces_grow_trans_edges s s1); [exact G|]. apply faces_grow_add_face; [|intros _; exact Ph].
  destruct G as (_ & _ & G3 & G4). unfold nf. rewrite G3, G4. exact L.
Qed.

Theorem all_inv_add_face_v s vs : all_inv s -> all_b (live_v s) vs = true ->
  (match vs with [] => true | f :: _ => simple_b (snd (add_face_v_edges f vs (s, []))) end) = true -> all_inv (fst (add_face_v s vs)).
Proof.
  intros H V3 V2. destruct (szd_flag_lens s (all_inv_szd s H)) as (_ & _ & Lf & _).
  assert (Rg : forall v, In v vs -> v < nv s) by (intros v Hv; exact (live_v_lt s v (forallb_lt _ _ V3 v Hv))).
  apply (all_inv_addition s _ H (grows_add_face_v s vs)).
  - apply szd_add_face_v. exact (all_inv_szd s H).
  - apply K_add_face_v; [exact (all_inv_K s H)|exact (all_inv_bu_inv s H)|exact (all_inv_szd s H)|exact (all_live_v s vs V3)].
  - apply (faces_simple_grow s); [|exact (all_inv_faces_simple s H)]. apply faces_grow_add_face_v; [exact Lf|].
    intros f t ->. cbv zeta. apply simple_b_sound. exact V2.
  - intros _. apply bu_inv_add_face_v; [exact (all_inv_bu_inv s H)|exact Rg].
  - intros _ _ B.
    assert (Hs : forall f t, vs = f :: t -> simple_hes (snd (add_face_v_edges f vs (set_modes true (fast s) s, [])))).
    { intros f t ->. rewrite add_face_v_edges_modes. cbn [snd]. apply simple_b_sound. exact V2. }
    pose proof (bu_inv2_add_face_v _ vs B Rg Hs) as B'. rewrite add_face_v_modes in B'. exact B'.
Qed.

Lemma edges_grow_add_cell s hfs c : edges_grow s (fst (add_cell s hfs c)).
Proof.
  unfold add_cell. destruct (c && negb (cell_check s hfs)); [apply edges_grow_refl|].
  pose proof (kview_append_cell s hfs) as E. destruct (append_cell s hfs) as [t x]. cbn [fst] in *. unfold kview in E.
  injection E as e1 e2 _ _ _ e6 _ _ _ _ _. split; [intros e _; unfold edge_at; rewrite e1; reflexivity|]. split; [unfold ne; rewrite e1; lia|auto].
Qed.

Theorem all_inv_add_cell s hfs : all_inv s -> ebu s = true -> fbu s = true -> all_b (live_hf s) hfs = true ->
  forallb (fun hf => match cell_of s hf with None => true | Some _ => false end) hfs = true ->
  forallb (fun hf => negb (memb (opp hf) hfs)) hfs = true -> all_inv (fst (add_cell s hfs true)).
Proof.
  intros H E Fb V Vfree Vopp. destruct (szd_flag_lens s (all_inv_szd s H)) as (_ & _ & _ & Lc).
  destruct (cell_check s hfs) eqn:CK.
  2: { pose proof (add_cell_rejected_state s hfs CK) as Q. destruct (add_cell s hfs true). cbn [fst] in *. subst. exact H. }
  assert (HL : forall h, In h hfs -> f_deleted s (h / 2) = false).
  { intros h Hh. pose proof (forallb_lt _ _ V h Hh) as L. apply live_f_lt in L. tauto. }
  assert (NC : new_cell_ok (set_modes true (fast s) s) hfs).
  { split; [exact CK|]. intros hf Hhf. pose proof (forallb_lt _ _ V hf Hhf) as Lf. apply live_f_lt in Lf.
    pose proof (forallb_lt _ _ Vfree hf Hhf) as Fr. pose proof (forallb_lt _ _ Vopp hf Hhf) as Op. cbn beta in Fr, Op.
    destruct Lf as [A B]. split; [exact A|]. split; [exact B|]. split.
    - change (cell_of (set_modes true (fast s) s) hf) with (cell_of s hf). revert Fr. destruct (cell_of s hf); intros Fr; [discriminate Fr|reflexivity].
    - intros Hin. apply memb_In in Hin. rewrite Hin in Op. discriminate. }
  apply (all_inv_addition s _ H (grows_add_cell s hfs true)).
  - apply szd_add_cell. exact (all_inv_szd s H).
  - apply K_add_cell; [exact (all_inv_K s H)|exact Lc|exact HL].
  - apply (faces_simple_grow s); [apply edges_grow_faces_grow, edges_grow_add_cell|exact (all_inv_faces_simple s H)].
  - intros Off. rewrite E, Fb in Off. discriminate Off.
  - intros _ _ B. pose proof (bu_inv2_add_cell _ hfs B NC) as B'. rewrite add_cell_modes in B'. exact B'.
Qed.
