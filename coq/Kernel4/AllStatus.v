(* Kernel4/AllStatus.v -- StatusAttrib::garbage_collection (Kernel/StatusGC.v) is not an operation of Kernel/Ops.v, but everything it
   does BEFORE collecting - forcing deferred mode, deleting the status-marked live entities, the optional manifoldness pass (all
   three incidence kinds switched on, then deletions of live entities) - is a sequence of operations of the unified class.  So the
   state it collects (status_pre, Kernel3/GcStatus.v) satisfies the invariant whenever the state it is called on does: the
   hypotheses of C04_status_gc_tracks_handles_nonfast / _fast hold in EVERY reachable state (not only after deferred histories). *)
From Coq Require Import ZArith Lia Bool Arith List ZifyNat ZifyBool.
From OVM Require Import Base.ListX Base.ListLemmas Kernel.State Kernel.Ops Kernel.StatusGC Kernel.Sizes Kernel.SwapInvol Kernel.ExactRun
                        Kernel.Reenable Kernel2.ReorderExact Kernel2.ExactBase Kernel2.ExactHistory Kernel3.GcDefs Kernel3.GcHist Kernel3.GcCommute Kernel3.GcStatus
                        Kernel4.AllDefs Kernel4.AllBridges Kernel4.AllHistory.
Import ListNotations.
Local Open Scope nat_scope.

(* the invariant together with "deferred deletion on" *)
Definition dinv (s : mesh) : Prop := full_inv s /\ deferred s = true.

Lemma dinv_gc_ready s : dinv s -> gc_ready s.
Proof. intros [H D]. exact (all_inv_gc_ready s (proj1 H) D). Qed.

Lemma full_inv_op s o : full_inv s -> all_op s o = true -> valid_op3 s o = true -> full_inv (next s o).
Proof. intros H G V3. apply full_inv_step; [exact H|exact G|intros _; exact V3]. Qed.

(* a deletion of a live entity in deferred mode *)
Lemma dinv_delete s : dinv s ->
  (forall v, live_v s v = true -> dinv (delete_vertex v s)) /\ (forall e, live_e s e = true -> dinv (delete_edge e s)) /\
  (forall f, live_f s f = true -> dinv (delete_face f s)) /\ (forall c, live_c s c = true -> dinv (delete_cell c s)).
Proof.
  intros [H D]. pose proof (all_inv_gc_ready s (proj1 H) D) as R. pose proof (all_inv_faces_simple s (proj1 H)) as FS.
  split; [|split; [|split]]; intros x L.
  - split; [pose proof (full_inv_op s (DelVertex x) H eq_refl eq_refl) as T; unfold next, step in T; cbn [valid_op exec] in T; rewrite L in T; exact T|].
    apply live_v_parts in L. exact (proj1 (proj1 (GcCommute.ready_after_delete_vertex s R FS x (proj1 L)))).
  - split; [pose proof (full_inv_op s (DelEdge x) H eq_refl eq_refl) as T; unfold next, step in T; cbn [valid_op exec] in T; rewrite L in T; exact T|].
    apply live_e_lt in L. exact (proj1 (proj1 (GcCommute.ready_after_delete_edge s R FS x (proj1 L) (proj2 L)))).
  - split; [pose proof (full_inv_op s (DelFace x) H eq_refl eq_refl) as T; unfold next, step in T; cbn [valid_op exec] in T; rewrite L in T; exact T|].
    apply live_f_lt in L. exact (proj1 (proj1 (GcCommute.ready_after_delete_face s R FS x (proj1 L) (proj2 L)))).
  - split; [pose proof (full_inv_op s (DelCell x) H eq_refl eq_refl) as T; unfold next, step in T; cbn [valid_op exec] in T; rewrite L in T; exact T|].
    apply live_c_lt in L. exact (proj1 (proj1 (GcCommute.ready_after_delete_cell s R FS x (proj1 L) (proj2 L)))).
Qed.

Lemma dinv_fold (cond : mesh -> nat -> bool) (del : nat -> mesh -> mesh) l :
  (forall s x, dinv s -> cond s x = true -> dinv (del x s)) ->
  forall s, dinv s -> dinv (fold_left (fun s x => if cond s x then del x s else s) l s).
Proof.
  intros Hd. induction l as [|x l IH]; intros s H; [exact H|]. cbn [fold_left]. apply IH. destruct (cond s x) eqn:C; [exact (Hd s x H C)|exact H].
Qed.

Lemma andb_l (a b : bool) : a && b = true -> a = true.
Proof. intros H. apply andb_true_iff in H. exact (proj1 H). Qed.

Theorem dinv_sgc_marked mv me mf mc s : dinv s -> dinv (sgc_marked mv me mf mc s).
Proof.
  intros H. unfold sgc_marked.
  apply (dinv_fold (fun s c => live_c s c && memb c mc) delete_cell); [intros t x Ht C; exact (proj2 (proj2 (proj2 (dinv_delete t Ht))) x (andb_l _ _ C))|].
  apply (dinv_fold (fun s f => live_f s f && memb f mf) delete_face); [intros t x Ht C; exact (proj1 (proj2 (proj2 (dinv_delete t Ht))) x (andb_l _ _ C))|].
  apply (dinv_fold (fun s e => live_e s e && memb e me) delete_edge); [intros t x Ht C; exact (proj1 (proj2 (dinv_delete t Ht)) x (andb_l _ _ C))|].
  apply (dinv_fold (fun s v => live_v s v && memb v mv) delete_vertex); [intros t x Ht C; exact (proj1 (dinv_delete t Ht) x (andb_l _ _ C))|exact H].
Qed.

Lemma deferred_enable_ebu b s : deferred (enable_ebu b s) = deferred s.
Proof.
  unfold enable_ebu. destruct (b && negb (ebu s)).
  - match goal with |- context [if fbu ?u then reorder_edges ?es ?u else ?u] => set (es0 := es); set (u0 := u) end.
    assert (U : exists x, (if fbu u0 then reorder_edges es0 u0 else u0) = set_inc_hfs x u0).
    { destruct (fbu u0); [destruct (reorder_edges_frame2 es0 u0) as [x [-> _]]; exists x; reflexivity|exists (inc_hfs u0); symmetry; apply set_inc_hfs_self]. }
    destruct U as [x ->]. destruct (negb b); reflexivity.
  - destruct (negb b); reflexivity.
Qed.

Theorem dinv_sgc_manifold s : dinv s -> dinv (sgc_manifold s).
Proof.
  intros [H D]. unfold sgc_manifold.
  assert (H0 : dinv (enable_fbu true (enable_ebu true (enable_vbu true s)))).
  { split.
    - apply (full_inv_op _ (EnableFBU true)); [|reflexivity|reflexivity]. apply (full_inv_op _ (EnableEBU true)); [|reflexivity|reflexivity].
      exact (full_inv_op _ (EnableVBU true) H eq_refl eq_refl).
    - pose proof (Reenable.enable_fbu_effect true (enable_ebu true (enable_vbu true s))) as Ef. cbv zeta in Ef.
      destruct Ef as ((_ & _ & _ & _ & _ & _ & _ & _ & _ & (m1 & _) & _) & _). rewrite m1, deferred_enable_ebu.
      pose proof (Reenable.enable_vbu_effect true s) as Ev. cbv zeta in Ev. destruct Ev as ((_ & _ & _ & _ & _ & _ & _ & _ & _ & (n1 & _) & _) & _). congruence. }
  set (t0 := enable_fbu true (enable_ebu true (enable_vbu true s))) in *. clearbody t0.
  apply (dinv_fold (fun s v => live_v s v && (length (out_at s v) =? 0)) delete_vertex); [intros t x Ht C; exact (proj1 (dinv_delete t Ht) x (andb_l _ _ C))|].
  apply (dinv_fold (fun s e => live_e s e && (length (hfs_at s (2 * e)) =? 0)) delete_edge); [intros t x Ht C; exact (proj1 (proj2 (dinv_delete t Ht)) x (andb_l _ _ C))|].
  assert (E : forall l t, fold_left (fun s f => if live_f s f then match cell_of s (2 * f) with Some _ => s | None => match cell_of s (2 * f + 1) with Some _ => s | None => delete_face f s end end else s) l t =
                          fold_left (fun s f => if live_f s f && (match cell_of s (2 * f) with Some _ => false | None => match cell_of s (2 * f + 1) with Some _ => false | None => true end end) then delete_face f s else s) l t).
  { induction l as [|f l IH]; intros t; [reflexivity|]. cbn [fold_left]. rewrite <- IH. f_equal.
    destruct (live_f t f); [|reflexivity]. cbn [andb]. destruct (cell_of t (2 * f)); [reflexivity|]. destruct (cell_of t (2 * f + 1)); reflexivity. }
  rewrite E. apply (dinv_fold _ delete_face); [|exact H0]. intros t x Ht C. exact (proj1 (proj2 (proj2 (dinv_delete t Ht))) x (andb_l _ _ C)).
Qed.

Theorem full_inv_status_pre pm mv me mf mc s : full_inv s -> dinv (status_pre pm mv me mf mc s).
Proof.
  intros H. assert (H1 : dinv (sgc_marked mv me mf mc (enable_deferred true s))).
  { apply dinv_sgc_marked. split; [exact (full_inv_op s (EnableDeferred true) H eq_refl eq_refl)|reflexivity]. }
  unfold status_pre. cbv zeta. destruct pm; [apply dinv_sgc_manifold; exact H1|exact H1].
Qed.

(* hence in every reachable state the hypotheses of the StatusAttrib theorems hold *)
Theorem reach_status_pre ops pm mv me mf mc : all_ok ops = true -> let s2 := status_pre pm mv me mf mc (run ops) in
  gc_ready s2 /\ sized s2 /\ full_inv s2.
Proof.
  intros F. cbv zeta. pose proof (full_inv_status_pre pm mv me mf mc (run ops) (full_inv_along_histories ops F)) as D.
  split; [exact (dinv_gc_ready _ D)|]. split; [exact (all_inv_sized _ (proj1 (proj1 D)))|exact (proj1 D)].
Qed.
