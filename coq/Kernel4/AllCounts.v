(* Kernel4/AllCounts.v -- the four deleted-counters count EXACTLY the set flags (counts_ok, Kernel/DeferredDelete.v) in every state
   of the unified class: the logical counts n_vertices() etc. (size minus counter) are the numbers of live entities.  Outside
   deferred mode nothing is flagged and the counters are zero; in deferred mode additions append unset flags, a deletion of a live
   entity flags its closure - duplicate-free lists of live entities - and advances the counters by their lengths, swaps permute
   flags, everything else leaves flags and counters alone. *)
From Coq Require Import ZArith Lia Bool Arith List ZifyNat ZifyBool.
From OVM Require Import Base.ListX Base.ListLemmas Kernel.State Kernel.Ops Kernel.Mirror Kernel.Closure Kernel.ExactInv Kernel.ExactRun Kernel.Sizes Kernel.GcFacts
                        Kernel.DeferredDelete Kernel.SwapEffects Kernel.Reenable Kernel.ShiftFace Kernel.ShiftCompose Kernel2.ExactBase Kernel2.ExactHistory
                        Kernel3.FastDeferred Kernel3.FastHistory Kernel3.GcDefs Kernel3.GcInv Kernel3.GcDeferred Kernel3.GcHist
                        Kernel4.AllDefs Kernel4.AllBridges Kernel4.AllStepAdd Kernel4.AllStepDel Kernel4.AllStepGc Kernel4.AllStepSwap Kernel4.AllStepMisc
                        Kernel4.AllExec Kernel4.AllReenable Kernel4.AllReenable2.
Import ListNotations.
Local Open Scope nat_scope.

Lemma counts_ok_quiet s : no_flags s -> no_pending s -> counts_ok s.
Proof.
  intros (a & b & c & d) (p1 & p2 & p3 & p4). unfold counts_ok.
  rewrite (ntrue_all_false _ a), (ntrue_all_false _ b), (ntrue_all_false _ c), (ntrue_all_false _ d). auto.
Qed.

Lemma counts_ok_immediate s : all_inv s -> deferred s = false -> counts_ok s.
Proof. intros H D. destruct (all_inv_quiet s H D). apply counts_ok_quiet; assumption. Qed.

Lemma counts_ok_cnt_inv s : counts_ok s -> cnt_inv s.
Proof. intros (a & b & c & d). unfold cnt_inv. rewrite a, b, c, d. auto. Qed.

(* flags, counters *)
Definition fview (s : mesh) := (vdel s, edel s, fdel s, cdel s, (ndv s, nde s, ndf s, ndc s)).

Lemma counts_ok_fview s t : fview t = fview s -> counts_ok s -> counts_ok t.
Proof. unfold fview, counts_ok. intros E. injection E as e1 e2 e3 e4 e5 e6 e7 e8. rewrite e1, e2, e3, e4, e5, e6, e7, e8. tauto. Qed.

Lemma fview_of_kview s t : kview t = kview s -> fview t = fview s.
Proof. unfold kview, fview. intros E. injection E as _ _ _ e4 e5 e6 e7 e8 e9 e10 e11. congruence. Qed.

Lemma ntrue_app_repeat_false l k : ntrue (l ++ repeat false k) = ntrue l.
Proof. induction k as [|k IH]; [rewrite app_nil_r; reflexivity|]. replace (repeat false (S k)) with (repeat false k ++ [false]) by (rewrite <- repeat_cons; reflexivity). rewrite app_assoc, ntrue_app_false. exact IH. Qed.

Lemma counts_ok_grows s t : grows s t -> counts_ok s -> counts_ok t.
Proof.
  intros (k1 & k2 & k3 & k4 & A1 & A2 & A3 & A4 & A5 & _) (c1 & c2 & c3 & c4). unfold cv in A5. injection A5 as n1 n2 n3 n4 _ _.
  unfold counts_ok. rewrite A1, A2, A3, A4, !ntrue_app_repeat_false, n1, n2, n3, n4. auto.
Qed.

(* ================================================================== deferred deletions *)

Lemma live_closure s : all_inv s ->
  (forall v es, es = edges_at_vertex s v -> forall x, In x (rev es) -> x < length (edel s) /\ nth x (edel s) false = false) /\
  (forall es fs, fs = faces_at_edges s es -> forall x, In x (rev fs) -> x < length (fdel s) /\ nth x (fdel s) false = false) /\
  (forall fs cs, cs = cells_at_faces s fs -> forall x, In x (rev cs) -> x < length (cdel s) /\ nth x (cdel s) false = false).
Proof.
  intros H. destruct (all_inv_lens s H) as (Lv & Le & Lf & Lc). split; [|split].
  - intros v es -> x Hx. apply in_rev in Hx. apply edges_at_vertex_live in Hx. rewrite Le. exact Hx.
  - intros es fs -> x Hx. apply in_rev in Hx. apply faces_at_edges_live in Hx. rewrite Lf. exact Hx.
  - intros fs cs -> x Hx. apply in_rev in Hx. apply cells_at_faces_live in Hx. rewrite Lc. exact Hx.
Qed.

Theorem counts_ok_delete_def s : all_inv s -> deferred s = true -> counts_ok s ->
  (forall v, v < nv s -> v_deleted s v = false -> counts_ok (delete_vertex v s)) /\
  (forall e, e < ne s -> e_deleted s e = false -> counts_ok (delete_edge e s)) /\
  (forall f, f < nf s -> f_deleted s f = false -> counts_ok (delete_face f s)) /\
  (forall c, c < nc s -> c_deleted s c = false -> counts_ok (delete_cell c s)).
Proof.
  intros H D CO. destruct (all_inv_exact s H) as (VO & EO & FO). destruct (all_inv_lens s H) as (Lv & Le & Lf & Lc).
  destruct (live_closure s H) as (C1 & C2 & C3). split; [|split; [|split]]; intros x Hx Hl.
  - apply (dstep_counts_ok _ _ _ _ _ _ (dstep_delete_vertex s x D VO EO FO Hx) CO).
    + repeat constructor. simpl. tauto.
    + apply NoDup_rev, NoDup_edges_at_vertex.
    + apply NoDup_rev, NoDup_faces_at_edges.
    + apply NoDup_rev, NoDup_cells_at_faces.
    + intros y [<-|[]]. rewrite Lv. auto.
    + exact (C1 x _ eq_refl).
    + exact (C2 _ _ eq_refl).
    + exact (C3 _ _ eq_refl).
  - apply (dstep_counts_ok _ _ _ _ _ _ (dstep_delete_edge s x D EO FO Hx) CO).
    + constructor.
    + repeat constructor. simpl. tauto.
    + apply NoDup_rev, NoDup_faces_at_edges.
    + apply NoDup_rev, NoDup_cells_at_faces.
    + intros y [].
    + intros y [<-|[]]. rewrite Le. auto.
    + exact (C2 _ _ eq_refl).
    + exact (C3 _ _ eq_refl).
  - apply (dstep_counts_ok _ _ _ _ _ _ (dstep_delete_face s x D FO Hx) CO).
    + constructor.
    + constructor.
    + repeat constructor. simpl. tauto.
    + apply NoDup_rev, NoDup_cells_at_faces.
    + intros y [].
    + intros y [].
    + intros y [<-|[]]. rewrite Lf. auto.
    + exact (C3 _ _ eq_refl).
  - apply (dstep_counts_ok _ _ _ _ _ _ (delete_cell_deferred x s D) CO).
    + constructor.
    + constructor.
    + constructor.
    + repeat constructor. simpl. tauto.
    + intros y [].
    + intros y [].
    + intros y [].
    + intros y [<-|[]]. rewrite Lc. auto.
Qed.

(* ================================================================== every call *)

Lemma counts_ok_after t : all_inv t -> (deferred t = true -> counts_ok t) -> counts_ok t.
Proof. intros H X. destruct (deferred t) eqn:D; [exact (X eq_refl)|exact (counts_ok_immediate t H D)]. Qed.

Theorem counts_ok_exec s o : all_inv s -> counts_ok s -> all_op s o = true -> reenable_case s o = false ->
  valid_op s o = true -> valid_op2 s o = true -> counts_ok (fst (exec s o)).
Proof.
  intros H CO G NR V V2. pose proof (proj1 (all_inv_exec s o H G NR V V2)) as H'. apply (counts_ok_after _ H'). clear H'. intros D'.
  destruct (all_inv_lens s H) as (Lv & Le & Lf & Lc).
  destruct o; try discriminate G; cbn [exec valid_op valid_op2 all_op reenable_case] in *.
  - pose proof (grows_add_vertex s) as Gr. destruct (add_vertex s). exact (counts_ok_grows _ _ Gr CO).
  - exact (counts_ok_grows _ _ (grows_add_n_vertices n s) CO).
  - pose proof (grows_add_edge s a b dup) as Gr. destruct (add_edge s a b dup). exact (counts_ok_grows _ _ Gr CO).
  - pose proof (grows_add_face s hes check) as Gr. destruct (add_face s hes check). exact (counts_ok_grows _ _ Gr CO).
  - pose proof (grows_add_face_v s vs) as Gr. destruct (add_face_v s vs). exact (counts_ok_grows _ _ Gr CO).
  - pose proof (grows_add_cell s hfs check) as Gr. destruct (add_cell s hfs check). exact (counts_ok_grows _ _ Gr CO).
  - (* deletions: the new state is in deferred mode, so the old one was *) cbn [fst] in *. apply live_v_parts in V.
    destruct (deferred s) eqn:D; [exact (proj1 (counts_ok_delete_def s H D CO) v (proj1 V) (proj2 V))|].
    exfalso. pose proof (proj2 (Kernel3.FastHistory.fast_inv_delete_vertex v s (all_inv_fast_inv s H D) D (proj1 V))) as NP.
    pose proof (cv_deferred _ _ (cv_delete_vertex_immediate v s D)). congruence.
  - cbn [fst] in *. apply live_e_lt in V.
    destruct (deferred s) eqn:D; [exact (proj1 (proj2 (counts_ok_delete_def s H D CO)) e (proj1 V) (proj2 V))|].
    exfalso. pose proof (cv_deferred _ _ (cv_delete_edge_immediate e s D)). congruence.
  - cbn [fst] in *. apply live_f_lt in V.
    destruct (deferred s) eqn:D; [exact (proj1 (proj2 (proj2 (counts_ok_delete_def s H D CO))) f (proj1 V) (proj2 V))|].
    exfalso. pose proof (cv_deferred _ _ (cv_delete_face_immediate f s D)). congruence.
  - cbn [fst] in *. apply live_c_lt in V.
    destruct (deferred s) eqn:D; [exact (proj2 (proj2 (proj2 (counts_ok_delete_def s H D CO))) c (proj1 V) (proj2 V))|].
    exfalso. pose proof (cv_deferred _ _ (cv_delete_cell_immediate c s D)). congruence.
  - (* swaps: flags permuted, counters kept *) cbn [fst] in *. apply andb_true_iff in V. destruct V as [Va Vb]. apply Nat.ltb_lt in Va, Vb.
    destruct (Nat.eq_dec a b) as [->|N]; [rewrite swap_vertex_self; exact CO|].
    pose proof (swap_vertex_effect a b s N) as E. cbv zeta in E. destruct E as (_ & e2 & _ & _ & _ & e6 & e7 & e8 & _ & _ & _ & _ & _ & _ & _ & _ & (n1 & n2 & n3 & n4) & _).
    destruct CO as (c1 & c2 & c3 & c4). unfold counts_ok. rewrite e2, e6, e7, e8, n1, n2, n3, n4, ntrue_swap by (rewrite Lv; assumption). auto.
  - cbn [fst] in *. apply andb_true_iff in V. destruct V as [Va Vb]. apply Nat.ltb_lt in Va, Vb.
    destruct (Nat.eq_dec a b) as [->|N]; [rewrite swap_edge_self; exact CO|].
    pose proof (swap_edge_effect a b s N) as E. cbv zeta in E. destruct E as (_ & e2 & _ & _ & _ & _ & e7 & e8 & e9 & _ & _ & _ & _ & _ & _ & (n1 & n2 & n3 & n4) & _).
    destruct CO as (c1 & c2 & c3 & c4). unfold counts_ok. rewrite e2, e7, e8, e9, n1, n2, n3, n4, ntrue_swap by (rewrite Le; assumption). auto.
  - cbn [fst] in *. apply andb_true_iff in V. destruct V as [Va Vb]. apply Nat.ltb_lt in Va, Vb.
    destruct (Nat.eq_dec a b) as [->|N]; [rewrite swap_face_self; exact CO|].
    pose proof (swap_face_effect a b s N) as E. cbv zeta in E. destruct E as (_ & e2 & _ & _ & _ & _ & e7 & e8 & e9 & _ & _ & _ & _ & _ & _ & (n1 & n2 & n3 & n4) & _).
    destruct CO as (c1 & c2 & c3 & c4). unfold counts_ok. rewrite e2, e7, e8, e9, n1, n2, n3, n4, ntrue_swap by (rewrite Lf; assumption). auto.
  - cbn [fst] in *. apply andb_true_iff in V. destruct V as [Va Vb]. apply Nat.ltb_lt in Va, Vb.
    destruct (Nat.eq_dec a b) as [->|N]; [rewrite swap_cell_self; exact CO|].
    pose proof (swap_cell_effect a b s N) as E. cbv zeta in E. destruct E as (_ & e2 & _ & _ & _ & _ & e7 & e8 & e9 & _ & _ & _ & _ & _ & _ & _ & _ & (n1 & n2 & n3 & n4) & _).
    destruct CO as (c1 & c2 & c3 & c4). unfold counts_ok. rewrite e2, e7, e8, e9, n1, n2, n3, n4, ntrue_swap by (rewrite Lc; assumption). auto.
  - (* collect_garbage *) cbn [fst] in *. destruct (deferred s) eqn:D; [|rewrite (collect_garbage_immediate s D); exact CO].
    destruct (collect_garbage_collected s H D) as (_ & _ & _ & NF & NP & _). apply counts_ok_quiet; assumption.
  - cbn [fst]. apply counts_ok_quiet; [exact (proj1 (proj1 (proj1 (fast_inv_clear clear_props s))))|exact (proj2 (fast_inv_clear clear_props s))].
  - cbn [fst]. exact (counts_ok_fview s _ (fview_of_kview _ _ (kview_enable_vbu b s)) CO).
  - cbn [fst]. destruct b; cbn [andb] in NR; [apply negb_false_iff in NR; rewrite (enable_ebu_on_noop s NR); exact CO|exact CO].
  - cbn [fst]. destruct b; cbn [andb] in NR; [apply negb_false_iff in NR; rewrite (enable_fbu_on_noop s NR); exact CO|exact CO].
  - (* enable_deferred *) cbn [fst] in *. rewrite enable_deferred_eq in *. unfold ed_mid in *. destruct (deferred s) eqn:D; destruct b; cbn [andb negb] in *; try exact CO.
    destruct (collect_garbage_collected s H D) as (_ & _ & _ & NF & NP & _). apply counts_ok_quiet; assumption.
  - cbn [fst]. exact CO.
  - cbn [fst]. exact CO.
  - cbn [fst]. exact CO.
  - cbn [fst]. exact CO.
Qed.

(* the re-enabling calls change neither flags nor counters *)
Lemma fview_of_core_eq s t : core_eq s t -> fview t = fview s.
Proof. intros (_ & _ & _ & _ & c5 & c6 & c7 & c8 & (n1 & n2 & n3 & n4) & _). unfold fview. congruence. Qed.

Lemma counts_ok_enable_fbu b s : counts_ok s -> counts_ok (enable_fbu b s).
Proof. intros CO. pose proof (enable_fbu_effect b s) as E. cbv zeta in E. exact (counts_ok_fview s _ (fview_of_core_eq _ _ (proj1 E)) CO). Qed.

Lemma counts_ok_enable_ebu_on s : all_inv s -> cells_topo s -> ebu s = false -> counts_ok s -> counts_ok (enable_ebu true s).
Proof.
  intros H T E CO. destruct (fbu s) eqn:Fb.
  - rewrite (ro_result s E Fb).
    match goal with |- context [reorder_edges ?es ?u] => destruct (reorder_edges_frame2 es u) as [x [-> _]] end. exact CO.
  - pose proof (enable_ebu_effect_without_reorder true s (or_introl Fb)) as Ef. cbv zeta in Ef.
    exact (counts_ok_fview s _ (fview_of_core_eq _ _ (proj1 Ef)) CO).
Qed.
