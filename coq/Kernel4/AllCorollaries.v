(* Kernel4/AllCorollaries.v -- what the unified history theorem (Kernel4/AllHistory.v) gives in every reachable state:
   the three caches exact (C01 for the primitive upward queries), the hypotheses of the derived-query theorems of
   Props/Properties_C01_queries.v (bu_exact needs, beyond exactness, duplicate-free vertex lists: see outs_nodup below), and the
   hypotheses of the deletion theorems C02 (immediate modes) and of the collection theorems C04 (deferred mode). *)
From Coq Require Import ZArith Lia Bool Arith List ZifyNat ZifyBool.
From OVM Require Import Base.ListX Base.ListLemmas Kernel.State Kernel.Ops Kernel.Mirror Kernel.Closure Kernel.ExactInv Kernel.Sizes Kernel.SwapInvol Kernel.DeferredDelete
                        Kernel.ShiftFace Kernel.ShiftCompose Kernel2.LookupModel Kernel2.ReorderExact Kernel2.ExactBase
                        Kernel3.FastDeferred Kernel3.FastHistory Kernel3.GcDefs Kernel3.GcInv Kernel3.GcHist
                        Iter.BuildersProofs
                        Kernel4.AllDefs Kernel4.AllBridges Kernel4.AllHistory Kernel4.AllClosed.
Import ListNotations.
Ltac Zify.zify_post_hook ::= Z.div_mod_to_equations.
Local Open Scope nat_scope.

(* the entries below the length of a flag array: as many unset as the length minus the set ones *)
Lemma filter_index_length (p : bool -> bool) (l : list bool) :
  length (filter (fun i => p (nth i l false)) (seq 0 (length l))) = length (filter p l).
Proof.
  induction l as [|x l IH] using rev_ind; [reflexivity|]. rewrite app_length. cbn [length]. rewrite Nat.add_1_r, seq_S, !filter_app, !app_length.
  cbn [filter Nat.add]. rewrite app_nth2, Nat.sub_diag by lia. cbn [nth]. f_equal; [|destruct (p x); reflexivity].
  rewrite <- IH. f_equal. apply filter_ext_in. intros i Hi. apply in_seq in Hi. rewrite app_nth1 by lia. reflexivity.
Qed.

Lemma ntrue_plus_unset (l : list bool) : DeferredDelete.ntrue l + length (filter negb l) = length l.
Proof. unfold DeferredDelete.ntrue. induction l as [|b l IH]; [reflexivity|]. cbn [filter length]. destruct b; cbn [negb length]; lia. Qed.

Lemma live_count_minus (del : list bool) : length del - DeferredDelete.ntrue del = length (filter (fun i => negb (nth i del false)) (seq 0 (length del))).
Proof. rewrite (filter_index_length negb del). pose proof (ntrue_plus_unset del). lia. Qed.

(* ================================================================== exactness in every reachable state *)

Theorem reach_caches_exact ops : all_ok ops = true -> let s := run ops in
  vbu_ok s /\ ebu_ok s /\ fbu_ok s /\ refs_ok s /\ lens_ok s /\ up_closed s /\
  (ebu s = true -> fbu s = true -> slots_nodup s /\ live_cells_closed s) /\ faces_simple s /\ sized s.
Proof.
  intros F. cbv zeta. pose proof (all_inv_along_histories ops F) as H.
  destruct (all_inv_ginv _ H) as ((VO & EO & FO & R & L) & _ & U & X).
  exact (conj VO (conj EO (conj FO (conj R (conj L (conj U (conj X (conj (all_inv_faces_simple _ H) (all_inv_sized _ H))))))))).
Qed.

(* ================================================================== the hypotheses of the derived-query theorems *)

Lemma live_e_iff s e : live_e s e = true <-> e < ne s /\ e_deleted s e = false.
Proof. unfold live_e. rewrite andb_true_iff, Nat.ltb_lt, negb_true_iff. tauto. Qed.
Lemma live_f_iff s f : live_f s f = true <-> f < nf s /\ f_deleted s f = false.
Proof. unfold live_f. rewrite andb_true_iff, Nat.ltb_lt, negb_true_iff. tauto. Qed.
Lemma live_c_iff s c : live_c s c = true <-> c < nc s /\ c_deleted s c = false.
Proof. unfold live_c. rewrite andb_true_iff, Nat.ltb_lt, negb_true_iff. tauto. Qed.
Lemma live_v_iff s v : live_v s v = true <-> v < nv s /\ v_deleted s v = false.
Proof. unfold live_v. rewrite andb_true_iff, Nat.ltb_lt, negb_true_iff. tauto. Qed.

Theorem all_inv_wf_iter s : all_inv s -> wf_iter s /\ flags_sized s.
Proof.
  intros H. destruct (all_inv_ginv s H) as ((_ & _ & _ & (R1 & R2 & R3) & (L1 & L2 & L3 & L4 & L5 & L6)) & LV & (U1 & U2 & U3) & _).
  split; [|exact (conj LV (conj L4 (conj L5 L6)))].
  split; [|split; [|split; [|exact (conj L1 (conj L2 L3))]]].
  - intros e Le. apply live_e_iff in Le. destruct Le as [A B]. destruct (R1 e A B). destruct (U1 e A B). split; apply live_v_iff; auto.
  - intros f Lf h Hh. apply live_f_iff in Lf. destruct Lf as [A B]. apply live_e_iff. pose proof (R2 f A B h Hh). split; [lia|exact (U2 f A B h Hh)].
  - intros c Lc hf Hhf. apply live_c_iff in Lc. destruct Lc as [A B]. apply live_f_iff. pose proof (R3 c A B hf Hhf). split; [lia|exact (U3 c A B hf Hhf)].
Qed.

(* bu_exact (Iter/BuildersProofs.v) = exact caches + duplicate-free vertex lists + duplicate-free halfedge->halfface lists: the
   cache part and the list part of the invariant *)
Theorem full_inv_bu_exact s : full_inv s -> bu_exact s.
Proof.
  intros (H & _ & (ON & HN) & _). destruct (all_inv_ginv s H) as ((VO & EO & FO & _ & _) & _). split; [|split].
  - intros V v Hv. split; [exact (ON V v)|]. intros h. rewrite (VO V v Hv h), live_e_iff. split.
    + intros (A & B & C). split; [lia|]. split; [split; assumption|exact C].
    + intros (A & (B1 & B2) & C). auto.
  - intros E h Hh. split; [exact (HN E h)|]. intros hf. rewrite (EO E h Hh hf), live_f_iff. split.
    + intros (A & B & C). split; [lia|]. split; [split; assumption|exact C].
    + intros (A & (B1 & B2) & C). auto.
  - intros Fb hf Hhf c. rewrite (FO Fb hf Hhf c), live_c_iff. tauto.
Qed.

Theorem reach_query_hypotheses ops : all_ok ops = true -> bu_exact (run ops) /\ wf_iter (run ops) /\ flags_sized (run ops).
Proof.
  intros F. pose proof (full_inv_along_histories ops F) as H. destruct (all_inv_wf_iter _ (proj1 H)) as [W Fl].
  exact (conj (full_inv_bu_exact _ H) (conj W Fl)).
Qed.

Theorem reach_lists_nodup ops : all_ok ops = true -> let s := run ops in
  (vbu s = true -> forall v, NoDup (out_at s v)) /\ (ebu s = true -> forall h, NoDup (hfs_at s h)).
Proof. intros F. cbv zeta. destruct (full_inv_along_histories ops F) as (_ & _ & (ON & HN) & _). split; [intros V v; exact (ON V v)|intros E h; exact (HN E h)]. Qed.

(* the logical counts (size minus deleted-counter) are the numbers of live entities *)
Theorem reach_counts ops : all_ok ops = true -> let s := run ops in
  n_logical KV s = length (live_vertices s) /\ n_logical KE s = length (live_edges s) /\
  n_logical KF s = length (live_faces s) /\ n_logical KC s = length (live_cells s).
Proof.
  intros F. cbv zeta. destruct (full_inv_along_histories ops F) as (H & _ & _ & (c1 & c2 & c3 & c4)).
  destruct (all_inv_wf_iter _ H) as [_ (Lv & Le & Lf & Lc)]. cbn [n_logical]. rewrite c1, c2, c3, c4.
  split; [|split; [|split]].
  - unfold live_vertices, v_deleted. rewrite <- Lv. apply live_count_minus.
  - unfold live_edges, e_deleted. rewrite <- Le. apply live_count_minus.
  - unfold live_faces, f_deleted. rewrite <- Lf. apply live_count_minus.
  - unfold live_cells, c_deleted. rewrite <- Lc. apply live_count_minus.
Qed.

(* ================================================================== the hypotheses of C02 / C04 *)

Theorem reach_immediate ops : all_ok ops = true -> deferred (run ops) = false ->
  shift_inv2 (run ops) /\ no_pending (run ops) /\ sized (run ops).
Proof.
  intros F D. pose proof (all_inv_along_histories ops F) as H. destruct (all_inv_fast_inv _ H D) as [I NP].
  exact (conj I (conj NP (all_inv_sized _ H))).
Qed.

Theorem reach_deferred ops : all_ok ops = true -> deferred (run ops) = true ->
  gc_ready (run ops) /\ faces_simple (run ops) /\ sized (run ops).
Proof.
  intros F D. pose proof (all_inv_along_histories ops F) as H.
  exact (conj (all_inv_gc_ready _ H D) (conj (all_inv_faces_simple _ H) (all_inv_sized _ H))).
Qed.
