(* Kernel4/AllStepSwap.v -- the unified invariant all_inv through the four index swaps, in every mode, every incidence
   configuration and WITH deletions pending:
     swap_cell_indices            Kernel3/GcFastCellSwap.v ginv_swap_cell;
     swap_face / edge / vertex    Kernel4/AllStale{Face,Edge,Vertex}.v: even when a deferred-deleted cell / face / edge mentions one of
                                  the two handles (its stored definition goes stale - known finding D13 - but ginv does not read it). *)
From Coq Require Import ZArith Lia Bool Arith List ZifyNat ZifyBool.
From OVM Require Import Base.ListX Base.ListLemmas Kernel.State Kernel.Ops Kernel.Mirror Kernel.Closure Kernel.ExactInv Kernel.Sizes Kernel.GcFacts
                        Kernel.DeferredDelete Kernel.SwapEffects Kernel.SwapFaceCache Kernel.SwapEdgeCache Kernel.SwapVertexCache
                        Kernel.ShiftFace Kernel.ShiftCompose Kernel2.ExactBase
                        Kernel3.FastDefs Kernel3.FastBase Kernel3.FastDeferred Kernel3.GcDefs Kernel3.GcInv Kernel3.GcHist
                        Kernel3.GcFastBase Kernel3.GcFastCellSwap Kernel3.GcFastFaceSwap Kernel3.GcFastEdge Kernel3.GcFastVertex
                        Kernel4.AllDefs Kernel4.AllBridges Kernel4.AllFaces Kernel4.AllFacesSwap Kernel4.AllStaleFace Kernel4.AllStaleEdge Kernel4.AllStaleVertex.
Import ListNotations.
Ltac Zify.zify_post_hook ::= Z.div_mod_to_equations.
Local Open Scope nat_scope.

(* ================================================================== flags through a slot exchange *)

Lemma ntrue_cons b l : ntrue (b :: l) = (if b then 1 else 0) + ntrue l.
Proof. unfold ntrue. cbn [filter]. destruct b; reflexivity. Qed.

Lemma ntrue_upd i b l : i < length l -> ntrue (upd i b l) + (if nth i l false then 1 else 0) = ntrue l + (if b then 1 else 0).
Proof.
  revert i. induction l as [|x l IH]; intros [|i] Hi; cbn [length] in Hi; try lia; cbn [upd nth]; rewrite !ntrue_cons.
  - destruct x; destruct b; lia.
  - specialize (IH i ltac:(lia)). lia.
Qed.

Lemma ntrue_swap a b l : a < length l -> b < length l -> ntrue (swap_nth a b false l) = ntrue l.
Proof.
  intros Ha Hb. unfold swap_nth. cbv zeta.
  pose proof (ntrue_upd a (nth b l false) l Ha) as E1.
  pose proof (ntrue_upd b (nth a l false) (upd a (nth b l false) l) ltac:(rewrite upd_length; exact Hb)) as E2.
  rewrite nth_upd in E2. destruct (Nat.eqb_spec a b) as [->|N]; cbn [andb] in E2.
  - replace (b <? length l) with true in E2 by (symmetry; apply Nat.ltb_lt; exact Hb). destruct (nth b l false); lia.
  - destruct (nth a l false); destruct (nth b l false); lia.
Qed.

Lemma all_false_swap a b l : (forall i, nth i l false = false) -> forall i, nth i (swap_nth a b false l) false = false.
Proof.
  intros H i. unfold swap_nth. cbv zeta. rewrite !nth_upd, !H. destruct ((b =? i) && _); [reflexivity|]. destruct ((a =? i) && _); reflexivity.
Qed.

(* ================================================================== the generic swap step *)

(* a flag array after a swap: as many flags set as before, and all-false stays all-false *)
Definition flags_kept (l l' : list bool) : Prop :=
  ntrue l' = ntrue l /\ ((forall i, nth i l false = false) -> forall i, nth i l' false = false).

Lemma flags_kept_same l l' : l' = l -> flags_kept l l'.
Proof. intros ->. split; auto. Qed.

Lemma flags_kept_swap a b l l' : a < length l -> b < length l -> l' = swap_nth a b false l -> flags_kept l l'.
Proof. intros Ha Hb ->. split; [apply ntrue_swap; assumption|apply all_false_swap]. Qed.

Theorem all_inv_after_swap s t : all_inv s -> cv t = cv s ->
  flags_kept (vdel s) (vdel t) -> flags_kept (edel s) (edel t) -> flags_kept (fdel s) (fdel t) -> flags_kept (cdel s) (cdel t) ->
  ginv t -> szd t -> faces_from s t -> all_inv t.
Proof.
  intros H C [E1 F1] [E2 F2] [E3 F3] [E4 F4] I Z FF.
  split; [exact I|]. split; [exact Z|]. split; [exact (faces_simple_from _ _ FF (all_inv_faces_simple s H))|].
  unfold cv in C. injection C as c1 c2 c3 c4 c5 _. split.
  - destruct (all_inv_cnt s H) as (q1 & q2 & q3 & q4). unfold cnt_inv. rewrite E1, E2, E3, E4, c1, c2, c3, c4. auto.
  - intros D. rewrite c5 in D. destruct (all_inv_quiet s H D) as [(n1 & n2 & n3 & n4) (p1 & p2 & p3 & p4)]. split.
    + unfold no_flags, v_deleted, e_deleted, f_deleted, c_deleted. repeat split; [apply F1|apply F2|apply F3|apply F4]; assumption.
    + unfold no_pending. rewrite c1, c2, c3, c4. auto.
Qed.

Lemma all_inv_lens s : all_inv s -> length (vdel s) = nv s /\ length (edel s) = ne s /\ length (fdel s) = nf s /\ length (cdel s) = nc s.
Proof. intros H. destruct (all_inv_szd s H) as (a & b & c & d & _). unfold ne, nf, nc. auto. Qed.

(* ================================================================== cells *)

Theorem all_inv_swap_cell a b s : all_inv s -> a < nc s -> b < nc s ->
  all_inv (swap_cell_indices a b s) /\ faces_from s (swap_cell_indices a b s).
Proof.
  intros H Ha Hb. destruct (Nat.eq_dec a b) as [->|N]; [rewrite swap_cell_self; split; [exact H|apply faces_from_same_flags; reflexivity]|].
  destruct (all_inv_lens s H) as (_ & _ & _ & Lc).
  pose proof (swap_cell_effect a b s N) as E. cbv zeta in E. destruct E as (_ & e2 & _ & _ & e5 & e6 & e7 & e8 & e9 & _).
  assert (FF : faces_from s (swap_cell_indices a b s)) by (apply faces_from_same_flags; assumption).
  split; [|exact FF].
  apply (all_inv_after_swap s _ H (cv_swap_cell a b s)); try (apply flags_kept_same; assumption).
  - apply (flags_kept_swap a b); [rewrite Lc; exact Ha|rewrite Lc; exact Hb|exact e2].
  - apply ginv_swap_cell; [exact (all_inv_ginv s H)|exact Ha|exact Hb].
  - apply szd_swap_cell. exact (all_inv_szd s H).
  - exact FF.
Qed.

(* ================================================================== faces *)

Theorem all_inv_swap_face a b s : all_inv s -> a < nf s -> b < nf s ->
  all_inv (swap_face_indices a b s) /\ faces_from s (swap_face_indices a b s).
Proof.
  intros H Ha Hb. destruct (Nat.eq_dec a b) as [->|N]; [rewrite swap_face_self; split; [exact H|apply faces_from_same_flags; reflexivity]|].
  destruct (all_inv_lens s H) as (_ & _ & Lf & _). pose proof (all_inv_ginv s H) as I. pose proof I as ((VO & EO & FO & R & L) & _).
  pose proof (swap_face_effect a b s N) as E. cbv zeta in E. destruct E as (e1 & e2 & _ & _ & _ & e6 & e7 & e8 & e9 & _).
  assert (FF : faces_from s (swap_face_indices a b s)) by (apply (faces_from_face_swap s _ a b); assumption).
  split; [|exact FF].
  apply (all_inv_after_swap s _ H (cv_swap_face a b s)); try (apply flags_kept_same; assumption).
  - apply (flags_kept_swap a b); [rewrite Lf; exact Ha|rewrite Lf; exact Hb|exact e2].
  - exact (proj1 (ginv_swap_face_any a b s I Ha Hb)).
  - apply szd_swap_face. exact (all_inv_szd s H).
  - exact FF.
Qed.

(* ================================================================== edges *)

Lemma face_at_map_map (g : nat -> nat) ll f : nth f (map (map g) ll) [] = map g (nth f ll []).
Proof. change (@nil nat) with (map g []) at 1. apply map_nth. Qed.

Theorem all_inv_swap_edge a b s : all_inv s -> a < ne s -> b < ne s ->
  all_inv (swap_edge_indices a b s) /\ faces_from s (swap_edge_indices a b s).
Proof.
  intros H Ha Hb. destruct (Nat.eq_dec a b) as [->|N]; [rewrite swap_edge_self; split; [exact H|apply faces_from_same_flags; reflexivity]|].
  destruct (all_inv_lens s H) as (_ & Le & _). pose proof (all_inv_ginv s H) as I.
  pose proof (swap_edge_effect a b s N) as E. cbv zeta in E. destruct E as (e1 & e2 & _ & _ & _ & _ & e7 & e8 & e9 & _).
  destruct (ginv_swap_edge_any a b s I Ha Hb) as (It & LF & NFt).
  assert (FF : faces_from s (swap_edge_indices a b s)).
  { apply (faces_from_edge_swap s _ a b); try assumption. exact (ginv_face_refs s I). }
  split; [|exact FF].
  apply (all_inv_after_swap s _ H (cv_swap_edge a b s)); try (apply flags_kept_same; assumption).
  - apply (flags_kept_swap a b); [rewrite Le; exact Ha|rewrite Le; exact Hb|exact e2].
  - exact It.
  - apply szd_swap_edge. exact (all_inv_szd s H).
  - exact FF.
Qed.

(* ================================================================== vertices *)

Theorem all_inv_swap_vertex a b s : all_inv s -> a < nv s -> b < nv s ->
  all_inv (swap_vertex_indices a b s) /\ faces_from s (swap_vertex_indices a b s).
Proof.
  intros H Ha Hb. destruct (Nat.eq_dec a b) as [->|N]; [rewrite swap_vertex_self; split; [exact H|apply faces_from_same_flags; reflexivity]|].
  destruct (all_inv_lens s H) as (Lv & _). pose proof (all_inv_ginv s H) as I.
  pose proof (swap_vertex_effect a b s N) as E. cbv zeta in E. destruct E as (_ & e2 & _ & e4 & _ & e6 & e7 & e8 & _).
  destruct (ginv_swap_vertex_any a b s I Ha Hb) as (It & LE).
  assert (FF : faces_from s (swap_vertex_indices a b s)).
  { apply (faces_from_vertex_swap s _ a b); try assumption. exact (ginv_face_edges_live s I). }
  split; [|exact FF].
  apply (all_inv_after_swap s _ H (cv_swap_vertex a b s)); try (apply flags_kept_same; assumption).
  - apply (flags_kept_swap a b); [rewrite Lv; exact Ha|rewrite Lv; exact Hb|exact e2].
  - exact It.
  - apply szd_swap_vertex. exact (all_inv_szd s H).
  - exact FF.
Qed.
