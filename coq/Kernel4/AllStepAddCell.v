(* Kernel4/AllStepAddCell.v -- the topology-checked add_cell while an incidence kind is OFF (with both kinds on: Kernel2/ExactAddCell.v
   through Kernel4/AllStepAdd.v).  No list is re-ordered; with the face incidences on the halfface->cell entries of the new cell are
   set.  "Free halffaces": with the face incidences on the library-side precondition reads the cache (valid_op2); with them off
   the class asks for it by scan (free_scan_b: no live cell lists the halfface).  The new cell is topologically closed because the
   topology check accepted it (Kernel/CellCheck.v cell_check_spec). *)
From Coq Require Import ZArith Lia Bool Arith List ZifyNat ZifyBool Permutation.
From OVM Require Import Base.ListX Base.ListLemmas Kernel.State Kernel.Ops Kernel.Mirror Kernel.Construct Kernel.Recompute Kernel.Closure Kernel.ExactInv
                        Kernel.CellCheck Kernel.Sizes Kernel.Reenable Kernel.ShiftFace Kernel.ShiftCompose Kernel2.LookupModel Kernel2.AdjacentProofs Kernel2.ReorderExact Kernel2.ExactBase
                        Kernel2.ExactAddCell Kernel2.ExactHistory Kernel3.FastDeferred Kernel3.FastHistory Kernel3.GcDefs Kernel3.GcInv Kernel3.GcHist
                        Kernel4.AllDefs Kernel4.AllBridges Kernel4.AllFaces Kernel4.AllStepAdd Kernel4.AllCells.
Import ListNotations.
Ltac Zify.zify_post_hook ::= Z.div_mod_to_equations.
Local Open Scope nat_scope.

Definition cell_free (s : mesh) (hf : nat) : Prop := forall c, c < nc s -> c_deleted s c = false -> ~ In hf (cell_at s c).

Lemma free_scan_b_sound s hfs : free_scan_b s hfs = true -> forall hf, In hf hfs -> cell_free s hf.
Proof.
  unfold free_scan_b. rewrite forallb_forall. intros H hf Hhf c Hc Hd Hin. specialize (H hf Hhf). rewrite forallb_forall in H.
  specialize (H c ltac:(apply In_live_cells; auto)). apply memb_In in Hin. rewrite Hin in H. discriminate.
Qed.

Lemma free_of_cache s hf : fbu s = true -> fbu_ok s -> hf < 2 * nf s -> cell_of s hf = None -> cell_free s hf.
Proof. intros Fb FO Hr N c Hc Hd Hin. pose proof (proj2 (FO Fb hf Hr c) (conj Hc (conj Hd Hin))). congruence. Qed.

(* the new cell: checked, on live free halffaces, no halfface with its opposite *)
Definition new_cell_free (s : mesh) (hfs : list nat) : Prop :=
  cell_check s hfs = true /\
  forall hf, In hf hfs -> hf / 2 < nf s /\ f_deleted s (hf / 2) = false /\ cell_free s hf /\ ~ In (opp hf) hfs.

(* the state add_cell leaves when nothing is re-ordered *)
Definition cell_added' (s : mesh) (hfs : list nat) : mesh :=
  if fbu s then cell_added s hfs
  else resize_cprops (S (nc s)) (set_cdel (cdel s ++ [false]) (set_cells (cells s ++ [hfs]) s)).

Lemma append_cell_noreorder s hfs : ebu s && fbu s = false -> append_cell s hfs = (cell_added' s hfs, nc s).
Proof.
  intros N. unfold append_cell, cell_added', cell_added. cbv zeta.
  change (fbu (resize_cprops (S (nc s)) (set_cdel (cdel s ++ [false]) (set_cells (cells s ++ [hfs]) s)))) with (fbu s).
  destruct (fbu s) eqn:Fb; [|reflexivity].
  match goal with |- context [if ebu ?t then _ else _] => change (ebu t) with (ebu s) end.
  rewrite andb_true_r in N. rewrite N. reflexivity.
Qed.

(* the count part of Kernel2/ExactAddCell.v closed_cell_of_check *)
Lemma topo_cell_of_check s c :
  matched_once (concat (map (halfface s) (cell_at s c))) ->
  (forall hf, In hf (cell_at s c) -> simple_hes (face_at s (hf / 2))) ->
  (forall hf, In hf (cell_at s c) -> ~ In (opp hf) (cell_at s c)) -> topo_cell s c.
Proof.
  intros [ND CL] Hs Hno hf Hin he Hhe. rewrite adj_matches_count.
  - apply (filter_unique_length _ (opp he)); [exact ND| |].
    + apply CL. apply in_concat. exists (halfface s hf). split; [apply in_map; exact Hin|exact Hhe].
    + intros x. rewrite Nat.eqb_eq. apply opp_eq_iff.
  - intros g Hg [->| ->].
    + destruct (filter (fun heh => opp heh =? he) (halfface s hf)) as [|z r] eqn:Ez; [reflexivity|]. exfalso.
      assert (Hz : In z (filter (fun heh => opp heh =? he) (halfface s hf))) by (rewrite Ez; left; reflexivity).
      apply filter_In in Hz. destruct Hz as [Hz Pz]. apply Nat.eqb_eq in Pz. apply opp_eq_iff in Pz. subst z.
      exact (halfface_simple s hf he (Hs hf Hin) Hhe Hz).
    + exfalso. exact (Hno hf Hin Hg).
Qed.

Section AddCellPartial.
Context (s : mesh) (hfs : list nat).
Context (B : bu_inv s) (FS : faces_simple s) (T : cells_topo s) (N : ebu s && fbu s = false) (NC : new_cell_free s hfs).

Let t := cell_added' s hfs.
Let c := nc s.

Lemma acp_views :
  nc t = S c /\ (forall c', cell_at t c' = if c' <? c then cell_at s c' else if c' =? c then hfs else []) /\
  (forall c', c_deleted t c' = if c' <? c then c_deleted s c' else false) /\
  nv t = nv s /\ edges t = edges s /\ faces t = faces s /\ edel t = edel s /\ fdel t = fdel s /\
  out_hes t = out_hes s /\ inc_hfs t = inc_hfs s /\ (vbu t = vbu s /\ ebu t = ebu s /\ fbu t = fbu s) /\
  (fbu s = true -> forall x, cell_of t x = if memb x hfs && (x <? 2 * nf s) then Some c else cell_of s x) /\
  (fbu s = true -> length (inc_cell t) = length (inc_cell s)) /\ length (cdel t) = S (length (cdel s)).
Proof.
  destruct B as (_ & _ & _ & _ & (_ & _ & L3 & _ & _ & L6)).
  unfold t, cell_added', cell_added. destruct (fbu s) eqn:Fb.
  - split; [unfold nc; cbn [cells set_inc_cell resize_cprops resize_props set_props set_cdel set_cells]; rewrite app_length; simpl; fold (nc s); lia|].
    split; [intros c'; unfold cell_at; cbn [cells set_inc_cell resize_cprops resize_props set_props set_cdel set_cells]; apply nth_app_last|].
    split; [intros c'; unfold c_deleted; cbn [cdel set_inc_cell resize_cprops resize_props set_props set_cdel set_cells]; rewrite nth_app_last, L6; fold c;
            destruct (c' <? c); [reflexivity|]; destruct (c' =? c); reflexivity|].
    repeat (split; [reflexivity|]). split; [repeat split; try reflexivity; exact Fb|]. split; [|split; [intros _; cbn [inc_cell set_inc_cell]; apply length_fold_upd|]].
    + intros _ x. unfold cell_of. cbn [inc_cell set_inc_cell]. rewrite nth_fold_upd, (L3 eq_refl). reflexivity.
    + cbn [cdel set_inc_cell resize_cprops resize_props set_props set_cdel set_cells]. rewrite app_length. simpl. lia.
  - split; [unfold nc; cbn [cells resize_cprops resize_props set_props set_cdel set_cells]; rewrite app_length; simpl; fold (nc s); lia|].
    split; [intros c'; unfold cell_at; cbn [cells resize_cprops resize_props set_props set_cdel set_cells]; apply nth_app_last|].
    split; [intros c'; unfold c_deleted; cbn [cdel resize_cprops resize_props set_props set_cdel set_cells]; rewrite nth_app_last, L6; fold c;
            destruct (c' <? c); [reflexivity|]; destruct (c' =? c); reflexivity|].
    repeat (split; [reflexivity|]). split; [repeat split; try reflexivity; exact Fb|]. split; [discriminate|]. split; [discriminate|].
    cbn [cdel resize_cprops resize_props set_props set_cdel set_cells]. rewrite app_length. simpl. lia.
Qed.

Theorem bu_inv_cell_added' : bu_inv t.
Proof.
  destruct acp_views as (NCt & CAt & CDt & v1 & v2 & v3 & v4 & v5 & v6 & v7 & (f1 & f2 & f3) & COt & LI & LC).
  destruct B as (VO & EO & FO & (R1 & R2 & R3) & (L1 & L2 & L3 & L4 & L5 & L6)). destruct NC as [Hchk Hnew].
  assert (Hlt : forall hf, In hf hfs -> hf < 2 * nf s) by (intros hf Hhf; destruct (Hnew hf Hhf) as [A _]; lia).
  split; [|split; [|split; [|split]]].
  - intros V v Hv h. unfold out_at, ne, e_deleted, he_from, edge_at. rewrite v6, v2, v4. rewrite f1 in V. rewrite v1 in Hv. exact (VO V v Hv h).
  - intros E k Hk x. unfold hfs_at, ne, nf, f_deleted, halfface, face_at in *. rewrite v7, v3, v5. rewrite f2 in E. rewrite v2 in Hk. exact (EO E k Hk x).
  - intros Fb hf Hhf c'. rewrite f3 in Fb. unfold nf in Hhf. rewrite v3 in Hhf. fold (nf s) in Hhf. rewrite NCt, CDt, CAt, (COt Fb).
    destruct (in_dec Nat.eq_dec hf hfs) as [Hin|Hout].
    + apply memb_In in Hin. rewrite Hin. replace (hf <? 2 * nf s) with true by (symmetry; apply Nat.ltb_lt; exact Hhf). cbn [andb].
      apply memb_In in Hin. destruct (Hnew hf Hin) as (_ & _ & Fr & _). split.
      * intros X. inversion X; subst c'. rewrite Nat.ltb_irrefl, Nat.eqb_refl. repeat split; auto; lia.
      * intros (A & Bc & Cc). destruct (Nat.ltb_spec c' c) as [Hl|Hg]; [exfalso; exact (Fr c' Hl Bc Cc)|f_equal; lia].
    + replace (memb hf hfs) with false by (symmetry; apply memb_false_iff; exact Hout). cbn [andb]. rewrite (FO Fb hf Hhf c'). fold c. split.
      * intros (A & Bc & Cc). replace (c' <? c) with true by (symmetry; apply Nat.ltb_lt; exact A). repeat split; auto; lia.
      * intros (A & Bc & Cc). destruct (Nat.ltb_spec c' c) as [Hl|Hg]; [tauto|]. destruct (Nat.eqb_spec c' c); [contradiction|destruct Cc].
  - split; [|split].
    + intros e He Hd. unfold ne, e_deleted, edge_at in *. rewrite v2 in *. rewrite v4 in Hd. rewrite v1. exact (R1 e He Hd).
    + intros f Hf Hd h Hh. unfold nf, ne, f_deleted, face_at in *. rewrite v3 in *. rewrite v5 in Hd. rewrite v2. exact (R2 f Hf Hd h Hh).
    + intros c' Hc' Hd hf Hhf. rewrite NCt in Hc'. rewrite CDt in Hd. rewrite CAt in Hhf. unfold nf. rewrite v3. fold (nf s).
      destruct (Nat.ltb_spec c' c) as [Hl|Hg]; [exact (R3 c' Hl Hd hf Hhf)|].
      replace (c' =? c) with true in Hhf by (symmetry; apply Nat.eqb_eq; lia). exact (Hlt hf Hhf).
  - unfold lens_ok, ne, nf. rewrite f1, f2, f3, v1, v2, v3, v4, v5, v6, v7, NCt, LC, L6.
    split; [exact L1|]. split; [exact L2|]. split; [intros Fb; rewrite (LI Fb); exact (L3 Fb)|]. split; [exact L4|]. split; [exact L5|reflexivity].
Qed.

Theorem cells_topo_cell_added' : cells_topo t.
Proof.
  destruct acp_views as (NCt & CAt & CDt & v1 & v2 & v3 & _). destruct T as [TC NS]. destruct NC as [Hchk Hnew].
  assert (HFt : forall x, halfface t x = halfface s x) by (intros x; unfold halfface, face_at; rewrite v3; reflexivity).
  split.
  - intros c' Hc' Hd. rewrite NCt in Hc'. rewrite CDt in Hd. destruct (Nat.ltb_spec c' c) as [Hl|Hg].
    + assert (CA' : cell_at t c' = cell_at s c') by (rewrite CAt; replace (c' <? c) with true by (symmetry; apply Nat.ltb_lt; exact Hl); reflexivity).
      intros hf Hhf he Hhe. rewrite CA' in Hhf. rewrite HFt in Hhe. rewrite <- (TC c' Hl Hd hf Hhf he Hhe). unfold adj_matches. rewrite CA'.
      f_equal. apply flat_map_ext. intros g. rewrite HFt. reflexivity.
    + assert (c' = c) by lia. subst c'.
      assert (CA' : cell_at t c = hfs) by (rewrite CAt, Nat.ltb_irrefl, Nat.eqb_refl; reflexivity).
      apply topo_cell_of_check; rewrite CA'.
      * replace (map (halfface t) hfs) with (map (halfface s) hfs) by (apply map_ext; intros x; symmetry; apply HFt).
        exact (proj2 (proj1 (cell_check_spec s hfs) Hchk)).
      * intros hf Hhf. destruct (Hnew hf Hhf) as (A & Bf & _). unfold face_at. rewrite v3. exact (FS (hf / 2) A Bf).
      * intros hf Hhf. exact (proj2 (proj2 (proj2 (Hnew hf Hhf)))).
  - intros c1 c2 hf L1 L2 H1 H2. apply In_live_cells in L1, L2. destruct L1 as [A1 B1]. destruct L2 as [A2 B2].
    rewrite NCt in A1, A2. rewrite CDt in B1, B2. rewrite CAt in H1, H2.
    destruct (Nat.ltb_spec c1 c) as [l1|g1]; destruct (Nat.ltb_spec c2 c) as [l2|g2].
    + apply (NS c1 c2 hf); try assumption; apply In_live_cells; auto.
    + exfalso. replace (c2 =? c) with true in H2 by (symmetry; apply Nat.eqb_eq; lia). destruct (Hnew hf H2) as (_ & _ & Fr & _). exact (Fr c1 l1 B1 H1).
    + exfalso. replace (c1 =? c) with true in H1 by (symmetry; apply Nat.eqb_eq; lia). destruct (Hnew hf H1) as (_ & _ & Fr & _). exact (Fr c2 l2 B2 H2).
    + lia.
Qed.
End AddCellPartial.

Theorem all_inv_add_cell_partial s hfs : all_inv s -> cells_topo s -> ebu s && fbu s = false -> new_cell_free s hfs ->
  all_inv (fst (add_cell s hfs true)) /\ cells_topo (fst (add_cell s hfs true)).
Proof.
  intros H T N NC. pose proof (all_inv_bu_inv s H) as B. pose proof (all_inv_faces_simple s H) as FS.
  assert (E : fst (add_cell s hfs true) = cell_added' s hfs).
  { unfold add_cell. rewrite (proj1 NC). cbn [andb negb]. rewrite (append_cell_noreorder s hfs N). reflexivity. }
  split; [|rewrite E; exact (cells_topo_cell_added' s hfs B FS T N NC)].
  destruct (szd_flag_lens s (all_inv_szd s H)) as (_ & _ & _ & Lc).
  apply (all_inv_addition s _ H (grows_add_cell s hfs true)).
  - apply szd_add_cell. exact (all_inv_szd s H).
  - apply K_add_cell; [exact (all_inv_K s H)|exact Lc|]. intros h Hh. exact (proj1 (proj2 (proj2 NC h Hh))).
  - apply (faces_simple_grow s); [apply edges_grow_faces_grow, edges_grow_add_cell|exact FS].
  - intros _. rewrite E. exact (bu_inv_cell_added' s hfs B N NC).
  - intros Eb Fb. rewrite Eb, Fb in N. discriminate N.
Qed.

(* the lists and the three incidence flags are untouched *)
Lemma add_cell_partial_lists s hfs : bu_inv s -> ebu s && fbu s = false -> let t := fst (add_cell s hfs true) in
  out_hes t = out_hes s /\ inc_hfs t = inc_hfs s /\ vbu t = vbu s /\ ebu t = ebu s /\ fbu t = fbu s.
Proof.
  intros B N. cbv zeta. unfold add_cell. destruct (cell_check s hfs); cbn [andb negb]; [|repeat split; reflexivity].
  rewrite (append_cell_noreorder s hfs N). cbn [fst]. unfold cell_added', cell_added. destruct (fbu s) eqn:Fb; repeat split; try reflexivity; exact Fb.
Qed.
