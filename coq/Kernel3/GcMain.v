(* Kernel3/GcMain.v -- C04, NON-FAST mode: collect_garbage turns a state with pending deletions into its LOGICAL mesh
   (Kernel3/GcDefs.v): the four passes composed.  Entities, definitions, flags, property arrays; the invariant holds again
   (with no flag left it is the invariant shift_inv / shift_inv2 of the immediate mode). *)
From Coq Require Import ZArith Lia Bool Arith List ZifyNat ZifyBool Permutation.
From OVM Require Import Base.ListX Base.ListLemmas Kernel.State Kernel.Ops Kernel.Mirror Kernel.Recompute Kernel.Closure Kernel.ExactInv
                        Kernel.GcFacts
                        Kernel2.LookupModel Kernel2.ListAux Kernel2.AdjacentProofs Kernel2.ReorderExact Kernel2.ExactBase
                        Kernel.ShiftFace Kernel.ShiftEdge Kernel.ShiftVertex Kernel.ShiftCompose
                        Kernel3.GcDefs Kernel3.GcList Kernel3.GcInv Kernel3.GcCell Kernel3.GcFace Kernel3.GcEdge Kernel3.GcVertex.
Import ListNotations.
Ltac Zify.zify_post_hook ::= Z.div_mod_to_equations.
Local Open Scope nat_scope.

(* ================================================================== compact = the logical arrays *)

Lemma flags_beyond_length del i : length del <= i -> nth i del false = false.
Proof. intros H. apply nth_overflow. exact H. Qed.

(* flags at and above n are false: the flagged indices below any larger bound are the same *)
Lemma dead_beyond del n m : (forall i, n <= i -> nth i del false = false) -> n <= m -> dead del m = dead del n.
Proof.
  intros H. induction 1 as [|m Hm IH]; [reflexivity|]. rewrite dead_S, IH, H by exact Hm. apply app_nil_r.
Qed.

Lemma keep_slots_ext {A} (d : A) cs cs' l : (forall i, i < length l -> memb i cs = memb i cs') -> keep_slots d cs l = keep_slots d cs' l.
Proof.
  intros H. unfold keep_slots. f_equal. apply filter_ext_in2. intros i Hi. apply in_seq in Hi. rewrite H by lia. reflexivity.
Qed.

Lemma memb_dead del n i : memb i (dead del n) = (i <? n) && nth i del false.
Proof.
  destruct (memb i (dead del n)) eqn:M.
  - apply Base.ListLemmas.memb_In in M. apply In_dead in M. destruct M as [Hi B]. rewrite B. symmetry. apply andb_true_iff. split; [apply Nat.ltb_lt; exact Hi|reflexivity].
  - apply memb_false_iff in M. destruct (Nat.ltb_spec i n) as [Hi|Hi]; [|reflexivity]. cbn [andb].
    destruct (nth i del false) eqn:B; [|reflexivity]. exfalso. apply M. apply In_dead. auto.
Qed.

(* compact = keep_slots of the flagged indices below n, as soon as no flag is set at or above n *)
Lemma compact_keep_n {A} (d : A) del n (l : list A) : (forall i, n <= i -> nth i del false = false) ->
  compact del l = keep_slots d (dead del n) l.
Proof.
  intros H. rewrite (compact_keep d). apply keep_slots_ext. intros i Hi. rewrite !memb_dead.
  replace (i <? length l) with true by (symmetry; apply Nat.ltb_lt; exact Hi). cbn [andb].
  destruct (Nat.ltb_spec i n) as [Hn|Hn]; [reflexivity|]. cbn [andb]. apply H. exact Hn.
Qed.

Lemma pcompact_pkeep del n p : (forall i, n <= i -> nth i del false = false) -> pcompact del p = pkeep (dead del n) p.
Proof. intros H. unfold pcompact, pkeep. rewrite (compact_keep_n (pdef p) del n) by exact H. reflexivity. Qed.

Lemma map_pcompact_pkeep del n l : (forall i, n <= i -> nth i del false = false) -> map (pcompact del) l = map (pkeep (dead del n)) l.
Proof. intros H. apply map_ext. intros p. apply pcompact_pkeep. exact H. Qed.

Lemma dbl_beyond del n : (forall i, n <= i -> nth i del false = false) -> forall i, 2 * n <= i -> nth i (dbl del) false = false.
Proof. intros H i Hi. rewrite nth_dbl. apply H. lia. Qed.

Lemma compact_cells_logical (del : list bool) (g : list nat -> list nat) (l : list (list nat)) :
  map g (compact del l) = map (fun c => g (nth c l [])) (alive del (length l)).
Proof. rewrite (compact_alive []), map_map. reflexivity. Qed.

Lemma compact_edges_logical (del : list bool) (g : nat * nat -> nat * nat) (l : list (nat * nat)) :
  map g (compact del l) = map (fun e => g (nth e l (0, 0))) (alive del (length l)).
Proof. rewrite (compact_alive (0, 0)), map_map. reflexivity. Qed.

(* ================================================================== ginv with no flag = the immediate-mode invariant *)

Lemma ginv_shift_inv s : ginv s -> no_flags s -> shift_inv s.
Proof. intros ((VO & EO & FO & R & L) & _) NF. exact (conj NF (conj VO (conj EO (conj FO (conj R L))))). Qed.

Lemma ginv_shift_inv2 s : ginv s -> no_flags s -> faces_simple s -> shift_inv2 s.
Proof.
  intros I NF FS. split; [apply ginv_shift_inv; assumption|]. intros E Fb. destruct I as (_ & _ & _ & X). destruct (X E Fb) as [A B].
  exact (conj A (conj B FS)).
Qed.

Lemma shift_inv2_ginv s : shift_inv2 s -> length (vdel s) = nv s -> ginv s.
Proof.
  intros [((NFv & NFe & NFf & NFc) & VO & EO & FO & R & L) X] LV. split; [exact (conj VO (conj EO (conj FO (conj R L))))|]. split; [exact LV|]. split.
  - split; [|split]; intros; [split|..]; (apply NFv || apply NFe || apply NFf).
  - intros E Fb. destruct (X E Fb) as (A & B & _). exact (conj A B).
Qed.

(* ================================================================== the four passes composed *)

(* collect_garbage, when something is pending, as its nine stages *)
Lemma collect_garbage_stages s : deferred s = true -> needs_gc s = true ->
  exists p1 p2 p3 p4,
    let s0 := set_flags (vbu s) (ebu s) (fbu s) false (fast s) s in
    let s1 := set_counts (ndv p1) (nde p1) (ndf p1) 0 p1 in
    let s2 := set_counts (ndv p2) (nde p2) 0 (ndc p2) p2 in
    let s3 := set_counts (ndv p3) 0 (ndf p3) (ndc p3) p3 in
    let s4 := set_counts 0 (nde p4) (ndf p4) (ndc p4) p4 in
    p1 = pass_c (nc s0) s0 /\ p2 = pass_f (nf s1) s1 /\ p3 = pass_e (ne s2) s2 /\ p4 = pass_v (nv s3) s3 /\
    collect_garbage s = set_flags (vbu s4) (ebu s4) (fbu s4) true (fast s4) s4.
Proof.
  intros D G. unfold collect_garbage. rewrite D, G. cbn [negb orb]. cbv zeta.
  set (s0 := set_flags (vbu s) (ebu s) (fbu s) false (fast s) s).
  set (p1 := gc_pass (nc s0) c_deleted _ delete_cell_core s0).
  set (s1 := set_counts (ndv p1) (nde p1) (ndf p1) 0 p1).
  set (p2 := gc_pass (nf s1) f_deleted _ delete_face_core s1).
  set (s2 := set_counts (ndv p2) (nde p2) 0 (ndc p2) p2).
  set (p3 := gc_pass (ne s2) e_deleted _ delete_edge_core s2).
  set (s3 := set_counts (ndv p3) 0 (ndf p3) (ndc p3) p3).
  set (p4 := gc_pass (nv s3) v_deleted _ delete_vertex_core s3).
  exists p1, p2, p3, p4. repeat split; reflexivity.
Qed.

Lemma ginv_set_counts a b c d t : ginv t -> ginv (set_counts a b c d t).
Proof. intros H. exact H. Qed.
Lemma ginv_set_modes d f t : ginv t -> ginv (set_flags (vbu t) (ebu t) (fbu t) d f t).
Proof. intros H. exact H. Qed.

Ltac rsm H := cbn [set_counts set_flags nv edges faces cells vdel edel fdel cdel vbu ebu fbu deferred fast
                   pv pe phe pf phf pc pm out_hes inc_hfs inc_cell] in H.

Theorem collect_garbage_nonfast_pending s : gc_ready s -> fast s = false -> needs_gc s = true ->
  let t := collect_garbage s in
  ginv t /\ no_flags t /\ deferred t = true /\ fast t = false /\ (vbu t = vbu s /\ ebu t = ebu s /\ fbu t = fbu s) /\
  nv t = nv s - length (dead (vdel s) (nv s)) /\
  edges t = map (rankp (vdel s)) (compact (edel s) (edges s)) /\
  faces t = map (map (rank2 (edel s))) (compact (fdel s) (faces s)) /\
  cells t = map (map (rank2 (fdel s))) (compact (cdel s) (cells s)) /\
  vdel t = compact (vdel s) (vdel s) /\ edel t = compact (edel s) (edel s) /\
  fdel t = compact (fdel s) (fdel s) /\ cdel t = compact (cdel s) (cdel s) /\
  (pv t = map (pcompact (vdel s)) (pv s) /\ pe t = map (pcompact (edel s)) (pe s) /\ phe t = map (pcompact (dbl (edel s))) (phe s) /\
   pf t = map (pcompact (fdel s)) (pf s) /\ phf t = map (pcompact (dbl (fdel s))) (phf s) /\ pc t = map (pcompact (cdel s)) (pc s) /\
   pm t = pm s) /\
  (faces_simple s -> faces_simple t).
Proof.
  intros (Dd & _ & I) F G. cbv zeta.
  destruct (collect_garbage_stages s Dd G) as (p1 & p2 & p3 & p4 & St). cbv zeta in St. destruct St as (E1 & E2 & E3 & E4 & ->).
  pose proof I as ((_ & _ & _ & _ & (_ & _ & _ & L4 & L5 & L6)) & LV & _).
  (* ---- cells *)
  set (s0 := set_flags (vbu s) (ebu s) (fbu s) false (fast s) s) in *.
  assert (I0 : ginv s0) by (apply ginv_set_modes; exact I).
  assert (H1 : forall i, nc s0 <= i -> c_deleted s0 i = false) by (intros i Hi; apply flags_beyond_length; change (length (cdel s) <= i); rewrite L6; exact Hi).
  pose proof (gc_cell_pass (nc s0) s0 eq_refl F I0 (le_n _) H1) as P1. cbv zeta in P1. rewrite <- E1 in P1.
  destruct P1 as (I1 & D1 & F1 & NC1 & a1 & a2 & a3 & a4 & a5 & a6 & a7 & a8 & (am1 & am2 & am3) & (ap1 & ap2 & ap3 & ap4 & ap5 & ap6 & ap7) & AFS).
  unfold s0 in a1, a2, a3, a4, a5, a6, a7, a8, am1, am2, am3, ap1, ap2, ap3, ap4, ap5, ap6, ap7.
  rsm a1. rsm a2. rsm a3. rsm a4. rsm a5. rsm a6. rsm a7. rsm a8. rsm am1. rsm am2. rsm am3.
  rsm ap1. rsm ap2. rsm ap3. rsm ap4. rsm ap5. rsm ap6. rsm ap7.
  change (faces_simple s0) with (faces_simple s) in AFS. clear E1 H1 I0. clearbody s0.
  (* ---- faces *)
  set (s1 := set_counts (ndv p1) (nde p1) (ndf p1) 0 p1) in *.
  assert (I1' : ginv s1) by (apply ginv_set_counts; exact I1).
  assert (H2 : forall i, nf s1 <= i -> f_deleted s1 i = false).
  { intros i Hi. apply flags_beyond_length. change (length (fdel p1) <= i). change (nf s1) with (nf p1) in Hi.
    destruct I1 as ((_ & _ & _ & _ & (_ & _ & _ & _ & X5 & _)) & _). rewrite X5. exact Hi. }
  pose proof (gc_face_pass (nf s1) s1 D1 F1 I1' NC1 (le_n _) H2) as P2. cbv zeta in P2. rewrite <- E2 in P2.
  destruct P2 as (I2 & D2 & F2 & NC2 & NF2 & b1 & b2 & b3 & b4 & b5 & b6 & b7 & b8 & (bm1 & bm2 & bm3) & (bp1 & bp2 & bp3 & bp4 & bp5 & bp6 & bp7) & BFS).
  unfold s1 in b1, b2, b3, b4, b5, b6, b7, b8, bm1, bm2, bm3, bp1, bp2, bp3, bp4, bp5, bp6, bp7.
  rsm b1. rsm b2. rsm b3. rsm b4. rsm b5. rsm b6. rsm b7. rsm b8. rsm bm1. rsm bm2. rsm bm3.
  rsm bp1. rsm bp2. rsm bp3. rsm bp4. rsm bp5. rsm bp6. rsm bp7.
  change (faces_simple s1) with (faces_simple p1) in BFS. clear E2 H2 I1'. clearbody s1.
  (* ---- edges *)
  set (s2 := set_counts (ndv p2) (nde p2) 0 (ndc p2) p2) in *.
  assert (I2' : ginv s2) by (apply ginv_set_counts; exact I2).
  assert (H3 : forall i, ne s2 <= i -> e_deleted s2 i = false).
  { intros i Hi. apply flags_beyond_length. change (length (edel p2) <= i). change (ne s2) with (ne p2) in Hi.
    destruct I2 as ((_ & _ & _ & _ & (_ & _ & _ & X4 & _)) & _). rewrite X4. exact Hi. }
  pose proof (gc_edge_pass (ne s2) s2 D2 F2 I2' NF2 (le_n _) H3) as P3. cbv zeta in P3. rewrite <- E3 in P3.
  destruct P3 as (I3 & D3 & F3 & NF3 & NE3 & c1 & c2 & c3 & c4 & c5 & c6 & c7 & c8 & (cm1 & cm2 & cm3) & (cp1 & cp2 & cp3 & cp4 & cp5 & cp6 & cp7) & CFS).
  unfold s2 in c1, c2, c3, c4, c5, c6, c7, c8, cm1, cm2, cm3, cp1, cp2, cp3, cp4, cp5, cp6, cp7.
  rsm c1. rsm c2. rsm c3. rsm c4. rsm c5. rsm c6. rsm c7. rsm c8. rsm cm1. rsm cm2. rsm cm3.
  rsm cp1. rsm cp2. rsm cp3. rsm cp4. rsm cp5. rsm cp6. rsm cp7.
  change (faces_simple s2) with (faces_simple p2) in CFS. clear E3 H3 I2'. clearbody s2.
  (* ---- vertices *)
  set (s3 := set_counts (ndv p3) 0 (ndf p3) (ndc p3) p3) in *.
  assert (I3' : ginv s3) by (apply ginv_set_counts; exact I3).
  assert (NC3 : no_cflags s3) by (intros i; change (nth i (cdel p3) false = false); rewrite c8; apply NC2).
  assert (H4 : forall i, nv s3 <= i -> v_deleted s3 i = false).
  { intros i Hi. apply flags_beyond_length. change (length (vdel p3) <= i). change (nv s3) with (nv p3) in Hi.
    destruct I3 as (_ & X & _). rewrite X. exact Hi. }
  pose proof (gc_vertex_pass (nv s3) s3 D3 F3 I3' NE3 NF3 NC3 (le_n _) H4) as P4. cbv zeta in P4. rewrite <- E4 in P4.
  destruct P4 as (I4 & D4 & F4 & NFl4 & d1 & d2 & d3 & d4 & d5 & d6 & d7 & d8 & (dm1 & dm2 & dm3) & (dp1 & dp2 & dp3 & dp4 & dp5 & dp6 & dp7) & DFS).
  unfold s3 in d1, d2, d3, d4, d5, d6, d7, d8, dm1, dm2, dm3, dp1, dp2, dp3, dp4, dp5, dp6, dp7.
  rsm d1. rsm d2. rsm d3. rsm d4. rsm d5. rsm d6. rsm d7. rsm d8. rsm dm1. rsm dm2. rsm dm3.
  rsm dp1. rsm dp2. rsm dp3. rsm dp4. rsm dp5. rsm dp6. rsm dp7.
  change (faces_simple s3) with (faces_simple p3) in DFS. clear E4 H4 I3'. clearbody s3.
  (* ---- the result *)
  set (s4 := set_counts 0 (nde p4) (ndf p4) (ndc p4) p4).
  assert (I5 : ginv (set_flags (vbu s4) (ebu s4) (fbu s4) true (fast s4) s4)) by (apply ginv_set_modes; apply ginv_set_counts; exact I4).
  refine (conj I5 (conj NFl4 (conj eq_refl (conj F4 _)))). unfold s4.
  cbn [set_counts set_flags nv edges faces cells vdel edel fdel cdel vbu ebu fbu deferred fast pv pe phe pf phf pc pm].
  change (faces_simple (set_flags _ _ _ _ _ (set_counts _ _ _ _ p4))) with (faces_simple p4).
  rewrite d1, d2, d3, d4, d5, d6, d7, d8, dm1, dm2, dm3, dp1, dp2, dp3, dp4, dp5, dp6, dp7.
  rewrite c1, c2, c3, c4, c5, c6, c7, c8, cm1, cm2, cm3, cp1, cp2, cp3, cp4, cp5, cp6, cp7.
  rewrite b1, b2, b3, b4, b5, b6, b7, b8, bm1, bm2, bm3, bp1, bp2, bp3, bp4, bp5, bp6, bp7.
  rewrite a1, a2, a3, a4, a5, a6, a7, a8, am1, am2, am3, ap1, ap2, ap3, ap4, ap5, ap6, ap7.
  splits; try reflexivity.
  - intros FS. apply DFS, CFS, BFS, AFS. exact FS.
Qed.

(* ================================================================== nothing pending: the same equations hold trivially *)

Lemma dead_all_false del n : (forall i, nth i del false = false) -> dead del n = [].
Proof. intros H. induction n as [|n IH]; [reflexivity|]. rewrite dead_S, IH, H. reflexivity. Qed.

Definition gc_compact_form (s t : mesh) : Prop :=
  ginv t /\ no_flags t /\ deferred t = true /\ fast t = false /\ (vbu t = vbu s /\ ebu t = ebu s /\ fbu t = fbu s) /\
  nv t = nv s - length (dead (vdel s) (nv s)) /\
  edges t = map (rankp (vdel s)) (compact (edel s) (edges s)) /\
  faces t = map (map (rank2 (edel s))) (compact (fdel s) (faces s)) /\
  cells t = map (map (rank2 (fdel s))) (compact (cdel s) (cells s)) /\
  vdel t = compact (vdel s) (vdel s) /\ edel t = compact (edel s) (edel s) /\
  fdel t = compact (fdel s) (fdel s) /\ cdel t = compact (cdel s) (cdel s) /\
  (pv t = map (pcompact (vdel s)) (pv s) /\ pe t = map (pcompact (edel s)) (pe s) /\ phe t = map (pcompact (dbl (edel s))) (phe s) /\
   pf t = map (pcompact (fdel s)) (pf s) /\ phf t = map (pcompact (dbl (fdel s))) (phf s) /\ pc t = map (pcompact (cdel s)) (pc s) /\
   pm t = pm s) /\
  (faces_simple s -> faces_simple t).

Theorem collect_garbage_nonfast_compact s : gc_ready s -> fast s = false -> gc_compact_form s (collect_garbage s).
Proof.
  intros R F. destruct (needs_gc s) eqn:G; [exact (collect_garbage_nonfast_pending s R F G)|].
  rewrite (collect_garbage_noop_when_nothing_pending s G). destruct R as (Dd & P & I). pose proof (P G) as NF.
  destruct NF as (NFv & NFe & NFf & NFc).
  unfold gc_compact_form. rewrite !compact_all_false, !map_pcompact_all_false, !map_rank2_all_false, map_rankp_all_false, dead_all_false
    by (try apply dbl_all_false; assumption).
  cbn [length]. splits; auto; try lia.
Qed.

(* ================================================================== the logical form *)

Lemma keep_slots_nil {A} (d : A) l : keep_slots d [] l = l.
Proof. unfold keep_slots. cbn [memb existsb negb]. rewrite filter_all by reflexivity. apply map_nth_seq. Qed.

Lemma pkeep_nil p : pkeep [] p = p.
Proof. unfold pkeep. rewrite keep_slots_nil. destruct p; reflexivity. Qed.

Theorem collect_garbage_nonfast_logical s : gc_ready s -> fast s = false ->
  let t := collect_garbage s in
  nv t = logical_nv s /\ edges t = logical_edges s /\ faces t = logical_faces s /\ cells t = logical_cells s /\
  vdel t = repeat false (nv t) /\ edel t = repeat false (ne t) /\ fdel t = repeat false (nf t) /\ cdel t = repeat false (nc t) /\
  no_flags t /\ needs_gc t = false /\
  (forall k, props k t = logical_props k s) /\
  deferred t = true /\ fast t = false /\ (vbu t = vbu s /\ ebu t = ebu s /\ fbu t = fbu s) /\
  gc_ready t /\ shift_inv t /\ (faces_simple s -> shift_inv2 t).
Proof.
  intros R F. cbv zeta. pose proof (collect_garbage_nonfast_compact s R F) as C. destruct R as (Dd & P & I).
  pose proof (collect_garbage_counters_and_mode s Dd) as CM. cbv zeta in CM. destruct CM as (_ & _ & _ & _ & NG & _).
  set (t := collect_garbage s) in *.
  destruct C as (It & NFt & Dt & Ft & (m1 & m2 & m3) & e1 & e2 & e3 & e4 & e5 & e6 & e7 & e8 & (q1 & q2 & q3 & q4 & q5 & q6 & q7) & FS).
  pose proof I as ((_ & _ & _ & _ & (_ & _ & _ & L4 & L5 & L6)) & LV & _).
  assert (BV : forall i, nv s <= i -> nth i (vdel s) false = false) by (intros i Hi; apply flags_beyond_length; lia).
  assert (BE : forall i, ne s <= i -> nth i (edel s) false = false) by (intros i Hi; apply flags_beyond_length; lia).
  assert (BF : forall i, nf s <= i -> nth i (fdel s) false = false) by (intros i Hi; apply flags_beyond_length; lia).
  assert (BC : forall i, nc s <= i -> nth i (cdel s) false = false) by (intros i Hi; apply flags_beyond_length; lia).
  assert (N1 : nv t = logical_nv s).
  { rewrite e1. pose proof (rank_dead (vdel s) (nv s)). unfold logical_nv. change (length (live_vertices s)) with (rank (vdel s) (nv s)). lia. }
  assert (N2 : edges t = logical_edges s) by (rewrite e2; apply compact_edges_logical).
  assert (N3 : faces t = logical_faces s) by (rewrite e3; apply compact_cells_logical).
  assert (N4 : cells t = logical_cells s) by (rewrite e4; apply compact_cells_logical).
  splits; try assumption.
  - rewrite e5, compact_self_repeat, N1, LV. reflexivity.
  - rewrite e6, compact_self_repeat. unfold ne. rewrite e2, map_length, compact_length, L4. reflexivity.
  - rewrite e7, compact_self_repeat. unfold nf. rewrite e3, map_length, compact_length, L5. reflexivity.
  - rewrite e8, compact_self_repeat. unfold nc. rewrite e4, map_length, compact_length, L6. reflexivity.
  - intros k. unfold logical_props. destruct k; cbn [props dead_slots].
    + rewrite q1. apply map_pcompact_pkeep. exact BV.
    + rewrite q2. apply map_pcompact_pkeep. exact BE.
    + rewrite q3. apply map_pcompact_pkeep. apply dbl_beyond. exact BE.
    + rewrite q4. apply map_pcompact_pkeep. exact BF.
    + rewrite q5. apply map_pcompact_pkeep. apply dbl_beyond. exact BF.
    + rewrite q6. apply map_pcompact_pkeep. exact BC.
    + rewrite q7. symmetry. apply map_id_on. intros p _. apply pkeep_nil.
  - split; [exact Dt|]. split; [intros _; exact NFt|exact It].
  - apply ginv_shift_inv; assumption.
  - intros FSs. apply ginv_shift_inv2; auto.
Qed.
