(* Kernel3/FastEdge.v -- C02 / C01, immediate FAST mode: delete_edge_core h = swap_edge_indices h last, then remove the LAST
   edge.  With no face listing a halfedge of edge h (edge_free: what delete_edge / delete_vertex establish first):
     - edges s' = fast_remove h (edges s); every face definition has the halfedges of the old last edge renamed to those of h, side
       by side (tr2 h last); vertices and cells untouched; edge flags / edge properties undergo fast_remove h, halfedge properties
       fast_remove2 h; nothing of another kind changes;
     - the invariant shift_inv2 holds again; same right-hand sides for the cache-guided and the scan variant.
   Method as in Kernel3/FastVertex.v: split into swap + removal of the last slot; the swap is the relabeling and keeps the invariant
   (C17 + the re-ordering part here); the fast removal of the last slot is the index-shifting one (edge_step) up to the fast flag. *)
From Coq Require Import ZArith Lia Bool Arith List ZifyNat ZifyBool.
From OVM Require Import Base.ListX Base.ListLemmas Base.ListLemmas2 Kernel.State Kernel.Ops Kernel.Mirror Kernel.Construct
                        Kernel.Recompute Kernel.Closure Kernel.ExactInv Kernel.ExactDelete Kernel.SwapEffects Kernel.SwapInvol Kernel.PropLaws
                        Kernel.DeleteEffects Kernel.DeleteDefs Kernel.GcFacts Kernel.SwapFaceCache Kernel.SwapEdgeCache
                        Kernel2.LookupModel Kernel2.AdjacentProofs Kernel2.ReorderExact Kernel2.ExactBase Kernel2.ExactHistory
                        Kernel.ShiftFace Kernel.ShiftEdge Kernel.ShiftVertex Kernel.ShiftCompose Kernel3.FastDefs Kernel3.FastBase.
Import ListNotations.
Ltac Zify.zify_post_hook ::= Z.div_mod_to_equations.
Local Open Scope nat_scope.

Ltac rsq := cbn [set_fast set_nv set_edges set_faces set_cells set_vdel set_edel set_fdel set_cdel set_counts set_flags
                set_out_hes set_inc_hfs set_inc_cell set_props swap_prop_elems delete_prop_elem resize_props
                vertex_deleted edge_deleted face_deleted cell_deleted
                nv edges faces cells vdel edel fdel cdel ndv nde ndf ndc vbu ebu fbu deferred fast
                out_hes inc_hfs inc_cell pv pe phe pf phf pc pm props fst snd].

(* ================================================================== the core is "swap, then remove the last" *)

Lemma swap_edge_modes a b s : let t := swap_edge_indices a b s in
  deferred t = deferred s /\ fast t = fast s /\ ne t = ne s /\ nv t = nv s /\ vbu t = vbu s /\ ebu t = ebu s /\ fbu t = fbu s.
Proof.
  cbv zeta. destruct (Nat.eq_dec a b) as [->|N]; [rewrite swap_edge_self; repeat split|].
  pose proof (swap_edge_effect a b s N) as E. cbv zeta in E.
  destruct E as (c1&_&_&_&c5&_&_&_&_&_&_&_&_&_&_&_&(f1&f2&f3&f4&f5)&_). unfold ne. rewrite c1, swap_nth_length. repeat split; assumption.
Qed.

Lemma fast_edge_split h s : deferred s = false -> fast s = true ->
  delete_edge_core h s = delete_edge_core (ne s - 1) (swap_edge_indices h (ne s - 1) s).
Proof.
  intros D F. set (l := ne s - 1). set (t := swap_edge_indices h l s).
  destruct (swap_edge_modes h l s) as (Dt & Ft & Nt & _). fold t in Dt, Ft, Nt.
  unfold delete_edge_core at 2. rewrite Ft, Dt, F, D, Nt. cbn [andb negb]. fold l. rewrite swap_edge_self.
  unfold delete_edge_core at 1. rewrite F, D. cbn [andb negb]. fold l. fold t. reflexivity.
Qed.

(* the referring definitions and the caches after the fast removal of the last edge *)
Lemma fast_edge_view t : deferred t = false -> fast t = true -> let l := ne t - 1 in let s' := delete_edge_core l t in
  faces s' = faces t /\
  out_hes s' = (if vbu t then edge_out l t else out_hes t) /\
  inc_hfs s' = (if ebu t then remove_nth (2 * l) (remove_nth (2 * l + 1) (inc_hfs t)) else inc_hfs t) /\
  inc_cell s' = inc_cell t /\ (vbu s' = vbu t /\ ebu s' = ebu t /\ fbu s' = fbu t).
Proof.
  intros D F. cbv zeta. set (l := ne t - 1). unfold delete_edge_core, edge_out. rewrite F, D. cbn [andb negb]. fold l. rewrite swap_edge_self.
  destruct (edge_at t l) as [v0 v1].
  destruct (vbu t) eqn:Vb; destruct (ebu t) eqn:Eb; repeat (rsq; rewrite ?D, ?F, ?Vb, ?Eb; cbn [negb andb]); repeat split; reflexivity.
Qed.

(* ================================================================== fast removal of the last edge = index-shifting removal of it *)

Lemma edge_out_entries l t x v : In x (nth v (edge_out l t) []) -> In x (out_at t v).
Proof.
  unfold edge_out. destruct (edge_at t l) as [v0 v1]. rewrite nth_remove_at, remove_at_length, nth_remove_at. fold (out_at t v).
  destruct ((v1 =? v) && (v1 <? length (out_hes t))); destruct ((v0 =? v) && (v0 <? length (out_hes t)));
    rewrite ?remove_val_In; tauto.
Qed.

Lemma edge_out_length l t : length (edge_out l t) = length (out_hes t).
Proof. unfold edge_out. destruct (edge_at t l). rewrite !remove_at_length. reflexivity. Qed.

Theorem fast_edge_last t : deferred t = false -> fast t = true -> shift_inv2 t -> 0 < ne t -> edge_free t (ne t - 1) ->
  delete_edge_core (ne t - 1) t = set_fast true (delete_edge_core (ne t - 1) (set_fast false t)).
Proof.
  intros D F I Hn FF. set (l := ne t - 1). assert (Hl : l < ne t) by (unfold l; lia). set (t' := set_fast false t).
  pose proof I as (((NFv & NFe & NFf & NFc) & VO & EO & FO & (R1 & R2 & R3) & (L1 & L2 & L3 & L4 & L5 & L6)) & X).
  (* the fast side *)
  pose proof (fast_edge_view t D F) as V. cbv zeta in V. fold l in V. destruct V as (x1 & x2 & x3 & x4 & (x5 & x6 & x7)).
  pose proof (delete_edge_core_defs l t D) as Df. cbv zeta in Df. unfold victim in Df. rewrite F, D in Df. cbn [andb negb] in Df. fold l in Df.
  rewrite swap_edge_self in Df. destruct Df as (d1 & d2 & d3 & _).
  pose proof (delete_edge_core_props l t D) as P. cbv zeta in P. unfold victim in P. rewrite F, D in P. cbn [andb negb] in P. fold l in P.
  rewrite swap_edge_self in P. destruct P as (p1 & p2 & p3 & p4 & p5 & p6 & p7 & p8 & p9 & p10 & p11).
  pose proof (cv_delete_edge_core l t D) as C. unfold cv in C. injection C as k1 k2 k3 k4 k5 k6.
  (* the index-shifting side *)
  pose proof (edge_step l t' D eq_refl (proj1 (shift_inv2_set_fast false t) I) Hl FF) as St. cbv zeta in St.
  destruct St as (_ & _ & _ & _ & _ & y3 & _).
  pose proof (delete_edge_core_view l t' D eq_refl) as W. cbv zeta in W.
  destruct W as (w1 & w2 & _ & w4 & w5 & w6 & w7 & w8 & w9 & w10 & w11 & (m1 & m2 & m3 & m4 & m5)).
  pose proof (delete_edge_core_props l t' D) as Q. cbv zeta in Q. unfold victim in Q. cbn [fast t' set_fast set_flags andb] in Q.
  destruct Q as (q1 & q2 & q3 & q4 & q5 & q6 & q7 & q8 & q9 & q10 & q11).
  pose proof (cv_delete_edge_core l t' D) as C'. unfold cv in C'. injection C' as j1 j2 j3 j4 j5 j6.
  set (Y := delete_edge_core l t') in *. set (Z := delete_edge_core l t) in *.
  assert (Fid : map (map (cor2 (2 * l + 1))) (faces t) = faces t).
  { apply map_map_cor2_last. intros xs x Hxs Hx. destruct (In_nth _ _ [] Hxs) as [f [Hf Ef]].
    replace (2 * (l + 1)) with (2 * ne t) by (unfold l; lia). apply (R2 f Hf (NFf f)). unfold face_at. rewrite Ef. exact Hx. }
  assert (Oid : vbu t = true -> map (map (cor2 (2 * l + 1))) (edge_out l t) = edge_out l t).
  { intros Vb. apply map_map_cor2_last. intros xs x Hxs Hx. destruct (In_nth _ _ [] Hxs) as [v [Hv Ev]].
    rewrite edge_out_length, (L1 Vb) in Hv. assert (Hx' : In x (out_at t v)) by (apply (edge_out_entries l); rewrite Ev; exact Hx).
    apply (VO Vb v Hv) in Hx'. destruct Hx' as (Hx' & _). unfold l. lia. }
  apply mesh_ext; rsq.
  - rewrite d2, w1. reflexivity.
  - rewrite d1, w2. reflexivity.
  - rewrite x1, y3. symmetry. exact Fid.
  - rewrite d3, w4. reflexivity.
  - rewrite p4, q4. reflexivity.
  - rewrite p1, q1. reflexivity.
  - rewrite p5, q5. reflexivity.
  - rewrite p6, q6. reflexivity.
  - rewrite k1, j1. reflexivity.
  - rewrite k2, j2. reflexivity.
  - rewrite k3, j3. reflexivity.
  - rewrite k4, j4. reflexivity.
  - rewrite x5, m1. reflexivity.
  - rewrite x6, m2. reflexivity.
  - rewrite x7, m3. reflexivity.
  - rewrite k5, j5. reflexivity.
  - rewrite k6. exact F.
  - rewrite x2, w9. change (vbu t') with (vbu t). change (out_hes t') with (out_hes t). change (edge_out l t') with (edge_out l t).
    destruct (vbu t) eqn:Vb; [symmetry; apply Oid; reflexivity|reflexivity].
  - rewrite x3, w10. reflexivity.
  - rewrite x4, w11. reflexivity.
  - rewrite p7, q7. reflexivity.
  - rewrite p2, q2. reflexivity.
  - rewrite p3, q3. reflexivity.
  - rewrite p8, q8. reflexivity.
  - rewrite p9, q9. reflexivity.
  - rewrite p10, q10. reflexivity.
  - rewrite p11, q11. reflexivity.
Qed.

(* ================================================================== the swap keeps the invariant and is the relabeling *)

Lemma no_deleted_face_lists_no_flags s a b : no_flags s -> no_deleted_face_lists s a b.
Proof. intros (_ & _ & NFf & _) f Hf Hd. rewrite NFf in Hd. discriminate. Qed.

Lemma swap_edge_relabeled a b s : shift_inv s -> a <> b -> a < ne s -> b < ne s -> swap_edge_indices a b s = edge_relabeled a b s.
Proof. intros (NF & VO & EO & FO & R & L) N Ha Hb. apply swap_edge_exact_relabeling; try assumption. apply no_deleted_face_lists_no_flags. exact NF. Qed.

Lemma swap_half_inj a b x y : swap_half a b x = swap_half a b y -> x = y.
Proof. intros E. rewrite <- (swap_half_involutive a b x), <- (swap_half_involutive a b y), E. reflexivity. Qed.

Theorem shift_inv2_swap_edge a b s : shift_inv2 s -> a < ne s -> b < ne s -> shift_inv2 (swap_edge_indices a b s).
Proof.
  intros [I X] Ha Hb. destruct (Nat.eq_dec a b) as [->|N]; [rewrite swap_edge_self; exact (conj I X)|].
  pose proof I as (NF & VO & EO & FO & R & L).
  pose proof (bu_inv_swap_edge a b s Ha Hb (conj VO (conj EO (conj FO (conj R L)))) (no_deleted_face_lists_no_flags s a b NF)) as (VO' & EO' & FO' & R' & L').
  rewrite (swap_edge_relabeled a b s I N Ha Hb) in *. set (t := edge_relabeled a b s) in *.
  destruct NF as (NFv & NFe & NFf & NFc). destruct L as (L1 & L2 & L3 & L4 & L5 & L6).
  assert (NE : ne t = ne s) by (unfold ne, t, edge_relabeled; cbn [edges]; apply swap_nth_length).
  assert (NF_ : nf t = nf s) by (unfold nf, t, edge_relabeled; cbn [faces]; apply map_length).
  split.
  - split; [|tauto]. unfold no_flags, v_deleted, e_deleted, f_deleted, c_deleted, t, edge_relabeled. cbn [vdel edel fdel cdel].
    repeat split; try assumption. apply all_false_swap_nth. exact NFe.
  - intros E' Fb'. change (ebu s = true) in E'. change (fbu s = true) in Fb'. destruct (X E' Fb') as (SN & LC & FS). split; [|split].
    + intros k Hk. rewrite NE in Hk. unfold t. rewrite hfs_at_edge_relabeled by (try assumption; exact (L2 E')).
      apply SN. apply (swap_half_lt a b (ne s) k Ha Hb). exact Hk.
    + intros c Hc _. change (c < nc s) in Hc. pose proof (LC c Hc (NFc c)) as Cl.
      apply (closed_cell_rename s t c c (fun x => x) (swap_half a b)); [rewrite map_id; reflexivity| | | | |exact Cl].
      * intros y Hy. exact (proj1 (Cl y Hy)).
      * intros y z Hy Hz. split; reflexivity.
      * intros z Hz. apply halfface_edge_relabeled.
      * intros y z he0 w Hy Hz Hhe0 Hw. rewrite opp_swap_half. apply eqb_inj. apply swap_half_inj.
    + intros f Hf _. rewrite NF_ in Hf. unfold t. rewrite face_at_edge_relabeled. destruct (FS f Hf (NFf f)) as [Nd Sim]. split.
      * apply NoDup_map_inj_on; [exact Nd|]. intros x y _ _. apply swap_half_inj.
      * intros x Hx Ho. apply In_map_swap_half in Hx. apply In_map_swap_half in Ho. rewrite <- opp_swap_half in Ho. exact (Sim _ Hx Ho).
Qed.

Lemma swap_edge_defs a b s : shift_inv2 s -> a < ne s -> b < ne s -> let t := swap_edge_indices a b s in
  edges t = swap_nth a b (0, 0) (edges s) /\ faces t = map (map (tr2 a b)) (faces s) /\ cells t = cells s.
Proof.
  intros [I X] Ha Hb. cbv zeta. destruct (Nat.eq_dec a b) as [->|N]; [rewrite swap_edge_self, swap_nth_same, map_tr2_same; repeat split|].
  rewrite (swap_edge_relabeled a b s I N Ha Hb). repeat split.
Qed.

(* ================================================================== the step theorem *)

Definition edge_arrays_fast (h : nat) (s s' : mesh) : Prop :=
  vdel s' = vdel s /\ edel s' = fast_remove false h (edel s) /\ fdel s' = fdel s /\ cdel s' = cdel s /\
  pv s' = pv s /\ pe s' = map (pfast h) (pe s) /\ phe s' = map (pfast2 h) (phe s) /\
  pf s' = pf s /\ phf s' = phf s /\ pc s' = pc s /\ pm s' = pm s /\
  (ndv s' = ndv s /\ nde s' = nde s /\ ndf s' = ndf s /\ ndc s' = ndc s).

Theorem fast_edge_arrays h s : deferred s = false -> fast s = true -> sized s -> h < ne s -> edge_arrays_fast h s (delete_edge_core h s).
Proof.
  intros D F (_ & Le & _ & _ & Lp) Hh.
  pose proof (delete_edge_core_props h s D) as P. cbv zeta in P. unfold victim in P. rewrite F, D in P. cbn [andb negb] in P.
  pose proof (cv_delete_edge_core h s D) as C. unfold cv in C. injection C as k1 k2 k3 k4 _ _.
  set (l := ne s - 1) in *. destruct P as (p1 & p2 & p3 & p4 & p5 & p6 & p7 & p8 & p9 & p10 & p11).
  set (t := swap_edge_indices h l s) in *.
  assert (Sw : edel t = swap_nth h l false (edel s) /\ pe t = map (pswap h l) (pe s) /\ phe t = half_swap_props h l (phe s) /\
               vdel t = vdel s /\ fdel t = fdel s /\ cdel t = cdel s /\
               pv t = pv s /\ pf t = pf s /\ phf t = phf s /\ pc t = pc s /\ pm t = pm s).
  { unfold t. destruct (Nat.eq_dec h l) as [->|N].
    - rewrite swap_edge_self, swap_nth_same. unfold half_swap_props. repeat split.
      + rewrite <- (map_id (pe s)) at 1. apply map_ext. intros p. symmetry. apply pswap_same.
      + rewrite map_map. rewrite <- (map_id (phe s)) at 1. apply map_ext. intros p. rewrite !pswap_same. reflexivity.
    - pose proof (swap_edge_effect h l s N) as E. cbv zeta in E.
      destruct E as (c1&c2&c3&c4&c5&c6&c7&c8&c9&c10&c11&c12&c13&c14&c15&_). repeat split; assumption. }
  destruct Sw as (w1 & w2 & w3 & w4 & w5 & w6 & w7 & w8 & w9 & w10 & w11).
  unfold edge_arrays_fast. rewrite p1, p2, p3, p4, p5, p6, p7, p8, p9, p10, p11, w1, w2, w3, w4, w5, w6, w7, w8, w9, w10, w11.
  repeat split; try assumption.
  - unfold l. rewrite <- Le. apply fast_remove_swap. rewrite Le. exact Hh.
  - unfold l. apply map_pfast_swap; [|exact Hh]. intros p Hp. exact (Lp KE p Hp).
  - unfold l. replace (2 * (ne s - 1) + 1) with (2 * (ne s - 1) + 1) by reflexivity.
    apply (map_pfast2_swap h (ne s)); [|exact Hh]. intros p Hp. exact (Lp KHE p Hp).
Qed.

Theorem fast_edge_step h s : deferred s = false -> fast s = true -> shift_inv2 s -> h < ne s -> edge_free s h ->
  let s' := delete_edge_core h s in let l := ne s - 1 in
  shift_inv2 s' /\ deferred s' = false /\ fast s' = true /\
  nv s' = nv s /\ edges s' = fast_remove (0, 0) h (edges s) /\ faces s' = map (map (tr2 h l)) (faces s) /\ cells s' = cells s /\
  (vbu s' = vbu s /\ ebu s' = ebu s /\ fbu s' = fbu s).
Proof.
  intros D F I Hh FF. cbv zeta. set (l := ne s - 1). assert (Hl : l < ne s) by (unfold l; lia).
  rewrite (fast_edge_split h s D F). fold l. set (t := swap_edge_indices h l s).
  destruct (swap_edge_modes h l s) as (Dt & Ft & Nt & Nvt & Vt & Et & Bt). fold t in Dt, Ft, Nt, Nvt, Vt, Et, Bt.
  rewrite D in Dt. rewrite F in Ft.
  assert (It : shift_inv2 t) by (apply shift_inv2_swap_edge; assumption).
  destruct (swap_edge_defs h l s I Hh Hl) as (Edt & Fat & Ct). fold t in Edt, Fat, Ct.
  assert (FFt : edge_free t l).
  { intros f he Hhe. unfold face_at in Hhe. rewrite Fat, nth_map_map_half in Hhe. apply in_map_iff in Hhe. destruct Hhe as [y [<- Hy]].
    pose proof (FF f y Hy) as Ny. change (swap_half h l y) with (tr2 h l y). destruct (tr2_spec h l y) as [Q _]. rewrite Q. unfold tr.
    destruct (Nat.eqb_spec (y / 2) h); [congruence|]. destruct (Nat.eqb_spec (y / 2) l); congruence. }
  assert (Hn : 0 < ne t) by lia.
  pose proof (fast_edge_last t Dt Ft It Hn) as Br. rewrite Nt in Br. fold l in Br. rewrite (Br FFt). clear Br.
  pose proof (edge_step l (set_fast false t) Dt eq_refl (proj1 (shift_inv2_set_fast false t) It) ltac:(change (l < ne t); lia) FFt) as St.
  cbv zeta in St. set (u := delete_edge_core l (set_fast false t)) in *.
  destruct St as (Iu & Du & Fu & u1 & u2 & u3 & u4 & (u5 & u6 & u7)).
  change (nv (set_fast false t)) with (nv t) in u1. change (edges (set_fast false t)) with (edges t) in u2.
  change (faces (set_fast false t)) with (faces t) in u3. change (cells (set_fast false t)) with (cells t) in u4.
  change (vbu (set_fast false t)) with (vbu t) in u5. change (ebu (set_fast false t)) with (ebu t) in u6. change (fbu (set_fast false t)) with (fbu t) in u7.
  split; [apply (proj1 (shift_inv2_set_fast true u)); exact Iu|]. rsq.
  split; [exact Du|]. split; [reflexivity|]. split; [congruence|].
  split; [rewrite u2, Edt; unfold l, ne; apply fast_remove_swap; exact Hh|].
  split; [|repeat split; congruence].
  rewrite u3, <- Fat. apply map_map_cor2_last. intros xs x Hxs Hx. destruct (In_nth _ _ [] Hxs) as [f [Hf Ef]].
  pose proof It as (((_ & _ & NFf & _) & _ & _ & _ & (_ & R2 & _) & _) & _).
  replace (2 * (l + 1)) with (2 * ne t) by (rewrite Nt; unfold l; lia). apply (R2 f Hf (NFf f)). unfold face_at. rewrite Ef. exact Hx.
Qed.

Theorem fast_edge_step_full h s : deferred s = false -> fast s = true -> shift_inv2 s -> sized s -> h < ne s -> edge_free s h ->
  let s' := delete_edge_core h s in let l := ne s - 1 in
  shift_inv2 s' /\ sized s' /\ deferred s' = false /\ fast s' = true /\
  nv s' = nv s /\ edges s' = fast_remove (0, 0) h (edges s) /\ faces s' = map (map (tr2 h l)) (faces s) /\ cells s' = cells s /\
  (vbu s' = vbu s /\ ebu s' = ebu s /\ fbu s' = fbu s) /\ edge_arrays_fast h s s'.
Proof.
  intros D F I Z Hh FF. cbv zeta. pose proof (fast_edge_step h s D F I Hh FF) as St. cbv zeta in St.
  destruct St as (a1 & a2 & a3 & a4 & a5 & a6 & a7 & a8).
  split; [exact a1|]. split; [apply Sizes.szd_sized, Sizes.szd_delete_edge_core; apply Sizes.szd_sized; exact Z|].
  exact (conj a2 (conj a3 (conj a4 (conj a5 (conj a6 (conj a7 (conj a8 (fast_edge_arrays h s D F Z Hh)))))))).
Qed.

Corollary fast_edge_step_cache_is_scan h s t : deferred s = false -> fast s = true -> shift_inv2 s -> h < ne s -> edge_free s h ->
  deferred t = false -> fast t = true -> shift_inv2 t -> nv t = nv s -> edges t = edges s -> faces t = faces s -> cells t = cells s ->
  let s' := delete_edge_core h s in let t' := delete_edge_core h t in
  nv t' = nv s' /\ edges t' = edges s' /\ faces t' = faces s' /\ cells t' = cells s'.
Proof.
  intros D F I Hh FF D' F' I' e0 e1 e2 e3. cbv zeta.
  assert (FF' : edge_free t h) by (intros f he Hhe; unfold face_at in Hhe; rewrite e2 in Hhe; exact (FF f he Hhe)).
  assert (Hh' : h < ne t) by (unfold ne; rewrite e1; exact Hh).
  pose proof (fast_edge_step h s D F I Hh FF) as P. pose proof (fast_edge_step h t D' F' I' Hh' FF') as Q. cbv zeta in P, Q.
  destruct P as (_ & _ & _ & p1 & p2 & p3 & p4 & _). destruct Q as (_ & _ & _ & q1 & q2 & q3 & q4 & _).
  unfold ne in *. rewrite p1, p2, p3, p4, q1, q2, q3, q4, e0, e1, e2, e3. repeat split.
Qed.
