(* Kernel3/GcFastEdge.v -- C04, FAST mode, the edge pass of collect_garbage (no cell / face flag left; edge / vertex flags pending):
     S1  ginv_swap_edge    : swap_edge_indices on a state with flags is the relabeling edge_relabeled and keeps ginv
     S3  gcfast_edge_last  : removing the flagged LAST edge in fast mode = the index-shifting removal of it, up to the fast flag
     S4  gcfast_edge_step  : one step delete_edge_core h (clr_e h s) with e_deleted s h = true:
         ginv again, edges = fast_remove (0,0) h, edge flags = fast_remove false h, faces relabeled by tr2 h last, rest untouched,
         edge properties pfast h, halfedge properties pfast2 h. *)
From Coq Require Import ZArith Lia Bool Arith List ZifyNat ZifyBool.
From OVM Require Import Base.ListX Base.ListLemmas Base.ListLemmas2 Kernel.State Kernel.Ops Kernel.Mirror Kernel.Construct
                        Kernel.Recompute Kernel.Closure Kernel.ExactInv Kernel.ExactDelete Kernel.SwapEffects Kernel.SwapInvol Kernel.PropLaws
                        Kernel.DeleteEffects Kernel.DeleteDefs Kernel.GcFacts Kernel.SwapFaceCache Kernel.SwapEdgeCache Kernel.Sizes
                        Kernel2.LookupModel Kernel2.AdjacentProofs Kernel2.ReorderExact Kernel2.ExactBase Kernel2.ExactHistory
                        Kernel.ShiftFace Kernel.ShiftEdge Kernel.ShiftVertex Kernel.ShiftCompose Kernel3.FastDefs Kernel3.FastBase
                        Kernel3.FastEdge Kernel3.GcDefs Kernel3.GcList Kernel3.GcInv Kernel3.GcCell Kernel3.GcFace Kernel3.GcEdge
                        Kernel3.GcFastBase.
Import ListNotations.
Ltac Zify.zify_post_hook ::= Z.div_mod_to_equations.
Local Open Scope nat_scope.

Ltac rsge := cbn [set_fast set_nv set_edges set_faces set_cells set_vdel set_edel set_fdel set_cdel set_counts set_flags
                set_out_hes set_inc_hfs set_inc_cell set_props swap_prop_elems delete_prop_elem resize_props
                vertex_deleted edge_deleted face_deleted cell_deleted
                nv edges faces cells vdel edel fdel cdel ndv nde ndf ndc vbu ebu fbu deferred fast
                out_hes inc_hfs inc_cell pv pe phe pf phf pc pm props fst snd].

(* ================================================================== S1 *)

Lemma no_deleted_face_lists_no_fflags s a b : no_fflags s -> no_deleted_face_lists s a b.
Proof. intros NF f Hf Hd. rewrite NF in Hd. discriminate. Qed.

Lemma swap_edge_relabeled_g a b s : ginv s -> no_fflags s -> a <> b -> a < ne s -> b < ne s ->
  swap_edge_indices a b s = edge_relabeled a b s.
Proof.
  intros ((VO & EO & FO & R & L) & _) NF N Ha Hb. apply swap_edge_exact_relabeling; try assumption.
  apply no_deleted_face_lists_no_fflags. exact NF.
Qed.

Theorem ginv_edge_relabeled a b s : ginv s -> a <> b -> a < ne s -> b < ne s -> ginv (edge_relabeled a b s).
Proof.
  intros I N Ha Hb. pose proof I as (B & LV & (U1 & U2 & U3) & X).
  pose proof (bu_inv_edge_relabeled a b s N Ha Hb B) as B'.
  pose proof B as (VO & EO & FO & (R1 & R2 & R3) & (L1 & L2 & L3 & L4 & L5 & L6)).
  set (t := edge_relabeled a b s) in *.
  assert (NE_ : ne t = ne s) by (unfold ne, t, edge_relabeled; cbn [edges]; apply swap_nth_length).
  assert (NF_ : nf t = nf s) by (unfold nf, t, edge_relabeled; cbn [faces]; apply map_length).
  split; [exact B'|]. split; [exact LV|]. split; [split; [|split; [|exact U3]]|].
  - intros e He Hd. rewrite NE_ in He. unfold t in Hd. rewrite e_deleted_edge_relabeled in Hd by lia.
    unfold t. rewrite edge_at_edge_relabeled by assumption. change (v_deleted (edge_relabeled a b s)) with (v_deleted s).
    apply (U1 (swap_idx a b e)); [apply (swap_idx_lt a b (ne s) e Ha Hb); exact He|exact Hd].
  - intros f Hf Hd he Hhe. rewrite NF_ in Hf. change (f_deleted s f = false) in Hd. unfold t in Hhe.
    rewrite face_at_edge_relabeled in Hhe. apply In_map_swap_half in Hhe. unfold t. rewrite e_deleted_edge_relabeled by lia.
    destruct (swap_half_spec a b he) as [Q _]. rewrite <- Q. exact (U2 f Hf Hd _ Hhe).
  - intros E' Fb'. change (ebu s = true) in E'. change (fbu s = true) in Fb'. destruct (X E' Fb') as (SN & LC). split.
    + intros k Hk. rewrite NE_ in Hk. unfold t. rewrite hfs_at_edge_relabeled by (try assumption; exact (L2 E')).
      apply SN. apply (swap_half_lt a b (ne s) k Ha Hb). exact Hk.
    + intros c Hc Hd. change (c < nc s) in Hc. change (c_deleted s c = false) in Hd. pose proof (LC c Hc Hd) as Cl.
      apply (closed_cell_rename s t c c (fun x => x) (swap_half a b)); [rewrite map_id; reflexivity| | | | |exact Cl].
      * intros y Hy. exact (proj1 (Cl y Hy)).
      * intros y z Hy Hz. split; reflexivity.
      * intros z Hz. apply halfface_edge_relabeled.
      * intros y z he0 w Hy Hz Hhe0 Hw. rewrite opp_swap_half. apply eqb_inj. apply swap_half_inj.
Qed.

Theorem ginv_swap_edge a b s : ginv s -> no_fflags s -> a < ne s -> b < ne s -> ginv (swap_edge_indices a b s).
Proof.
  intros I NF Ha Hb. destruct (Nat.eq_dec a b) as [->|N]; [rewrite swap_edge_self; exact I|].
  rewrite (swap_edge_relabeled_g a b s I NF N Ha Hb). apply ginv_edge_relabeled; assumption.
Qed.

Lemma swap_edge_defs_g a b s : ginv s -> no_fflags s -> a < ne s -> b < ne s -> let t := swap_edge_indices a b s in
  nv t = nv s /\ edges t = swap_nth a b (0, 0) (edges s) /\ faces t = map (map (tr2 a b)) (faces s) /\ cells t = cells s /\
  vdel t = vdel s /\ edel t = swap_nth a b false (edel s) /\ fdel t = fdel s /\ cdel t = cdel s.
Proof.
  intros I NF Ha Hb. cbv zeta. destruct (Nat.eq_dec a b) as [->|N]; [rewrite swap_edge_self, !swap_nth_same, map_tr2_same; repeat split|].
  rewrite (swap_edge_relabeled_g a b s I NF N Ha Hb). repeat split.
Qed.

(* ================================================================== S3 *)
Section EdgeLast.
Context (t : mesh).
Context (D : deferred t = false) (F : fast t = true) (I : ginv t) (NFf : no_fflags t) (Hn : 0 < ne t).
Context (Hd : e_deleted t (ne t - 1) = true).

Local Notation l := (ne t - 1).
Local Notation t0 := (set_fast false t).
Local Notation u := (clr_e (ne t - 1) t).
Local Notation u0 := (clr_e (ne t - 1) (set_fast false t)).

Lemma gfe_faces_id : map (map (cor2 (2 * l + 1))) (faces t) = faces t.
Proof.
  pose proof I as ((_ & _ & _ & (_ & R2 & _) & _) & _).
  apply map_map_cor2_last. intros xs x Hxs Hx. destruct (In_nth _ _ [] Hxs) as [f [Hf Ef]].
  replace (2 * (l + 1)) with (2 * ne t) by lia. apply (R2 f Hf (NFf f)). unfold face_at. rewrite Ef. exact Hx.
Qed.

Lemma gfe_out_id : vbu t = true -> map (map (cor2 (2 * l + 1))) (edge_out l u) = edge_out l u.
Proof.
  intros Vb. pose proof I as ((VO & _ & _ & _ & (L1 & _)) & _).
  apply map_map_cor2_last. intros xs x Hxs Hx. destruct (In_nth _ _ [] Hxs) as [v [Hv Ev]].
  rewrite edge_out_length in Hv. change (out_hes u) with (out_hes t) in Hv. rewrite (L1 Vb) in Hv.
  assert (Hx' : In x (out_at t v)) by (apply (edge_out_entries l u); rewrite Ev; exact Hx).
  apply (VO Vb v Hv) in Hx'. destruct Hx' as (Hx' & _). lia.
Qed.

Theorem gcfast_edge_last : delete_edge_core l u = set_fast true (delete_edge_core l u0).
Proof.
  assert (Hl : l < ne t) by lia.
  (* the fast side *)
  pose proof (fast_edge_view u D F) as V. cbv zeta in V. change (ne u) with (ne t) in V. destruct V as (x1 & x2 & x3 & x4 & (x5 & x6 & x7)).
  pose proof (delete_edge_core_defs l u D) as Df. cbv zeta in Df. unfold victim in Df. change (fast u) with (fast t) in Df.
  change (deferred u) with (deferred t) in Df. change (ne u) with (ne t) in Df. rewrite F, D in Df. cbn [andb negb] in Df.
  rewrite swap_edge_self in Df. destruct Df as (d1 & d2 & d3 & _).
  pose proof (delete_edge_core_props l u D) as P. cbv zeta in P. unfold victim in P. change (fast u) with (fast t) in P.
  change (deferred u) with (deferred t) in P. change (ne u) with (ne t) in P. rewrite F, D in P. cbn [andb negb] in P.
  rewrite swap_edge_self in P. destruct P as (p1 & p2 & p3 & p4 & p5 & p6 & p7 & p8 & p9 & p10 & p11).
  pose proof (cv_delete_edge_core l u D) as C. unfold cv in C. injection C as k1 k2 k3 k4 k5 k6.
  (* the index-shifting side *)
  pose proof (gce_faces t0 l D eq_refl (ginv_set_fast false t I) NFf Hl Hd) as y3.
  pose proof (delete_edge_core_view l u0 D eq_refl) as W. cbv zeta in W.
  destruct W as (w1 & w2 & _ & w4 & w5 & w6 & w7 & w8 & w9 & w10 & w11 & (m1 & m2 & m3 & m4 & m5)).
  pose proof (delete_edge_core_props l u0 D) as Q. cbv zeta in Q. unfold victim in Q. change (fast u0) with false in Q. cbn [andb] in Q.
  destruct Q as (q1 & q2 & q3 & q4 & q5 & q6 & q7 & q8 & q9 & q10 & q11).
  pose proof (cv_delete_edge_core l u0 D) as C'. unfold cv in C'. injection C' as j1 j2 j3 j4 j5 j6.
  pose proof gfe_faces_id as Fid. pose proof gfe_out_id as Oid.
  set (Y := delete_edge_core l u0) in *. set (Z := delete_edge_core l u) in *. clearbody Y Z.
  apply mesh_ext; rsge.
  - rewrite d2, w1. reflexivity.
  - rewrite d1, w2. reflexivity.
  - rewrite x1, y3. symmetry. exact Fid.
  - rewrite d3, w4. reflexivity.
  - rewrite p4, w5. reflexivity.
  - rewrite p1, q1. reflexivity.
  - rewrite p5, q5. reflexivity.
  - rewrite p6, q6. reflexivity.
  - rewrite k1, j1. reflexivity.
  - rewrite k2, j2. reflexivity.
  - rewrite k3, j3. reflexivity.
  - rewrite k4, j4. reflexivity.
  - rewrite x5, m1. reflexivity.
  - rewrite x6, m2. reflexivity.
  - rewrite x7, m3. reflexivity.
  - rewrite k5, j5. reflexivity.
  - rewrite k6. exact F.
  - rewrite x2, w9. change (vbu u0) with (vbu t). change (vbu u) with (vbu t). change (out_hes u0) with (out_hes u).
    change (edge_out l u0) with (edge_out l u).
    destruct (vbu t) eqn:Vb; [symmetry; apply Oid; reflexivity|reflexivity].
  - rewrite x3, w10. reflexivity.
  - rewrite x4, w11. reflexivity.
  - rewrite p7, q7. reflexivity.
  - rewrite p2, q2. reflexivity.
  - rewrite p3, q3. reflexivity.
  - rewrite p8, q8. reflexivity.
  - rewrite p9, q9. reflexivity.
  - rewrite p10, q10. reflexivity.
  - rewrite p11, q11. reflexivity.
Qed.
End EdgeLast.

(* ================================================================== S3 + the non-fast step: removal of the flagged last edge *)

Lemma gcfast_edge_last_step t : deferred t = false -> fast t = true -> ginv t -> no_fflags t -> 0 < ne t ->
  e_deleted t (ne t - 1) = true ->
  let s' := delete_edge_core (ne t - 1) (clr_e (ne t - 1) t) in
  ginv s' /\ deferred s' = false /\ fast s' = true /\ no_fflags s' /\
  nv s' = nv t /\ edges s' = remove_nth (ne t - 1) (edges t) /\ faces s' = faces t /\ cells s' = cells t /\
  vdel s' = vdel t /\ edel s' = remove_nth (ne t - 1) (edel t) /\ fdel s' = fdel t /\ cdel s' = cdel t /\
  (vbu s' = vbu t /\ ebu s' = ebu t /\ fbu s' = fbu t).
Proof.
  intros Dt Ft It NFt Hnt Hdt. cbv zeta.
  rewrite (gcfast_edge_last t Dt Ft It NFt Hnt Hdt).
  pose proof (gc_edge_step (set_fast false t) (ne t - 1) Dt eq_refl (ginv_set_fast false t It) NFt ltac:(change (ne t - 1 < ne t); lia) Hdt) as St.
  pose proof (gfe_faces_id t It NFt Hnt) as Fid.
  generalize dependent (delete_edge_core (ne t - 1) (clr_e (ne t - 1) (set_fast false t))). intros Y St.
  destruct St as (IY & DY & FY & NFY & a1 & a2 & a3 & a4 & a5 & a6 & a7 & a8 & (m1 & m2 & m3) & _).
  change (nv (set_fast false t)) with (nv t) in a1. change (edges (set_fast false t)) with (edges t) in a2.
  change (faces (set_fast false t)) with (faces t) in a3. change (cells (set_fast false t)) with (cells t) in a4.
  change (vdel (set_fast false t)) with (vdel t) in a5. change (edel (set_fast false t)) with (edel t) in a6.
  change (fdel (set_fast false t)) with (fdel t) in a7. change (cdel (set_fast false t)) with (cdel t) in a8.
  change (vbu (set_fast false t)) with (vbu t) in m1. change (ebu (set_fast false t)) with (ebu t) in m2.
  change (fbu (set_fast false t)) with (fbu t) in m3. rewrite Fid in a3.
  split; [apply ginv_set_fast; exact IY|]. rsge.
  split; [exact DY|]. split; [reflexivity|]. split; [intros c; exact (NFY c)|].
  exact (conj a1 (conj a2 (conj a3 (conj a4 (conj a5 (conj a6 (conj a7 (conj a8 (conj m1 (conj m2 m3)))))))))).
Qed.

(* ================================================================== S4: the step *)

Section EdgeStepFast.
Context (s : mesh) (h : nat).
Context (D : deferred s = false) (F : fast s = true) (I : ginv s) (NFf : no_fflags s) (Hh : h < ne s) (Hd : e_deleted s h = true).

Local Notation l := (ne s - 1).
Local Notation s' := (delete_edge_core h (clr_e h s)).

Lemma ges_lens : length (edel s) = ne s.
Proof. destruct I as ((_ & _ & _ & _ & (_ & _ & _ & L4 & _)) & _). exact L4. Qed.

Lemma ges_split : s' = delete_edge_core l (clr_e l (swap_edge_indices h l s)).
Proof.
  rewrite (fast_edge_split h (clr_e h s) D F). change (ne (clr_e h s)) with (ne s).
  rewrite swap_edge_clr by (rewrite ges_lens; lia). reflexivity.
Qed.

Lemma ges_swapped : let t := swap_edge_indices h l s in
  ginv t /\ no_fflags t /\ deferred t = false /\ fast t = true /\ ne t = ne s /\ e_deleted t l = true /\
  nv t = nv s /\ edges t = swap_nth h l (0, 0) (edges s) /\ faces t = map (map (tr2 h l)) (faces s) /\ cells t = cells s /\
  vdel t = vdel s /\ edel t = swap_nth h l false (edel s) /\ fdel t = fdel s /\ cdel t = cdel s /\
  (vbu t = vbu s /\ ebu t = ebu s /\ fbu t = fbu s).
Proof.
  cbv zeta. assert (Hl : l < ne s) by lia.
  destruct (swap_edge_modes h l s) as (Dt & Ft & Nt & _ & Vt & Et & Bt).
  destruct (swap_edge_defs_g h l s I NFf Hh Hl) as (e1 & e2 & e3 & e4 & e5 & e6 & e7 & e8).
  split; [apply ginv_swap_edge; assumption|]. split; [intros c; unfold f_deleted; rewrite e7; apply NFf|].
  split; [congruence|]. split; [congruence|]. split; [exact Nt|].
  split; [unfold e_deleted; rewrite e6, nth_swap_tr by (rewrite ges_lens; lia); unfold tr; rewrite Nat.eqb_refl;
          destruct (Nat.eqb_spec l h) as [->|]; exact Hd|].
  repeat split; assumption.
Qed.

Theorem gcfast_edge_step :
  ginv s' /\ deferred s' = false /\ fast s' = true /\ no_fflags s' /\
  nv s' = nv s /\ edges s' = fast_remove (0, 0) h (edges s) /\ faces s' = map (map (tr2 h l)) (faces s) /\ cells s' = cells s /\
  vdel s' = vdel s /\ edel s' = fast_remove false h (edel s) /\ fdel s' = fdel s /\ cdel s' = cdel s /\
  (vbu s' = vbu s /\ ebu s' = ebu s /\ fbu s' = fbu s).
Proof.
  assert (Hl : l < ne s) by lia. pose proof ges_lens as Le.
  rewrite ges_split. pose proof ges_swapped as Sw. cbv zeta in Sw.
  generalize dependent (swap_edge_indices h l s). intros t Sw.
  destruct Sw as (It & NFt & Dt & Ft & Nt & Hdt & e1 & e2 & e3 & e4 & e5 & e6 & e7 & e8 & (b1 & b2 & b3)).
  rewrite <- Nt in Hdt. assert (Hnt : 0 < ne t) by lia.
  pose proof (gcfast_edge_last_step t Dt Ft It NFt Hnt Hdt) as St. cbv zeta in St. rewrite Nt in St.
  generalize dependent (delete_edge_core l (clr_e l t)). intros Y St.
  destruct St as (IY & DY & FY & NFY & a1 & a2 & a3 & a4 & a5 & a6 & a7 & a8 & (m1 & m2 & m3)).
  refine (conj IY (conj DY (conj FY (conj NFY _)))).
  rewrite a1, a2, a3, a4, a5, a6, a7, a8, m1, m2, m3, e1, e2, e3, e4, e5, e6, e7, e8, b1, b2, b3.
  splits; try reflexivity.
  - unfold ne. apply fast_remove_swap. exact Hh.
  - rewrite <- Le. apply fast_remove_swap. rewrite Le. exact Hh.
Qed.
End EdgeStepFast.

(* ================================================================== properties, sizes: unconditional *)

Lemma gcfast_edge_step_props s h : deferred s = false -> fast s = true -> sized s -> h < ne s ->
  let s' := delete_edge_core h (clr_e h s) in
  sized s' /\ pe s' = map (pfast h) (pe s) /\ phe s' = map (pfast2 h) (phe s) /\
  pv s' = pv s /\ pf s' = pf s /\ phf s' = phf s /\ pc s' = pc s /\ pm s' = pm s.
Proof.
  intros D F Z Hh. cbv zeta.
  assert (Zc : sized (clr_e h s)) by (apply szd_sized; apply szd_upd_flag_e; apply szd_sized; exact Z).
  pose proof (fast_edge_arrays h (clr_e h s) D F Zc Hh) as A. unfold edge_arrays_fast in A.
  destruct A as (_ & _ & _ & _ & a5 & a6 & a7 & a8 & a9 & a10 & a11 & _).
  split; [apply szd_sized, szd_delete_edge_core; apply szd_sized; exact Zc|]. repeat split; assumption.
Qed.
