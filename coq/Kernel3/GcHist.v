(* Kernel3/GcHist.v -- C04: the hypothesis gc_ready of the collection theorems holds after EVERY deferred-mode history of
   Kernel2/ExactHistory.v (add_vertex / add_n_vertices / add_edge / add_face / add_face(vertices) / topology-checked add_cell on free
   halffaces / delete_vertex / delete_edge / delete_face / delete_cell / the vertex-incidence and fast-mode toggles):
     - the flagged set stays upward closed (additions reference live entities only; deletions flag the closure),
     - no deleted-counter undercounts its flags (so "all counters zero" means "nothing flagged"),
     - bu_inv2 (Kernel2/ExactHistory.v) and one element per slot (Kernel/Sizes.v). *)
From Coq Require Import ZArith Lia Bool Arith List ZifyNat ZifyBool Permutation.
From OVM Require Import Base.ListX Base.ListLemmas Kernel.State Kernel.Ops Kernel.Mirror Kernel.Construct Kernel.Recompute Kernel.Closure
                        Kernel.ExactInv Kernel.ExactRun Kernel.DeferredDelete Kernel.Sizes Kernel.SwapInvol
                        Kernel2.LookupModel Kernel2.ListAux Kernel2.AdjacentProofs Kernel2.ReorderExact Kernel2.ExactBase
                        Kernel2.ExactAddCell Kernel2.ExactDelCell Kernel2.ExactDelFace Kernel2.ExactDeletions Kernel2.ExactHistory
                        Kernel.ShiftFace Kernel.ShiftCompose Kernel3.GcDefs Kernel3.GcList Kernel3.GcInv Kernel3.GcDeferred.
Import ListNotations.
Ltac Zify.zify_post_hook ::= Z.div_mod_to_equations.
Local Open Scope nat_scope.

(* ================================================================== counters never undercount *)

Definition cnt_inv (s : mesh) : Prop :=
  ntrue (vdel s) <= ndv s /\ ntrue (edel s) <= nde s /\ ntrue (fdel s) <= ndf s /\ ntrue (cdel s) <= ndc s.

Lemma ntrue_app_false l : ntrue (l ++ [false]) = ntrue l.
Proof. unfold ntrue. rewrite filter_app, app_length. cbn [filter length]. lia. Qed.

Lemma ntrue_zero l : ntrue l = 0 -> forall i, nth i l false = false.
Proof.
  induction l as [|b l IH]; intros H i; [apply nth_false_nil|]. unfold ntrue in *. cbn [filter] in H. destruct b; [cbn [length] in H; lia|].
  destruct i; [reflexivity|]. cbn [nth]. apply IH. exact H.
Qed.

Lemma ntrue_upd_le x l : ntrue (upd x true l) <= S (ntrue l).
Proof.
  revert x. induction l as [|b l IH]; intros [|x]; cbn [upd]; unfold ntrue in *; cbn [filter length]; try lia.
  - destruct b; cbn [length]; lia.
  - specialize (IH x). destruct b; cbn [length]; lia.
Qed.

Lemma ntrue_flag_all_le L : forall l, ntrue (flag_all L l) <= ntrue l + length L.
Proof.
  unfold flag_all. induction L as [|x L IH]; intros l; cbn [fold_left length]; [lia|]. specialize (IH (upd x true l)). pose proof (ntrue_upd_le x l). lia.
Qed.

Lemma cnt_inv_pending s : cnt_inv s -> pending_ok s.
Proof.
  intros (a & b & c & d) G. unfold needs_gc in G. rewrite !orb_false_iff, !Nat.ltb_ge in G.
  repeat split; intros i; apply ntrue_zero; lia.
Qed.

Lemma cnt_inv_dstep s s' dv de df dc : dstep s s' dv de df dc -> cnt_inv s -> cnt_inv s'.
Proof.
  intros (_&_&_&_&x5&x6&x7&x8&y1&y2&y3&y4&_) (a & b & c & d). unfold cnt_inv. rewrite x5, x6, x7, x8, y1, y2, y3, y4.
  pose proof (ntrue_flag_all_le dv (vdel s)). pose proof (ntrue_flag_all_le de (edel s)).
  pose proof (ntrue_flag_all_le df (fdel s)). pose proof (ntrue_flag_all_le dc (cdel s)). lia.
Qed.

(* ================================================================== the part of the state the two invariants read *)

Definition kview (s : mesh) := (edges s, faces s, cells s, (vdel s, edel s, fdel s, cdel s), (ndv s, nde s, ndf s, ndc s)).

Definition K (s : mesh) : Prop := up_closed s /\ cnt_inv s.

Lemma K_kview s t : kview t = kview s -> K s -> K t.
Proof.
  unfold kview. intros E. injection E as e1 e2 e3 e4 e5 e6 e7 e8 e9 e10 e11.
  unfold K, up_closed, cnt_inv, ne, nf, nc, edge_at, face_at, cell_at, v_deleted, e_deleted, f_deleted, c_deleted.
  rewrite e1, e2, e3, e4, e5, e6, e7, e8, e9, e10, e11. tauto.
Qed.

Lemma app_false_live l i : nth i l false = false -> nth i (l ++ [false]) false = false.
Proof.
  intros H. destruct (Nat.lt_ge_cases i (length l)) as [Hi|Hi]; [rewrite app_nth1 by exact Hi; exact H|].
  rewrite app_nth2 by exact Hi. destruct (i - length l) as [|[|k]]; reflexivity.
Qed.

Lemma app_false_old l i : i < length l -> nth i (l ++ [false]) false = nth i l false.
Proof. intros H. apply app_nth1. exact H. Qed.

(* ================================================================== additions *)

Ltac rsk := cbn [set_nv set_edges set_faces set_cells set_vdel set_edel set_fdel set_cdel set_counts set_flags
                set_out_hes set_inc_hfs set_inc_cell set_props resize_props resize_eprops resize_fprops resize_cprops resize_vprops
                nv edges faces cells vdel edel fdel cdel ndv nde ndf ndc vbu ebu fbu deferred fast
                out_hes inc_hfs inc_cell pv pe phe pf phf pc pm props fst snd].

Lemma kview_add_vertex s : kview (fst (add_vertex s)) = (edges s, faces s, cells s, (vdel s ++ [false], edel s, fdel s, cdel s), (ndv s, nde s, ndf s, ndc s)).
Proof. unfold add_vertex, kview. cbn [fst]. destruct (vbu s) eqn:V; rsk; rewrite ?V; rsk; reflexivity. Qed.

Theorem K_add_vertex s : K s -> K (fst (add_vertex s)).
Proof.
  intros [(U1 & U2 & U3) (a & b & c & d)]. pose proof (kview_add_vertex s) as E. set (s' := fst (add_vertex s)) in *. clearbody s'.
  unfold kview in E. injection E as e1 e2 e3 e4 e5 e6 e7 e8 e9 e10 e11.
  split.
  - unfold up_closed, ne, nf, nc, edge_at, face_at, cell_at, v_deleted, e_deleted, f_deleted, c_deleted. rewrite e1, e2, e3, e4, e5, e6, e7.
    split; [|split; [exact U2|exact U3]]. intros e He Hd. destruct (U1 e He Hd) as [A B]. split; apply app_false_live; assumption.
  - unfold cnt_inv. rewrite e4, e5, e6, e7, e8, e9, e10, e11, ntrue_app_false. tauto.
Qed.

Theorem K_add_n_vertices n : forall s, K s -> K (add_n_vertices n s).
Proof. induction n as [|n IH]; intros s H; [exact H|]. simpl. apply IH. apply K_add_vertex. exact H. Qed.

Theorem K_append_edge s a b : K s -> length (edel s) = ne s -> v_deleted s a = false -> v_deleted s b = false -> K (fst (append_edge s a b)).
Proof.
  intros [(U1 & U2 & U3) (ca & cb & cc & cd)] Le Ha Hb. pose proof (append_edge_effect s a b) as E. destruct (append_edge s a b) as [s' e]. cbn [fst].
  destruct E as (_ & e1 & e2 & (t1 & t2 & t3 & t4 & t5 & t6 & t7 & t8 & t9 & t10 & _) & _).
  split.
  - split; [|split].
    + intros x Hx Hd. unfold ne in Hx. rewrite e1, app_length in Hx. cbn [length] in Hx. unfold e_deleted in Hd. rewrite e2 in Hd.
      unfold v_deleted, edge_at. rewrite t4, e1. destruct (Nat.lt_ge_cases x (ne s)) as [Hl|Hg].
      * rewrite app_false_old in Hd by (rewrite Le; exact Hl). rewrite app_nth1 by exact Hl. exact (U1 x Hl Hd).
      * assert (x = ne s) by (unfold ne in *; lia). subst x. unfold ne. rewrite nth_middle. cbn [fst snd]. split; assumption.
    + intros f Hf Hd he Hhe. unfold nf, f_deleted, face_at in *. rewrite t2 in Hf, Hhe. rewrite t5 in Hd. unfold e_deleted. rewrite e2.
      apply app_false_live. exact (U2 f Hf Hd he Hhe).
    + intros c Hc Hd hf Hhf. unfold nc, c_deleted, cell_at in *. rewrite t3 in Hc, Hhf. rewrite t6 in Hd. unfold f_deleted. rewrite t5. exact (U3 c Hc Hd hf Hhf).
  - unfold cnt_inv. rewrite t4, e2, t5, t6, t7, t8, t9, t10, ntrue_app_false. tauto.
Qed.

Theorem K_add_edge s a b d : K s -> length (edel s) = ne s -> v_deleted s a = false -> v_deleted s b = false -> K (fst (add_edge s a b d)).
Proof.
  intros H Le Ha Hb. unfold add_edge. destruct d; [apply K_append_edge; assumption|].
  destruct (find_dup_edge s a b); [exact H|apply K_append_edge; assumption].
Qed.

Lemma kview_append_face s hes : kview (fst (append_face s hes)) = (edges s, faces s ++ [hes], cells s, (vdel s, edel s, fdel s ++ [false], cdel s), (ndv s, nde s, ndf s, ndc s)).
Proof. unfold append_face, kview. cbn [fst]. destruct (ebu s) eqn:E; destruct (fbu s) eqn:F; rsk; rewrite ?E, ?F; rsk; rewrite ?E, ?F; reflexivity. Qed.

Theorem K_append_face s hes : K s -> length (fdel s) = nf s -> (forall h, In h hes -> e_deleted s (h / 2) = false) -> K (fst (append_face s hes)).
Proof.
  intros [(U1 & U2 & U3) (ca & cb & cc & cd)] Lf Hl. pose proof (kview_append_face s hes) as E. set (s' := fst (append_face s hes)) in *. clearbody s'.
  unfold kview in E. injection E as e1 e2 e3 e4 e5 e6 e7 e8 e9 e10 e11. split.
  - unfold up_closed, ne, nf, nc, edge_at, face_at, cell_at, v_deleted, e_deleted, f_deleted, c_deleted. rewrite e1, e2, e3, e4, e5, e6, e7.
    split; [exact U1|split].
    + intros f Hf Hd he Hhe. rewrite app_length in Hf. cbn [length] in Hf. destruct (Nat.lt_ge_cases f (length (faces s))) as [Hlt|Hge].
      * rewrite app_false_old in Hd by (rewrite Lf; exact Hlt). rewrite app_nth1 in Hhe by exact Hlt. exact (U2 f Hlt Hd he Hhe).
      * assert (f = length (faces s)) by lia. subst f. rewrite nth_middle in Hhe. exact (Hl he Hhe).
    + intros c Hc Hd hf Hhf. apply app_false_live. exact (U3 c Hc Hd hf Hhf).
  - unfold cnt_inv. rewrite e4, e5, e6, e7, e8, e9, e10, e11, ntrue_app_false. tauto.
Qed.

Theorem K_add_face s hes c : K s -> length (fdel s) = nf s -> (forall h, In h hes -> e_deleted s (h / 2) = false) -> K (fst (add_face s hes c)).
Proof.
  intros H Lf Hl. unfold add_face. destruct (c && negb (loop_ok s hes)); [exact H|].
  pose proof (K_append_face s hes H Lf Hl). destruct (append_face s hes). exact H0.
Qed.

Lemma kview_append_cell s hfs : kview (fst (append_cell s hfs)) = (edges s, faces s, cells s ++ [hfs], (vdel s, edel s, fdel s, cdel s ++ [false]), (ndv s, nde s, ndf s, ndc s)).
Proof.
  unfold append_cell, kview. cbv zeta.
  change (fbu (resize_cprops (S (nc s)) (set_cdel (cdel s ++ [false]) (set_cells (cells s ++ [hfs]) s)))) with (fbu s).
  destruct (fbu s); [|rsk; reflexivity].
  match goal with |- context [if ebu ?t then _ else _] => change (ebu t) with (ebu s) end.
  destruct (ebu s); [|rsk; reflexivity]. cbn [fst].
  match goal with |- context [reorder_edges ?es ?t] => pose proof (reorder_edges_frame es t) as R; set (u := reorder_edges es t) in * end.
  cbv zeta in R. destruct R as (_&A2&A3&A4&A5&A6&A7&A8&_&_&_&(B1&B2&B3&B4)&_). rewrite A2, A3, A4, A5, A6, A7, A8, B1, B2, B3, B4. rsk. reflexivity.
Qed.

Theorem K_append_cell s hfs : K s -> length (cdel s) = nc s -> (forall h, In h hfs -> f_deleted s (h / 2) = false) -> K (fst (append_cell s hfs)).
Proof.
  intros [(U1 & U2 & U3) (ca & cb & cc & cd)] Lc Hl. pose proof (kview_append_cell s hfs) as E. set (s' := fst (append_cell s hfs)) in *. clearbody s'.
  unfold kview in E. injection E as e1 e2 e3 e4 e5 e6 e7 e8 e9 e10 e11. split.
  - unfold up_closed, ne, nf, nc, edge_at, face_at, cell_at, v_deleted, e_deleted, f_deleted, c_deleted. rewrite e1, e2, e3, e4, e5, e6, e7.
    split; [exact U1|split; [exact U2|]].
    intros c Hc Hd hf Hhf. rewrite app_length in Hc. cbn [length] in Hc. destruct (Nat.lt_ge_cases c (length (cells s))) as [Hlt|Hge].
    + rewrite app_false_old in Hd by (rewrite Lc; exact Hlt). rewrite app_nth1 in Hhf by exact Hlt. exact (U3 c Hlt Hd hf Hhf).
    + assert (c = length (cells s)) by lia. subst c. rewrite nth_middle in Hhf. exact (Hl hf Hhf).
  - unfold cnt_inv. rewrite e4, e5, e6, e7, e8, e9, e10, e11, ntrue_app_false. tauto.
Qed.

Theorem K_add_cell s hfs c : K s -> length (cdel s) = nc s -> (forall h, In h hfs -> f_deleted s (h / 2) = false) -> K (fst (add_cell s hfs c)).
Proof.
  intros H Lc Hl. unfold add_cell. destruct (c && negb (cell_check s hfs)); [exact H|].
  pose proof (K_append_cell s hfs H Lc Hl). destruct (append_cell s hfs). exact H0.
Qed.

(* ================================================================== add_face from vertices *)

Lemma szd_lens s : szd s -> flag_lens s.
Proof. intros (a & b & c & d & _). unfold flag_lens, ne, nf, nc. tauto. Qed.

Lemma add_edge_live s a b : bu_inv s -> szd s -> a < nv s ->
  let r := add_edge s a b false in
  snd r < ne (fst r) /\ e_deleted (fst r) (snd r) = false /\ vdel (fst r) = vdel s /\ nv (fst r) = nv s /\
  (forall e, e < ne s -> e_deleted s e = false -> e < ne (fst r) /\ e_deleted (fst r) e = false).
Proof.
  intros B Z Ha. cbv zeta. pose proof (szd_lens s Z) as (_ & Le & _). unfold add_edge. destruct (find_dup_edge s a b) as [e|] eqn:Fd.
  - cbn [fst snd]. assert (e < ne s /\ e_deleted s e = false) as [A1 A2].
    { destruct B as (VO & _). destruct (vbu s) eqn:V.
      - assert (OX : out_exact_at s a) by (intros h; apply (VO V a Ha h)). destruct (find_dup_cached_sound s a b e V OX Fd) as (r & d & _). auto.
      - destruct (find_dup_scan_sound s a b e V Fd) as (r & d & _). auto. }
    repeat split; auto.
  - pose proof (append_edge_effect s a b) as E. destruct (append_edge s a b) as [s' e]. cbn [fst snd].
    destruct E as (-> & e1 & e2 & (t1 & t2 & t3 & t4 & _) & _).
    assert (NE : ne s' = S (ne s)) by (unfold ne; rewrite e1, app_length; cbn [length]; lia).
    split; [lia|]. split; [unfold e_deleted; rewrite e2, <- Le; apply nth_middle|]. split; [exact t4|]. split; [exact t1|].
    intros x Hx Hd. split; [lia|]. unfold e_deleted. rewrite e2. apply app_false_live. exact Hd.
Qed.

Definition hes_live (s : mesh) (hes : list nat) : Prop := forall h, In h hes -> h / 2 < ne s /\ e_deleted s (h / 2) = false.
Definition vs_live (s : mesh) (vs : list nat) : Prop := forall v, In v vs -> v < nv s /\ v_deleted s v = false.

Lemma K_add_face_v_step v w acc : K (fst acc) -> bu_inv (fst acc) -> szd (fst acc) -> vs_live (fst acc) [v; w] -> hes_live (fst acc) (snd acc) ->
  let acc' := add_face_v_step v w acc in
  K (fst acc') /\ bu_inv (fst acc') /\ szd (fst acc') /\ hes_live (fst acc') (snd acc') /\ vdel (fst acc') = vdel (fst acc) /\ nv (fst acc') = nv (fst acc).
Proof.
  destruct acc as [s hes]. cbn [fst snd]. intros Ks B Z VL HL. cbv zeta. unfold add_face_v_step.
  destruct (VL v (or_introl eq_refl)) as [Hv Lv]. destruct (VL w (or_intror (or_introl eq_refl))) as [Hw Lw].
  pose proof (szd_lens s Z) as (_ & Le & _).
  pose proof (K_add_edge s v w false Ks Le Lv Lw) as K1. pose proof (bu_inv_add_edge s v w false B Hv Hw) as B1.
  pose proof (szd_add_edge s v w false Z) as Z1. pose proof (add_edge_live s v w B Z Hv) as L1. cbv zeta in L1.
  destruct (add_edge s v w false) as [s' e]. cbn [fst snd] in *. destruct L1 as (l1 & l2 & l3 & l4 & l5).
  split; [exact K1|]. split; [exact B1|]. split; [exact Z1|]. split; [|split; [exact l3|exact l4]].
  intros h Hh. apply in_app_iff in Hh. destruct Hh as [Hh|[<-|[]]].
  - destruct (HL h Hh) as [A1 A2]. exact (l5 _ A1 A2).
  - destruct (snd (edge_at s' e) =? v); [replace ((2 * e + 1) / 2) with e by lia|replace ((2 * e + 0) / 2) with e by lia]; auto.
Qed.

Lemma vs_live_transfer s t vs : vdel t = vdel s -> nv t = nv s -> vs_live s vs -> vs_live t vs.
Proof. intros E N H v Hv. unfold v_deleted. rewrite E, N. exact (H v Hv). Qed.

Lemma K_add_face_v_edges first : forall vs acc, K (fst acc) -> bu_inv (fst acc) -> szd (fst acc) ->
  vs_live (fst acc) (first :: vs) -> hes_live (fst acc) (snd acc) ->
  let acc' := add_face_v_edges first vs acc in
  K (fst acc') /\ szd (fst acc') /\ hes_live (fst acc') (snd acc').
Proof.
  induction vs as [|v t IH]; intros acc Ks B Z VL HL; cbv zeta; cbn [add_face_v_edges]; [tauto|].
  destruct t as [|w t'].
  - assert (VL2 : vs_live (fst acc) [v; first]) by (intros x [<-|[<-|[]]]; apply VL; cbn [In]; tauto).
    destruct (K_add_face_v_step v first acc Ks B Z VL2 HL) as (a & b & c & d & _). tauto.
  - assert (VL2 : vs_live (fst acc) [v; w]) by (intros x [<-|[<-|[]]]; apply VL; cbn [In]; tauto).
    destruct (K_add_face_v_step v w acc Ks B Z VL2 HL) as (a & b & c & d & e & f).
    apply IH; auto. apply (vs_live_transfer (fst acc)); [exact e|exact f|]. intros x Hx. apply VL. cbn [In] in *. tauto.
Qed.

Theorem K_add_face_v s vs : K s -> bu_inv s -> szd s -> vs_live s vs -> K (fst (add_face_v s vs)).
Proof.
  intros Ks B Z VL. unfold add_face_v. destruct vs as [|f t]; [exact Ks|].
  assert (VL' : vs_live s (f :: f :: t)) by (intros x [<-|Hx]; apply VL; [left; reflexivity|exact Hx]).
  pose proof (K_add_face_v_edges f (f :: t) (s, []) Ks B Z VL' ltac:(intros h [])) as P. cbv zeta in P.
  destruct (add_face_v_edges f (f :: t) (s, [])) as [s1 hes]. cbn [fst snd] in P. destruct P as (K1 & Z1 & H1).
  pose proof (szd_lens s1 Z1) as (_ & _ & Lf & _). apply K_add_face; [exact K1|exact Lf|]. intros h Hh. exact (proj2 (H1 h Hh)).
Qed.

(* ================================================================== deletions and toggles *)

Theorem K_dstep s s' dv de df dc : dstep s s' dv de df dc -> flag_lens s -> refs_ok s -> closure_ok s dv de df dc -> K s -> K s'.
Proof.
  intros DS FL R C [U Cn]. split; [exact (proj1 (up_closed_dstep _ _ _ _ _ _ DS FL R U C))|exact (cnt_inv_dstep _ _ _ _ _ _ DS Cn)].
Qed.

Lemma kview_enable_vbu b s : kview (enable_vbu b s) = kview s.
Proof. unfold enable_vbu. destruct b; destruct (vbu s); reflexivity. Qed.
Lemma kview_enable_fast b s : kview (enable_fast b s) = kview s.
Proof. reflexivity. Qed.

(* ================================================================== histories *)

Definition Hinv (s : mesh) : Prop := bu_inv2 s /\ K s /\ szd s.

Lemma Hinv_hinv s : Hinv s -> hinv s.
Proof. intros (B & (U & _) & Z). split; [exact B|]. split; [exact U|exact (proj1 Z)]. Qed.

Lemma Hinv_gc_ready s : Hinv s -> gc_ready s.
Proof.
  intros H. pose proof (Hinv_hinv s H) as Hh. destruct H as (B & (U & Cn) & Z). pose proof (hinv_parts s Hh) as (D & _).
  split; [exact D|]. split; [apply cnt_inv_pending; exact Cn|apply hinv_ginv; exact Hh].
Qed.

Lemma live_v_parts s v : live_v s v = true -> v < nv s /\ v_deleted s v = false.
Proof. unfold live_v. rewrite andb_true_iff, Nat.ltb_lt, negb_true_iff. tauto. Qed.

Lemma all_live_v s vs : all_b (live_v s) vs = true -> vs_live s vs.
Proof. intros H v Hv. apply live_v_parts. exact (forallb_lt _ _ H v Hv). Qed.

Theorem K_step s o : Hinv s -> hist_op o = true -> valid_op s o = true -> K (fst (exec s o)).
Proof.
  intros H G V. pose proof (Hinv_hinv s H) as Hh. pose proof (hinv_parts s Hh) as (D & VO & EO & FO & R & _).
  destruct H as (B2 & Ks & Z). pose proof (szd_lens s Z) as FL. pose proof FL as (Lv & Le & Lf & Lc). pose proof (proj1 B2) as B.
  destruct o; try discriminate; cbn [exec valid_op] in *.
  - pose proof (K_add_vertex s Ks). destruct (add_vertex s). exact H.
  - apply K_add_n_vertices. exact Ks.
  - apply andb_true_iff in V. destruct V as [V1 V2]. apply live_v_parts in V1, V2.
    pose proof (K_add_edge s a b dup Ks Le (proj2 V1) (proj2 V2)). destruct (add_edge s a b dup). exact H.
  - apply andb_true_iff in V. destruct V as [_ V2].
    assert (HL : forall h, In h hes -> e_deleted s (h / 2) = false).
    { intros h Hh0. pose proof (forallb_lt _ _ V2 h Hh0) as L. apply live_e_lt in L. tauto. }
    pose proof (K_add_face s hes check Ks Lf HL). destruct (add_face s hes check). exact H.
  - apply andb_true_iff in V. destruct V as [_ V2].
    pose proof (K_add_face_v s vs Ks B Z (all_live_v s vs V2)). destruct (add_face_v s vs). exact H.
  - assert (HL : forall h, In h hfs -> f_deleted s (h / 2) = false).
    { intros h Hh0. pose proof (forallb_lt _ _ V h Hh0) as L. apply live_f_lt in L. tauto. }
    pose proof (K_add_cell s hfs check Ks Lc HL). destruct (add_cell s hfs check). exact H.
  - apply live_v_parts in V. cbn [fst].
    exact (K_dstep _ _ _ _ _ _ (dstep_delete_vertex s v D VO EO FO (proj1 V)) FL R (closure_ok_vertex s v) Ks).
  - apply live_e_lt in V. cbn [fst].
    exact (K_dstep _ _ _ _ _ _ (dstep_delete_edge s e D EO FO (proj1 V)) FL R (closure_ok_edge s e) Ks).
  - apply live_f_lt in V. cbn [fst].
    exact (K_dstep _ _ _ _ _ _ (dstep_delete_face s f D FO (proj1 V)) FL R (closure_ok_face s f) Ks).
  - cbn [fst]. exact (K_dstep _ _ _ _ _ _ (delete_cell_deferred c s D) FL R (closure_ok_cell s c) Ks).
  - cbn [fst]. apply (K_kview s); [apply kview_enable_vbu|exact Ks].
  - cbn [fst]. apply (K_kview s); [apply kview_enable_fast|exact Ks].
Qed.

Lemma next_valid s o : valid_op s o = true -> next s o = fst (exec s o).
Proof. intros V. unfold next, step. rewrite V. destruct (exec s o). reflexivity. Qed.
Lemma next_invalid s o : valid_op s o = false -> next s o = s.
Proof. intros V. unfold next, step. rewrite V. reflexivity. Qed.

Theorem Hinv_step s o : Hinv s -> hist_op o = true -> (valid_op s o = true -> valid_op2 s o = true) -> Hinv (next s o).
Proof.
  intros H G V2. pose proof H as (B2 & Ks & Z). destruct (valid_op s o) eqn:V.
  - split; [apply bu_inv2_step; [exact B2|exact G|intros _; exact (V2 eq_refl)]|]. rewrite (next_valid s o V).
    split; [apply K_step; assumption|apply szd_exec; assumption].
  - rewrite (next_invalid s o V). exact H.
Qed.

Lemma K_empty : K empty_mesh.
Proof.
  split.
  - split; [|split]; intros x Hx; unfold ne, nf, nc in Hx; cbn in Hx; lia.
  - unfold cnt_inv, ntrue. cbn. lia.
Qed.

Theorem Hinv_along_histories ops : hist_ok ops = true -> Hinv (run ops).
Proof.
  unfold hist_ok, run.
  assert (G : forall ops s, Hinv s -> hist_ok_from s ops = true -> Hinv (run_from s ops)).
  { induction ops0 as [|o r IH]; intros s H F; [exact H|]. cbn [hist_ok_from] in F.
    apply andb_true_iff in F. destruct F as [F F3]. apply andb_true_iff in F. destruct F as [F1 F2].
    unfold run_from. cbn [fold_left]. apply IH; [|exact F3]. apply Hinv_step; [exact H|exact F1|].
    intros V. rewrite V in F2. exact F2. }
  intros F. apply G; [|exact F]. split; [apply bu_inv2_empty|split; [apply K_empty|apply szd_empty]].
Qed.

Theorem gc_ready_along_histories ops : hist_ok ops = true -> gc_ready (run ops) /\ faces_simple (run ops) /\ sized (run ops).
Proof.
  intros F. pose proof (Hinv_along_histories ops F) as H. split; [apply Hinv_gc_ready; exact H|].
  split; [exact (proj2 (proj2 (proj2 (proj2 (proj2 (proj2 (proj2 (proj1 H))))))))|apply szd_sized; exact (proj2 (proj2 H))].
Qed.
