(* Kernel3/GcTrackFast.v -- C04, tracking in FAST mode: the temporary index properties of StatusAttrib::garbage_collection ride
   through the swap-with-last collection with their entities (Kernel3/GcFastMain.v), so the slot that holds token i afterwards is
   r i for a live entity i (r: the renumbering bijection of the fast collection) and no slot holds the token of a removed entity. *)
From Coq Require Import ZArith Lia Bool Arith List ZifyNat ZifyBool.
From OVM Require Import Base.ListX Base.ListLemmas Kernel.State Kernel.Ops Kernel.StatusGC Kernel.GcFacts Kernel.ExactInv Kernel.PropLaws
                        Kernel.SwapInvol Kernel.Sizes Kernel.Recompute
                        Kernel2.ListAux Kernel2.ExactBase Kernel2.ExactHistory Kernel.ShiftFace Kernel.ShiftCompose
                        Kernel3.GcDefs Kernel3.GcList Kernel3.GcInv Kernel3.GcMain Kernel3.GcHist Kernel3.GcTrack Kernel3.GcStatus
                        Kernel3.GcFastBase Kernel3.GcFastChain Kernel3.GcFastMain.
Import ListNotations.
Ltac Zify.zify_post_hook ::= Z.div_mod_to_equations.
Local Open Scope nat_scope.

(* ================================================================== find_index, exactly *)

Lemma find_index_exact {A} (p : A -> bool) (d : A) l n : n < length l -> p (nth n l d) = true -> (forall k, k < n -> p (nth k l d) = false) ->
  find_index p l = Some n.
Proof.
  intros Hn Pn Pk. destruct (find_index p l) as [m|] eqn:E.
  - destruct (find_index_Some p d l m E) as (Hm & Pm & Pm'). f_equal.
    destruct (Nat.lt_trichotomy m n) as [H|[H|H]]; [|exact H|].
    + rewrite (Pk m H) in Pm. discriminate.
    + rewrite (Pm' n H) in Pn. discriminate.
  - rewrite find_index_None in E. rewrite (E _ (nth_In l d Hn)) in Pn. discriminate.
Qed.

(* ================================================================== a token array that moved with a bijection *)

Section Tokens.
Context (liveb : nat -> bool) (n N : nat) (r : nat -> nat) (D : list Z) (dz : Z).
Context (Lrange : forall i, liveb i = true -> i < n).
Context (Rrange : forall i, liveb i = true -> r i < N) (Rinj : forall i j, liveb i = true -> liveb j = true -> r i = r j -> i = j).
Context (Count : N = length (filter liveb (seq 0 n))) (LD : length D = N).
Context (Tok : forall i, liveb i = true -> nth (r i) D dz = Z.of_nat i).

Lemma tok_surj k : k < N -> exists i, liveb i = true /\ r i = k.
Proof.
  intros Hk. set (L := filter liveb (seq 0 n)).
  assert (NdL : NoDup L) by (apply NoDup_filter, seq_NoDup).
  assert (Lin : forall i, In i L -> liveb i = true) by (intros i Hi; apply filter_In in Hi; tauto).
  assert (Nd : NoDup (map r L)).
  { apply NoDup_map_inj_on; [exact NdL|]. intros x y Hx Hy. apply Rinj; apply Lin; assumption. }
  assert (Inc : incl (map r L) (seq 0 N)).
  { intros y Hy. apply in_map_iff in Hy. destruct Hy as [i [<- Hi]]. apply in_seq. pose proof (Rrange i (Lin i Hi)). lia. }
  assert (Sur : incl (seq 0 N) (map r L)).
  { apply NoDup_length_incl; [exact Nd| |exact Inc]. rewrite seq_length, map_length. unfold L. lia. }
  assert (Hin : In k (map r L)) by (apply Sur; apply in_seq; lia).
  apply in_map_iff in Hin. destruct Hin as [i [E Hi]]. exists i. split; [apply Lin; exact Hi|exact E].
Qed.

Theorem tok_find i : find_index (fun z => Z.eqb z (Z.of_nat i)) D = if liveb i then Some (r i) else None.
Proof.
  destruct (liveb i) eqn:Li.
  - apply (find_index_exact _ dz); [rewrite LD; apply Rrange; exact Li|rewrite (Tok i Li); apply Z.eqb_refl|].
    intros k Hk. destruct (tok_surj k ltac:(pose proof (Rrange i Li); lia)) as [i' [Li' E]]. rewrite <- E, (Tok i' Li').
    apply Z.eqb_neq. intros X. apply Nat2Z.inj in X. subst i'. lia.
  - apply find_index_None. intros x Hx. destruct (In_nth _ _ dz Hx) as [k [Hk E]]. rewrite LD in Hk.
    destruct (tok_surj k Hk) as [i' [Li' E']]. rewrite <- E, <- E', (Tok i' Li'). apply Z.eqb_neq. intros X. apply Nat2Z.inj in X. subst i'. congruence.
Qed.
End Tokens.

(* ================================================================== the half-handle renumbering is a bijection too *)

Lemma r2_half r h : r2 r h / 2 = r (h / 2) /\ r2 r h mod 2 = h mod 2.
Proof. unfold r2. split; lia. Qed.

Lemma filter_half_length (p : nat -> bool) n : length (filter (fun h => p (h / 2)) (seq 0 (2 * n))) = 2 * length (filter p (seq 0 n)).
Proof.
  induction n as [|n IH]; [reflexivity|]. replace (2 * S n) with (S (S (2 * n))) by lia. rewrite !seq_S, !filter_app, !app_length, IH. cbn [filter plus].
  replace (S (2 * n) / 2) with n by lia. replace (2 * n / 2) with n by lia. destruct (p n); cbn [length]; lia.
Qed.

(* ================================================================== the four token properties after the fast collection *)

Lemma pval_idx n i : i < n -> pval (idx_prop n) i = Z.of_nat i.
Proof.
  intros H. unfold pval, idx_prop. cbn [pdata pdef]. rewrite (nth_indep _ 0%Z (Z.of_nat 0)) by (rewrite map_length, seq_length; exact H).
  rewrite map_nth, seq_nth by exact H. reflexivity.
Qed.

Lemma last_prop_nth l : l <> [] -> last_prop l = nth (length l - 1) l {| pdef := 0%Z; pdata := [] |}.
Proof.
  intros H. unfold last_prop. destruct (exists_last H) as [l' [x ->]]. rewrite last_last, app_length. cbn [length].
  replace (length l' + 1 - 1) with (length l') by lia. rewrite nth_middle. reflexivity.
Qed.

Definition ftrack (liveb : nat -> bool) (r : nat -> nat) (i : nat) : option nat := if liveb i then Some (r i) else None.

Section FastTokens.
Context (s : mesh) (R : gc_ready s) (Z : sized s) (F : fast s = true).

Lemma sized_with_tokens : sized (with_tokens s).
Proof.
  destruct Z as (a & b & c & d & Zp). split; [exact a|]. split; [exact b|]. split; [exact c|]. split; [exact d|].
  intros k p Hp. destruct k; cbn [props with_tokens set_props pv pe phe pf phf pc pm count] in *; try (apply in_app_iff in Hp; destruct Hp as [Hp|[<-|[]]]);
    try (unfold idx_prop; cbn [pdata]; rewrite map_length, seq_length; reflexivity).
  - exact (Zp KV p Hp).
  - exact (Zp KE p Hp).
  - exact (Zp KHE p Hp).
  - exact (Zp KF p Hp).
  - exact (Zp KHF p Hp).
  - exact (Zp KC p Hp).
  - exact (Zp KM p Hp).
Qed.

Theorem fast_tokens : let s4 := collect_garbage (with_tokens s) in
  exists rv re rf rc : nat -> nat,
    gc_fast_post (with_tokens s) s4 rv re rf rc /\ no_flags s4 /\ needs_gc s4 = false /\ deferred s4 = true /\ fast s4 = true /\ ginv s4 /\ sized s4 /\
    (forall v, new_of_old (last_prop (pv s4)) v = ftrack (live_v s) rv v) /\
    (forall h, new_of_old (last_prop (phe s4)) h = ftrack (live_he s) (r2 re) h) /\
    (forall h, new_of_old (last_prop (phf s4)) h = ftrack (live_hf s) (r2 rf) h) /\
    (forall c, new_of_old (last_prop (pc s4)) c = ftrack (live_c s) rc c).
Proof.
  cbv zeta. destruct (collect_garbage_fast_post (with_tokens s) (gc_ready_with_tokens s R) sized_with_tokens F) as (rv & re & rf & rc & P & NF & NG & Dt & Ft & It & Zt).
  exists rv, re, rf, rc. generalize dependent (collect_garbage (with_tokens s)). intros s4 P NF NG Dt Ft It Zt.
  split; [exact P|]. split; [exact NF|]. split; [exact NG|]. split; [exact Dt|]. split; [exact Ft|]. split; [exact It|]. split; [exact Zt|].
  destruct P as (n1 & n2 & n3 & n4 & (bv1 & bv2) & (be1 & be2) & (bf1 & bf2) & (bc1 & bc2) & _ & _ & _ & (lv & pV) & _ & (lhe & pHE) & _ & (lhf & pHF) & (lc & pC) & _).
  destruct Zt as (_ & _ & _ & _ & Zp).
  change (live_vertices (with_tokens s)) with (live_vertices s) in n1. change (live_edges (with_tokens s)) with (live_edges s) in n2.
  change (live_faces (with_tokens s)) with (live_faces s) in n3. change (live_cells (with_tokens s)) with (live_cells s) in n4.
  set (pd := {| pdef := 0%Z; pdata := [] |}).
  split; [|split; [|split]].
  - (* vertices *)
    change (pv (with_tokens s)) with (pv s ++ [idx_prop (nv s)]) in lv, pV. rewrite app_length in lv, pV. cbn [length] in lv, pV.
    assert (Ne : pv s4 <> []) by (intros X; rewrite X in lv; cbn in lv; lia).
    intros v. rewrite (last_prop_nth _ Ne), lv. replace (length (pv s) + 1 - 1) with (length (pv s)) by lia. fold pd.
    assert (In0 : In (nth (length (pv s)) (pv s4) pd) (pv s4)) by (apply nth_In; lia).
    unfold new_of_old. apply (tok_find (live_v s) (nv s) (nv s4) rv _ (pdef (nth (length (pv s)) (pv s4) pd))).
    + intros i Li. apply live_v_parts in Li. tauto.
    + exact bv1.
    + exact bv2.
    + rewrite n1. unfold live_vertices. f_equal. apply filter_ext_in2. intros x Hx. apply in_seq in Hx. unfold live_v.
      replace (x <? nv s) with true by (symmetry; apply Nat.ltb_lt; lia). reflexivity.
    + exact (Zp KV _ In0).
    + intros i Li. change (nth (rv i) (pdata (nth (length (pv s)) (pv s4) pd)) (pdef (nth (length (pv s)) (pv s4) pd))) with (pval (nth (length (pv s)) (pv s4) pd) (rv i)).
      rewrite (pV (length (pv s)) i pd ltac:(lia) Li). change (live_v (with_tokens s) i) with (live_v s i) in *.
      rewrite nth_middle. apply pval_idx. apply live_v_parts in Li. tauto.
  - (* halfedges *)
    change (phe (with_tokens s)) with (phe s ++ [idx_prop (2 * ne s)]) in lhe, pHE. rewrite app_length in lhe, pHE. cbn [length] in lhe, pHE.
    assert (Ne : phe s4 <> []) by (intros X; rewrite X in lhe; cbn in lhe; lia).
    intros h. rewrite (last_prop_nth _ Ne), lhe. replace (length (phe s) + 1 - 1) with (length (phe s)) by lia. fold pd.
    assert (In0 : In (nth (length (phe s)) (phe s4) pd) (phe s4)) by (apply nth_In; lia).
    unfold new_of_old. apply (tok_find (live_he s) (2 * ne s) (2 * ne s4) (r2 re) _ (pdef (nth (length (phe s)) (phe s4) pd))).
    + intros i Li. unfold live_he in Li. apply live_e_lt in Li. lia.
    + intros i Li. pose proof (be1 (i / 2) Li). destruct (r2_half re i). lia.
    + intros i j Li Lj E. destruct (r2_half re i) as [A1 A2]. destruct (r2_half re j) as [B1 B2].
      assert (i / 2 = j / 2) by (apply be2; [exact Li|exact Lj|rewrite <- A1, <- B1, E; reflexivity]). assert (i mod 2 = j mod 2) by (rewrite <- A2, <- B2, E; reflexivity). lia.
    + rewrite n2. unfold live_he, live_edges. rewrite <- filter_half_length. f_equal. apply filter_ext_in2. intros x Hx. apply in_seq in Hx.
      unfold live_e. replace (x / 2 <? ne s) with true by (symmetry; apply Nat.ltb_lt; lia). reflexivity.
    + exact (Zp KHE _ In0).
    + intros i Li. change (nth (r2 re i) (pdata (nth (length (phe s)) (phe s4) pd)) (pdef (nth (length (phe s)) (phe s4) pd))) with (pval (nth (length (phe s)) (phe s4) pd) (r2 re i)).
      rewrite (pHE (length (phe s)) i pd ltac:(lia) Li). rewrite nth_middle. apply pval_idx. unfold live_he in Li. apply live_e_lt in Li. lia.
  - (* halffaces *)
    change (phf (with_tokens s)) with (phf s ++ [idx_prop (2 * nf s)]) in lhf, pHF. rewrite app_length in lhf, pHF. cbn [length] in lhf, pHF.
    assert (Ne : phf s4 <> []) by (intros X; rewrite X in lhf; cbn in lhf; lia).
    intros h. rewrite (last_prop_nth _ Ne), lhf. replace (length (phf s) + 1 - 1) with (length (phf s)) by lia. fold pd.
    assert (In0 : In (nth (length (phf s)) (phf s4) pd) (phf s4)) by (apply nth_In; lia).
    unfold new_of_old. apply (tok_find (live_hf s) (2 * nf s) (2 * nf s4) (r2 rf) _ (pdef (nth (length (phf s)) (phf s4) pd))).
    + intros i Li. unfold live_hf in Li. apply live_f_lt in Li. lia.
    + intros i Li. pose proof (bf1 (i / 2) Li). destruct (r2_half rf i). lia.
    + intros i j Li Lj E. destruct (r2_half rf i) as [A1 A2]. destruct (r2_half rf j) as [B1 B2].
      assert (i / 2 = j / 2) by (apply bf2; [exact Li|exact Lj|rewrite <- A1, <- B1, E; reflexivity]). assert (i mod 2 = j mod 2) by (rewrite <- A2, <- B2, E; reflexivity). lia.
    + rewrite n3. unfold live_hf, live_faces. rewrite <- filter_half_length. f_equal. apply filter_ext_in2. intros x Hx. apply in_seq in Hx.
      unfold live_f. replace (x / 2 <? nf s) with true by (symmetry; apply Nat.ltb_lt; lia). reflexivity.
    + exact (Zp KHF _ In0).
    + intros i Li. change (nth (r2 rf i) (pdata (nth (length (phf s)) (phf s4) pd)) (pdef (nth (length (phf s)) (phf s4) pd))) with (pval (nth (length (phf s)) (phf s4) pd) (r2 rf i)).
      rewrite (pHF (length (phf s)) i pd ltac:(lia) Li). rewrite nth_middle. apply pval_idx. unfold live_hf in Li. apply live_f_lt in Li. lia.
  - (* cells *)
    change (pc (with_tokens s)) with (pc s ++ [idx_prop (nc s)]) in lc, pC. rewrite app_length in lc, pC. cbn [length] in lc, pC.
    assert (Ne : pc s4 <> []) by (intros X; rewrite X in lc; cbn in lc; lia).
    intros c. rewrite (last_prop_nth _ Ne), lc. replace (length (pc s) + 1 - 1) with (length (pc s)) by lia. fold pd.
    assert (In0 : In (nth (length (pc s)) (pc s4) pd) (pc s4)) by (apply nth_In; lia).
    unfold new_of_old. apply (tok_find (live_c s) (nc s) (nc s4) rc _ (pdef (nth (length (pc s)) (pc s4) pd))).
    + intros i Li. apply live_c_lt in Li. tauto.
    + exact bc1.
    + exact bc2.
    + rewrite n4. unfold live_cells. f_equal. apply filter_ext_in2. intros x Hx. apply in_seq in Hx. unfold live_c.
      replace (x <? nc s) with true by (symmetry; apply Nat.ltb_lt; lia). reflexivity.
    + exact (Zp KC _ In0).
    + intros i Li. change (nth (rc i) (pdata (nth (length (pc s)) (pc s4) pd)) (pdef (nth (length (pc s)) (pc s4) pd))) with (pval (nth (length (pc s)) (pc s4) pd) (rc i)).
      rewrite (pC (length (pc s)) i pd ltac:(lia) Li). rewrite nth_middle. apply pval_idx. apply live_c_lt in Li. tauto.
Qed.
End FastTokens.

(* ================================================================== stripping the temporary properties *)

Lemma nth_removelast {A} (l : list A) j d : j < length l - 1 -> nth j (removelast l) d = nth j l d.
Proof.
  intros H. destruct l as [|a l] using rev_ind; [cbn in H; lia|]. rewrite removelast_last. rewrite app_length in H. cbn [length] in H.
  symmetry. apply app_nth1. lia.
Qed.
Lemma length_removelast {A} (l : list A) : length (removelast l) = length l - 1.
Proof. destruct l as [|a l] using rev_ind; [reflexivity|]. rewrite removelast_last, app_length. cbn [length]. lia. Qed.

Lemma strip_props (liveb : nat -> bool) (r : nat -> nat) (old : list parray) (x : parray) (new : list parray) :
  (length new = length (old ++ [x]) /\ forall j i pd, j < length (old ++ [x]) -> liveb i = true -> pval (nth j new pd) (r i) = pval (nth j (old ++ [x]) pd) i) ->
  length (removelast new) = length old /\ forall j i pd, j < length old -> liveb i = true -> pval (nth j (removelast new) pd) (r i) = pval (nth j old pd) i.
Proof.
  intros [L P]. rewrite app_length in L, P. cbn [length] in L, P. split; [rewrite length_removelast; lia|].
  intros j i pd Hj Li. rewrite nth_removelast by lia. rewrite (P j i pd ltac:(lia) Li). rewrite app_nth1 by exact Hj. reflexivity.
Qed.

Lemma gc_fast_post_strip s s4 d rv re rf rc : gc_fast_post (with_tokens s) s4 rv re rf rc ->
  gc_fast_post s (set_flags (vbu (without_tokens s4)) (ebu (without_tokens s4)) (fbu (without_tokens s4)) d (fast (without_tokens s4)) (without_tokens s4)) rv re rf rc.
Proof.
  intros (n1 & n2 & n3 & n4 & bv & be & bf & bc & de & df & dc & pV & pE & pHE & pF & pHF & pC & pM).
  unfold gc_fast_post.
  split; [exact n1|]. split; [exact n2|]. split; [exact n3|]. split; [exact n4|]. split; [exact bv|]. split; [exact be|]. split; [exact bf|]. split; [exact bc|].
  split; [exact de|]. split; [exact df|]. split; [exact dc|].
  split; [exact (strip_props (live_v s) rv (pv s) _ (pv s4) pV)|]. split; [exact pE|].
  split; [exact (strip_props (live_he s) (r2 re) (phe s) _ (phe s4) pHE)|]. split; [exact pF|].
  split; [exact (strip_props (live_hf s) (r2 rf) (phf s) _ (phf s4) pHF)|].
  split; [exact (strip_props (live_c s) rc (pc s) _ (pc s4) pC)|exact pM].
Qed.

Lemma wo_fast t : no_flags t -> ginv t -> needs_gc t = false -> deferred t = true ->
  no_flags (without_tokens t) /\ ginv (without_tokens t) /\ needs_gc (without_tokens t) = false /\ deferred (without_tokens t) = true /\ fast (without_tokens t) = fast t.
Proof. intros A B C D. splits; [exact A|exact B|exact C|exact D|reflexivity]. Qed.

(* ================================================================== status_gc in FAST mode *)

Theorem status_gc_tracking_fast pm mv me mf mc tv the thf tc s :
  let s2 := status_pre pm mv me mf mc s in
  gc_ready s2 -> sized s2 -> fast s2 = true ->
  let r := status_gc pm mv me mf mc tv the thf tc s in
  exists rv re rf rc : nat -> nat,
    gc_fast_post s2 (fst r) rv re rf rc /\ no_flags (fst r) /\ ginv (fst r) /\ deferred (fst r) = deferred s /\ fast (fst r) = true /\
    (tracking_on tv the thf tc = true ->
     snd r = (map (ftrack (live_v s2) rv) tv, map (ftrack (live_he s2) (r2 re)) the, map (ftrack (live_hf s2) (r2 rf)) thf, map (ftrack (live_c s2) rc) tc)) /\
    (tracking_on tv the thf tc = false -> snd r = ([], [], [], [])).
Proof.
  cbv zeta. intros R Z F. rewrite status_gc_eq. cbv zeta. generalize dependent (status_pre pm mv me mf mc s). intros s2 R Z F.
  destruct (tracking_on tv the thf tc) eqn:T.
  - cbn [fst snd]. destruct (fast_tokens s2 R Z F) as (rv & re & rf & rc & P & NF & NG & Dt & Ft & It & _ & Tv & The & Thf & Tc).
    exists rv, re, rf, rc. generalize dependent (collect_garbage (with_tokens s2)). intros s4 P NF NG Dt Ft It Tv The Thf Tc.
    destruct (wo_fast s4 NF It NG Dt) as (NF' & It' & NG' & Dt' & Ft').
    rewrite (enable_deferred_after_gc (deferred s) (without_tokens s4) Dt' NG').
    split; [apply gc_fast_post_strip; exact P|]. split; [apply set_mode_no_flags; exact NF'|]. split; [apply set_mode_ginv; exact It'|].
    split; [reflexivity|]. split; [exact Ft|]. split; [|discriminate].
    intros _. f_equal; [f_equal; [f_equal|]|]; apply map_ext; assumption.
  - cbn [fst snd]. destruct (collect_garbage_fast_post s2 R Z F) as (rv & re & rf & rc & P & NF & NG & Dt & Ft & It & _).
    exists rv, re, rf, rc. generalize dependent (collect_garbage s2). intros t P NF NG Dt Ft It.
    rewrite (enable_deferred_after_gc (deferred s) t Dt NG).
    split; [exact (gc_fast_post_set (ndv t) (nde t) (ndf t) (ndc t) _ _ _ _ _ s2 t rv re rf rc P)|]. split; [apply set_mode_no_flags; exact NF|]. split; [apply set_mode_ginv; exact It|].
    split; [reflexivity|]. split; [exact Ft|]. split; [discriminate|reflexivity].
Qed.
