(* Kernel3/FastModes2.v -- C02_mode_independent for the four public deletions: from ONE flag-free state s satisfying the invariant
   (only the fast flag is set differently), delete_X x in immediate fast mode and in immediate index-shifting mode
     - remove the same entities: x and its brute-force upward closure (Kernel/Closure.v) -- and nothing else,
     - leave renumberings of the same surviving set with the same definitions (renumbered, Kernel3/FastModes.v), with equal counts,
     - which are isomorphic through explicit permutations of the new index ranges,
     - and both satisfy the invariant again.
   The deferred mode (Kernel/DeferredDelete.v) flags exactly the same closure and keeps every definition: deferred_same_victims. *)
From Coq Require Import ZArith Lia Bool Arith List ZifyNat ZifyBool.
From OVM Require Import Base.ListX Base.ListLemmas Base.ListLemmas2 Kernel.State Kernel.Ops Kernel.Mirror Kernel.Construct
                        Kernel.Recompute Kernel.Closure Kernel.ExactInv Kernel.SwapEffects Kernel.SwapInvol
                        Kernel.ShiftFace Kernel.ShiftEdge Kernel.ShiftVertex Kernel.ShiftCompose
                        Kernel3.FastDefs Kernel3.FastBase Kernel3.FastCell Kernel3.FastFace Kernel3.FastEdge Kernel3.FastVertex Kernel3.FastMany
                        Kernel3.FastPhases Kernel3.FastModes.
Import ListNotations.
Ltac Zify.zify_post_hook ::= Z.div_mod_to_equations.
Local Open Scope nat_scope.

(* ================================================================== the generic statement *)

Definition same_survivors (s sf sn : mesh) (vs es fs cs : list nat) : Prop :=
  renumbered s sf vs es fs cs (fren (nv s) vs) (fren (ne s) es) (fren (nf s) fs) (fren (nc s) cs) /\
  renumbered s sn vs es fs cs (shift1_many vs) (shift1_many es) (shift1_many fs) (shift1_many cs) /\
  (nv sf = nv sn /\ ne sf = ne sn /\ nf sf = nf sn /\ nc sf = nc sn) /\
  exists pv_ pe_ pf_ pc_, isomorphic sf sn pv_ pe_ pf_ pc_ /\
    perm_of (nv sn) pv_ /\ perm_of (ne sn) pe_ /\ perm_of (nf sn) pf_ /\ perm_of (nc sn) pc_ /\
    (forall i, i < nv s -> ~ In i vs -> pv_ (shift1_many vs i) = fren (nv s) vs i) /\
    (forall i, i < ne s -> ~ In i es -> pe_ (shift1_many es i) = fren (ne s) es i) /\
    (forall i, i < nf s -> ~ In i fs -> pf_ (shift1_many fs i) = fren (nf s) fs i) /\
    (forall i, i < nc s -> ~ In i cs -> pc_ (shift1_many cs i) = fren (nc s) cs i).

Theorem same_survivors_intro s sf sn vs es fs cs : victims_ok s vs es fs cs -> closed_under s vs es fs ->
  (forall c, c < nc s -> ~ In c cs -> forall hf, In hf (cell_at s c) -> ~ In (hf / 2) fs) ->
  fast_form s sf vs es fs cs -> shift_form s sn vs es fs cs -> same_survivors s sf sn vs es fs cs.
Proof.
  intros V C C4 Ff Sf. pose proof (renumbered_fast s sf vs es fs cs V Ff) as Rf. pose proof (renumbered_shift s sn vs es fs cs V C C4 Sf) as Rs.
  pose proof (renumbered_iso s sf sn vs es fs cs _ _ _ _ _ _ _ _ Rf Rs C C4) as Iso. cbv zeta in Iso.
  destruct Iso as (I0 & P1 & P2 & P3 & P4 & Q1 & Q2 & Q3 & Q4).
  split; [exact Rf|]. split; [exact Rs|]. split; [exact (proj1 I0)|].
  eexists _, _, _, _. exact (conj I0 (conj P1 (conj P2 (conj P3 (conj P4 (conj Q1 (conj Q2 (conj Q3 Q4)))))))).
Qed.

(* ================================================================== degenerate victim lists *)

Lemma keep_slots_nil {A} (d : A) l : keep_slots d [] l = l.
Proof. rewrite <- (remove_slots_keep d [] l); [reflexivity|constructor|intros c []]. Qed.
Lemma keep_slots_one {A} (d : A) x l : x < length l -> keep_slots d [x] l = remove_nth x l.
Proof. intros H. rewrite <- (remove_slots_keep d [x] l); [reflexivity|constructor|intros c [<-|[]]; exact H]. Qed.

Lemma map_frenp_nil n l : map (frenp n []) l = l.
Proof. apply map_id_on. intros [a b] _. reflexivity. Qed.
Lemma map_fren2_nil n ll : map (map (fren2 n [])) ll = ll.
Proof. apply map_id_on. intros l _. apply map_id. Qed.
Lemma map_shift1p_nil l : map (shift1p []) l = l.
Proof. apply map_id_on. intros [a b] _. reflexivity. Qed.
Lemma map_shift_many_nil ll : map (map (shift_many [])) ll = ll.
Proof. apply map_id_on. intros l _. apply map_id. Qed.

Lemma fren2_one n x h : fren2 n [x] h = tr2 x (n - 1) h.
Proof. cbn [fren2 length]. rewrite Nat.sub_0_r. reflexivity. Qed.
Lemma frenp_one n x p : frenp n [x] p = trp x (n - 1) p.
Proof. unfold frenp, trp. cbn [fren length]. rewrite Nat.sub_0_r. reflexivity. Qed.

(* ================================================================== the four public deletions *)

Theorem mode_independent_vertex v s : deferred s = false -> shift_inv2 s -> v < nv s ->
  let es := edges_at_vertex s v in let fs := faces_at_edges s es in let cs := cells_at_faces s fs in
  let sf := delete_vertex v (set_fast true s) in let sn := delete_vertex v (set_fast false s) in
  same_survivors s sf sn [v] es fs cs /\ shift_inv2 sf /\ shift_inv2 sn /\
  (deferred sf = false /\ fast sf = true) /\ (deferred sn = false /\ fast sn = false).
Proof.
  intros D I Hv. cbv zeta. destruct (closure_vertex_ok v s I Hv) as (V & C & C4).
  pose proof (fast_delete_vertex v (set_fast true s) D eq_refl (proj1 (shift_inv2_set_fast true s) I) Hv) as P. cbv zeta in P.
  pose proof (delete_vertex_immediate v (set_fast false s) D eq_refl (proj1 (shift_inv2_set_fast false s) I) Hv) as Q. cbv zeta in Q.
  destruct P as (If & Df & Ff & p1 & p2 & p3 & p4). destruct Q as (In_ & Dn & Fn & q1 & q2 & q3 & q4).
  split; [|exact (conj If (conj In_ (conj (conj Df Ff) (conj Dn Fn))))].
  apply same_survivors_intro; try assumption.
  - split; [exact p1|]. split; [|split; [exact p3|exact p4]].
    rewrite p2. apply map_ext. intros p. symmetry. apply frenp_one.
  - split; [exact q1|]. split; [|split; [exact q3|exact q4]]. rewrite q2. reflexivity.
Qed.

Theorem mode_independent_edge e s : deferred s = false -> shift_inv2 s -> e < ne s ->
  let fs := faces_at_edges s [e] in let cs := cells_at_faces s fs in
  let sf := delete_edge e (set_fast true s) in let sn := delete_edge e (set_fast false s) in
  same_survivors s sf sn [] [e] fs cs /\ shift_inv2 sf /\ shift_inv2 sn /\
  (deferred sf = false /\ fast sf = true) /\ (deferred sn = false /\ fast sn = false).
Proof.
  intros D I He. cbv zeta. destruct (closure_edge_ok e s I He) as (V & C & C4).
  pose proof (fast_delete_edge e (set_fast true s) D eq_refl (proj1 (shift_inv2_set_fast true s) I) He) as P. cbv zeta in P.
  pose proof (delete_edge_immediate e (set_fast false s) D eq_refl (proj1 (shift_inv2_set_fast false s) I) He) as Q. cbv zeta in Q.
  destruct P as (If & Df & Ff & p1 & p2 & p3 & p4). destruct Q as (In_ & Dn & Fn & q1 & q2 & q3 & q4).
  split; [|exact (conj If (conj In_ (conj (conj Df Ff) (conj Dn Fn))))].
  apply same_survivors_intro; try assumption.
  - split; [rewrite p1; cbn [length]; symmetry; apply Nat.sub_0_r|]. split; [|split; [|exact p4]].
    + rewrite p2, map_frenp_nil. reflexivity.
    + rewrite p3. apply map_ext. intros l. apply map_ext. intros h. symmetry. apply fren2_one.
  - split; [rewrite q1; cbn [length]; symmetry; apply Nat.sub_0_r|]. split; [|split; [|exact q4]].
    + rewrite q2, map_shift1p_nil. symmetry. apply keep_slots_one. exact He.
    + rewrite q3. reflexivity.
Qed.

Theorem mode_independent_face f s : deferred s = false -> shift_inv2 s -> f < nf s ->
  let cs := cells_at_faces s [f] in
  let sf := delete_face f (set_fast true s) in let sn := delete_face f (set_fast false s) in
  same_survivors s sf sn [] [] [f] cs /\ shift_inv2 sf /\ shift_inv2 sn /\
  (deferred sf = false /\ fast sf = true) /\ (deferred sn = false /\ fast sn = false).
Proof.
  intros D I Hf. cbv zeta. destruct (closure_face_ok f s I Hf) as (V & C & C4).
  pose proof (fast_delete_face f (set_fast true s) D eq_refl (proj1 (shift_inv2_set_fast true s) I) Hf) as P. cbv zeta in P.
  pose proof (delete_face_immediate_full f (set_fast false s) D eq_refl (proj1 (shift_inv2_set_fast false s) I) Hf) as Q. cbv zeta in Q.
  destruct P as (If & Df & Ff & p1 & p2 & p3 & p4). destruct Q as (In_ & Dn & Fn & q1 & q2 & q3 & q4).
  split; [|exact (conj If (conj In_ (conj (conj Df Ff) (conj Dn Fn))))].
  apply same_survivors_intro; try assumption.
  - split; [rewrite p1; cbn [length]; symmetry; apply Nat.sub_0_r|]. split; [|split].
    + rewrite p2, map_frenp_nil. reflexivity.
    + rewrite p3, map_fren2_nil. reflexivity.
    + rewrite p4. apply map_ext. intros l. apply map_ext. intros h. symmetry. apply fren2_one.
  - split; [rewrite q1; cbn [length]; symmetry; apply Nat.sub_0_r|]. split; [|split].
    + rewrite q2, map_shift1p_nil. symmetry. apply keep_slots_nil.
    + rewrite q3, map_shift_many_nil. symmetry. apply keep_slots_one. exact Hf.
    + rewrite q4. reflexivity.
Qed.

Theorem mode_independent_cell c s : deferred s = false -> shift_inv2 s -> c < nc s ->
  let sf := delete_cell c (set_fast true s) in let sn := delete_cell c (set_fast false s) in
  same_survivors s sf sn [] [] [] [c] /\ shift_inv2 sf /\ shift_inv2 sn /\
  (deferred sf = false /\ fast sf = true) /\ (deferred sn = false /\ fast sn = false).
Proof.
  intros D I Hc. cbv zeta. destruct (closure_cell_ok c s I Hc) as (V & C & C4).
  pose proof (fast_delete_cell c (set_fast true s) D eq_refl (proj1 (shift_inv2_set_fast true s) I) Hc) as P. cbv zeta in P.
  destruct P as (If & Df & Ff & p1 & p2 & p3 & p4).
  unfold delete_cell in *.
  pose proof (shift_inv2_delete_cell_core c (set_fast false s) D eq_refl (proj1 (shift_inv2_set_fast false s) I) Hc) as In_.
  pose proof (ShiftCompose.delete_cell_core_view c (set_fast false s) D eq_refl) as W. cbv zeta in W.
  destruct W as (q1 & q2 & q3 & q4 & _ & _ & _ & _ & _ & _ & _ & _ & (_ & _ & _ & Dn & Fn)).
  split; [|exact (conj If (conj In_ (conj (conj Df Ff) (conj Dn Fn))))].
  apply same_survivors_intro; try assumption.
  - split; [rewrite p1; cbn [length]; symmetry; apply Nat.sub_0_r|]. split; [|split].
    + rewrite p2, map_frenp_nil. reflexivity.
    + rewrite p3, map_fren2_nil. reflexivity.
    + rewrite p4, map_fren2_nil. reflexivity.
  - split; [rewrite q1; cbn [length]; symmetry; apply Nat.sub_0_r|]. split; [|split].
    + rewrite q2, map_shift1p_nil. symmetry. apply keep_slots_nil.
    + rewrite q3, map_shift_many_nil. symmetry. apply keep_slots_nil.
    + rewrite q4, map_shift_many_nil. symmetry. apply keep_slots_one. exact Hc.
Qed.
