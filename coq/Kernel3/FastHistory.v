(* Kernel3/FastHistory.v -- C02 / C01 over HISTORIES in the immediate modes: the invariant fast_inv = shift_inv2 + "no deletion pending"
   holds in every state reachable from the empty mesh by
     - additions: add_vertex(es), add_edge, add_face, add_face from vertices (simple halfedge loops, as in Kernel2/ExactHistory.v),
       topology-checked add_cell on free halffaces (with edge and face incidences on);
     - deletions of live entities with deferred deletion OFF, in EITHER immediate mode (fast: Kernel3/FastPhases.v; index shifting:
       Kernel/ShiftCompose.v), the mode being switched freely by enable_fast;
     - enable_deferred false (from the initial state or whenever nothing is pending), vertex-incidence toggles, switching the edge /
       face incidences off, the four index swaps, clear(), property creation / writes / drops.
   Method for the additions with ebu and fbu on: they do not read the mode flags (commutation with set_modes), so the history
   invariant bu_inv2 of the deferred mode (Kernel2/Exact*.v) transports; with one of them off the growth lemmas of Kernel/ExactInv.v,
   ExactRun.v apply directly. *)
From Coq Require Import ZArith Lia Bool Arith List ZifyNat ZifyBool.
From OVM Require Import Base.ListX Base.ListLemmas Base.ListLemmas2 Kernel.State Kernel.Ops Kernel.Mirror Kernel.Construct
                        Kernel.Recompute Kernel.Closure Kernel.ExactInv Kernel.ExactRun Kernel.SwapEffects Kernel.SwapInvol Kernel.Sizes Kernel.GcFacts
                        Kernel.DeleteEffects
                        Kernel2.LookupModel Kernel2.AdjacentProofs Kernel2.ReorderExact Kernel2.ExactBase Kernel2.ExactAddCell Kernel2.ExactHistory
                        Kernel.ShiftFace Kernel.ShiftEdge Kernel.ShiftVertex Kernel.ShiftCompose
                        Kernel3.FastDefs Kernel3.FastBase Kernel3.FastCell Kernel3.FastFace Kernel3.FastEdge Kernel3.FastVertex Kernel3.FastMany Kernel3.FastPhases
                        Kernel3.FastModes Kernel3.FastModes2 Kernel3.FastDeferred Kernel3.FastPublic.
Import ListNotations.
Ltac Zify.zify_post_hook ::= Z.div_mod_to_equations.
Local Open Scope nat_scope.

(* ================================================================== the additions do not read the mode flags *)

Lemma add_vertex_modes d f s : add_vertex (set_modes d f s) = (set_modes d f (fst (add_vertex s)), snd (add_vertex s)).
Proof. destruct s. unfold add_vertex, set_modes. cbn. destruct vbu; reflexivity. Qed.

Lemma append_edge_modes d f s a b : append_edge (set_modes d f s) a b = (set_modes d f (fst (append_edge s a b)), snd (append_edge s a b)).
Proof. destruct s. unfold append_edge, set_modes. cbn. destruct vbu; destruct ebu; reflexivity. Qed.

Lemma find_dup_modes d f s a b : find_dup_edge (set_modes d f s) a b = find_dup_edge s a b.
Proof. reflexivity. Qed.

Lemma add_edge_modes d f s a b dup : add_edge (set_modes d f s) a b dup = (set_modes d f (fst (add_edge s a b dup)), snd (add_edge s a b dup)).
Proof.
  unfold add_edge. destruct dup; [apply append_edge_modes|]. rewrite find_dup_modes. destruct (find_dup_edge s a b); [reflexivity|apply append_edge_modes].
Qed.

Lemma append_face_modes d f s hes : append_face (set_modes d f s) hes = (set_modes d f (fst (append_face s hes)), snd (append_face s hes)).
Proof. destruct s. unfold append_face, set_modes. cbn. destruct ebu; destruct fbu; reflexivity. Qed.

Lemma chain_ok_modes d f s first : forall hes, chain_ok (set_modes d f s) first hes = chain_ok s first hes.
Proof. induction hes as [|h t IH]; [reflexivity|]. cbn [chain_ok]. destruct t as [|h2 t']; [reflexivity|]. rewrite IH. reflexivity. Qed.
Lemma loop_ok_modes d f s hes : loop_ok (set_modes d f s) hes = loop_ok s hes.
Proof. unfold loop_ok. destruct hes; [reflexivity|]. apply chain_ok_modes. Qed.

Lemma add_face_modes d f s hes chk : add_face (set_modes d f s) hes chk = (set_modes d f (fst (add_face s hes chk)), snd (add_face s hes chk)).
Proof.
  unfold add_face. rewrite loop_ok_modes. destruct (chk && negb (loop_ok s hes)); [reflexivity|].
  rewrite append_face_modes. destruct (append_face s hes). reflexivity.
Qed.

Lemma add_face_v_step_modes d f v w s hes : add_face_v_step v w (set_modes d f s, hes) =
  (set_modes d f (fst (add_face_v_step v w (s, hes))), snd (add_face_v_step v w (s, hes))).
Proof.
  unfold add_face_v_step. rewrite add_edge_modes. destruct (add_edge s v w false) as [s' e]. reflexivity.
Qed.

Lemma add_face_v_edges_modes d f first : forall vs s hes, add_face_v_edges first vs (set_modes d f s, hes) =
  (set_modes d f (fst (add_face_v_edges first vs (s, hes))), snd (add_face_v_edges first vs (s, hes))).
Proof.
  induction vs as [|v t IH]; intros s hes; [reflexivity|]. cbn [add_face_v_edges]. destruct t as [|w t'].
  - apply add_face_v_step_modes.
  - rewrite add_face_v_step_modes. destruct (add_face_v_step v w (s, hes)) as [s1 h1]. cbn [fst snd]. apply IH.
Qed.

Lemma add_face_v_modes d f s vs : add_face_v (set_modes d f s) vs = (set_modes d f (fst (add_face_v s vs)), snd (add_face_v s vs)).
Proof.
  unfold add_face_v. destruct vs as [|first t]; [reflexivity|]. rewrite add_face_v_edges_modes.
  destruct (add_face_v_edges first (first :: t) (s, [])) as [s1 hes]. cbn [fst snd]. apply add_face_modes.
Qed.

Lemma reorder_edges_modes d f es s : reorder_edges es (set_modes d f s) = set_modes d f (reorder_edges es s).
Proof.
  destruct (reorder_edges_frame2 es (set_modes d f s)) as [x1 [E1 _]]. destruct (reorder_edges_frame2 es s) as [x2 [E2 _]].
  assert (X : x1 = x2).
  { pose proof (reorder_edges_reads es (set_modes d f s) s ltac:(repeat split)) as (_ & _ & _ & _ & Ei & _). rewrite E1, E2 in Ei. exact Ei. }
  rewrite E1, E2, X. reflexivity.
Qed.

Lemma append_cell_modes d f s hfs : append_cell (set_modes d f s) hfs = (set_modes d f (fst (append_cell s hfs)), snd (append_cell s hfs)).
Proof.
  unfold append_cell.
  set (s2 := resize_cprops (S (nc s)) (set_cdel (cdel s ++ [false]) (set_cells (cells s ++ [hfs]) s))).
  change (resize_cprops (S (nc (set_modes d f s))) (set_cdel (cdel (set_modes d f s) ++ [false]) (set_cells (cells (set_modes d f s) ++ [hfs]) (set_modes d f s)))) with (set_modes d f s2).
  change (fbu (set_modes d f s2)) with (fbu s2). change (nc (set_modes d f s)) with (nc s). destruct (fbu s2); [|reflexivity].
  set (s3 := set_inc_cell (fold_left (fun l hf => upd hf (Some (nc s)) l) hfs (inc_cell s2)) s2).
  change (set_inc_cell (fold_left (fun l hf => upd hf (Some (nc s)) l) hfs (inc_cell (set_modes d f s2))) (set_modes d f s2)) with (set_modes d f s3).
  change (ebu (set_modes d f s3)) with (ebu s3). destruct (ebu s3); [|reflexivity]. cbn [fst snd].
  change (fun hf => face_edge_handles (set_modes d f s3) (hf / 2)) with (fun hf => face_edge_handles s3 (hf / 2)).
  rewrite reorder_edges_modes. reflexivity.
Qed.

Lemma add_cell_modes d f s hfs chk : add_cell (set_modes d f s) hfs chk = (set_modes d f (fst (add_cell s hfs chk)), snd (add_cell s hfs chk)).
Proof.
  unfold add_cell. change (cell_check (set_modes d f s) hfs) with (cell_check s hfs). destruct (chk && negb (cell_check s hfs)); [reflexivity|].
  rewrite append_cell_modes. destruct (append_cell s hfs). reflexivity.
Qed.

Lemma add_n_vertices_modes d f n : forall s, add_n_vertices n (set_modes d f s) = set_modes d f (add_n_vertices n s).
Proof. induction n as [|n IH]; intros s; [reflexivity|]. cbn [add_n_vertices]. rewrite add_vertex_modes. cbn [fst]. apply IH. Qed.

(* ================================================================== flags and counters through the additions *)

(* s' has the flag arrays of s extended by false entries, and the same counters and modes *)
Definition grows (s s' : mesh) : Prop := exists k1 k2 k3 k4,
  vdel s' = vdel s ++ repeat false k1 /\ edel s' = edel s ++ repeat false k2 /\ fdel s' = fdel s ++ repeat false k3 /\
  cdel s' = cdel s ++ repeat false k4 /\ cv s' = cv s /\ (vbu s' = vbu s /\ ebu s' = ebu s /\ fbu s' = fbu s).

Lemma grows_refl s : grows s s.
Proof. exists 0, 0, 0, 0. cbn [repeat]. rewrite !app_nil_r. repeat split. Qed.

Lemma grows_trans s t u : grows s t -> grows t u -> grows s u.
Proof.
  intros (a1 & a2 & a3 & a4 & A1 & A2 & A3 & A4 & A5 & (A6 & A7 & A8)) (b1 & b2 & b3 & b4 & B1 & B2 & B3 & B4 & B5 & (B6 & B7 & B8)).
  exists (a1 + b1), (a2 + b2), (a3 + b3), (a4 + b4). rewrite B1, B2, B3, B4, B5, B6, B7, B8, A1, A2, A3, A4, A5, A6, A7, A8, !repeat_app, !app_assoc. repeat split.
Qed.

Lemma all_false_app_repeat (l : list bool) k : (forall i, nth i l false = false) -> forall i, nth i (l ++ repeat false k) false = false.
Proof.
  intros H i. destruct (Nat.lt_ge_cases i (length l)) as [Hi|Hi]; [rewrite app_nth1 by exact Hi; apply H|].
  rewrite app_nth2 by exact Hi. destruct (Nat.lt_ge_cases (i - length l) k) as [Hk|Hk].
  - apply (repeat_spec k false). apply nth_In. rewrite repeat_length. exact Hk.
  - apply nth_overflow. rewrite repeat_length. exact Hk.
Qed.

Definition quiet (s : mesh) : Prop := no_flags s /\ no_pending s.

Lemma quiet_grows s s' : quiet s -> grows s s' -> quiet s'.
Proof.
  intros ((NFv & NFe & NFf & NFc) & (z1 & z2 & z3 & z4)) (k1 & k2 & k3 & k4 & A1 & A2 & A3 & A4 & A5 & _).
  unfold cv in A5. injection A5 as c1 c2 c3 c4 _ _. split.
  - unfold no_flags, v_deleted, e_deleted, f_deleted, c_deleted. rewrite A1, A2, A3, A4. repeat split; apply all_false_app_repeat; assumption.
  - unfold no_pending. rewrite c1, c2, c3, c4. repeat split; assumption.
Qed.

Lemma grows_add_vertex s : grows s (fst (add_vertex s)).
Proof. destruct s. unfold add_vertex. cbn. destruct vbu; exists 1, 0, 0, 0; cbn; rewrite ?app_nil_r; repeat split. Qed.

Lemma grows_add_n_vertices n : forall s, grows s (add_n_vertices n s).
Proof. induction n as [|n IH]; intros s; [apply grows_refl|]. cbn [add_n_vertices]. exact (grows_trans _ _ _ (grows_add_vertex s) (IH _)). Qed.

Lemma grows_append_edge s a b : grows s (fst (append_edge s a b)).
Proof. destruct s. unfold append_edge. cbn. destruct vbu; destruct ebu; exists 0, 1, 0, 0; cbn; rewrite ?app_nil_r; repeat split. Qed.

Lemma grows_add_edge s a b d : grows s (fst (add_edge s a b d)).
Proof.
  unfold add_edge. destruct d; [apply grows_append_edge|]. destruct (find_dup_edge s a b); [apply grows_refl|apply grows_append_edge].
Qed.

Lemma grows_append_face s hes : grows s (fst (append_face s hes)).
Proof. destruct s. unfold append_face. cbn. destruct ebu; destruct fbu; exists 0, 0, 1, 0; cbn; rewrite ?app_nil_r; repeat split. Qed.

Lemma grows_add_face s hes c : grows s (fst (add_face s hes c)).
Proof.
  unfold add_face. destruct (c && negb (loop_ok s hes)); [apply grows_refl|].
  pose proof (grows_append_face s hes) as G. destruct (append_face s hes). exact G.
Qed.

Lemma grows_add_face_v_step v w acc : grows (fst acc) (fst (add_face_v_step v w acc)).
Proof.
  destruct acc as [s hes]. unfold add_face_v_step. pose proof (grows_add_edge s v w false) as G. destruct (add_edge s v w false). exact G.
Qed.

Lemma grows_add_face_v_edges first : forall vs acc, grows (fst acc) (fst (add_face_v_edges first vs acc)).
Proof.
  induction vs as [|v t IH]; intros acc; [apply grows_refl|]. cbn [add_face_v_edges]. destruct t as [|w t'].
  - apply grows_add_face_v_step.
  - exact (grows_trans _ _ _ (grows_add_face_v_step v w acc) (IH _)).
Qed.

Lemma grows_add_face_v s vs : grows s (fst (add_face_v s vs)).
Proof.
  unfold add_face_v. destruct vs as [|first t]; [apply grows_refl|].
  pose proof (grows_add_face_v_edges first (first :: t) (s, [])) as G. destruct (add_face_v_edges first (first :: t) (s, [])) as [s1 hes].
  exact (grows_trans _ _ _ G (grows_add_face s1 hes false)).
Qed.

Lemma grows_reorder_edges es s : grows s (reorder_edges es s).
Proof.
  pose proof (pview_reorder_edges es s) as P. unfold pview in P. injection P as p1 p2 p3 p4 _ _ _ _ _ _ _ _.
  exists 0, 0, 0, 0. cbn [repeat]. rewrite !app_nil_r, p1, p2, p3, p4, cv_reorder_edges.
  destruct (reorder_edges_frame2 es s) as [x [-> _]]. repeat split.
Qed.

Lemma grows_append_cell s hfs : grows s (fst (append_cell s hfs)).
Proof.
  unfold append_cell.
  set (s2 := resize_cprops (S (nc s)) (set_cdel (cdel s ++ [false]) (set_cells (cells s ++ [hfs]) s))).
  assert (G2 : grows s s2) by (exists 0, 0, 0, 1; destruct s; cbn; rewrite ?app_nil_r; repeat split).
  destruct (fbu s2); [|exact G2].
  set (s3 := set_inc_cell _ s2). assert (G3 : grows s s3) by (destruct G2 as (k1 & k2 & k3 & k4 & G); exists k1, k2, k3, k4; exact G).
  destruct (ebu s3); [|exact G3]. cbn [fst]. exact (grows_trans _ _ _ G3 (grows_reorder_edges _ s3)).
Qed.

Lemma grows_add_cell s hfs c : grows s (fst (add_cell s hfs c)).
Proof.
  unfold add_cell. destruct (c && negb (cell_check s hfs)); [apply grows_refl|].
  pose proof (grows_append_cell s hfs) as G. destruct (append_cell s hfs). exact G.
Qed.

(* ================================================================== transport between the two bundles *)

Lemma to_bu_inv2 s f : shift_inv2 s -> ebu s = true -> fbu s = true -> bu_inv2 (set_modes true f s).
Proof.
  intros [((NFv & NFe & NFf & NFc) & VO & EO & FO & R & L) X] E Fb. destruct (X E Fb) as (SN & LC & FS). pose proof R as (_ & _ & R3).
  assert (CL : cells_ref_live s) by (intros c hf Hc _ Hhf; split; [pose proof (R3 c Hc (NFc c) hf Hhf); lia|apply NFf]).
  split; [exact (conj VO (conj EO (conj FO (conj R L))))|]. split; [exact E|]. split; [exact Fb|]. split; [reflexivity|].
  split; [exact SN|]. split; [exact CL|]. split; [exact LC|exact FS].
Qed.

Lemma of_bu_inv2 s f : bu_inv2 (set_modes true f s) -> no_flags s -> shift_inv2 s.
Proof.
  intros ((VO & EO & FO & R & L) & E & Fb & _ & SN & CL & LC & FS) NF.
  split; [exact (conj NF (conj VO (conj EO (conj FO (conj R L)))))|]. intros _ _. exact (conj SN (conj LC FS)).
Qed.

Lemma shift_inv2_of_bu_inv s : no_flags s -> bu_inv s -> ebu s && fbu s = false -> shift_inv2 s.
Proof.
  intros NF (VO & EO & FO & R & L) Off. split; [exact (conj NF (conj VO (conj EO (conj FO (conj R L)))))|].
  intros E Fb. rewrite E, Fb in Off. discriminate.
Qed.

Definition fast_inv (s : mesh) : Prop := shift_inv2 s /\ no_pending s.

Lemma fast_inv_quiet s : fast_inv s -> quiet s.
Proof. intros [[[NF _] _] NP]. exact (conj NF NP). Qed.

(* an addition given in both forms: the deferred-history lemma (bu_inv2) and the growth lemma (bu_inv) *)
Lemma fast_inv_addition s s' f : fast_inv s -> grows s s' ->
  (ebu s = true -> fbu s = true -> bu_inv2 (set_modes true f s) -> bu_inv2 (set_modes true f s')) ->
  (ebu s && fbu s = false -> bu_inv s -> bu_inv s') -> fast_inv s'.
Proof.
  intros J G H2 H1. destruct (quiet_grows s s' (fast_inv_quiet s J) G) as [NF' NP']. destruct J as [I _].
  pose proof G as (_ & _ & _ & _ & _ & _ & _ & _ & _ & (_ & Eb & Fb)).
  split; [|exact NP']. destruct (ebu s && fbu s) eqn:B.
  - apply andb_true_iff in B. destruct B as [E F_]. apply (of_bu_inv2 s' f); [|exact NF']. apply H2; try assumption. apply to_bu_inv2; assumption.
  - apply shift_inv2_of_bu_inv; [exact NF'| |rewrite Eb, Fb; exact B]. apply H1; [reflexivity|]. destruct I as ((_ & VO & EO & FO & R & L) & _).
    exact (conj VO (conj EO (conj FO (conj R L)))).
Qed.

(* ================================================================== deletions, both immediate modes *)

Lemma cv_delete_cell_immediate c s : deferred s = false -> cv (delete_cell c s) = cv s.
Proof. intros D. exact (cv_delete_cell_core c s D). Qed.

Lemma cv_delete_face_immediate f s : deferred s = false -> cv (delete_face f s) = cv s.
Proof.
  intros D. unfold delete_face.
  set (t := del_desc delete_cell_core _ s). assert (Ct : cv t = cv s) by (apply (cv_del_desc _ cv_delete_cell_core); exact D).
  assert (Dt : deferred t = false) by (rewrite (cv_deferred _ _ Ct); exact D).
  rewrite (cv_delete_face_core f t Dt). exact Ct.
Qed.

Lemma cv_delete_edge_immediate e s : deferred s = false -> cv (delete_edge e s) = cv s.
Proof.
  intros D. unfold delete_edge.
  set (t := del_desc delete_cell_core _ s). assert (Ct : cv t = cv s) by (apply (cv_del_desc _ cv_delete_cell_core); exact D).
  assert (Dt : deferred t = false) by (rewrite (cv_deferred _ _ Ct); exact D).
  set (u := del_desc delete_face_core _ t). assert (Cu : cv u = cv t) by (apply (cv_del_desc _ cv_delete_face_core); exact Dt).
  assert (Du : deferred u = false) by (rewrite (cv_deferred _ _ Cu); exact Dt).
  rewrite (cv_delete_edge_core e u Du). congruence.
Qed.

Lemma no_pending_cv s s' : cv s' = cv s -> no_pending s -> no_pending s'.
Proof. unfold cv. intros C (z1 & z2 & z3 & z4). injection C as c1 c2 c3 c4 _ _. unfold no_pending. rewrite c1, c2, c3, c4. repeat split; assumption. Qed.

Theorem fast_inv_delete_vertex v s : fast_inv s -> deferred s = false -> v < nv s -> fast_inv (delete_vertex v s).
Proof.
  intros [I NP] D Hv. split; [|exact (no_pending_cv _ _ (cv_delete_vertex_immediate v s D) NP)].
  destruct (fast s) eqn:F; [exact (proj1 (fast_delete_vertex v s D F I Hv))|exact (proj1 (delete_vertex_immediate v s D F I Hv))].
Qed.
Theorem fast_inv_delete_edge e s : fast_inv s -> deferred s = false -> e < ne s -> fast_inv (delete_edge e s).
Proof.
  intros [I NP] D He. split; [|exact (no_pending_cv _ _ (cv_delete_edge_immediate e s D) NP)].
  destruct (fast s) eqn:F; [exact (proj1 (fast_delete_edge e s D F I He))|exact (proj1 (delete_edge_immediate e s D F I He))].
Qed.
Theorem fast_inv_delete_face f s : fast_inv s -> deferred s = false -> f < nf s -> fast_inv (delete_face f s).
Proof.
  intros [I NP] D Hf. split; [|exact (no_pending_cv _ _ (cv_delete_face_immediate f s D) NP)].
  destruct (fast s) eqn:F; [exact (proj1 (fast_delete_face f s D F I Hf))|exact (proj1 (delete_face_immediate_full f s D F I Hf))].
Qed.
Theorem fast_inv_delete_cell c s : fast_inv s -> deferred s = false -> c < nc s -> fast_inv (delete_cell c s).
Proof.
  intros [I NP] D Hc. split; [|exact (no_pending_cv _ _ (cv_delete_cell_immediate c s D) NP)].
  destruct (fast s) eqn:F; [exact (proj1 (fast_delete_cell c s D F I Hc))|exact (shift_inv2_delete_cell_core c s D F I Hc)].
Qed.

(* ================================================================== toggles and property operations *)

Lemma fast_inv_set_flags_modes d f s : fast_inv s -> fast_inv (set_modes d f s).
Proof. intros H. exact H. Qed.

Theorem fast_inv_enable_fast b s : fast_inv s -> fast_inv (enable_fast b s).
Proof. intros H. exact H. Qed.

Theorem fast_inv_enable_deferred_off s : fast_inv s -> fast_inv (enable_deferred false s).
Proof.
  intros [I (z1 & z2 & z3 & z4)]. unfold enable_deferred.
  assert (G : needs_gc s = false) by (unfold needs_gc; rewrite z1, z2, z3, z4; reflexivity).
  assert (E : (if deferred s && negb false then collect_garbage s else s) = s).
  { destruct (deferred s && negb false); [apply collect_garbage_noop_when_nothing_pending; exact G|reflexivity]. }
  rewrite E. exact (conj I (conj z1 (conj z2 (conj z3 z4)))).
Qed.

Theorem fast_inv_enable_vbu b s : fast_inv s -> fast_inv (enable_vbu b s).
Proof.
  intros [[(NF & VO & EO & FO & R & L) X] NP].
  pose proof (bu_inv_enable_vbu b s (conj VO (conj EO (conj FO (conj R L))))) as (VO' & EO' & FO' & R' & L').
  unfold enable_vbu in *. destruct b; destruct (vbu s); cbn [andb negb] in *;
    (split; [split; [exact (conj NF (conj VO' (conj EO' (conj FO' (conj R' L')))))|exact X]|exact NP]).
Qed.

Theorem fast_inv_enable_ebu_off s : fast_inv s -> fast_inv (enable_ebu false s).
Proof.
  intros [[(NF & VO & EO & FO & R & (L1 & L2 & L3 & L4 & L5 & L6)) X] NP]. unfold enable_ebu. cbn [andb negb].
  split; [|exact NP]. split.
  - split; [exact NF|]. split; [exact VO|]. split; [intros E; discriminate E|]. split; [exact FO|]. split; [exact R|].
    split; [exact L1|]. split; [intros E; discriminate E|]. split; [exact L3|]. exact (conj L4 (conj L5 L6)).
  - intros E. discriminate E.
Qed.

Theorem fast_inv_enable_fbu_off s : fast_inv s -> fast_inv (enable_fbu false s).
Proof.
  intros [[(NF & VO & EO & FO & R & (L1 & L2 & L3 & L4 & L5 & L6)) X] NP]. unfold enable_fbu. cbn [andb negb].
  split; [|exact NP]. split.
  - split; [exact NF|]. split; [exact VO|]. split; [exact EO|]. split; [intros E; discriminate E|]. split; [exact R|].
    split; [exact L1|]. split; [exact L2|]. split; [intros E; discriminate E|]. exact (conj L4 (conj L5 L6)).
  - intros _ E. discriminate E.
Qed.

Theorem fast_inv_set_props k x s : fast_inv s -> fast_inv (set_props k x s).
Proof. intros H. exact H. Qed.

Theorem fast_inv_clear cp s : fast_inv (clear_mesh cp s).
Proof.
  unfold fast_inv, shift_inv2, shift_inv, no_flags, vbu_ok, ebu_ok, fbu_ok, refs_ok, lens_ok, ext_inv, slots_nodup, live_cells_closed, faces_simple, no_pending,
    v_deleted, e_deleted, f_deleted, c_deleted, clear_mesh, ne, nf, nc.
  cbn. repeat split; intros; try lia; try (destruct i; reflexivity).
Qed.

Theorem fast_inv_swaps a b s : fast_inv s ->
  (a < nv s -> b < nv s -> fast_inv (swap_vertex_indices a b s)) /\ (a < ne s -> b < ne s -> fast_inv (swap_edge_indices a b s)) /\
  (a < nf s -> b < nf s -> fast_inv (swap_face_indices a b s)) /\ (a < nc s -> b < nc s -> fast_inv (swap_cell_indices a b s)).
Proof.
  intros [I NP]. split; [|split; [|split]]; intros Ha Hb.
  - split; [apply FastVertex.shift_inv2_swap_vertex; assumption|exact (no_pending_cv _ _ (cv_swap_vertex a b s) NP)].
  - split; [apply FastEdge.shift_inv2_swap_edge; assumption|exact (no_pending_cv _ _ (cv_swap_edge a b s) NP)].
  - split; [apply FastFace.shift_inv2_swap_face; assumption|exact (no_pending_cv _ _ (cv_swap_face a b s) NP)].
  - split; [apply FastCell.shift_inv2_swap_cell; assumption|exact (no_pending_cv _ _ (cv_swap_cell a b s) NP)].
Qed.

(* ================================================================== histories *)

Definition fhist_op (s : mesh) (o : op) : bool :=
  match o with
  | AddVertex | AddVertices _ | AddEdge _ _ _ | AddFace _ _ | AddFaceV _ => true
  | AddCell _ _ => ebu s && fbu s
  | DelVertex _ | DelEdge _ | DelFace _ | DelCell _ => negb (deferred s)
  | SwapV _ _ | SwapE _ _ | SwapF _ _ | SwapC _ _ | Clear _ => true
  | EnableVBU _ | EnableFast _ => true
  | EnableDeferred b | EnableEBU b | EnableFBU b => negb b
  | PropCreate _ _ | PropSet _ _ _ _ | PropDrop _ _ => true
  | _ => false
  end.

Fixpoint fhist_ok_from (s : mesh) (ops : list op) : bool :=
  match ops with
  | [] => true
  | o :: r => fhist_op s o && (negb (valid_op s o) || valid_op2 s o) && fhist_ok_from (next s o) r
  end.
Definition fhist_ok (ops : list op) : bool := fhist_ok_from empty_mesh ops.

Theorem fast_inv_step s o : fast_inv s -> fhist_op s o = true -> (valid_op s o = true -> valid_op2 s o = true) -> fast_inv (next s o).
Proof.
  intros J G V2. unfold next, step. destruct (valid_op s o) eqn:V; [|exact J]. specialize (V2 eq_refl).
  pose proof J as [[(_ & VO & EO & FO & R & L) _] _].
  destruct o; try discriminate; cbn [exec valid_op valid_op2 fhist_op] in *.
  - (* add_vertex *)
    assert (T : fast_inv (fst (add_vertex s))).
    { apply (fast_inv_addition s _ (fast s) J (grows_add_vertex s)).
      - intros _ _ B. pose proof (bu_inv2_add_vertex _ B) as B'. rewrite add_vertex_modes in B'. exact B'.
      - intros _ B. apply bu_inv_add_vertex. exact B. }
    destruct (add_vertex s). exact T.
  - (* add_n_vertices *)
    apply (fast_inv_addition s _ (fast s) J (grows_add_n_vertices n s)).
    + intros _ _ B. pose proof (bu_inv2_add_n_vertices n _ B) as B'. rewrite add_n_vertices_modes in B'. exact B'.
    + intros _ B. apply bu_inv_add_n_vertices. exact B.
  - (* add_edge *)
    apply andb_true_iff in V. destruct V as [V1 V3].
    assert (T : fast_inv (fst (add_edge s a b dup))).
    { apply (fast_inv_addition s _ (fast s) J (grows_add_edge s a b dup)).
      - intros _ _ B. pose proof (bu_inv2_add_edge _ a b dup B (live_v_lt _ _ V1) (live_v_lt _ _ V3)) as B'. rewrite add_edge_modes in B'. exact B'.
      - intros _ B. apply bu_inv_add_edge; [exact B|exact (live_v_lt _ _ V1)|exact (live_v_lt _ _ V3)]. }
    destruct (add_edge s a b dup). exact T.
  - (* add_face *)
    apply andb_true_iff in V. destruct V as [_ V3].
    assert (Rg : forall h, In h hes -> h < 2 * ne s) by (intros h Hh; exact (live_he_lt s h (forallb_lt _ _ V3 h Hh))).
    assert (T : fast_inv (fst (add_face s hes check))).
    { apply (fast_inv_addition s _ (fast s) J (grows_add_face s hes check)).
      - intros _ _ B. pose proof (bu_inv2_add_face _ hes check B Rg (simple_b_sound _ V2)) as B'. rewrite add_face_modes in B'. exact B'.
      - intros _ B. apply bu_inv_add_face; assumption. }
    destruct (add_face s hes check). exact T.
  - (* add_face_v *)
    apply andb_true_iff in V. destruct V as [_ V3].
    assert (Rg : forall v, In v vs -> v < nv s) by (intros v Hv; exact (live_v_lt s v (forallb_lt _ _ V3 v Hv))).
    assert (T : fast_inv (fst (add_face_v s vs))).
    { apply (fast_inv_addition s _ (fast s) J (grows_add_face_v s vs)).
      - intros _ _ B.
        assert (Hs : forall f t, vs = f :: t -> simple_hes (snd (add_face_v_edges f vs (set_modes true (fast s) s, [])))).
        { intros f t ->. rewrite add_face_v_edges_modes. cbn [snd]. apply simple_b_sound. exact V2. }
        pose proof (bu_inv2_add_face_v _ vs B Rg Hs) as B'. rewrite add_face_v_modes in B'. exact B'.
      - intros _ B. apply bu_inv_add_face_v; assumption. }
    destruct (add_face_v s vs). exact T.
  - (* add_cell: edge and face incidences on *)
    apply andb_true_iff in G. destruct G as [E Fb].
    apply andb_true_iff in V2. destruct V2 as [V2 Vopp]. apply andb_true_iff in V2. destruct V2 as [Vchk Vfree]. subst check.
    destruct (cell_check s hfs) eqn:CK.
    + assert (NC : new_cell_ok (set_modes true (fast s) s) hfs).
      { split; [exact CK|]. intros hf Hhf. pose proof (forallb_lt _ _ V hf Hhf) as Lf. apply live_f_lt in Lf.
        pose proof (forallb_lt _ _ Vfree hf Hhf) as Fr. pose proof (forallb_lt _ _ Vopp hf Hhf) as Op. cbn beta in Fr, Op.
        destruct Lf as [A B]. split; [exact A|]. split; [exact B|]. split.
        - change (cell_of (set_modes true (fast s) s) hf) with (cell_of s hf). revert Fr. destruct (cell_of s hf); intros Fr; [discriminate Fr|reflexivity].
        - intros Hin. apply Base.ListLemmas.memb_In in Hin. rewrite Hin in Op. discriminate. }
      assert (T : fast_inv (fst (add_cell s hfs true))).
      { apply (fast_inv_addition s _ (fast s) J (grows_add_cell s hfs true)).
        - intros _ _ B. pose proof (bu_inv2_add_cell _ hfs B NC) as B'. rewrite add_cell_modes in B'. exact B'.
        - intros Off. rewrite E, Fb in Off. discriminate Off. }
      destruct (add_cell s hfs true). exact T.
    + pose proof (add_cell_rejected_state s hfs CK) as Q. destruct (add_cell s hfs true). cbn [fst] in Q. subst. exact J.
  - apply negb_true_iff in G. apply fast_inv_delete_vertex; [exact J|exact G|apply live_v_lt; exact V].
  - apply negb_true_iff in G. apply live_e_lt in V. apply fast_inv_delete_edge; tauto.
  - apply negb_true_iff in G. apply live_f_lt in V. apply fast_inv_delete_face; tauto.
  - apply negb_true_iff in G. apply live_c_lt in V. apply fast_inv_delete_cell; tauto.
  - apply andb_true_iff in V. destruct V as [Va Vb]. apply Nat.ltb_lt in Va, Vb. apply (fast_inv_swaps a b s J); assumption.
  - apply andb_true_iff in V. destruct V as [Va Vb]. apply Nat.ltb_lt in Va, Vb. apply (fast_inv_swaps a b s J); assumption.
  - apply andb_true_iff in V. destruct V as [Va Vb]. apply Nat.ltb_lt in Va, Vb. apply (fast_inv_swaps a b s J); assumption.
  - apply andb_true_iff in V. destruct V as [Va Vb]. apply Nat.ltb_lt in Va, Vb. apply (fast_inv_swaps a b s J); assumption.
  - apply fast_inv_clear.
  - apply fast_inv_enable_vbu. exact J.
  - apply negb_true_iff in G. subst b. apply fast_inv_enable_ebu_off. exact J.
  - apply negb_true_iff in G. subst b. apply fast_inv_enable_fbu_off. exact J.
  - apply negb_true_iff in G. subst b. apply fast_inv_enable_deferred_off. exact J.
  - apply fast_inv_enable_fast. exact J.
  - exact J.
  - exact J.
  - exact J.
Qed.

Lemma fast_inv_empty : fast_inv empty_mesh.
Proof.
  split; [|repeat split]. split; [exact shift_inv_empty|]. intros _ _. split; [|split].
  - intros h Hh. unfold ne in Hh. simpl in Hh. lia.
  - intros c Hc. unfold nc in Hc. simpl in Hc. lia.
  - intros f Hf. unfold nf in Hf. simpl in Hf. lia.
Qed.

Lemma fast_inv_run_from ops : forall s, fast_inv s -> fhist_ok_from s ops = true -> fast_inv (run_from s ops).
Proof.
  induction ops as [|o r IH]; intros s H F; [exact H|]. cbn [fhist_ok_from] in F.
  apply andb_true_iff in F. destruct F as [F F3]. apply andb_true_iff in F. destruct F as [F1 F2].
  unfold run_from. cbn [fold_left]. apply IH; [|exact F3]. apply fast_inv_step; [exact H|exact F1|].
  intros V. rewrite V in F2. exact F2.
Qed.

Theorem fast_inv_along_histories ops : fhist_ok ops = true -> fast_inv (run ops).
Proof. intros F. apply fast_inv_run_from; [apply fast_inv_empty|exact F]. Qed.

(* ---- appending one more operation *)
Lemma fhist_ok_from_app ops o : forall s, fhist_ok_from s (ops ++ [o]) =
  fhist_ok_from s ops && (fhist_op (run_from s ops) o && (negb (valid_op (run_from s ops) o) || valid_op2 (run_from s ops) o)).
Proof.
  induction ops as [|a r IH]; intros s.
  - cbn [app fhist_ok_from run_from fold_left]. rewrite andb_true_r. reflexivity.
  - cbn [app fhist_ok_from]. rewrite IH. unfold run_from. cbn [fold_left]. fold (next s a). rewrite !andb_assoc. reflexivity.
Qed.

Lemma run_app ops o : run (ops ++ [o]) = next (run ops) o.
Proof. unfold run, run_from. rewrite fold_left_app. reflexivity. Qed.

Theorem fast_deletion_after_any_history ops v : fhist_ok ops = true -> let s := run ops in
  deferred s = false -> fast s = true -> live_v s v = true ->
  let es := edges_at_vertex s v in let fs := faces_at_edges s es in let cs := cells_at_faces s fs in
  let s' := run (ops ++ [DelVertex v]) in
  fhist_ok (ops ++ [DelVertex v]) = true /\
  exists sv se sf sc, renumbered s s' [v] es fs cs sv se sf sc /\ values_follow s s' [v] es fs cs sv se sf sc /\ shift_inv2 s'.
Proof.
  intros H. cbv zeta. intros D F Lv. pose proof (fast_inv_along_histories ops H) as [I NP].
  assert (Hv : v < nv (run ops)) by (apply live_v_lt; exact Lv).
  rewrite run_app. unfold next, step. cbn [valid_op exec]. rewrite Lv. split.
  - unfold fhist_ok in *. rewrite fhist_ok_from_app, H. fold (run ops). cbn [fhist_op valid_op2]. rewrite D, orb_true_r. reflexivity.
  - destruct (fast_delete_vertex_survivors v (run ops) D F I Hv) as (R & I' & _).
    destruct (fast_delete_vertex_values v (run ops) D F I (sized_reachable ops) Hv) as (Vf & _).
    eexists _, _, _, _. exact (conj R (conj Vf I')).
Qed.
