(* Kernel3/GcFastVertex.v -- C04, FAST mode, the vertex pass of collect_garbage (only vertex flags pending):
     S1  ginv_swap_vertex    : swap_vertex_indices on a state with vertex flags is the relabeling vertex_relabeled and keeps ginv
     S3  (FastVertex.fast_vertex_last is unconditional)
     S4  gcfast_vertex_step  : one step delete_vertex_core h (clr_v h s) with v_deleted s h = true:
         ginv again, nv - 1, vertex flags = fast_remove false h, edges relabeled by trp h last, rest untouched,
         vertex properties pfast h. *)
From Coq Require Import ZArith Lia Bool Arith List ZifyNat ZifyBool.
From OVM Require Import Base.ListX Base.ListLemmas Base.ListLemmas2 Kernel.State Kernel.Ops Kernel.Mirror Kernel.Construct
                        Kernel.Recompute Kernel.Closure Kernel.ExactInv Kernel.ExactDelete Kernel.SwapEffects Kernel.SwapInvol Kernel.PropLaws
                        Kernel.DeleteEffects Kernel.DeleteDefs Kernel.GcFacts Kernel.SwapFaceCache Kernel.SwapVertexCache Kernel.Sizes
                        Kernel2.LookupModel Kernel2.AdjacentProofs Kernel2.ReorderExact Kernel2.ExactBase Kernel2.ExactHistory
                        Kernel.ShiftFace Kernel.ShiftEdge Kernel.ShiftVertex Kernel.ShiftCompose Kernel3.FastDefs Kernel3.FastBase
                        Kernel3.FastVertex Kernel3.GcDefs Kernel3.GcList Kernel3.GcInv Kernel3.GcCell Kernel3.GcFace Kernel3.GcVertex
                        Kernel3.GcFastBase.
Import ListNotations.
Ltac Zify.zify_post_hook ::= Z.div_mod_to_equations.
Local Open Scope nat_scope.

Ltac rsgv := cbn [set_fast set_nv set_edges set_faces set_cells set_vdel set_edel set_fdel set_cdel set_counts set_flags
                set_out_hes set_inc_hfs set_inc_cell set_props swap_prop_elems delete_prop_elem resize_props
                vertex_deleted edge_deleted face_deleted cell_deleted
                nv edges faces cells vdel edel fdel cdel ndv nde ndf ndc vbu ebu fbu deferred fast
                out_hes inc_hfs inc_cell pv pe phe pf phf pc pm props fst snd].

(* ================================================================== S1 *)

Lemma no_deleted_edge_at_no_eflags s a b : no_eflags s -> no_deleted_edge_at s a b.
Proof. intros NE e He Hd. rewrite NE in Hd. discriminate. Qed.

Lemma swap_vertex_relabeled_g a b s : ginv s -> no_eflags s -> a <> b -> a < nv s -> b < nv s ->
  swap_vertex_indices a b s = vertex_relabeled a b s.
Proof.
  intros ((VO & _) & _) NE N Ha Hb. apply swap_vertex_exact_relabeling; try assumption.
  apply no_deleted_edge_at_no_eflags. exact NE.
Qed.

Theorem ginv_vertex_relabeled a b s : ginv s -> a <> b -> a < nv s -> b < nv s -> ginv (vertex_relabeled a b s).
Proof.
  intros I N Ha Hb. pose proof I as (B & LV & (U1 & U2 & U3) & X).
  pose proof (bu_inv_vertex_relabeled a b s N Ha Hb B) as B'.
  set (t := vertex_relabeled a b s) in *.
  assert (NE_ : ne t = ne s) by (unfold ne, t, vertex_relabeled; cbn [edges]; apply map_length).
  split; [exact B'|]. split; [unfold t, vertex_relabeled; cbn [vdel nv]; rewrite swap_nth_length; exact LV|].
  split; [split; [|split; [exact U2|exact U3]]|].
  - intros e He Hd. rewrite NE_ in He. change (e_deleted s e = false) in Hd. unfold t. rewrite edge_at_vertex_relabeled by exact He.
    unfold v_deleted, vertex_relabeled. cbn [vdel]. unfold swap_ends. cbn [fst snd].
    rewrite !nth_swap_tr by lia. change (swap_idx a b) with (tr a b). rewrite !tr_involutive. exact (U1 e He Hd).
  - intros E' Fb'. change (ebu s = true) in E'. change (fbu s = true) in Fb'. destruct (X E' Fb') as (SN & LC). split.
    + intros k Hk. rewrite NE_ in Hk. exact (SN k Hk).
    + intros c Hc Hd. change (c < nc s) in Hc. change (c_deleted s c = false) in Hd. pose proof (LC c Hc Hd) as Cl.
      apply (closed_cell_same s t c c); [reflexivity|reflexivity| |exact Cl].
      intros y Hy. exact (proj1 (Cl y Hy)).
Qed.

Theorem ginv_swap_vertex a b s : ginv s -> no_eflags s -> a < nv s -> b < nv s -> ginv (swap_vertex_indices a b s).
Proof.
  intros I NE Ha Hb. destruct (Nat.eq_dec a b) as [->|N]; [rewrite swap_vertex_self; exact I|].
  rewrite (swap_vertex_relabeled_g a b s I NE N Ha Hb). apply ginv_vertex_relabeled; assumption.
Qed.

Lemma swap_vertex_defs_g a b s : ginv s -> no_eflags s -> a < nv s -> b < nv s -> let t := swap_vertex_indices a b s in
  nv t = nv s /\ edges t = map (trp a b) (edges s) /\ faces t = faces s /\ cells t = cells s /\
  vdel t = swap_nth a b false (vdel s) /\ edel t = edel s /\ fdel t = fdel s /\ cdel t = cdel s.
Proof.
  intros I NE Ha Hb. cbv zeta. destruct (Nat.eq_dec a b) as [->|N]; [rewrite swap_vertex_self, !swap_nth_same, map_trp_same; repeat split|].
  rewrite (swap_vertex_relabeled_g a b s I NE N Ha Hb). repeat split.
Qed.

(* ================================================================== S3 + the non-fast step: removal of the flagged last vertex *)

Lemma gfv_edges_id t : ginv t -> no_eflags t -> 0 < nv t -> map (cor1p (nv t - 1)) (edges t) = edges t.
Proof.
  intros ((_ & _ & _ & (R1 & _) & _) & _) NE Hn. apply map_cor1p_last. intros p Hp.
  destruct (In_nth _ _ (0, 0) Hp) as [e [He Ee]]. destruct (R1 e He (NE e)) as [Q1 Q2]. unfold edge_at in Q1, Q2. rewrite Ee in Q1, Q2. lia.
Qed.

Lemma gcfast_vertex_last_step t : deferred t = false -> fast t = true -> ginv t -> no_eflags t -> no_fflags t -> no_cflags t ->
  0 < nv t -> v_deleted t (nv t - 1) = true ->
  let s' := delete_vertex_core (nv t - 1) (clr_v (nv t - 1) t) in
  ginv s' /\ deferred s' = false /\ fast s' = true /\ no_eflags s' /\ no_fflags s' /\ no_cflags s' /\
  nv s' = nv t - 1 /\ edges s' = edges t /\ faces s' = faces t /\ cells s' = cells t /\
  vdel s' = remove_nth (nv t - 1) (vdel t) /\ edel s' = edel t /\ fdel s' = fdel t /\ cdel s' = cdel t /\
  (vbu s' = vbu t /\ ebu s' = ebu t /\ fbu s' = fbu t).
Proof.
  intros Dt Ft It NEt NFt NCt Hnt Hdt. cbv zeta.
  pose proof (fast_vertex_last (clr_v (nv t - 1) t) Dt Ft) as Br. change (nv (clr_v (nv t - 1) t)) with (nv t) in Br.
  change (set_fast false (clr_v (nv t - 1) t)) with (clr_v (nv t - 1) (set_fast false t)) in Br. rewrite Br. clear Br.
  pose proof (gc_vertex_step (set_fast false t) (nv t - 1) Dt eq_refl (ginv_set_fast false t It) NEt NFt NCt
                ltac:(change (nv t - 1 < nv t); lia) Hdt) as St.
  pose proof (gfv_edges_id t It NEt Hnt) as Eid.
  generalize dependent (delete_vertex_core (nv t - 1) (clr_v (nv t - 1) (set_fast false t))). intros Y St.
  destruct St as (IY & DY & FY & NEY & NFY & NCY & a1 & a2 & a3 & a4 & a5 & a6 & a7 & a8 & (m1 & m2 & m3) & _).
  change (nv (set_fast false t)) with (nv t) in a1. change (edges (set_fast false t)) with (edges t) in a2.
  change (faces (set_fast false t)) with (faces t) in a3. change (cells (set_fast false t)) with (cells t) in a4.
  change (vdel (set_fast false t)) with (vdel t) in a5. change (edel (set_fast false t)) with (edel t) in a6.
  change (fdel (set_fast false t)) with (fdel t) in a7. change (cdel (set_fast false t)) with (cdel t) in a8.
  change (vbu (set_fast false t)) with (vbu t) in m1. change (ebu (set_fast false t)) with (ebu t) in m2.
  change (fbu (set_fast false t)) with (fbu t) in m3. rewrite Eid in a2.
  split; [apply ginv_set_fast; exact IY|]. rsgv.
  split; [exact DY|]. split; [reflexivity|]. split; [intros c; exact (NEY c)|]. split; [intros c; exact (NFY c)|]. split; [intros c; exact (NCY c)|].
  exact (conj a1 (conj a2 (conj a3 (conj a4 (conj a5 (conj a6 (conj a7 (conj a8 (conj m1 (conj m2 m3)))))))))).
Qed.

(* ================================================================== S4: the step *)

Section VertexStepFast.
Context (s : mesh) (h : nat).
Context (D : deferred s = false) (F : fast s = true) (I : ginv s).
Context (NE : no_eflags s) (NFf : no_fflags s) (NC : no_cflags s) (Hh : h < nv s) (Hd : v_deleted s h = true).

Local Notation l := (nv s - 1).
Local Notation s' := (delete_vertex_core h (clr_v h s)).

Lemma gvs_lens : length (vdel s) = nv s.
Proof. destruct I as (_ & LV & _). exact LV. Qed.

Lemma gvs_split : s' = delete_vertex_core l (clr_v l (swap_vertex_indices h l s)).
Proof.
  rewrite (fast_vertex_split h (clr_v h s) D F). change (nv (clr_v h s)) with (nv s).
  rewrite swap_vertex_clr by (rewrite gvs_lens; lia). reflexivity.
Qed.

Lemma gvs_swapped : let t := swap_vertex_indices h l s in
  ginv t /\ no_eflags t /\ no_fflags t /\ no_cflags t /\ deferred t = false /\ fast t = true /\ v_deleted t l = true /\
  nv t = nv s /\ edges t = map (trp h l) (edges s) /\ faces t = faces s /\ cells t = cells s /\
  vdel t = swap_nth h l false (vdel s) /\ edel t = edel s /\ fdel t = fdel s /\ cdel t = cdel s /\
  (vbu t = vbu s /\ ebu t = ebu s /\ fbu t = fbu s).
Proof.
  cbv zeta. assert (Hl : l < nv s) by lia.
  destruct (swap_vertex_modes h l s) as (Dt & Ft & Nt & Vt & Et & Bt).
  destruct (swap_vertex_defs_g h l s I NE Hh Hl) as (e1 & e2 & e3 & e4 & e5 & e6 & e7 & e8).
  split; [apply ginv_swap_vertex; assumption|]. split; [intros c; unfold e_deleted; rewrite e6; apply NE|].
  split; [intros c; unfold f_deleted; rewrite e7; apply NFf|]. split; [intros c; unfold c_deleted; rewrite e8; apply NC|].
  split; [congruence|]. split; [congruence|].
  split; [unfold v_deleted; rewrite e5, nth_swap_tr by (rewrite gvs_lens; lia); unfold tr; rewrite Nat.eqb_refl;
          destruct (Nat.eqb_spec l h) as [->|]; exact Hd|].
  repeat split; assumption.
Qed.

Theorem gcfast_vertex_step :
  ginv s' /\ deferred s' = false /\ fast s' = true /\ no_eflags s' /\ no_fflags s' /\ no_cflags s' /\
  nv s' = nv s - 1 /\ edges s' = map (trp h l) (edges s) /\ faces s' = faces s /\ cells s' = cells s /\
  vdel s' = fast_remove false h (vdel s) /\ edel s' = edel s /\ fdel s' = fdel s /\ cdel s' = cdel s /\
  (vbu s' = vbu s /\ ebu s' = ebu s /\ fbu s' = fbu s).
Proof.
  assert (Hl : l < nv s) by lia. pose proof gvs_lens as Lv.
  rewrite gvs_split. pose proof gvs_swapped as Sw. cbv zeta in Sw.
  generalize dependent (swap_vertex_indices h l s). intros t Sw.
  destruct Sw as (It & NEt & NFt & NCt & Dt & Ft & Hdt & e1 & e2 & e3 & e4 & e5 & e6 & e7 & e8 & (b1 & b2 & b3)).
  rewrite <- e1 in Hdt. assert (Hnt : 0 < nv t) by lia.
  pose proof (gcfast_vertex_last_step t Dt Ft It NEt NFt NCt Hnt Hdt) as St. cbv zeta in St. rewrite e1 in St.
  generalize dependent (delete_vertex_core l (clr_v l t)). intros Y St.
  destruct St as (IY & DY & FY & NEY & NFY & NCY & a1 & a2 & a3 & a4 & a5 & a6 & a7 & a8 & (m1 & m2 & m3)).
  refine (conj IY (conj DY (conj FY (conj NEY (conj NFY (conj NCY _)))))).
  rewrite a1, a2, a3, a4, a5, a6, a7, a8, m1, m2, m3, e2, e3, e4, e5, e6, e7, e8, b1, b2, b3.
  splits; try reflexivity.
  rewrite <- Lv. apply fast_remove_swap. rewrite Lv. exact Hh.
Qed.
End VertexStepFast.

(* ================================================================== properties, sizes: unconditional *)

Lemma gcfast_vertex_step_props s h : deferred s = false -> fast s = true -> sized s -> h < nv s ->
  let s' := delete_vertex_core h (clr_v h s) in
  sized s' /\ pv s' = map (pfast h) (pv s) /\
  pe s' = pe s /\ phe s' = phe s /\ pf s' = pf s /\ phf s' = phf s /\ pc s' = pc s /\ pm s' = pm s.
Proof.
  intros D F Z Hh. cbv zeta.
  assert (Zc : sized (clr_v h s)) by (apply szd_sized; apply szd_upd_flag_v; apply szd_sized; exact Z).
  pose proof (fast_vertex_arrays h (clr_v h s) D F Zc Hh) as A. unfold vertex_arrays_fast in A.
  destruct A as (_ & _ & _ & _ & a5 & a6 & a7 & a8 & a9 & a10 & a11 & _).
  split; [apply szd_sized, szd_delete_vertex_core; [apply szd_sized; exact Zc|exact Hh]|]. repeat split; assumption.
Qed.
