(* Kernel3/GcFastRen.v -- C04, FAST mode: the renumbering maps of the passes of collect_garbage, generically over a flag array.
     ren_ok del n r cnt     r maps the live indices below n injectively into [0, cnt), cnt = the number of live indices
     arr_ren d del n r old new        the entry of every live index i is found at r i in the new array
     props_ren / props_ren2           the same for every property array (values through pval), entity / half-entity
   Base case (no flag: r = identity) and the step (the flagged slot h is fast-removed: r = r1 o (h last)). *)
From Coq Require Import ZArith Lia Bool Arith List ZifyNat ZifyBool.
From OVM Require Import Base.ListX Base.ListLemmas Kernel.State Kernel.Ops Kernel.PropLaws Kernel.ShiftFace
                        Kernel3.FastDefs Kernel3.FastBase Kernel3.GcDefs Kernel3.GcList Kernel3.GcInv Kernel3.GcFastBase.
Import ListNotations.
Ltac Zify.zify_post_hook ::= Z.div_mod_to_equations.
Local Open Scope nat_scope.

Definition ren_ok (del : list bool) (n : nat) (r : nat -> nat) (cnt : nat) : Prop :=
  cnt = rank del n /\
  (forall i, i < n -> nth i del false = false -> r i < cnt) /\
  (forall i j, i < n -> j < n -> nth i del false = false -> nth j del false = false -> r i = r j -> i = j).

Definition arr_ren {A} (d : A) (del : list bool) (n : nat) (r : nat -> nat) (old new : list A) : Prop :=
  forall i, i < n -> nth i del false = false -> nth (r i) new d = nth i old d.

Definition props_ren (del : list bool) (n : nat) (r : nat -> nat) (old new : list parray) : Prop :=
  length new = length old /\
  forall j pd i, j < length old -> i < n -> nth i del false = false -> pval (nth j new pd) (r i) = pval (nth j old pd) i.

Definition props_ren2 (del : list bool) (n : nat) (r : nat -> nat) (old new : list parray) : Prop :=
  length new = length old /\
  forall j pd x, j < length old -> x / 2 < n -> nth (x / 2) del false = false -> pval (nth j new pd) (r2 r x) = pval (nth j old pd) x.

(* ================================================================== base: nothing flagged *)

Lemma ren_ok_id del n : (forall i, nth i del false = false) -> ren_ok del n (fun i => i) n.
Proof.
  intros H. split; [symmetry; apply rank_all_false; intros; apply H|]. split; [intros i Hi _; exact Hi|]. intros i j _ _ _ _ E. exact E.
Qed.

Lemma arr_ren_id {A} (d : A) del n l : arr_ren d del n (fun i => i) l l.
Proof. intros i _ _. reflexivity. Qed.

Lemma props_ren_id del n l : props_ren del n (fun i => i) l l.
Proof. split; [reflexivity|]. intros. reflexivity. Qed.

Lemma props_ren2_id del n l : props_ren2 del n (fun i => i) l l.
Proof. split; [reflexivity|]. intros. rewrite r2_id. reflexivity. Qed.

(* ================================================================== step: the flagged slot h is fast-removed *)
Section Step.
Context (del : list bool) (h n : nat).
Context (Ln : length del = n) (Hh : h < n) (Hd : nth h del false = true) (Above : forall i, h < i -> nth i del false = false).
Context (r1 : nat -> nat).

Local Notation r := (fun i => r1 (tr h (n - 1) i)).
Local Notation del1 := (fast_remove false h del).

Lemma ren_ok_step cnt : ren_ok del1 (n - 1) r1 cnt -> ren_ok del n r cnt.
Proof.
  intros (C & B & J). split; [rewrite C; apply rank_fast_remove; assumption|]. split.
  - intros i Hi Li. apply B; [apply (live_tr_lt del h n); assumption|apply (live_tr_flag del h n); assumption].
  - intros i j Hi Hj Li Lj E. apply (tr_inj h (n - 1)). apply J; try assumption;
      solve [apply (live_tr_lt del h n); assumption | apply (live_tr_flag del h n); assumption].
Qed.

Lemma arr_ren_step {A} (d : A) old new : length old = n ->
  arr_ren d del1 (n - 1) r1 (fast_remove d h old) new -> arr_ren d del n r old new.
Proof.
  intros Lo H i Hi Li. rewrite (H (tr h (n - 1) i)) by (solve [apply (live_tr_lt del h n); assumption | apply (live_tr_flag del h n); assumption]).
  apply (live_tr_nth del h n Ln Hh Hd d old i Lo Hi Li).
Qed.

Lemma props_ren_step old new : (forall p, In p old -> length (pdata p) = n) ->
  props_ren del1 (n - 1) r1 (map (pfast h) old) new -> props_ren del n r old new.
Proof.
  intros Lp (L & H). rewrite map_length in L. split; [exact L|]. intros j pd i Hj Hi Li.
  rewrite (H j pd (tr h (n - 1) i)); [|rewrite map_length; exact Hj|apply (live_tr_lt del h n); assumption|apply (live_tr_flag del h n); assumption].
  rewrite (nth_map_in (pfast h) old j pd pd Hj). unfold pval, pfast. cbn [pdata pdef].
  apply (live_tr_nth del h n Ln Hh Hd); [apply Lp; apply nth_In; exact Hj|exact Hi|exact Li].
Qed.

Lemma props_ren2_step old new : (forall p, In p old -> length (pdata p) = 2 * n) ->
  props_ren2 del1 (n - 1) r1 (map (pfast2 h) old) new -> props_ren2 del n r old new.
Proof.
  intros Lp (L & H). rewrite map_length in L. split; [exact L|]. intros j pd x Hj Hx Lx.
  rewrite <- (r2_comp r1 h (n - 1) x). destruct (tr2_spec h (n - 1) x) as [Q1 Q2].
  rewrite (H j pd (tr2 h (n - 1) x)); [|rewrite map_length; exact Hj|rewrite Q1; apply (live_tr_lt del h n); assumption|
                                        rewrite Q1; apply (live_tr_flag del h n); assumption].
  rewrite (nth_map_in (pfast2 h) old j pd pd Hj). unfold pval, pfast2. cbn [pdata pdef].
  apply (live_tr2_nth del h n Ln Hh Hd); [apply Lp; apply nth_In; exact Hj|exact Hx|exact Lx].
Qed.
End Step.

(* flags at or beyond the length are false *)
Lemma flag_beyond del i : length del <= i -> nth i del false = false.
Proof. intros H. apply nth_overflow. exact H. Qed.

Lemma flagged_in_range del n h : length del = n -> nth h del false = true -> h < n.
Proof. intros L H. destruct (Nat.lt_ge_cases h n) as [A|A]; [exact A|]. rewrite nth_overflow in H by lia. discriminate. Qed.
