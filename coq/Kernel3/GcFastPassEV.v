(* Kernel3/GcFastPassEV.v -- C04, FAST mode: the EDGE pass and the VERTEX pass of collect_garbage (S5), by induction on the bound. *)
From Coq Require Import ZArith Lia Bool Arith List ZifyNat ZifyBool.
From OVM Require Import Base.ListX Base.ListLemmas Kernel.State Kernel.Ops Kernel.ExactInv Kernel.SwapInvol Kernel.PropLaws Kernel.ShiftFace
                        Kernel3.FastDefs Kernel3.FastBase Kernel3.GcDefs Kernel3.GcList Kernel3.GcInv
                        Kernel3.GcFastBase Kernel3.GcFastRen Kernel3.GcFastEdge Kernel3.GcFastVertex Kernel3.GcFastPassCF.
Import ListNotations.
Ltac Zify.zify_post_hook ::= Z.div_mod_to_equations.
Local Open Scope nat_scope.

(* ================================================================== the edge pass *)

Definition edge_pass_post (s t : mesh) (r : nat -> nat) : Prop :=
  ginv t /\ deferred t = false /\ fast t = true /\ sized t /\ no_fflags t /\ no_eflags t /\
  nv t = nv s /\ faces t = map (map (r2 r)) (faces s) /\ cells t = cells s /\
  vdel t = vdel s /\ fdel t = fdel s /\ cdel t = cdel s /\
  (vbu t = vbu s /\ ebu t = ebu s /\ fbu t = fbu s) /\
  ren_ok (edel s) (ne s) r (ne t) /\ arr_ren (0, 0) (edel s) (ne s) r (edges s) (edges t) /\
  props_ren (edel s) (ne s) r (pe s) (pe t) /\ props_ren2 (edel s) (ne s) r (phe s) (phe t) /\
  (pv t = pv s /\ pf t = pf s /\ phf t = phf s /\ pc t = pc s /\ pm t = pm s).

Lemma edge_pass_post_step s s1 t r1 n : ginv s -> sized s -> n < ne s -> e_deleted s n = true ->
  (forall i, n < i -> e_deleted s i = false) ->
  nv s1 = nv s -> edges s1 = fast_remove (0, 0) n (edges s) -> faces s1 = map (map (tr2 n (ne s - 1))) (faces s) -> cells s1 = cells s ->
  vdel s1 = vdel s -> edel s1 = fast_remove false n (edel s) -> fdel s1 = fdel s -> cdel s1 = cdel s ->
  vbu s1 = vbu s -> ebu s1 = ebu s -> fbu s1 = fbu s ->
  pe s1 = map (pfast n) (pe s) -> phe s1 = map (pfast2 n) (phe s) ->
  pv s1 = pv s -> pf s1 = pf s -> phf s1 = phf s -> pc s1 = pc s -> pm s1 = pm s ->
  edge_pass_post s1 t r1 -> edge_pass_post s t (fun i => r1 (tr n (ne s - 1) i)).
Proof.
  intros I Z Hlt Hd Ab a1 a2 a3 a4 a5 a6 a7 a8 m1 m2 m3 q1 q2 q3 q4 q5 q6 q7
         (It & Dt & Ft & Zt & NFt & NEt & b1 & b3 & b4 & b5 & b7 & b8 & (n1 & n2 & n3) & R & A & P & P2 & (r3 & r4 & r5 & r6 & r7)).
  pose proof (ginv_len_edel s I) as Le. destruct Z as (_ & _ & _ & _ & Lp).
  assert (N1 : ne s1 = ne s - 1) by (unfold ne; rewrite a2, fast_remove_length; reflexivity).
  rewrite a6, N1 in R, A, P, P2. rewrite a2 in A. rewrite q1 in P. rewrite q2 in P2.
  unfold edge_pass_post. refine (conj It (conj Dt (conj Ft (conj Zt (conj NFt (conj NEt _)))))).
  rewrite b1, b3, b4, b5, b7, b8, n1, n2, n3, r3, r4, r5, r6, r7, a1, a3, a4, a5, a7, a8, m1, m2, m3, q3, q4, q5, q6, q7.
  splits; try reflexivity.
  - apply map_map_r2_comp.
  - apply ren_ok_step; assumption.
  - apply arr_ren_step; try assumption. reflexivity.
  - apply props_ren_step; try assumption. intros p Hp. exact (Lp KE p Hp).
  - apply props_ren2_step; try assumption. intros p Hp. exact (Lp KHE p Hp).
Qed.

Theorem gcfast_edge_pass n : forall s, deferred s = false -> fast s = true -> ginv s -> sized s -> no_fflags s -> n <= ne s ->
  (forall i, n <= i -> e_deleted s i = false) -> exists r, edge_pass_post s (pass_e n s) r.
Proof.
  unfold pass_e. induction n as [|n IH]; intros s D F I Z NF Hn Hi.
  - rewrite gc_pass_0. exists (fun i => i).
    assert (NE : forall i, nth i (edel s) false = false) by (intros i; apply (Hi i); lia).
    unfold edge_pass_post. refine (conj I (conj D (conj F (conj Z (conj NF (conj NE _)))))). splits; try reflexivity.
    + symmetry. apply map_map_r2_id.
    + apply ren_ok_id. exact NE.
    + apply arr_ren_id.
    + apply props_ren_id.
    + apply props_ren2_id.
  - rewrite gc_pass_S. destruct (e_deleted s n) eqn:Hd.
    + assert (Hlt : n < ne s) by lia.
      pose proof (gcfast_edge_step s n D F I NF Hlt Hd) as St. pose proof (gcfast_edge_step_props s n D F Z Hlt) as Pr. cbv zeta in Pr.
      set (s1 := delete_edge_core n (clr_e n s)) in *. clearbody s1.
      destruct St as (I1 & D1 & F1 & NF1 & a1 & a2 & a3 & a4 & a5 & a6 & a7 & a8 & (m1 & m2 & m3)).
      destruct Pr as (Z1 & q1 & q2 & q3 & q4 & q5 & q6 & q7).
      assert (Hn1 : n <= ne s1) by (unfold ne; rewrite a2, fast_remove_length; fold (ne s); lia).
      assert (Ab : forall i, n < i -> e_deleted s i = false) by (intros i Hgt; apply Hi; lia).
      assert (Hi1 : forall i, n <= i -> e_deleted s1 i = false).
      { intros i Hge. unfold e_deleted. rewrite a6. apply (flags_above_fast_remove (edel s) n (ne s) (ginv_len_edel s I) Hlt Ab). exact Hge. }
      destruct (IH s1 D1 F1 I1 Z1 NF1 Hn1 Hi1) as [r1 P1]. exists (fun i => r1 (tr n (ne s - 1) i)).
      apply (edge_pass_post_step s s1 _ r1 n); assumption.
    + apply (IH s D F I Z NF); [lia|]. intros i Hge. destruct (Nat.eq_dec i n) as [->|N]; [exact Hd|apply Hi; lia].
Qed.

(* ================================================================== the vertex pass *)

Definition vertex_pass_post (s t : mesh) (r : nat -> nat) : Prop :=
  ginv t /\ deferred t = false /\ fast t = true /\ sized t /\ no_vflags t /\ no_eflags t /\ no_fflags t /\ no_cflags t /\
  edges t = map (rp r) (edges s) /\ faces t = faces s /\ cells t = cells s /\
  edel t = edel s /\ fdel t = fdel s /\ cdel t = cdel s /\
  (vbu t = vbu s /\ ebu t = ebu s /\ fbu t = fbu s) /\
  ren_ok (vdel s) (nv s) r (nv t) /\
  props_ren (vdel s) (nv s) r (pv s) (pv t) /\
  (pe t = pe s /\ phe t = phe s /\ pf t = pf s /\ phf t = phf s /\ pc t = pc s /\ pm t = pm s).

Lemma vertex_pass_post_step s s1 t r1 n : ginv s -> sized s -> n < nv s -> v_deleted s n = true ->
  (forall i, n < i -> v_deleted s i = false) ->
  nv s1 = nv s - 1 -> edges s1 = map (trp n (nv s - 1)) (edges s) -> faces s1 = faces s -> cells s1 = cells s ->
  vdel s1 = fast_remove false n (vdel s) -> edel s1 = edel s -> fdel s1 = fdel s -> cdel s1 = cdel s ->
  vbu s1 = vbu s -> ebu s1 = ebu s -> fbu s1 = fbu s ->
  pv s1 = map (pfast n) (pv s) ->
  pe s1 = pe s -> phe s1 = phe s -> pf s1 = pf s -> phf s1 = phf s -> pc s1 = pc s -> pm s1 = pm s ->
  vertex_pass_post s1 t r1 -> vertex_pass_post s t (fun i => r1 (tr n (nv s - 1) i)).
Proof.
  intros I Z Hlt Hd Ab a1 a2 a3 a4 a5 a6 a7 a8 m1 m2 m3 q1 q2 q3 q4 q5 q6 q7
         (It & Dt & Ft & Zt & NVt & NEt & NFt & NCt & b2 & b3 & b4 & b6 & b7 & b8 & (n1 & n2 & n3) & R & P & (r2_ & r3 & r4 & r5 & r6 & r7)).
  pose proof (ginv_len_vdel s I) as Lv. destruct Z as (_ & _ & _ & _ & Lp).
  rewrite a5, a1 in R, P. rewrite q1 in P.
  unfold vertex_pass_post. refine (conj It (conj Dt (conj Ft (conj Zt (conj NVt (conj NEt (conj NFt (conj NCt _)))))))).
  rewrite b2, b3, b4, b6, b7, b8, n1, n2, n3, r2_, r3, r4, r5, r6, r7, a2, a3, a4, a6, a7, a8, m1, m2, m3, q2, q3, q4, q5, q6, q7.
  splits; try reflexivity.
  - apply map_rp_comp.
  - apply ren_ok_step; assumption.
  - apply props_ren_step; try assumption. intros p Hp. exact (Lp KV p Hp).
Qed.

Theorem gcfast_vertex_pass n : forall s, deferred s = false -> fast s = true -> ginv s -> sized s ->
  no_eflags s -> no_fflags s -> no_cflags s -> n <= nv s ->
  (forall i, n <= i -> v_deleted s i = false) -> exists r, vertex_pass_post s (pass_v n s) r.
Proof.
  unfold pass_v. induction n as [|n IH]; intros s D F I Z NE NF NC Hn Hi.
  - rewrite gc_pass_0. exists (fun i => i).
    assert (NV : forall i, nth i (vdel s) false = false) by (intros i; apply (Hi i); lia).
    unfold vertex_pass_post. refine (conj I (conj D (conj F (conj Z (conj NV (conj NE (conj NF (conj NC _)))))))). splits; try reflexivity.
    + symmetry. apply map_rp_id.
    + apply ren_ok_id. exact NV.
    + apply props_ren_id.
  - rewrite gc_pass_S. destruct (v_deleted s n) eqn:Hd.
    + assert (Hlt : n < nv s) by lia.
      pose proof (gcfast_vertex_step s n D F I NE NF NC Hlt Hd) as St. pose proof (gcfast_vertex_step_props s n D F Z Hlt) as Pr. cbv zeta in Pr.
      set (s1 := delete_vertex_core n (clr_v n s)) in *. clearbody s1.
      destruct St as (I1 & D1 & F1 & NE1 & NF1 & NC1 & a1 & a2 & a3 & a4 & a5 & a6 & a7 & a8 & (m1 & m2 & m3)).
      destruct Pr as (Z1 & q1 & q2 & q3 & q4 & q5 & q6 & q7).
      assert (Hn1 : n <= nv s1) by (rewrite a1; lia).
      assert (Ab : forall i, n < i -> v_deleted s i = false) by (intros i Hgt; apply Hi; lia).
      assert (Hi1 : forall i, n <= i -> v_deleted s1 i = false).
      { intros i Hge. unfold v_deleted. rewrite a5. apply (flags_above_fast_remove (vdel s) n (nv s) (ginv_len_vdel s I) Hlt Ab). exact Hge. }
      destruct (IH s1 D1 F1 I1 Z1 NE1 NF1 NC1 Hn1 Hi1) as [r1 P1]. exists (fun i => r1 (tr n (nv s - 1) i)).
      apply (vertex_pass_post_step s s1 _ r1 n); assumption.
    + apply (IH s D F I Z NE NF NC); [lia|]. intros i Hge. destruct (Nat.eq_dec i n) as [->|N]; [exact Hd|apply Hi; lia].
Qed.
