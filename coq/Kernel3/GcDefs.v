(* Kernel3/GcDefs.v -- C04, DEFINITIONS ONLY (the lemmas are in Kernel3/Gc*.v, the theorems in Props/Properties_C04_gc.v).

   The LOGICAL mesh of a state with pending (deferred) deletions:
     alive del n        the not-flagged indices below n, ascending          (live_vertices s = alive (vdel s) (nv s), ...)
     dead del n         the flagged indices below n, ascending
     rank del x         the number of not-flagged indices below x: the handle the live entity x has once the flagged slots are gone
     rank2 del h        the same for a halfedge / halfface handle: 2 * rank (h / 2) + h mod 2
     logical_nv / logical_edges / logical_faces / logical_cells
                        the definitions of the live entities, in order, with every handle renamed through the rank maps
     logical_props k s  every property array of kind k without the slots of the flagged entities (keep_slots, Kernel/ShiftCompose.v)
   The hypothesis of the collection theorems:
     up_closed s        no live edge mentions a flagged vertex, no live face a flagged edge, no live cell a flagged face
     ginv s             bu_inv s (enabled caches exact w.r.t. the LIVE entities, stored handles of live entities in range, one cache
                        slot / flag per entity), one vertex flag per vertex, up_closed, and - only when both the edge and the face
                        incidences are on, i.e. when reorder_incident_halffaces runs - duplicate-free halfedge->halfface lists and
                        closed live cells
     gc_ready s         deferred mode + "no deleted-counter is positive only if nothing is flagged" + ginv s
     gc_ready_b         a decidable sound checker (soundness: Kernel3/GcInv.v gc_ready_b_sound) *)
From OVM Require Import Base.ListX Kernel.State Kernel.Ops Kernel.Closure Kernel.ExactInv Kernel.InvB Kernel.ShiftFace
                        Kernel2.LookupModel Kernel2.AdjacentProofs Kernel2.ReorderExact Kernel.ShiftCompose.
Import ListNotations.
Local Open Scope nat_scope.

(* ---------------------------------------------------------------- live / flagged indices and the rank renumbering *)

Definition alive (del : list bool) (n : nat) : list nat := filter (fun i => negb (nth i del false)) (seq 0 n).
Definition dead (del : list bool) (n : nat) : list nat := filter (fun i => nth i del false) (seq 0 n).

Definition rank (del : list bool) (x : nat) : nat := length (alive del x).
Definition rank2 (del : list bool) (h : nat) : nat := 2 * rank del (h / 2) + h mod 2.
Definition rankp (del : list bool) (p : nat * nat) : nat * nat := (rank del (fst p), rank del (snd p)).

(* the flag array of the half-entities: both halves carry the flag of their entity *)
Definition dbl (del : list bool) : list bool := flat_map (fun b => [b; b]) del.

(* ---------------------------------------------------------------- the logical mesh *)

Definition logical_nv (s : mesh) : nat := length (live_vertices s).
Definition logical_edges (s : mesh) : list (nat * nat) := map (fun e => rankp (vdel s) (edge_at s e)) (live_edges s).
Definition logical_faces (s : mesh) : list (list nat) := map (fun f => map (rank2 (edel s)) (face_at s f)) (live_faces s).
Definition logical_cells (s : mesh) : list (list nat) := map (fun c => map (rank2 (fdel s)) (cell_at s c)) (live_cells s).

(* the flagged slots of the arrays of kind k (for half-entities: the two slots of every flagged entity) *)
Definition dead_slots (k : kind) (s : mesh) : list nat :=
  match k with
  | KV => dead (vdel s) (nv s)
  | KE => dead (edel s) (ne s)
  | KHE => dead (dbl (edel s)) (2 * ne s)
  | KF => dead (fdel s) (nf s)
  | KHF => dead (dbl (fdel s)) (2 * nf s)
  | KC => dead (cdel s) (nc s)
  | KM => []
  end.

Definition pkeep (cs : list nat) (p : parray) : parray := {| pdef := pdef p; pdata := keep_slots (pdef p) cs (pdata p) |}.
Definition logical_props (k : kind) (s : mesh) : list parray := map (pkeep (dead_slots k s)) (props k s).

(* ---------------------------------------------------------------- the hypothesis *)

Definition up_closed (s : mesh) : Prop :=
  (forall e, e < ne s -> e_deleted s e = false ->
     v_deleted s (fst (edge_at s e)) = false /\ v_deleted s (snd (edge_at s e)) = false) /\
  (forall f, f < nf s -> f_deleted s f = false -> forall he, In he (face_at s f) -> e_deleted s (he / 2) = false) /\
  (forall c, c < nc s -> c_deleted s c = false -> forall hf, In hf (cell_at s c) -> f_deleted s (hf / 2) = false).

Definition gext (s : mesh) : Prop := ebu s = true -> fbu s = true -> slots_nodup s /\ live_cells_closed s.

Definition ginv (s : mesh) : Prop := bu_inv s /\ length (vdel s) = nv s /\ up_closed s /\ gext s.

(* when needs_garbage_collection() is false (all four deleted-counters are zero) nothing is flagged; this is what is needed of
   the counters (Kernel/DeferredDelete.v counts_ok - the counters count the flags exactly - implies it) *)
Definition pending_ok (s : mesh) : Prop := needs_gc s = false -> no_flags s.

Definition gc_ready (s : mesh) : Prop := deferred s = true /\ pending_ok s /\ ginv s.

(* ---------------------------------------------------------------- the checker *)

Definition refs_live_b (s : mesh) : bool :=
  forallb (fun e => e_deleted s e || ((fst (edge_at s e) <? nv s) && (snd (edge_at s e) <? nv s))) (seq 0 (ne s)) &&
  forallb (fun f => f_deleted s f || forallb (fun h => h <? 2 * ne s) (face_at s f)) (seq 0 (nf s)) &&
  forallb (fun c => c_deleted s c || forallb (fun hf => hf <? 2 * nf s) (cell_at s c)) (seq 0 (nc s)).

Definition up_closed_b (s : mesh) : bool :=
  forallb (fun e => e_deleted s e || (negb (v_deleted s (fst (edge_at s e))) && negb (v_deleted s (snd (edge_at s e))))) (seq 0 (ne s)) &&
  forallb (fun f => f_deleted s f || forallb (fun he => negb (e_deleted s (he / 2))) (face_at s f)) (seq 0 (nf s)) &&
  forallb (fun c => c_deleted s c || forallb (fun hf => negb (f_deleted s (hf / 2))) (cell_at s c)) (seq 0 (nc s)).

Definition ginv_b (s : mesh) : bool :=
  vbu_ok_b s && ebu_ok_b s && fbu_ok_b s && refs_live_b s && lens_ok_b s && (length (vdel s) =? nv s) && up_closed_b s &&
  (negb (ebu s && fbu s) || (slots_nodup_b s && closed_all_b s)).

Definition gc_ready_b (s : mesh) : bool := deferred s && (needs_gc s || no_flags_b s) && ginv_b s.

(* ---------------------------------------------------------------- the flag-clearing steps of collect_garbage, named *)

Definition clr_c (i : nat) (s : mesh) : mesh := set_cdel (upd i false (cdel s)) s.
Definition clr_f (i : nat) (s : mesh) : mesh := set_fdel (upd i false (fdel s)) s.
Definition clr_e (i : nat) (s : mesh) : mesh := set_edel (upd i false (edel s)) s.
Definition clr_v (i : nat) (s : mesh) : mesh := set_vdel (upd i false (vdel s)) s.

Definition pass_c (n : nat) (s : mesh) : mesh := gc_pass n c_deleted clr_c delete_cell_core s.
Definition pass_f (n : nat) (s : mesh) : mesh := gc_pass n f_deleted clr_f delete_face_core s.
Definition pass_e (n : nat) (s : mesh) : mesh := gc_pass n e_deleted clr_e delete_edge_core s.
Definition pass_v (n : nat) (s : mesh) : mesh := gc_pass n v_deleted clr_v delete_vertex_core s.

(* the entries of l at the positions whose flag is false (a missing flag counts as false), in order *)
Fixpoint compact {A} (del : list bool) (l : list A) {struct l} : list A :=
  match l with
  | [] => []
  | x :: t => match del with
              | [] => l
              | b :: del' => if b then compact del' t else x :: compact del' t
              end
  end.

Definition pcompact (del : list bool) (p : parray) : parray := {| pdef := pdef p; pdata := compact del (pdata p) |}.
