(* Kernel3/GcFastFace.v -- C04, FAST mode, the face pass of collect_garbage (no cell flag left; face / edge / vertex flags pending):
     S3  gcfast_face_last : removing the flagged LAST face in fast mode = the index-shifting removal of it, up to the fast flag
     S4  gcfast_face_step : one step delete_face_core h (clr_f h s) with f_deleted s h = true and no face flag above h:
         ginv again, faces = fast_remove [] h, face flags = fast_remove false h, cells relabeled by tr2 h last, rest untouched,
         face properties pfast h, halfface properties pfast2 h. *)
From Coq Require Import ZArith Lia Bool Arith List ZifyNat ZifyBool.
From OVM Require Import Base.ListX Base.ListLemmas Base.ListLemmas2 Kernel.State Kernel.Ops Kernel.Mirror Kernel.Construct
                        Kernel.Recompute Kernel.Closure Kernel.ExactInv Kernel.ExactDelete Kernel.SwapEffects Kernel.SwapInvol Kernel.PropLaws
                        Kernel.DeleteEffects Kernel.DeleteDefs Kernel.GcFacts Kernel.SwapFaceCache Kernel.SwapEdgeCache Kernel.Sizes
                        Kernel2.LookupModel Kernel2.AdjacentProofs Kernel2.ReorderExact Kernel2.ExactBase Kernel2.ExactDelFace Kernel2.ExactHistory
                        Kernel.ShiftFace Kernel.ShiftEdge Kernel.ShiftVertex Kernel.ShiftCompose Kernel3.FastDefs Kernel3.FastBase
                        Kernel3.FastFace Kernel3.GcDefs Kernel3.GcList Kernel3.GcInv Kernel3.GcCell Kernel3.GcFace
                        Kernel3.GcFastBase Kernel3.GcFastFaceSwap.
Import ListNotations.
Ltac Zify.zify_post_hook ::= Z.div_mod_to_equations.
Local Open Scope nat_scope.

Ltac rsgf := cbn [set_fast set_nv set_edges set_faces set_cells set_vdel set_edel set_fdel set_cdel set_counts set_flags
                set_out_hes set_inc_hfs set_inc_cell set_props swap_prop_elems delete_prop_elem resize_props
                vertex_deleted edge_deleted face_deleted cell_deleted
                nv edges faces cells vdel edel fdel cdel ndv nde ndf ndc vbu ebu fbu deferred fast
                out_hes inc_hfs inc_cell pv pe phe pf phf pc pm props fst snd].

(* ================================================================== S3 *)
Section FaceLast.
Context (t : mesh).
Context (D : deferred t = false) (F : fast t = true) (I : ginv t) (NC : no_cflags t) (Hn : 0 < nf t).
Context (Hd : f_deleted t (nf t - 1) = true).

Local Notation l := (nf t - 1).
Local Notation t0 := (set_fast false t).
Local Notation u := (clr_f (nf t - 1) t).
Local Notation u0 := (clr_f (nf t - 1) (set_fast false t)).

Lemma gff_I0 : ginv t0.
Proof. apply ginv_set_fast. exact I. Qed.

Lemma gff_cells_id : map (map (cor2 (2 * l + 1))) (cells t) = cells t.
Proof.
  pose proof I as ((_ & _ & _ & (_ & _ & R3) & _) & _).
  apply map_map_cor2_last. intros xs x Hxs Hx. destruct (In_nth _ _ [] Hxs) as [c [Hc Ec]].
  replace (2 * (l + 1)) with (2 * nf t) by lia. apply (R3 c Hc (NC c)). unfold cell_at. rewrite Ec. exact Hx.
Qed.

Lemma gff_loop_id : ebu t = true -> map (map (cor2 (2 * l + 1))) (inc_hfs (face_loop l u)) = inc_hfs (face_loop l u).
Proof.
  intros Eb. pose proof I as ((_ & EO & _ & _ & (_ & L2 & _)) & _).
  apply map_map_cor2_last. intros xs x Hxs Hx. destruct (In_nth _ _ [] Hxs) as [k [Hk Ek]].
  destruct (face_loop_frame l u) as [z [Ez Lz]]. rewrite Ez in Hk. cbn [inc_hfs set_inc_hfs] in Hk. rewrite Lz in Hk.
  change (inc_hfs u) with (inc_hfs t) in Hk. rewrite (L2 Eb) in Hk.
  assert (Hx' : In x (hfs_at (face_loop l u0) k)).
  { unfold hfs_at. change u0 with (set_fast false u). rewrite face_loop_set_fast, Ek. exact Hx. }
  apply (proj2 (gcf_loop t0 l gff_I0 ltac:(change (l < nf t); lia) Hd Eb k Hk) x) in Hx'.
  change (hfs_at t0 k) with (hfs_at t k) in Hx'. apply (EO Eb k Hk) in Hx'. destruct Hx' as (Hx' & _). lia.
Qed.

Theorem gcfast_face_last : delete_face_core l u = set_fast true (delete_face_core l u0).
Proof.
  assert (Hl : l < nf t) by lia.
  (* the fast side *)
  pose proof (fast_face_view u D F) as V. cbv zeta in V. change (nf u) with (nf t) in V. destruct V as (x1 & x2 & x3 & x4 & (x5 & x6 & x7)).
  pose proof (delete_face_core_defs l u D) as Df. cbv zeta in Df. unfold victim in Df. change (fast u) with (fast t) in Df.
  change (deferred u) with (deferred t) in Df. change (nf u) with (nf t) in Df. rewrite F, D in Df. cbn [andb negb] in Df.
  rewrite swap_face_self in Df. destruct Df as (d1 & d2 & d3 & _).
  pose proof (delete_face_core_props l u D) as P. cbv zeta in P. unfold victim in P. change (fast u) with (fast t) in P.
  change (deferred u) with (deferred t) in P. change (nf u) with (nf t) in P. rewrite F, D in P. cbn [andb negb] in P.
  rewrite swap_face_self in P. destruct P as (p1 & p2 & p3 & p4 & p5 & p6 & p7 & p8 & p9 & p10 & p11).
  pose proof (cv_delete_face_core l u D) as C. unfold cv in C. injection C as k1 k2 k3 k4 k5 k6.
  (* the index-shifting side *)
  pose proof (gcf_cells t0 l D eq_refl gff_I0 NC Hl Hd) as y4.
  pose proof (delete_face_core_view l u0 D eq_refl) as W. cbv zeta in W.
  destruct W as (w1 & w2 & w3 & _ & w5 & w6 & w7 & w8 & w9 & w10 & w11 & (m1 & m2 & m3 & m4 & m5)).
  pose proof (delete_face_core_props l u0 D) as Q. cbv zeta in Q. unfold victim in Q. change (fast u0) with false in Q. cbn [andb] in Q.
  destruct Q as (q1 & q2 & q3 & q4 & q5 & q6 & q7 & q8 & q9 & q10 & q11).
  pose proof (cv_delete_face_core l u0 D) as C'. unfold cv in C'. injection C' as j1 j2 j3 j4 j5 j6.
  pose proof gff_cells_id as Cid. pose proof gff_loop_id as Hid.
  set (Y := delete_face_core l u0) in *. set (Z := delete_face_core l u) in *.
  apply mesh_ext; rsgf.
  - rewrite d2, w1. reflexivity.
  - rewrite d3, w2. reflexivity.
  - rewrite d1, w3. reflexivity.
  - rewrite x1, y4. symmetry. exact Cid.
  - rewrite p4, w5. reflexivity.
  - rewrite p5, w6. reflexivity.
  - rewrite p1, q1. reflexivity.
  - rewrite p6, q6. reflexivity.
  - rewrite k1, j1. reflexivity.
  - rewrite k2, j2. reflexivity.
  - rewrite k3, j3. reflexivity.
  - rewrite k4, j4. reflexivity.
  - rewrite x5, m1. reflexivity.
  - rewrite x6, m2. reflexivity.
  - rewrite x7, m3. reflexivity.
  - rewrite k5, j5. reflexivity.
  - rewrite k6. exact F.
  - rewrite x2, w9. reflexivity.
  - rewrite x4, w11. change (ebu u0) with (ebu t). change (ebu u) with (ebu t). change (inc_hfs u0) with (inc_hfs u).
    change u0 with (set_fast false u). rewrite face_loop_set_fast.
    destruct (ebu t) eqn:Eb; [symmetry; apply Hid; reflexivity|reflexivity].
  - rewrite x3, w10. reflexivity.
  - rewrite p7, q7. reflexivity.
  - rewrite p8, q8. reflexivity.
  - rewrite p9, q9. reflexivity.
  - rewrite p2, q2. reflexivity.
  - rewrite p3, q3. reflexivity.
  - rewrite p10, q10. reflexivity.
  - rewrite p11, q11. reflexivity.
Qed.
End FaceLast.

(* ================================================================== S3 + the non-fast step: removal of the flagged last face *)

Lemma gcfast_face_last_step t : deferred t = false -> fast t = true -> ginv t -> no_cflags t -> 0 < nf t ->
  f_deleted t (nf t - 1) = true ->
  let s' := delete_face_core (nf t - 1) (clr_f (nf t - 1) t) in
  ginv s' /\ deferred s' = false /\ fast s' = true /\ no_cflags s' /\
  nv s' = nv t /\ edges s' = edges t /\ faces s' = remove_nth (nf t - 1) (faces t) /\ cells s' = cells t /\
  vdel s' = vdel t /\ edel s' = edel t /\ fdel s' = remove_nth (nf t - 1) (fdel t) /\ cdel s' = cdel t /\
  (vbu s' = vbu t /\ ebu s' = ebu t /\ fbu s' = fbu t).
Proof.
  intros Dt Ft It NCt Hnt Hdt. cbv zeta.
  rewrite (gcfast_face_last t Dt Ft It NCt Hnt Hdt).
  pose proof (gc_face_step (set_fast false t) (nf t - 1) Dt eq_refl (ginv_set_fast false t It) NCt ltac:(change (nf t - 1 < nf t); lia) Hdt) as St.
  pose proof (gff_cells_id t It NCt Hnt) as Cid.
  generalize dependent (delete_face_core (nf t - 1) (clr_f (nf t - 1) (set_fast false t))). intros Y St.
  destruct St as (IY & DY & FY & NCY & a1 & a2 & a3 & a4 & a5 & a6 & a7 & a8 & (m1 & m2 & m3) & _).
  change (nv (set_fast false t)) with (nv t) in a1. change (edges (set_fast false t)) with (edges t) in a2.
  change (faces (set_fast false t)) with (faces t) in a3. change (cells (set_fast false t)) with (cells t) in a4.
  change (vdel (set_fast false t)) with (vdel t) in a5. change (edel (set_fast false t)) with (edel t) in a6.
  change (fdel (set_fast false t)) with (fdel t) in a7. change (cdel (set_fast false t)) with (cdel t) in a8.
  change (vbu (set_fast false t)) with (vbu t) in m1. change (ebu (set_fast false t)) with (ebu t) in m2.
  change (fbu (set_fast false t)) with (fbu t) in m3. rewrite Cid in a4.
  split; [apply ginv_set_fast; exact IY|]. rsgf.
  split; [exact DY|]. split; [reflexivity|]. split; [intros c; exact (NCY c)|].
  exact (conj a1 (conj a2 (conj a3 (conj a4 (conj a5 (conj a6 (conj a7 (conj a8 (conj m1 (conj m2 m3)))))))))).
Qed.

(* ================================================================== S4: the step *)

Section FaceStepFast.
Context (s : mesh) (h : nat).
Context (D : deferred s = false) (F : fast s = true) (I : ginv s) (NC : no_cflags s) (Hh : h < nf s) (Hd : f_deleted s h = true).

Local Notation l := (nf s - 1).
Local Notation s' := (delete_face_core h (clr_f h s)).

Lemma gfs_lens : length (fdel s) = nf s.
Proof. destruct I as ((_ & _ & _ & _ & (_ & _ & _ & _ & L5 & _)) & _). exact L5. Qed.

(* the state after the swap: the flagged face sits in the last slot *)
Lemma gfs_split : s' = delete_face_core l (clr_f l (swap_face_indices h l s)).
Proof.
  rewrite (fast_face_split h (clr_f h s) D F). change (nf (clr_f h s)) with (nf s).
  rewrite swap_face_clr by (rewrite gfs_lens; lia). reflexivity.
Qed.

Lemma gfs_swapped : let t := swap_face_indices h l s in
  ginv t /\ no_cflags t /\ deferred t = false /\ fast t = true /\ nf t = nf s /\ f_deleted t l = true /\
  nv t = nv s /\ edges t = edges s /\ faces t = swap_nth h l [] (faces s) /\ cells t = map (map (tr2 h l)) (cells s) /\
  vdel t = vdel s /\ edel t = edel s /\ fdel t = swap_nth h l false (fdel s) /\ cdel t = cdel s /\
  (vbu t = vbu s /\ ebu t = ebu s /\ fbu t = fbu s).
Proof.
  cbv zeta. assert (Hl : l < nf s) by lia.
  destruct (swap_face_modes h l s) as (Dt & Ft & Nt & _ & _ & Vt & Et & Bt).
  destruct (swap_face_defs_g h l s I NC Hh Hl) as (e1 & e2 & e3 & e4 & e5 & e6 & e7 & e8).
  split; [apply ginv_swap_face; assumption|]. split; [intros c; unfold c_deleted; rewrite e8; apply NC|].
  split; [congruence|]. split; [congruence|]. split; [exact Nt|].
  split; [unfold f_deleted; rewrite e7, nth_swap_tr by (rewrite gfs_lens; lia); unfold tr; rewrite Nat.eqb_refl;
          destruct (Nat.eqb_spec l h) as [->|]; exact Hd|].
  repeat split; assumption.
Qed.

Theorem gcfast_face_step :
  ginv s' /\ deferred s' = false /\ fast s' = true /\ no_cflags s' /\
  nv s' = nv s /\ edges s' = edges s /\ faces s' = fast_remove [] h (faces s) /\ cells s' = map (map (tr2 h l)) (cells s) /\
  vdel s' = vdel s /\ edel s' = edel s /\ fdel s' = fast_remove false h (fdel s) /\ cdel s' = cdel s /\
  (vbu s' = vbu s /\ ebu s' = ebu s /\ fbu s' = fbu s).
Proof.
  assert (Hl : l < nf s) by lia. pose proof gfs_lens as Lf.
  rewrite gfs_split. pose proof gfs_swapped as Sw. cbv zeta in Sw.
  generalize dependent (swap_face_indices h l s). intros t Sw.
  destruct Sw as (It & NCt & Dt & Ft & Nt & Hdt & e1 & e2 & e3 & e4 & e5 & e6 & e7 & e8 & (b1 & b2 & b3)).
  rewrite <- Nt in Hdt. assert (Hnt : 0 < nf t) by lia.
  pose proof (gcfast_face_last_step t Dt Ft It NCt Hnt Hdt) as St. cbv zeta in St. rewrite Nt in St.
  generalize dependent (delete_face_core l (clr_f l t)). intros Y St.
  destruct St as (IY & DY & FY & NCY & a1 & a2 & a3 & a4 & a5 & a6 & a7 & a8 & (m1 & m2 & m3)).
  refine (conj IY (conj DY (conj FY (conj NCY _)))).
  rewrite a1, a2, a3, a4, a5, a6, a7, a8, m1, m2, m3, e1, e2, e3, e4, e5, e6, e7, e8, b1, b2, b3.
  splits; try reflexivity.
  - unfold nf. apply fast_remove_swap. exact Hh.
  - rewrite <- Lf. apply fast_remove_swap. rewrite Lf. exact Hh.
Qed.
End FaceStepFast.

(* ================================================================== properties, counters, sizes: unconditional *)

Lemma gcfast_face_step_props s h : deferred s = false -> fast s = true -> sized s -> h < nf s ->
  let s' := delete_face_core h (clr_f h s) in
  sized s' /\ pf s' = map (pfast h) (pf s) /\ phf s' = map (pfast2 h) (phf s) /\
  pv s' = pv s /\ pe s' = pe s /\ phe s' = phe s /\ pc s' = pc s /\ pm s' = pm s.
Proof.
  intros D F Z Hh. cbv zeta.
  assert (Zc : sized (clr_f h s)) by (apply szd_sized; apply szd_upd_flag_f; apply szd_sized; exact Z).
  pose proof (fast_face_arrays h (clr_f h s) D F Zc Hh) as A. unfold face_arrays_fast in A.
  destruct A as (_ & _ & _ & _ & a5 & a6 & a7 & a8 & a9 & a10 & a11 & _).
  split; [apply szd_sized, szd_delete_face_core; apply szd_sized; exact Zc|]. repeat split; assumption.
Qed.
