(* Kernel3/FastPhases.v -- C02, immediate FAST mode, the public deletions delete_cell / delete_face / delete_edge / delete_vertex:
   for EVERY state satisfying the invariant shift_inv2 and every in-range handle, with any subset of incidences enabled,
     - exactly the brute-force upward closure (Kernel/Closure.v: cells_at_faces, faces_at_edges, edges_at_vertex) goes away: the arrays
       are fast_remove_many d closure array (Kernel3/FastMany.v: a bijection of the surviving old indices onto the new index range);
     - every survivor keeps its definition, read through the composed transpositions of the kind below (fren2 / trp / tr2);
     - the invariant holds again afterwards, the modes are unchanged.
   The phases (cells, faces, edges) each keep the invariant and establish the "free" hypothesis of the next one; the victims of a
   phase are removed largest first, so the handles of the remaining victims (all smaller) are not disturbed by the swaps. *)
From Coq Require Import ZArith Lia Bool Arith List ZifyNat ZifyBool.
From OVM Require Import Base.ListX Base.ListLemmas Base.ListLemmas2 Kernel.State Kernel.Ops Kernel.Mirror Kernel.Construct
                        Kernel.Recompute Kernel.Closure Kernel.ExactInv Kernel.SwapEffects Kernel.SwapInvol Kernel.SwapFaceCache
                        Kernel.ShiftFace Kernel.ShiftEdge Kernel.ShiftVertex Kernel.ShiftCompose
                        Kernel3.FastDefs Kernel3.FastBase Kernel3.FastCell Kernel3.FastFace Kernel3.FastEdge Kernel3.FastVertex Kernel3.FastMany.
Import ListNotations.
Ltac Zify.zify_post_hook ::= Z.div_mod_to_equations.
Local Open Scope nat_scope.

Lemma nth_map_map_tr2 a b ll k : nth k (map (map (tr2 a b)) ll) [] = map (tr2 a b) (nth k ll []).
Proof. change (@nil nat) with (map (tr2 a b) []) at 1. apply map_nth. Qed.

(* ================================================================== the cell phase *)

Theorem fast_del_desc_cells cs : forall s, strictly_sorted cs -> (forall c, In c cs -> c < nc s) ->
  deferred s = false -> fast s = true -> shift_inv2 s ->
  let t := del_desc delete_cell_core cs s in
  shift_inv2 t /\ deferred t = false /\ fast t = true /\ nv t = nv s /\ edges t = edges s /\ faces t = faces s /\
  cells t = fast_remove_many [] cs (cells s) /\ nc t = nc s - length cs /\ (vbu t = vbu s /\ ebu t = ebu s /\ fbu t = fbu s).
Proof.
  induction cs as [|a cs IH]; intros s Ss R D F I; cbv zeta.
  - unfold del_desc. cbn [rev fold_left length fast_remove_many]. split; [exact I|]. repeat split; auto. lia.
  - rewrite del_desc_cons. cbn [fast_remove_many].
    specialize (IH s (sorted_tail _ _ Ss) (fun c Hc => R c (or_intror Hc)) D F I). cbv zeta in IH. set (t := del_desc delete_cell_core cs s) in *.
    destruct IH as (It & Dt & Ft & t1 & t2 & t3 & t4 & t5 & (t6 & t7 & t8)).
    assert (Ha : a < nc t) by (rewrite t5; pose proof (sorted_room a cs (nc s) Ss R); lia).
    pose proof (fast_cell_step a t Dt Ft It Ha) as St. cbv zeta in St.
    destruct St as (Iv & Dv & Fv & v1 & v2 & v3 & v4 & (v6 & v7 & v8)).
    split; [exact Iv|]. repeat split; try congruence.
    unfold nc at 1. rewrite v4, fast_remove_length. fold (nc t). rewrite t5. cbn [length]. lia.
Qed.

Theorem fast_cells_phase fs s : deferred s = false -> fast s = true -> shift_inv2 s ->
  let cs := cells_at_faces s fs in let t := del_desc delete_cell_core cs s in
  shift_inv2 t /\ deferred t = false /\ fast t = true /\ nv t = nv s /\ edges t = edges s /\ faces t = faces s /\
  cells t = fast_remove_many [] cs (cells s) /\ nc t = nc s - length cs /\ (vbu t = vbu s /\ ebu t = ebu s /\ fbu t = fbu s) /\
  (forall f, In f fs -> face_free t f).
Proof.
  intros D F I. cbv zeta. set (cs := cells_at_faces s fs).
  assert (Scs : strictly_sorted cs) by (apply strictly_sorted_filter, sorted_live_cells).
  assert (Rcs : forall c, In c cs -> c < nc s) by (intros c Hc; apply (cells_at_faces_live s fs c) in Hc; tauto).
  pose proof (fast_del_desc_cells cs s Scs Rcs D F I) as P. cbv zeta in P. set (t := del_desc delete_cell_core cs s) in *.
  destruct P as (It & Dt & Ft & t1 & t2 & t3 & t4 & t5 & M).
  split; [exact It|]. repeat split; try assumption; try apply M.
  intros f Hf c hf Hhf E. destruct (Nat.lt_ge_cases c (nc t)) as [Hc|Hc]; [|unfold cell_at in Hhf; rewrite nth_overflow in Hhf by exact Hc; destruct Hhf].
  assert (J : In (cell_at t c) (fast_remove_many [] cs (cells s))) by (rewrite <- t4; apply nth_In; exact Hc).
  apply (In_fast_remove_many [] cs (cells s) _ Scs Rcs) in J. destruct J as [i (Hi & Hn & Ei)]. apply Hn.
  apply (cells_at_faces_spec' s fs i (proj1 (proj1 I))). split; [exact Hi|].
  exists hf. split; [unfold cell_at at 1; rewrite Ei; exact Hhf|rewrite E; exact Hf].
Qed.

(* ================================================================== the face phase *)

Lemma face_free_after_fast a l s s' g : g < a -> a <= l -> face_free s g ->
  (forall c, cell_at s' c = map (tr2 a l) (cell_at s c)) -> face_free s' g.
Proof.
  intros Hg Hal FF CA c hf Hhf. rewrite CA in Hhf. apply in_map_iff in Hhf. destruct Hhf as [y [<- Hy]]. pose proof (FF c y Hy) as Ny.
  destruct (tr2_spec a l y) as [Q _]. rewrite Q. unfold tr.
  destruct (Nat.eqb_spec (y / 2) a); [lia|]. destruct (Nat.eqb_spec (y / 2) l); lia.
Qed.

Theorem fast_faces_phase fs : forall t, strictly_sorted fs -> (forall f, In f fs -> f < nf t) ->
  deferred t = false -> fast t = true -> shift_inv2 t -> (forall f, In f fs -> face_free t f) ->
  let u := del_desc delete_face_core fs t in
  shift_inv2 u /\ deferred u = false /\ fast u = true /\ nv u = nv t /\ edges u = edges t /\
  faces u = fast_remove_many [] fs (faces t) /\ cells u = map (map (fren2 (nf t) fs)) (cells t) /\ nf u = nf t - length fs /\
  (vbu u = vbu t /\ ebu u = ebu t /\ fbu u = fbu t) /\
  (forall g, (forall f, In f fs -> g < f) -> face_free t g -> face_free u g).
Proof.
  induction fs as [|a fs IH]; intros t Ss R D F I FF; cbv zeta.
  - unfold del_desc. cbn [rev fold_left length fast_remove_many fren2]. split; [exact I|]. repeat split; auto; try lia.
    rewrite <- (map_id (cells t)) at 1. apply map_ext. intros l. symmetry. apply map_id.
  - rewrite del_desc_cons. cbn [fast_remove_many].
    specialize (IH t (sorted_tail _ _ Ss) (fun f Hf => R f (or_intror Hf)) D F I (fun f Hf => FF f (or_intror Hf))). cbv zeta in IH.
    set (u := del_desc delete_face_core fs t) in *.
    destruct IH as (Iu & Du & Fu & u1 & u2 & u3 & u4 & u5 & (u6 & u7 & u8) & Prop_).
    assert (Lt : forall x, In x fs -> a < x) by (apply strictly_sorted_lt; exact Ss).
    pose proof (sorted_room a fs (nf t) Ss R) as Room.
    assert (Ha : a < nf u) by (rewrite u5; lia).
    assert (FFa : face_free u a) by (apply Prop_; [exact Lt|apply FF; left; reflexivity]).
    pose proof (fast_face_step a u Du Fu Iu Ha FFa) as St. cbv zeta in St.
    destruct St as (Iv & Dv & Fv & v1 & v2 & v3 & v4 & (v6 & v7 & v8)).
    split; [exact Iv|]. repeat split; try congruence.
    + rewrite v4, u4, map_map, u5. apply map_ext. intros l. rewrite map_map. reflexivity.
    + unfold nf at 1. rewrite v3, fast_remove_length. fold (nf u). rewrite u5. cbn [length]. lia.
    + intros g Hg FFg. apply (face_free_after_fast a (nf u - 1) u); [apply Hg; left; reflexivity|lia| |].
      * apply Prop_; [intros f Hf; apply Hg; right; exact Hf|exact FFg].
      * intros c. unfold cell_at. rewrite v4. apply nth_map_map_tr2.
Qed.

(* ================================================================== the edge phase *)

Lemma edge_free_after_fast a l s s' g : g < a -> a <= l -> edge_free s g ->
  (forall f, face_at s' f = map (tr2 a l) (face_at s f)) -> edge_free s' g.
Proof.
  intros Hg Hal FF CA c hf Hhf. rewrite CA in Hhf. apply in_map_iff in Hhf. destruct Hhf as [y [<- Hy]]. pose proof (FF c y Hy) as Ny.
  destruct (tr2_spec a l y) as [Q _]. rewrite Q. unfold tr.
  destruct (Nat.eqb_spec (y / 2) a); [lia|]. destruct (Nat.eqb_spec (y / 2) l); lia.
Qed.

Theorem fast_edges_phase es : forall t, strictly_sorted es -> (forall e, In e es -> e < ne t) ->
  deferred t = false -> fast t = true -> shift_inv2 t -> (forall e, In e es -> edge_free t e) ->
  let u := del_desc delete_edge_core es t in
  shift_inv2 u /\ deferred u = false /\ fast u = true /\ nv u = nv t /\
  edges u = fast_remove_many (0, 0) es (edges t) /\ faces u = map (map (fren2 (ne t) es)) (faces t) /\ cells u = cells t /\ ne u = ne t - length es /\
  (vbu u = vbu t /\ ebu u = ebu t /\ fbu u = fbu t) /\
  (forall g, (forall e, In e es -> g < e) -> edge_free t g -> edge_free u g).
Proof.
  induction es as [|a es IH]; intros t Ss R D F I FF; cbv zeta.
  - unfold del_desc. cbn [rev fold_left length fast_remove_many fren2]. split; [exact I|]. repeat split; auto; try lia.
    rewrite <- (map_id (faces t)) at 1. apply map_ext. intros l. symmetry. apply map_id.
  - rewrite del_desc_cons. cbn [fast_remove_many].
    specialize (IH t (sorted_tail _ _ Ss) (fun f Hf => R f (or_intror Hf)) D F I (fun f Hf => FF f (or_intror Hf))). cbv zeta in IH.
    set (u := del_desc delete_edge_core es t) in *.
    destruct IH as (Iu & Du & Fu & u1 & u2 & u3 & u4 & u5 & (u6 & u7 & u8) & Prop_).
    assert (Lt : forall x, In x es -> a < x) by (apply strictly_sorted_lt; exact Ss).
    pose proof (sorted_room a es (ne t) Ss R) as Room.
    assert (Ha : a < ne u) by (rewrite u5; lia).
    assert (FFa : edge_free u a) by (apply Prop_; [exact Lt|apply FF; left; reflexivity]).
    pose proof (fast_edge_step a u Du Fu Iu Ha FFa) as St. cbv zeta in St.
    destruct St as (Iv & Dv & Fv & v1 & v2 & v3 & v4 & (v6 & v7 & v8)).
    split; [exact Iv|]. repeat split; try congruence.
    + rewrite v3, u3, map_map, u5. apply map_ext. intros l. rewrite map_map. reflexivity.
    + unfold ne at 1. rewrite v2, fast_remove_length. fold (ne u). rewrite u5. cbn [length]. lia.
    + intros g Hg FFg. apply (edge_free_after_fast a (ne u - 1) u); [apply Hg; left; reflexivity|lia| |].
      * apply Prop_; [intros f Hf; apply Hg; right; exact Hf|exact FFg].
      * intros c. unfold face_at. rewrite v3. apply nth_map_map_tr2.
Qed.

(* ================================================================== the public deletions *)

Theorem fast_delete_cell c s : deferred s = false -> fast s = true -> shift_inv2 s -> c < nc s ->
  let s' := delete_cell c s in
  shift_inv2 s' /\ deferred s' = false /\ fast s' = true /\
  nv s' = nv s /\ edges s' = edges s /\ faces s' = faces s /\ cells s' = fast_remove [] c (cells s).
Proof.
  intros D F I Hc. cbv zeta. unfold delete_cell. pose proof (fast_cell_step c s D F I Hc) as St. cbv zeta in St.
  destruct St as (a1 & a2 & a3 & a4 & a5 & a6 & a7 & _). exact (conj a1 (conj a2 (conj a3 (conj a4 (conj a5 (conj a6 a7)))))).
Qed.

Theorem fast_delete_face f s : deferred s = false -> fast s = true -> shift_inv2 s -> f < nf s ->
  let cs := cells_at_faces s [f] in
  let s' := delete_face f s in
  shift_inv2 s' /\ deferred s' = false /\ fast s' = true /\
  nv s' = nv s /\ edges s' = edges s /\ faces s' = fast_remove [] f (faces s) /\
  cells s' = map (map (tr2 f (nf s - 1))) (fast_remove_many [] cs (cells s)).
Proof.
  intros D F I Hf. cbv zeta. unfold delete_face. pose proof I as ((_ & _ & _ & FO & _) & _).
  rewrite (incident_cells_cache_is_scan s [f] FO) by (intros x [<-|[]]; exact Hf).
  pose proof (fast_cells_phase [f] s D F I) as P. cbv zeta in P. set (t := del_desc delete_cell_core (cells_at_faces s [f]) s) in *.
  destruct P as (It & Dt & Ft & t1 & t2 & t3 & t4 & t5 & _ & FFt).
  assert (Hft : f < nf t) by (unfold nf; rewrite t3; exact Hf).
  pose proof (fast_face_step f t Dt Ft It Hft (FFt f (or_introl eq_refl))) as St. cbv zeta in St.
  destruct St as (Iv & Dv & Fv & v1 & v2 & v3 & v4 & _).
  split; [exact Iv|]. repeat split; try congruence.
  rewrite v4, t4. unfold nf. rewrite t3. reflexivity.
Qed.

Theorem fast_delete_edge e s : deferred s = false -> fast s = true -> shift_inv2 s -> e < ne s ->
  let fs := faces_at_edges s [e] in let cs := cells_at_faces s fs in
  let s' := delete_edge e s in
  shift_inv2 s' /\ deferred s' = false /\ fast s' = true /\
  nv s' = nv s /\ edges s' = fast_remove (0, 0) e (edges s) /\
  faces s' = map (map (tr2 e (ne s - 1))) (fast_remove_many [] fs (faces s)) /\
  cells s' = map (map (fren2 (nf s) fs)) (fast_remove_many [] cs (cells s)).
Proof.
  intros D F I He. cbv zeta. unfold delete_edge. pose proof I as ((NF & _ & EO & FO & _) & _).
  rewrite (incident_faces_cache_is_scan s [e] EO) by (intros x [<-|[]]; exact He).
  set (fs := faces_at_edges s [e]).
  rewrite (incident_cells_cache_is_scan s fs FO) by (intros x Hx; exact (In_faces_at_edges_lt s [e] x Hx)).
  pose proof (fast_cells_phase fs s D F I) as P. cbv zeta in P. set (t := del_desc delete_cell_core (cells_at_faces s fs) s) in *.
  destruct P as (It & Dt & Ft & t1 & t2 & t3 & t4 & t5 & _ & FFt).
  assert (Sfs : strictly_sorted fs) by (apply strictly_sorted_filter, sorted_live_faces).
  assert (Rfs0 : forall f, In f fs -> f < length (faces s)) by (intros f Hf; exact (In_faces_at_edges_lt s [e] f Hf)).
  assert (Rfs : forall f, In f fs -> f < nf t) by (intros f Hf; unfold nf; rewrite t3; exact (Rfs0 f Hf)).
  pose proof (fast_faces_phase fs t Sfs Rfs Dt Ft It FFt) as Q. cbv zeta in Q. set (u := del_desc delete_face_core fs t) in *.
  destruct Q as (Iu & Du & Fu & u1 & u2 & u3 & u4 & u5 & _ & _).
  assert (K : faces u = fast_remove_many [] fs (faces s)) by (rewrite u3, t3; reflexivity).
  assert (FFe : edge_free u e).
  { intros f he Hhe Ee. destruct (Nat.lt_ge_cases f (nf u)) as [Hf|Hf]; [|unfold face_at in Hhe; rewrite nth_overflow in Hhe by exact Hf; destruct Hhe].
    assert (J : In (face_at u f) (fast_remove_many [] fs (faces s))) by (rewrite <- K; apply nth_In; exact Hf).
    apply (In_fast_remove_many [] fs (faces s) _ Sfs Rfs0) in J. destruct J as [i (Hi & Hn & Ei)]. apply Hn. apply (faces_at_edges_spec s [e] i NF). split; [exact Hi|].
    exists he. split; [unfold face_at at 1; rewrite Ei; exact Hhe|left; symmetry; exact Ee]. }
  assert (Heu : e < ne u) by (unfold ne; rewrite u2, t2; exact He).
  pose proof (fast_edge_step e u Du Fu Iu Heu FFe) as St. cbv zeta in St.
  destruct St as (Iv & Dv & Fv & v1 & v2 & v3 & v4 & _).
  assert (NEu : ne u = ne s) by (unfold ne; rewrite u2, t2; reflexivity).
  assert (NFt : nf t = nf s) by (unfold nf; rewrite t3; reflexivity).
  split; [exact Iv|]. repeat split; try congruence.
  all: first [rewrite v3, K, NEu; reflexivity | rewrite v4, u4, t4, NFt; reflexivity].
Qed.

Theorem fast_delete_vertex v s : deferred s = false -> fast s = true -> shift_inv2 s -> v < nv s ->
  let es := edges_at_vertex s v in let fs := faces_at_edges s es in let cs := cells_at_faces s fs in
  let s' := delete_vertex v s in
  shift_inv2 s' /\ deferred s' = false /\ fast s' = true /\
  nv s' = nv s - 1 /\ edges s' = map (trp v (nv s - 1)) (fast_remove_many (0, 0) es (edges s)) /\
  faces s' = map (map (fren2 (ne s) es)) (fast_remove_many [] fs (faces s)) /\
  cells s' = map (map (fren2 (nf s) fs)) (fast_remove_many [] cs (cells s)).
Proof.
  intros D F I Hv. cbv zeta. unfold delete_vertex. pose proof I as ((NF & VO & EO & FO & _) & _).
  rewrite (incident_edges_cache_is_scan s v VO Hv). set (es := edges_at_vertex s v).
  rewrite (incident_faces_cache_is_scan s es EO) by (intros x Hx; exact (In_edges_at_vertex_lt s v x Hx)).
  set (fs := faces_at_edges s es).
  rewrite (incident_cells_cache_is_scan s fs FO) by (intros x Hx; exact (In_faces_at_edges_lt s es x Hx)).
  pose proof (fast_cells_phase fs s D F I) as P. cbv zeta in P. set (t := del_desc delete_cell_core (cells_at_faces s fs) s) in *.
  destruct P as (It & Dt & Ft & t1 & t2 & t3 & t4 & t5 & _ & FFt).
  assert (Sfs : strictly_sorted fs) by (apply strictly_sorted_filter, sorted_live_faces).
  assert (Rfs0 : forall f, In f fs -> f < length (faces s)) by (intros f Hf; exact (In_faces_at_edges_lt s es f Hf)).
  assert (Rfs : forall f, In f fs -> f < nf t) by (intros f Hf; unfold nf; rewrite t3; exact (Rfs0 f Hf)).
  pose proof (fast_faces_phase fs t Sfs Rfs Dt Ft It FFt) as Q. cbv zeta in Q. set (u := del_desc delete_face_core fs t) in *.
  destruct Q as (Iu & Du & Fu & u1 & u2 & u3 & u4 & u5 & _ & _).
  assert (K : faces u = fast_remove_many [] fs (faces s)) by (rewrite u3, t3; reflexivity).
  assert (Ses : strictly_sorted es) by (apply strictly_sorted_filter, sorted_live_edges).
  assert (Res0 : forall e, In e es -> e < length (edges s)) by (intros e He; exact (In_edges_at_vertex_lt s v e He)).
  assert (Res : forall e, In e es -> e < ne u) by (intros e He; unfold ne; rewrite u2, t2; exact (Res0 e He)).
  assert (FFe : forall e, In e es -> edge_free u e).
  { intros e He f he Hhe Ee. destruct (Nat.lt_ge_cases f (nf u)) as [Hf|Hf]; [|unfold face_at in Hhe; rewrite nth_overflow in Hhe by exact Hf; destruct Hhe].
    assert (J : In (face_at u f) (fast_remove_many [] fs (faces s))) by (rewrite <- K; apply nth_In; exact Hf).
    apply (In_fast_remove_many [] fs (faces s) _ Sfs Rfs0) in J. destruct J as [i (Hi & Hn & Ei)]. apply Hn. apply (faces_at_edges_spec s es i NF). split; [exact Hi|].
    exists he. split; [unfold face_at at 1; rewrite Ei; exact Hhe|rewrite Ee; exact He]. }
  pose proof (fast_edges_phase es u Ses Res Du Fu Iu FFe) as W. cbv zeta in W. set (w := del_desc delete_edge_core es u) in *.
  destruct W as (Iw & Dw & Fw & x1 & x2 & x3 & x4 & x5 & _ & _).
  assert (Ke : edges w = fast_remove_many (0, 0) es (edges s)) by (rewrite x2, u2, t2; reflexivity).
  assert (VF : vertex_free w v).
  { intros e He. assert (J : In (edge_at w e) (fast_remove_many (0, 0) es (edges s))) by (rewrite <- Ke; apply nth_In; exact He).
    apply (In_fast_remove_many (0, 0) es (edges s) _ Ses Res0) in J. destruct J as [i (Hi & Hn & Ei)]. rewrite <- Ei. fold (edge_at s i).
    split; intros E; apply Hn; apply (edges_at_vertex_spec s v i NF); (split; [exact Hi|]); [left|right]; exact E. }
  assert (Hvw : v < nv w) by congruence.
  pose proof (fast_vertex_step v w Dw Fw Iw Hvw VF) as St. cbv zeta in St.
  destruct St as (Iv & Dv & Fv & v1 & v2 & v3 & v4 & _).
  assert (NVw : nv w = nv s) by congruence.
  assert (NEu : ne u = ne s) by (unfold ne; rewrite u2, t2; reflexivity).
  assert (NFt : nf t = nf s) by (unfold nf; rewrite t3; reflexivity).
  split; [exact Iv|]. repeat split; try congruence.
  all: first [rewrite v2, Ke, NVw; reflexivity | rewrite v3, x3, K, NEu; reflexivity | rewrite v4, x4, u4, t4, NFt; reflexivity].
Qed.

(* the result depends on the definitions only: two states with the same definitions (whatever incidences they keep) lead to the same
   definitions -- the cache-guided and the scan variants of every loop involved agree *)
Theorem fast_delete_vertex_incidence_independent v s t : deferred s = false -> fast s = true -> shift_inv2 s ->
  deferred t = false -> fast t = true -> shift_inv2 t -> v < nv s ->
  nv t = nv s -> edges t = edges s -> faces t = faces s -> cells t = cells s ->
  let s' := delete_vertex v s in let t' := delete_vertex v t in
  nv t' = nv s' /\ edges t' = edges s' /\ faces t' = faces s' /\ cells t' = cells s'.
Proof.
  intros D F I D' F' I' Hv e0 e1 e2 e3. cbv zeta.
  pose proof (fast_delete_vertex v s D F I Hv) as P. pose proof (fast_delete_vertex v t D' F' I' ltac:(rewrite e0; exact Hv)) as Q.
  cbv zeta in P, Q. destruct P as (_ & _ & _ & p1 & p2 & p3 & p4). destruct Q as (_ & _ & _ & q1 & q2 & q3 & q4).
  destruct (closure_same_defs s t v (proj1 (proj1 I)) (proj1 (proj1 I')) e1 e2 e3) as (c1 & c2 & c3).
  unfold ne, nf in *. rewrite p1, p2, p3, p4, q1, q2, q3, q4, c1, !c2, !c3, e0, e1, e2, e3. repeat split.
Qed.
