(* Kernel3/GcFastMain.v -- C04, FAST mode (fast s = true): collect_garbage renumbers the live entities.
   In fast mode every deletion core first exchanges the victim with the LAST slot of its kind and then pops the last slot, so the
   survivors are NOT kept in order: there are renumbering maps rv re rf rc, bijections from the live old indices of each kind onto
   [0, number of live ones), such that every live edge / face / cell is found at its new index with its definition renamed through
   the maps, and every property value (vertex, edge, halfedge, face, halfface, cell) moved with its entity; nothing is pending
   afterwards and the invariant ginv holds again.
   Proof: Kernel3/GcFast{Base,FaceSwap,Face,Edge,Vertex,CellSwap,Cell}.v (one step of each pass, on states WITH pending flags),
   Kernel3/GcFastRen.v + GcFastPass{CF,EV}.v (the passes), Kernel3/GcFastChain.v (the four passes chained). *)
From Coq Require Import ZArith Lia Bool Arith List ZifyNat ZifyBool.
From OVM Require Import Base.ListX Base.ListLemmas Kernel.State Kernel.Ops Kernel.ExactInv Kernel.SwapInvol Kernel.PropLaws Kernel.Sizes
                        Kernel.GcFacts Kernel.ShiftFace
                        Kernel3.FastDefs Kernel3.FastBase Kernel3.GcDefs Kernel3.GcList Kernel3.GcInv Kernel3.GcMain
                        Kernel3.GcFastBase Kernel3.GcFastRen Kernel3.GcFastPassCF Kernel3.GcFastPassEV Kernel3.GcFastChain.
Import ListNotations.
Ltac Zify.zify_post_hook ::= Z.div_mod_to_equations.
Local Open Scope nat_scope.

(* ================================================================== the stage states differ from the pass results in counters / modes only *)

Lemma cell_pass_post_modes d s t r : cell_pass_post (set_flags (vbu s) (ebu s) (fbu s) d (fast s) s) t r -> cell_pass_post s t r.
Proof. intros H. exact H. Qed.
Lemma face_pass_post_counts a b c d s t r : face_pass_post (set_counts a b c d s) t r -> face_pass_post s t r.
Proof. intros H. exact H. Qed.
Lemma edge_pass_post_counts a b c d s t r : edge_pass_post (set_counts a b c d s) t r -> edge_pass_post s t r.
Proof. intros H. exact H. Qed.
Lemma vertex_pass_post_counts a b c d s t r : vertex_pass_post (set_counts a b c d s) t r -> vertex_pass_post s t r.
Proof. intros H. exact H. Qed.

Lemma sized_set_counts a b c d s : sized s -> sized (set_counts a b c d s).
Proof. intros H. apply szd_sized, szd_set_counts, szd_sized. exact H. Qed.
Lemma sized_set_flags a b c d e s : sized s -> sized (set_flags a b c d e s).
Proof. intros H. apply szd_sized, szd_set_flags, szd_sized. exact H. Qed.

Lemma no_cflags_set_counts a b c d s : no_cflags s -> no_cflags (set_counts a b c d s).
Proof. intros H. exact H. Qed.
Lemma no_fflags_set_counts a b c d s : no_fflags s -> no_fflags (set_counts a b c d s).
Proof. intros H. exact H. Qed.
Lemma no_eflags_set_counts a b c d s : no_eflags s -> no_eflags (set_counts a b c d s).
Proof. intros H. exact H. Qed.
Lemma no_flags_set a b c d x y z m f s : no_flags s -> no_flags (set_flags x y z m f (set_counts a b c d s)).
Proof. intros H. exact H. Qed.
(* ================================================================== something pending: the four passes *)

Theorem collect_garbage_fast_pending s : gc_ready s -> sized s -> fast s = true -> needs_gc s = true ->
  let t := collect_garbage s in
  exists rv re rf rc, gc_fast_post s t rv re rf rc /\ no_flags t /\ deferred t = true /\ fast t = true /\ ginv t /\ sized t.
Proof.
  intros (Dd & _ & I) Z F G. cbv zeta.
  destruct (collect_garbage_stages s Dd G) as (p1 & p2 & p3 & p4 & St). cbv zeta in St. destruct St as (E1 & E2 & E3 & E4 & ->).
  (* ---- cells *)
  set (s0 := set_flags (vbu s) (ebu s) (fbu s) false (fast s) s) in *.
  assert (I0 : ginv s0) by (apply ginv_set_modes; exact I).
  assert (Z0 : sized s0) by (apply sized_set_flags; exact Z).
  assert (H1 : forall i, nc s0 <= i -> c_deleted s0 i = false).
  { intros i Hi. apply flag_beyond. change (length (cdel s) <= i). rewrite (ginv_len_cdel s I). exact Hi. }
  destruct (gcfast_cell_pass (nc s0) s0 eq_refl F I0 Z0 (le_n _) H1) as [rc P1]. rewrite <- E1 in P1.
  apply cell_pass_post_modes in P1. clear E1 H1 I0 Z0. clearbody s0.
  pose proof P1 as (J1 & D1 & F1 & Z1 & NC1 & _).
  (* ---- faces *)
  set (s1 := set_counts (ndv p1) (nde p1) (ndf p1) 0 p1) in *.
  assert (I1' : ginv s1) by (apply ginv_set_counts; exact J1).
  assert (Z1' : sized s1) by (apply sized_set_counts; exact Z1).
  assert (NC1' : no_cflags s1) by (apply no_cflags_set_counts; exact NC1).
  assert (H2 : forall i, nf s1 <= i -> f_deleted s1 i = false).
  { intros i Hi. apply flag_beyond. change (length (fdel p1) <= i). rewrite (ginv_len_fdel p1 J1). exact Hi. }
  destruct (gcfast_face_pass (nf s1) s1 D1 F1 I1' Z1' NC1' (le_n _) H2) as [rf P2]. rewrite <- E2 in P2.
  apply face_pass_post_counts in P2. clear E2 H2 I1' Z1' NC1'. clearbody s1.
  pose proof P2 as (J2 & D2 & F2 & Z2 & NC2 & NF2 & _).
  (* ---- edges *)
  set (s2 := set_counts (ndv p2) (nde p2) 0 (ndc p2) p2) in *.
  assert (I2' : ginv s2) by (apply ginv_set_counts; exact J2).
  assert (Z2' : sized s2) by (apply sized_set_counts; exact Z2).
  assert (NF2' : no_fflags s2) by (apply no_fflags_set_counts; exact NF2).
  assert (H3 : forall i, ne s2 <= i -> e_deleted s2 i = false).
  { intros i Hi. apply flag_beyond. change (length (edel p2) <= i). rewrite (ginv_len_edel p2 J2). exact Hi. }
  destruct (gcfast_edge_pass (ne s2) s2 D2 F2 I2' Z2' NF2' (le_n _) H3) as [re P3]. rewrite <- E3 in P3.
  apply edge_pass_post_counts in P3. clear E3 H3 I2' Z2' NF2'. clearbody s2.
  pose proof P3 as (J3 & D3 & F3 & Z3 & NF3 & NE3 & _ & _ & _ & _ & _ & cd3 & _).
  (* ---- vertices *)
  set (s3 := set_counts (ndv p3) 0 (ndf p3) (ndc p3) p3) in *.
  assert (I3' : ginv s3) by (apply ginv_set_counts; exact J3).
  assert (Z3' : sized s3) by (apply sized_set_counts; exact Z3).
  assert (NE3' : no_eflags s3) by (apply no_eflags_set_counts; exact NE3).
  assert (NF3' : no_fflags s3) by (apply no_fflags_set_counts; exact NF3).
  assert (NC3' : no_cflags s3).
  { apply no_cflags_set_counts. intros i. unfold c_deleted. rewrite cd3. exact (NC2 i). }
  assert (H4 : forall i, nv s3 <= i -> v_deleted s3 i = false).
  { intros i Hi. apply flag_beyond. change (length (vdel p3) <= i). rewrite (ginv_len_vdel p3 J3). exact Hi. }
  destruct (gcfast_vertex_pass (nv s3) s3 D3 F3 I3' Z3' NE3' NF3' NC3' (le_n _) H4) as [rv P4]. rewrite <- E4 in P4.
  apply vertex_pass_post_counts in P4. clear E4 H4 I3' Z3' NE3' NF3' NC3'. clearbody s3.
  (* ---- the result *)
  exists rv, re, rf, rc.
  pose proof (chain_post s p1 p2 p3 p4 rv re rf rc P1 P2 P3 P4) as Po.
  destruct (chain_flags p3 p4 rv P4) as (J4 & D4 & F4 & Z4 & NFl4).
  split; [apply gc_fast_post_set; exact Po|]. split; [apply no_flags_set; exact NFl4|]. split; [reflexivity|]. split; [exact F4|].
  split; [apply ginv_set_modes; apply ginv_set_counts; exact J4|apply sized_set_flags; apply sized_set_counts; exact Z4].
Qed.

(* ================================================================== the main theorem *)

Theorem collect_garbage_fast_post s : gc_ready s -> sized s -> fast s = true ->
  let t := collect_garbage s in
  exists rv re rf rc, gc_fast_post s t rv re rf rc /\ no_flags t /\ needs_gc t = false /\ deferred t = true /\ fast t = true /\ ginv t /\ sized t.
Proof.
  intros R Z F. cbv zeta. pose proof R as (Dd & P & I).
  pose proof (collect_garbage_counters_and_mode s Dd) as CM. cbv zeta in CM. destruct CM as (_ & _ & _ & _ & NG & _).
  destruct (needs_gc s) eqn:G.
  - destruct (collect_garbage_fast_pending s R Z F G) as (rv & re & rf & rc & A & B & C & E & H & K).
    exists rv, re, rf, rc. exact (conj A (conj B (conj NG (conj C (conj E (conj H K)))))).
  - rewrite (collect_garbage_noop_when_nothing_pending s G) in *.
    exists (fun i => i), (fun i => i), (fun i => i), (fun i => i).
    split; [apply gc_fast_post_refl; apply P; exact G|]. split; [apply P; exact G|].
    exact (conj NG (conj Dd (conj F (conj I Z)))).
Qed.

(* the same, written out *)
Theorem collect_garbage_fast_renumbers s : gc_ready s -> sized s -> fast s = true ->
  let t := collect_garbage s in
  exists rv re rf rc : nat -> nat,
    (* bijections from the live old indices onto [0, live count) *)
    nv t = length (live_vertices s) /\ ne t = length (live_edges s) /\ nf t = length (live_faces s) /\ nc t = length (live_cells s) /\
    ((forall i, live_v s i = true -> rv i < nv t) /\ (forall i j, live_v s i = true -> live_v s j = true -> rv i = rv j -> i = j)) /\
    ((forall i, live_e s i = true -> re i < ne t) /\ (forall i j, live_e s i = true -> live_e s j = true -> re i = re j -> i = j)) /\
    ((forall i, live_f s i = true -> rf i < nf t) /\ (forall i j, live_f s i = true -> live_f s j = true -> rf i = rf j -> i = j)) /\
    ((forall i, live_c s i = true -> rc i < nc t) /\ (forall i j, live_c s i = true -> live_c s j = true -> rc i = rc j -> i = j)) /\
    (* definitions: the old live ones renamed *)
    (forall e, live_e s e = true -> edge_at t (re e) = (rv (fst (edge_at s e)), rv (snd (edge_at s e)))) /\
    (forall f, live_f s f = true -> face_at t (rf f) = map (r2 re) (face_at s f)) /\
    (forall c, live_c s c = true -> cell_at t (rc c) = map (r2 rf) (cell_at s c)) /\
    (* property values move with their entity (j: an existing property array; pd: any default for nth) *)
    (length (pv t) = length (pv s) /\
     forall j i pd, j < length (pv s) -> live_v s i = true -> pval (nth j (pv t) pd) (rv i) = pval (nth j (pv s) pd) i) /\
    (length (pe t) = length (pe s) /\
     forall j i pd, j < length (pe s) -> live_e s i = true -> pval (nth j (pe t) pd) (re i) = pval (nth j (pe s) pd) i) /\
    (length (phe t) = length (phe s) /\
     forall j h pd, j < length (phe s) -> live_he s h = true -> pval (nth j (phe t) pd) (r2 re h) = pval (nth j (phe s) pd) h) /\
    (length (pf t) = length (pf s) /\
     forall j i pd, j < length (pf s) -> live_f s i = true -> pval (nth j (pf t) pd) (rf i) = pval (nth j (pf s) pd) i) /\
    (length (phf t) = length (phf s) /\
     forall j h pd, j < length (phf s) -> live_hf s h = true -> pval (nth j (phf t) pd) (r2 rf h) = pval (nth j (phf s) pd) h) /\
    (length (pc t) = length (pc s) /\
     forall j i pd, j < length (pc s) -> live_c s i = true -> pval (nth j (pc t) pd) (rc i) = pval (nth j (pc s) pd) i) /\
    pm t = pm s /\
    no_flags t /\ needs_gc t = false /\ deferred t = true /\ fast t = true /\ ginv t.
Proof.
  intros R Z F. cbv zeta. destruct (collect_garbage_fast_post s R Z F) as (rv & re & rf & rc & A & B & C & D & E & H & _).
  exists rv, re, rf, rc. unfold gc_fast_post in A.
  destruct A as (a1 & a2 & a3 & a4 & a5 & a6 & a7 & a8 & a9 & a10 & a11 & a12 & a13 & a14 & a15 & a16 & a17 & a18).
  exact (conj a1 (conj a2 (conj a3 (conj a4 (conj a5 (conj a6 (conj a7 (conj a8 (conj a9 (conj a10 (conj a11 (conj a12 (conj a13
         (conj a14 (conj a15 (conj a16 (conj a17 (conj a18 (conj B (conj C (conj D (conj E H)))))))))))))))))))))).
Qed.

(* gc_ready holds again: the collection can be repeated / deferred deletion can go on *)
Corollary collect_garbage_fast_ready s : gc_ready s -> sized s -> fast s = true -> gc_ready (collect_garbage s) /\ sized (collect_garbage s).
Proof.
  intros R Z F. destruct (collect_garbage_fast_post s R Z F) as (rv & re & rf & rc & _ & B & _ & D & _ & H & K).
  split; [|exact K]. split; [exact D|]. split; [intros _; exact B|exact H].
Qed.

(* ================================================================== non-vacuity: a concrete state *)

(* three tetrahedra, a dangling edge, properties of six kinds; one vertex, one face and one edge deleted in deferred FAST mode:
   1 vertex, 4 edges, 4 faces and 2 cells are flagged *)
Definition gcfast_example_ops : list op :=
  [EnableFast true; AddVertices 7;
   AddFaceV [0; 1; 2]; AddFaceV [0; 2; 3]; AddFaceV [0; 3; 1]; AddFaceV [1; 3; 2]; AddCell [0; 2; 4; 6] true;
   AddFaceV [1; 2; 4]; AddFaceV [2; 3; 4]; AddFaceV [3; 1; 4]; AddCell [7; 9; 11; 13] true;
   AddFaceV [2; 1; 5]; AddFaceV [4; 2; 5]; AddFaceV [1; 4; 5]; AddCell [8; 14; 16; 18] true;
   AddEdge 5 6 false;
   PropCreate KV 7%Z; PropSet KV 0 4 9%Z; PropSet KV 0 5 11%Z; PropCreate KHE 1%Z; PropSet KHE 0 7 5%Z; PropSet KHE 0 20 6%Z;
   PropCreate KF 2%Z; PropSet KF 0 4 8%Z; PropCreate KHF 0%Z; PropSet KHF 0 9 3%Z; PropCreate KC 4%Z; PropSet KC 0 1 12%Z;
   PropCreate KE 0%Z; PropSet KE 0 10 13%Z;
   DelVertex 0; DelFace 9; DelEdge 12].
Definition gcfast_example : mesh := run gcfast_example_ops.

Example gcfast_example_hypotheses : gc_ready gcfast_example /\ sized gcfast_example /\ fast gcfast_example = true.
Proof.
  split; [apply gc_ready_b_sound; vm_compute; reflexivity|]. split; [apply sized_reachable|vm_compute; reflexivity].
Qed.

Example gcfast_example_facts :
  gc_ready_b gcfast_example = true /\ fast gcfast_example = true /\ needs_gc gcfast_example = true /\
  (vdel gcfast_example = [true; false; false; false; false; false; false] /\
   edel gcfast_example = [true; false; true; false; true; false; false; false; false; false; false; false; true] /\
   fdel gcfast_example = [true; true; true; false; false; false; false; false; false; true] /\ cdel gcfast_example = [true; false; true]) /\
  (let t := collect_garbage gcfast_example in
   nv t = 6 /\
   (* the survivors are NOT in their old order: vertex 6 took slot 0, edge 9 slot 0, edge 10 slot 2, edge 11 slot 4, ... *)
   edges t = [(1, 5); (1, 2); (5, 2); (2, 3); (5, 4); (3, 1); (2, 4); (4, 1); (3, 4)] /\
   faces t = [[10; 15; 17]; [3; 0; 4]; [13; 5; 8]; [11; 7; 3]; [2; 12; 14]; [6; 16; 13]] /\
   cells t = [[7; 9; 11; 1]] /\
   edges t <> logical_edges gcfast_example /\
   map pdata (pv t) = [[7; 7; 7; 7; 9; 11]%Z] /\ map pdata (pe t) = [[0; 0; 13; 0; 0; 0; 0; 0; 0]%Z] /\
   map pdata (pf t) = [[2; 2; 2; 2; 8; 2]%Z] /\ map pdata (pc t) = [[12]%Z] /\
   gc_ready_b t = true /\ needs_gc t = false).
Proof. vm_compute. repeat split; try reflexivity. intros H. discriminate H. Qed.

(* the concrete renumbering of the vertices of the example: vertex 6 moves to the slot of the deleted vertex 0 *)
Example gcfast_example_vertex_map : let s := gcfast_example in let t := collect_garbage s in
  let rv := fun i => if i =? 6 then 0 else i in
  forallb (fun i => negb (live_v s i) || ((rv i <? nv t) &&
     forallb (fun e => negb (live_e s e) || negb ((fst (edge_at s e) =? i) || (snd (edge_at s e) =? i)) ||
                      existsb (fun e' => ((fst (edge_at t e') =? rv (fst (edge_at s e))) && (snd (edge_at t e') =? rv (snd (edge_at s e))))) (seq 0 (ne t)))
             (seq 0 (ne s)))) (seq 0 (nv s)) = true.
Proof. vm_compute. reflexivity. Qed.

(* The property-value conjuncts are stated for EXISTING property arrays (j < length).  Without that restriction they are false
   for a trivial reason (nth returns the arbitrary default pd on both sides, and pval pd (rv i) = pval pd i fails as soon as a live
   vertex moves): *)
Example collect_garbage_fast_props_unrestricted_refuted : exists s, gc_ready s /\ sized s /\ fast s = true /\
  forall rv : nat -> nat, (forall i, live_v s i = true -> rv i < nv (collect_garbage s)) ->
  ~ (forall j i pd, live_v s i = true -> pval (nth j (pv (collect_garbage s)) pd) (rv i) = pval (nth j (pv s) pd) i).
Proof.
  exists gcfast_example. destruct gcfast_example_hypotheses as (R & Z & F). split; [exact R|]. split; [exact Z|]. split; [exact F|].
  intros rv B H. assert (L6 : live_v gcfast_example 6 = true) by (vm_compute; reflexivity).
  specialize (B 6 L6). specialize (H 5 6 {| pdef := 0%Z; pdata := [0; 0; 0; 0; 0; 0; 1]%Z |} L6).
  assert (N : nv (collect_garbage gcfast_example) = 6) by (vm_compute; reflexivity). rewrite N in B.
  assert (E1 : nth 5 (pv (collect_garbage gcfast_example)) {| pdef := 0%Z; pdata := [0; 0; 0; 0; 0; 0; 1]%Z |} = {| pdef := 0%Z; pdata := [0; 0; 0; 0; 0; 0; 1]%Z |})
    by (vm_compute; reflexivity).
  assert (E2 : nth 5 (pv gcfast_example) {| pdef := 0%Z; pdata := [0; 0; 0; 0; 0; 0; 1]%Z |} = {| pdef := 0%Z; pdata := [0; 0; 0; 0; 0; 0; 1]%Z |})
    by (vm_compute; reflexivity).
  rewrite E1, E2 in H. unfold pval in H. cbn [pdata pdef] in H.
  destruct (rv 6) as [|[|[|[|[|[|k]]]]]]; try discriminate H. lia.
Qed.
