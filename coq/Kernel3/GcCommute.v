(* Kernel3/GcCommute.v -- C04, NON-FAST mode: a deferred deletion commutes with collection, hence
     collect_garbage (delete_x x d)  =  delete_x (rank x) (collect_garbage d taken to immediate mode)      (as meshes)
   for ANY state d with pending deletions that satisfies the hypothesis of the collection theorem (not only flag-free ones),
   x live.  Ingredients: gc_ready survives a deferred public deletion (any incidences); the brute-force closure of rank x in the
   collected mesh is the image of the closure of x under the rank maps; Kernel3/GcTwoStage.v; Kernel3/GcDeferredAny.v. *)
From Coq Require Import ZArith Lia Bool Arith List ZifyNat ZifyBool Permutation.
From OVM Require Import Base.ListX Base.ListLemmas Kernel.State Kernel.Ops Kernel.Mirror Kernel.Recompute Kernel.Closure Kernel.ExactInv
                        Kernel.DeferredDelete Kernel.SwapInvol Kernel.Sizes
                        Kernel2.LookupModel Kernel2.ListAux Kernel2.AdjacentProofs Kernel2.ReorderExact Kernel2.ExactBase Kernel2.ExactDeletions
                        Kernel.ShiftFace Kernel.ShiftEdge Kernel.ShiftVertex Kernel.ShiftCompose
                        Kernel3.GcDefs Kernel3.GcList Kernel3.GcInv Kernel3.GcMain Kernel3.GcDeferred Kernel3.GcEquiv Kernel3.GcDeferredAny
                        Kernel3.GcTrack Kernel3.GcTwoStage.
Import ListNotations.
Ltac Zify.zify_post_hook ::= Z.div_mod_to_equations.
Local Open Scope nat_scope.

(* ================================================================== gc_ready survives a deferred public deletion *)

Lemma ginv_flag_lens s : ginv s -> flag_lens s.
Proof. intros ((_ & _ & _ & _ & (_ & _ & _ & L4 & L5 & L6)) & LV & _). exact (conj LV (conj L4 (conj L5 L6))). Qed.

Lemma ready_hinv s : gc_ready s -> faces_simple s -> ebu s = true -> fbu s = true -> hinv s.
Proof.
  intros (D & _ & I) FS E Fb. pose proof (ginv_cells_ref_live s I) as CL. destruct I as (B & LV & U & X). destruct (X E Fb) as [SN LC].
  split; [|exact (conj U LV)]. split; [exact B|]. split; [exact E|]. split; [exact Fb|]. split; [exact D|]. split; [exact SN|]. split; [exact CL|exact (conj LC FS)].
Qed.

Lemma ready_ninv s : gc_ready s -> ebu s && fbu s = false -> ninv s.
Proof. intros (D & _ & (B & _)) N. exact (conj D (conj N B)). Qed.

Lemma faces_simple_dstep s s' a b c d : dstep s s' a b c d -> length (fdel s) = nf s -> faces_simple s -> faces_simple s'.
Proof.
  intros (_&_&x3&_&_&_&x7&_) L FS f Hf Hd. unfold nf, f_deleted, face_at in *. rewrite x3 in *. rewrite x7 in Hd.
  apply flag_read in Hd; [|rewrite L; exact Hf]. exact (FS f Hf (proj1 Hd)).
Qed.

Section ReadyAfter.
Context (s : mesh) (R : gc_ready s) (FS : faces_simple s).

Lemma ready_after_dstep d dv de df dc : dstep s d dv de df dc -> closure_ok s dv de df dc -> ninv d \/ hinv d ->
  0 < length dv + length de + length df + length dc -> gc_ready d /\ faces_simple d.
Proof.
  intros DS C Nd P. pose proof R as (D & _ & I). pose proof (ginv_flag_lens s I) as FL. pose proof I as ((_ & _ & _ & Rf & _) & _ & U & _).
  destruct (up_closed_dstep _ _ _ _ _ _ DS FL Rf U C) as [U' (LV' & _)].
  split; [|exact (faces_simple_dstep _ _ _ _ _ _ DS (proj1 (proj2 (proj2 FL))) FS)].
  destruct Nd as [Nd|Hd].
  - split; [exact (proj1 Nd)|]. split; [intros G; rewrite (dstep_pending _ _ _ _ _ _ DS P) in G; discriminate|apply ninv_ginv; assumption].
  - apply hinv_pending_ready; [exact Hd|exact (dstep_pending _ _ _ _ _ _ DS P)].
Qed.

Lemma base_ok : deferred s = true /\ vbu_ok s /\ ebu_ok s /\ fbu_ok s.
Proof. destruct R as (D & _ & ((VO & EO & FO & _) & _)). auto. Qed.

Theorem ready_after_delete_vertex v : v < nv s -> gc_ready (delete_vertex v s) /\ faces_simple (delete_vertex v s).
Proof.
  intros Hv. destruct base_ok as (D & VO & EO & FO).
  apply (ready_after_dstep _ _ _ _ _ (dstep_delete_vertex s v D VO EO FO Hv) (closure_ok_vertex s v)); [|cbn [length]; lia].
  destruct (ebu s && fbu s) eqn:N.
  - apply andb_true_iff in N. destruct N as [E Fb]. right. exact (proj1 (hinv_delete_vertex v s (ready_hinv s R FS E Fb) Hv)).
  - left. apply ninv_delete_vertex; [exact (ready_ninv s R N)|exact Hv].
Qed.
Theorem ready_after_delete_edge e : e < ne s -> e_deleted s e = false -> gc_ready (delete_edge e s) /\ faces_simple (delete_edge e s).
Proof.
  intros He Hl. destruct base_ok as (D & VO & EO & FO).
  apply (ready_after_dstep _ _ _ _ _ (dstep_delete_edge s e D EO FO He) (closure_ok_edge s e)); [|cbn [length]; lia].
  destruct (ebu s && fbu s) eqn:N.
  - apply andb_true_iff in N. destruct N as [E Fb]. right. exact (proj1 (hinv_delete_edge e s (ready_hinv s R FS E Fb) He Hl)).
  - left. apply ninv_delete_edge; [exact (ready_ninv s R N)|exact He|exact Hl].
Qed.
Theorem ready_after_delete_face f : f < nf s -> f_deleted s f = false -> gc_ready (delete_face f s) /\ faces_simple (delete_face f s).
Proof.
  intros Hf Hl. destruct base_ok as (D & VO & EO & FO).
  apply (ready_after_dstep _ _ _ _ _ (dstep_delete_face s f D FO Hf) (closure_ok_face s f)); [|cbn [length]; lia].
  destruct (ebu s && fbu s) eqn:N.
  - apply andb_true_iff in N. destruct N as [E Fb]. right. exact (proj1 (hinv_delete_face f s (ready_hinv s R FS E Fb) Hf Hl)).
  - left. apply ninv_delete_face; [exact (ready_ninv s R N)|exact Hf|exact Hl].
Qed.
Theorem ready_after_delete_cell c : c < nc s -> c_deleted s c = false -> gc_ready (delete_cell c s) /\ faces_simple (delete_cell c s).
Proof.
  intros Hc Hl. destruct base_ok as (D & VO & EO & FO).
  apply (ready_after_dstep _ _ _ _ _ (delete_cell_deferred c s D) (closure_ok_cell s c)); [|cbn [length]; lia].
  destruct (ebu s && fbu s) eqn:N.
  - apply andb_true_iff in N. destruct N as [E Fb]. right. exact (proj1 (hinv_delete_cell c s (ready_hinv s R FS E Fb) Hc Hl)).
  - left. apply ninv_delete_cell; [exact (ready_ninv s R N)|exact Hc|exact Hl].
Qed.
End ReadyAfter.

(* ================================================================== flags after flagging, through compact *)

Lemma flags_incl_flag_all L l : flags_incl l (flag_all L l).
Proof.
  intros i H. destruct (Nat.lt_ge_cases i (length l)) as [Hi|Hi]; [|rewrite nth_overflow in H by exact Hi; discriminate].
  rewrite nth_flag_all by exact Hi. rewrite H. reflexivity.
Qed.

Lemma memb_iff a b l l' : (In a l <-> In b l') -> memb a l = memb b l'.
Proof.
  intros H. destruct (memb a l) eqn:A; destruct (memb b l') eqn:B; try reflexivity.
  - apply Base.ListLemmas.memb_In in A. apply H in A. apply Base.ListLemmas.memb_In in A. congruence.
  - apply Base.ListLemmas.memb_In in B. apply H in B. apply Base.ListLemmas.memb_In in B. congruence.
Qed.

(* flagging L' in the all-false array of the survivors = compacting the array in which L is flagged, when L' is the image of L *)
Lemma compact_flag_all del n L L' : length del = n ->
  (forall i, i < n -> nth i del false = false -> (In (rank del i) L' <-> In i L)) ->
  flag_all L' (repeat false (rank del n)) = compact del (flag_all L del).
Proof.
  intros Ln C. apply (list_ext_nth _ _ false).
  - rewrite flag_all_length, repeat_length, compact_length, flag_all_length, Ln. reflexivity.
  - intros k Hk. rewrite flag_all_length, repeat_length in Hk. destruct (unrank_spec del n k Hk) as (A & B & E).
    set (i := unrank del n k) in *. rewrite nth_flag_all by (rewrite repeat_length; exact Hk). rewrite nth_repeat. cbn [orb].
    rewrite <- E at 2. rewrite nth_compact_flags by exact B. rewrite nth_flag_all by (rewrite Ln; exact A). rewrite B. cbn [orb].
    apply memb_iff. rewrite <- E. apply C; assumption.
Qed.

(* ================================================================== the collected mesh, entity by entity *)

Section Collected.
Context (d : mesh) (R : gc_ready d) (F : fast d = false).

Let t := collect_garbage d.

Lemma col_form : gc_compact_form d t.
Proof. exact (collect_garbage_nonfast_compact d R F). Qed.

Lemma col_lens : length (vdel d) = nv d /\ length (edel d) = ne d /\ length (fdel d) = nf d /\ length (cdel d) = nc d.
Proof. destruct R as (_ & _ & I). exact (ginv_flag_lens d I). Qed.

Lemma col_counts : nv t = rank (vdel d) (nv d) /\ ne t = rank (edel d) (ne d) /\ nf t = rank (fdel d) (nf d) /\ nc t = rank (cdel d) (nc d).
Proof.
  destruct col_form as (_ & _ & _ & _ & _ & e1 & e2 & e3 & e4 & _). destruct col_lens as (Lv & Le & Lf & Lc).
  split; [rewrite e1; pose proof (rank_dead (vdel d) (nv d)); lia|].
  unfold ne, nf, nc. rewrite e2, e3, e4, !map_length, !compact_length. auto.
Qed.

Lemma col_edge e : e < ne d -> e_deleted d e = false -> edge_at t (rank (edel d) e) = rankp (vdel d) (edge_at d e).
Proof.
  intros He Hl. destruct col_form as (_ & _ & _ & _ & _ & _ & e2 & _). unfold edge_at. rewrite e2.
  change (0, 0) with (rankp (vdel d) (0, 0)) at 1. rewrite map_nth. f_equal. apply nth_compact_rank; assumption.
Qed.
Lemma col_face f : f < nf d -> f_deleted d f = false -> face_at t (rank (fdel d) f) = map (rank2 (edel d)) (face_at d f).
Proof.
  intros Hf Hl. destruct col_form as (_ & _ & _ & _ & _ & _ & _ & e3 & _). unfold face_at. rewrite e3.
  change (@nil nat) with (map (rank2 (edel d)) []) at 1. rewrite map_nth. f_equal. apply nth_compact_rank; assumption.
Qed.
Lemma col_cell c : c < nc d -> c_deleted d c = false -> cell_at t (rank (cdel d) c) = map (rank2 (fdel d)) (cell_at d c).
Proof.
  intros Hc Hl. destruct col_form as (_ & _ & _ & _ & _ & _ & _ & _ & e4 & _). unfold cell_at. rewrite e4.
  change (@nil nat) with (map (rank2 (fdel d)) []) at 1. rewrite map_nth. f_equal. apply nth_compact_rank; assumption.
Qed.

Lemma col_no_flags : no_flags t.
Proof. exact (proj1 (proj2 col_form)). Qed.

Lemma col_up : up_closed d /\ refs_ok d.
Proof. destruct R as (_ & _ & ((_ & _ & _ & Rf & _) & _ & U & _)). auto. Qed.

(* ---- the closure levels correspond under the rank maps *)
Definition corr (del : list bool) (n : nat) (Ld Lt : list nat) : Prop :=
  forall i, i < n -> nth i del false = false -> (In (rank del i) Lt <-> In i Ld).

Lemma corr_single del n x : x < n -> nth x del false = false -> corr del n [x] [rank del x].
Proof.
  intros Hx Lx i Hi Li. cbn [In]. split; intros [E|[]]; left; [symmetry; apply (rank_inj_live del i x Li Lx); symmetry; exact E|subst; reflexivity].
Qed.

Lemma corr_edges_of_vertex x : x < nv d -> v_deleted d x = false ->
  corr (edel d) (ne d) (edges_at_vertex d x) (edges_at_vertex t (rank (vdel d) x)).
Proof.
  intros Hx Lx e He Le. destruct col_up as ((U1 & _) & (R1 & _)). destruct col_counts as (_ & Ne & _).
  rewrite (edges_at_vertex_spec t _ _ col_no_flags), edges_at_vertex_specL, Ne, (col_edge e He Le).
  destruct (U1 e He Le) as [A B]. unfold rankp. cbn [fst snd].
  assert (Q : forall a, v_deleted d a = false -> (rank (vdel d) a = rank (vdel d) x <-> a = x)).
  { intros a La. split; [apply rank_inj_live; assumption|intros ->; reflexivity]. }
  rewrite (Q _ A), (Q _ B). pose proof (rank_lt (edel d) e (ne d) He Le). tauto.
Qed.

Lemma corr_faces Ed Et : corr (edel d) (ne d) Ed Et -> corr (fdel d) (nf d) (faces_at_edges d Ed) (faces_at_edges t Et).
Proof.
  intros C f Hf Lf. destruct col_up as ((_ & U2 & _) & (_ & R2 & _)). destruct col_counts as (_ & _ & Nf & _).
  rewrite (faces_at_edges_spec t _ _ col_no_flags), faces_at_edges_specL, Nf, (col_face f Hf Lf).
  pose proof (rank_lt (fdel d) f (nf d) Hf Lf) as Lt. split.
  - intros [_ [he' [H1 H2]]]. apply in_map_iff in H1. destruct H1 as [he [<- Hhe]]. split; [exact Hf|]. split; [exact Lf|]. exists he. split; [exact Hhe|].
    unfold rank2 in H2. replace ((2 * rank (edel d) (he / 2) + he mod 2) / 2) with (rank (edel d) (he / 2)) in H2 by lia.
    apply (C (he / 2)); [pose proof (R2 f Hf Lf he Hhe); lia|exact (U2 f Hf Lf he Hhe)|exact H2].
  - intros (_ & _ & [he [Hhe H2]]). split; [exact Lt|]. exists (rank2 (edel d) he). split; [apply in_map; exact Hhe|].
    unfold rank2. replace ((2 * rank (edel d) (he / 2) + he mod 2) / 2) with (rank (edel d) (he / 2)) by lia.
    apply (C (he / 2)); [pose proof (R2 f Hf Lf he Hhe); lia|exact (U2 f Hf Lf he Hhe)|exact H2].
Qed.

Lemma corr_cells Fd Ft : corr (fdel d) (nf d) Fd Ft -> corr (cdel d) (nc d) (cells_at_faces d Fd) (cells_at_faces t Ft).
Proof.
  intros C c Hc Lc. destruct col_up as ((_ & _ & U3) & (_ & _ & R3)). destruct col_counts as (_ & _ & _ & Nc).
  rewrite (cells_at_faces_spec' t _ _ col_no_flags), cells_at_faces_specL, Nc, (col_cell c Hc Lc).
  pose proof (rank_lt (cdel d) c (nc d) Hc Lc) as Lt. split.
  - intros [_ [hf' [H1 H2]]]. apply in_map_iff in H1. destruct H1 as [hf [<- Hhf]]. split; [exact Hc|]. split; [exact Lc|]. exists hf. split; [exact Hhf|].
    unfold rank2 in H2. replace ((2 * rank (fdel d) (hf / 2) + hf mod 2) / 2) with (rank (fdel d) (hf / 2)) in H2 by lia.
    apply (C (hf / 2)); [pose proof (R3 c Hc Lc hf Hhf); lia|exact (U3 c Hc Lc hf Hhf)|exact H2].
  - intros (_ & _ & [hf [Hhf H2]]). split; [exact Lt|]. exists (rank2 (fdel d) hf). split; [apply in_map; exact Hhf|].
    unfold rank2. replace ((2 * rank (fdel d) (hf / 2) + hf mod 2) / 2) with (rank (fdel d) (hf / 2)) by lia.
    apply (C (hf / 2)); [pose proof (R3 c Hc Lc hf Hhf); lia|exact (U3 c Hc Lc hf Hhf)|exact H2].
Qed.

Lemma corr_rev del n Ld Lt : corr del n Ld Lt -> corr del n (rev Ld) (rev Lt).
Proof. intros C i Hi Li. rewrite <- !in_rev. exact (C i Hi Li). Qed.
End Collected.
