(* Kernel3/GcEquiv.v -- C04, NON-FAST mode: collecting after ONE deferred public deletion = performing that deletion immediately.
   Both sides are the survivors outside the brute-force closure, in order, renamed by the composed handle shifts (= the rank
   maps), with every property array reduced to the surviving slots.
     - the rank maps of a sorted flagged list are the composed shifts shift_many / shift1_many;
     - gc_after_dstep: collect_garbage after a deferred step that flagged sorted in-range lists, in the keep_slots / shift form;
     - the four public deletions. *)
From Coq Require Import ZArith Lia Bool Arith List ZifyNat ZifyBool Permutation.
From OVM Require Import Base.ListX Base.ListLemmas Kernel.State Kernel.Ops Kernel.Mirror Kernel.Recompute Kernel.Closure Kernel.ExactInv
                        Kernel.DeferredDelete Kernel.SwapInvol
                        Kernel2.LookupModel Kernel2.ListAux Kernel2.AdjacentProofs Kernel2.ReorderExact Kernel2.ExactBase
                        Kernel.ShiftFace Kernel.ShiftEdge Kernel.ShiftVertex Kernel.ShiftCompose
                        Kernel3.GcDefs Kernel3.GcList Kernel3.GcInv Kernel3.GcCell Kernel3.GcFace Kernel3.GcVertex Kernel3.GcMain
                        Kernel3.GcDeferred Kernel3.GcImmProps.
Import ListNotations.
Ltac Zify.zify_post_hook ::= Z.div_mod_to_equations.
Local Open Scope nat_scope.

(* ================================================================== rank maps = composed shifts *)

Definition shift1_many (vs : list nat) (x : nat) : nat := fold_right (fun v y => cor1 v y) x vs.
Definition shiftp_many (vs : list nat) (p : nat * nat) : nat * nat := (shift1_many vs (fst p), shift1_many vs (snd p)).

Lemma shift_many_app fs gs x : shift_many (fs ++ gs) x = shift_many fs (shift_many gs x).
Proof. unfold shift_many. apply fold_right_app. Qed.
Lemma shift1_many_app fs gs x : shift1_many (fs ++ gs) x = shift1_many fs (shift1_many gs x).
Proof. unfold shift1_many. apply fold_right_app. Qed.

Lemma dead_remove_below del n : dead (remove_nth n del) n = dead del n.
Proof.
  unfold dead. apply filter_ext_in2. intros i Hi. apply in_seq in Hi. rewrite nth_remove_nth.
  replace (i <? n) with true by (symmetry; apply Nat.ltb_lt; lia). reflexivity.
Qed.

Lemma shift_many_rank2 n : forall del x, (forall i, n <= i -> nth i del false = false) -> shift_many (dead del n) x = rank2 del x.
Proof.
  induction n as [|n IH]; intros del x H.
  - cbn [dead seq filter shift_many fold_right]. symmetry. apply rank2_all_false. intros i. apply H. lia.
  - rewrite dead_S. destruct (nth n del false) eqn:E.
    + rewrite shift_many_app. cbn [shift_many fold_right]. rewrite <- (dead_remove_below del n), IH.
      * apply rank2_remove. exact E.
      * intros i Hi. rewrite nth_remove_nth. replace (i <? n) with false by (symmetry; apply Nat.ltb_ge; lia). apply H. lia.
    + rewrite app_nil_r. apply IH. intros i Hi. destruct (Nat.eq_dec i n) as [->|N]; [exact E|apply H; lia].
Qed.

Lemma shift1_many_rank n : forall del x, (forall i, n <= i -> nth i del false = false) -> shift1_many (dead del n) x = rank del x.
Proof.
  induction n as [|n IH]; intros del x H.
  - cbn [dead seq filter shift1_many fold_right]. symmetry. apply rank_all_false. intros i _. apply H. lia.
  - rewrite dead_S. destruct (nth n del false) eqn:E.
    + rewrite shift1_many_app. cbn [shift1_many fold_right]. rewrite <- (dead_remove_below del n), IH.
      * apply rank_remove. exact E.
      * intros i Hi. rewrite nth_remove_nth. replace (i <? n) with false by (symmetry; apply Nat.ltb_ge; lia). apply H. lia.
    + rewrite app_nil_r. apply IH. intros i Hi. destruct (Nat.eq_dec i n) as [->|N]; [exact E|apply H; lia].
Qed.

(* ================================================================== the flagged indices after flagging a sorted list *)

Lemma sorted_dead del n : strictly_sorted (dead del n).
Proof. apply strictly_sorted_filter, strictly_sorted_seq. Qed.

Lemma dead_flag_all L l n : strictly_sorted L -> (forall x, In x L -> x < n) -> length l = n -> (forall i, nth i l false = false) ->
  dead (flag_all (rev L) l) n = L.
Proof.
  intros S R Ll Hl. apply strictly_sorted_ext; [apply sorted_dead|exact S|]. intros i. rewrite In_dead. split.
  - intros [Hi Hf]. rewrite nth_flag_all in Hf by lia. rewrite Hl, memb_rev in Hf. cbn [orb] in Hf. apply Base.ListLemmas.memb_In. exact Hf.
  - intros Hi. split; [exact (R i Hi)|]. rewrite nth_flag_all by (rewrite Ll; exact (R i Hi)). rewrite Hl, memb_rev. cbn [orb].
    apply Base.ListLemmas.memb_In. exact Hi.
Qed.

Lemma flag_all_beyond L l i : length l <= i -> nth i (flag_all L l) false = false.
Proof. intros H. apply nth_overflow. rewrite flag_all_length. exact H. Qed.

Lemma memb_ext i l l' : (In i l <-> In i l') -> memb i l = memb i l'.
Proof.
  intros H. destruct (memb i l) eqn:A; destruct (memb i l') eqn:B; try reflexivity.
  - apply Base.ListLemmas.memb_In in A. apply H in A. apply Base.ListLemmas.memb_In in A. congruence.
  - apply Base.ListLemmas.memb_In in B. apply H in B. apply Base.ListLemmas.memb_In in B. congruence.
Qed.

Lemma pkeep_dead_dbl del n L p : dead del n = L -> pkeep (dead (dbl del) (2 * n)) p = pkeep (halves L) p.
Proof. intros E. apply pkeep_ext. intros i _. apply memb_ext. rewrite In_dead_dbl, In_halves, E. reflexivity. Qed.

(* ================================================================== collect_garbage after one deferred step *)

Definition gc_shift_form (s0 t : mesh) (dv de df dc : list nat) : Prop :=
  nv t = nv s0 - length dv /\
  edges t = map (shiftp_many dv) (keep_slots (0, 0) de (edges s0)) /\
  faces t = map (map (shift_many de)) (keep_slots [] df (faces s0)) /\
  cells t = map (map (shift_many df)) (keep_slots [] dc (cells s0)) /\
  pv t = map (pkeep dv) (pv s0) /\ pe t = map (pkeep de) (pe s0) /\ phe t = map (pkeep (halves de)) (phe s0) /\
  pf t = map (pkeep df) (pf s0) /\ phf t = map (pkeep (halves df)) (phf s0) /\ pc t = map (pkeep dc) (pc s0) /\ pm t = pm s0.

Theorem gc_after_dstep s0 d dv de df dc :
  no_flags s0 -> flag_lens s0 -> fast s0 = false ->
  strictly_sorted dv -> strictly_sorted de -> strictly_sorted df -> strictly_sorted dc ->
  (forall x, In x dv -> x < nv s0) -> (forall x, In x de -> x < ne s0) -> (forall x, In x df -> x < nf s0) -> (forall x, In x dc -> x < nc s0) ->
  dstep s0 d (rev dv) (rev de) (rev df) (rev dc) -> gc_ready d ->
  gc_shift_form s0 (collect_garbage d) dv de df dc /\ no_flags (collect_garbage d) /\ ginv (collect_garbage d).
Proof.
  intros (NFv & NFe & NFf & NFc) (Lv & Le & Lf & Lc) F0 Sv Se Sf Sc Rv Re Rf Rc DS R.
  destruct DS as (x1&x2&x3&x4&x5&x6&x7&x8&_&_&_&_&(_&_&_&_&f5)&xp).
  assert (Fd : fast d = false) by congruence.
  pose proof (collect_garbage_nonfast_compact d R Fd) as C. set (t := collect_garbage d) in *.
  destruct C as (It & NFt & _ & _ & _ & e1 & e2 & e3 & e4 & _ & _ & _ & _ & (q1 & q2 & q3 & q4 & q5 & q6 & q7) & _).
  pose proof (xp KV) as pV. pose proof (xp KE) as pE. pose proof (xp KHE) as pHE. pose proof (xp KF) as pF.
  pose proof (xp KHF) as pHF. pose proof (xp KC) as pC. pose proof (xp KM) as pM. cbn [props] in pV, pE, pHE, pF, pHF, pC, pM.
  assert (Dv : dead (vdel d) (nv s0) = dv) by (rewrite x5; apply dead_flag_all; assumption).
  assert (De : dead (edel d) (ne s0) = de) by (rewrite x6; apply dead_flag_all; assumption).
  assert (Df : dead (fdel d) (nf s0) = df) by (rewrite x7; apply dead_flag_all; assumption).
  assert (Dc : dead (cdel d) (nc s0) = dc) by (rewrite x8; apply dead_flag_all; assumption).
  assert (Bv : forall i, nv s0 <= i -> nth i (vdel d) false = false) by (intros i Hi; rewrite x5; apply flag_all_beyond; lia).
  assert (Be : forall i, ne s0 <= i -> nth i (edel d) false = false) by (intros i Hi; rewrite x6; apply flag_all_beyond; lia).
  assert (Bf : forall i, nf s0 <= i -> nth i (fdel d) false = false) by (intros i Hi; rewrite x7; apply flag_all_beyond; lia).
  assert (Bc : forall i, nc s0 <= i -> nth i (cdel d) false = false) by (intros i Hi; rewrite x8; apply flag_all_beyond; lia).
  split; [|split; [exact NFt|exact It]].
  unfold gc_shift_form. rewrite e1, e2, e3, e4, q1, q2, q3, q4, q5, q6, q7, x1, x2, x3, x4, pV, pE, pHE, pF, pHF, pC, pM.
  rewrite (compact_keep_n (0, 0) (edel d) (ne s0)), (compact_keep_n [] (fdel d) (nf s0)), (compact_keep_n [] (cdel d) (nc s0)) by assumption.
  rewrite (map_pcompact_pkeep (vdel d) (nv s0)), (map_pcompact_pkeep (edel d) (ne s0)), (map_pcompact_pkeep (fdel d) (nf s0)),
    (map_pcompact_pkeep (cdel d) (nc s0)), (map_pcompact_pkeep (dbl (edel d)) (2 * ne s0)), (map_pcompact_pkeep (dbl (fdel d)) (2 * nf s0))
    by (try apply dbl_beyond; assumption).
  rewrite Dv, De, Df, Dc. splits; try reflexivity.
  - apply map_ext. intros [a b]. unfold rankp, shiftp_many. cbn [fst snd]. rewrite <- Dv, !shift1_many_rank by exact Bv. reflexivity.
  - apply map_ext. intros l. apply map_ext. intros x. rewrite <- De. symmetry. apply shift_many_rank2. exact Be.
  - apply map_ext. intros l. apply map_ext. intros x. rewrite <- Df. symmetry. apply shift_many_rank2. exact Bf.
  - apply map_ext. intros p. apply pkeep_dead_dbl. exact De.
  - apply map_ext. intros p. apply pkeep_dead_dbl. exact Df.
Qed.

(* ================================================================== the two modes of one flag-free state *)

Definition dmode (s : mesh) : mesh := set_flags (vbu s) (ebu s) (fbu s) true false s.
Definition imode (s : mesh) : mesh := set_flags (vbu s) (ebu s) (fbu s) false false s.

Definition same_mesh (t u : mesh) : Prop :=
  nv t = nv u /\ edges t = edges u /\ faces t = faces u /\ cells t = cells u /\ (forall k, props k t = props k u).

Lemma shift_inv2_imode s : shift_inv2 s -> shift_inv2 (imode s).
Proof. intros H. exact H. Qed.

Lemma map_shiftp_nil (l : list (nat * nat)) : map (shiftp_many []) l = l.
Proof. apply map_id_on. intros [a b] _. reflexivity. Qed.
Lemma map_shift_nil (ll : list (list nat)) : map (map (shift_many [])) ll = ll.
Proof. apply map_id_on. intros l _. apply map_id_on. intros x _. reflexivity. Qed.
Lemma keep_single {A} (d : A) c l : c < length l -> keep_slots d [c] l = remove_nth c l.
Proof. intros H. rewrite <- (remove_slots_keep d [c] l); [reflexivity|constructor|intros x [<-|[]]; exact H]. Qed.

Lemma sorted_single x : strictly_sorted [x].
Proof. constructor. Qed.
Lemma sorted_edges_at_vertex s v : strictly_sorted (edges_at_vertex s v).
Proof. apply strictly_sorted_filter, sorted_live_edges. Qed.
Lemma sorted_faces_at_edges s es : strictly_sorted (faces_at_edges s es).
Proof. apply strictly_sorted_filter, sorted_live_faces. Qed.
Lemma sorted_cells_at_faces s fs : strictly_sorted (cells_at_faces s fs).
Proof. apply strictly_sorted_filter, sorted_live_cells. Qed.

Lemma sized_flag_lens s : sized s -> flag_lens s.
Proof. intros (a & b & c & d & _). exact (conj a (conj b (conj c d))). Qed.

Lemma halves_range l n x : (forall y, In y l -> y < n) -> In x (halves l) -> x < 2 * n.
Proof. intros R H. apply In_halves in H. specialize (R _ H). lia. Qed.

Lemma map_pdelete_pkeep c l n : c < n -> (forall p, In p l -> length (pdata p) = n) -> map (pdelete c) l = map (pkeep [c]) l.
Proof. intros Hc L. apply map_ext_in. intros p Hp. apply pdelete_pkeep. rewrite (L p Hp). exact Hc. Qed.

Lemma map_pdelete2_pkeep c l n : c < n -> (forall p, In p l -> length (pdata p) = 2 * n) ->
  map (pdelete (2 * c)) (map (pdelete (2 * c + 1)) l) = map (pkeep (halves [c])) l.
Proof.
  intros Hc L. rewrite map_map. apply map_ext_in. intros p Hp.
  rewrite <- (pslots_pkeep (halves [c]) p); [|apply sorted_halves; constructor|].
  - rewrite pslots_halves_cons. change (halves []) with (@nil nat). rewrite pslots_nil. reflexivity.
  - intros x Hx. rewrite (L p Hp). apply (halves_range [c] n); [intros y [<-|[]]; exact Hc|exact Hx].
Qed.

Lemma map_pkeep_nil l : map (pkeep []) l = l.
Proof. apply map_id_on. intros p _. apply pkeep_nil. Qed.

(* ================================================================== the four public deletions *)

Section Equiv.
Context (s : mesh).
Context (I : shift_inv2 s) (Z : sized s).

Let NFl : no_flags (dmode s) := proj1 (proj1 I).
Let FL : flag_lens (dmode s) := sized_flag_lens s Z.

Lemma sized_props k p : In p (props k s) -> length (pdata p) = count k s.
Proof. pose proof Z as (_ & _ & _ & _ & Lp). apply Lp. Qed.

Theorem equiv_vertex v : v < nv s -> gc_ready (delete_vertex v (dmode s)) ->
  same_mesh (collect_garbage (delete_vertex v (dmode s))) (delete_vertex v (imode s)).
Proof.
  intros Hv R. pose proof I as ((_ & VO & EO & FO & _) & _).
  set (es := edges_at_vertex s v). set (fs := faces_at_edges s es). set (cs := cells_at_faces s fs).
  assert (Re : forall x, In x es -> x < ne s) by (intros x Hx; exact (In_edges_at_vertex_lt s v x Hx)).
  assert (Rf : forall x, In x fs -> x < nf s) by (intros x Hx; exact (In_faces_at_edges_lt s es x Hx)).
  assert (Rc : forall x, In x cs -> x < nc s) by (intros x Hx; apply (cells_at_faces_live s fs x) in Hx; tauto).
  pose proof (dstep_delete_vertex (dmode s) v eq_refl VO EO FO Hv) as DS. cbv zeta in DS.
  change (edges_at_vertex (dmode s) v) with es in DS. change (faces_at_edges (dmode s) es) with fs in DS. change (cells_at_faces (dmode s) fs) with cs in DS.
  destruct (gc_after_dstep (dmode s) _ [v] es fs cs NFl FL eq_refl (sorted_single v) (sorted_edges_at_vertex s v)
              (sorted_faces_at_edges s es) (sorted_cells_at_faces s fs) ltac:(intros x [<-|[]]; exact Hv) Re Rf Rc DS R) as [G _].
  destruct G as (g1 & g2 & g3 & g4 & q1 & q2 & q3 & q4 & q5 & q6 & q7).
  pose proof (delete_vertex_immediate v (imode s) eq_refl eq_refl (shift_inv2_imode s I) Hv) as U. cbv zeta in U.
  change (edges_at_vertex (imode s) v) with es in U. change (faces_at_edges (imode s) es) with fs in U. change (cells_at_faces (imode s) fs) with cs in U.
  destruct U as (_ & _ & _ & u1 & u2 & u3 & u4).
  pose proof (delete_vertex_props_raw v (imode s) eq_refl eq_refl) as P. cbv zeta in P.
  rewrite (incident_edges_cache_is_scan (imode s) v VO Hv) in P. change (edges_at_vertex (imode s) v) with es in P.
  rewrite (incident_faces_cache_is_scan (imode s) es EO Re) in P. change (faces_at_edges (imode s) es) with fs in P.
  rewrite (incident_cells_cache_is_scan (imode s) fs FO Rf) in P. change (cells_at_faces (imode s) fs) with cs in P.
  destruct P as (p1 & p2 & p3 & p4 & p5 & p6 & p7).
  split; [rewrite g1, u1; reflexivity|]. split; [rewrite g2, u2; reflexivity|]. split; [rewrite g3, u3; reflexivity|]. split; [rewrite g4, u4; reflexivity|].
  intros k. destruct k; cbn [props].
  - rewrite q1, p1. symmetry. apply (map_pdelete_pkeep v _ (nv s) Hv). exact (sized_props KV).
  - rewrite q2, p2. symmetry. apply (map_pslots_pkeep es _ (ne s) (sorted_edges_at_vertex s v) Re). exact (sized_props KE).
  - rewrite q3, p3. symmetry. apply (map_pslots_pkeep (halves es) _ (2 * ne s)); [apply sorted_halves, sorted_edges_at_vertex|intros x; apply halves_range; exact Re|exact (sized_props KHE)].
  - rewrite q4, p4. symmetry. apply (map_pslots_pkeep fs _ (nf s) (sorted_faces_at_edges s es) Rf). exact (sized_props KF).
  - rewrite q5, p5. symmetry. apply (map_pslots_pkeep (halves fs) _ (2 * nf s)); [apply sorted_halves, sorted_faces_at_edges|intros x; apply halves_range; exact Rf|exact (sized_props KHF)].
  - rewrite q6, p6. symmetry. apply (map_pslots_pkeep cs _ (nc s) (sorted_cells_at_faces s fs) Rc). exact (sized_props KC).
  - rewrite q7, p7. reflexivity.
Qed.

Theorem equiv_edge e : e < ne s -> gc_ready (delete_edge e (dmode s)) ->
  same_mesh (collect_garbage (delete_edge e (dmode s))) (delete_edge e (imode s)).
Proof.
  intros He R. pose proof I as ((_ & VO & EO & FO & _ & (_ & _ & _ & L4 & _)) & _).
  set (fs := faces_at_edges s [e]). set (cs := cells_at_faces s fs).
  assert (Re : forall x, In x [e] -> x < ne s) by (intros x [<-|[]]; exact He).
  assert (Rf : forall x, In x fs -> x < nf s) by (intros x Hx; exact (In_faces_at_edges_lt s [e] x Hx)).
  assert (Rc : forall x, In x cs -> x < nc s) by (intros x Hx; apply (cells_at_faces_live s fs x) in Hx; tauto).
  pose proof (dstep_delete_edge (dmode s) e eq_refl EO FO He) as DS. cbv zeta in DS.
  change (faces_at_edges (dmode s) [e]) with fs in DS. change (cells_at_faces (dmode s) fs) with cs in DS.
  destruct (gc_after_dstep (dmode s) _ [] [e] fs cs NFl FL eq_refl ss_nil (sorted_single e)
              (sorted_faces_at_edges s [e]) (sorted_cells_at_faces s fs) ltac:(intros x []) Re Rf Rc DS R) as [G _].
  destruct G as (g1 & g2 & g3 & g4 & q1 & q2 & q3 & q4 & q5 & q6 & q7).
  pose proof (delete_edge_immediate e (imode s) eq_refl eq_refl (shift_inv2_imode s I) He) as U. cbv zeta in U.
  change (faces_at_edges (imode s) [e]) with fs in U. change (cells_at_faces (imode s) fs) with cs in U.
  destruct U as (_ & _ & _ & u1 & u2 & u3 & u4).
  pose proof (delete_edge_props_raw e (imode s) eq_refl eq_refl) as P. cbv zeta in P.
  rewrite (incident_faces_cache_is_scan (imode s) [e] EO Re) in P. change (faces_at_edges (imode s) [e]) with fs in P.
  rewrite (incident_cells_cache_is_scan (imode s) fs FO Rf) in P. change (cells_at_faces (imode s) fs) with cs in P.
  destruct P as (p1 & p2 & p3 & p4 & p5 & p6 & p7).
  split; [rewrite g1, u1; unfold dmode, imode; cbn [nv set_flags length]; lia|]. split; [rewrite g2, u2, map_shiftp_nil; apply keep_single; exact He|].
  split; [rewrite g3, u3; reflexivity|]. split; [rewrite g4, u4; reflexivity|].
  intros k. destruct k; cbn [props].
  - rewrite q1, p1. apply map_pkeep_nil.
  - rewrite q2, p2. symmetry. apply (map_pdelete_pkeep e _ (ne s) He). exact (sized_props KE).
  - rewrite q3, p3. symmetry. apply (map_pdelete2_pkeep e _ (ne s) He). exact (sized_props KHE).
  - rewrite q4, p4. symmetry. apply (map_pslots_pkeep fs _ (nf s) (sorted_faces_at_edges s [e]) Rf). exact (sized_props KF).
  - rewrite q5, p5. symmetry. apply (map_pslots_pkeep (halves fs) _ (2 * nf s)); [apply sorted_halves, sorted_faces_at_edges|intros x; apply halves_range; exact Rf|exact (sized_props KHF)].
  - rewrite q6, p6. symmetry. apply (map_pslots_pkeep cs _ (nc s) (sorted_cells_at_faces s fs) Rc). exact (sized_props KC).
  - rewrite q7, p7. reflexivity.
Qed.

Theorem equiv_face f : f < nf s -> gc_ready (delete_face f (dmode s)) ->
  same_mesh (collect_garbage (delete_face f (dmode s))) (delete_face f (imode s)).
Proof.
  intros Hf R. pose proof I as ((_ & VO & EO & FO & _) & _).
  set (cs := cells_at_faces s [f]).
  assert (Rf : forall x, In x [f] -> x < nf s) by (intros x [<-|[]]; exact Hf).
  assert (Rc : forall x, In x cs -> x < nc s) by (intros x Hx; apply (cells_at_faces_live s [f] x) in Hx; tauto).
  pose proof (dstep_delete_face (dmode s) f eq_refl FO Hf) as DS. change (cells_at_faces (dmode s) [f]) with cs in DS.
  destruct (gc_after_dstep (dmode s) _ [] [] [f] cs NFl FL eq_refl ss_nil ss_nil (sorted_single f)
              (sorted_cells_at_faces s [f]) ltac:(intros x []) ltac:(intros x []) Rf Rc DS R) as [G _].
  destruct G as (g1 & g2 & g3 & g4 & q1 & q2 & q3 & q4 & q5 & q6 & q7).
  pose proof (delete_face_immediate_full f (imode s) eq_refl eq_refl (shift_inv2_imode s I) Hf) as U. cbv zeta in U.
  change (cells_at_faces (imode s) [f]) with cs in U. destruct U as (_ & _ & _ & u1 & u2 & u3 & u4).
  pose proof (delete_face_props_raw f (imode s) eq_refl eq_refl) as P. cbv zeta in P.
  rewrite (incident_cells_cache_is_scan (imode s) [f] FO Rf) in P. change (cells_at_faces (imode s) [f]) with cs in P.
  destruct P as (p1 & p2 & p3 & p4 & p5 & p6 & p7).
  split; [rewrite g1, u1; unfold dmode, imode; cbn [nv set_flags length]; lia|]. split; [rewrite g2, u2, map_shiftp_nil; apply keep_slots_nil|].
  split; [rewrite g3, u3, map_shift_nil; apply keep_single; exact Hf|]. split; [rewrite g4, u4; reflexivity|].
  intros k. destruct k; cbn [props].
  - rewrite q1, p1. apply map_pkeep_nil.
  - rewrite q2, p2. apply map_pkeep_nil.
  - rewrite q3, p3. apply map_pkeep_nil.
  - rewrite q4, p4. symmetry. apply (map_pdelete_pkeep f _ (nf s) Hf). exact (sized_props KF).
  - rewrite q5, p5. symmetry. apply (map_pdelete2_pkeep f _ (nf s) Hf). exact (sized_props KHF).
  - rewrite q6, p6. symmetry. apply (map_pslots_pkeep cs _ (nc s) (sorted_cells_at_faces s [f]) Rc). exact (sized_props KC).
  - rewrite q7, p7. reflexivity.
Qed.

Theorem equiv_cell c : c < nc s -> gc_ready (delete_cell c (dmode s)) ->
  same_mesh (collect_garbage (delete_cell c (dmode s))) (delete_cell c (imode s)).
Proof.
  intros Hc R.
  assert (Rc : forall x, In x [c] -> x < nc s) by (intros x [<-|[]]; exact Hc).
  pose proof (delete_cell_deferred c (dmode s) eq_refl) as DS.
  destruct (gc_after_dstep (dmode s) _ [] [] [] [c] NFl FL eq_refl ss_nil ss_nil ss_nil (sorted_single c)
              ltac:(intros x []) ltac:(intros x []) ltac:(intros x []) Rc DS R) as [G _].
  destruct G as (g1 & g2 & g3 & g4 & q1 & q2 & q3 & q4 & q5 & q6 & q7).
  pose proof (delete_cell_core_view c (imode s) eq_refl eq_refl) as U. cbv zeta in U. destruct U as (u1 & u2 & u3 & u4 & _).
  pose proof (delete_cell_props_raw c (imode s) eq_refl eq_refl) as P. cbv zeta in P. destruct P as (p1 & p2 & p3 & p4 & p5 & p6 & p7).
  unfold delete_cell at 2.
  split; [rewrite g1, u1; unfold dmode, imode; cbn [nv set_flags length]; lia|]. split; [rewrite g2, u2, map_shiftp_nil; apply keep_slots_nil|].
  split; [rewrite g3, u3, map_shift_nil; apply keep_slots_nil|]. split; [rewrite g4, u4, map_shift_nil; apply keep_single; exact Hc|].
  intros k. unfold delete_cell in p1, p2, p3, p4, p5, p6, p7. destruct k; cbn [props].
  - rewrite q1, p1. apply map_pkeep_nil.
  - rewrite q2, p2. apply map_pkeep_nil.
  - rewrite q3, p3. apply map_pkeep_nil.
  - rewrite q4, p4. apply map_pkeep_nil.
  - rewrite q5, p5. apply map_pkeep_nil.
  - rewrite q6, p6. symmetry. apply (map_pdelete_pkeep c _ (nc s) Hc). exact (sized_props KC).
  - rewrite q7, p7. reflexivity.
Qed.
End Equiv.

(* ================================================================== edge and face incidences on: gc_ready after the deferred deletion *)

Lemma up_closed_no_flags s : no_flags s -> up_closed s.
Proof. intros (NFv & NFe & NFf & NFc). split; [|split]; intros; [split|..]; (apply NFv || apply NFe || apply NFf). Qed.

Lemma hinv_dmode s : shift_inv2 s -> ebu s = true -> fbu s = true -> length (vdel s) = nv s -> hinv (dmode s).
Proof.
  intros [(NF & VO & EO & FO & R & L) X] E Fb LV. destruct (X E Fb) as (SN & LC & FS). pose proof NF as (NFv & NFe & NFf & NFc).
  split; [|split; [apply (up_closed_no_flags (dmode s)); exact NF|exact LV]].
  split; [exact (conj VO (conj EO (conj FO (conj R L))))|]. split; [exact E|]. split; [exact Fb|]. split; [reflexivity|].
  split; [exact SN|]. split; [|exact (conj LC FS)].
  intros c hf Hc _ Hhf. destruct R as (_ & _ & R3). change (nf (dmode s)) with (nf s). split; [pose proof (R3 c Hc (NFc c) hf Hhf); lia|apply NFf].
Qed.

Theorem collection_equals_immediate_deletion s : shift_inv2 s -> sized s -> ebu s = true -> fbu s = true -> forall x,
  (x < nv s -> same_mesh (collect_garbage (delete_vertex x (dmode s))) (delete_vertex x (imode s))) /\
  (x < ne s -> same_mesh (collect_garbage (delete_edge x (dmode s))) (delete_edge x (imode s))) /\
  (x < nf s -> same_mesh (collect_garbage (delete_face x (dmode s))) (delete_face x (imode s))) /\
  (x < nc s -> same_mesh (collect_garbage (delete_cell x (dmode s))) (delete_cell x (imode s))).
Proof.
  intros I Z E Fb x. pose proof Z as (LV & _). pose proof (hinv_dmode s I E Fb LV) as H. pose proof I as (((_ & NFe & NFf & NFc) & _) & _).
  split; [|split; [|split]]; intros Hx.
  - apply (equiv_vertex s I Z x Hx). destruct (hinv_delete_vertex x (dmode s) H Hx) as [H' G]. apply hinv_pending_ready; assumption.
  - apply (equiv_edge s I Z x Hx). destruct (hinv_delete_edge x (dmode s) H Hx (NFe x)) as [H' G]. apply hinv_pending_ready; assumption.
  - apply (equiv_face s I Z x Hx). destruct (hinv_delete_face x (dmode s) H Hx (NFf x)) as [H' G]. apply hinv_pending_ready; assumption.
  - apply (equiv_cell s I Z x Hx). destruct (hinv_delete_cell x (dmode s) H Hx (NFc x)) as [H' G]. apply hinv_pending_ready; assumption.
Qed.
