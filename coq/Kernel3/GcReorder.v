(* Kernel3/GcReorder.v -- C04: reorder_incident_halffaces / reorder_edges inside the cores of collect_garbage.
   The walks run on a state t that differs from an exact state s only in deletion flags (the flag of the victim was just cleared)
   and in the halfedge->halfface lists; they read the halfface->cell cache, the cells it points to (all live in s, by exactness)
   and the faces.  Hence they keep the membership specification P_live s of the lists (Kernel2/ExactBase.v, generic theorem). *)
From Coq Require Import ZArith Lia Bool Arith List ZifyNat ZifyBool Permutation.
From OVM Require Import Base.ListX Base.ListLemmas Kernel.State Kernel.Ops Kernel.Mirror Kernel.Recompute Kernel.Closure Kernel.ExactInv
                        Kernel2.LookupModel Kernel2.ListAux Kernel2.AdjacentProofs Kernel2.ReorderExact Kernel2.ExactBase
                        Kernel.ShiftFace Kernel3.GcDefs Kernel3.GcList Kernel3.GcInv.
Import ListNotations.
Ltac Zify.zify_post_hook ::= Z.div_mod_to_equations.
Local Open Scope nat_scope.

(* t reads the same faces, cells and halfface->cell cache as s *)
Definition same_upper (s t : mesh) : Prop := faces t = faces s /\ cells t = cells s /\ inc_cell t = inc_cell s.

Lemma same_upper_set_inc_hfs s t x : same_upper s t -> same_upper s (set_inc_hfs x t).
Proof. intros H. exact H. Qed.

Lemma same_upper_closed s t c : same_upper s t -> closed_cell s c -> closed_cell t c.
Proof.
  intros (A & B & C). unfold closed_cell, adj_matches, cell_at, cell_of, halfface, face_at. rewrite A, B, C. tauto.
Qed.

Lemma same_upper_reorder s t e : same_upper s t -> same_upper s (reorder_incident_halffaces e t).
Proof. intros H. destruct (reorder_frame e t) as [x ->]. exact H. Qed.

Section Bundle.
Context (s t : mesh).
Context (I : ginv s) (E : ebu s = true) (Fb : fbu s = true) (U : same_upper s t).

Lemma su_nf : nf t = nf s.
Proof. destruct U as (A & _). unfold nf. rewrite A. reflexivity. Qed.
Lemma su_halfface x : halfface t x = halfface s x.
Proof. destruct U as (A & _). unfold halfface, face_at. rewrite A. reflexivity. Qed.
Lemma su_cell_at c : cell_at t c = cell_at s c.
Proof. destruct U as (_ & B & _). unfold cell_at. rewrite B. reflexivity. Qed.
Lemma su_cell_of x : cell_of t x = cell_of s x.
Proof. destruct U as (_ & _ & C). unfold cell_of. rewrite C. reflexivity. Qed.

(* a cell the cache of s points to is live in s *)
Lemma su_read_live x c : x / 2 < nf s -> cell_of s x = Some c -> c < nc s /\ c_deleted s c = false /\ In x (cell_at s c).
Proof.
  intros Hx Hc. destruct I as ((_ & _ & FO & _) & _). apply (FO Fb x ltac:(lia) c). exact Hc.
Qed.

Lemma bundle_sound : spec_sound t (P_live s).
Proof. intros k x (A & _ & C). rewrite su_nf, su_halfface. auto. Qed.

Lemma bundle_read_closed : cell_read_closed t.
Proof.
  intros x c Hx Hc _. rewrite su_nf in Hx. rewrite su_cell_of in Hc. destruct (su_read_live x c Hx Hc) as (A & B & C).
  rewrite su_cell_at. split; [exact C|]. apply (same_upper_closed s t c U).
  destruct I as (_ & _ & _ & X). exact (proj2 (X E Fb) c A B).
Qed.

Lemma bundle_feed : spec_feed t (P_live s).
Proof.
  intros k z c g Hz Hc _ Hg. rewrite su_nf in Hz. rewrite su_cell_of in Hc. rewrite su_cell_at in Hg. rewrite !su_halfface.
  destruct (su_read_live z c Hz Hc) as (A & B & _).
  destruct (ginv_cells_ref_live s I c g A B Hg) as [G1 G2]. split; intros H.
  - repeat split; assumption.
  - unfold P_live. rewrite opp_div2. repeat split; auto. apply In_halfface_opp. rewrite !opp_involutive. exact H.
Qed.

Theorem reorder_one_keeps_spec e : slots_spec t (P_live s) -> slots_spec (reorder_incident_halffaces e t) (P_live s).
Proof.
  intros S. apply reorder_keeps_slots_spec; [exact S|exact bundle_sound|apply P_live_sym|exact bundle_read_closed|exact bundle_feed].
Qed.

Theorem reorder_edges_keeps_spec es : slots_spec t (P_live s) -> slots_spec (reorder_edges es t) (P_live s).
Proof.
  intros S. apply reorder_edges_keeps_slots_spec; [exact S|exact bundle_sound|apply P_live_sym|exact bundle_read_closed|exact bundle_feed].
Qed.
End Bundle.

(* the lists of an exact state satisfy their own specification *)
Lemma ginv_slots_spec s : ginv s -> ebu s = true -> fbu s = true -> slots_spec s (P_live s).
Proof.
  intros ((_ & EO & _) & _ & _ & X) E Fb k Hk. split; [exact (proj1 (X E Fb) k Hk)|]. exact (EO E k Hk).
Qed.

(* slots_spec only reads the lists and the edge count *)
Lemma slots_spec_transfer s t P : inc_hfs t = inc_hfs s -> edges t = edges s -> slots_spec s P -> slots_spec t P.
Proof. intros A B S k Hk. unfold ne, hfs_at in *. rewrite A. rewrite B in Hk. exact (S k Hk). Qed.
