(* Kernel3/GcDeferredAny.v -- C04 / C01: deferred deletions keep the caches exact with ANY subset of incidences enabled.
   Kernel2/ExactDeletions.v covers the case "edge and face incidences both on" (where reorder_incident_halffaces runs); here the
   complementary case ebu && fbu = false, in which no re-ordering happens: the deferred cell core only clears the halfface->cell
   entries of the dying cell and flags it, the deferred face core only removes the two halffaces from the lists of its halfedges
   and flags it.  Consequence: the hypothesis gc_ready of the collection theorems holds after a deferred public deletion on a
   flag-free exact state in every incidence configuration, and "collection = immediate deletion" holds unconditionally. *)
From Coq Require Import ZArith Lia Bool Arith List ZifyNat ZifyBool Permutation.
From OVM Require Import Base.ListX Base.ListLemmas Kernel.State Kernel.Ops Kernel.Mirror Kernel.Recompute Kernel.Closure Kernel.ExactInv
                        Kernel.ExactDelete Kernel.DeferredDelete Kernel.SwapInvol
                        Kernel2.LookupModel Kernel2.ListAux Kernel2.AdjacentProofs Kernel2.ReorderExact Kernel2.ExactBase
                        Kernel2.ExactDelCell Kernel2.ExactDelFace Kernel2.ExactDeletions
                        Kernel.ShiftFace Kernel.ShiftCompose
                        Kernel3.GcDefs Kernel3.GcList Kernel3.GcInv Kernel3.GcDeferred Kernel3.GcEquiv.
Import ListNotations.
Ltac Zify.zify_post_hook ::= Z.div_mod_to_equations.
Local Open Scope nat_scope.

Definition ninv (s : mesh) : Prop := deferred s = true /\ ebu s && fbu s = false /\ bu_inv s.

Lemma dstep_modes s s' a b c d : dstep s s' a b c d -> deferred s' = deferred s /\ ebu s' = ebu s /\ fbu s' = fbu s.
Proof. intros (_&_&_&_&_&_&_&_&_&_&_&_&(_&f2&f3&f4&_)&_). auto. Qed.

(* ================================================================== the deferred cell core *)

Lemma cell_core_noreorder h s : deferred s = true -> ebu s && fbu s = false ->
  delete_cell_core h s = flagc h (if fbu s then cleared s h else s).
Proof.
  intros D N. unfold delete_cell_core. rewrite D. cbn [negb]. rewrite andb_false_r. destruct (fbu s) eqn:Fb.
  - cbv zeta. fold (clear_step h). fold (cleared s h). change (ebu (cleared s h)) with (ebu s).
    rewrite andb_true_r in N. rewrite N. change (deferred (cleared s h)) with (deferred s). rewrite D. reflexivity.
  - rewrite D. reflexivity.
Qed.

Lemma cell_flag_after h s c : length (cdel s) = nc s -> h < nc s ->
  nth c (upd h true (cdel s)) false = if c =? h then true else c_deleted s c.
Proof.
  intros L Hh. rewrite nth_upd, L. destruct (Nat.eqb_spec h c) as [->|N]; cbn [andb].
  - replace (c <? nc s) with true by (symmetry; apply Nat.ltb_lt; exact Hh). rewrite Nat.eqb_refl. reflexivity.
  - destruct (Nat.eqb_spec c h); [congruence|reflexivity].
Qed.

Theorem ninv_cell_core h s : ninv s -> h < nc s -> c_deleted s h = false -> ninv (delete_cell_core h s).
Proof.
  intros (D & N & (VO & EO & FO & (R1 & R2 & R3) & (L1 & L2 & L3 & L4 & L5 & L6))) Hh Hl.
  pose proof (delete_cell_core_deferred h s D) as DS. destruct (dstep_modes _ _ _ _ _ _ DS) as (Dm & Em & Fm).
  split; [congruence|]. split; [rewrite Em, Fm; exact N|]. rewrite (cell_core_noreorder h s D N).
  set (u := if fbu s then cleared s h else s).
  assert (Fu : nv u = nv s /\ edges u = edges s /\ faces u = faces s /\ cells u = cells s /\ vdel u = vdel s /\ edel u = edel s /\
               fdel u = fdel s /\ cdel u = cdel s /\ out_hes u = out_hes s /\ inc_hfs u = inc_hfs s /\
               vbu u = vbu s /\ ebu u = ebu s /\ fbu u = fbu s) by (unfold u; destruct (fbu s) eqn:Fb0; repeat split; try reflexivity; exact Fb0).
  destruct Fu as (u1 & u2 & u3 & u4 & u5 & u6 & u7 & u8 & u9 & u10 & u11 & u12 & u13).
  assert (CD : forall c, c_deleted (flagc h u) c = if c =? h then true else c_deleted s c).
  { intros c. unfold c_deleted, flagc. cbn [cdel set_cdel set_counts]. rewrite u8. apply cell_flag_after; assumption. }
  assert (CO : fbu s = true -> forall x, cell_of (flagc h u) x = if is_h h (cell_of s x) then None else cell_of s x).
  { intros Fb x. unfold u. rewrite Fb. unfold cleared, cell_of, flagc. cbn [inc_cell set_inc_cell set_cdel set_counts]. rewrite nth_clear_fold. fold (cell_of s x).
    destruct (is_h h (cell_of s x)) eqn:Ih; [|rewrite andb_false_r; reflexivity].
    replace (memb x (cell_at s h)) with true; [reflexivity|]. symmetry. apply Base.ListLemmas.memb_In.
    unfold is_h in Ih. destruct (cell_of s x) as [c|] eqn:Cx; [|discriminate]. apply Nat.eqb_eq in Ih. subst c.
    assert (x < 2 * nf s).
    { destruct (Nat.lt_ge_cases x (2 * nf s)); [assumption|]. unfold cell_of in Cx. rewrite nth_overflow in Cx by (rewrite (L3 Fb); lia). discriminate. }
    apply (FO Fb x H h). exact Cx. }
  unfold bu_inv. split; [|split; [|split; [|split; [split; [|split]|unfold lens_ok; split; [|split; [|split; [|split; [|split]]]]]]]].
  - intros V v Hv x. unfold out_at, ne, e_deleted, he_from, edge_at, flagc in *. cbn [out_hes edges edel nv vbu set_cdel set_counts] in *.
    rewrite u9, u2, u6. rewrite u11 in V. rewrite u1 in Hv. exact (VO V v Hv x).
  - intros E k Hk x. unfold hfs_at, ne, nf, f_deleted, halfface, face_at, flagc in *. cbn [inc_hfs edges faces fdel ebu set_cdel set_counts] in *.
    rewrite u10, u3, u7. rewrite u12 in E. rewrite u2 in Hk. exact (EO E k Hk x).
  - intros Fb hf Hhf c. change (fbu (flagc h u)) with (fbu u) in Fb. rewrite u13 in Fb.
    change (nf (flagc h u)) with (nf u) in Hhf. unfold nf in Hhf. rewrite u3 in Hhf. fold (nf s) in Hhf.
    change (nc (flagc h u)) with (nc u). unfold nc. rewrite u4. fold (nc s).
    change (cell_at (flagc h u) c) with (cell_at u c). unfold cell_at. rewrite u4. fold (cell_at s c).
    rewrite (CO Fb), CD. split.
    + intros H. destruct (cell_of s hf) as [c0|] eqn:C0; cbn [is_h] in H; [|discriminate].
      destruct (Nat.eqb_spec c0 h) as [->|Nc]; [discriminate|]. inversion H; subst c0.
      destruct (proj1 (FO Fb hf Hhf c) C0) as (A & B & Cc). destruct (Nat.eqb_spec c h); [contradiction|]. auto.
    + intros (A & B & Cc). destruct (Nat.eqb_spec c h) as [->|Nc]; [discriminate|].
      rewrite (proj2 (FO Fb hf Hhf c) (conj A (conj B Cc))). cbn [is_h]. destruct (Nat.eqb_spec c h); [contradiction|reflexivity].
  - intros e He Hd. unfold ne, e_deleted, edge_at, flagc in *. cbn [edges edel nv set_cdel set_counts] in *. rewrite u2 in *. rewrite u6 in Hd. rewrite u1. exact (R1 e He Hd).
  - intros f Hf Hd x Hx. unfold nf, ne, f_deleted, face_at, flagc in *. cbn [faces fdel edges set_cdel set_counts] in *. rewrite u3 in *. rewrite u7 in Hd. rewrite u2. exact (R2 f Hf Hd x Hx).
  - intros c Hc Hd x Hx. rewrite CD in Hd. destruct (c =? h); [discriminate|].
    change (nc (flagc h u)) with (nc u) in Hc. unfold nc in Hc. rewrite u4 in Hc. change (cell_at (flagc h u) c) with (cell_at u c) in Hx. unfold cell_at in Hx. rewrite u4 in Hx.
    change (nf (flagc h u)) with (nf u). unfold nf. rewrite u3. exact (R3 c Hc Hd x Hx).
  - intros V. change (vbu (flagc h u)) with (vbu u) in V. rewrite u11 in V. change (length (out_hes u) = nv u). rewrite u9, u1. exact (L1 V).
  - intros E. change (ebu (flagc h u)) with (ebu u) in E. rewrite u12 in E. change (length (inc_hfs u) = 2 * ne u). unfold ne. rewrite u10, u2. exact (L2 E).
  - intros Fb. change (fbu (flagc h u)) with (fbu u) in Fb. rewrite u13 in Fb. change (length (inc_cell u) = 2 * nf u). unfold nf. rewrite u3.
    unfold u. rewrite Fb. unfold cleared. cbn [inc_cell set_inc_cell]. rewrite length_clear_fold. exact (L3 Fb).
  - change (length (edel u) = ne u). unfold ne. rewrite u6, u2. exact L4.
  - change (length (fdel u) = nf u). unfold nf. rewrite u7, u3. exact L5.
  - unfold flagc. cbn [cdel set_cdel set_counts cells]. rewrite upd_length, u8. change (nc (set_cdel _ _)) with (nc u). unfold nc. rewrite u4. exact L6.
Qed.

(* ================================================================== the deferred face core *)

Lemma fold_rm_step_length h hes : forall ll, length (fold_left (rm_step h) hes ll) = length ll.
Proof. induction hes as [|he r IH]; intros ll; [reflexivity|]. cbn [fold_left]. rewrite IH. unfold rm_step. rewrite !remove_at_length. reflexivity. Qed.

Lemma face_core_noreorder h s : deferred s = true -> ebu s && fbu s = false ->
  delete_face_core h s = flagf h (if ebu s then set_inc_hfs (fold_left (rm_step h) (face_at s h) (inc_hfs s)) s else s).
Proof.
  intros D N. destruct (ebu s) eqn:E.
  - rewrite (delete_face_core_eq h s D E). cbn [andb] in N.
    pose proof (face_loop_noreorder h s N) as FL. unfold face_loop in FL. rewrite E in FL. rewrite FL. reflexivity.
  - unfold delete_face_core. rewrite D. cbn [negb]. rewrite andb_false_r, E, D. reflexivity.
Qed.

Lemma face_flag_after h s f : length (fdel s) = nf s -> h < nf s ->
  nth f (upd h true (fdel s)) false = if f =? h then true else f_deleted s f.
Proof.
  intros L Hh. rewrite nth_upd, L. destruct (Nat.eqb_spec h f) as [->|N]; cbn [andb].
  - replace (f <? nf s) with true by (symmetry; apply Nat.ltb_lt; exact Hh). rewrite Nat.eqb_refl. reflexivity.
  - destruct (Nat.eqb_spec f h); [congruence|reflexivity].
Qed.

Theorem ninv_face_core h s : ninv s -> h < nf s -> f_deleted s h = false -> ninv (delete_face_core h s).
Proof.
  intros (D & N & (VO & EO & FO & (R1 & R2 & R3) & (L1 & L2 & L3 & L4 & L5 & L6))) Hh Hl.
  pose proof (delete_face_core_deferred h s D) as DS. destruct (dstep_modes _ _ _ _ _ _ DS) as (Dm & Em & Fm).
  split; [congruence|]. split; [rewrite Em, Fm; exact N|]. rewrite (face_core_noreorder h s D N).
  set (u := if ebu s then set_inc_hfs (fold_left (rm_step h) (face_at s h) (inc_hfs s)) s else s).
  assert (Fu : nv u = nv s /\ edges u = edges s /\ faces u = faces s /\ cells u = cells s /\ vdel u = vdel s /\ edel u = edel s /\
               fdel u = fdel s /\ cdel u = cdel s /\ out_hes u = out_hes s /\ inc_cell u = inc_cell s /\
               vbu u = vbu s /\ ebu u = ebu s /\ fbu u = fbu s) by (unfold u; destruct (ebu s) eqn:Eb0; repeat split; try reflexivity; exact Eb0).
  destruct Fu as (u1 & u2 & u3 & u4 & u5 & u6 & u7 & u8 & u9 & u10 & u11 & u12 & u13).
  assert (FD : forall f, f_deleted (flagf h u) f = if f =? h then true else f_deleted s f).
  { intros f. unfold f_deleted, flagf. cbn [fdel set_fdel set_counts]. rewrite u7. apply face_flag_after; assumption. }
  unfold bu_inv. split; [|split; [|split; [|split; [split; [|split]|unfold lens_ok; split; [|split; [|split; [|split; [|split]]]]]]]].
  - intros V v Hv x. unfold out_at, ne, e_deleted, he_from, edge_at, flagf in *. cbn [out_hes edges edel nv vbu set_fdel set_counts] in *.
    rewrite u9, u2, u6. rewrite u11 in V. rewrite u1 in Hv. exact (VO V v Hv x).
  - intros E k Hk x. change (ebu (flagf h u)) with (ebu u) in E. rewrite u12 in E.
    change (ne (flagf h u)) with (ne u) in Hk. unfold ne in Hk. rewrite u2 in Hk. fold (ne s) in Hk.
    change (nf (flagf h u)) with (nf u). unfold nf. rewrite u3. fold (nf s).
    change (halfface (flagf h u) x) with (halfface u x). unfold halfface, face_at. rewrite u3. fold (face_at s (x / 2)). fold (halfface s x).
    rewrite FD. change (hfs_at (flagf h u) k) with (hfs_at u k). unfold u. rewrite E. unfold hfs_at. cbn [inc_hfs set_inc_hfs].
    rewrite fold_rm_step_In. fold (hfs_at s k). rewrite (EO E k Hk x).
    destruct (Nat.eqb_spec (x / 2) h) as [Ex|Nx].
    + split; [|intros (_ & X & _); discriminate]. intros ((A & B & C) & N1 & N2). exfalso. apply In_halfface in C. rewrite Ex in C.
      assert (x = 2 * h \/ x = 2 * h + 1) as [->| ->] by lia.
      * replace (Nat.even (2 * h)) with true in C by (symmetry; rewrite even_mod2; apply Nat.eqb_eq; lia). apply N1. auto.
      * replace (Nat.even (2 * h + 1)) with false in C by (symmetry; rewrite even_mod2; apply Nat.eqb_neq; lia). apply N2. auto.
    + split; [tauto|]. intros H. split; [exact H|]. split; intros [-> _]; apply Nx; lia.
  - intros Fb hf Hhf c. unfold cell_of, nf, nc, c_deleted, cell_at, flagf in *. cbn [inc_cell faces cells cdel fbu set_fdel set_counts] in *.
    rewrite u10, u4, u8. rewrite u13 in Fb. rewrite u3 in Hhf. exact (FO Fb hf Hhf c).
  - intros e He Hd. unfold ne, e_deleted, edge_at, flagf in *. cbn [edges edel nv set_fdel set_counts] in *. rewrite u2 in *. rewrite u6 in Hd. rewrite u1. exact (R1 e He Hd).
  - intros f Hf Hd x Hx. rewrite FD in Hd. destruct (f =? h); [discriminate|].
    change (nf (flagf h u)) with (nf u) in Hf. unfold nf in Hf. rewrite u3 in Hf. change (face_at (flagf h u) f) with (face_at u f) in Hx. unfold face_at in Hx. rewrite u3 in Hx.
    change (ne (flagf h u)) with (ne u). unfold ne. rewrite u2. exact (R2 f Hf Hd x Hx).
  - intros c Hc Hd x Hx. unfold nc, nf, c_deleted, cell_at, flagf in *. cbn [cells cdel faces set_fdel set_counts] in *. rewrite u4 in *. rewrite u8 in Hd. rewrite u3. exact (R3 c Hc Hd x Hx).
  - intros V. change (vbu (flagf h u)) with (vbu u) in V. rewrite u11 in V. change (length (out_hes u) = nv u). rewrite u9, u1. exact (L1 V).
  - intros E. change (ebu (flagf h u)) with (ebu u) in E. rewrite u12 in E. change (length (inc_hfs u) = 2 * ne u). unfold ne. rewrite u2.
    unfold u. rewrite E. cbn [inc_hfs set_inc_hfs]. rewrite fold_rm_step_length. exact (L2 E).
  - intros Fb. change (fbu (flagf h u)) with (fbu u) in Fb. rewrite u13 in Fb. change (length (inc_cell u) = 2 * nf u). unfold nf. rewrite u10, u3. exact (L3 Fb).
  - change (length (edel u) = ne u). unfold ne. rewrite u6, u2. exact L4.
  - unfold flagf. cbn [fdel set_fdel set_counts faces]. rewrite upd_length, u7. change (nf (set_fdel _ _)) with (nf u). unfold nf. rewrite u3. exact L5.
  - change (length (cdel u) = nc u). unfold nc. rewrite u8, u4. exact L6.
Qed.

(* ================================================================== edge and vertex cores *)

Theorem ninv_edge_core h s : ninv s -> h < ne s -> e_deleted s h = false -> ninv (delete_edge_core h s).
Proof.
  intros (D & N & B) Hh Hl. pose proof (delete_edge_core_deferred h s D) as DS. destruct (dstep_modes _ _ _ _ _ _ DS) as (Dm & Em & Fm).
  split; [congruence|]. split; [rewrite Em, Fm; exact N|apply bu_inv_delete_edge_core_deferred; assumption].
Qed.

Theorem ninv_vertex_core h s : ninv s -> ninv (delete_vertex_core h s).
Proof.
  intros (D & N & B). pose proof (delete_vertex_core_deferred h s D) as DS. destruct (dstep_modes _ _ _ _ _ _ DS) as (Dm & Em & Fm).
  split; [congruence|]. split; [rewrite Em, Fm; exact N|apply bu_inv_delete_vertex_core_deferred; assumption].
Qed.

(* ================================================================== descending runs *)

Definition live_face (t : mesh) (f : nat) : Prop := f < nf t /\ f_deleted t f = false.

Lemma flag_all_single_other x y l : x <> y -> nth y (flag_all [x] l) false = nth y l false.
Proof. intros N. unfold flag_all. cbn [fold_left]. apply Base.ListLemmas.nth_upd_neq. exact N. Qed.

Lemma ninv_del_desc_cells l s : NoDup l -> ninv s -> (forall c, In c l -> ok_cell s c) -> ninv (del_desc delete_cell_core l s).
Proof.
  intros Nd I O. apply (del_desc_inv delete_cell_core ninv ok_cell); auto.
  - intros t x It [A B]. apply ninv_cell_core; assumption.
  - intros t x y (D & _) _ [C E] Nxy. destruct (delete_cell_core_deferred x t D) as (_&_&_&d4&_&_&_&d8&_).
    unfold ok_cell, nc, c_deleted. rewrite d4, d8, flag_all_single_other by exact Nxy. split; assumption.
Qed.

Lemma ninv_del_desc_faces l s : NoDup l -> ninv s -> (forall f, In f l -> live_face s f) -> ninv (del_desc delete_face_core l s).
Proof.
  intros Nd I O. apply (del_desc_inv delete_face_core ninv live_face); auto.
  - intros t x It [A B]. apply ninv_face_core; assumption.
  - intros t x y (D & _) _ [C E] Nxy. destruct (delete_face_core_deferred x t D) as (_&_&d3&_&_&_&d7&_).
    unfold live_face, nf, f_deleted. rewrite d3, d7, flag_all_single_other by exact Nxy. split; assumption.
Qed.

Lemma ninv_del_desc_edges l s : NoDup l -> ninv s -> (forall e, In e l -> ok_edge s e) -> ninv (del_desc delete_edge_core l s).
Proof.
  intros Nd I O. apply (del_desc_inv delete_edge_core ninv ok_edge); auto.
  - intros t x It [A B]. apply ninv_edge_core; assumption.
  - intros t x y (D & _) _ [C E] Nxy. destruct (delete_edge_core_deferred x t D) as (_&d2&_&_&_&d6&_).
    unfold ok_edge, ne, e_deleted. rewrite d2, d6, flag_all_single_other by exact Nxy. split; assumption.
Qed.

(* ================================================================== the public deletions *)

Lemma ninv_cells_phase s fs : ninv s -> (forall f, In f fs -> f < nf s) ->
  let cs := incident_cells_of_faces s fs in let t := del_desc delete_cell_core cs s in
  ninv t /\ dstep s t [] [] [] (rev cs).
Proof.
  intros I Hfs. cbv zeta. pose proof I as (D & _ & (_ & _ & FO & _)).
  rewrite (incident_cells_cache_is_scan s fs FO Hfs). split; [|apply del_desc_cells; exact D].
  apply ninv_del_desc_cells; [apply NoDup_cells_at_faces|exact I|]. intros c Hc. exact (cells_at_faces_live s fs c Hc).
Qed.

Theorem ninv_delete_cell c s : ninv s -> c < nc s -> c_deleted s c = false -> ninv (delete_cell c s).
Proof. exact (ninv_cell_core c s). Qed.

Theorem ninv_delete_face f s : ninv s -> f < nf s -> f_deleted s f = false -> ninv (delete_face f s).
Proof.
  intros I Hf Hl. unfold delete_face. destruct (ninv_cells_phase s [f] I ltac:(intros x [<-|[]]; exact Hf)) as [It DS]. cbv zeta in It, DS.
  destruct DS as (_&_&d3&_&_&_&d7&_). apply ninv_face_core; [exact It| |].
  - unfold nf. rewrite d3. exact Hf.
  - unfold f_deleted. rewrite d7. exact Hl.
Qed.

Lemma ninv_upper_phases s es : ninv s -> (forall e, In e es -> e < ne s) ->
  let fs := incident_faces_of_edges s es in let cs := incident_cells_of_faces s fs in
  let t2 := del_desc delete_face_core fs (del_desc delete_cell_core cs s) in
  ninv t2 /\ edges t2 = edges s /\ edel t2 = edel s.
Proof.
  intros I Hes. cbv zeta. pose proof I as (D & _ & (_ & EO & _)).
  rewrite (incident_faces_cache_is_scan s es EO Hes). set (fs := faces_at_edges s es).
  assert (Hfs : forall f, In f fs -> f < nf s /\ f_deleted s f = false) by (intros f Hf; exact (faces_at_edges_live s es f Hf)).
  destruct (ninv_cells_phase s fs I (fun f Hf => proj1 (Hfs f Hf))) as [It DS]. cbv zeta in It, DS.
  set (t1 := del_desc delete_cell_core (incident_cells_of_faces s fs) s) in *.
  assert (It2 : ninv (del_desc delete_face_core fs t1)).
  { apply ninv_del_desc_faces; [apply NoDup_faces_at_edges|exact It|]. intros f Hf. destruct (Hfs f Hf) as [A B].
    destruct DS as (_&_&d3&_&_&_&d7&_). unfold live_face, nf, f_deleted. rewrite d3, d7. split; assumption. }
  split; [exact It2|].
  pose proof (del_desc_faces fs t1 (dstep_deferred _ _ _ _ _ _ DS D)) as DS2.
  destruct DS as (_&a2&_&_&_&a6&_). destruct DS2 as (_&b2&_&_&_&b6&_). unfold flag_all in *. simpl in a6, b6. split; congruence.
Qed.

Theorem ninv_delete_edge e s : ninv s -> e < ne s -> e_deleted s e = false -> ninv (delete_edge e s).
Proof.
  intros I He Hl. unfold delete_edge. destruct (ninv_upper_phases s [e] I ltac:(intros x [<-|[]]; exact He)) as (It & E1 & E2). cbv zeta in It, E1, E2.
  apply ninv_edge_core; [exact It| |].
  - unfold ne. rewrite E1. exact He.
  - unfold e_deleted. rewrite E2. exact Hl.
Qed.

Theorem ninv_delete_vertex v s : ninv s -> v < nv s -> ninv (delete_vertex v s).
Proof.
  intros I Hv. unfold delete_vertex. pose proof I as (_ & _ & (VO & _)).
  rewrite (incident_edges_cache_is_scan s v VO Hv). set (es := edges_at_vertex s v).
  assert (Hes : forall e, In e es -> e < ne s /\ e_deleted s e = false) by (intros e He; exact (edges_at_vertex_live s v e He)).
  destruct (ninv_upper_phases s es I (fun e He => proj1 (Hes e He))) as (It & E1 & E2). cbv zeta in It, E1, E2.
  apply ninv_vertex_core. apply ninv_del_desc_edges; [apply NoDup_edges_at_vertex|exact It|].
  intros e He. destruct (Hes e He) as [A B]. unfold ok_edge, ne, e_deleted. rewrite E1, E2. split; assumption.
Qed.

(* ================================================================== gc_ready after one deferred deletion, any incidences *)

Lemma ninv_ginv s : ninv s -> up_closed s -> length (vdel s) = nv s -> ginv s.
Proof.
  intros (_ & N & B) U LV. split; [exact B|]. split; [exact LV|]. split; [exact U|]. intros E Fb. rewrite E, Fb in N. discriminate.
Qed.

Section AnyConfig.
Context (s : mesh).
Context (I : shift_inv2 s) (Z : sized s) (N : ebu s && fbu s = false).

Lemma ninv_dmode : ninv (dmode s).
Proof. destruct I as [(_ & VO & EO & FO & R & L) _]. split; [reflexivity|]. split; [exact N|]. exact (conj VO (conj EO (conj FO (conj R L)))). Qed.

Lemma dmode_base : flag_lens (dmode s) /\ refs_ok (dmode s) /\ up_closed (dmode s) /\ vbu_ok (dmode s) /\ ebu_ok (dmode s) /\ fbu_ok (dmode s).
Proof.
  destruct I as [(NF & VO & EO & FO & R & L) _]. split; [exact (sized_flag_lens s Z)|]. split; [exact R|]. split; [exact (up_closed_no_flags (dmode s) NF)|].
  exact (conj VO (conj EO FO)).
Qed.

Lemma ready_of_dstep d dv de df dc : dstep (dmode s) d dv de df dc -> closure_ok (dmode s) dv de df dc -> ninv d ->
  0 < length dv + length de + length df + length dc -> gc_ready d.
Proof.
  intros DS C Nd P. destruct dmode_base as (FL & R & U & _). destruct (up_closed_dstep _ _ _ _ _ _ DS FL R U C) as [U' (LV' & _)].
  split; [exact (proj1 Nd)|]. split; [intros G; rewrite (dstep_pending _ _ _ _ _ _ DS P) in G; discriminate|apply ninv_ginv; assumption].
Qed.

Theorem ready_delete_vertex v : v < nv s -> gc_ready (delete_vertex v (dmode s)).
Proof.
  intros Hv. destruct dmode_base as (_ & _ & _ & VO & EO & FO).
  apply (ready_of_dstep _ _ _ _ _ (dstep_delete_vertex (dmode s) v eq_refl VO EO FO Hv) (closure_ok_vertex (dmode s) v)).
  - apply ninv_delete_vertex; [exact ninv_dmode|exact Hv].
  - cbn [length]. lia.
Qed.
Theorem ready_delete_edge e : e < ne s -> gc_ready (delete_edge e (dmode s)).
Proof.
  intros He. destruct dmode_base as (_ & _ & _ & VO & EO & FO). pose proof I as ((( _ & NFe & _) & _) & _).
  apply (ready_of_dstep _ _ _ _ _ (dstep_delete_edge (dmode s) e eq_refl EO FO He) (closure_ok_edge (dmode s) e)).
  - apply ninv_delete_edge; [exact ninv_dmode|exact He|apply NFe].
  - cbn [length]. lia.
Qed.
Theorem ready_delete_face f : f < nf s -> gc_ready (delete_face f (dmode s)).
Proof.
  intros Hf. destruct dmode_base as (_ & _ & _ & VO & EO & FO). pose proof I as ((( _ & _ & NFf & _) & _) & _).
  apply (ready_of_dstep _ _ _ _ _ (dstep_delete_face (dmode s) f eq_refl FO Hf) (closure_ok_face (dmode s) f)).
  - apply ninv_delete_face; [exact ninv_dmode|exact Hf|apply NFf].
  - cbn [length]. lia.
Qed.
Theorem ready_delete_cell c : c < nc s -> gc_ready (delete_cell c (dmode s)).
Proof.
  intros Hc. pose proof I as ((( _ & _ & _ & NFc) & _) & _).
  apply (ready_of_dstep _ _ _ _ _ (delete_cell_deferred c (dmode s) eq_refl) (closure_ok_cell (dmode s) c)).
  - apply ninv_delete_cell; [exact ninv_dmode|exact Hc|apply NFc].
  - cbn [length]. lia.
Qed.
End AnyConfig.

(* ================================================================== collection = immediate deletion, any incidences *)

Theorem collection_equals_immediate_deletion_any s : shift_inv2 s -> sized s -> forall x,
  (x < nv s -> same_mesh (collect_garbage (delete_vertex x (dmode s))) (delete_vertex x (imode s))) /\
  (x < ne s -> same_mesh (collect_garbage (delete_edge x (dmode s))) (delete_edge x (imode s))) /\
  (x < nf s -> same_mesh (collect_garbage (delete_face x (dmode s))) (delete_face x (imode s))) /\
  (x < nc s -> same_mesh (collect_garbage (delete_cell x (dmode s))) (delete_cell x (imode s))).
Proof.
  intros I Z x. destruct (ebu s && fbu s) eqn:N.
  - apply andb_true_iff in N. destruct N as [E Fb]. exact (collection_equals_immediate_deletion s I Z E Fb x).
  - split; [|split; [|split]]; intros Hx.
    + apply (equiv_vertex s I Z x Hx). apply ready_delete_vertex; assumption.
    + apply (equiv_edge s I Z x Hx). apply ready_delete_edge; assumption.
    + apply (equiv_face s I Z x Hx). apply ready_delete_face; assumption.
    + apply (equiv_cell s I Z x Hx). apply ready_delete_cell; assumption.
Qed.
