(* Kernel3/GcCell.v -- C04, the CELL pass of collect_garbage in NON-FAST mode.
   One step: the flag of cell h is cleared and delete_cell_core h runs in immediate mode.  Because the caches list only LIVE
   referrers, no halfface->cell entry points to the flagged cell: nothing is cleared, the re-ordering walks never see the cell,
   slot h leaves the cell array / flag array, larger cell handles in the cache are decremented.  The invariant ginv holds again.
   The pass: all flagged cells are gone (compact), nothing else changed, ginv holds, no cell flag is left. *)
From Coq Require Import ZArith Lia Bool Arith List ZifyNat ZifyBool Permutation.
From OVM Require Import Base.ListX Base.ListLemmas Kernel.State Kernel.Ops Kernel.Mirror Kernel.Recompute Kernel.Closure Kernel.ExactInv
                        Kernel.DeleteEffects
                        Kernel2.LookupModel Kernel2.ListAux Kernel2.AdjacentProofs Kernel2.ReorderExact Kernel2.ExactBase Kernel2.ExactDelCell
                        Kernel.ShiftFace Kernel.ShiftCompose Kernel3.GcDefs Kernel3.GcList Kernel3.GcInv Kernel3.GcReorder.
Import ListNotations.
Ltac Zify.zify_post_hook ::= Z.div_mod_to_equations.
Local Open Scope nat_scope.

Lemma set_inc_cell_self s : set_inc_cell (inc_cell s) s = s.
Proof. destruct s; reflexivity. Qed.

Section CellStep.
Context (s : mesh) (h : nat).
Context (D : deferred s = false) (F : fast s = false) (I : ginv s) (Hh : h < nc s) (Hd : c_deleted s h = true).

Local Notation sc := (clr_c h s).
Local Notation s' := (delete_cell_core h (clr_c h s)).

(* no cache entry points to the flagged cell *)
Lemma gc_no_entry : fbu s = true -> forall x, cell_of s x <> Some h.
Proof.
  intros Fb x Hx. destruct I as ((_ & _ & FO & _ & (_ & _ & L3 & _)) & _).
  destruct (Nat.lt_ge_cases x (2 * nf s)) as [Hl|Hg].
  - apply (FO Fb x Hl h) in Hx. destruct Hx as (_ & Hx & _). congruence.
  - unfold cell_of in Hx. rewrite nth_overflow in Hx by (rewrite (L3 Fb); exact Hg). discriminate.
Qed.

Lemma gc_clear_fold_id : fbu s = true -> fold_left (clear_step h) (cell_at s h) (inc_cell s) = inc_cell s.
Proof.
  intros Fb. apply (list_ext_nth _ _ None); [apply length_clear_fold|]. intros k _. rewrite nth_clear_fold.
  fold (cell_of s k). pose proof (gc_no_entry Fb k) as N. destruct (cell_of s k) as [c|]; cbn [is_h]; [|rewrite andb_false_r; reflexivity].
  destruct (Nat.eqb_spec c h) as [->|]; [congruence|]. rewrite andb_false_r. reflexivity.
Qed.

Lemma gc_cleared_id : fbu s = true -> cleared sc h = sc.
Proof.
  intros Fb. unfold cleared. change (cell_at sc h) with (cell_at s h). change (inc_cell sc) with (inc_cell s).
  rewrite (gc_clear_fold_id Fb). apply (set_inc_cell_self sc).
Qed.

(* the lists after the step satisfy the specification of the exact state before it *)
Lemma gc_cell_lists : ebu s = true -> fbu s = true -> slots_spec s' (P_live s).
Proof.
  intros E Fb.
  assert (Eq : inc_hfs s' = inc_hfs (cell_loop h sc)) by (apply delete_cell_core_inc_hfs; cbn [fast clr_c set_cdel]; rewrite F; reflexivity).
  unfold cell_loop in Eq. change (fbu sc) with (fbu s) in Eq. rewrite Fb in Eq. cbv zeta in Eq.
  rewrite (gc_cleared_id Fb) in Eq. change (ebu sc) with (ebu s) in Eq. rewrite E in Eq.
  match type of Eq with _ = inc_hfs (reorder_edges ?es _) => set (es0 := es) in * end.
  assert (U : same_upper s sc) by (repeat split).
  assert (S0 : slots_spec sc (P_live s)) by (apply (slots_spec_transfer s sc); [reflexivity|reflexivity|apply ginv_slots_spec; assumption]).
  pose proof (reorder_edges_keeps_spec s sc I E Fb U es0 S0) as S1.
  assert (Ed : edges s' = edges sc).
  { pose proof (delete_cell_core_view h sc D F) as V. cbv zeta in V. destruct V as (_ & w2 & _). exact w2. }
  intros k Hk. unfold ne in Hk. rewrite Ed in Hk. unfold hfs_at. rewrite Eq.
  destruct (reorder_edges_frame2 es0 sc) as [x [Ex _]]. apply (S1 k). rewrite Ex. exact Hk.
Qed.

Theorem gc_cell_step :
  ginv s' /\ deferred s' = false /\ fast s' = false /\
  nv s' = nv s /\ edges s' = edges s /\ faces s' = faces s /\ cells s' = remove_nth h (cells s) /\
  vdel s' = vdel s /\ edel s' = edel s /\ fdel s' = fdel s /\ cdel s' = remove_nth h (cdel s) /\
  (vbu s' = vbu s /\ ebu s' = ebu s /\ fbu s' = fbu s) /\
  (faces_simple s -> faces_simple s').
Proof.
  pose proof I as ((VO & EO & FO & (R1 & R2 & R3) & (L1 & L2 & L3 & L4 & L5 & L6)) & LV & (U1 & U2 & U3) & X).
  pose proof (delete_cell_core_view h sc D F) as V. cbv zeta in V.
  destruct V as (w1 & w2 & w3 & w4 & w5 & w6 & w7 & w8 & w9 & w10 & w11 & w12 & (m1 & m2 & m3 & m4 & m5)).
  change (nv sc) with (nv s) in w1. change (edges sc) with (edges s) in w2. change (faces sc) with (faces s) in w3.
  change (cells sc) with (cells s) in w4. change (vdel sc) with (vdel s) in w5. change (edel sc) with (edel s) in w6.
  change (fdel sc) with (fdel s) in w7. change (cdel sc) with (upd h false (cdel s)) in w8. rewrite remove_nth_upd_same in w8.
  change (out_hes sc) with (out_hes s) in w9. change (fbu sc) with (fbu s) in w10, w12. change (inc_cell sc) with (inc_cell s) in w10.
  change (inc_hfs sc) with (inc_hfs s) in w11, w12. change (ebu sc) with (ebu s) in w12.
  change (vbu sc) with (vbu s) in m1. change (ebu sc) with (ebu s) in m2. change (fbu sc) with (fbu s) in m3.
  set (t := delete_cell_core h (clr_c h s)) in *.
  assert (NE : ne t = ne s) by (unfold ne; rewrite w2; reflexivity).
  assert (NF_ : nf t = nf s) by (unfold nf; rewrite w3; reflexivity).
  assert (NC : nc t = nc s - 1) by (unfold nc; rewrite w4; apply remove_nth_length; exact Hh).
  assert (CAt : forall c, cell_at t c = cell_at s (unshift1 h c)) by (intros c; unfold cell_at; rewrite w4; apply nth_remove_nth_unshift).
  assert (CD : forall c, c_deleted t c = c_deleted s (unshift1 h c)) by (intros c; unfold c_deleted; rewrite w8; apply flag_after_remove).
  assert (HFc : forall x, halfface t x = halfface s x) by (intros x; unfold halfface, face_at; rewrite w3; reflexivity).
  assert (FD : forall f, f_deleted t f = f_deleted s f) by (intros f; unfold f_deleted; rewrite w7; reflexivity).
  assert (CO : fbu s = true -> forall x, cell_of t x = option_map (cor1 h) (cell_of s x)).
  { intros Fb x. unfold cell_of. rewrite w10, Fb. unfold cell_inc. change (cell_at sc h) with (cell_at s h). change (inc_cell sc) with (inc_cell s).
    rewrite (gc_clear_fold_id Fb). apply nth_map_option. }
  assert (FO' : fbu_ok t).
  { intros Fb hf Hhf c. rewrite m3 in Fb. rewrite NF_ in Hhf. rewrite (CO Fb), NC, CD, CAt.
    assert (Hu : c < nc s - 1 <-> unshift1 h c < nc s) by (symmetry; apply unshift1_lt; exact Hh).
    pose proof (FO Fb hf Hhf (unshift1 h c)) as T.
    destruct (cell_of s hf) as [c0|] eqn:Ec; cbn [option_map].
    - pose proof (proj1 (FO Fb hf Hhf c0) Ec) as (A1 & A2 & A3).
      assert (N0 : c0 <> h) by (intros ->; congruence). split.
      + intros Eq. injection Eq as Eq. assert (c0 = unshift1 h c) by (rewrite <- Eq; symmetry; apply unshift1_cor1; exact N0). subst c0. tauto.
      + intros (B1 & B2 & B3). assert (Eq : Some c0 = Some (unshift1 h c)) by (apply T; tauto). injection Eq as ->. rewrite cor1_unshift1. reflexivity.
    - split; [discriminate|]. intros (B1 & B2 & B3). exfalso. assert (Eq : None = Some (unshift1 h c)) by (apply T; tauto). discriminate. }
  assert (LS : ebu s = true -> forall k, k < 2 * ne s -> (fbu s = true -> NoDup (hfs_at t k)) /\ forall x, In x (hfs_at t k) <-> In x (hfs_at s k)).
  { intros E k Hk. destruct (fbu s) eqn:Fb.
    - assert (Hk' : k < 2 * ne t) by (rewrite NE; exact Hk).
      destruct (gc_cell_lists E Fb k Hk') as [Nd M]. fold t in Nd, M. split; [intros _; exact Nd|].
      intros x. rewrite M. symmetry. exact (EO E k Hk x).
    - split; [discriminate|]. intros x. unfold hfs_at. rewrite w12 by (rewrite E; reflexivity). reflexivity. }
  refine (conj _ (conj m4 (conj m5 (conj w1 (conj w2 (conj w3 (conj w4 (conj w5 (conj w6 (conj w7 (conj w8 (conj (conj m1 (conj m2 m3)) _)))))))))))).
  - split; [|split; [rewrite w5, w1; exact LV|split]].
    + (* bu_inv *)
      split; [|split; [|split; [exact FO'|split; [split; [|split]|unfold lens_ok; split; [|split; [|split; [|split; [|split]]]]]]]].
      * intros Vb v Hv x. rewrite m1 in Vb. rewrite w1 in Hv. unfold out_at, e_deleted, he_from, edge_at. rewrite w9, NE, w6, w2. exact (VO Vb v Hv x).
      * intros E k Hk x. rewrite m2 in E. rewrite NE in Hk. rewrite (proj2 (LS E k Hk) x), (EO E k Hk x), NF_, FD, HFc. reflexivity.
      * intros e He Hde. rewrite NE in He. unfold e_deleted in Hde. rewrite w6 in Hde. unfold edge_at. rewrite w2, w1. exact (R1 e He Hde).
      * intros f Hf Hdf x Hx. rewrite NF_ in Hf. rewrite FD in Hdf. unfold face_at in Hx. rewrite w3 in Hx. rewrite NE. exact (R2 f Hf Hdf x Hx).
      * intros c Hc Hdc x Hx. rewrite NC in Hc. rewrite CD in Hdc. rewrite CAt in Hx. rewrite NF_.
        apply (R3 (unshift1 h c)); [apply unshift1_lt; assumption|exact Hdc|exact Hx].
      * intros Vb. rewrite m1 in Vb. rewrite w9, w1. exact (L1 Vb).
      * intros E. rewrite m2 in E. rewrite w11, NE. exact (L2 E).
      * intros Fb. rewrite m3 in Fb. rewrite w10, Fb, NF_. unfold cell_inc. rewrite map_length, length_clear_fold. exact (L3 Fb).
      * rewrite w6, NE. exact L4.
      * rewrite w7, NF_. exact L5.
      * rewrite w8, NC, remove_nth_length by (rewrite L6; exact Hh). rewrite L6. reflexivity.
    + (* up_closed *)
      split; [|split].
      * intros e He Hde. rewrite NE in He. unfold e_deleted in Hde. rewrite w6 in Hde. unfold v_deleted, edge_at. rewrite w5, w2. exact (U1 e He Hde).
      * intros f Hf Hdf he Hhe. rewrite NF_ in Hf. rewrite FD in Hdf. unfold face_at in Hhe. rewrite w3 in Hhe. unfold e_deleted. rewrite w6.
        exact (U2 f Hf Hdf he Hhe).
      * intros c Hc Hdc hf Hhf. rewrite NC in Hc. rewrite CD in Hdc. rewrite CAt in Hhf. rewrite FD.
        apply (U3 (unshift1 h c)); [apply unshift1_lt; assumption|exact Hdc|exact Hhf].
    + (* gext *)
      intros E' Fb'. assert (E : ebu s = true) by congruence. assert (Fb : fbu s = true) by congruence.
      destruct (X E Fb) as (SN & LC). split.
      * intros k Hk. rewrite NE in Hk. exact (proj1 (LS E k Hk) Fb).
      * intros c Hc Hdc. rewrite NC in Hc. rewrite CD in Hdc. assert (Hu : unshift1 h c < nc s) by (apply unshift1_lt; assumption).
        apply (closed_cell_same s t (unshift1 h c) c (CAt c) w3); [|exact (LC _ Hu Hdc)].
        intros y Hy. apply (FO' Fb').
        -- rewrite NF_. exact (R3 _ Hu Hdc y Hy).
        -- split; [rewrite NC; exact Hc|]. split; [rewrite CD; exact Hdc|rewrite CAt; exact Hy].
  - intros FS f Hf Hdf. rewrite NF_ in Hf. rewrite FD in Hdf. unfold face_at. rewrite w3. exact (FS f Hf Hdf).
Qed.
End CellStep.

(* ================================================================== flags and property arrays: unconditional *)

Lemma gc_cell_step_props s h : deferred s = false -> fast s = false -> let s' := delete_cell_core h (clr_c h s) in
  pc s' = map (pdelete h) (pc s) /\ pv s' = pv s /\ pe s' = pe s /\ phe s' = phe s /\ pf s' = pf s /\ phf s' = phf s /\ pm s' = pm s.
Proof.
  intros D F. cbv zeta. pose proof (delete_cell_core_props h (clr_c h s) D) as P. cbv zeta in P. unfold victim in P.
  change (fast (clr_c h s)) with (fast s) in P. rewrite F in P. cbn [andb] in P.
  destruct P as (_ & p2 & _ & _ & _ & p6 & p7 & p8 & p9 & p10 & p11). repeat split; assumption.
Qed.

Lemma pcompact_remove del n p : nth n del false = true -> pcompact (remove_nth n del) (pdelete n p) = pcompact del p.
Proof. intros H. unfold pcompact, pdelete. cbn [pdef pdata]. rewrite compact_remove by exact H. reflexivity. Qed.

Lemma pcompact_all_false del p : (forall i, nth i del false = false) -> pcompact del p = p.
Proof. intros H. unfold pcompact. rewrite compact_all_false by exact H. destruct p; reflexivity. Qed.

Lemma map_pcompact_all_false del l : (forall i, nth i del false = false) -> map (pcompact del) l = l.
Proof. intros H. apply map_id_on. intros p _. apply pcompact_all_false. exact H. Qed.

Lemma map_pcompact_remove del n l : nth n del false = true -> map (pcompact (remove_nth n del)) (map (pdelete n) l) = map (pcompact del) l.
Proof. intros H. rewrite map_map. apply map_ext. intros p. apply pcompact_remove. exact H. Qed.

(* ================================================================== the pass *)

Theorem gc_cell_pass n : forall s, deferred s = false -> fast s = false -> ginv s -> n <= nc s ->
  (forall i, n <= i -> c_deleted s i = false) ->
  let t := pass_c n s in
  ginv t /\ deferred t = false /\ fast t = false /\ no_cflags t /\
  nv t = nv s /\ edges t = edges s /\ faces t = faces s /\ cells t = compact (cdel s) (cells s) /\
  vdel t = vdel s /\ edel t = edel s /\ fdel t = fdel s /\ cdel t = compact (cdel s) (cdel s) /\
  (vbu t = vbu s /\ ebu t = ebu s /\ fbu t = fbu s) /\
  (pc t = map (pcompact (cdel s)) (pc s) /\ pv t = pv s /\ pe t = pe s /\ phe t = phe s /\ pf t = pf s /\ phf t = phf s /\ pm t = pm s) /\
  (faces_simple s -> faces_simple t).
Proof.
  unfold pass_c. induction n as [|n IH]; intros s D F I Hn Hi; cbv zeta.
  - rewrite gc_pass_0.
    assert (NC : forall i, nth i (cdel s) false = false) by (intros i; apply (Hi i); lia).
    rewrite !compact_all_false, map_pcompact_all_false by exact NC.
    refine (conj I (conj D (conj F (conj _ _)))); [exact NC|]. splits; auto.
  - rewrite gc_pass_S. destruct (c_deleted s n) eqn:Hd.
    + assert (Hlt : n < nc s) by lia.
      pose proof (gc_cell_step s n D F I Hlt Hd) as St. pose proof (gc_cell_step_props s n D F) as Pr. cbv zeta in Pr.
      fold (clr_c n s) in *. set (s1 := delete_cell_core n (clr_c n s)) in *.
      destruct St as (I1 & D1 & F1 & a1 & a2 & a3 & a4 & a5 & a6 & a7 & a8 & (m1 & m2 & m3) & FS1).
      destruct Pr as (q1 & q2 & q3 & q4 & q5 & q6 & q7).
      assert (Hn1 : n <= nc s1) by (unfold nc; rewrite a4, remove_nth_length by exact Hlt; fold (nc s); lia).
      assert (Hi1 : forall i, n <= i -> c_deleted s1 i = false).
      { intros i Hge. unfold c_deleted. rewrite a8, flag_after_remove, unshift1_ge by exact Hge. apply (Hi (S i)). lia. }
      specialize (IH s1 D1 F1 I1 Hn1 Hi1). cbv zeta in IH.
      destruct IH as (It & Dt & Ft & NCt & b1 & b2 & b3 & b4 & b5 & b6 & b7 & b8 & (n1 & n2 & n3) & (r1 & r2 & r3 & r4 & r5 & r6 & r7) & FSt).
      assert (Hd' : nth n (cdel s) false = true) by exact Hd.
      refine (conj It (conj Dt (conj Ft (conj NCt _)))).
      rewrite b1, b2, b3, b4, b5, b6, b7, b8, n1, n2, n3, r1, r2, r3, r4, r5, r6, r7.
      rewrite a1, a2, a3, a4, a5, a6, a7, a8, m1, m2, m3, q1, q2, q3, q4, q5, q6, q7.
      rewrite !compact_remove, map_pcompact_remove by exact Hd'. splits; auto.
    + apply (IH s D F I); [lia|]. intros i Hge. destruct (Nat.eq_dec i n) as [->|N]; [exact Hd|apply Hi; lia].
Qed.
