(* Kernel3/GcVertex.v -- C04, the VERTEX pass of collect_garbage in NON-FAST mode (after the other three passes: only vertex
   flags are left).  One step: the flag of vertex h is cleared and delete_vertex_core h runs in immediate mode.  No edge has the
   flagged vertex as an endpoint (upward closure, all edges live), so every endpoint above h is decremented - by the cache-guided
   loop and by the scan alike (Kernel/ShiftVertex.v, applied to the state with the vertex flags erased: the core never reads
   them) -, slot h leaves the flag / property / vertex->halfedge arrays, and ginv holds again.
   The pass: nv = number of live vertices, edges renamed through rank of the old vertex flags. *)
From Coq Require Import ZArith Lia Bool Arith List ZifyNat ZifyBool Permutation.
From OVM Require Import Base.ListX Base.ListLemmas Kernel.State Kernel.Ops Kernel.Mirror Kernel.Recompute Kernel.Closure Kernel.ExactInv
                        Kernel.ExactDelete Kernel.DeleteEffects
                        Kernel2.LookupModel Kernel2.ListAux Kernel2.AdjacentProofs Kernel2.ReorderExact Kernel2.ExactBase
                        Kernel.ShiftFace Kernel.ShiftEdge Kernel.ShiftVertex Kernel.ShiftCompose
                        Kernel3.GcDefs Kernel3.GcList Kernel3.GcInv Kernel3.GcCell Kernel3.GcFace.
Import ListNotations.
Ltac Zify.zify_post_hook ::= Z.div_mod_to_equations.
Local Open Scope nat_scope.

Section VertexStep.
Context (s : mesh) (h : nat).
Context (D : deferred s = false) (F : fast s = false) (I : ginv s).
Context (NE : no_eflags s) (NFf : no_fflags s) (NC : no_cflags s) (Hh : h < nv s) (Hd : v_deleted s h = true).

Local Notation sv := (clr_v h s).
Local Notation s' := (delete_vertex_core h (clr_v h s)).

Lemma gcv_vertex_free : vertex_free s h.
Proof. apply ginv_vertex_free; assumption. Qed.

Lemma gcv_edges_in_range : edges_in_range s.
Proof. destruct I as ((_ & _ & _ & (R1 & _) & _) & _). intros e He. exact (R1 e He (NE e)). Qed.

(* ---------------------------------------------------------------- the edges *)
Lemma gcv_edges : edges s' = map (cor1p h) (edges s).
Proof.
  pose proof I as ((VO & _) & _).
  pose proof (delete_vertex_core_view h sv D F) as V. cbv zeta in V. destruct V as (_ & -> & _).
  change (vbu sv) with (vbu s).
  set (s0 := set_vdel [] s).
  assert (NF0 : no_flags s0).
  { split; [intros i; unfold v_deleted, s0; cbn [vdel set_vdel]; apply nth_false_nil|]. split; [exact NE|]. split; [exact NFf|exact NC]. }
  destruct (vbu s) eqn:Vb.
  - change (vloop h sv) with (vloop h s0). change (edges s) with (edges s0).
    apply vloop_is_map; [exact NF0|exact Vb|exact VO|exact gcv_edges_in_range|exact gcv_vertex_free].
  - change (vscan h sv) with (vscan h s0). change (edges s) with (edges s0). apply vscan_is_map. exact NF0.
Qed.

(* ---------------------------------------------------------------- the step *)
Theorem gc_vertex_step :
  ginv s' /\ deferred s' = false /\ fast s' = false /\ no_eflags s' /\ no_fflags s' /\ no_cflags s' /\
  nv s' = nv s - 1 /\ edges s' = map (cor1p h) (edges s) /\ faces s' = faces s /\ cells s' = cells s /\
  vdel s' = remove_nth h (vdel s) /\ edel s' = edel s /\ fdel s' = fdel s /\ cdel s' = cdel s /\
  (vbu s' = vbu s /\ ebu s' = ebu s /\ fbu s' = fbu s) /\
  (faces_simple s -> faces_simple s').
Proof.
  pose proof I as ((VO & EO & FO & (R1 & R2 & R3) & (L1 & L2 & L3 & L4 & L5 & L6)) & LV & (U1 & U2 & U3) & X).
  pose proof gcv_vertex_free as VF. pose proof gcv_edges_in_range as ER. pose proof gcv_edges as Ed.
  pose proof (delete_vertex_core_view h sv D F) as V. cbv zeta in V.
  destruct V as (w1 & _ & w3 & w4 & w5 & w6 & w7 & w8 & w9 & w10 & w11 & (m1 & m2 & m3 & m4 & m5)).
  change (nv sv) with (nv s) in w1. change (faces sv) with (faces s) in w3. change (cells sv) with (cells s) in w4.
  change (vdel sv) with (upd h false (vdel s)) in w5. rewrite remove_nth_upd_same in w5.
  change (edel sv) with (edel s) in w6. change (fdel sv) with (fdel s) in w7. change (cdel sv) with (cdel s) in w8.
  change (vbu sv) with (vbu s) in w9, m1. change (out_hes sv) with (out_hes s) in w9.
  change (inc_hfs sv) with (inc_hfs s) in w10. change (inc_cell sv) with (inc_cell s) in w11.
  change (ebu sv) with (ebu s) in m2. change (fbu sv) with (fbu s) in m3.
  set (t := delete_vertex_core h (clr_v h s)) in *.
  assert (NE_ : ne t = ne s) by (unfold ne; rewrite Ed, map_length; reflexivity).
  assert (NF_ : nf t = nf s) by (unfold nf; rewrite w3; reflexivity).
  assert (NC_ : nc t = nc s) by (unfold nc; rewrite w4; reflexivity).
  assert (EA : forall e, edge_at t e = cor1p h (edge_at s e)).
  { intros e. unfold edge_at. rewrite Ed. apply nth_map_fix. reflexivity. }
  assert (HF : forall x, he_from t x = cor1 h (he_from s x)).
  { intros x. rewrite !he_from_cases, EA. unfold cor1p. cbn [fst snd]. destruct (x mod 2 =? 0); reflexivity. }
  assert (VD : forall v, v_deleted t v = v_deleted s (unshift1 h v)) by (intros v; unfold v_deleted; rewrite w5; apply flag_after_remove).
  assert (ED : forall e, e_deleted t e = e_deleted s e) by (intros e; unfold e_deleted; rewrite w6; reflexivity).
  assert (FD : forall f, f_deleted t f = f_deleted s f) by (intros f; unfold f_deleted; rewrite w7; reflexivity).
  assert (CD : forall c, c_deleted t c = c_deleted s c) by (intros c; unfold c_deleted; rewrite w8; reflexivity).
  assert (NEt : no_eflags t) by (intros e; rewrite ED; apply NE).
  assert (NFt : no_fflags t) by (intros f; rewrite FD; apply NFf).
  assert (NCt : no_cflags t) by (intros c; rewrite CD; apply NC).
  refine (conj _ (conj m4 (conj m5 (conj NEt (conj NFt (conj NCt (conj w1 (conj Ed (conj w3 (conj w4 (conj w5 (conj w6 (conj w7 (conj w8 (conj (conj m1 (conj m2 m3)) _))))))))))))))).
  - split; [|split; [|split]].
    + (* bu_inv *)
      split; [|split; [|split; [|split; [split; [|split]|unfold lens_ok; split; [|split; [|split; [|split; [|split]]]]]]]].
      * (* vbu_ok *)
        intros Vb v Hv x. rewrite m1 in Vb. rewrite w1 in Hv. unfold out_at. rewrite w9, Vb, nth_remove_nth_unshift. fold (out_at s (unshift1 h v)).
        assert (Hu : unshift1 h v < nv s) by (apply unshift1_lt; assumption).
        rewrite (VO Vb _ Hu x), NE_, HF, ED.
        split; intros (a & b & c); (split; [exact a|split; [exact b|]]).
        -- rewrite c. apply cor1_unshift1.
        -- apply cor1_eq_iff; [|exact c]. rewrite he_from_cases. destruct (VF _ a) as [F1 F2]. destruct (x mod 2 =? 0); assumption.
      * intros E k Hk x. rewrite m2 in E. rewrite NE_ in Hk. unfold hfs_at, halfface, face_at, f_deleted. rewrite w10, NF_, w7, w3. exact (EO E k Hk x).
      * intros Fb hf Hhf c. rewrite m3 in Fb. rewrite NF_ in Hhf. unfold cell_of, cell_at, c_deleted. rewrite w11, NC_, w8, w4. exact (FO Fb hf Hhf c).
      * intros e He _. rewrite NE_ in He. rewrite EA, w1. destruct (ER e He) as [A B]. destruct (VF e He) as [F1 F2].
        unfold cor1p, cor1. cbn [fst snd]. ltb_cases; lia.
      * intros f Hf Hdf x Hx. rewrite NF_ in Hf. rewrite FD in Hdf. unfold face_at in Hx. rewrite w3 in Hx. rewrite NE_. exact (R2 f Hf Hdf x Hx).
      * intros c Hc Hdc x Hx. rewrite NC_ in Hc. rewrite CD in Hdc. unfold cell_at in Hx. rewrite w4 in Hx. rewrite NF_. exact (R3 c Hc Hdc x Hx).
      * intros Vb. rewrite m1 in Vb. rewrite w9, Vb, w1, remove_nth_length by (rewrite (L1 Vb); exact Hh). rewrite (L1 Vb). reflexivity.
      * intros E. rewrite m2 in E. rewrite w10, NE_. exact (L2 E).
      * intros Fb. rewrite m3 in Fb. rewrite w11, NF_. exact (L3 Fb).
      * rewrite w6, NE_. exact L4.
      * rewrite w7, NF_. exact L5.
      * rewrite w8, NC_. exact L6.
    + rewrite w5, w1, remove_nth_length by (rewrite LV; exact Hh). rewrite LV. reflexivity.
    + (* up_closed *)
      split; [|split].
      * intros e He _. rewrite NE_ in He. rewrite EA. unfold cor1p. cbn [fst snd]. destruct (VF e He) as [F1 F2].
        rewrite !VD, !unshift1_cor1 by assumption. exact (U1 e He (NE e)).
      * intros f Hf Hdf he Hhe. rewrite NF_ in Hf. rewrite FD in Hdf. unfold face_at in Hhe. rewrite w3 in Hhe. rewrite ED. exact (U2 f Hf Hdf he Hhe).
      * intros c Hc Hdc hf Hhf. rewrite NC_ in Hc. rewrite CD in Hdc. unfold cell_at in Hhf. rewrite w4 in Hhf. rewrite FD. exact (U3 c Hc Hdc hf Hhf).
    + (* gext *)
      intros E' Fb'. assert (E : ebu s = true) by congruence. assert (Fb : fbu s = true) by congruence.
      destruct (X E Fb) as (SN & LC). split.
      * intros k Hk. rewrite NE_ in Hk. unfold hfs_at. rewrite w10. exact (SN k Hk).
      * intros c Hc Hdc. rewrite NC_ in Hc. rewrite CD in Hdc. pose proof (LC c Hc Hdc) as Cl.
        assert (CA : cell_at t c = cell_at s c) by (unfold cell_at; rewrite w4; reflexivity).
        apply (closed_cell_same s t c c CA w3); [|exact Cl].
        intros y Hy. unfold cell_of. rewrite w11. exact (proj1 (Cl y Hy)).
  - intros FS f Hf Hdf. rewrite NF_ in Hf. rewrite FD in Hdf. unfold face_at. rewrite w3. exact (FS f Hf Hdf).
Qed.
End VertexStep.

(* ================================================================== flags and property arrays: unconditional *)

Lemma gc_vertex_step_props s h : deferred s = false -> fast s = false -> let s' := delete_vertex_core h (clr_v h s) in
  pv s' = map (pdelete h) (pv s) /\ pe s' = pe s /\ phe s' = phe s /\ pf s' = pf s /\ phf s' = phf s /\ pc s' = pc s /\ pm s' = pm s.
Proof.
  intros D F. cbv zeta. pose proof (delete_vertex_core_props h (clr_v h s) D) as P. cbv zeta in P. unfold victim in P.
  change (fast (clr_v h s)) with (fast s) in P. rewrite F in P. cbn [andb] in P.
  destruct P as (_ & p2 & _ & _ & _ & p6 & p7 & p8 & p9 & p10 & p11). repeat split; assumption.
Qed.

Lemma map_rankp_remove del n (l : list (nat * nat)) : nth n del false = true ->
  map (rankp (remove_nth n del)) (map (cor1p n) l) = map (rankp del) l.
Proof. intros H. rewrite map_map. apply map_ext. intros p. unfold cor1p. apply rankp_remove. exact H. Qed.

Lemma map_rankp_all_false del (l : list (nat * nat)) : (forall i, nth i del false = false) -> map (rankp del) l = l.
Proof.
  intros H. apply map_id_on. intros [a b] _. unfold rankp. cbn [fst snd]. rewrite !rank_all_false by (intros; apply H). reflexivity.
Qed.

(* ================================================================== the pass *)

Theorem gc_vertex_pass n : forall s, deferred s = false -> fast s = false -> ginv s ->
  no_eflags s -> no_fflags s -> no_cflags s -> n <= nv s -> (forall i, n <= i -> v_deleted s i = false) ->
  let t := pass_v n s in
  ginv t /\ deferred t = false /\ fast t = false /\ no_flags t /\
  nv t = nv s - length (dead (vdel s) n) /\ edges t = map (rankp (vdel s)) (edges s) /\ faces t = faces s /\ cells t = cells s /\
  vdel t = compact (vdel s) (vdel s) /\ edel t = edel s /\ fdel t = fdel s /\ cdel t = cdel s /\
  (vbu t = vbu s /\ ebu t = ebu s /\ fbu t = fbu s) /\
  (pv t = map (pcompact (vdel s)) (pv s) /\ pe t = pe s /\ phe t = phe s /\ pf t = pf s /\ phf t = phf s /\ pc t = pc s /\ pm t = pm s) /\
  (faces_simple s -> faces_simple t).
Proof.
  unfold pass_v. induction n as [|n IH]; intros s D F I NE NFf NC Hn Hi; cbv zeta.
  - rewrite gc_pass_0.
    assert (NV : forall i, nth i (vdel s) false = false) by (intros i; apply (Hi i); lia).
    rewrite !compact_all_false, !map_pcompact_all_false, map_rankp_all_false by exact NV.
    refine (conj I (conj D (conj F (conj _ _)))); [split; [exact NV|split; [exact NE|split; [exact NFf|exact NC]]]|].
    cbn [dead seq filter length]. splits; auto; lia.
  - rewrite gc_pass_S. destruct (v_deleted s n) eqn:Hd.
    + assert (Hlt : n < nv s) by lia.
      pose proof (gc_vertex_step s n D F I NE NFf NC Hlt Hd) as St. pose proof (gc_vertex_step_props s n D F) as Pr. cbv zeta in Pr.
      fold (clr_v n s) in *. set (s1 := delete_vertex_core n (clr_v n s)) in *.
      destruct St as (I1 & D1 & F1 & NE1 & NF1 & NC1 & a1 & a2 & a3 & a4 & a5 & a6 & a7 & a8 & (m1 & m2 & m3) & FS1).
      destruct Pr as (q1 & q2 & q3 & q4 & q5 & q6 & q7).
      assert (Hn1 : n <= nv s1) by lia.
      assert (Hi1 : forall i, n <= i -> v_deleted s1 i = false).
      { intros i Hge. unfold v_deleted. rewrite a5, flag_after_remove, unshift1_ge by exact Hge. apply (Hi (S i)). lia. }
      specialize (IH s1 D1 F1 I1 NE1 NF1 NC1 Hn1 Hi1). cbv zeta in IH.
      destruct IH as (It & Dt & Ft & NFt & b1 & b2 & b3 & b4 & b5 & b6 & b7 & b8 & (n1 & n2 & n3) & (r1 & r2 & r3 & r4 & r5 & r6 & r7) & FSt).
      assert (Hd' : nth n (vdel s) false = true) by exact Hd.
      assert (Dd : length (dead (vdel s1) n) = length (dead (vdel s) n)).
      { rewrite a5. unfold dead. f_equal. apply filter_ext_in2. intros i Hin. apply in_seq in Hin. rewrite nth_remove_nth.
        replace (i <? n) with true by (symmetry; apply Nat.ltb_lt; lia). reflexivity. }
      refine (conj It (conj Dt (conj Ft (conj NFt _)))).
      rewrite b1, b2, b3, b4, b5, b6, b7, b8, n1, n2, n3, r1, r2, r3, r4, r5, r6, r7, Dd.
      rewrite a1, a2, a3, a4, a5, a6, a7, a8, m1, m2, m3, q1, q2, q3, q4, q5, q6, q7.
      rewrite !compact_remove, map_pcompact_remove, map_rankp_remove by exact Hd'. rewrite dead_S, Hd', app_length. cbn [length].
      pose proof (rank_dead (vdel s) n). pose proof (rank_le (vdel s) n). splits; auto; lia.
    + assert (E0 : length (dead (vdel s) (S n)) = length (dead (vdel s) n)).
      { rewrite dead_S. change (nth n (vdel s) false) with (v_deleted s n). rewrite Hd, app_nil_r. reflexivity. }
      rewrite E0. apply (IH s D F I NE NFf NC); [lia|]. intros i Hge. destruct (Nat.eq_dec i n) as [->|N]; [exact Hd|apply Hi; lia].
Qed.
