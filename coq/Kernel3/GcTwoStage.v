(* Kernel3/GcTwoStage.v -- C04, NON-FAST mode: collecting in two stages = collecting once.
   If d2 is d1 with MORE entities flagged, then collecting d1, flagging in the result the entities that correspond to the
   additional flags (flag arrays compact (flags d1) (flags d2)) and collecting again gives the same mesh as collecting d2.
   List facts: compact and rank compose along an inclusion of flag arrays. *)
From Coq Require Import ZArith Lia Bool Arith List ZifyNat ZifyBool.
From OVM Require Import Base.ListX Base.ListLemmas Kernel.State Kernel.Ops Kernel.SwapInvol Kernel.ExactInv Kernel.ShiftFace Kernel.ShiftCompose
                        Kernel3.GcDefs Kernel3.GcList Kernel3.GcInv Kernel3.GcCell Kernel3.GcFace Kernel3.GcVertex Kernel3.GcMain Kernel3.GcEquiv Kernel3.GcTrack.
Import ListNotations.
Ltac Zify.zify_post_hook ::= Z.div_mod_to_equations.
Local Open Scope nat_scope.

(* every flag of del is a flag of del' *)
Definition flags_incl (del del' : list bool) : Prop := forall i, nth i del false = true -> nth i del' false = true.

Lemma flags_incl_tail b b' r r' : flags_incl (b :: r) (b' :: r') -> flags_incl r r'.
Proof. intros H i. exact (H (S i)). Qed.

(* ================================================================== compact composes *)

Lemma compact_compose {A} : forall (l : list A) del del', length del = length l -> length del' = length l -> flags_incl del del' ->
  compact (compact del del') (compact del l) = compact del' l.
Proof.
  induction l as [|x t IH]; intros del del' L1 L2 S; [destruct del; reflexivity|].
  destruct del as [|b r]; [discriminate|]. destruct del' as [|b' r']; [discriminate|].
  cbn [length] in L1, L2. assert (L1' : length r = length t) by lia. assert (L2' : length r' = length t) by lia.
  pose proof (IH r r' L1' L2' (flags_incl_tail _ _ _ _ S)) as E. destruct b.
  - assert (b' = true) by (exact (S 0 eq_refl)). subst b'. cbn [compact]. exact E.
  - cbn [compact]. destruct b'; cbn [compact]; rewrite E; reflexivity.
Qed.

(* the k-th live index *)
Definition unrank (del : list bool) (n k : nat) : nat := nth k (alive del n) 0.

Lemma unrank_spec del n k : k < rank del n -> unrank del n k < n /\ nth (unrank del n k) del false = false /\ rank del (unrank del n k) = k.
Proof.
  intros Hk. unfold unrank. assert (Hin : In (nth k (alive del n) 0) (alive del n)) by (apply nth_In; exact Hk).
  apply In_alive in Hin. destruct Hin as [A B]. split; [exact A|]. split; [exact B|].
  pose proof (nth_rank_alive del _ n A B) as E. set (i := nth k (alive del n) 0) in *.
  apply (proj1 (NoDup_nth (alive del n) 0) (NoDup_alive del n)); [|exact Hk|exact E].
  change (length (alive del n)) with (rank del n). apply rank_lt; assumption.
Qed.

Lemma nth_compact_rank {A} (d : A) del (l : list A) i : i < length l -> nth i del false = false -> nth (rank del i) (compact del l) d = nth i l d.
Proof.
  intros Hi L. rewrite (compact_alive d).
  assert (Hr : rank del i < length (alive del (length l))) by (change (length (alive del (length l))) with (rank del (length l)); apply rank_lt; assumption).
  rewrite (nth_indep _ d (nth 0 l d)) by (rewrite map_length; exact Hr).
  change (nth 0 l d) with ((fun j => nth j l d) 0). rewrite map_nth, nth_rank_alive by assumption. reflexivity.
Qed.

Lemma nth_compact_flags del del' i : nth i del false = false -> nth (rank del i) (compact del del') false = nth i del' false.
Proof.
  intros L. destruct (Nat.lt_ge_cases i (length del')) as [Hi|Hi]; [apply nth_compact_rank; assumption|].
  rewrite (nth_overflow del') by exact Hi. apply nth_overflow. rewrite compact_length. apply rank_mono. exact Hi.
Qed.

(* ================================================================== rank composes *)

Lemma rank_compose del del' i : flags_incl del del' -> rank (compact del del') (rank del i) = rank del' i.
Proof.
  intros S. induction i as [|i IH]; [reflexivity|]. rewrite (rank_S del'), (rank_S del). destruct (nth i del false) eqn:E.
  - rewrite (S i E), !Nat.add_0_r. exact IH.
  - replace (rank del i + 1) with (Datatypes.S (rank del i)) by lia. rewrite rank_S, IH, nth_compact_flags by exact E. reflexivity.
Qed.

Lemma rank2_compose del del' h : flags_incl del del' -> rank2 (compact del del') (rank2 del h) = rank2 del' h.
Proof.
  intros S. unfold rank2. replace ((2 * rank del (h / 2) + h mod 2) / 2) with (rank del (h / 2)) by lia.
  replace ((2 * rank del (h / 2) + h mod 2) mod 2) with (h mod 2) by lia. rewrite rank_compose by exact S. reflexivity.
Qed.

Lemma rankp_compose del del' p : flags_incl del del' -> rankp (compact del del') (rankp del p) = rankp del' p.
Proof. intros S. unfold rankp. cbn [fst snd]. rewrite !rank_compose by exact S. reflexivity. Qed.

(* ================================================================== the doubled flag arrays *)

Lemma compact_dbl : forall del del', compact (dbl del) (dbl del') = dbl (compact del del').
Proof.
  intros del del'. revert del. induction del' as [|b' r' IH]; intros del; [destruct del; reflexivity|].
  destruct del as [|b r]; [rewrite !compact_nil_flags; reflexivity|].
  change (dbl (b :: r)) with (b :: b :: dbl r). change (dbl (b' :: r')) with (b' :: b' :: dbl r'). cbn [compact].
  destruct b; rewrite IH; reflexivity.
Qed.

Lemma flags_incl_dbl del del' : flags_incl del del' -> flags_incl (dbl del) (dbl del').
Proof. intros S i. rewrite !nth_dbl. apply S. Qed.

(* ================================================================== the compositions on arrays *)

Lemma compact_compose_maps {A} (g1 g2 g3 : A -> A) l del del' : length del = length l -> length del' = length l -> flags_incl del del' ->
  (forall x, g2 (g1 x) = g3 x) ->
  map g2 (compact (compact del del') (map g1 (compact del l))) = map g3 (compact del' l).
Proof.
  intros L1 L2 S G. rewrite compact_map, map_map, compact_compose by assumption. apply map_ext. exact G.
Qed.

Lemma pcompact_compose del del' p : length del = length (pdata p) -> length del' = length (pdata p) -> flags_incl del del' ->
  pcompact (compact del del') (pcompact del p) = pcompact del' p.
Proof. intros L1 L2 S. unfold pcompact. cbn [pdef pdata]. rewrite compact_compose by assumption. reflexivity. Qed.

Lemma map_pcompact_compose del del' l n : length del = n -> length del' = n -> (forall p, In p l -> length (pdata p) = n) -> flags_incl del del' ->
  map (pcompact (compact del del')) (map (pcompact del) l) = map (pcompact del') l.
Proof.
  intros L1 L2 Lp S. rewrite map_map. apply map_ext_in. intros p Hp. apply pcompact_compose; [rewrite (Lp p Hp); exact L1|rewrite (Lp p Hp); exact L2|exact S].
Qed.

(* ================================================================== two stages *)

Section TwoStage.
Context (d1 d2 t2 : mesh).
Context (R1 : gc_ready d1) (F1 : fast d1 = false) (Z1 : sized d1).
Context (R2 : gc_ready d2) (F2 : fast d2 = false).
Context (Rt : gc_ready t2) (Ft : fast t2 = false).
(* d2: the definitions and properties of d1, more flags *)
Context (Dn : nv d2 = nv d1) (De : edges d2 = edges d1) (Df : faces d2 = faces d1) (Dc : cells d2 = cells d1) (Dp : forall k, props k d2 = props k d1).
Context (Sv : flags_incl (vdel d1) (vdel d2)) (Se : flags_incl (edel d1) (edel d2)) (Sf : flags_incl (fdel d1) (fdel d2)) (Sc : flags_incl (cdel d1) (cdel d2)).
Context (Lv : length (vdel d2) = nv d1) (Le : length (edel d2) = ne d1) (Lf : length (fdel d2) = nf d1) (Lc : length (cdel d2) = nc d1).
(* t2: the definitions and properties of collect_garbage d1, flagged exactly at the survivors that d2 flags *)
Context (Tn : nv t2 = nv (collect_garbage d1)) (Te : edges t2 = edges (collect_garbage d1)) (Tf : faces t2 = faces (collect_garbage d1))
        (Tc : cells t2 = cells (collect_garbage d1)) (Tp : forall k, props k t2 = props k (collect_garbage d1)).
Context (Qv : vdel t2 = compact (vdel d1) (vdel d2)) (Qe : edel t2 = compact (edel d1) (edel d2))
        (Qf : fdel t2 = compact (fdel d1) (fdel d2)) (Qc : cdel t2 = compact (cdel d1) (cdel d2)).

Theorem gc_two_stage : same_mesh (collect_garbage d2) (collect_garbage t2).
Proof.
  pose proof (collect_garbage_nonfast_compact d1 R1 F1) as C1. pose proof (collect_garbage_nonfast_compact d2 R2 F2) as C2.
  pose proof (collect_garbage_nonfast_compact t2 Rt Ft) as C3.
  pose proof Tn as Tn'. pose proof Te as Te'. pose proof Tf as Tf'. pose proof Tc as Tc'. pose proof Tp as Tp'.
  revert C1 C2 C3 Tn' Te' Tf' Tc' Tp'.
  generalize (collect_garbage d1). intros g1. generalize (collect_garbage d2). intros g2. generalize (collect_garbage t2). intros g3.
  intros C1 C2 C3 Tn' Te' Tf' Tc' Tp'.
  destruct C1 as (_ & _ & _ & _ & _ & a1 & a2 & a3 & a4 & _ & _ & _ & _ & (p1 & p2 & p3 & p4 & p5 & p6 & p7) & _).
  destruct C2 as (_ & _ & _ & _ & _ & b1 & b2 & b3 & b4 & _ & _ & _ & _ & (q1 & q2 & q3 & q4 & q5 & q6 & q7) & _).
  destruct C3 as (_ & _ & _ & _ & _ & c1 & c2 & c3 & c4 & _ & _ & _ & _ & (r1 & r2 & r3 & r4 & r5 & r6 & r7) & _).
  destruct R1 as (_ & _ & I1). pose proof I1 as ((_ & _ & _ & _ & (_ & _ & _ & L4 & L5 & L6)) & LV & _).
  pose proof Z1 as (_ & _ & _ & _ & Zp).
  pose proof (Dp KV) as dV. pose proof (Dp KE) as dE. pose proof (Dp KHE) as dHE. pose proof (Dp KF) as dF. pose proof (Dp KHF) as dHF.
  pose proof (Dp KC) as dC. pose proof (Dp KM) as dM. cbn [props] in dV, dE, dHE, dF, dHF, dC, dM.
  pose proof (Tp' KV) as tV. pose proof (Tp' KE) as tE. pose proof (Tp' KHE) as tHE. pose proof (Tp' KF) as tF. pose proof (Tp' KHF) as tHF.
  pose proof (Tp' KC) as tC. pose proof (Tp' KM) as tM. cbn [props] in tV, tE, tHE, tF, tHF, tC, tM.
  rewrite Qv in r1. rewrite Qe in r2, r3. rewrite Qf in r4, r5. rewrite Qc in r6.
  unfold same_mesh.
  rewrite b1, b2, b3, b4, c1, c2, c3, c4, Tn', Te', Tf', Tc', a1, a2, a3, a4, Qv, Qe, Qf, Qc, Dn, De, Df, Dc.
  split; [|split; [|split; [|split]]].
  - (* nv *)
    pose proof (rank_dead (vdel d2) (nv d1)). pose proof (rank_dead (vdel d1) (nv d1)).
    pose proof (rank_dead (compact (vdel d1) (vdel d2)) (nv d1 - length (dead (vdel d1) (nv d1)))) as H1.
    replace (nv d1 - length (dead (vdel d1) (nv d1))) with (rank (vdel d1) (nv d1)) in * by lia.
    rewrite (rank_compose (vdel d1) (vdel d2) (nv d1) Sv) in H1. lia.
  - symmetry. apply compact_compose_maps; [exact L4|exact Le|exact Se|]. intros p. apply rankp_compose. exact Sv.
  - symmetry. apply compact_compose_maps; [exact L5|exact Lf|exact Sf|]. intros l. rewrite map_map. apply map_ext. intros h. apply rank2_compose. exact Se.
  - symmetry. apply compact_compose_maps; [exact L6|exact Lc|exact Sc|]. intros l. rewrite map_map. apply map_ext. intros h. apply rank2_compose. exact Sf.
  - intros k. destruct k; cbn [props].
    + rewrite q1, r1, tV, p1, dV. symmetry. apply (map_pcompact_compose _ _ _ (nv d1)); [exact LV|exact Lv|exact (Zp KV)|exact Sv].
    + rewrite q2, r2, tE, p2, dE. symmetry. apply (map_pcompact_compose _ _ _ (ne d1)); [exact L4|exact Le|exact (Zp KE)|exact Se].
    + rewrite q3, r3, tHE, p3, dHE, <- compact_dbl. symmetry.
      apply (map_pcompact_compose _ _ _ (2 * ne d1)); [rewrite dbl_length, L4; reflexivity|rewrite dbl_length, Le; reflexivity|exact (Zp KHE)|apply flags_incl_dbl; exact Se].
    + rewrite q4, r4, tF, p4, dF. symmetry. apply (map_pcompact_compose _ _ _ (nf d1)); [exact L5|exact Lf|exact (Zp KF)|exact Sf].
    + rewrite q5, r5, tHF, p5, dHF, <- compact_dbl. symmetry.
      apply (map_pcompact_compose _ _ _ (2 * nf d1)); [rewrite dbl_length, L5; reflexivity|rewrite dbl_length, Lf; reflexivity|exact (Zp KHF)|apply flags_incl_dbl; exact Sf].
    + rewrite q6, r6, tC, p6, dC. symmetry. apply (map_pcompact_compose _ _ _ (nc d1)); [exact L6|exact Lc|exact (Zp KC)|exact Sc].
    + rewrite q7, r7, tM, p7, dM. reflexivity.
Qed.
End TwoStage.
