(* Kernel3/FastBase.v -- C02, immediate FAST mode: the lemmas shared by Kernel3/Fast{Cell,Face,Edge,Vertex}.v:
     - tr / tr2 / trp are the relabelings swap_idx / swap_half / swap_ends of Kernel/Ops.v, SwapEffects.v;
     - fast_remove / fast_remove2 ARE "exchange with the last slot(s), then erase the last slot(s)" (what the model does), with
       their slot laws (length, nth);
     - the property arrays: pdelete after pswap is pfast (entity) resp. pfast2 (half-entity, side by side);
     - the invariant shift_inv2 and the "free" hypotheses do not read the fast flag (set_fast);
     - the handle corrections of the index-shifting code are the identity on in-range handles when the LAST slot dies. *)
From Coq Require Import ZArith Lia Bool Arith List ZifyNat ZifyBool.
From OVM Require Import Base.ListX Base.ListLemmas Base.ListLemmas2 Kernel.State Kernel.Ops Kernel.Mirror Kernel.Construct
                        Kernel.Recompute Kernel.Closure Kernel.ExactInv Kernel.SwapEffects Kernel.SwapInvol Kernel.PropLaws
                        Kernel2.ReorderExact Kernel2.ExactBase
                        Kernel.ShiftFace Kernel.ShiftEdge Kernel.ShiftVertex Kernel.ShiftCompose Kernel3.FastDefs.
Import ListNotations.
Ltac Zify.zify_post_hook ::= Z.div_mod_to_equations.
Local Open Scope nat_scope.

(* ================================================================== the relabelings *)

Lemma tr_swap_idx a b x : tr a b x = swap_idx a b x.
Proof. reflexivity. Qed.
Lemma tr2_swap_half a b x : tr2 a b x = swap_half a b x.
Proof. reflexivity. Qed.
Lemma trp_swap_ends a b p : trp a b p = swap_ends a b p.
Proof. reflexivity. Qed.

Lemma tr_involutive a b x : tr a b (tr a b x) = x.
Proof. apply swap_idx_involutive. Qed.
Lemma tr2_involutive a b x : tr2 a b (tr2 a b x) = x.
Proof. apply swap_half_involutive. Qed.
Lemma tr2_spec a b x : tr2 a b x / 2 = tr a b (x / 2) /\ tr2 a b x mod 2 = x mod 2.
Proof. apply swap_half_spec. Qed.
Lemma tr_same a x : tr a a x = x.
Proof. unfold tr. destruct (Nat.eqb_spec x a); congruence. Qed.
Lemma tr2_same a x : tr2 a a x = x.
Proof. unfold tr2. destruct (Nat.eqb_spec (x / 2) a); lia. Qed.
Lemma trp_same a p : trp a a p = p.
Proof. destruct p. unfold trp. cbn [fst snd]. rewrite !tr_same. reflexivity. Qed.

Lemma map_tr2_same a ll : map (map (tr2 a a)) ll = ll.
Proof. rewrite <- (map_id ll) at 2. apply map_ext. intros l. rewrite <- (map_id l) at 2. apply map_ext. apply tr2_same. Qed.
Lemma map_trp_same a l : map (trp a a) l = l.
Proof. rewrite <- (map_id l) at 2. apply map_ext. apply trp_same. Qed.

(* when nobody references h, the transposition (h l) is "the old last handle l becomes h" *)
Lemma tr_free h l x : x <> h -> tr h l x = ren_last h l x.
Proof. intros N. unfold tr, ren_last. destruct (Nat.eqb_spec x h); [congruence|reflexivity]. Qed.
Lemma tr2_free h l x : x / 2 <> h -> tr2 h l x = ren_last2 h l x.
Proof. intros N. unfold tr2, ren_last2. destruct (Nat.eqb_spec (x / 2) h); [congruence|reflexivity]. Qed.

(* ================================================================== fast_remove *)

Lemma fast_remove_length {A} (d : A) h (l : list A) : length (fast_remove d h l) = length l - 1.
Proof. unfold fast_remove. rewrite firstn_length, upd_length. lia. Qed.

Lemma nth_firstn {A} (l : list A) n k d : k < n -> nth k (firstn n l) d = nth k l d.
Proof.
  revert n k. induction l as [|a l IH]; intros n k H; [rewrite firstn_nil; reflexivity|].
  destruct n as [|n]; [lia|]. destruct k as [|k]; [reflexivity|]. cbn [firstn nth]. apply IH. lia.
Qed.

Lemma nth_fast_remove {A} (d : A) h (l : list A) k : k < length l - 1 ->
  nth k (fast_remove d h l) d = if k =? h then nth (length l - 1) l d else nth k l d.
Proof.
  intros Hk. unfold fast_remove. rewrite nth_firstn by exact Hk. rewrite nth_upd.
  destruct (Nat.eqb_spec h k) as [->|N].
  - replace (k <? length l) with true by (symmetry; apply Nat.ltb_lt; lia). rewrite Nat.eqb_refl. reflexivity.
  - cbn [andb]. destruct (Nat.eqb_spec k h); [congruence|reflexivity].
Qed.

Lemma firstn_remove_last {A} (l : list A) : remove_nth (length l - 1) l = firstn (length l - 1) l.
Proof.
  induction l as [|a l IH]; [reflexivity|]. destruct l as [|b l]; [reflexivity|].
  cbn [length] in *. replace (S (S (length l)) - 1) with (S (length l)) by lia. replace (S (length l) - 1) with (length l) in IH by lia.
  cbn [remove_nth firstn]. f_equal. exact IH.
Qed.

(* what the model does: std::swap(v[h], v[last]); v.erase(last) *)
Lemma fast_remove_swap {A} (d : A) h (l : list A) : h < length l ->
  remove_nth (length l - 1) (swap_nth h (length l - 1) d l) = fast_remove d h l.
Proof.
  intros Hh. pose proof (firstn_remove_last (swap_nth h (length l - 1) d l)) as E. rewrite swap_nth_length in E. rewrite E.
  apply (list_ext_nth _ _ d).
  - rewrite fast_remove_length, firstn_length, swap_nth_length. lia.
  - intros k Hk. rewrite firstn_length, swap_nth_length in Hk. assert (Hk' : k < length l - 1) by lia.
    rewrite nth_firstn by exact Hk'. rewrite nth_fast_remove by exact Hk'. rewrite nth_swap_nth by lia.
    destruct (Nat.eqb_spec k h); [reflexivity|]. destruct (Nat.eqb_spec k (length l - 1)); [lia|reflexivity].
Qed.

Lemma fast_remove_last {A} (d : A) (l : list A) : fast_remove d (length l - 1) l = remove_nth (length l - 1) l.
Proof.
  destruct l as [|a l]; [reflexivity|]. rewrite <- (fast_remove_swap d) by (cbn [length]; lia). rewrite swap_nth_same. reflexivity.
Qed.

Lemma fast_remove2_length {A} (d : A) h (l : list A) : length (fast_remove2 d h l) = length l - 2.
Proof. unfold fast_remove2. rewrite firstn_length, !upd_length. lia. Qed.

Lemma nth_fast_remove2 {A} (d : A) h (l : list A) k : k < length l - 2 ->
  nth k (fast_remove2 d h l) d = if k / 2 =? h then nth (length l - 2 + k mod 2) l d else nth k l d.
Proof.
  intros Hk. unfold fast_remove2. rewrite nth_firstn by exact Hk. rewrite !nth_upd, upd_length.
  destruct (Nat.eqb_spec (k / 2) h) as [E|N].
  - destruct (Nat.eqb_spec (2 * h + 1) k) as [E1|N1].
    + replace (2 * h + 1 <? length l) with true by (symmetry; apply Nat.ltb_lt; lia). cbn [andb]. f_equal. lia.
    + cbn [andb]. destruct (Nat.eqb_spec (2 * h) k) as [E0|N0]; [|lia].
      replace (2 * h <? length l) with true by (symmetry; apply Nat.ltb_lt; lia). cbn [andb]. f_equal. lia.
  - destruct (Nat.eqb_spec (2 * h + 1) k); [lia|]. destruct (Nat.eqb_spec (2 * h) k); [lia|]. reflexivity.
Qed.

(* the model on a half-entity array of 2n slots: the two swaps, then erase(2l+1), erase(2l) *)
Lemma fast_remove2_swap {A} (d : A) h n (l : list A) : length l = 2 * n -> h < n ->
  remove_nth (2 * (n - 1)) (remove_nth (2 * (n - 1) + 1)
     (swap_nth (2 * h + 1) (2 * (n - 1) + 1) d (swap_nth (2 * h) (2 * (n - 1)) d l))) = fast_remove2 d h l.
Proof.
  intros L Hh. apply (list_ext_nth _ _ d).
  - rewrite fast_remove2_length, remove_two_length by (rewrite !swap_nth_length; lia). rewrite !swap_nth_length. reflexivity.
  - intros k Hk. rewrite remove_two_length in Hk by (rewrite !swap_nth_length; lia). rewrite !swap_nth_length in Hk.
    rewrite nth_remove_two. replace (k <? 2 * (n - 1)) with true by (symmetry; apply Nat.ltb_lt; lia).
    rewrite nth_fast_remove2 by lia. rewrite nth_swap_nth by (rewrite swap_nth_length; lia). rewrite !nth_swap_nth by lia.
    destruct (Nat.eqb_spec (k / 2) h) as [E|N].
    + destruct (Nat.eqb_spec k (2 * h + 1)) as [E1|N1].
      * destruct (Nat.eqb_spec (2 * (n - 1) + 1) (2 * h)); [lia|].
        destruct (Nat.eqb_spec (2 * (n - 1) + 1) (2 * (n - 1))); [lia|]. f_equal. lia.
      * destruct (Nat.eqb_spec k (2 * (n - 1) + 1)); [lia|]. destruct (Nat.eqb_spec k (2 * h)) as [E0|N0]; [|lia]. f_equal. lia.
    + destruct (Nat.eqb_spec k (2 * h + 1)); [lia|]. destruct (Nat.eqb_spec k (2 * (n - 1) + 1)); [lia|].
      destruct (Nat.eqb_spec k (2 * h)); [lia|]. destruct (Nat.eqb_spec k (2 * (n - 1))); [lia|]. reflexivity.
Qed.

(* ================================================================== property arrays *)

Lemma parray_ext p q : pdef p = pdef q -> pdata p = pdata q -> p = q.
Proof. destruct p, q. cbn. intros -> ->. reflexivity. Qed.

Lemma pfast_swap h n p : length (pdata p) = n -> h < n -> pdelete (n - 1) (pswap h (n - 1) p) = pfast h p.
Proof.
  intros L Hh. apply parray_ext; [reflexivity|]. unfold pdelete, pswap, pfast. cbn [pdata pdef]. subst n. apply fast_remove_swap. exact Hh.
Qed.

Lemma pfast2_swap h n p : length (pdata p) = 2 * n -> h < n ->
  pdelete (2 * (n - 1)) (pdelete (2 * (n - 1) + 1) (pswap (2 * h + 1) (2 * (n - 1) + 1) (pswap (2 * h) (2 * (n - 1)) p))) = pfast2 h p.
Proof.
  intros L Hh. apply parray_ext; [reflexivity|]. unfold pdelete, pswap, pfast2. cbn [pdata pdef]. apply (fast_remove2_swap _ h n); assumption.
Qed.

Lemma pswap_same i p : pswap i i p = p.
Proof. apply parray_ext; [reflexivity|]. unfold pswap. cbn [pdata pdef]. apply swap_nth_same. Qed.

Lemma map_pfast_swap h n ps : (forall p, In p ps -> length (pdata p) = n) -> h < n ->
  map (pdelete (n - 1)) (map (pswap h (n - 1)) ps) = map (pfast h) ps.
Proof. intros L Hh. rewrite map_map. apply map_ext_in. intros p Hp. apply pfast_swap; [apply L; exact Hp|exact Hh]. Qed.

Lemma map_pfast2_swap h n ps : (forall p, In p ps -> length (pdata p) = 2 * n) -> h < n ->
  map (pdelete (2 * (n - 1))) (map (pdelete (2 * (n - 1) + 1)) (half_swap_props h (n - 1) ps)) = map (pfast2 h) ps.
Proof.
  intros L Hh. unfold half_swap_props. rewrite !map_map. apply map_ext_in. intros p Hp. apply pfast2_swap; [apply L; exact Hp|exact Hh].
Qed.

(* the value laws (C03 form): the survivor at slot k keeps its value; slot h holds the value of the old last slot *)
Lemma pval_pfast h p k : k < length (pdata p) - 1 -> pval (pfast h p) k = pval p (if k =? h then length (pdata p) - 1 else k).
Proof. intros Hk. unfold pval, pfast. cbn [pdata pdef]. rewrite nth_fast_remove by exact Hk. destruct (k =? h); reflexivity. Qed.
Lemma pval_pfast2 h p k : k < length (pdata p) - 2 ->
  pval (pfast2 h p) k = pval p (if k / 2 =? h then length (pdata p) - 2 + k mod 2 else k).
Proof. intros Hk. unfold pval, pfast2. cbn [pdata pdef]. rewrite nth_fast_remove2 by exact Hk. destruct (k / 2 =? h); reflexivity. Qed.

(* ================================================================== set_fast *)

Ltac rsb := cbn [set_fast set_nv set_edges set_faces set_cells set_vdel set_edel set_fdel set_cdel set_counts set_flags
                set_out_hes set_inc_hfs set_inc_cell set_props
                nv edges faces cells vdel edel fdel cdel ndv nde ndf ndc vbu ebu fbu deferred fast
                out_hes inc_hfs inc_cell pv pe phe pf phf pc pm props fst snd].

Lemma set_fast_self s : set_fast (fast s) s = s.
Proof. destruct s; reflexivity. Qed.
Lemma set_fast_set_fast a b s : set_fast a (set_fast b s) = set_fast a s.
Proof. reflexivity. Qed.

Lemma shift_inv2_set_fast b s : shift_inv2 s <-> shift_inv2 (set_fast b s).
Proof. split; intros H; exact H. Qed.
Lemma face_free_set_fast b s h : face_free s h <-> face_free (set_fast b s) h.
Proof. split; intros H; exact H. Qed.
Lemma edge_free_set_fast b s h : edge_free s h <-> edge_free (set_fast b s) h.
Proof. split; intros H; exact H. Qed.
Lemma vertex_free_set_fast b s h : vertex_free s h <-> vertex_free (set_fast b s) h.
Proof. split; intros H; exact H. Qed.

(* ================================================================== corrections at the last slot are the identity *)

Lemma cor2_last l x : x < 2 * (l + 1) -> cor2 (2 * l + 1) x = x.
Proof. intros H. unfold cor2. destruct (Nat.ltb_spec (2 * l + 1) x); [lia|reflexivity]. Qed.
Lemma cor1_last l x : x < l + 1 -> cor1 l x = x.
Proof. intros H. unfold cor1. destruct (Nat.ltb_spec l x); [lia|reflexivity]. Qed.

Lemma map_cor2_last l xs : (forall x, In x xs -> x < 2 * (l + 1)) -> map (cor2 (2 * l + 1)) xs = xs.
Proof. intros H. apply map_id_on. intros x Hx. apply cor2_last. apply H. exact Hx. Qed.

Lemma map_map_cor2_last l ll : (forall xs x, In xs ll -> In x xs -> x < 2 * (l + 1)) -> map (map (cor2 (2 * l + 1))) ll = ll.
Proof. intros H. apply map_id_on. intros xs Hxs. apply map_cor2_last. intros x Hx. exact (H xs x Hxs Hx). Qed.

Lemma map_cor1p_last l es : (forall p, In p es -> fst p < l + 1 /\ snd p < l + 1) -> map (cor1p l) es = es.
Proof.
  intros H. apply map_id_on. intros [x y] Hp. destruct (H _ Hp) as [A B]. cbn [fst snd] in A, B.
  unfold cor1p. cbn [fst snd]. rewrite !cor1_last by assumption. reflexivity.
Qed.

Lemma map_option_cor1_last l os : (forall c, In (Some c) os -> c < l + 1) -> map (option_map (cor1 l)) os = os.
Proof.
  intros H. apply map_id_on. intros [c|] Hc; [|reflexivity]. cbn [option_map]. rewrite cor1_last by (apply H; exact Hc). reflexivity.
Qed.

(* ================================================================== no flag set: preserved by slot exchanges *)

Lemma all_false_swap_nth a b (l : list bool) : (forall i, nth i l false = false) -> forall i, nth i (swap_nth a b false l) false = false.
Proof.
  intros H i. unfold swap_nth. rewrite !nth_upd, upd_length.
  destruct ((b =? i) && (b <? length l)); [apply H|]. destruct ((a =? i) && (a <? length l)); apply H.
Qed.

Lemma all_false_fast_remove h (l : list bool) : (forall i, nth i l false = false) -> forall i, nth i (fast_remove false h l) false = false.
Proof.
  intros H i. destruct (Nat.lt_ge_cases i (length l - 1)) as [Hi|Hi].
  - rewrite nth_fast_remove by exact Hi. destruct (i =? h); apply H.
  - apply nth_overflow. rewrite fast_remove_length. exact Hi.
Qed.

(* handles of a list that lives in an array: membership through nth *)
Lemma In_nth_list {A} (ll : list (list A)) xs : In xs ll -> exists c, c < length ll /\ nth c ll [] = xs.
Proof. intros H. exact (In_nth ll xs [] H). Qed.
