(* Kernel3/GcEdge.v -- C04, the EDGE pass of collect_garbage in NON-FAST mode (after the cell and face passes: no cell or face
   flag is left).  One step: the flag of edge h is cleared and delete_edge_core h runs in immediate mode.  The flagged edge is in
   no vertex->halfedge list and in no face: nothing is removed from the lists; slot h leaves the edge array / flag array /
   property arrays; every face is its old definition with the halfedge handles above 2h+1 shifted by two (cache-guided and scan
   variants alike); the caches are the shifted caches and ginv holds again.
   The pass: edges = compact, faces renamed through rank2 of the old edge flags. *)
From Coq Require Import ZArith Lia Bool Arith List ZifyNat ZifyBool Permutation.
From OVM Require Import Base.ListX Base.ListLemmas Kernel.State Kernel.Ops Kernel.Mirror Kernel.Recompute Kernel.Closure Kernel.ExactInv
                        Kernel.ExactDelete Kernel.DeleteEffects
                        Kernel2.LookupModel Kernel2.ListAux Kernel2.AdjacentProofs Kernel2.ReorderExact Kernel2.ExactBase
                        Kernel.ShiftFace Kernel.ShiftEdge Kernel.ShiftCompose
                        Kernel3.GcDefs Kernel3.GcList Kernel3.GcInv Kernel3.GcCell Kernel3.GcFace.
Import ListNotations.
Ltac Zify.zify_post_hook ::= Z.div_mod_to_equations.
Local Open Scope nat_scope.

Section EdgeStep.
Context (s : mesh) (h : nat).
Context (D : deferred s = false) (F : fast s = false) (I : ginv s) (NFf : no_fflags s) (Hh : h < ne s) (Hd : e_deleted s h = true).

Local Notation se := (clr_e h s).
Local Notation s' := (delete_edge_core h (clr_e h s)).

Lemma gce_edge_free : edge_free s h.
Proof. apply ginv_edge_free; assumption. Qed.

(* ---------------------------------------------------------------- the faces *)
Lemma gce_faces : faces s' = map (map (cor2 (2 * h + 1))) (faces s).
Proof.
  pose proof I as ((_ & EO & _ & (_ & R2 & _) & (_ & L2 & _)) & _).
  pose proof (delete_edge_core_view h se D F) as V. cbv zeta in V. destruct V as (_ & _ & -> & _).
  change (faces se) with (faces s). change (upd_faces_of h se) with (upd_faces_of h s).
  rewrite (fold_upd_is_map (fix2 h) []).
  - apply map_ext_in. intros l Hl. apply fix2_free. intros y Hy. destruct (In_nth _ _ [] Hl) as [c [Hc E]].
    apply (gce_edge_free c y). unfold face_at. rewrite E. exact Hy.
  - unfold upd_faces_of. destruct (ebu s); [apply set_of_list_NoDup|apply NoDup_live_faces].
  - intros k Hk Nin. unfold upd_faces_of in Nin. destruct (ebu s) eqn:Eb.
    + apply fix2_below. intros y Hy.
      destruct (Nat.lt_ge_cases y (2 * h)) as [Hlt|Hge]; [exact Hlt|]. exfalso. apply Nin.
      assert (Hy2 : y < 2 * ne s) by (apply (R2 k Hk (NFf k) y Hy)).
      assert (Cy : In (2 * k) (hfs_at s y)).
      { apply (EO Eb y Hy2 (2 * k)). replace (2 * k / 2) with k by lia. split; [exact Hk|]. split; [apply NFf|].
        apply In_halfface. replace (2 * k / 2) with k by lia.
        replace (Nat.even (2 * k)) with true by (symmetry; rewrite even_mod2; apply Nat.eqb_eq; lia). exact Hy. }
      apply Kernel2.ListAux.set_of_list_In. apply in_map_iff. exists (2 * k). split; [lia|].
      apply (In_concat_skipn _ (2 * h) y); [exact Hge|exact Cy].
    + exfalso. apply Nin. unfold live_faces, f_deleted. rewrite (seq_all_live (fdel s) (nf s) NFf). apply in_seq. unfold nf. lia.
Qed.

(* ---------------------------------------------------------------- the vertex->halfedge lists: nothing to remove *)
Lemma gce_out_absent : vbu s = true -> forall v y, y / 2 = h -> ~ In y (nth v (out_hes s) []).
Proof.
  intros Vb v y Hy Hin. pose proof I as ((VO & _ & _ & _ & (L1 & _)) & _).
  destruct (Nat.lt_ge_cases v (nv s)) as [Hv|Hv].
  - apply (VO Vb v Hv y) in Hin. destruct Hin as (_ & B & _). rewrite Hy in B. congruence.
  - rewrite nth_overflow in Hin by (rewrite (L1 Vb); exact Hv). destruct Hin.
Qed.

Lemma gce_edge_out : vbu s = true -> edge_out h se = out_hes s.
Proof.
  intros Vb. unfold edge_out. change (edge_at se h) with (edge_at s h). change (out_hes se) with (out_hes s).
  destruct (edge_at s h) as [v0 v1].
  rewrite (remove_at_absent v0 (2 * h)) by (apply gce_out_absent; [exact Vb|lia]).
  apply remove_at_absent. apply gce_out_absent; [exact Vb|lia].
Qed.

(* ---------------------------------------------------------------- the step *)
Theorem gc_edge_step :
  ginv s' /\ deferred s' = false /\ fast s' = false /\ no_fflags s' /\
  nv s' = nv s /\ edges s' = remove_nth h (edges s) /\ faces s' = map (map (cor2 (2 * h + 1))) (faces s) /\ cells s' = cells s /\
  vdel s' = vdel s /\ edel s' = remove_nth h (edel s) /\ fdel s' = fdel s /\ cdel s' = cdel s /\
  (vbu s' = vbu s /\ ebu s' = ebu s /\ fbu s' = fbu s) /\
  (faces_simple s -> faces_simple s').
Proof.
  pose proof I as ((VO & EO & FO & (R1 & R2 & R3) & (L1 & L2 & L3 & L4 & L5 & L6)) & LV & (U1 & U2 & U3) & X).
  pose proof gce_edge_free as FF. pose proof gce_faces as Fa.
  pose proof (delete_edge_core_view h se D F) as V. cbv zeta in V.
  destruct V as (w1 & w2 & _ & w4 & w5 & w6 & w7 & w8 & w9 & w10 & w11 & (m1 & m2 & m3 & m4 & m5)).
  change (nv se) with (nv s) in w1. change (edges se) with (edges s) in w2. change (cells se) with (cells s) in w4.
  change (vdel se) with (vdel s) in w5. change (edel se) with (upd h false (edel s)) in w6. rewrite remove_nth_upd_same in w6.
  change (fdel se) with (fdel s) in w7. change (cdel se) with (cdel s) in w8.
  change (vbu se) with (vbu s) in w9, m1. change (out_hes se) with (out_hes s) in w9.
  change (ebu se) with (ebu s) in w10, m2. change (inc_hfs se) with (inc_hfs s) in w10. change (inc_cell se) with (inc_cell s) in w11.
  change (fbu se) with (fbu s) in m3.
  set (t := delete_edge_core h (clr_e h s)) in *.
  assert (NE : ne t = ne s - 1) by (unfold ne; rewrite w2; apply remove_nth_length; exact Hh).
  assert (NF_ : nf t = nf s) by (unfold nf; rewrite Fa, map_length; reflexivity).
  assert (NC_ : nc t = nc s) by (unfold nc; rewrite w4; reflexivity).
  assert (EA : forall e, edge_at t e = edge_at s (unshift1 h e)) by (intros e; unfold edge_at; rewrite w2; apply nth_remove_nth_unshift).
  assert (HF : forall x, he_from t x = he_from s (unshift2 h x)).
  { intros x. rewrite !he_from_cases, EA, unshift2_div2, unshift2_mod2. reflexivity. }
  assert (FAt : forall f, face_at t f = map (cor2 (2 * h + 1)) (face_at s f)) by (intros f; unfold face_at; rewrite Fa; apply nth_map_map).
  assert (ED : forall e, e_deleted t e = e_deleted s (unshift1 h e)) by (intros e; unfold e_deleted; rewrite w6; apply flag_after_remove).
  assert (FD : forall f, f_deleted t f = f_deleted s f) by (intros f; unfold f_deleted; rewrite w7; reflexivity).
  assert (CD : forall c, c_deleted t c = c_deleted s c) by (intros c; unfold c_deleted; rewrite w8; reflexivity).
  assert (CAt : forall c, cell_at t c = cell_at s c) by (intros c; unfold cell_at; rewrite w4; reflexivity).
  assert (NFt : no_fflags t) by (intros f; rewrite FD; apply NFf).
  refine (conj _ (conj m4 (conj m5 (conj NFt (conj w1 (conj w2 (conj Fa (conj w4 (conj w5 (conj w6 (conj w7 (conj w8 (conj (conj m1 (conj m2 m3)) _))))))))))))).
  - split; [|split; [rewrite w5, w1; exact LV|split]].
    + (* bu_inv *)
      split; [|split; [|split; [|split; [split; [|split]|unfold lens_ok; split; [|split; [|split; [|split; [|split]]]]]]]].
      * (* vbu_ok *)
        intros Vb v Hv x. rewrite m1 in Vb. rewrite w1 in Hv. unfold out_at. rewrite w9, Vb, (gce_edge_out Vb), nth_map_map. fold (out_at s v).
        rewrite In_map_cor2 by (intros y Hy Ey; exact (gce_out_absent Vb v y Ey Hy)).
        rewrite (VO Vb v Hv), NE, HF, ED, unshift2_div2.
        pose proof (unshift1_lt h (x / 2) (ne s) Hh). tauto.
      * (* ebu_ok *)
        intros E k Hk x. rewrite m2 in E. rewrite NE in Hk. unfold hfs_at. rewrite w10, E, nth_remove_two_unshift. fold (hfs_at s (unshift2 h k)).
        assert (Hu : unshift2 h k < 2 * ne s) by (apply unshift2_lt; assumption).
        rewrite (EO E _ Hu x), NF_, FD, (halfface_map_cor2 s t h x Fa FF k). reflexivity.
      * (* fbu_ok *)
        intros Fb hf Hhf c. rewrite m3 in Fb. rewrite NF_ in Hhf. unfold cell_of. rewrite w11, NC_, CD, CAt. exact (FO Fb hf Hhf c).
      * intros e He Hde. rewrite NE in He. rewrite ED in Hde. rewrite EA, w1. apply R1; [apply unshift1_lt; assumption|exact Hde].
      * intros f Hf _ x Hx. rewrite NF_ in Hf. rewrite FAt in Hx. apply in_map_iff in Hx. destruct Hx as [y [<- Hy]].
        pose proof (R2 f Hf (NFf f) y Hy). pose proof (FF f y Hy). rewrite NE. unfold cor2. ltb_cases; lia.
      * intros c Hc Hdc x Hx. rewrite NC_ in Hc. rewrite CD in Hdc. rewrite CAt in Hx. rewrite NF_. exact (R3 c Hc Hdc x Hx).
      * intros Vb. rewrite m1 in Vb. rewrite w9, Vb, w1, map_length, (gce_edge_out Vb). exact (L1 Vb).
      * intros E. rewrite m2 in E. rewrite w10, E, NE, remove_two_length by (rewrite (L2 E); lia). rewrite (L2 E). lia.
      * intros Fb. rewrite m3 in Fb. rewrite w11, NF_. exact (L3 Fb).
      * rewrite w6, NE, remove_nth_length by (rewrite L4; exact Hh). rewrite L4. reflexivity.
      * rewrite w7, NF_. exact L5.
      * rewrite w8, NC_. exact L6.
    + (* up_closed *)
      split; [|split].
      * intros e He Hde. rewrite NE in He. rewrite ED in Hde. rewrite EA. unfold v_deleted. rewrite w5.
        apply (U1 (unshift1 h e)); [apply unshift1_lt; assumption|exact Hde].
      * intros f Hf _ he Hhe. rewrite NF_ in Hf. rewrite FAt in Hhe. apply in_map_iff in Hhe. destruct Hhe as [y [<- Hy]].
        rewrite ED, cor2_div2 by (exact (FF f y Hy)). rewrite unshift1_cor1 by (exact (FF f y Hy)). exact (U2 f Hf (NFf f) y Hy).
      * intros c Hc Hdc hf Hhf. rewrite NC_ in Hc. rewrite CD in Hdc. rewrite CAt in Hhf. rewrite FD. exact (U3 c Hc Hdc hf Hhf).
    + (* gext *)
      intros E' Fb'. assert (E : ebu s = true) by congruence. assert (Fb : fbu s = true) by congruence.
      destruct (X E Fb) as (SN & LC). split.
      * intros k Hk. rewrite NE in Hk. unfold hfs_at. rewrite w10, E, nth_remove_two_unshift. apply SN. apply unshift2_lt; assumption.
      * intros c Hc Hdc. rewrite NC_ in Hc. rewrite CD in Hdc. pose proof (LC c Hc Hdc) as Cl.
        apply (closed_cell_rename s t c c (fun x => x) (cor2 (2 * h + 1))); [rewrite map_id; exact (CAt c)| | | | |exact Cl].
        -- intros y Hy. unfold cell_of. rewrite w11. exact (proj1 (Cl y Hy)).
        -- intros y z Hy Hz. split; reflexivity.
        -- intros z Hz. apply halfface_map_cor2_eq. exact Fa.
        -- intros y z he0 w Hy Hz Hhe0 Hw. rewrite <- cor2_opp. apply eqb_inj. apply cor2_inj_on.
           ++ rewrite opp_div2. exact (halfface_edge_free s h z w FF Hw).
           ++ exact (halfface_edge_free s h y he0 FF Hhe0).
  - (* faces_simple *)
    intros FS f Hf _. rewrite NF_ in Hf. rewrite FAt.
    destruct (FS f Hf (NFf f)) as [Nd Sim].
    assert (Av : forall y, In y (face_at s f) -> y / 2 <> h) by (intros y Hy; exact (FF f y Hy)).
    split.
    + apply NoDup_map_inj_on; [exact Nd|]. intros x y Hx Hy. apply cor2_inj_on; auto.
    + intros x' Hx' Ho. apply in_map_iff in Hx'. destruct Hx' as [x0 [<- Hx0]]. rewrite <- cor2_opp in Ho.
      apply (In_map_cor2 h _ _ Av) in Ho. rewrite unshift2_cor2 in Ho by (rewrite opp_div2; auto). exact (Sim x0 Hx0 Ho).
Qed.
End EdgeStep.

(* ================================================================== flags and property arrays: unconditional *)

Lemma gc_edge_step_props s h : deferred s = false -> fast s = false -> let s' := delete_edge_core h (clr_e h s) in
  pe s' = map (pdelete h) (pe s) /\ phe s' = map (pdelete (2 * h)) (map (pdelete (2 * h + 1)) (phe s)) /\
  pv s' = pv s /\ pf s' = pf s /\ phf s' = phf s /\ pc s' = pc s /\ pm s' = pm s.
Proof.
  intros D F. cbv zeta. pose proof (delete_edge_core_props h (clr_e h s) D) as P. cbv zeta in P. unfold victim in P.
  change (fast (clr_e h s)) with (fast s) in P. rewrite F in P. cbn [andb] in P.
  destruct P as (_ & p2 & p3 & _ & _ & _ & p7 & p8 & p9 & p10 & p11). repeat split; assumption.
Qed.

(* ================================================================== the pass *)

Theorem gc_edge_pass n : forall s, deferred s = false -> fast s = false -> ginv s -> no_fflags s -> n <= ne s ->
  (forall i, n <= i -> e_deleted s i = false) ->
  let t := pass_e n s in
  ginv t /\ deferred t = false /\ fast t = false /\ no_fflags t /\ no_eflags t /\
  nv t = nv s /\ edges t = compact (edel s) (edges s) /\ faces t = map (map (rank2 (edel s))) (faces s) /\ cells t = cells s /\
  vdel t = vdel s /\ edel t = compact (edel s) (edel s) /\ fdel t = fdel s /\ cdel t = cdel s /\
  (vbu t = vbu s /\ ebu t = ebu s /\ fbu t = fbu s) /\
  (pe t = map (pcompact (edel s)) (pe s) /\ phe t = map (pcompact (dbl (edel s))) (phe s) /\
   pv t = pv s /\ pf t = pf s /\ phf t = phf s /\ pc t = pc s /\ pm t = pm s) /\
  (faces_simple s -> faces_simple t).
Proof.
  unfold pass_e. induction n as [|n IH]; intros s D F I NFf Hn Hi; cbv zeta.
  - rewrite gc_pass_0.
    assert (NE : forall i, nth i (edel s) false = false) by (intros i; apply (Hi i); lia).
    rewrite !compact_all_false, !map_pcompact_all_false, map_rank2_all_false by (try apply dbl_all_false; exact NE).
    refine (conj I (conj D (conj F (conj NFf (conj _ _))))); [exact NE|]. splits; auto.
  - rewrite gc_pass_S. destruct (e_deleted s n) eqn:Hd.
    + assert (Hlt : n < ne s) by lia.
      pose proof (gc_edge_step s n D F I NFf Hlt Hd) as St. pose proof (gc_edge_step_props s n D F) as Pr. cbv zeta in Pr.
      fold (clr_e n s) in *. set (s1 := delete_edge_core n (clr_e n s)) in *.
      destruct St as (I1 & D1 & F1 & NF1 & a1 & a2 & a3 & a4 & a5 & a6 & a7 & a8 & (m1 & m2 & m3) & FS1).
      destruct Pr as (q1 & q2 & q3 & q4 & q5 & q6 & q7).
      assert (Hn1 : n <= ne s1) by (unfold ne; rewrite a2, remove_nth_length by exact Hlt; fold (ne s); lia).
      assert (Hi1 : forall i, n <= i -> e_deleted s1 i = false).
      { intros i Hge. unfold e_deleted. rewrite a6, flag_after_remove, unshift1_ge by exact Hge. apply (Hi (S i)). lia. }
      specialize (IH s1 D1 F1 I1 NF1 Hn1 Hi1). cbv zeta in IH.
      destruct IH as (It & Dt & Ft & NFt & NEt & b1 & b2 & b3 & b4 & b5 & b6 & b7 & b8 & (n1 & n2 & n3) & (r1 & r2 & r3 & r4 & r5 & r6 & r7) & FSt).
      assert (Hd' : nth n (edel s) false = true) by exact Hd.
      refine (conj It (conj Dt (conj Ft (conj NFt (conj NEt _))))).
      rewrite b1, b2, b3, b4, b5, b6, b7, b8, n1, n2, n3, r1, r2, r3, r4, r5, r6, r7.
      rewrite a1, a2, a3, a4, a5, a6, a7, a8, m1, m2, m3, q1, q2, q3, q4, q5, q6, q7.
      rewrite !compact_remove, map_pcompact_remove, map_pcompact_remove2, map_rank2_remove by exact Hd'. splits; auto.
    + apply (IH s D F I NFf); [lia|]. intros i Hge. destruct (Nat.eq_dec i n) as [->|N]; [exact Hd|apply Hi; lia].
Qed.
