(* Kernel3/FastPublic2.v -- C02, immediate FAST mode: delete_edge / delete_face / delete_cell in the form of Kernel3/FastPublic.v
   (delete_vertex): bijections of the survivors (renumbered), flags / property values / counters following them (values_follow). *)
From Coq Require Import ZArith Lia Bool Arith List ZifyNat ZifyBool.
From OVM Require Import Base.ListX Base.ListLemmas Base.ListLemmas2 Kernel.State Kernel.Ops Kernel.Mirror Kernel.Construct
                        Kernel.Recompute Kernel.Closure Kernel.ExactInv Kernel.SwapEffects Kernel.SwapInvol Kernel.Sizes Kernel.PropLaws
                        Kernel.ShiftFace Kernel.ShiftEdge Kernel.ShiftVertex Kernel.ShiftCompose
                        Kernel3.FastDefs Kernel3.FastBase Kernel3.FastMany Kernel3.FastPhases Kernel3.FastArrays Kernel3.FastModes Kernel3.FastModes2
                        Kernel3.FastPublic.
Import ListNotations.
Ltac Zify.zify_post_hook ::= Z.div_mod_to_equations.
Local Open Scope nat_scope.

Lemma set_fast_true_self s : fast s = true -> set_fast true s = s.
Proof. intros F. rewrite <- F. apply set_fast_self. Qed.

(* ================================================================== survivors *)

Theorem fast_delete_edge_survivors e s : deferred s = false -> fast s = true -> shift_inv2 s -> e < ne s ->
  let fs := faces_at_edges s [e] in let cs := cells_at_faces s fs in let s' := delete_edge e s in
  renumbered s s' [] [e] fs cs (fren (nv s) []) (fren (ne s) [e]) (fren (nf s) fs) (fren (nc s) cs) /\ shift_inv2 s' /\
  deferred s' = false /\ fast s' = true.
Proof.
  intros D F I He. cbv zeta. pose proof (mode_independent_edge e s D I He) as M. cbv zeta in M. rewrite (set_fast_true_self s F) in M.
  destruct M as ((R & _) & If & _ & (Df & Ff) & _). exact (conj R (conj If (conj Df Ff))).
Qed.

Theorem fast_delete_face_survivors f s : deferred s = false -> fast s = true -> shift_inv2 s -> f < nf s ->
  let cs := cells_at_faces s [f] in let s' := delete_face f s in
  renumbered s s' [] [] [f] cs (fren (nv s) []) (fren (ne s) []) (fren (nf s) [f]) (fren (nc s) cs) /\ shift_inv2 s' /\
  deferred s' = false /\ fast s' = true.
Proof.
  intros D F I Hf. cbv zeta. pose proof (mode_independent_face f s D I Hf) as M. cbv zeta in M. rewrite (set_fast_true_self s F) in M.
  destruct M as ((R & _) & If & _ & (Df & Ff) & _). exact (conj R (conj If (conj Df Ff))).
Qed.

Theorem fast_delete_cell_survivors c s : deferred s = false -> fast s = true -> shift_inv2 s -> c < nc s ->
  let s' := delete_cell c s in
  renumbered s s' [] [] [] [c] (fren (nv s) []) (fren (ne s) []) (fren (nf s) []) (fren (nc s) [c]) /\ shift_inv2 s' /\
  deferred s' = false /\ fast s' = true.
Proof.
  intros D F I Hc. cbv zeta. pose proof (mode_independent_cell c s D I Hc) as M. cbv zeta in M. rewrite (set_fast_true_self s F) in M.
  destruct M as ((R & _) & If & _ & (Df & Ff) & _). exact (conj R (conj If (conj Df Ff))).
Qed.

(* ================================================================== arrays *)

Theorem delete_edge_arrays_fast e s : imm_fast s -> sized s -> e < ne s ->
  let fs := incident_faces_of_edges s [e] in let cs := incident_cells_of_faces s fs in
  strictly_sorted fs -> strictly_sorted cs -> (forall f, In f fs -> f < nf s) -> (forall c, In c cs -> c < nc s) ->
  let s' := delete_edge e s in
  varr s' = varr s /\
  earr s' = (fast_remove false e (edel s), map (pfast e) (pe s), map (pfast2 e) (phe s)) /\
  farr s' = (fast_remove_many false fs (fdel s), map (pfast_many fs) (pf s), map (pfast2_many fs) (phf s)) /\
  carr s' = (fast_remove_many false cs (cdel s), map (pfast_many cs) (pc s)) /\
  marr s' = marr s /\ sized s' /\ imm_fast s'.
Proof.
  intros M Z He fs cs Sfs Scs Rfs Rcs. cbv zeta. unfold delete_edge. fold fs. fold cs.
  pose proof (cells_run_arrays cs s Scs Rcs M Z) as P. cbv zeta in P. set (t := del_desc delete_cell_core cs s) in *.
  destruct P as (t1 & t2 & t3 & t4 & t5 & t6 & Zt & Mt). unfold cnts in t6. injection t6 as tn1 tn2 tn3 tn4.
  pose proof (faces_run_arrays fs t Sfs ltac:(rewrite tn3; exact Rfs) Mt Zt) as Q. cbv zeta in Q. set (u := del_desc delete_face_core fs t) in *.
  destruct Q as (u1 & u2 & u3 & u4 & u5 & u6 & Zu & Mu). unfold cnts in u6. injection u6 as un1 un2 un3 un4.
  pose proof (edge_core_arrays e u Mu Zu ltac:(rewrite un2, tn2; exact He) (nf_delete_edge_core_fast e u Mu)) as X. cbv zeta in X.
  destruct X as (x1 & x2 & x3 & x4 & x5 & _ & Zx & Mx).
  unfold earr in u3, t3. injection u3 as ue1 ue2 ue3. injection t3 as te1 te2 te3.
  unfold farr in t4. injection t4 as tf1 tf2 tf3.
  unfold carr in u4. injection u4 as uc1 uc2.
  split; [congruence|].
  split; [rewrite x1, ue1, ue2, ue3, te1, te2, te3; reflexivity|].
  split; [rewrite x3, u1, tf1, tf2, tf3; reflexivity|].
  split; [rewrite x4; unfold carr; rewrite uc1, uc2; fold (carr t); exact t1|].
  split; [congruence|]. split; assumption.
Qed.

Theorem delete_face_arrays_fast f s : imm_fast s -> sized s -> f < nf s ->
  let cs := incident_cells_of_faces s [f] in
  strictly_sorted cs -> (forall c, In c cs -> c < nc s) ->
  let s' := delete_face f s in
  varr s' = varr s /\ earr s' = earr s /\
  farr s' = (fast_remove false f (fdel s), map (pfast f) (pf s), map (pfast2 f) (phf s)) /\
  carr s' = (fast_remove_many false cs (cdel s), map (pfast_many cs) (pc s)) /\
  marr s' = marr s /\ sized s' /\ imm_fast s'.
Proof.
  intros M Z Hf cs Scs Rcs. cbv zeta. unfold delete_face. fold cs.
  pose proof (cells_run_arrays cs s Scs Rcs M Z) as P. cbv zeta in P. set (t := del_desc delete_cell_core cs s) in *.
  destruct P as (t1 & t2 & t3 & t4 & t5 & t6 & Zt & Mt). unfold cnts in t6. injection t6 as tn1 tn2 tn3 tn4.
  pose proof (face_core_arrays f t Mt Zt ltac:(rewrite tn3; exact Hf) (nc_delete_face_core_fast f t Mt)) as X. cbv zeta in X.
  destruct X as (x1 & x2 & x3 & x4 & x5 & _ & Zx & Mx).
  unfold farr in t4. injection t4 as tf1 tf2 tf3.
  split; [congruence|]. split; [congruence|].
  split; [rewrite x1, tf1, tf2, tf3; reflexivity|].
  split; [rewrite x4; exact t1|].
  split; [congruence|]. split; assumption.
Qed.

(* ================================================================== values follow the maps *)

Lemma fren_nil n i : fren n [] i = i.
Proof. reflexivity. Qed.
Lemma lift2_id h : lift2 (fun x => x) h = h.
Proof. unfold lift2. symmetry. apply Nat.div_mod_eq. Qed.
Lemma lift2_fren_nil n h : lift2 (fren n []) h = h.
Proof. apply lift2_id. Qed.

Theorem fast_delete_edge_values e s : deferred s = false -> fast s = true -> shift_inv2 s -> sized s -> e < ne s ->
  let fs := faces_at_edges s [e] in let cs := cells_at_faces s fs in let s' := delete_edge e s in
  values_follow s s' [] [e] fs cs (fren (nv s) []) (fren (ne s) [e]) (fren (nf s) fs) (fren (nc s) cs) /\ sized s'.
Proof.
  intros D F I Z He. cbv zeta. destruct (closure_edge_ok e s I He) as (((Sv & Rv) & (Se & Re) & (Sf & Rf) & (Sc & Rc)) & _ & _).
  pose proof I as ((_ & _ & EO & FO & _) & _).
  pose proof (delete_edge_arrays_fast e s (conj D F) Z He) as A. cbv zeta in A.
  rewrite (incident_faces_cache_is_scan s _ EO) in A by (intros x [<-|[]]; exact He).
  rewrite (incident_cells_cache_is_scan s _ FO) in A by (intros x Hx; exact (In_faces_at_edges_lt s _ x Hx)).
  destruct (A Sf Sc Rf Rc) as (a1 & a2 & a3 & a4 & a5 & Z' & _). clear A.
  set (s' := delete_edge e s) in *.
  unfold varr in a1. injection a1 as v1 v2. unfold earr in a2. injection a2 as e1 e2 e3. unfold farr in a3. injection a3 as f1 f2 f3.
  unfold carr in a4. injection a4 as c1 c2. unfold marr in a5. injection a5 as m1 m2 m3 m4 m5.
  pose proof (proj2 (szd_sized s) Z) as (Lv & Le & Lf & Lc & Pv & Pe & Phe & Pf & Phf & Pc & Pm).
  split; [|exact Z']. unfold values_follow. split; [|split; [|split; [|split; [|split; [|split; [|split]]]]]].
  - intros k i Hi Ni. rewrite fren_nil. unfold v_deleted. rewrite v1, v2. split; reflexivity.
  - intros k i Hi Ni. split.
    + rewrite e2. replace (map (pfast e) (pe s)) with (map (pfast_many [e]) (pe s)) by reflexivity. apply pval_nth_map_many; assumption.
    + unfold e_deleted. rewrite e1. replace (fast_remove false e (edel s)) with (fast_remove_many false [e] (edel s)) by reflexivity.
      unfold ne in *. rewrite <- Le. apply (fast_run_survivors false [e] (edel s)); rewrite ?Le; assumption.
  - intros k i Hi Ni. split.
    + rewrite f2. apply pval_nth_map_many; assumption.
    + unfold f_deleted. rewrite f1. unfold nf in *. rewrite <- Lf. apply (fast_run_survivors false _ (fdel s)); rewrite ?Lf; assumption.
  - intros k i Hi Ni. split.
    + rewrite c2. apply pval_nth_map_many; assumption.
    + unfold c_deleted. rewrite c1. unfold nc in *. rewrite <- Lc. apply (fast_run_survivors false _ (cdel s)); rewrite ?Lc; assumption.
  - intros k h Hh Nh. rewrite e3. replace (map (pfast2 e) (phe s)) with (map (pfast2_many [e]) (phe s)) by reflexivity. apply pval_nth_map_many2; assumption.
  - intros k h Hh Nh. rewrite f3. apply pval_nth_map_many2; assumption.
  - exact m1.
  - repeat split; assumption.
Qed.

Theorem fast_delete_face_values f s : deferred s = false -> fast s = true -> shift_inv2 s -> sized s -> f < nf s ->
  let cs := cells_at_faces s [f] in let s' := delete_face f s in
  values_follow s s' [] [] [f] cs (fren (nv s) []) (fren (ne s) []) (fren (nf s) [f]) (fren (nc s) cs) /\ sized s'.
Proof.
  intros D F I Z Hf. cbv zeta. destruct (closure_face_ok f s I Hf) as (((Sv & Rv) & (Se & Re) & (Sf & Rf) & (Sc & Rc)) & _ & _).
  pose proof I as ((_ & _ & EO & FO & _) & _).
  pose proof (delete_face_arrays_fast f s (conj D F) Z Hf) as A. cbv zeta in A.
  rewrite (incident_cells_cache_is_scan s _ FO) in A by (intros x [<-|[]]; exact Hf).
  destruct (A Sc Rc) as (a1 & a2 & a3 & a4 & a5 & Z' & _). clear A.
  set (s' := delete_face f s) in *.
  unfold varr in a1. injection a1 as v1 v2. unfold earr in a2. injection a2 as e1 e2 e3. unfold farr in a3. injection a3 as f1 f2 f3.
  unfold carr in a4. injection a4 as c1 c2. unfold marr in a5. injection a5 as m1 m2 m3 m4 m5.
  pose proof (proj2 (szd_sized s) Z) as (Lv & Le & Lf & Lc & Pv & Pe & Phe & Pf & Phf & Pc & Pm).
  split; [|exact Z']. unfold values_follow. split; [|split; [|split; [|split; [|split; [|split; [|split]]]]]].
  - intros k i Hi Ni. rewrite fren_nil. unfold v_deleted. rewrite v1, v2. split; reflexivity.
  - intros k i Hi Ni. rewrite fren_nil. unfold e_deleted. rewrite e1, e2. split; reflexivity.
  - intros k i Hi Ni. split.
    + rewrite f2. replace (map (pfast f) (pf s)) with (map (pfast_many [f]) (pf s)) by reflexivity. apply pval_nth_map_many; assumption.
    + unfold f_deleted. rewrite f1. replace (fast_remove false f (fdel s)) with (fast_remove_many false [f] (fdel s)) by reflexivity.
      unfold nf in *. rewrite <- Lf. apply (fast_run_survivors false [f] (fdel s)); rewrite ?Lf; assumption.
  - intros k i Hi Ni. split.
    + rewrite c2. apply pval_nth_map_many; assumption.
    + unfold c_deleted. rewrite c1. unfold nc in *. rewrite <- Lc. apply (fast_run_survivors false _ (cdel s)); rewrite ?Lc; assumption.
  - intros k h Hh Nh. rewrite lift2_fren_nil, e3. reflexivity.
  - intros k h Hh Nh. rewrite f3. replace (map (pfast2 f) (phf s)) with (map (pfast2_many [f]) (phf s)) by reflexivity. apply pval_nth_map_many2; assumption.
  - exact m1.
  - repeat split; assumption.
Qed.

Theorem fast_delete_cell_values c s : deferred s = false -> fast s = true -> shift_inv2 s -> sized s -> c < nc s ->
  let s' := delete_cell c s in
  values_follow s s' [] [] [] [c] (fren (nv s) []) (fren (ne s) []) (fren (nf s) []) (fren (nc s) [c]) /\ sized s'.
Proof.
  intros D F I Z Hc. cbv zeta. unfold delete_cell.
  pose proof (cell_core_arrays c s (conj D F) Z Hc) as A. cbv zeta in A. destruct A as (a4 & a1 & a2 & a3 & a5 & _ & Z' & _).
  set (s' := delete_cell_core c s) in *.
  unfold varr in a1. injection a1 as v1 v2. unfold earr in a2. injection a2 as e1 e2 e3. unfold farr in a3. injection a3 as f1 f2 f3.
  unfold carr in a4. injection a4 as c1 c2. unfold marr in a5. injection a5 as m1 m2 m3 m4 m5.
  pose proof (proj2 (szd_sized s) Z) as (Lv & Le & Lf & Lc & Pv & Pe & Phe & Pf & Phf & Pc & Pm).
  assert (Sc : strictly_sorted [c]) by constructor. assert (Rc : forall x, In x [c] -> x < length (cells s)) by (intros x [<-|[]]; exact Hc).
  split; [|exact Z']. unfold values_follow. split; [|split; [|split; [|split; [|split; [|split; [|split]]]]]].
  - intros k i Hi Ni. rewrite fren_nil. unfold v_deleted. rewrite v1, v2. split; reflexivity.
  - intros k i Hi Ni. rewrite fren_nil. unfold e_deleted. rewrite e1, e2. split; reflexivity.
  - intros k i Hi Ni. rewrite fren_nil. unfold f_deleted. rewrite f1, f2. split; reflexivity.
  - intros k i Hi Ni. split.
    + rewrite c2. replace (map (pfast c) (pc s)) with (map (pfast_many [c]) (pc s)) by reflexivity. apply pval_nth_map_many; assumption.
    + unfold c_deleted. rewrite c1. replace (fast_remove false c (cdel s)) with (fast_remove_many false [c] (cdel s)) by reflexivity.
      unfold nc in *. rewrite <- Lc. apply (fast_run_survivors false [c] (cdel s)); rewrite ?Lc; assumption.
  - intros k h Hh Nh. rewrite lift2_fren_nil, e3. reflexivity.
  - intros k h Hh Nh. rewrite lift2_fren_nil, f3. reflexivity.
  - exact m1.
  - repeat split; assumption.
Qed.
