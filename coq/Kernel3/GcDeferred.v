(* Kernel3/GcDeferred.v -- C04: the hypothesis of the collection theorems after DEFERRED deletions.
     - the brute-force closure lists (Kernel/Closure.v), with flags present;
     - a deferred deletion that flags a closed set keeps the flagged set upward closed (up_closed);
     - with the edge and face incidences on (the setting of Kernel2/ExactHistory.v) the four public deletions keep
       hinv = bu_inv2 + up_closed + one vertex flag per vertex, which implies ginv; afterwards something is pending. *)
From Coq Require Import ZArith Lia Bool Arith List ZifyNat ZifyBool Permutation.
From OVM Require Import Base.ListX Base.ListLemmas Kernel.State Kernel.Ops Kernel.Mirror Kernel.Recompute Kernel.Closure Kernel.ExactInv
                        Kernel.DeferredDelete
                        Kernel2.LookupModel Kernel2.ListAux Kernel2.AdjacentProofs Kernel2.ReorderExact Kernel2.ExactBase
                        Kernel2.ExactDelCell Kernel2.ExactDelFace Kernel2.ExactDeletions
                        Kernel.ShiftFace Kernel.ShiftCompose Kernel3.GcDefs Kernel3.GcList Kernel3.GcInv.
Import ListNotations.
Ltac Zify.zify_post_hook ::= Z.div_mod_to_equations.
Local Open Scope nat_scope.

(* ================================================================== the brute-force closure lists, with flags *)

Lemma edges_at_vertex_specL s v e :
  In e (edges_at_vertex s v) <-> e < ne s /\ e_deleted s e = false /\ (fst (edge_at s e) = v \/ snd (edge_at s e) = v).
Proof.
  unfold edges_at_vertex. rewrite filter_In, In_live_edges. destruct (edge_at s e) as [x y]. cbn [fst snd].
  rewrite orb_true_iff, !Nat.eqb_eq. tauto.
Qed.
Lemma faces_at_edges_specL s es f :
  In f (faces_at_edges s es) <-> f < nf s /\ f_deleted s f = false /\ exists he, In he (face_at s f) /\ In (he / 2) es.
Proof.
  unfold faces_at_edges. rewrite filter_In, In_live_faces, existsb_exists. split.
  - intros [[A B] [he [H1 H2]]]. split; [exact A|]. split; [exact B|]. exists he. split; [exact H1|]. apply Base.ListLemmas.memb_In. exact H2.
  - intros (A & B & [he [H1 H2]]). split; [tauto|]. exists he. split; [exact H1|]. apply Base.ListLemmas.memb_In. exact H2.
Qed.
Lemma cells_at_faces_specL s fs c :
  In c (cells_at_faces s fs) <-> c < nc s /\ c_deleted s c = false /\ exists hf, In hf (cell_at s c) /\ In (hf / 2) fs.
Proof.
  unfold cells_at_faces. rewrite filter_In, In_live_cells, existsb_exists. split.
  - intros [[A B] [he [H1 H2]]]. split; [exact A|]. split; [exact B|]. exists he. split; [exact H1|]. apply Base.ListLemmas.memb_In. exact H2.
  - intros (A & B & [he [H1 H2]]). split; [tauto|]. exists he. split; [exact H1|]. apply Base.ListLemmas.memb_In. exact H2.
Qed.

(* ================================================================== flagging a closed set keeps the flagged set upward closed *)

(* every live referrer of an entity that gets flagged gets flagged too *)
Definition closure_ok (s : mesh) (dv de df dc : list nat) : Prop :=
  (forall e, e < ne s -> e_deleted s e = false -> ~ In e de -> ~ In (fst (edge_at s e)) dv /\ ~ In (snd (edge_at s e)) dv) /\
  (forall f, f < nf s -> f_deleted s f = false -> ~ In f df -> forall he, In he (face_at s f) -> ~ In (he / 2) de) /\
  (forall c, c < nc s -> c_deleted s c = false -> ~ In c dc -> forall hf, In hf (cell_at s c) -> ~ In (hf / 2) df).

Definition flag_lens (s : mesh) : Prop :=
  length (vdel s) = nv s /\ length (edel s) = ne s /\ length (fdel s) = nf s /\ length (cdel s) = nc s.

Lemma flag_read L l i : i < length l -> nth i (flag_all L l) false = false <-> nth i l false = false /\ ~ In i L.
Proof.
  intros Hi. rewrite nth_flag_all by exact Hi. rewrite orb_false_iff, <- Base.ListLemmas.memb_In. destruct (memb i L); intuition congruence.
Qed.

Theorem up_closed_dstep s s' dv de df dc : dstep s s' dv de df dc -> flag_lens s -> refs_ok s -> up_closed s ->
  closure_ok s dv de df dc -> up_closed s' /\ flag_lens s'.
Proof.
  intros (x1&x2&x3&x4&x5&x6&x7&x8&_) (Lv & Le & Lf & Lc) (R1 & R2 & R3) (U1 & U2 & U3) (C1 & C2 & C3).
  assert (NE : ne s' = ne s) by (unfold ne; rewrite x2; reflexivity).
  assert (NF : nf s' = nf s) by (unfold nf; rewrite x3; reflexivity).
  assert (NC : nc s' = nc s) by (unfold nc; rewrite x4; reflexivity).
  split.
  - split; [|split].
    + intros e He Hd. rewrite NE in He. unfold e_deleted in Hd. rewrite x6 in Hd. apply flag_read in Hd; [|rewrite Le; exact He].
      destruct Hd as [Hd Nin]. unfold v_deleted, edge_at. rewrite x5, x2. fold (edge_at s e).
      destruct (R1 e He Hd) as [A B]. destruct (U1 e He Hd) as [A' B']. destruct (C1 e He Hd Nin) as [A'' B''].
      split; apply flag_read; try (rewrite Lv; assumption); split; assumption.
    + intros f Hf Hd he Hhe. rewrite NF in Hf. unfold f_deleted in Hd. rewrite x7 in Hd. apply flag_read in Hd; [|rewrite Lf; exact Hf].
      destruct Hd as [Hd Nin]. unfold face_at in Hhe. rewrite x3 in Hhe. unfold e_deleted. rewrite x6.
      apply flag_read; [rewrite Le; pose proof (R2 f Hf Hd he Hhe); lia|]. split; [exact (U2 f Hf Hd he Hhe)|exact (C2 f Hf Hd Nin he Hhe)].
    + intros c Hc Hd hf Hhf. rewrite NC in Hc. unfold c_deleted in Hd. rewrite x8 in Hd. apply flag_read in Hd; [|rewrite Lc; exact Hc].
      destruct Hd as [Hd Nin]. unfold cell_at in Hhf. rewrite x4 in Hhf. unfold f_deleted. rewrite x7.
      apply flag_read; [rewrite Lf; pose proof (R3 c Hc Hd hf Hhf); lia|]. split; [exact (U3 c Hc Hd hf Hhf)|exact (C3 c Hc Hd Nin hf Hhf)].
  - unfold flag_lens. rewrite x5, x6, x7, x8, !flag_all_length, x1, NE, NF, NC. tauto.
Qed.

(* the closure lists of the four public deletions are closed *)
Lemma closure_ok_vertex s v :
  let es := edges_at_vertex s v in let fs := faces_at_edges s es in let cs := cells_at_faces s fs in
  closure_ok s [v] (rev es) (rev fs) (rev cs).
Proof.
  cbv zeta. split; [|split].
  - intros e He Hd Nin. rewrite <- in_rev in Nin.
    split; intros [E|[]]; apply Nin; apply edges_at_vertex_specL; (split; [exact He|split; [exact Hd|]]); [left|right]; symmetry; exact E.
  - intros f Hf Hd Nin he Hhe Hin. rewrite <- in_rev in Nin, Hin. apply Nin. apply faces_at_edges_specL. split; [exact Hf|]. split; [exact Hd|].
    exists he. tauto.
  - intros c Hc Hd Nin hf Hhf Hin. rewrite <- in_rev in Nin, Hin. apply Nin. apply cells_at_faces_specL. split; [exact Hc|]. split; [exact Hd|].
    exists hf. tauto.
Qed.

Lemma closure_ok_edge s e :
  let fs := faces_at_edges s [e] in let cs := cells_at_faces s fs in closure_ok s [] [e] (rev fs) (rev cs).
Proof.
  cbv zeta. split; [|split].
  - intros; split; intros [].
  - intros f Hf Hd Nin he Hhe Hin. rewrite <- in_rev in Nin. apply Nin. apply faces_at_edges_specL. split; [exact Hf|]. split; [exact Hd|].
    exists he. tauto.
  - intros c Hc Hd Nin hf Hhf Hin. rewrite <- in_rev in Nin, Hin. apply Nin. apply cells_at_faces_specL. split; [exact Hc|]. split; [exact Hd|].
    exists hf. tauto.
Qed.

Lemma closure_ok_face s f : closure_ok s [] [] [f] (rev (cells_at_faces s [f])).
Proof.
  split; [|split].
  - intros; split; intros [].
  - intros; intros [].
  - intros c Hc Hd Nin hf Hhf Hin. rewrite <- in_rev in Nin. apply Nin. apply cells_at_faces_specL. split; [exact Hc|]. split; [exact Hd|].
    exists hf. tauto.
Qed.

Lemma closure_ok_cell s c : closure_ok s [] [] [] [c].
Proof. split; [|split]; intros; try split; intros []. Qed.

(* ================================================================== what the four public deletions do in deferred mode, exact caches *)

Lemma dstep_delete_vertex s v : deferred s = true -> vbu_ok s -> ebu_ok s -> fbu_ok s -> v < nv s ->
  let es := edges_at_vertex s v in let fs := faces_at_edges s es in let cs := cells_at_faces s fs in
  dstep s (delete_vertex v s) [v] (rev es) (rev fs) (rev cs).
Proof.
  intros D VO EO FO Hv. cbv zeta. pose proof (delete_vertex_deferred v s D) as H. cbv zeta in H.
  rewrite (incident_edges_cache_is_scan s v VO Hv) in H.
  rewrite (incident_faces_cache_is_scan s _ EO) in H by (intros e He; apply edges_at_vertex_live in He; tauto).
  rewrite (incident_cells_cache_is_scan s _ FO) in H by (intros f Hf; apply faces_at_edges_live in Hf; tauto). exact H.
Qed.

Lemma dstep_delete_edge s e : deferred s = true -> ebu_ok s -> fbu_ok s -> e < ne s ->
  let fs := faces_at_edges s [e] in let cs := cells_at_faces s fs in dstep s (delete_edge e s) [] [e] (rev fs) (rev cs).
Proof.
  intros D EO FO He. cbv zeta. pose proof (delete_edge_deferred e s D) as H. cbv zeta in H.
  rewrite (incident_faces_cache_is_scan s [e] EO) in H by (intros x [<-|[]]; exact He).
  rewrite (incident_cells_cache_is_scan s _ FO) in H by (intros f Hf; apply faces_at_edges_live in Hf; tauto). exact H.
Qed.

Lemma dstep_delete_face s f : deferred s = true -> fbu_ok s -> f < nf s -> dstep s (delete_face f s) [] [] [f] (rev (cells_at_faces s [f])).
Proof.
  intros D FO Hf. pose proof (delete_face_deferred f s D) as H.
  rewrite (incident_cells_cache_is_scan s [f] FO) in H by (intros x [<-|[]]; exact Hf). exact H.
Qed.

(* something is pending after a deferred deletion *)
Lemma dstep_pending s s' dv de df dc : dstep s s' dv de df dc -> 0 < length dv + length de + length df + length dc -> needs_gc s' = true.
Proof.
  intros (_&_&_&_&_&_&_&_&y1&y2&y3&y4&_) H. unfold needs_gc. rewrite !orb_true_iff, !Nat.ltb_lt. lia.
Qed.

(* ================================================================== edge and face incidences on: the history invariant *)

Definition hinv (s : mesh) : Prop := bu_inv2 s /\ up_closed s /\ length (vdel s) = nv s.

Lemma hinv_ginv s : hinv s -> ginv s.
Proof. intros ((B & E & Fb & D & SN & CL & LC & FS) & U & LV). split; [exact B|]. split; [exact LV|]. split; [exact U|]. intros _ _. exact (conj SN LC). Qed.

Lemma hinv_flag_lens s : hinv s -> flag_lens s.
Proof. intros (((_ & _ & _ & _ & (_ & _ & _ & L4 & L5 & L6)) & _) & _ & LV). exact (conj LV (conj L4 (conj L5 L6))). Qed.

Lemma hinv_parts s : hinv s -> deferred s = true /\ vbu_ok s /\ ebu_ok s /\ fbu_ok s /\ refs_ok s /\ faces_simple s.
Proof. intros (((VO & EO & FO & R & _) & _ & _ & D & _ & _ & _ & FS) & _). tauto. Qed.

Theorem hinv_delete_vertex v s : hinv s -> v < nv s -> hinv (delete_vertex v s) /\ needs_gc (delete_vertex v s) = true.
Proof.
  intros H Hv. pose proof (hinv_parts s H) as (D & VO & EO & FO & R & _). pose proof (hinv_flag_lens s H) as FL. destruct H as (B & U & LV).
  pose proof (dstep_delete_vertex s v D VO EO FO Hv) as DS. cbv zeta in DS.
  destruct (up_closed_dstep _ _ _ _ _ _ DS FL R U (closure_ok_vertex s v)) as [U' (LV' & _)].
  split; [split; [apply bu_inv2_delete_vertex; assumption|split; assumption]|].
  apply (dstep_pending _ _ _ _ _ _ DS). cbn [length]. lia.
Qed.

Theorem hinv_delete_edge e s : hinv s -> e < ne s -> e_deleted s e = false -> hinv (delete_edge e s) /\ needs_gc (delete_edge e s) = true.
Proof.
  intros H He Hd. pose proof (hinv_parts s H) as (D & VO & EO & FO & R & _). pose proof (hinv_flag_lens s H) as FL. destruct H as (B & U & LV).
  pose proof (dstep_delete_edge s e D EO FO He) as DS. cbv zeta in DS.
  destruct (up_closed_dstep _ _ _ _ _ _ DS FL R U (closure_ok_edge s e)) as [U' (LV' & _)].
  split; [split; [apply bu_inv2_delete_edge; assumption|split; assumption]|].
  apply (dstep_pending _ _ _ _ _ _ DS). cbn [length]. lia.
Qed.

Theorem hinv_delete_face f s : hinv s -> f < nf s -> f_deleted s f = false -> hinv (delete_face f s) /\ needs_gc (delete_face f s) = true.
Proof.
  intros H Hf Hd. pose proof (hinv_parts s H) as (D & VO & EO & FO & R & _). pose proof (hinv_flag_lens s H) as FL. destruct H as (B & U & LV).
  pose proof (dstep_delete_face s f D FO Hf) as DS.
  destruct (up_closed_dstep _ _ _ _ _ _ DS FL R U (closure_ok_face s f)) as [U' (LV' & _)].
  split; [split; [apply bu_inv2_delete_face; assumption|split; assumption]|].
  apply (dstep_pending _ _ _ _ _ _ DS). cbn [length]. lia.
Qed.

Theorem hinv_delete_cell c s : hinv s -> c < nc s -> c_deleted s c = false -> hinv (delete_cell c s) /\ needs_gc (delete_cell c s) = true.
Proof.
  intros H Hc Hd. pose proof (hinv_parts s H) as (D & VO & EO & FO & R & _). pose proof (hinv_flag_lens s H) as FL. destruct H as (B & U & LV).
  pose proof (delete_cell_deferred c s D) as DS.
  destruct (up_closed_dstep _ _ _ _ _ _ DS FL R U (closure_ok_cell s c)) as [U' (LV' & _)].
  split; [split; [apply bu_inv2_delete_cell; assumption|split; assumption]|].
  apply (dstep_pending _ _ _ _ _ _ DS). cbn [length]. lia.
Qed.

(* gc_ready from hinv when something is pending *)
Lemma hinv_pending_ready s : hinv s -> needs_gc s = true -> gc_ready s.
Proof.
  intros H G. pose proof (hinv_parts s H) as (D & _). split; [exact D|]. split; [intros X; congruence|apply hinv_ginv; exact H].
Qed.
