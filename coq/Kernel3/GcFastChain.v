(* Kernel3/GcFastChain.v -- C04, FAST mode: the four pass results (Kernel3/GcFastPass*.v) chained into the statement about the
   whole collection: gc_fast_post s t rv re rf rc (counts, bijections, renamed definitions, property values, for live entities of s). *)
From Coq Require Import ZArith Lia Bool Arith List ZifyNat ZifyBool.
From OVM Require Import Base.ListX Base.ListLemmas Kernel.State Kernel.Ops Kernel.ExactInv Kernel.SwapInvol Kernel.PropLaws Kernel.ShiftFace
                        Kernel3.FastDefs Kernel3.FastBase Kernel3.GcDefs Kernel3.GcList Kernel3.GcInv
                        Kernel3.GcFastBase Kernel3.GcFastRen Kernel3.GcFastPassCF Kernel3.GcFastPassEV.
Import ListNotations.
Ltac Zify.zify_post_hook ::= Z.div_mod_to_equations.
Local Open Scope nat_scope.

(* ================================================================== live entities, boolean form *)

Definition liveb (del : list bool) (n i : nat) : bool := (i <? n) && negb (nth i del false).

Lemma liveb_iff del n i : liveb del n i = true <-> i < n /\ nth i del false = false.
Proof. unfold liveb. rewrite andb_true_iff, Nat.ltb_lt, negb_true_iff. reflexivity. Qed.

Lemma ren_ok_live del n r cnt : ren_ok del n r cnt ->
  cnt = length (alive del n) /\ (forall i, liveb del n i = true -> r i < cnt) /\
  (forall i j, liveb del n i = true -> liveb del n j = true -> r i = r j -> i = j).
Proof.
  intros (C & B & J). split; [exact C|]. split.
  - intros i H. apply liveb_iff in H. destruct H. apply B; assumption.
  - intros i j Hi Hj. apply liveb_iff in Hi, Hj. destruct Hi, Hj. apply J; assumption.
Qed.

Lemma arr_ren_live {A} (d : A) del n r old new : arr_ren d del n r old new -> forall i, liveb del n i = true -> nth (r i) new d = nth i old d.
Proof. intros H i L. apply liveb_iff in L. destruct L. apply H; assumption. Qed.

Lemma props_ren_live del n r old new : props_ren del n r old new ->
  length new = length old /\ forall j i pd, j < length old -> liveb del n i = true -> pval (nth j new pd) (r i) = pval (nth j old pd) i.
Proof. intros (L & H). split; [exact L|]. intros j i pd Hj Li. apply liveb_iff in Li. destruct Li. apply H; assumption. Qed.

Lemma props_ren2_live del n r old new : props_ren2 del n r old new ->
  length new = length old /\ forall j x pd, j < length old -> liveb del n (x / 2) = true -> pval (nth j new pd) (r2 r x) = pval (nth j old pd) x.
Proof. intros (L & H). split; [exact L|]. intros j x pd Hj Li. apply liveb_iff in Li. destruct Li. apply H; assumption. Qed.

(* ================================================================== the statement about the whole collection *)

Definition gc_fast_post (s t : mesh) (rv re rf rc : nat -> nat) : Prop :=
  (* bijections from the live old indices onto [0, live count) *)
  nv t = length (live_vertices s) /\ ne t = length (live_edges s) /\ nf t = length (live_faces s) /\ nc t = length (live_cells s) /\
  ((forall i, live_v s i = true -> rv i < nv t) /\ (forall i j, live_v s i = true -> live_v s j = true -> rv i = rv j -> i = j)) /\
  ((forall i, live_e s i = true -> re i < ne t) /\ (forall i j, live_e s i = true -> live_e s j = true -> re i = re j -> i = j)) /\
  ((forall i, live_f s i = true -> rf i < nf t) /\ (forall i j, live_f s i = true -> live_f s j = true -> rf i = rf j -> i = j)) /\
  ((forall i, live_c s i = true -> rc i < nc t) /\ (forall i j, live_c s i = true -> live_c s j = true -> rc i = rc j -> i = j)) /\
  (* definitions: the old live ones renamed *)
  (forall e, live_e s e = true -> edge_at t (re e) = (rv (fst (edge_at s e)), rv (snd (edge_at s e)))) /\
  (forall f, live_f s f = true -> face_at t (rf f) = map (r2 re) (face_at s f)) /\
  (forall c, live_c s c = true -> cell_at t (rc c) = map (r2 rf) (cell_at s c)) /\
  (* property values move with their entity *)
  (length (pv t) = length (pv s) /\
   forall j i pd, j < length (pv s) -> live_v s i = true -> pval (nth j (pv t) pd) (rv i) = pval (nth j (pv s) pd) i) /\
  (length (pe t) = length (pe s) /\
   forall j i pd, j < length (pe s) -> live_e s i = true -> pval (nth j (pe t) pd) (re i) = pval (nth j (pe s) pd) i) /\
  (length (phe t) = length (phe s) /\
   forall j h pd, j < length (phe s) -> live_he s h = true -> pval (nth j (phe t) pd) (r2 re h) = pval (nth j (phe s) pd) h) /\
  (length (pf t) = length (pf s) /\
   forall j i pd, j < length (pf s) -> live_f s i = true -> pval (nth j (pf t) pd) (rf i) = pval (nth j (pf s) pd) i) /\
  (length (phf t) = length (phf s) /\
   forall j h pd, j < length (phf s) -> live_hf s h = true -> pval (nth j (phf t) pd) (r2 rf h) = pval (nth j (phf s) pd) h) /\
  (length (pc t) = length (pc s) /\
   forall j i pd, j < length (pc s) -> live_c s i = true -> pval (nth j (pc t) pd) (rc i) = pval (nth j (pc s) pd) i) /\
  pm t = pm s.

(* the definitional part does not read counters or modes *)
Lemma gc_fast_post_set a b c d x y z m f s t rv re rf rc :
  gc_fast_post s t rv re rf rc -> gc_fast_post s (set_flags x y z m f (set_counts a b c d t)) rv re rf rc.
Proof. intros H. exact H. Qed.

(* ================================================================== the chain *)
Section Chain.
Context (s p1 p2 p3 p4 : mesh) (rv re rf rc : nat -> nat).
Context (P1 : cell_pass_post s p1 rc) (P2 : face_pass_post p1 p2 rf) (P3 : edge_pass_post p2 p3 re) (P4 : vertex_pass_post p3 p4 rv).

Lemma chain_cells : ren_ok (cdel s) (nc s) rc (nc p4) /\
  (forall c, live_c s c = true -> cell_at p4 (rc c) = map (r2 rf) (cell_at s c)) /\ props_ren (cdel s) (nc s) rc (pc s) (pc p4).
Proof.
  destruct P1 as (_ & _ & _ & _ & _ & _ & _ & _ & _ & _ & _ & _ & R & A & P & _).
  destruct P2 as (_ & _ & _ & _ & _ & _ & _ & _ & c2 & _ & _ & _ & _ & _ & _ & _ & _ & (_ & _ & _ & q2 & _)).
  destruct P3 as (_ & _ & _ & _ & _ & _ & _ & _ & c3 & _ & _ & _ & _ & _ & _ & _ & _ & (_ & _ & _ & q3 & _)).
  destruct P4 as (_ & _ & _ & _ & _ & _ & _ & _ & _ & _ & c4 & _ & _ & _ & _ & _ & _ & (_ & _ & _ & _ & q4 & _)).
  assert (Ce : cells p4 = map (map (r2 rf)) (cells p1)) by congruence.
  assert (Pc : pc p4 = pc p1) by congruence.
  split; [|split].
  - unfold nc in *. rewrite Ce, map_length. exact R.
  - intros c L. change (live_c s c) with (liveb (cdel s) (nc s) c) in L. unfold cell_at. rewrite Ce, nth_map_map.
    rewrite (arr_ren_live [] _ _ _ _ _ A c L). reflexivity.
  - rewrite Pc. exact P.
Qed.

Lemma chain_faces : ren_ok (fdel s) (nf s) rf (nf p4) /\
  (forall f, live_f s f = true -> face_at p4 (rf f) = map (r2 re) (face_at s f)) /\
  props_ren (fdel s) (nf s) rf (pf s) (pf p4) /\ props_ren2 (fdel s) (nf s) rf (phf s) (phf p4).
Proof.
  destruct P1 as (_ & _ & _ & _ & _ & _ & _ & f1 & _ & _ & d1 & _ & _ & _ & _ & (_ & _ & _ & x1 & y1 & _)).
  destruct P2 as (_ & _ & _ & _ & _ & _ & _ & _ & _ & _ & _ & _ & _ & R & A & P & Q & _).
  destruct P3 as (_ & _ & _ & _ & _ & _ & _ & f3 & _ & _ & _ & _ & _ & _ & _ & _ & _ & (_ & x3 & y3 & _)).
  destruct P4 as (_ & _ & _ & _ & _ & _ & _ & _ & _ & f4 & _ & _ & _ & _ & _ & _ & _ & (_ & _ & x4 & y4 & _)).
  unfold nf in *. rewrite d1, f1 in R, A, P, Q. rewrite x1 in P. rewrite y1 in Q.
  assert (Fa : faces p4 = map (map (r2 re)) (faces p2)) by congruence.
  assert (Pf : pf p4 = pf p2) by congruence. assert (Phf : phf p4 = phf p2) by congruence.
  split; [|split; [|split]].
  - rewrite Fa, map_length. exact R.
  - intros f L. change (live_f s f) with (liveb (fdel s) (length (faces s)) f) in L. unfold face_at. rewrite Fa, nth_map_map.
    rewrite (arr_ren_live [] _ _ _ _ _ A f L). reflexivity.
  - rewrite Pf. exact P.
  - rewrite Phf. exact Q.
Qed.

Lemma chain_edges : ren_ok (edel s) (ne s) re (ne p4) /\
  (forall e, live_e s e = true -> edge_at p4 (re e) = (rv (fst (edge_at s e)), rv (snd (edge_at s e)))) /\
  props_ren (edel s) (ne s) re (pe s) (pe p4) /\ props_ren2 (edel s) (ne s) re (phe s) (phe p4).
Proof.
  destruct P1 as (_ & _ & _ & _ & _ & _ & e1 & _ & _ & d1 & _ & _ & _ & _ & _ & (_ & x1 & y1 & _)).
  destruct P2 as (_ & _ & _ & _ & _ & _ & _ & e2 & _ & _ & d2 & _ & _ & _ & _ & _ & _ & (_ & x2 & y2 & _)).
  destruct P3 as (_ & _ & _ & _ & _ & _ & _ & _ & _ & _ & _ & _ & _ & R & A & P & Q & _).
  destruct P4 as (_ & _ & _ & _ & _ & _ & _ & _ & e4 & _ & _ & _ & _ & _ & _ & _ & _ & (x4 & y4 & _)).
  unfold ne in *. rewrite d2, d1, e2, e1 in R, A, P, Q. rewrite x2, x1 in P. rewrite y2, y1 in Q.
  pose proof (ren_ok_live _ _ _ _ R) as (_ & B & _).
  split; [|split; [|split]].
  - rewrite e4, map_length. exact R.
  - intros e L. change (live_e s e) with (liveb (edel s) (length (edges s)) e) in L. unfold edge_at. rewrite e4.
    rewrite (nth_map_in (rp rv) (edges p3) (re e) (0, 0) (0, 0) (B e L)).
    rewrite (arr_ren_live (0, 0) _ _ _ _ _ A e L). reflexivity.
  - rewrite x4. exact P.
  - rewrite y4. exact Q.
Qed.

Lemma chain_vertices : ren_ok (vdel s) (nv s) rv (nv p4) /\ props_ren (vdel s) (nv s) rv (pv s) (pv p4).
Proof.
  destruct P1 as (_ & _ & _ & _ & _ & n1 & _ & _ & d1 & _ & _ & _ & _ & _ & _ & (x1 & _)).
  destruct P2 as (_ & _ & _ & _ & _ & _ & n2 & _ & _ & d2 & _ & _ & _ & _ & _ & _ & _ & (x2 & _)).
  destruct P3 as (_ & _ & _ & _ & _ & _ & n3 & _ & _ & d3 & _ & _ & _ & _ & _ & _ & _ & (x3 & _)).
  destruct P4 as (_ & _ & _ & _ & _ & _ & _ & _ & _ & _ & _ & _ & _ & _ & _ & R & P & _).
  rewrite d3, d2, d1, n3, n2, n1 in R, P. rewrite x3, x2, x1 in P. split; assumption.
Qed.

Lemma chain_pm : pm p4 = pm s.
Proof.
  destruct P1 as (_ & _ & _ & _ & _ & _ & _ & _ & _ & _ & _ & _ & _ & _ & _ & (_ & _ & _ & _ & _ & x1)).
  destruct P2 as (_ & _ & _ & _ & _ & _ & _ & _ & _ & _ & _ & _ & _ & _ & _ & _ & _ & (_ & _ & _ & _ & x2)).
  destruct P3 as (_ & _ & _ & _ & _ & _ & _ & _ & _ & _ & _ & _ & _ & _ & _ & _ & _ & (_ & _ & _ & _ & x3)).
  destruct P4 as (_ & _ & _ & _ & _ & _ & _ & _ & _ & _ & _ & _ & _ & _ & _ & _ & _ & (_ & _ & _ & _ & _ & x4)).
  congruence.
Qed.

Theorem chain_post : gc_fast_post s p4 rv re rf rc.
Proof.
  destruct chain_cells as (Rc & Dc & Pc). destruct chain_faces as (Rf & Df & Pf & Phf).
  destruct chain_edges as (Re & De & Pe & Phe). destruct chain_vertices as (Rv & Pv).
  destruct (ren_ok_live _ _ _ _ Rc) as (c1 & c2 & c3). destruct (ren_ok_live _ _ _ _ Rf) as (f1 & f2 & f3).
  destruct (ren_ok_live _ _ _ _ Re) as (e1 & e2 & e3). destruct (ren_ok_live _ _ _ _ Rv) as (v1 & v2 & v3).
  unfold gc_fast_post.
  refine (conj v1 (conj e1 (conj f1 (conj c1 (conj (conj v2 v3) (conj (conj e2 e3) (conj (conj f2 f3) (conj (conj c2 c3)
         (conj De (conj Df (conj Dc _))))))))))).
  refine (conj (props_ren_live _ _ _ _ _ Pv) (conj (props_ren_live _ _ _ _ _ Pe) (conj (props_ren2_live _ _ _ _ _ Phe)
         (conj (props_ren_live _ _ _ _ _ Pf) (conj (props_ren2_live _ _ _ _ _ Phf) (conj (props_ren_live _ _ _ _ _ Pc) chain_pm)))))).
Qed.

Lemma chain_flags : ginv p4 /\ deferred p4 = false /\ fast p4 = true /\ sized p4 /\ no_flags p4.
Proof.
  destruct P4 as (I & D & F & Z & NV & NE & NF & NC & _). exact (conj I (conj D (conj F (conj Z (conj NV (conj NE (conj NF NC))))))).
Qed.
End Chain.

(* nothing flagged: the identity renumbering *)
Lemma gc_fast_post_refl s : no_flags s -> gc_fast_post s s (fun i => i) (fun i => i) (fun i => i) (fun i => i).
Proof.
  intros (NV & NE & NF & NC). unfold gc_fast_post.
  assert (A : forall del n, (forall i, nth i del false = false) -> n = length (alive del n)).
  { intros del n H. rewrite alive_all_false by exact H. rewrite seq_length. reflexivity. }
  assert (L : forall del n i, liveb del n i = true -> i < n) by (intros del n i H; apply liveb_iff in H; tauto).
  splits; try reflexivity; try (intros; assumption).
  - apply (A (vdel s) (nv s)). exact NV.
  - apply (A (edel s) (ne s)). exact NE.
  - apply (A (fdel s) (nf s)). exact NF.
  - apply (A (cdel s) (nc s)). exact NC.
  - intros i H. exact (L _ _ _ H).
  - intros i H. exact (L _ _ _ H).
  - intros i H. exact (L _ _ _ H).
  - intros i H. exact (L _ _ _ H).
  - intros e _. destruct (edge_at s e); reflexivity.
  - intros f _. symmetry. apply map_id_on. intros x _. apply r2_id.
  - intros c _. symmetry. apply map_id_on. intros x _. apply r2_id.
  - intros. rewrite r2_id. reflexivity.
  - intros. rewrite r2_id. reflexivity.
Qed.
