(* Kernel3/GcFastBase.v -- C04, FAST mode of collect_garbage: the list / renumbering facts shared by Kernel3/GcFast*.v.
     - the swaps never read a deletion flag: swap_K a b (clr_K a s) = clr_K b (swap_K a b s)   (S2)
     - fast_remove on a flag array whose victim slot is flagged: the number of live slots is kept, the live index i is found at
       tr h last i with its old contents (also for half-entity arrays: tr2 and fast_remove2)
     - r2 r : the lift of an entity renumbering to half-entity handles; composition with tr2
     - ginv does not read the fast flag *)
From Coq Require Import ZArith Lia Bool Arith List ZifyNat ZifyBool.
From OVM Require Import Base.ListX Base.ListLemmas Kernel.State Kernel.Ops Kernel.SwapEffects Kernel.SwapInvol Kernel.PropLaws
                        Kernel.ExactInv Kernel.ShiftFace
                        Kernel3.FastDefs Kernel3.FastBase Kernel3.GcDefs Kernel3.GcList Kernel3.GcInv.
Import ListNotations.
Ltac Zify.zify_post_hook ::= Z.div_mod_to_equations.
Local Open Scope nat_scope.

(* ================================================================== S2: the swaps do not read the flags *)

Lemma swap_face_set_fdel a b x s : a <> b ->
  swap_face_indices a b (set_fdel x s) = set_fdel (swap_nth a b false x) (swap_face_indices a b s).
Proof.
  intros N. unfold swap_face_indices. apply Nat.eqb_neq in N. rewrite N. cbn [set_fdel fbu ebu set_cells set_inc_hfs set_faces].
  destruct (fbu s), (ebu s); reflexivity.
Qed.
Lemma swap_edge_set_edel a b x s : a <> b ->
  swap_edge_indices a b (set_edel x s) = set_edel (swap_nth a b false x) (swap_edge_indices a b s).
Proof.
  intros N. unfold swap_edge_indices. apply Nat.eqb_neq in N. rewrite N. cbn [set_edel vbu ebu set_faces set_out_hes set_edges].
  destruct (vbu s), (ebu s); reflexivity.
Qed.
Lemma swap_vertex_set_vdel a b x s : a <> b ->
  swap_vertex_indices a b (set_vdel x s) = set_vdel (swap_nth a b false x) (swap_vertex_indices a b s).
Proof.
  intros N. unfold swap_vertex_indices. apply Nat.eqb_neq in N. rewrite N. cbn [set_vdel vbu set_edges].
  destruct (vbu s); reflexivity.
Qed.
Lemma swap_cell_set_cdel a b x s : a <> b ->
  swap_cell_indices a b (set_cdel x s) = set_cdel (swap_nth a b false x) (swap_cell_indices a b s).
Proof.
  intros N. unfold swap_cell_indices. apply Nat.eqb_neq in N. rewrite N. cbn [set_cdel fbu].
  destruct (fbu s); reflexivity.
Qed.

Lemma swap_nth_upd_left {A} a b (d x : A) l : a <> b -> a < length l -> b < length l ->
  swap_nth a b d (upd a x l) = upd b x (swap_nth a b d l).
Proof.
  intros N Ha Hb. apply (list_ext_nth _ _ d).
  - rewrite upd_length, !swap_nth_length, upd_length. reflexivity.
  - intros k Hk. rewrite swap_nth_length, upd_length in Hk.
    rewrite nth_swap_nth by (rewrite upd_length; assumption). rewrite !nth_upd, swap_nth_length. rewrite nth_swap_nth by assumption.
    replace (a <? length l) with true by (symmetry; apply Nat.ltb_lt; lia).
    replace (b <? length l) with true by (symmetry; apply Nat.ltb_lt; lia). rewrite !andb_true_r.
    destruct (Nat.eqb_spec k a) as [->|N1].
    + destruct (Nat.eqb_spec a b); [lia|]. destruct (Nat.eqb_spec b a); [lia|]. reflexivity.
    + destruct (Nat.eqb_spec k b) as [->|N2].
      * rewrite !Nat.eqb_refl. reflexivity.
      * destruct (Nat.eqb_spec a k); [lia|]. destruct (Nat.eqb_spec b k); [lia|]. reflexivity.
Qed.

Lemma set_fdel_set_fdel x y s : set_fdel x (set_fdel y s) = set_fdel x s.
Proof. reflexivity. Qed.
Lemma set_edel_set_edel x y s : set_edel x (set_edel y s) = set_edel x s.
Proof. reflexivity. Qed.
Lemma set_vdel_set_vdel x y s : set_vdel x (set_vdel y s) = set_vdel x s.
Proof. reflexivity. Qed.
Lemma set_cdel_set_cdel x y s : set_cdel x (set_cdel y s) = set_cdel x s.
Proof. reflexivity. Qed.

Lemma fdel_swap_face a b s : fdel (swap_face_indices a b s) = swap_nth a b false (fdel s).
Proof.
  destruct (Nat.eq_dec a b) as [->|N]; [rewrite swap_face_self, swap_nth_same; reflexivity|].
  pose proof (swap_face_effect a b s N) as E. cbv zeta in E. destruct E as (_ & c2 & _). exact c2.
Qed.
Lemma edel_swap_edge a b s : edel (swap_edge_indices a b s) = swap_nth a b false (edel s).
Proof.
  destruct (Nat.eq_dec a b) as [->|N]; [rewrite swap_edge_self, swap_nth_same; reflexivity|].
  pose proof (swap_edge_effect a b s N) as E. cbv zeta in E. destruct E as (_ & c2 & _). exact c2.
Qed.
Lemma vdel_swap_vertex a b s : vdel (swap_vertex_indices a b s) = swap_nth a b false (vdel s).
Proof.
  destruct (Nat.eq_dec a b) as [->|N]; [rewrite swap_vertex_self, swap_nth_same; reflexivity|].
  pose proof (swap_vertex_effect a b s N) as E. cbv zeta in E. destruct E as (_ & c2 & _). exact c2.
Qed.
Lemma cdel_swap_cell a b s : cdel (swap_cell_indices a b s) = swap_nth a b false (cdel s).
Proof.
  destruct (Nat.eq_dec a b) as [->|N]; [rewrite swap_cell_self, swap_nth_same; reflexivity|].
  pose proof (swap_cell_effect a b s N) as E. cbv zeta in E. destruct E as (_ & c2 & _). exact c2.
Qed.

Lemma swap_face_clr a b s : a < length (fdel s) -> b < length (fdel s) ->
  swap_face_indices a b (clr_f a s) = clr_f b (swap_face_indices a b s).
Proof.
  intros Ha Hb. destruct (Nat.eq_dec a b) as [->|N]; [rewrite !swap_face_self; reflexivity|].
  unfold clr_f. rewrite swap_face_set_fdel by exact N. rewrite fdel_swap_face. rewrite swap_nth_upd_left by assumption. reflexivity.
Qed.
Lemma swap_edge_clr a b s : a < length (edel s) -> b < length (edel s) ->
  swap_edge_indices a b (clr_e a s) = clr_e b (swap_edge_indices a b s).
Proof.
  intros Ha Hb. destruct (Nat.eq_dec a b) as [->|N]; [rewrite !swap_edge_self; reflexivity|].
  unfold clr_e. rewrite swap_edge_set_edel by exact N. rewrite edel_swap_edge. rewrite swap_nth_upd_left by assumption. reflexivity.
Qed.
Lemma swap_vertex_clr a b s : a < length (vdel s) -> b < length (vdel s) ->
  swap_vertex_indices a b (clr_v a s) = clr_v b (swap_vertex_indices a b s).
Proof.
  intros Ha Hb. destruct (Nat.eq_dec a b) as [->|N]; [rewrite !swap_vertex_self; reflexivity|].
  unfold clr_v. rewrite swap_vertex_set_vdel by exact N. rewrite vdel_swap_vertex. rewrite swap_nth_upd_left by assumption. reflexivity.
Qed.
Lemma swap_cell_clr a b s : a < length (cdel s) -> b < length (cdel s) ->
  swap_cell_indices a b (clr_c a s) = clr_c b (swap_cell_indices a b s).
Proof.
  intros Ha Hb. destruct (Nat.eq_dec a b) as [->|N]; [rewrite !swap_cell_self; reflexivity|].
  unfold clr_c. rewrite swap_cell_set_cdel by exact N. rewrite cdel_swap_cell. rewrite swap_nth_upd_left by assumption. reflexivity.
Qed.

(* ================================================================== ginv and the fast flag *)

Lemma ginv_set_fast b s : ginv s -> ginv (set_fast b s).
Proof. intros H. exact H. Qed.
Lemma ginv_of_set_fast b s : ginv (set_fast b s) -> ginv s.
Proof. intros H. exact H. Qed.

(* ================================================================== the transposition on flags *)

Lemma nth_swap_tr {A} a b (d : A) l k : a < length l -> b < length l -> nth k (swap_nth a b d l) d = nth (tr a b k) l d.
Proof.
  intros Ha Hb. rewrite nth_swap_nth by assumption. unfold tr.
  destruct (Nat.eqb_spec k a); [reflexivity|]. destruct (Nat.eqb_spec k b); reflexivity.
Qed.

Lemma tr_lt a b n x : a < n -> b < n -> (tr a b x < n <-> x < n).
Proof. intros Ha Hb. unfold tr. destruct (Nat.eqb_spec x a); [lia|]. destruct (Nat.eqb_spec x b); lia. Qed.

Lemma tr2_lt a b n x : a < n -> b < n -> (tr2 a b x < 2 * n <-> x < 2 * n).
Proof.
  intros Ha Hb. destruct (tr2_spec a b x) as [Q1 Q2]. pose proof (tr_lt a b n (x / 2) Ha Hb) as Q. rewrite <- Q1 in Q. lia.
Qed.

Lemma tr_inj a b x y : tr a b x = tr a b y -> x = y.
Proof. intros E. rewrite <- (tr_involutive a b x), <- (tr_involutive a b y), E. reflexivity. Qed.

(* ================================================================== fast_remove with a flagged victim *)

Lemma fast_remove_upd_same {A} (d x : A) h l : fast_remove d h (upd h x l) = fast_remove d h l.
Proof.
  apply (list_ext_nth _ _ d); [rewrite !fast_remove_length, upd_length; reflexivity|].
  intros k Hk. rewrite fast_remove_length, upd_length in Hk.
  rewrite !nth_fast_remove by (rewrite ?upd_length; exact Hk). rewrite upd_length, !nth_upd.
  destruct (Nat.eqb_spec k h) as [->|N].
  - destruct (Nat.eqb_spec h (length l - 1)); [lia|]. reflexivity.
  - destruct (Nat.eqb_spec h k); [lia|]. reflexivity.
Qed.

(* the live index i, after the fast removal of the flagged slot h of an n-slot array *)
Section LiveTr.
Context (del : list bool) (h n : nat).
Context (Ln : length del = n) (Hh : h < n) (Hd : nth h del false = true).

Lemma live_tr_lt i : i < n -> nth i del false = false -> tr h (n - 1) i < n - 1.
Proof.
  intros Hi Li. assert (i <> h) by (intros ->; congruence). unfold tr.
  destruct (Nat.eqb_spec i h); [lia|]. destruct (Nat.eqb_spec i (n - 1)); lia.
Qed.

Lemma live_tr_nth {A} (d : A) (l : list A) i : length l = n -> i < n -> nth i del false = false ->
  nth (tr h (n - 1) i) (fast_remove d h l) d = nth i l d.
Proof.
  intros Ll Hi Li. pose proof (live_tr_lt i Hi Li) as Lt. assert (i <> h) by (intros ->; congruence).
  rewrite nth_fast_remove by (rewrite Ll; exact Lt). rewrite Ll. unfold tr in *.
  destruct (Nat.eqb_spec i h); [lia|]. destruct (Nat.eqb_spec i (n - 1)) as [->|N1].
  - rewrite Nat.eqb_refl. reflexivity.
  - destruct (Nat.eqb_spec i h); [lia|]. reflexivity.
Qed.

Lemma live_tr_flag i : i < n -> nth i del false = false -> nth (tr h (n - 1) i) (fast_remove false h del) false = false.
Proof. intros Hi Li. rewrite (live_tr_nth false del i Ln Hi Li). exact Li. Qed.

(* half-entity arrays: 2n slots *)
Lemma live_tr2_lt x : x / 2 < n -> nth (x / 2) del false = false -> tr2 h (n - 1) x < 2 * (n - 1).
Proof.
  intros Hi Li. pose proof (live_tr_lt (x / 2) Hi Li) as Lt. destruct (tr2_spec h (n - 1) x) as [Q1 Q2]. rewrite <- Q1 in Lt. lia.
Qed.

Lemma live_tr2_nth {A} (d : A) (l : list A) x : length l = 2 * n -> x / 2 < n -> nth (x / 2) del false = false ->
  nth (tr2 h (n - 1) x) (fast_remove2 d h l) d = nth x l d.
Proof.
  intros Ll Hi Li. pose proof (live_tr2_lt x Hi Li) as Lt. assert (x / 2 <> h) by (intros E; rewrite E in Li; congruence).
  rewrite nth_fast_remove2 by (rewrite Ll; lia). rewrite Ll. destruct (tr2_spec h (n - 1) x) as [Q1 Q2]. rewrite Q1, Q2.
  unfold tr2, tr in *. destruct (Nat.eqb_spec (x / 2) h); [lia|]. destruct (Nat.eqb_spec (x / 2) (n - 1)) as [E|N1].
  - rewrite Nat.eqb_refl. f_equal. lia.
  - destruct (Nat.eqb_spec (x / 2) h); [lia|]. reflexivity.
Qed.

(* the flags above h are false: the number of live slots is kept *)
Lemma rank_run d0 a k : (forall i, a <= i -> i < a + k -> nth i d0 false = false) -> rank d0 (a + k) = rank d0 a + k.
Proof.
  induction k as [|k IH]; intros H; [rewrite !Nat.add_0_r; reflexivity|].
  replace (a + S k) with (S (a + k)) by lia. rewrite rank_S, IH by (intros i A B; apply H; lia). rewrite H by lia. lia.
Qed.

Lemma rank_fast_remove : (forall i, h < i -> nth i del false = false) -> rank (fast_remove false h del) (n - 1) = rank del n.
Proof.
  intros Hi.
  assert (E1 : rank (fast_remove false h del) h = rank del h).
  { apply rank_ext. intros i Hlt. rewrite nth_fast_remove by lia. destruct (Nat.eqb_spec i h); [lia|reflexivity]. }
  replace (n - 1) with (h + (n - 1 - h)) by lia. rewrite rank_run.
  - replace n with (S h + (n - 1 - h)) at 2 by lia. rewrite rank_run by (intros i A B; apply Hi; lia).
    rewrite rank_S, Hd, E1. lia.
  - intros i A B. rewrite nth_fast_remove by lia. destruct (Nat.eqb_spec i h); apply Hi; lia.
Qed.

Lemma flags_above_fast_remove : (forall i, h < i -> nth i del false = false) -> forall i, h <= i -> nth i (fast_remove false h del) false = false.
Proof.
  intros Hi i Hge. destruct (Nat.lt_ge_cases i (n - 1)) as [Hlt|Hov].
  - rewrite nth_fast_remove by lia. destruct (Nat.eqb_spec i h); apply Hi; lia.
  - apply nth_overflow. rewrite fast_remove_length. lia.
Qed.
End LiveTr.

(* ================================================================== renumberings on half-entity handles and edge definitions *)

Definition r2 (r : nat -> nat) (h : nat) : nat := 2 * r (h / 2) + h mod 2.
Definition rp (r : nat -> nat) (p : nat * nat) : nat * nat := (r (fst p), r (snd p)).

Lemma r2_div2 r x : r2 r x / 2 = r (x / 2).
Proof. unfold r2. lia. Qed.
Lemma r2_mod2 r x : r2 r x mod 2 = x mod 2.
Proof. unfold r2. lia. Qed.

Lemma tr2_is_r2 a b x : tr2 a b x = r2 (tr a b) x.
Proof. destruct (tr2_spec a b x) as [Q1 Q2]. unfold r2. lia. Qed.

Lemma r2_comp r a b x : r2 r (tr2 a b x) = r2 (fun i => r (tr a b i)) x.
Proof. destruct (tr2_spec a b x) as [Q1 Q2]. unfold r2. rewrite Q1, Q2. reflexivity. Qed.

Lemma r2_id x : r2 (fun i => i) x = x.
Proof. unfold r2. lia. Qed.

Lemma map_map_r2_comp r a b ll : map (map (r2 r)) (map (map (tr2 a b)) ll) = map (map (r2 (fun i => r (tr a b i)))) ll.
Proof. rewrite map_map. apply map_ext. intros l. rewrite map_map. apply map_ext. apply r2_comp. Qed.

Lemma map_map_r2_id ll : map (map (r2 (fun i => i))) ll = ll.
Proof. apply map_id_on. intros l _. apply map_id_on. intros x _. apply r2_id. Qed.

Lemma map_rp_comp r a b l : map (rp r) (map (trp a b) l) = map (rp (fun i => r (tr a b i))) l.
Proof. rewrite map_map. apply map_ext. intros [x y]. reflexivity. Qed.

Lemma map_rp_id l : map (rp (fun i => i)) l = l.
Proof. apply map_id_on. intros [x y] _. reflexivity. Qed.

(* nth of a map, in range, any default *)
Lemma nth_map_in {A B} (f : A -> B) l k d d' : k < length l -> nth k (map f l) d' = f (nth k l d).
Proof. intros H. rewrite (nth_indep _ d' (f d)) by (rewrite map_length; exact H). apply map_nth. Qed.

Lemma rank_is_live del n : rank del n = length (alive del n).
Proof. reflexivity. Qed.
