(* Kernel3/FastMany.v -- C02: a DESCENDING run of slot removals over a strictly ascending victim list cs (what del_desc does), in
   both immediate modes, seen from the SURVIVORS:

     fast mode        slot arrays:  fast_remove_many d cs l   (a :: r: fast_remove a after the removals of r)
                      handles:      fren n cs  (a :: r: the transposition (a, last) after the renamings of r), fren2 its halfedge/halfface lift
     index shifting   slot arrays:  remove_slots cs l = keep_slots d cs l          (Kernel/ShiftCompose.v)
                      handles:      shift1_many cs (a :: r: cor1 a after ...), shift_many its half-handle lift (ShiftCompose.v)

   For both (one generic proof, Section Many): the array loses exactly |cs| slots; every old index i outside cs has a new index
   ren i < n - |cs| holding what slot i held; ren is injective on the survivors and onto [0, n - |cs|): a BIJECTION from the
   surviving old indices onto the new index range, the same for every array of the kind (definitions, flags, properties). *)
From Coq Require Import ZArith Lia Bool Arith List ZifyNat ZifyBool.
From OVM Require Import Base.ListX Base.ListLemmas Base.ListLemmas2 Kernel.State Kernel.Ops Kernel.Mirror
                        Kernel.ShiftFace Kernel.ShiftCompose Kernel3.FastDefs Kernel3.FastBase.
Import ListNotations.
Ltac Zify.zify_post_hook ::= Z.div_mod_to_equations.
Local Open Scope nat_scope.

(* ================================================================== definitions *)

Fixpoint fast_remove_many {A} (d : A) (cs : list nat) (l : list A) : list A :=
  match cs with [] => l | a :: r => fast_remove d a (fast_remove_many d r l) end.
Fixpoint fast_remove2_many {A} (d : A) (cs : list nat) (l : list A) : list A :=
  match cs with [] => l | a :: r => fast_remove2 d a (fast_remove2_many d r l) end.
(* n = the number of slots before the run *)
Fixpoint fren (n : nat) (cs : list nat) (x : nat) : nat :=
  match cs with [] => x | a :: r => tr a (n - length r - 1) (fren n r x) end.
Fixpoint fren2 (n : nat) (cs : list nat) (x : nat) : nat :=
  match cs with [] => x | a :: r => tr2 a (n - length r - 1) (fren2 n r x) end.
Definition frenp (n : nat) (cs : list nat) (p : nat * nat) : nat * nat := (fren n cs (fst p), fren n cs (snd p)).

Definition shift1_many (cs : list nat) (x : nat) : nat := fold_right (fun c y => cor1 c y) x cs.

Fixpoint pfast_many (cs : list nat) (p : parray) : parray := match cs with [] => p | a :: r => pfast a (pfast_many r p) end.
Fixpoint pfast2_many (cs : list nat) (p : parray) : parray := match cs with [] => p | a :: r => pfast2 a (pfast2_many r p) end.

(* the lift of an entity renaming to half-handles *)
Definition lift2 (f : nat -> nat) (x : nat) : nat := 2 * f (x / 2) + x mod 2.

(* ================================================================== the generic run *)

Section Many.
  Context {A : Type} (d : A) (rm : nat -> list A -> list A) (rn : nat -> nat -> nat -> nat).
  Hypothesis rm_length : forall c l, c < length l -> length (rm c l) = length l - 1.
  Hypothesis rm_nth : forall c l i, c < length l -> i < length l -> i <> c -> nth (rn (length l) c i) (rm c l) d = nth i l d.
  Hypothesis rn_lt : forall n c i, c < n -> i < n -> i <> c -> rn n c i < n - 1.
  Hypothesis rn_below : forall n c i g, c < n -> i < n -> i <> c -> g < c -> (rn n c i = g <-> i = g).
  Hypothesis rn_surj : forall n c j, c < n -> j < n - 1 -> exists i, i < n /\ i <> c /\ rn n c i = j.
  Hypothesis rn_inj : forall n c i i', c < n -> i < n -> i' < n -> i <> c -> i' <> c -> rn n c i = rn n c i' -> i = i'.

  Fixpoint rm_asc (cs : list nat) (l : list A) : list A := match cs with [] => l | a :: r => rm a (rm_asc r l) end.
  Fixpoint ren_asc (n : nat) (cs : list nat) (x : nat) : nat := match cs with [] => x | a :: r => rn (n - length r) a (ren_asc n r x) end.

  Lemma sorted_head_lt a r : strictly_sorted (a :: r) -> forall c, In c r -> a < c.
  Proof using. apply strictly_sorted_lt. Qed.

  Lemma ren_asc_low n cs : strictly_sorted cs -> (forall c, In c cs -> c < n) -> forall i, i < n -> ~ In i cs ->
    ren_asc n cs i < n - length cs /\ forall g, (forall c, In c cs -> g < c) -> (ren_asc n cs i = g <-> i = g).
  Proof using rn_lt rn_below.
    clear rn_surj rn_inj rm_nth rm_length rm d A. induction cs as [|a r IH]; intros Ss R i Hi Ni.
    - cbn [ren_asc length]. split; [lia|]. intros g _. reflexivity.
    - assert (Sr : strictly_sorted r) by (apply (sorted_tail a); exact Ss).
      assert (Rr : forall c, In c r -> c < n) by (intros c Hc; apply R; right; exact Hc).
      assert (Nr : ~ In i r) by (intros H; apply Ni; right; exact H).
      assert (Nia : i <> a) by (intros ->; apply Ni; left; reflexivity).
      destruct (IH Sr Rr i Hi Nr) as [Lt Bel]. set (y := ren_asc n r i) in *.
      pose proof (sorted_room a r n Ss R) as Room.
      assert (Ha : a < n - length r) by lia.
      assert (Nya : y <> a) by (intros E; apply Nia; apply (Bel a (sorted_head_lt a r Ss)); exact E).
      cbn [ren_asc length]. fold y. split.
      + pose proof (rn_lt (n - length r) a y Ha Lt Nya). lia.
      + intros g Hg. assert (Hga : g < a) by (apply Hg; left; reflexivity).
        rewrite (rn_below (n - length r) a y g Ha Lt Nya Hga). apply Bel. intros c Hc. apply Hg. right. exact Hc.
  Qed.

  Theorem rm_asc_survivors cs : forall l, strictly_sorted cs -> (forall c, In c cs -> c < length l) ->
    length (rm_asc cs l) = length l - length cs /\
    (forall i, i < length l -> ~ In i cs -> nth (ren_asc (length l) cs i) (rm_asc cs l) d = nth i l d) /\
    (forall j, j < length l - length cs -> exists i, i < length l /\ ~ In i cs /\ ren_asc (length l) cs i = j) /\
    (forall i i', i < length l -> i' < length l -> ~ In i cs -> ~ In i' cs -> ren_asc (length l) cs i = ren_asc (length l) cs i' -> i = i').
  Proof.
    induction cs as [|a r IH]; intros l Ss R.
    - cbn [rm_asc ren_asc length]. split; [lia|]. split; [reflexivity|]. split; [|auto].
      intros j Hj. exists j. split; [lia|]. split; [intros []|reflexivity].
    - assert (Sr : strictly_sorted r) by (apply (sorted_tail a); exact Ss).
      assert (Rr : forall c, In c r -> c < length l) by (intros c Hc; apply R; right; exact Hc).
      destruct (IH l Sr Rr) as (Len & Nth & Sur & Inj). set (n := length l) in *.
      pose proof (sorted_room a r n Ss R) as Room. assert (Ha : a < n - length r) by lia.
      assert (Ha' : a < length (rm_asc r l)) by (rewrite Len; exact Ha).
      cbn [rm_asc ren_asc length]. split; [rewrite rm_length by exact Ha'; rewrite Len; lia|]. split; [|split].
      + intros i Hi Ni. assert (Nr : ~ In i r) by (intros H; apply Ni; right; exact H).
        assert (Nia : i <> a) by (intros ->; apply Ni; left; reflexivity).
        destruct (ren_asc_low n r Sr Rr i Hi Nr) as [Lt Bel].
        assert (Nya : ren_asc n r i <> a) by (intros E; apply Nia; apply (Bel a (sorted_head_lt a r Ss)); exact E).
        rewrite <- Len. rewrite rm_nth; [apply Nth; assumption|exact Ha'|rewrite Len; exact Lt|exact Nya].
      + intros j Hj. destruct (rn_surj (n - length r) a j Ha ltac:(lia)) as [y (Hy & Nya & Ey)].
        destruct (Sur y Hy) as [i (Hi & Nr & Ei)]. exists i. split; [exact Hi|]. split; [|rewrite Ei; exact Ey].
        intros [<-|H]; [|exact (Nr H)].
        destruct (ren_asc_low n r Sr Rr a Hi Nr) as [_ Bel]. apply Nya. rewrite <- Ei. apply (Bel a (sorted_head_lt a r Ss)). reflexivity.
      + intros i i' Hi Hi' Ni Ni' E.
        assert (Nr : ~ In i r) by (intros H; apply Ni; right; exact H). assert (Nr' : ~ In i' r) by (intros H; apply Ni'; right; exact H).
        assert (Nia : i <> a) by (intros ->; apply Ni; left; reflexivity). assert (Nia' : i' <> a) by (intros ->; apply Ni'; left; reflexivity).
        destruct (ren_asc_low n r Sr Rr i Hi Nr) as [Lt Bel]. destruct (ren_asc_low n r Sr Rr i' Hi' Nr') as [Lt' Bel'].
        apply (Inj i i' Hi Hi' Nr Nr'). apply (rn_inj (n - length r) a); try assumption.
        * intros E1. apply Nia. apply (Bel a (sorted_head_lt a r Ss)). exact E1.
        * intros E1. apply Nia'. apply (Bel' a (sorted_head_lt a r Ss)). exact E1.
  Qed.

  Lemma In_rm_asc cs l x : strictly_sorted cs -> (forall c, In c cs -> c < length l) -> In x (rm_asc cs l) ->
    exists i, i < length l /\ ~ In i cs /\ nth i l d = x.
  Proof.
    intros Ss R Hx. destruct (rm_asc_survivors cs l Ss R) as (Len & Nth & Sur & _).
    destruct (In_nth _ _ d Hx) as [j [Hj Ej]]. rewrite Len in Hj. destruct (Sur j Hj) as [i (Hi & Ni & Ei)].
    exists i. split; [exact Hi|]. split; [exact Ni|]. rewrite <- (Nth i Hi Ni), Ei. exact Ej.
  Qed.
End Many.

(* ================================================================== instance: fast mode *)

Definition rn_fast (n c i : nat) : nat := tr c (n - 1) i.

Lemma fren_is_ren_asc n cs x : fren n cs x = ren_asc rn_fast n cs x.
Proof. induction cs as [|a r IH]; [reflexivity|]. cbn [fren ren_asc]. rewrite IH. reflexivity. Qed.

Lemma fast_remove_many_is_rm_asc {A} (d : A) cs l : fast_remove_many d cs l = rm_asc (fast_remove d) cs l.
Proof. induction cs as [|a r IH]; [reflexivity|]. cbn [fast_remove_many rm_asc]. f_equal. exact IH. Qed.

Ltac tr_cases := unfold rn_fast, tr in *; repeat match goal with |- context [?a =? ?b] => destruct (Nat.eqb_spec a b) | H : context [?a =? ?b] |- _ => destruct (Nat.eqb_spec a b) end.

Theorem fast_run_survivors {A} (d : A) cs l : strictly_sorted cs -> (forall c, In c cs -> c < length l) ->
  length (fast_remove_many d cs l) = length l - length cs /\
  (forall i, i < length l -> ~ In i cs -> nth (fren (length l) cs i) (fast_remove_many d cs l) d = nth i l d) /\
  (forall j, j < length l - length cs -> exists i, i < length l /\ ~ In i cs /\ fren (length l) cs i = j) /\
  (forall i i', i < length l -> i' < length l -> ~ In i cs -> ~ In i' cs -> fren (length l) cs i = fren (length l) cs i' -> i = i').
Proof.
  intros Ss R. rewrite fast_remove_many_is_rm_asc.
  assert (E : forall x, fren (length l) cs x = ren_asc rn_fast (length l) cs x) by (intros x; apply fren_is_ren_asc).
  pose proof (rm_asc_survivors d (fast_remove d) rn_fast) as T.
  assert (T' := T (fun c l0 _ => fast_remove_length d c l0)). clear T.
  assert (H2 : forall c l0 i, c < length l0 -> i < length l0 -> i <> c -> nth (rn_fast (length l0) c i) (fast_remove d c l0) d = nth i l0 d).
  { intros c l0 i Hc Hi N. unfold rn_fast, tr. destruct (Nat.eqb_spec i c); [congruence|].
    destruct (Nat.eqb_spec i (length l0 - 1)) as [->|N2].
    - rewrite nth_fast_remove by lia. rewrite Nat.eqb_refl. reflexivity.
    - rewrite nth_fast_remove by lia. destruct (Nat.eqb_spec i c); [congruence|reflexivity]. }
  assert (H3 : forall n c i, c < n -> i < n -> i <> c -> rn_fast n c i < n - 1) by (intros; tr_cases; lia).
  assert (H4 : forall n c i g, c < n -> i < n -> i <> c -> g < c -> (rn_fast n c i = g <-> i = g)) by (intros; tr_cases; lia).
  assert (H5 : forall n c j, c < n -> j < n - 1 -> exists i, i < n /\ i <> c /\ rn_fast n c i = j).
  { intros n c j Hc Hj. exists (tr c (n - 1) j). tr_cases; lia. }
  assert (H6 : forall n c i i', c < n -> i < n -> i' < n -> i <> c -> i' <> c -> rn_fast n c i = rn_fast n c i' -> i = i').
  { intros n c i i' _ _ _ _ _ E6. unfold rn_fast in E6. rewrite <- (tr_involutive c (n - 1) i), <- (tr_involutive c (n - 1) i'), E6. reflexivity. }
  destruct (T' H2 H3 H4 H5 H6 cs l Ss R) as (a1 & a2 & a3 & a4).
  split; [exact a1|]. split; [intros i Hi Ni; rewrite E; apply a2; assumption|]. split.
  - intros j Hj. destruct (a3 j Hj) as [i (Hi & Ni & Ei)]. exists i. rewrite E. auto.
  - intros i i' Hi Hi' Ni Ni'. rewrite !E. apply a4; assumption.
Qed.

Lemma fren_lt n cs i : strictly_sorted cs -> (forall c, In c cs -> c < n) -> i < n -> ~ In i cs -> fren n cs i < n - length cs.
Proof.
  intros Ss R Hi Ni. rewrite fren_is_ren_asc.
  refine (proj1 (ren_asc_low rn_fast _ _ n cs Ss R i Hi Ni)); intros; tr_cases; lia.
Qed.

Lemma In_fast_remove_many {A} (d : A) cs l x : strictly_sorted cs -> (forall c, In c cs -> c < length l) -> In x (fast_remove_many d cs l) ->
  exists i, i < length l /\ ~ In i cs /\ nth i l d = x.
Proof.
  intros Ss R Hx. destruct (fast_run_survivors d cs l Ss R) as (Len & Nth & Sur & _).
  destruct (In_nth _ _ d Hx) as [j [Hj Ej]]. rewrite Len in Hj. destruct (Sur j Hj) as [i (Hi & Ni & Ei)].
  exists i. split; [exact Hi|]. split; [exact Ni|]. rewrite <- (Nth i Hi Ni), Ei. exact Ej.
Qed.

(* the half-handle renaming is the lift of the entity renaming *)
Lemma fren2_spec n cs x : fren2 n cs x / 2 = fren n cs (x / 2) /\ fren2 n cs x mod 2 = x mod 2.
Proof.
  induction cs as [|a r [IH1 IH2]]; [split; reflexivity|]. cbn [fren2 fren].
  destruct (tr2_spec a (n - length r - 1) (fren2 n r x)) as [Q1 Q2]. rewrite Q1, Q2, IH1, IH2. split; reflexivity.
Qed.
Lemma fren2_lift n cs x : fren2 n cs x = lift2 (fren n cs) x.
Proof. unfold lift2. destruct (fren2_spec n cs x) as [Q1 Q2]. rewrite <- Q1, <- Q2. apply Nat.div_mod_eq. Qed.

(* ================================================================== instance: index shifting *)

Definition rn_shift (n c i : nat) : nat := cor1 c i.

Lemma shift1_is_ren_asc n cs x : shift1_many cs x = ren_asc rn_shift n cs x.
Proof. induction cs as [|a r IH]; [reflexivity|]. unfold shift1_many in *. cbn [fold_right ren_asc]. rewrite IH. reflexivity. Qed.

Lemma remove_slots_is_rm_asc {A} cs (l : list A) : remove_slots cs l = rm_asc (@remove_nth A) cs l.
Proof. induction cs as [|a r IH]; [reflexivity|]. rewrite remove_slots_cons. cbn [rm_asc]. f_equal. exact IH. Qed.

Ltac cor_cases := unfold rn_shift, cor1 in *; repeat match goal with |- context [?a <? ?b] => destruct (Nat.ltb_spec a b) | H : context [?a <? ?b] |- _ => destruct (Nat.ltb_spec a b) end.

Theorem shift_run_survivors {A} (d : A) cs l : strictly_sorted cs -> (forall c, In c cs -> c < length l) ->
  length (keep_slots d cs l) = length l - length cs /\
  (forall i, i < length l -> ~ In i cs -> nth (shift1_many cs i) (keep_slots d cs l) d = nth i l d) /\
  (forall j, j < length l - length cs -> exists i, i < length l /\ ~ In i cs /\ shift1_many cs i = j) /\
  (forall i i', i < length l -> i' < length l -> ~ In i cs -> ~ In i' cs -> shift1_many cs i = shift1_many cs i' -> i = i').
Proof.
  intros Ss R. rewrite <- (remove_slots_keep d cs l Ss R), remove_slots_is_rm_asc.
  assert (E : forall x, shift1_many cs x = ren_asc rn_shift (length l) cs x) by (intros x; apply shift1_is_ren_asc).
  pose proof (rm_asc_survivors d (@remove_nth A) rn_shift) as T.
  assert (T' := T (fun c l0 H => remove_nth_length c l0 H)). clear T.
  assert (H2 : forall c l0 i, c < length l0 -> i < length l0 -> i <> c -> nth (rn_shift (length l0) c i) (remove_nth c l0) d = nth i l0 d).
  { intros c l0 i Hc Hi N. rewrite nth_remove_nth. unfold rn_shift, cor1. destruct (Nat.ltb_spec c i).
    - destruct (Nat.ltb_spec (i - 1) c); [lia|]. f_equal. lia.
    - destruct (Nat.ltb_spec i c); [reflexivity|lia]. }
  assert (H3 : forall n c i, c < n -> i < n -> i <> c -> rn_shift n c i < n - 1) by (intros; cor_cases; lia).
  assert (H4 : forall n c i g, c < n -> i < n -> i <> c -> g < c -> (rn_shift n c i = g <-> i = g)) by (intros; cor_cases; lia).
  assert (H5 : forall n c j, c < n -> j < n - 1 -> exists i, i < n /\ i <> c /\ rn_shift n c i = j).
  { intros n c j Hc Hj. exists (unshift1 c j). unfold unshift1. destruct (Nat.ltb_spec j c); cor_cases; lia. }
  assert (H6 : forall n c i i', c < n -> i < n -> i' < n -> i <> c -> i' <> c -> rn_shift n c i = rn_shift n c i' -> i = i')
    by (intros; cor_cases; lia).
  destruct (T' H2 H3 H4 H5 H6 cs l Ss R) as (a1 & a2 & a3 & a4).
  split; [exact a1|]. split; [intros i Hi Ni; rewrite E; apply a2; assumption|]. split.
  - intros j Hj. destruct (a3 j Hj) as [i (Hi & Ni & Ei)]. exists i. rewrite E. auto.
  - intros i i' Hi Hi' Ni Ni'. rewrite !E. apply a4; assumption.
Qed.

Lemma shift1_many_low n cs i : strictly_sorted cs -> (forall c, In c cs -> c < n) -> i < n -> ~ In i cs ->
  shift1_many cs i < n - length cs /\ forall g, (forall c, In c cs -> g < c) -> (shift1_many cs i = g <-> i = g).
Proof.
  intros Ss R Hi Ni. rewrite (shift1_is_ren_asc n).
  refine (ren_asc_low rn_shift _ _ n cs Ss R i Hi Ni); intros; cor_cases; lia.
Qed.

(* shift_many (the half-handle shift of ShiftCompose.v) is the lift of shift1_many on the handles of survivors *)
Lemma shift_many_spec n cs x : strictly_sorted cs -> (forall c, In c cs -> c < n) -> x / 2 < n -> ~ In (x / 2) cs ->
  shift_many cs x / 2 = shift1_many cs (x / 2) /\ shift_many cs x mod 2 = x mod 2.
Proof.
  induction cs as [|a r IH]; intros Ss R Hx Nx; [split; reflexivity|].
  assert (Sr : strictly_sorted r) by (apply (sorted_tail a); exact Ss).
  assert (Rr : forall c, In c r -> c < n) by (intros c Hc; apply R; right; exact Hc).
  assert (Nr : ~ In (x / 2) r) by (intros H; apply Nx; right; exact H).
  assert (Nxa : x / 2 <> a) by (intros E; apply Nx; left; symmetry; exact E).
  destruct (IH Sr Rr Hx Nr) as [Q1 Q2]. destruct (shift1_many_low n r (x / 2) Sr Rr Hx Nr) as [_ Bel].
  unfold shift_many, shift1_many in *. cbn [fold_right]. set (y := fold_right (fun f z => cor2 (2 * f + 1) z) x r) in *.
  assert (Nya : y / 2 <> a).
  { rewrite Q1. intros E. apply Nxa. apply (Bel a); [|exact E]. intros c Hc. exact (strictly_sorted_lt a r Ss c Hc). }
  split.
  - rewrite cor2_div2 by exact Nya. rewrite Q1. reflexivity.
  - rewrite <- Q2. pose proof (cor2_even a y) as Ev. rewrite !even_mod2 in Ev.
    destruct (Nat.eqb_spec (cor2 (2 * a + 1) y mod 2) 0); destruct (Nat.eqb_spec (y mod 2) 0); try discriminate; lia.
Qed.
Lemma shift_many_lift n cs x : strictly_sorted cs -> (forall c, In c cs -> c < n) -> x / 2 < n -> ~ In (x / 2) cs ->
  shift_many cs x = lift2 (shift1_many cs) x.
Proof. intros Ss R Hx Nx. unfold lift2. destruct (shift_many_spec n cs x Ss R Hx Nx) as [Q1 Q2]. rewrite <- Q1, <- Q2. apply Nat.div_mod_eq. Qed.

(* ================================================================== property arrays through a run *)

Lemma map_pfast_many cs ps : fold_right (fun a acc => map (pfast a) acc) ps cs = map (pfast_many cs) ps.
Proof. induction cs as [|a r IH]; [symmetry; apply map_id|]. cbn [fold_right pfast_many]. rewrite IH, map_map. reflexivity. Qed.
Lemma map_pfast2_many cs ps : fold_right (fun a acc => map (pfast2 a) acc) ps cs = map (pfast2_many cs) ps.
Proof. induction cs as [|a r IH]; [symmetry; apply map_id|]. cbn [fold_right pfast2_many]. rewrite IH, map_map. reflexivity. Qed.

Lemma pdata_pfast_many cs p : pdata (pfast_many cs p) = fast_remove_many (pdef p) cs (pdata p) /\ pdef (pfast_many cs p) = pdef p.
Proof. induction cs as [|a r [IH1 IH2]]; [split; reflexivity|]. cbn [pfast_many fast_remove_many]. unfold pfast at 1 2. cbn [pdata pdef]. rewrite IH1, IH2. split; reflexivity. Qed.
Lemma pdata_pfast2_many cs p : pdata (pfast2_many cs p) = fast_remove2_many (pdef p) cs (pdata p) /\ pdef (pfast2_many cs p) = pdef p.
Proof. induction cs as [|a r [IH1 IH2]]; [split; reflexivity|]. cbn [pfast2_many fast_remove2_many]. unfold pfast2 at 1 2. cbn [pdata pdef]. rewrite IH1, IH2. split; reflexivity. Qed.
