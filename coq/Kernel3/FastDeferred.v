(* Kernel3/FastDeferred.v -- C02_mode_independent, the deferred half: from the same flag-free state (only the mode flags differ),
   delete_vertex v in DEFERRED mode flags exactly the victim lists [v], es, fs, cs that the two immediate modes remove (the
   brute-force upward closure), keeps every definition, and its LOGICAL counts n_logical are the entity counts of both immediate
   results; needs_gc holds.  (delete_edge / delete_face / delete_cell: the same proof with shorter closure chains,
   Props/Properties_C02.v: C02_deferred_delete_edge_face_cell.) *)
From Coq Require Import ZArith Lia Bool Arith List ZifyNat ZifyBool.
From OVM Require Import Base.ListX Base.ListLemmas Base.ListLemmas2 Kernel.State Kernel.Ops Kernel.Mirror Kernel.Construct
                        Kernel.Recompute Kernel.Closure Kernel.ExactInv Kernel.SwapEffects Kernel.SwapInvol Kernel.DeferredDelete Kernel.GcFacts
                        Kernel.ShiftFace Kernel.ShiftEdge Kernel.ShiftVertex Kernel.ShiftCompose
                        Kernel3.FastDefs Kernel3.FastBase Kernel3.FastMany Kernel3.FastPhases Kernel3.FastModes Kernel3.FastModes2.
Import ListNotations.
Ltac Zify.zify_post_hook ::= Z.div_mod_to_equations.
Local Open Scope nat_scope.

Definition set_modes (d f : bool) (s : mesh) : mesh := set_flags (vbu s) (ebu s) (fbu s) d f s.

Definition no_pending (s : mesh) : Prop := ndv s = 0 /\ nde s = 0 /\ ndf s = 0 /\ ndc s = 0.

Theorem deferred_same_victims_vertex v s f : shift_inv2 s -> sized s -> no_pending s -> v < nv s ->
  let es := edges_at_vertex s v in let fs := faces_at_edges s es in let cs := cells_at_faces s fs in
  let sd := delete_vertex v (set_modes true f s) in
  (nv sd = nv s /\ edges sd = edges s /\ faces sd = faces s /\ cells sd = cells s) /\
  (forall i, i < nv s -> v_deleted sd i = memb i [v]) /\ (forall e, e < ne s -> e_deleted sd e = memb e es) /\
  (forall g, g < nf s -> f_deleted sd g = memb g fs) /\ (forall c, c < nc s -> c_deleted sd c = memb c cs) /\
  (n_logical KV sd = nv s - length [v] /\ n_logical KE sd = ne s - length es /\ n_logical KF sd = nf s - length fs /\ n_logical KC sd = nc s - length cs) /\
  (forall k, props k sd = props k s) /\ needs_gc sd = true /\ deferred sd = true.
Proof.
  intros [I X] (Lv & Le & Lf & Lc & _) (z1 & z2 & z3 & z4) Hv. cbv zeta.
  pose proof I as ((NFv & NFe & NFf & NFc) & VO & EO & FO & _).
  set (s0 := set_modes true f s).
  pose proof (delete_vertex_deferred v s0 eq_refl) as H. cbv zeta in H.
  assert (E1 : incident_edges_of_vertex s0 v = edges_at_vertex s v) by (apply (incident_edges_cache_is_scan s0 v VO Hv)).
  rewrite E1 in H. set (es := edges_at_vertex s v) in *.
  assert (E2 : incident_faces_of_edges s0 es = faces_at_edges s es).
  { apply (incident_faces_cache_is_scan s0 es EO). intros e He. exact (In_edges_at_vertex_lt s v e He). }
  rewrite E2 in H. set (fs := faces_at_edges s es) in *.
  assert (E3 : incident_cells_of_faces s0 fs = cells_at_faces s fs).
  { apply (incident_cells_cache_is_scan s0 fs FO). intros g Hg. exact (In_faces_at_edges_lt s es g Hg). }
  rewrite E3 in H. set (cs := cells_at_faces s fs) in *.
  destruct H as (x1&x2&x3&x4&x5&x6&x7&x8&x9&x10&x11&x12&(_&_&_&xd&_)&xp).
  rewrite !rev_length in *. set (sd := delete_vertex v s0) in *.
  change (vdel s0) with (vdel s) in x5. change (edel s0) with (edel s) in x6. change (fdel s0) with (fdel s) in x7. change (cdel s0) with (cdel s) in x8.
  change (ndv s0) with (ndv s) in x9. change (nde s0) with (nde s) in x10. change (ndf s0) with (ndf s) in x11. change (ndc s0) with (ndc s) in x12.
  split; [exact (conj x1 (conj x2 (conj x3 x4)))|]. split; [|split; [|split; [|split; [|split; [|split; [|split]]]]]].
  - intros i Hi. unfold v_deleted. rewrite x5, nth_flag_all by (rewrite Lv; exact Hi). fold (v_deleted s i). rewrite NFv. reflexivity.
  - intros e He. unfold e_deleted. rewrite x6, nth_flag_all by (rewrite Le; exact He). fold (e_deleted s e). rewrite NFe, memb_rev. reflexivity.
  - intros g Hg. unfold f_deleted. rewrite x7, nth_flag_all by (rewrite Lf; exact Hg). fold (f_deleted s g). rewrite NFf, memb_rev. reflexivity.
  - intros c Hc. unfold c_deleted. rewrite x8, nth_flag_all by (rewrite Lc; exact Hc). fold (c_deleted s c). rewrite NFc, memb_rev. reflexivity.
  - unfold n_logical, ne, nf, nc. rewrite x1, x2, x3, x4, x9, x10, x11, x12, z1, z2, z3, z4. cbn [length]. repeat split; lia.
  - exact xp.
  - unfold needs_gc. rewrite x9. replace (0 <? ndv s + length [v]) with true by (symmetry; apply Nat.ltb_lt; cbn [length]; lia). reflexivity.
  - exact xd.
Qed.

(* the immediate modes never touch a deleted-counter *)
Lemma cv_del_desc (core : nat -> mesh -> mesh) : (forall h s, deferred s = false -> GcFacts.cv (core h s) = GcFacts.cv s) ->
  forall l s, deferred s = false -> GcFacts.cv (del_desc core l s) = GcFacts.cv s.
Proof.
  intros H l. unfold del_desc. induction (rev l) as [|x r IH]; intros s D; [reflexivity|]. cbn [fold_left].
  rewrite IH by (rewrite (GcFacts.cv_deferred _ _ (H x s D)); exact D). apply H. exact D.
Qed.

Lemma cv_delete_vertex_immediate v s : deferred s = false -> GcFacts.cv (delete_vertex v s) = GcFacts.cv s.
Proof.
  intros D. unfold delete_vertex.
  set (t := del_desc delete_cell_core _ s). assert (Ct : GcFacts.cv t = GcFacts.cv s) by (apply (cv_del_desc _ GcFacts.cv_delete_cell_core); exact D).
  assert (Dt : deferred t = false) by (rewrite (GcFacts.cv_deferred _ _ Ct); exact D).
  set (u := del_desc delete_face_core _ t). assert (Cu : GcFacts.cv u = GcFacts.cv t) by (apply (cv_del_desc _ GcFacts.cv_delete_face_core); exact Dt).
  assert (Du : deferred u = false) by (rewrite (GcFacts.cv_deferred _ _ Cu); exact Dt).
  set (w := del_desc delete_edge_core _ u). assert (Cw : GcFacts.cv w = GcFacts.cv u) by (apply (cv_del_desc _ GcFacts.cv_delete_edge_core); exact Du).
  assert (Dw : deferred w = false) by (rewrite (GcFacts.cv_deferred _ _ Cw); exact Du).
  rewrite (GcFacts.cv_delete_vertex_core v w Dw). congruence.
Qed.

Lemma needs_gc_immediate v b s : deferred s = false -> no_pending s -> needs_gc (delete_vertex v (set_fast b s)) = false.
Proof.
  intros D (z1 & z2 & z3 & z4). pose proof (cv_delete_vertex_immediate v (set_fast b s) D) as C. unfold GcFacts.cv in C.
  injection C as k1 k2 k3 k4 _ _. unfold needs_gc. rewrite k1, k2, k3, k4.
  change (ndv (set_fast b s)) with (ndv s). change (nde (set_fast b s)) with (nde s). change (ndf (set_fast b s)) with (ndf s). change (ndc (set_fast b s)) with (ndc s).
  rewrite z1, z2, z3, z4. reflexivity.
Qed.

(* all three modes, one statement: same victims, same survivors, same (logical) counts *)
Theorem three_modes_vertex v s : deferred s = false -> shift_inv2 s -> sized s -> no_pending s -> v < nv s ->
  let es := edges_at_vertex s v in let fs := faces_at_edges s es in let cs := cells_at_faces s fs in
  let sf := delete_vertex v (set_fast true s) in let sn := delete_vertex v (set_fast false s) in
  let sd := delete_vertex v (set_modes true (fast s) s) in
  same_survivors s sf sn [v] es fs cs /\
  (n_logical KV sd = nv sf /\ n_logical KE sd = ne sf /\ n_logical KF sd = nf sf /\ n_logical KC sd = nc sf) /\
  (nv sf = nv sn /\ ne sf = ne sn /\ nf sf = nf sn /\ nc sf = nc sn) /\
  (forall i, i < nv s -> v_deleted sd i = memb i [v]) /\ (forall e, e < ne s -> e_deleted sd e = memb e es) /\
  (forall g, g < nf s -> f_deleted sd g = memb g fs) /\ (forall c, c < nc s -> c_deleted sd c = memb c cs) /\
  (edges sd = edges s /\ faces sd = faces s /\ cells sd = cells s) /\
  needs_gc sd = true /\ needs_gc sf = false /\ needs_gc sn = false.
Proof.
  intros D I Z NP Hv. cbv zeta.
  pose proof (mode_independent_vertex v s D I Hv) as M. cbv zeta in M. destruct M as (SS & _ & _ & (Df & _) & (Dn & _)).
  pose proof (deferred_same_victims_vertex v s (fast s) I Z NP Hv) as Q. cbv zeta in Q.
  destruct Q as ((q1 & q2 & q3 & q4) & fv & fe & ff & fc & (l1 & l2 & l3 & l4) & _ & G & _).
  pose proof SS as (((n1 & n2 & n3 & n4) & _) & _ & Eq & _).
  split; [exact SS|]. split; [rewrite l1, l2, l3, l4, n1, n2, n3, n4; repeat split|]. split; [exact Eq|].
  split; [exact fv|]. split; [exact fe|]. split; [exact ff|]. split; [exact fc|]. split; [exact (conj q2 (conj q3 q4))|].
  split; [exact G|].
  destruct NP as (z1 & z2 & z3 & z4).
  split; apply needs_gc_immediate; try exact D; repeat split; assumption.
Qed.
