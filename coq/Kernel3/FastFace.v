(* Kernel3/FastFace.v -- C02 / C01, immediate FAST mode: delete_face_core h = swap_face_indices h last, then remove the LAST
   face.  With no cell listing a halfface of face h (face_free: what delete_face / delete_edge / delete_vertex establish first):
     - faces s' = fast_remove h (faces s); every cell definition has the halffaces of the old last face renamed to those of h, side
       by side (tr2 h last); vertices and edges untouched; face flags / face properties undergo fast_remove h, halfface properties
       fast_remove2 h; nothing of another kind changes;
     - the invariant shift_inv2 holds again (the halfedge->halfface lists are re-ordered inside the core when ebu and fbu are on);
       same right-hand sides for the cache-guided and the scan variant.
   Method as in Kernel3/FastVertex.v / FastEdge.v. *)
From Coq Require Import ZArith Lia Bool Arith List ZifyNat ZifyBool.
From OVM Require Import Base.ListX Base.ListLemmas Base.ListLemmas2 Kernel.State Kernel.Ops Kernel.Mirror Kernel.Construct
                        Kernel.Recompute Kernel.Closure Kernel.ExactInv Kernel.ExactDelete Kernel.SwapEffects Kernel.SwapInvol Kernel.PropLaws
                        Kernel.DeleteEffects Kernel.DeleteDefs Kernel.GcFacts Kernel.SwapFaceCache Kernel.SwapEdgeCache
                        Kernel2.LookupModel Kernel2.AdjacentProofs Kernel2.ReorderExact Kernel2.ExactBase Kernel2.ExactDelFace Kernel2.ExactHistory
                        Kernel.ShiftFace Kernel.ShiftEdge Kernel.ShiftVertex Kernel.ShiftCompose Kernel3.FastDefs Kernel3.FastBase.
Import ListNotations.
Ltac Zify.zify_post_hook ::= Z.div_mod_to_equations.
Local Open Scope nat_scope.

Ltac rsq := cbn [set_fast set_nv set_edges set_faces set_cells set_vdel set_edel set_fdel set_cdel set_counts set_flags
                set_out_hes set_inc_hfs set_inc_cell set_props swap_prop_elems delete_prop_elem resize_props
                vertex_deleted edge_deleted face_deleted cell_deleted
                nv edges faces cells vdel edel fdel cdel ndv nde ndf ndc vbu ebu fbu deferred fast
                out_hes inc_hfs inc_cell pv pe phe pf phf pc pm props fst snd].

(* ================================================================== the core is "swap, then remove the last" *)

Lemma swap_face_modes a b s : let t := swap_face_indices a b s in
  deferred t = deferred s /\ fast t = fast s /\ nf t = nf s /\ nv t = nv s /\ edges t = edges s /\ vbu t = vbu s /\ ebu t = ebu s /\ fbu t = fbu s.
Proof.
  cbv zeta. destruct (Nat.eq_dec a b) as [->|N]; [rewrite swap_face_self; repeat split|].
  pose proof (swap_face_effect a b s N) as E. cbv zeta in E.
  destruct E as (c1&_&_&_&c5&c6&_&_&_&_&_&_&_&_&_&_&(f1&f2&f3&f4&f5)&_). unfold nf. rewrite c1, swap_nth_length. repeat split; assumption.
Qed.

Lemma fast_face_split h s : deferred s = false -> fast s = true ->
  delete_face_core h s = delete_face_core (nf s - 1) (swap_face_indices h (nf s - 1) s).
Proof.
  intros D F. set (l := nf s - 1). set (t := swap_face_indices h l s).
  destruct (swap_face_modes h l s) as (Dt & Ft & Nt & _). fold t in Dt, Ft, Nt.
  unfold delete_face_core at 2. rewrite Ft, Dt, F, D, Nt. cbn [andb negb]. fold l. rewrite swap_face_self.
  unfold delete_face_core at 1. rewrite F, D. cbn [andb negb]. fold l. fold t. reflexivity.
Qed.

(* the referring definitions and the caches after the fast removal of the last face *)
Lemma fast_face_view t : deferred t = false -> fast t = true -> let l := nf t - 1 in let s' := delete_face_core l t in
  cells s' = cells t /\ out_hes s' = out_hes t /\
  inc_cell s' = (if fbu t then remove_nth (2 * l) (remove_nth (2 * l + 1) (inc_cell t)) else inc_cell t) /\
  inc_hfs s' = (if ebu t then inc_hfs (face_loop l t) else inc_hfs t) /\ (vbu s' = vbu t /\ ebu s' = ebu t /\ fbu s' = fbu t).
Proof.
  intros D F. cbv zeta. set (l := nf t - 1). unfold delete_face_core. rewrite F, D. cbn [andb negb]. fold l. rewrite swap_face_self.
  match goal with |- context [if deferred ?x then _ else _] => set (s1 := x) end.
  assert (E : s1 = face_loop l t) by reflexivity. clearbody s1. subst s1.
  destruct (ebu t) eqn:Eb.
  - destruct (face_loop_frame l t) as [x [-> Lx]].
    destruct (fbu t) eqn:Fb; repeat (rsq; rewrite ?D, ?F, ?Fb, ?Eb; cbn [negb andb]); repeat split; reflexivity.
  - unfold face_loop. rewrite Eb.
    destruct (fbu t) eqn:Fb; repeat (rsq; rewrite ?D, ?F, ?Fb, ?Eb; cbn [negb andb]); repeat split; reflexivity.
Qed.

(* ================================================================== fast removal of the last face = index-shifting removal of it *)

Lemma face_loop_set_fast b l t : inc_hfs (face_loop l (set_fast b t)) = inc_hfs (face_loop l t).
Proof.
  unfold face_loop. change (ebu (set_fast b t)) with (ebu t). destruct (ebu t); [|reflexivity].
  change (face_at (set_fast b t) l) with (face_at t l).
  pose proof (fold_fstep_reads l (face_at t l) (set_fast b t) t ltac:(repeat split)) as (_ & _ & _ & _ & Ei & _). exact Ei.
Qed.

Lemma face_loop_spec_inv s h : shift_inv2 s -> h < nf s -> face_free s h -> face_loop_spec s h.
Proof.
  intros [I X] Hh FF. destruct (ebu s) eqn:E; [|apply face_loop_spec_ebu_off; exact E].
  destruct (fbu s) eqn:Fb; [|apply face_loop_spec_noreorder; [exact Fb|apply I]].
  destruct (X E Fb) as (SN & LC & FS). apply face_loop_spec_reorder; assumption.
Qed.

Theorem fast_face_last t : deferred t = false -> fast t = true -> shift_inv2 t -> 0 < nf t -> face_free t (nf t - 1) ->
  delete_face_core (nf t - 1) t = set_fast true (delete_face_core (nf t - 1) (set_fast false t)).
Proof.
  intros D F I Hn FF. set (l := nf t - 1). assert (Hl : l < nf t) by (unfold l; lia). set (t' := set_fast false t).
  pose proof I as (((NFv & NFe & NFf & NFc) & VO & EO & FO & (R1 & R2 & R3) & (L1 & L2 & L3 & L4 & L5 & L6)) & X).
  (* the fast side *)
  pose proof (fast_face_view t D F) as V. cbv zeta in V. fold l in V. destruct V as (x1 & x2 & x3 & x4 & (x5 & x6 & x7)).
  pose proof (delete_face_core_defs l t D) as Df. cbv zeta in Df. unfold victim in Df. rewrite F, D in Df. cbn [andb negb] in Df. fold l in Df.
  rewrite swap_face_self in Df. destruct Df as (d1 & d2 & d3 & _).
  pose proof (delete_face_core_props l t D) as P. cbv zeta in P. unfold victim in P. rewrite F, D in P. cbn [andb negb] in P. fold l in P.
  rewrite swap_face_self in P. destruct P as (p1 & p2 & p3 & p4 & p5 & p6 & p7 & p8 & p9 & p10 & p11).
  pose proof (cv_delete_face_core l t D) as C. unfold cv in C. injection C as k1 k2 k3 k4 k5 k6.
  (* the index-shifting side *)
  pose proof (face_step l t' D eq_refl (proj1 (shift_inv2_set_fast false t) I) Hl FF) as St. cbv zeta in St.
  destruct St as (_ & _ & _ & _ & _ & _ & y4 & _).
  pose proof (delete_face_core_view l t' D eq_refl) as W. cbv zeta in W.
  destruct W as (w1 & w2 & w3 & _ & w5 & w6 & w7 & w8 & w9 & w10 & w11 & (m1 & m2 & m3 & m4 & m5)).
  pose proof (delete_face_core_props l t' D) as Q. cbv zeta in Q. unfold victim in Q. cbn [fast t' set_fast set_flags andb] in Q.
  destruct Q as (q1 & q2 & q3 & q4 & q5 & q6 & q7 & q8 & q9 & q10 & q11).
  pose proof (cv_delete_face_core l t' D) as C'. unfold cv in C'. injection C' as j1 j2 j3 j4 j5 j6.
  set (Y := delete_face_core l t') in *. set (Z := delete_face_core l t) in *.
  assert (Cid : map (map (cor2 (2 * l + 1))) (cells t) = cells t).
  { apply map_map_cor2_last. intros xs x Hxs Hx. destruct (In_nth _ _ [] Hxs) as [c [Hc Ec]].
    replace (2 * (l + 1)) with (2 * nf t) by (unfold l; lia). apply (R3 c Hc (NFc c)). unfold cell_at. rewrite Ec. exact Hx. }
  assert (Hid : ebu t = true -> map (map (cor2 (2 * l + 1))) (inc_hfs (face_loop l t)) = inc_hfs (face_loop l t)).
  { intros Eb. apply map_map_cor2_last. intros xs x Hxs Hx. destruct (In_nth _ _ [] Hxs) as [k [Hk Ek]].
    destruct (face_loop_frame l t) as [z [Ez Lz]]. rewrite Ez in Hk. cbn [inc_hfs set_inc_hfs] in Hk. rewrite Lz, (L2 Eb) in Hk.
    assert (Hx' : In x (hfs_at (face_loop l t) k)) by (unfold hfs_at; rewrite Ek; exact Hx).
    apply (face_loop_spec_inv t l I Hl FF Eb k Hk) in Hx'. destruct Hx' as [Hx' _]. apply (EO Eb k Hk) in Hx'. destruct Hx' as (Hx' & _).
    unfold l. lia. }
  apply mesh_ext; rsq.
  - rewrite d2, w1. reflexivity.
  - rewrite d3, w2. reflexivity.
  - rewrite d1, w3. reflexivity.
  - rewrite x1, y4. symmetry. exact Cid.
  - rewrite p4, w5. reflexivity.
  - rewrite p5, w6. reflexivity.
  - rewrite p1, q1. reflexivity.
  - rewrite p6, q6. reflexivity.
  - rewrite k1, j1. reflexivity.
  - rewrite k2, j2. reflexivity.
  - rewrite k3, j3. reflexivity.
  - rewrite k4, j4. reflexivity.
  - rewrite x5, m1. reflexivity.
  - rewrite x6, m2. reflexivity.
  - rewrite x7, m3. reflexivity.
  - rewrite k5, j5. reflexivity.
  - rewrite k6. exact F.
  - rewrite x2, w9. reflexivity.
  - rewrite x4, w11. change (ebu t') with (ebu t). change (inc_hfs t') with (inc_hfs t). unfold t'. rewrite face_loop_set_fast.
    destruct (ebu t) eqn:Eb; [symmetry; apply Hid; reflexivity|reflexivity].
  - rewrite x3, w10. reflexivity.
  - rewrite p7, q7. reflexivity.
  - rewrite p8, q8. reflexivity.
  - rewrite p9, q9. reflexivity.
  - rewrite p2, q2. reflexivity.
  - rewrite p3, q3. reflexivity.
  - rewrite p10, q10. reflexivity.
  - rewrite p11, q11. reflexivity.
Qed.

(* ================================================================== the swap keeps the invariant and is the relabeling *)

Lemma no_deleted_cell_lists_no_flags s a b : no_flags s -> no_deleted_cell_lists s a b.
Proof. intros (_ & _ & _ & NFc) c Hc Hd. rewrite NFc in Hd. discriminate. Qed.

Lemma swap_face_relabeled a b s : shift_inv s -> a <> b -> a < nf s -> b < nf s -> swap_face_indices a b s = face_relabeled a b s.
Proof. intros (NF & VO & EO & FO & R & L) N Ha Hb. apply swap_face_exact_relabeling; try assumption. apply no_deleted_cell_lists_no_flags. exact NF. Qed.

Lemma swap_half_inj a b x y : swap_half a b x = swap_half a b y -> x = y.
Proof. intros E. rewrite <- (swap_half_involutive a b x), <- (swap_half_involutive a b y), E. reflexivity. Qed.

Theorem shift_inv2_swap_face a b s : shift_inv2 s -> a < nf s -> b < nf s -> shift_inv2 (swap_face_indices a b s).
Proof.
  intros [I X] Ha Hb. destruct (Nat.eq_dec a b) as [->|N]; [rewrite swap_face_self; exact (conj I X)|].
  pose proof I as (NF & VO & EO & FO & R & L).
  pose proof (bu_inv_swap_face a b s Ha Hb (conj VO (conj EO (conj FO (conj R L)))) (no_deleted_cell_lists_no_flags s a b NF)) as (VO' & EO' & FO' & R' & L').
  rewrite (swap_face_relabeled a b s I N Ha Hb) in *. set (t := face_relabeled a b s) in *.
  destruct NF as (NFv & NFe & NFf & NFc). destruct L as (L1 & L2 & L3 & L4 & L5 & L6).
  assert (NF_ : nf t = nf s) by apply nf_face_relabeled.
  split.
  - split; [|tauto]. unfold no_flags, v_deleted, e_deleted, f_deleted, c_deleted, t, face_relabeled. cbn [vdel edel fdel cdel].
    repeat split; try assumption. apply all_false_swap_nth. exact NFf.
  - intros E' Fb'. change (ebu s = true) in E'. change (fbu s = true) in Fb'. destruct (X E' Fb') as (SN & LC & FS). split; [|split].
    + intros k Hk. change (k < 2 * ne s) in Hk.
      replace (hfs_at t k) with (map (swap_half a b) (hfs_at s k))
        by (unfold hfs_at, t, face_relabeled; cbn [inc_hfs]; rewrite E'; symmetry; apply nth_map_map_half).
      apply NoDup_map_inj_on; [apply SN; exact Hk|]. intros x y _ _. apply swap_half_inj.
    + intros c Hc _. assert (Hc' : c < nc s) by (revert Hc; unfold nc, t, face_relabeled; cbn [cells]; rewrite map_length; tauto).
      pose proof (LC c Hc' (NFc c)) as Cl.
      apply (closed_cell_rename s t c c (swap_half a b) (fun x => x)); [apply cell_at_face_relabeled| | | | |exact Cl].
      * intros y Hy. unfold t. rewrite cell_of_face_relabeled by (try assumption; exact (L3 Fb')). rewrite swap_half_involutive. exact (proj1 (Cl y Hy)).
      * intros y z Hy Hz. split; [apply eqb_inj; apply swap_half_inj|]. rewrite opp_swap_half. apply eqb_inj. apply swap_half_inj.
      * intros z Hz. unfold t. rewrite halfface_face_relabeled by assumption. rewrite swap_half_involutive, map_id. reflexivity.
      * intros; reflexivity.
    + intros f Hf _. rewrite NF_ in Hf. unfold t. rewrite face_at_face_relabeled by assumption.
      apply FS; [apply (swap_idx_lt a b (nf s) f Ha Hb); exact Hf|apply NFf].
Qed.

Lemma swap_face_defs a b s : shift_inv2 s -> a < nf s -> b < nf s -> let t := swap_face_indices a b s in
  faces t = swap_nth a b [] (faces s) /\ cells t = map (map (tr2 a b)) (cells s).
Proof.
  intros [I X] Ha Hb. cbv zeta. destruct (Nat.eq_dec a b) as [->|N]; [rewrite swap_face_self, swap_nth_same, map_tr2_same; repeat split|].
  rewrite (swap_face_relabeled a b s I N Ha Hb). repeat split.
Qed.

(* ================================================================== the step theorem *)

Definition face_arrays_fast (h : nat) (s s' : mesh) : Prop :=
  vdel s' = vdel s /\ edel s' = edel s /\ fdel s' = fast_remove false h (fdel s) /\ cdel s' = cdel s /\
  pv s' = pv s /\ pe s' = pe s /\ phe s' = phe s /\ pf s' = map (pfast h) (pf s) /\ phf s' = map (pfast2 h) (phf s) /\
  pc s' = pc s /\ pm s' = pm s /\
  (ndv s' = ndv s /\ nde s' = nde s /\ ndf s' = ndf s /\ ndc s' = ndc s).

Theorem fast_face_arrays h s : deferred s = false -> fast s = true -> sized s -> h < nf s -> face_arrays_fast h s (delete_face_core h s).
Proof.
  intros D F (_ & _ & Lf & _ & Lp) Hh.
  pose proof (delete_face_core_props h s D) as P. cbv zeta in P. unfold victim in P. rewrite F, D in P. cbn [andb negb] in P.
  pose proof (cv_delete_face_core h s D) as C. unfold cv in C. injection C as k1 k2 k3 k4 _ _.
  set (l := nf s - 1) in *. destruct P as (p1 & p2 & p3 & p4 & p5 & p6 & p7 & p8 & p9 & p10 & p11).
  set (t := swap_face_indices h l s) in *.
  assert (Sw : fdel t = swap_nth h l false (fdel s) /\ pf t = map (pswap h l) (pf s) /\ phf t = half_swap_props h l (phf s) /\
               vdel t = vdel s /\ edel t = edel s /\ cdel t = cdel s /\
               pv t = pv s /\ pe t = pe s /\ phe t = phe s /\ pc t = pc s /\ pm t = pm s).
  { unfold t. destruct (Nat.eq_dec h l) as [->|N].
    - rewrite swap_face_self, swap_nth_same. unfold half_swap_props. repeat split.
      + rewrite <- (map_id (pf s)) at 1. apply map_ext. intros p. symmetry. apply pswap_same.
      + rewrite map_map. rewrite <- (map_id (phf s)) at 1. apply map_ext. intros p. rewrite !pswap_same. reflexivity.
    - pose proof (swap_face_effect h l s N) as E. cbv zeta in E.
      destruct E as (c1&c2&c3&c4&c5&c6&c7&c8&c9&c10&c11&c12&c13&c14&c15&_). repeat split; assumption. }
  destruct Sw as (w1 & w2 & w3 & w4 & w5 & w6 & w7 & w8 & w9 & w10 & w11).
  unfold face_arrays_fast. rewrite p1, p2, p3, p4, p5, p6, p7, p8, p9, p10, p11, w1, w2, w3, w4, w5, w6, w7, w8, w9, w10, w11.
  repeat split; try assumption.
  - unfold l. rewrite <- Lf. apply fast_remove_swap. rewrite Lf. exact Hh.
  - unfold l. apply map_pfast_swap; [|exact Hh]. intros p Hp. exact (Lp KF p Hp).
  - unfold l. apply (map_pfast2_swap h (nf s)); [|exact Hh]. intros p Hp. exact (Lp KHF p Hp).
Qed.

Theorem fast_face_step h s : deferred s = false -> fast s = true -> shift_inv2 s -> h < nf s -> face_free s h ->
  let s' := delete_face_core h s in let l := nf s - 1 in
  shift_inv2 s' /\ deferred s' = false /\ fast s' = true /\
  nv s' = nv s /\ edges s' = edges s /\ faces s' = fast_remove [] h (faces s) /\ cells s' = map (map (tr2 h l)) (cells s) /\
  (vbu s' = vbu s /\ ebu s' = ebu s /\ fbu s' = fbu s).
Proof.
  intros D F I Hh FF. cbv zeta. set (l := nf s - 1). assert (Hl : l < nf s) by (unfold l; lia).
  rewrite (fast_face_split h s D F). fold l. set (t := swap_face_indices h l s).
  destruct (swap_face_modes h l s) as (Dt & Ft & Nt & Nvt & Edt & Vt & Et & Bt). fold t in Dt, Ft, Nt, Nvt, Edt, Vt, Et, Bt.
  rewrite D in Dt. rewrite F in Ft.
  assert (It : shift_inv2 t) by (apply shift_inv2_swap_face; assumption).
  destruct (swap_face_defs h l s I Hh Hl) as (Fat & Ct). fold t in Fat, Ct.
  assert (FFt : face_free t l).
  { intros c hf Hhf. unfold cell_at in Hhf. rewrite Ct, nth_map_map_half in Hhf. apply in_map_iff in Hhf. destruct Hhf as [y [<- Hy]].
    pose proof (FF c y Hy) as Ny. change (swap_half h l y) with (tr2 h l y). destruct (tr2_spec h l y) as [Q _]. rewrite Q. unfold tr.
    destruct (Nat.eqb_spec (y / 2) h); [congruence|]. destruct (Nat.eqb_spec (y / 2) l); congruence. }
  assert (Hn : 0 < nf t) by lia.
  pose proof (fast_face_last t Dt Ft It Hn) as Br. rewrite Nt in Br. fold l in Br. rewrite (Br FFt). clear Br.
  pose proof (face_step l (set_fast false t) Dt eq_refl (proj1 (shift_inv2_set_fast false t) It) ltac:(change (l < nf t); lia) FFt) as St.
  cbv zeta in St. set (u := delete_face_core l (set_fast false t)) in *.
  destruct St as (Iu & Du & Fu & u1 & u2 & u3 & u4 & (u5 & u6 & u7)).
  change (nv (set_fast false t)) with (nv t) in u1. change (edges (set_fast false t)) with (edges t) in u2.
  change (faces (set_fast false t)) with (faces t) in u3. change (cells (set_fast false t)) with (cells t) in u4.
  change (vbu (set_fast false t)) with (vbu t) in u5. change (ebu (set_fast false t)) with (ebu t) in u6. change (fbu (set_fast false t)) with (fbu t) in u7.
  split; [apply (proj1 (shift_inv2_set_fast true u)); exact Iu|]. rsq.
  split; [exact Du|]. split; [reflexivity|]. split; [congruence|]. split; [congruence|].
  split; [rewrite u3, Fat; unfold l, nf; apply fast_remove_swap; exact Hh|].
  split; [|repeat split; congruence].
  rewrite u4, <- Ct. apply map_map_cor2_last. intros xs x Hxs Hx. destruct (In_nth _ _ [] Hxs) as [c [Hc Ec]].
  pose proof It as (((_ & _ & _ & NFc) & _ & _ & _ & (_ & _ & R3) & _) & _).
  replace (2 * (l + 1)) with (2 * nf t) by (rewrite Nt; unfold l; lia). apply (R3 c Hc (NFc c)). unfold cell_at. rewrite Ec. exact Hx.
Qed.

Theorem fast_face_step_full h s : deferred s = false -> fast s = true -> shift_inv2 s -> sized s -> h < nf s -> face_free s h ->
  let s' := delete_face_core h s in let l := nf s - 1 in
  shift_inv2 s' /\ sized s' /\ deferred s' = false /\ fast s' = true /\
  nv s' = nv s /\ edges s' = edges s /\ faces s' = fast_remove [] h (faces s) /\ cells s' = map (map (tr2 h l)) (cells s) /\
  (vbu s' = vbu s /\ ebu s' = ebu s /\ fbu s' = fbu s) /\ face_arrays_fast h s s'.
Proof.
  intros D F I Z Hh FF. cbv zeta. pose proof (fast_face_step h s D F I Hh FF) as St. cbv zeta in St.
  destruct St as (a1 & a2 & a3 & a4 & a5 & a6 & a7 & a8).
  split; [exact a1|]. split; [apply Sizes.szd_sized, Sizes.szd_delete_face_core; apply Sizes.szd_sized; exact Z|].
  exact (conj a2 (conj a3 (conj a4 (conj a5 (conj a6 (conj a7 (conj a8 (fast_face_arrays h s D F Z Hh)))))))).
Qed.

Corollary fast_face_step_cache_is_scan h s t : deferred s = false -> fast s = true -> shift_inv2 s -> h < nf s -> face_free s h ->
  deferred t = false -> fast t = true -> shift_inv2 t -> nv t = nv s -> edges t = edges s -> faces t = faces s -> cells t = cells s ->
  let s' := delete_face_core h s in let t' := delete_face_core h t in
  nv t' = nv s' /\ edges t' = edges s' /\ faces t' = faces s' /\ cells t' = cells s'.
Proof.
  intros D F I Hh FF D' F' I' e0 e1 e2 e3. cbv zeta.
  assert (FF' : face_free t h) by (intros c hf Hhf; unfold cell_at in Hhf; rewrite e3 in Hhf; exact (FF c hf Hhf)).
  assert (Hh' : h < nf t) by (unfold nf; rewrite e2; exact Hh).
  pose proof (fast_face_step h s D F I Hh FF) as P. pose proof (fast_face_step h t D' F' I' Hh' FF') as Q. cbv zeta in P, Q.
  destruct P as (_ & _ & _ & p1 & p2 & p3 & p4 & _). destruct Q as (_ & _ & _ & q1 & q2 & q3 & q4 & _).
  unfold nf in *. rewrite p1, p2, p3, p4, q1, q2, q3, q4, e0, e1, e2, e3. repeat split.
Qed.
