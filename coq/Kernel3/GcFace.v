(* Kernel3/GcFace.v -- C04, the FACE pass of collect_garbage in NON-FAST mode (after the cell pass: no cell flag is left).
   One step: the flag of face h is cleared and delete_face_core h runs in immediate mode.  The flagged face is in no
   halfedge->halfface list (the caches list only live referrers) and in no cell (upward closure, all cells live): the loop over
   its halfedges removes nothing and only re-orders; slot h leaves the face array / flag array / property arrays; every cell
   is its old definition with the halfface handles above 2h+1 shifted by two (cache-guided and scan variants alike); the caches
   are the shifted caches and ginv holds again.
   The pass: faces = compact, cells renamed through rank2 of the old face flags. *)
From Coq Require Import ZArith Lia Bool Arith List ZifyNat ZifyBool Permutation.
From OVM Require Import Base.ListX Base.ListLemmas Kernel.State Kernel.Ops Kernel.Mirror Kernel.Recompute Kernel.Closure Kernel.ExactInv
                        Kernel.ExactDelete Kernel.DeleteEffects
                        Kernel2.LookupModel Kernel2.ListAux Kernel2.AdjacentProofs Kernel2.ReorderExact Kernel2.ExactBase Kernel2.ExactDelFace
                        Kernel.ShiftFace Kernel.ShiftCompose Kernel3.GcDefs Kernel3.GcList Kernel3.GcInv Kernel3.GcReorder Kernel3.GcCell.
Import ListNotations.
Ltac Zify.zify_post_hook ::= Z.div_mod_to_equations.
Local Open Scope nat_scope.

Lemma remove_at_absent i x ll : ~ In x (nth i ll []) -> remove_at i x ll = ll.
Proof. intros H. unfold remove_at. rewrite remove_val_id by exact H. apply upd_same. Qed.

Section FaceStep.
Context (s : mesh) (h : nat).
Context (D : deferred s = false) (F : fast s = false) (I : ginv s) (NC : no_cflags s) (Hh : h < nf s) (Hd : f_deleted s h = true).

Local Notation sf := (clr_f h s).
Local Notation s' := (delete_face_core h (clr_f h s)).

Lemma gcf_face_free : face_free s h.
Proof. apply ginv_face_free; assumption. Qed.

(* ---------------------------------------------------------------- the cells *)
Lemma gcf_cells : cells s' = map (map (cor2 (2 * h + 1))) (cells s).
Proof.
  pose proof I as ((_ & _ & FO & (_ & _ & R3) & (_ & _ & L3 & _)) & _).
  pose proof (delete_face_core_view h sf D F) as V. cbv zeta in V. destruct V as (_ & _ & _ & -> & _).
  change (cells sf) with (cells s). change (upd_cells_of h sf) with (upd_cells_of h s).
  rewrite (fold_upd_is_map (fix2 h) []).
  - apply map_ext_in. intros l Hl. apply fix2_free. intros y Hy. destruct (In_nth _ _ [] Hl) as [c [Hc E]].
    apply (gcf_face_free c y). unfold cell_at. rewrite E. exact Hy.
  - unfold upd_cells_of. destruct (fbu s); [apply set_of_list_NoDup|apply NoDup_live_cells].
  - intros k Hk Nin. unfold upd_cells_of in Nin. destruct (fbu s) eqn:Fb.
    + apply fix2_below. intros y Hy.
      destruct (Nat.lt_ge_cases y (2 * h)) as [Hlt|Hge]; [exact Hlt|]. exfalso. apply Nin.
      assert (Hy2 : y < 2 * nf s) by (apply (R3 k Hk (NC k) y Hy)).
      assert (Cy : cell_of s y = Some k).
      { apply (FO Fb y Hy2 k). split; [exact Hk|]. split; [apply NC|exact Hy]. }
      apply Kernel2.ListAux.set_of_list_In. apply in_flat_map. exists (Some k). split; [|left; reflexivity].
      unfold cell_of in Cy. rewrite <- Cy. apply nth_In_skipn; [lia|]. rewrite (L3 eq_refl). exact Hy2.
    + exfalso. apply Nin. unfold live_cells, c_deleted. rewrite (seq_all_live (cdel s) (nc s) NC). apply in_seq. unfold nc. lia.
Qed.

(* ---------------------------------------------------------------- the loop over the halfedges of the flagged face *)

(* the two halffaces of the flagged face are in no list *)
Lemma gcf_absent t x : inc_hfs t = x -> edges t = edges s -> length x = 2 * ne s -> slots_spec t (P_live s) ->
  forall k y, y / 2 = h -> ~ In y (nth k x []).
Proof.
  intros Ex Ed Lx S k y Hy Hin. destruct (Nat.lt_ge_cases k (2 * ne s)) as [Hk|Hk].
  - assert (Hk' : k < 2 * ne t) by (unfold ne; rewrite Ed; exact Hk).
    destruct (S k Hk') as [_ M]. unfold hfs_at in M. rewrite Ex in M. apply M in Hin. destruct Hin as (_ & B & _).
    rewrite Hy in B. congruence.
  - rewrite nth_overflow in Hin by lia. destruct Hin.
Qed.

Lemma gcf_fstep_spec t he : ebu s = true -> fbu s = true ->
  (exists x, t = set_inc_hfs x sf /\ length x = 2 * ne s) -> slots_spec t (P_live s) ->
  (exists x, fstep h t he = set_inc_hfs x sf /\ length x = 2 * ne s) /\ slots_spec (fstep h t he) (P_live s).
Proof.
  intros E Fb [x [-> Lx]] S.
  assert (A0 : forall k y, y / 2 = h -> ~ In y (nth k x [])) by (apply (gcf_absent (set_inc_hfs x sf) x); auto).
  unfold fstep. cbv zeta. change (inc_hfs (set_inc_hfs x sf)) with x.
  rewrite (remove_at_absent he (2 * h) x) by (apply A0; lia).
  rewrite (remove_at_absent (opp he) (2 * h + 1) x) by (apply A0; lia).
  change (set_inc_hfs x (set_inc_hfs x sf)) with (set_inc_hfs x sf). change (fbu (set_inc_hfs x sf)) with (fbu s). rewrite Fb.
  assert (U : same_upper s (set_inc_hfs x sf)) by (repeat split).
  split.
  - destruct (reorder_is_set_inc_hfs (he / 2) (set_inc_hfs x sf)) as [y [-> Ly]]. exists y. split; [reflexivity|].
    rewrite Ly. exact Lx.
  - apply (reorder_one_keeps_spec s (set_inc_hfs x sf) I E Fb U). exact S.
Qed.

Lemma gcf_fold_spec hes : ebu s = true -> fbu s = true -> forall t,
  (exists x, t = set_inc_hfs x sf /\ length x = 2 * ne s) -> slots_spec t (P_live s) ->
  slots_spec (fold_left (fstep h) hes t) (P_live s).
Proof.
  intros E Fb. induction hes as [|he r IH]; intros t Fr S; [exact S|]. cbn [fold_left].
  destruct (gcf_fstep_spec t he E Fb Fr S) as [Fr' S']. exact (IH _ Fr' S').
Qed.

(* after the loop every list has its old members (and is still duplicate-free when it was) *)
Lemma gcf_loop : ebu s = true -> forall k, k < 2 * ne s ->
  (fbu s = true -> NoDup (hfs_at (face_loop h sf) k)) /\ forall x, In x (hfs_at (face_loop h sf) k) <-> In x (hfs_at s k).
Proof.
  intros E k Hk. pose proof I as ((_ & EO & _ & _ & (_ & L2 & _)) & _).
  destruct (fbu s) eqn:Fb.
  - assert (S0 : slots_spec sf (P_live s)) by (apply (slots_spec_transfer s sf); [reflexivity|reflexivity|apply ginv_slots_spec; assumption]).
    assert (Fr : exists x, sf = set_inc_hfs x sf /\ length x = 2 * ne s).
    { exists (inc_hfs s). split; [symmetry; apply (set_inc_hfs_self sf)|exact (L2 E)]. }
    pose proof (gcf_fold_spec (face_at s h) E Fb sf Fr S0) as S1.
    unfold face_loop. change (ebu sf) with (ebu s). rewrite E. change (face_at sf h) with (face_at s h).
    assert (Hk' : k < 2 * ne (fold_left (fstep h) (face_at s h) sf)).
    { destruct (fold_fstep_frame h (face_at s h) sf) as [x [-> _]]. exact Hk. }
    destruct (S1 k Hk') as [Nd M]. split; [intros _; exact Nd|]. intros x. rewrite M. symmetry. exact (EO E k Hk x).
  - split; [discriminate|]. intros x. rewrite (face_loop_noreorder h sf Fb). change (ebu sf) with (ebu s). rewrite E.
    unfold hfs_at at 1. cbn [inc_hfs set_inc_hfs]. change (face_at sf h) with (face_at s h). change (inc_hfs sf) with (inc_hfs s).
    rewrite fold_rm_step_In. fold (hfs_at s k). split; [tauto|]. intros Hx. split; [exact Hx|].
    apply (EO E k Hk x) in Hx. destruct Hx as (_ & Hx & _).
    split; intros [-> _]; [replace (2 * h / 2) with h in Hx by lia|replace ((2 * h + 1) / 2) with h in Hx by lia]; congruence.
Qed.

(* ---------------------------------------------------------------- the step *)
Theorem gc_face_step :
  ginv s' /\ deferred s' = false /\ fast s' = false /\ no_cflags s' /\
  nv s' = nv s /\ edges s' = edges s /\ faces s' = remove_nth h (faces s) /\ cells s' = map (map (cor2 (2 * h + 1))) (cells s) /\
  vdel s' = vdel s /\ edel s' = edel s /\ fdel s' = remove_nth h (fdel s) /\ cdel s' = cdel s /\
  (vbu s' = vbu s /\ ebu s' = ebu s /\ fbu s' = fbu s) /\
  (faces_simple s -> faces_simple s').
Proof.
  pose proof I as ((VO & EO & FO & (R1 & R2 & R3) & (L1 & L2 & L3 & L4 & L5 & L6)) & LV & (U1 & U2 & U3) & X).
  pose proof gcf_face_free as FF. pose proof gcf_cells as Ce. pose proof gcf_loop as LS.
  pose proof (delete_face_core_view h sf D F) as V. cbv zeta in V.
  destruct V as (w1 & w2 & w3 & _ & w5 & w6 & w7 & w8 & w9 & w10 & w11 & (m1 & m2 & m3 & m4 & m5)).
  change (nv sf) with (nv s) in w1. change (edges sf) with (edges s) in w2. change (faces sf) with (faces s) in w3.
  change (vdel sf) with (vdel s) in w5. change (edel sf) with (edel s) in w6.
  change (fdel sf) with (upd h false (fdel s)) in w7. rewrite remove_nth_upd_same in w7. change (cdel sf) with (cdel s) in w8.
  change (out_hes sf) with (out_hes s) in w9. change (fbu sf) with (fbu s) in w10. change (inc_cell sf) with (inc_cell s) in w10.
  change (ebu sf) with (ebu s) in w11. change (inc_hfs sf) with (inc_hfs s) in w11.
  change (vbu sf) with (vbu s) in m1. change (ebu sf) with (ebu s) in m2. change (fbu sf) with (fbu s) in m3.
  set (t := delete_face_core h (clr_f h s)) in *.
  assert (NE : ne t = ne s) by (unfold ne; rewrite w2; reflexivity).
  assert (NF_ : nf t = nf s - 1) by (unfold nf; rewrite w3; apply remove_nth_length; exact Hh).
  assert (NC_ : nc t = nc s) by (unfold nc; rewrite Ce, map_length; reflexivity).
  assert (CAt : forall c, cell_at t c = map (cor2 (2 * h + 1)) (cell_at s c)) by (intros c; unfold cell_at; rewrite Ce; apply nth_map_map).
  assert (FD : forall f, f_deleted t f = f_deleted s (unshift1 h f)) by (intros f; unfold f_deleted; rewrite w7; apply flag_after_remove).
  assert (CD : forall c, c_deleted t c = c_deleted s c) by (intros c; unfold c_deleted; rewrite w8; reflexivity).
  assert (FAt : forall f, face_at t f = face_at s (unshift1 h f)) by (intros f; unfold face_at; rewrite w3; apply nth_remove_nth_unshift).
  assert (NCt : no_cflags t) by (intros c; rewrite CD; apply NC).
  assert (LoopAvoid : ebu s = true -> forall k, k < 2 * ne s -> forall y, In y (hfs_at (face_loop h sf) k) -> y / 2 <> h).
  { intros E k Hk y Hy. apply (proj2 (LS E k Hk) y) in Hy. apply (EO E k Hk y) in Hy. destruct Hy as (_ & Hy & _). intros Eq. rewrite Eq in Hy. congruence. }
  assert (EO' : ebu_ok t).
  { intros E k Hk x. rewrite m2 in E. rewrite NE in Hk. unfold hfs_at. rewrite w11, E, nth_map_map. fold (hfs_at (face_loop h sf) k).
    rewrite In_map_cor2 by (exact (LoopAvoid E k Hk)).
    rewrite (proj2 (LS E k Hk)), (EO E k Hk), NF_, FD, (halfface_remove_face s t h x w3), unshift2_div2.
    pose proof (unshift1_lt h (x / 2) (nf s) Hh). tauto. }
  assert (FO' : fbu_ok t).
  { intros Fb hf Hhf c. rewrite m3 in Fb. rewrite NF_ in Hhf. unfold cell_of. rewrite w10, Fb, nth_remove_two_unshift. fold (cell_of s (unshift2 h hf)).
    assert (Hu : unshift2 h hf < 2 * nf s) by (apply unshift2_lt; assumption).
    rewrite (FO Fb _ Hu c), NC_, CD, CAt, In_map_cor2 by (intros y Hy; exact (FF _ _ Hy)). reflexivity. }
  assert (R3' : forall c, c < nc t -> c_deleted t c = false -> forall hf, In hf (cell_at t c) -> hf < 2 * nf t).
  { intros c Hc _ x Hx. rewrite NC_ in Hc. rewrite CAt in Hx. apply in_map_iff in Hx. destruct Hx as [y [<- Hy]].
    pose proof (R3 c Hc (NC c) y Hy). pose proof (FF c y Hy). rewrite NF_. unfold cor2. ltb_cases; lia. }
  refine (conj _ (conj m4 (conj m5 (conj NCt (conj w1 (conj w2 (conj w3 (conj Ce (conj w5 (conj w6 (conj w7 (conj w8 (conj (conj m1 (conj m2 m3)) _))))))))))))).
  - split; [|split; [rewrite w5, w1; exact LV|split]].
    + (* bu_inv *)
      split; [|split; [exact EO'|split; [exact FO'|split; [split; [|split; [|exact R3']]|unfold lens_ok; split; [|split; [|split; [|split; [|split]]]]]]]].
      * intros Vb v Hv x. rewrite m1 in Vb. rewrite w1 in Hv. unfold out_at, e_deleted, he_from, edge_at. rewrite w9, NE, w6, w2. exact (VO Vb v Hv x).
      * intros e He Hde. rewrite NE in He. unfold e_deleted in Hde. rewrite w6 in Hde. unfold edge_at. rewrite w2, w1. exact (R1 e He Hde).
      * intros f Hf Hdf x Hx. rewrite NF_ in Hf. rewrite FD in Hdf. rewrite FAt in Hx. rewrite NE.
        apply (R2 (unshift1 h f)); [apply unshift1_lt; assumption|exact Hdf|exact Hx].
      * intros Vb. rewrite m1 in Vb. rewrite w9, w1. exact (L1 Vb).
      * intros E. rewrite m2 in E. rewrite w11, E, NE, map_length. destruct (face_loop_frame h sf) as [x [-> Lx]]. cbn [inc_hfs set_inc_hfs].
        rewrite Lx. exact (L2 E).
      * intros Fb. rewrite m3 in Fb. rewrite w10, Fb, NF_, remove_two_length by (rewrite (L3 Fb); lia). rewrite (L3 Fb). lia.
      * rewrite w6, NE. exact L4.
      * rewrite w7, NF_, remove_nth_length by (rewrite L5; exact Hh). rewrite L5. reflexivity.
      * rewrite w8, NC_. exact L6.
    + (* up_closed *)
      split; [|split].
      * intros e He Hde. rewrite NE in He. unfold e_deleted in Hde. rewrite w6 in Hde. unfold v_deleted, edge_at. rewrite w5, w2. exact (U1 e He Hde).
      * intros f Hf Hdf he Hhe. rewrite NF_ in Hf. rewrite FD in Hdf. rewrite FAt in Hhe. unfold e_deleted. rewrite w6.
        apply (U2 (unshift1 h f)); [apply unshift1_lt; assumption|exact Hdf|exact Hhe].
      * intros c Hc _ hf Hhf. rewrite NC_ in Hc. rewrite CAt in Hhf. apply in_map_iff in Hhf. destruct Hhf as [y [<- Hy]].
        rewrite FD, cor2_div2 by (exact (FF c y Hy)). rewrite unshift1_cor1 by (exact (FF c y Hy)). exact (U3 c Hc (NC c) y Hy).
    + (* gext *)
      intros E' Fb'. assert (E : ebu s = true) by congruence. assert (Fb : fbu s = true) by congruence.
      destruct (X E Fb) as (SN & LC). split.
      * intros k Hk. rewrite NE in Hk. unfold hfs_at. rewrite w11, E, nth_map_map. fold (hfs_at (face_loop h sf) k).
        apply NoDup_map_inj_on; [exact (proj1 (LS E k Hk) Fb)|]. intros x y Hx Hy. apply cor2_inj_on; [exact (LoopAvoid E k Hk x Hx)|exact (LoopAvoid E k Hk y Hy)].
      * intros c Hc _. rewrite NC_ in Hc.
        apply (closed_cell_rename s t c c (cor2 (2 * h + 1)) (fun x => x)); [apply CAt| | | | |exact (LC c Hc (NC c))].
        -- intros y Hy. apply (FO' Fb').
           ++ apply (R3' c); [rewrite NC_; exact Hc|apply NCt|rewrite CAt; apply in_map; exact Hy].
           ++ split; [rewrite NC_; exact Hc|]. split; [apply NCt|]. rewrite CAt. apply in_map. exact Hy.
        -- intros y z Hy Hz. pose proof (FF c y Hy). pose proof (FF c z Hz). split.
           ++ apply eqb_inj. apply cor2_inj_on; assumption.
           ++ rewrite <- cor2_opp. apply eqb_inj. apply cor2_inj_on; [assumption|rewrite opp_div2; assumption].
        -- intros z Hz. rewrite map_id, (halfface_remove_face s t h _ w3), unshift2_cor2 by (exact (FF c z Hz)). reflexivity.
        -- intros; reflexivity.
  - intros FS f Hf Hdf. rewrite NF_ in Hf. rewrite FD in Hdf. rewrite FAt. apply (FS (unshift1 h f)); [apply unshift1_lt; assumption|exact Hdf].
Qed.
End FaceStep.

(* ================================================================== flags and property arrays: unconditional *)

Lemma gc_face_step_props s h : deferred s = false -> fast s = false -> let s' := delete_face_core h (clr_f h s) in
  pf s' = map (pdelete h) (pf s) /\ phf s' = map (pdelete (2 * h)) (map (pdelete (2 * h + 1)) (phf s)) /\
  pv s' = pv s /\ pe s' = pe s /\ phe s' = phe s /\ pc s' = pc s /\ pm s' = pm s.
Proof.
  intros D F. cbv zeta. pose proof (delete_face_core_props h (clr_f h s) D) as P. cbv zeta in P. unfold victim in P.
  change (fast (clr_f h s)) with (fast s) in P. rewrite F in P. cbn [andb] in P.
  destruct P as (_ & p2 & p3 & _ & _ & _ & p7 & p8 & p9 & p10 & p11). repeat split; assumption.
Qed.

Lemma map_pcompact_remove2 del n l : nth n del false = true ->
  map (pcompact (dbl (remove_nth n del))) (map (pdelete (2 * n)) (map (pdelete (2 * n + 1)) l)) = map (pcompact (dbl del)) l.
Proof.
  intros H. rewrite !map_map. apply map_ext. intros p. unfold pcompact, pdelete. cbn [pdef pdata].
  rewrite compact_remove2 by exact H. reflexivity.
Qed.

Lemma map_rank2_remove del n ll : nth n del false = true ->
  map (map (rank2 (remove_nth n del))) (map (map (cor2 (2 * n + 1))) ll) = map (map (rank2 del)) ll.
Proof.
  intros H. rewrite map_map. apply map_ext. intros l. rewrite map_map. apply map_ext. intros x. apply rank2_remove. exact H.
Qed.

Lemma map_rank2_all_false del (ll : list (list nat)) : (forall i, nth i del false = false) -> map (map (rank2 del)) ll = ll.
Proof. intros H. apply map_id_on. intros l _. apply map_id_on. intros x _. apply rank2_all_false. exact H. Qed.

(* ================================================================== the pass *)

Theorem gc_face_pass n : forall s, deferred s = false -> fast s = false -> ginv s -> no_cflags s -> n <= nf s ->
  (forall i, n <= i -> f_deleted s i = false) ->
  let t := pass_f n s in
  ginv t /\ deferred t = false /\ fast t = false /\ no_cflags t /\ no_fflags t /\
  nv t = nv s /\ edges t = edges s /\ faces t = compact (fdel s) (faces s) /\ cells t = map (map (rank2 (fdel s))) (cells s) /\
  vdel t = vdel s /\ edel t = edel s /\ fdel t = compact (fdel s) (fdel s) /\ cdel t = cdel s /\
  (vbu t = vbu s /\ ebu t = ebu s /\ fbu t = fbu s) /\
  (pf t = map (pcompact (fdel s)) (pf s) /\ phf t = map (pcompact (dbl (fdel s))) (phf s) /\
   pv t = pv s /\ pe t = pe s /\ phe t = phe s /\ pc t = pc s /\ pm t = pm s) /\
  (faces_simple s -> faces_simple t).
Proof.
  unfold pass_f. induction n as [|n IH]; intros s D F I NC Hn Hi; cbv zeta.
  - rewrite gc_pass_0.
    assert (NF : forall i, nth i (fdel s) false = false) by (intros i; apply (Hi i); lia).
    rewrite !compact_all_false, !map_pcompact_all_false, map_rank2_all_false by (try apply dbl_all_false; exact NF).
    refine (conj I (conj D (conj F (conj NC (conj _ _))))); [exact NF|]. splits; auto.
  - rewrite gc_pass_S. destruct (f_deleted s n) eqn:Hd.
    + assert (Hlt : n < nf s) by lia.
      pose proof (gc_face_step s n D F I NC Hlt Hd) as St. pose proof (gc_face_step_props s n D F) as Pr. cbv zeta in Pr.
      fold (clr_f n s) in *. set (s1 := delete_face_core n (clr_f n s)) in *.
      destruct St as (I1 & D1 & F1 & NC1 & a1 & a2 & a3 & a4 & a5 & a6 & a7 & a8 & (m1 & m2 & m3) & FS1).
      destruct Pr as (q1 & q2 & q3 & q4 & q5 & q6 & q7).
      assert (Hn1 : n <= nf s1) by (unfold nf; rewrite a3, remove_nth_length by exact Hlt; fold (nf s); lia).
      assert (Hi1 : forall i, n <= i -> f_deleted s1 i = false).
      { intros i Hge. unfold f_deleted. rewrite a7, flag_after_remove, unshift1_ge by exact Hge. apply (Hi (S i)). lia. }
      specialize (IH s1 D1 F1 I1 NC1 Hn1 Hi1). cbv zeta in IH.
      destruct IH as (It & Dt & Ft & NCt & NFt & b1 & b2 & b3 & b4 & b5 & b6 & b7 & b8 & (n1 & n2 & n3) & (r1 & r2 & r3 & r4 & r5 & r6 & r7) & FSt).
      assert (Hd' : nth n (fdel s) false = true) by exact Hd.
      refine (conj It (conj Dt (conj Ft (conj NCt (conj NFt _))))).
      rewrite b1, b2, b3, b4, b5, b6, b7, b8, n1, n2, n3, r1, r2, r3, r4, r5, r6, r7.
      rewrite a1, a2, a3, a4, a5, a6, a7, a8, m1, m2, m3, q1, q2, q3, q4, q5, q6, q7.
      rewrite !compact_remove, map_pcompact_remove, map_pcompact_remove2, map_rank2_remove by exact Hd'. splits; auto.
    + apply (IH s D F I NC); [lia|]. intros i Hge. destruct (Nat.eq_dec i n) as [->|N]; [exact Hd|apply Hi; lia].
Qed.
