(* Kernel3/FastPublic.v -- C02, immediate FAST mode: delete_vertex (the longest closure chain) in the form asked for by the
   property text: there are bijections from the surviving old indices of each kind onto the new index range such that
     - every survivor has its old definition renamed through them (renumbered, Kernel3/FastModes.v),
     - every deletion flag and every property value of a survivor follows the same maps (half-entity properties: the lifted maps),
     - counters and mesh properties are untouched, the size invariant and shift_inv2 hold again.
   The maps are fren n victims for the brute-force closure lists of Kernel/Closure.v. *)
From Coq Require Import ZArith Lia Bool Arith List ZifyNat ZifyBool.
From OVM Require Import Base.ListX Base.ListLemmas Base.ListLemmas2 Kernel.State Kernel.Ops Kernel.Mirror Kernel.Construct
                        Kernel.Recompute Kernel.Closure Kernel.ExactInv Kernel.SwapEffects Kernel.SwapInvol Kernel.Sizes Kernel.PropLaws
                        Kernel.ShiftFace Kernel.ShiftEdge Kernel.ShiftVertex Kernel.ShiftCompose
                        Kernel3.FastDefs Kernel3.FastBase Kernel3.FastMany Kernel3.FastPhases Kernel3.FastArrays Kernel3.FastModes Kernel3.FastModes2.
Import ListNotations.
Ltac Zify.zify_post_hook ::= Z.div_mod_to_equations.
Local Open Scope nat_scope.

Theorem fast_delete_vertex_arrays v s : deferred s = false -> fast s = true -> shift_inv2 s -> sized s -> v < nv s ->
  let es := edges_at_vertex s v in let fs := faces_at_edges s es in let cs := cells_at_faces s fs in
  let s' := delete_vertex v s in
  varr s' = (fast_remove false v (vdel s), map (pfast v) (pv s)) /\
  earr s' = (fast_remove_many false es (edel s), map (pfast_many es) (pe s), map (pfast2_many es) (phe s)) /\
  farr s' = (fast_remove_many false fs (fdel s), map (pfast_many fs) (pf s), map (pfast2_many fs) (phf s)) /\
  carr s' = (fast_remove_many false cs (cdel s), map (pfast_many cs) (pc s)) /\
  marr s' = marr s /\ sized s'.
Proof.
  intros D F I Z Hv. cbv zeta. destruct (closure_vertex_ok v s I Hv) as (((_ & _) & (Se & Re) & (Sf & Rf) & (Sc & Rc)) & _ & _).
  pose proof I as ((_ & VO & EO & FO & _) & _).
  pose proof (delete_vertex_arrays_fast v s (conj D F) Z Hv) as A. cbv zeta in A.
  rewrite (incident_edges_cache_is_scan s v VO Hv) in A.
  rewrite (incident_faces_cache_is_scan s _ EO) in A by (intros x Hx; exact (In_edges_at_vertex_lt s v x Hx)).
  rewrite (incident_cells_cache_is_scan s _ FO) in A by (intros x Hx; exact (In_faces_at_edges_lt s _ x Hx)).
  destruct (A Se Sf Sc Re Rf Rc) as (a1 & a2 & a3 & a4 & a5 & a6 & _). exact (conj a1 (conj a2 (conj a3 (conj a4 (conj a5 a6))))).
Qed.

Theorem fast_delete_vertex_survivors v s : deferred s = false -> fast s = true -> shift_inv2 s -> v < nv s ->
  let es := edges_at_vertex s v in let fs := faces_at_edges s es in let cs := cells_at_faces s fs in
  let s' := delete_vertex v s in
  renumbered s s' [v] es fs cs (fren (nv s) [v]) (fren (ne s) es) (fren (nf s) fs) (fren (nc s) cs) /\ shift_inv2 s' /\
  deferred s' = false /\ fast s' = true.
Proof.
  intros D F I Hv. cbv zeta. destruct (closure_vertex_ok v s I Hv) as (V & _ & _).
  pose proof (fast_delete_vertex v s D F I Hv) as P. cbv zeta in P. destruct P as (If & Df & Ff & p1 & p2 & p3 & p4).
  split; [|exact (conj If (conj Df Ff))]. apply renumbered_fast; [exact V|].
  split; [exact p1|]. split; [|split; [exact p3|exact p4]]. rewrite p2. apply map_ext. intros p. symmetry. apply frenp_one.
Qed.

(* ---------------------------------------------------------------- values follow the maps *)

Definition dpa : parray := {| pdef := 0%Z; pdata := [] |}.

Lemma pval_dpa k : pval dpa k = 0%Z.
Proof. unfold pval, dpa. cbn [pdata pdef]. destruct k; reflexivity. Qed.

Lemma pval_nth_map_many n cs ps k i : psized n ps -> strictly_sorted cs -> (forall c, In c cs -> c < n) -> i < n -> ~ In i cs ->
  pval (nth k (map (pfast_many cs) ps) dpa) (fren n cs i) = pval (nth k ps dpa) i.
Proof.
  intros Z Ss R Hi Ni. destruct (Nat.lt_ge_cases k (length ps)) as [Hk|Hk].
  - rewrite (nth_map_in _ _ _ dpa) by exact Hk. apply pval_pfast_many; try assumption. apply Z. apply nth_In. exact Hk.
  - rewrite !nth_overflow by (rewrite ?map_length; exact Hk). rewrite !pval_dpa. reflexivity.
Qed.

Lemma pval_nth_map_many2 n cs ps k x : psized (2 * n) ps -> strictly_sorted cs -> (forall c, In c cs -> c < n) -> x / 2 < n -> ~ In (x / 2) cs ->
  pval (nth k (map (pfast2_many cs) ps) dpa) (lift2 (fren n cs) x) = pval (nth k ps dpa) x.
Proof.
  intros Z Ss R Hi Ni. rewrite <- fren2_lift. destruct (Nat.lt_ge_cases k (length ps)) as [Hk|Hk].
  - rewrite (nth_map_in _ _ _ dpa) by exact Hk. apply pval_pfast2_many; try assumption. apply Z. apply nth_In. exact Hk.
  - rewrite !nth_overflow by (rewrite ?map_length; exact Hk). rewrite !pval_dpa. reflexivity.
Qed.

Lemma pfast_is_many h p : pfast h p = pfast_many [h] p.
Proof. reflexivity. Qed.

Definition values_follow (s s' : mesh) (vs es fs cs : list nat) (sv se sf sc : nat -> nat) : Prop :=
  (forall k i, i < nv s -> ~ In i vs -> pval (nth k (pv s') dpa) (sv i) = pval (nth k (pv s) dpa) i /\ v_deleted s' (sv i) = v_deleted s i) /\
  (forall k i, i < ne s -> ~ In i es -> pval (nth k (pe s') dpa) (se i) = pval (nth k (pe s) dpa) i /\ e_deleted s' (se i) = e_deleted s i) /\
  (forall k i, i < nf s -> ~ In i fs -> pval (nth k (pf s') dpa) (sf i) = pval (nth k (pf s) dpa) i /\ f_deleted s' (sf i) = f_deleted s i) /\
  (forall k i, i < nc s -> ~ In i cs -> pval (nth k (pc s') dpa) (sc i) = pval (nth k (pc s) dpa) i /\ c_deleted s' (sc i) = c_deleted s i) /\
  (forall k h, h / 2 < ne s -> ~ In (h / 2) es -> pval (nth k (phe s') dpa) (lift2 se h) = pval (nth k (phe s) dpa) h) /\
  (forall k h, h / 2 < nf s -> ~ In (h / 2) fs -> pval (nth k (phf s') dpa) (lift2 sf h) = pval (nth k (phf s) dpa) h) /\
  pm s' = pm s /\ (ndv s' = ndv s /\ nde s' = nde s /\ ndf s' = ndf s /\ ndc s' = ndc s).

Theorem fast_delete_vertex_values v s : deferred s = false -> fast s = true -> shift_inv2 s -> sized s -> v < nv s ->
  let es := edges_at_vertex s v in let fs := faces_at_edges s es in let cs := cells_at_faces s fs in
  let s' := delete_vertex v s in
  values_follow s s' [v] es fs cs (fren (nv s) [v]) (fren (ne s) es) (fren (nf s) fs) (fren (nc s) cs) /\ sized s'.
Proof.
  intros D F I Z Hv. cbv zeta. destruct (closure_vertex_ok v s I Hv) as (((Sv & Rv) & (Se & Re) & (Sf & Rf) & (Sc & Rc)) & _ & _).
  pose proof (fast_delete_vertex_arrays v s D F I Z Hv) as A. cbv zeta in A. destruct A as (a1 & a2 & a3 & a4 & a5 & Z').
  set (s' := delete_vertex v s) in *.
  unfold varr in a1. injection a1 as v1 v2. unfold earr in a2. injection a2 as e1 e2 e3. unfold farr in a3. injection a3 as f1 f2 f3.
  unfold carr in a4. injection a4 as c1 c2. unfold marr in a5. injection a5 as m1 m2 m3 m4 m5.
  pose proof (proj2 (szd_sized s) Z) as (Lv & Le & Lf & Lc & Pv & Pe & Phe & Pf & Phf & Pc & Pm).
  split; [|exact Z']. unfold values_follow. split; [|split; [|split; [|split; [|split; [|split; [|split]]]]]].
  - intros k i Hi Ni. split.
    + rewrite v2. replace (map (pfast v) (pv s)) with (map (pfast_many [v]) (pv s)) by reflexivity. apply pval_nth_map_many; assumption.
    + unfold v_deleted. rewrite v1. replace (fast_remove false v (vdel s)) with (fast_remove_many false [v] (vdel s)) by reflexivity.
      rewrite <- Lv. apply (fast_run_survivors false [v] (vdel s)); rewrite ?Lv; assumption.
  - intros k i Hi Ni. split.
    + rewrite e2. apply pval_nth_map_many; assumption.
    + unfold e_deleted. rewrite e1. unfold ne in *. rewrite <- Le. apply (fast_run_survivors false _ (edel s)); rewrite ?Le; assumption.
  - intros k i Hi Ni. split.
    + rewrite f2. apply pval_nth_map_many; assumption.
    + unfold f_deleted. rewrite f1. unfold nf in *. rewrite <- Lf. apply (fast_run_survivors false _ (fdel s)); rewrite ?Lf; assumption.
  - intros k i Hi Ni. split.
    + rewrite c2. apply pval_nth_map_many; assumption.
    + unfold c_deleted. rewrite c1. unfold nc in *. rewrite <- Lc. apply (fast_run_survivors false _ (cdel s)); rewrite ?Lc; assumption.
  - intros k h Hh Nh. rewrite e3. apply pval_nth_map_many2; assumption.
  - intros k h Hh Nh. rewrite f3. apply pval_nth_map_many2; assumption.
  - exact m1.
  - repeat split; assumption.
Qed.
