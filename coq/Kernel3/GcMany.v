(* Kernel3/GcMany.v -- C04, NON-FAST mode: collecting after a LIST of deferred public deletions gives the same mesh as performing
   the deletions immediately, one after the other, each handle translated to the numbering of the immediate run at that moment
   (the rank of the handle among the live entities of the deferred run).
     - the immediate public deletions depend on the definitions and property arrays only (not on the caches kept);
     - run_def / run_imm and the theorem gc_many. *)
From Coq Require Import ZArith Lia Bool Arith List ZifyNat ZifyBool Permutation.
From OVM Require Import Base.ListX Base.ListLemmas Kernel.State Kernel.Ops Kernel.Mirror Kernel.Recompute Kernel.Closure Kernel.ExactInv
                        Kernel.DeferredDelete Kernel.SwapInvol Kernel.Sizes
                        Kernel2.ListAux Kernel2.ReorderExact Kernel2.ExactBase Kernel2.ExactHistory
                        Kernel.ShiftFace Kernel.ShiftEdge Kernel.ShiftVertex Kernel.ShiftCompose
                        Kernel3.GcDefs Kernel3.GcList Kernel3.GcInv Kernel3.GcMain Kernel3.GcDeferred Kernel3.GcEquiv Kernel3.GcDeferredAny
                        Kernel3.GcImmProps Kernel3.GcHist Kernel3.GcTrack Kernel3.GcTwoStage Kernel3.GcCommute Kernel3.GcCommute2.
Import ListNotations.
Ltac Zify.zify_post_hook ::= Z.div_mod_to_equations.
Local Open Scope nat_scope.

(* ================================================================== immediate deletions read definitions and properties only *)

Definition imm_ok (s : mesh) : Prop := shift_inv2 s /\ deferred s = false /\ fast s = false.

Section Indep.
Context (a b : mesh) (Ia : imm_ok a) (Ib : imm_ok b) (E : same_mesh a b).

Lemma indep_closures v : edges_at_vertex b v = edges_at_vertex a v /\
  (forall es, faces_at_edges b es = faces_at_edges a es) /\ (forall fs, cells_at_faces b fs = cells_at_faces a fs).
Proof.
  destruct E as (_ & e2 & e3 & e4 & _). destruct Ia as [[(NFa & _) _] _]. destruct Ib as [[(NFb & _) _] _].
  apply closure_same_defs; auto.
Qed.

Lemma indep_props : pv b = pv a /\ pe b = pe a /\ phe b = phe a /\ pf b = pf a /\ phf b = phf a /\ pc b = pc a /\ pm b = pm a.
Proof.
  destruct E as (_ & _ & _ & _ & ep). pose proof (ep KV) as p1. pose proof (ep KE) as p2. pose proof (ep KHE) as p3. pose proof (ep KF) as p4.
  pose proof (ep KHF) as p5. pose proof (ep KC) as p6. pose proof (ep KM) as p7. cbn [props] in *. splits; symmetry; assumption.
Qed.

Theorem indep_vertex v : v < nv a -> same_mesh (delete_vertex v a) (delete_vertex v b).
Proof.
  intros Hv. destruct Ia as (I1 & D1 & F1). destruct Ib as (I2 & D2 & F2). pose proof E as (e1 & e2 & e3 & e4 & _).
  assert (Hv' : v < nv b) by (rewrite <- e1; exact Hv).
  pose proof (delete_vertex_immediate v a D1 F1 I1 Hv) as A. pose proof (delete_vertex_immediate v b D2 F2 I2 Hv') as B. cbv zeta in A, B.
  destruct (indep_closures v) as (c1 & c2 & c3). rewrite c1, !c2, !c3 in B.
  destruct A as (_ & _ & _ & a1 & a2 & a3 & a4). destruct B as (_ & _ & _ & b1 & b2 & b3 & b4).
  pose proof (delete_vertex_props_raw v a D1 F1) as P. pose proof (delete_vertex_props_raw v b D2 F2) as Q. cbv zeta in P, Q.
  pose proof I1 as ((_ & VO1 & EO1 & FO1 & _) & _). pose proof I2 as ((_ & VO2 & EO2 & FO2 & _) & _).
  rewrite (incident_edges_cache_is_scan a v VO1 Hv) in P. rewrite (incident_edges_cache_is_scan b v VO2 Hv'), c1 in Q.
  rewrite (incident_faces_cache_is_scan a _ EO1) in P by (intros x Hx; exact (In_edges_at_vertex_lt a v x Hx)).
  rewrite (incident_faces_cache_is_scan b _ EO2), c2 in Q by (intros x Hx; unfold ne; rewrite <- e2; exact (In_edges_at_vertex_lt a v x Hx)).
  rewrite (incident_cells_cache_is_scan a _ FO1) in P by (intros x Hx; exact (In_faces_at_edges_lt a _ x Hx)).
  rewrite (incident_cells_cache_is_scan b _ FO2), c3 in Q by (intros x Hx; unfold nf; rewrite <- e3; exact (In_faces_at_edges_lt a _ x Hx)).
  destruct indep_props as (r1 & r2 & r3 & r4 & r5 & r6 & r7). rewrite r1, r2, r3, r4, r5, r6, r7 in Q.
  destruct P as (p1 & p2 & p3 & p4 & p5 & p6 & p7). destruct Q as (q1 & q2 & q3 & q4 & q5 & q6 & q7).
  unfold same_mesh. rewrite a1, a2, a3, a4, b1, b2, b3, b4, e1, e2, e3, e4. splits; try reflexivity.
  intros k. destruct k; cbn [props]; congruence.
Qed.

Theorem indep_edge x : x < ne a -> same_mesh (delete_edge x a) (delete_edge x b).
Proof.
  intros Hx. destruct Ia as (I1 & D1 & F1). destruct Ib as (I2 & D2 & F2). pose proof E as (e1 & e2 & e3 & e4 & _).
  assert (Hx' : x < ne b) by (unfold ne; rewrite <- e2; exact Hx).
  pose proof (delete_edge_immediate x a D1 F1 I1 Hx) as A. pose proof (delete_edge_immediate x b D2 F2 I2 Hx') as B. cbv zeta in A, B.
  destruct (indep_closures 0) as (_ & c2 & c3). rewrite !c2, !c3 in B.
  destruct A as (_ & _ & _ & a1 & a2 & a3 & a4). destruct B as (_ & _ & _ & b1 & b2 & b3 & b4).
  pose proof (delete_edge_props_raw x a D1 F1) as P. pose proof (delete_edge_props_raw x b D2 F2) as Q. cbv zeta in P, Q.
  pose proof I1 as ((_ & VO1 & EO1 & FO1 & _) & _). pose proof I2 as ((_ & VO2 & EO2 & FO2 & _) & _).
  rewrite (incident_faces_cache_is_scan a _ EO1) in P by (intros y [<-|[]]; exact Hx).
  rewrite (incident_faces_cache_is_scan b _ EO2), c2 in Q by (intros y [<-|[]]; exact Hx').
  rewrite (incident_cells_cache_is_scan a _ FO1) in P by (intros y Hy; exact (In_faces_at_edges_lt a _ y Hy)).
  rewrite (incident_cells_cache_is_scan b _ FO2), c3 in Q by (intros y Hy; unfold nf; rewrite <- e3; exact (In_faces_at_edges_lt a _ y Hy)).
  destruct indep_props as (r1 & r2 & r3 & r4 & r5 & r6 & r7). rewrite r1, r2, r3, r4, r5, r6, r7 in Q.
  destruct P as (p1 & p2 & p3 & p4 & p5 & p6 & p7). destruct Q as (q1 & q2 & q3 & q4 & q5 & q6 & q7).
  unfold same_mesh. rewrite a1, a2, a3, a4, b1, b2, b3, b4, e1, e2, e3, e4. splits; try reflexivity.
  intros k. destruct k; cbn [props]; congruence.
Qed.

Theorem indep_face x : x < nf a -> same_mesh (delete_face x a) (delete_face x b).
Proof.
  intros Hx. destruct Ia as (I1 & D1 & F1). destruct Ib as (I2 & D2 & F2). pose proof E as (e1 & e2 & e3 & e4 & _).
  assert (Hx' : x < nf b) by (unfold nf; rewrite <- e3; exact Hx).
  pose proof (delete_face_immediate_full x a D1 F1 I1 Hx) as A. pose proof (delete_face_immediate_full x b D2 F2 I2 Hx') as B. cbv zeta in A, B.
  destruct (indep_closures 0) as (_ & _ & c3). rewrite !c3 in B.
  destruct A as (_ & _ & _ & a1 & a2 & a3 & a4). destruct B as (_ & _ & _ & b1 & b2 & b3 & b4).
  pose proof (delete_face_props_raw x a D1 F1) as P. pose proof (delete_face_props_raw x b D2 F2) as Q. cbv zeta in P, Q.
  pose proof I1 as ((_ & VO1 & EO1 & FO1 & _) & _). pose proof I2 as ((_ & VO2 & EO2 & FO2 & _) & _).
  rewrite (incident_cells_cache_is_scan a _ FO1) in P by (intros y [<-|[]]; exact Hx).
  rewrite (incident_cells_cache_is_scan b _ FO2), c3 in Q by (intros y [<-|[]]; exact Hx').
  destruct indep_props as (r1 & r2 & r3 & r4 & r5 & r6 & r7). rewrite r1, r2, r3, r4, r5, r6, r7 in Q.
  destruct P as (p1 & p2 & p3 & p4 & p5 & p6 & p7). destruct Q as (q1 & q2 & q3 & q4 & q5 & q6 & q7).
  unfold same_mesh. rewrite a1, a2, a3, a4, b1, b2, b3, b4, e1, e2, e3, e4. splits; try reflexivity.
  intros k. destruct k; cbn [props]; congruence.
Qed.

Theorem indep_cell x : same_mesh (delete_cell x a) (delete_cell x b).
Proof.
  destruct Ia as (I1 & D1 & F1). destruct Ib as (I2 & D2 & F2). pose proof E as (e1 & e2 & e3 & e4 & _).
  pose proof (delete_cell_core_view x a D1 F1) as A. pose proof (delete_cell_core_view x b D2 F2) as B. cbv zeta in A, B.
  destruct A as (a1 & a2 & a3 & a4 & _). destruct B as (b1 & b2 & b3 & b4 & _).
  pose proof (delete_cell_props_raw x a D1 F1) as P. pose proof (delete_cell_props_raw x b D2 F2) as Q. cbv zeta in P, Q.
  destruct indep_props as (r1 & r2 & r3 & r4 & r5 & r6 & r7). rewrite r1, r2, r3, r4, r5, r6, r7 in Q.
  destruct P as (p1 & p2 & p3 & p4 & p5 & p6 & p7). destruct Q as (q1 & q2 & q3 & q4 & q5 & q6 & q7).
  unfold delete_cell in *. unfold same_mesh. rewrite a1, a2, a3, a4, b1, b2, b3, b4, e1, e2, e3, e4. splits; try reflexivity.
  intros k. destruct k; cbn [props]; congruence.
Qed.
End Indep.

(* the immediate deletions keep imm_ok and sizes *)
Lemma imm_ok_delete_vertex s v : imm_ok s -> v < nv s -> imm_ok (delete_vertex v s).
Proof. intros (I & D & F) Hv. pose proof (delete_vertex_immediate v s D F I Hv) as A. cbv zeta in A. destruct A as (a & b & c & _). exact (conj a (conj b c)). Qed.
Lemma imm_ok_delete_edge s e : imm_ok s -> e < ne s -> imm_ok (delete_edge e s).
Proof. intros (I & D & F) Hv. pose proof (delete_edge_immediate e s D F I Hv) as A. cbv zeta in A. destruct A as (a & b & c & _). exact (conj a (conj b c)). Qed.
Lemma imm_ok_delete_face s f : imm_ok s -> f < nf s -> imm_ok (delete_face f s).
Proof. intros (I & D & F) Hv. pose proof (delete_face_immediate_full f s D F I Hv) as A. cbv zeta in A. destruct A as (a & b & c & _). exact (conj a (conj b c)). Qed.
Lemma imm_ok_delete_cell s c : imm_ok s -> c < nc s -> imm_ok (delete_cell c s).
Proof.
  intros (I & D & F) Hc. split; [apply shift_inv2_delete_cell_core; assumption|].
  pose proof (delete_cell_core_view c s D F) as V. cbv zeta in V. destruct V as (_&_&_&_&_&_&_&_&_&_&_&_&(_ & _ & _ & m4 & m5)). exact (conj m4 m5).
Qed.

(* ================================================================== lists of deletions *)

Inductive delop := DV (v : nat) | DE (e : nat) | DF (f : nat) | DC (c : nat).

Definition del_apply (o : delop) (s : mesh) : mesh :=
  match o with DV v => delete_vertex v s | DE e => delete_edge e s | DF f => delete_face f s | DC c => delete_cell c s end.
Definition del_live (o : delop) (s : mesh) : bool :=
  match o with DV v => live_v s v | DE e => live_e s e | DF f => live_f s f | DC c => live_c s c end.
(* the handle the same entity has in the collected (= immediately updated) mesh *)
Definition del_rank (o : delop) (d : mesh) : delop :=
  match o with DV v => DV (rank (vdel d) v) | DE e => DE (rank (edel d) e) | DF f => DF (rank (fdel d) f) | DC c => DC (rank (cdel d) c) end.

(* the deferred run, and the immediate run driven by it *)
Fixpoint run_def (ops : list delop) (d : mesh) : mesh :=
  match ops with [] => d | o :: r => run_def r (del_apply o d) end.
Fixpoint run_imm (ops : list delop) (d u : mesh) : mesh :=
  match ops with [] => u | o :: r => run_imm r (del_apply o d) (del_apply (del_rank o d) u) end.
Fixpoint all_live (ops : list delop) (d : mesh) : bool :=
  match ops with [] => true | o :: r => del_live o d && all_live r (del_apply o d) end.

Definition def_ok (d : mesh) : Prop := gc_ready d /\ fast d = false /\ sized d /\ faces_simple d.

Lemma def_ok_step o d : def_ok d -> del_live o d = true -> def_ok (del_apply o d).
Proof.
  intros (R & F & Z & FS) L. pose proof (base_ok d R) as (D & _). destruct o as [v|e|f|c]; cbn [del_apply del_live] in *.
  - apply live_v_parts in L. destruct (ready_after_delete_vertex d R FS v (proj1 L)) as [R' FS'].
    split; [exact R'|]. split; [exact (dstep_fast_false _ _ _ _ _ _ (delete_vertex_deferred v d D) F)|]. split; [|exact FS'].
    apply szd_sized. apply szd_delete_vertex; [apply szd_sized; exact Z|exact (proj1 L)].
  - apply live_e_lt in L. destruct (ready_after_delete_edge d R FS e (proj1 L) (proj2 L)) as [R' FS'].
    split; [exact R'|]. split; [exact (dstep_fast_false _ _ _ _ _ _ (delete_edge_deferred e d D) F)|]. split; [|exact FS'].
    apply szd_sized. apply szd_delete_edge. apply szd_sized. exact Z.
  - apply live_f_lt in L. destruct (ready_after_delete_face d R FS f (proj1 L) (proj2 L)) as [R' FS'].
    split; [exact R'|]. split; [exact (dstep_fast_false _ _ _ _ _ _ (delete_face_deferred f d D) F)|]. split; [|exact FS'].
    apply szd_sized. apply szd_delete_face. apply szd_sized. exact Z.
  - apply live_c_lt in L. destruct (ready_after_delete_cell d R FS c (proj1 L) (proj2 L)) as [R' FS'].
    split; [exact R'|]. split; [exact (dstep_fast_false _ _ _ _ _ _ (delete_cell_deferred c d D) F)|]. split; [|exact FS'].
    apply szd_sized. apply szd_delete_cell. apply szd_sized. exact Z.
Qed.

Lemma imode_ok t : shift_inv2 t -> imm_ok (imode t).
Proof. intros I. split; [exact (shift_inv2_imode t I)|split; reflexivity]. Qed.
Lemma same_mesh_imode t : same_mesh (imode t) t.
Proof. unfold same_mesh. splits; reflexivity. Qed.

(* one step: the immediate run stays in step with the collected deferred run *)
Lemma many_step o d u : def_ok d -> del_live o d = true -> imm_ok u -> same_mesh (collect_garbage d) u ->
  imm_ok (del_apply (del_rank o d) u) /\ same_mesh (collect_garbage (del_apply o d)) (del_apply (del_rank o d) u).
Proof.
  intros (R & F & Z & FS) L Iu Eu. pose proof (colt d R F Z FS) as Ct. cbv zeta in Ct. destruct Ct as (_ & It & _).
  destruct (col_counts d R F) as (n1 & n2 & n3 & n4). pose proof Eu as (u1 & u2 & u3 & u4 & _).
  pose proof (imode_ok _ It) as Ii.
  assert (Ei : same_mesh (imode (collect_garbage d)) u) by (apply (same_mesh_trans _ (collect_garbage d)); [apply same_mesh_imode|exact Eu]).
  destruct o as [v|e|f|c]; cbn [del_apply del_live del_rank] in *.
  - apply live_v_parts in L. destruct L as [Hv Lv].
    assert (Hr : rank (vdel d) v < nv (imode (collect_garbage d))) by (change (rank (vdel d) v < nv (collect_garbage d)); rewrite n1; apply rank_lt; assumption).
    split; [apply imm_ok_delete_vertex; [exact Iu|]; rewrite <- u1; exact Hr|].
    apply (same_mesh_trans _ _ _ (commute_vertex d R F Z FS v Hv Lv)). exact (indep_vertex _ _ Ii Iu Ei _ Hr).
  - apply live_e_lt in L. destruct L as [Hv Lv].
    assert (Hr : rank (edel d) e < ne (imode (collect_garbage d))) by (change (rank (edel d) e < ne (collect_garbage d)); rewrite n2; apply rank_lt; assumption).
    split; [apply imm_ok_delete_edge; [exact Iu|]; unfold ne; rewrite <- u2; exact Hr|].
    apply (same_mesh_trans _ _ _ (commute_edge d R F Z FS e Hv Lv)). exact (indep_edge _ _ Ii Iu Ei _ Hr).
  - apply live_f_lt in L. destruct L as [Hv Lv].
    assert (Hr : rank (fdel d) f < nf (imode (collect_garbage d))) by (change (rank (fdel d) f < nf (collect_garbage d)); rewrite n3; apply rank_lt; assumption).
    split; [apply imm_ok_delete_face; [exact Iu|]; unfold nf; rewrite <- u3; exact Hr|].
    apply (same_mesh_trans _ _ _ (commute_face d R F Z FS f Hv Lv)). exact (indep_face _ _ Ii Iu Ei _ Hr).
  - apply live_c_lt in L. destruct L as [Hv Lv].
    assert (Hr : rank (cdel d) c < nc (imode (collect_garbage d))) by (change (rank (cdel d) c < nc (collect_garbage d)); rewrite n4; apply rank_lt; assumption).
    split; [apply imm_ok_delete_cell; [exact Iu|]; unfold nc; rewrite <- u4; exact Hr|].
    apply (same_mesh_trans _ _ _ (commute_cell d R F Z FS c Hv Lv)). exact (indep_cell _ _ Ii Iu Ei _).
Qed.

Theorem gc_many_from ops : forall d u, def_ok d -> all_live ops d = true -> imm_ok u -> same_mesh (collect_garbage d) u ->
  same_mesh (collect_garbage (run_def ops d)) (run_imm ops d u) /\ imm_ok (run_imm ops d u).
Proof.
  induction ops as [|o r IH]; intros d u Od L Iu Eu; cbn [run_def run_imm all_live] in *; [exact (conj Eu Iu)|].
  apply andb_true_iff in L. destruct L as [L1 L2]. destruct (many_step o d u Od L1 Iu Eu) as [Iu' Eu'].
  apply IH; [apply def_ok_step; assumption|exact L2|exact Iu'|exact Eu'].
Qed.

(* collecting after a list of deferred deletions = performing the deletions immediately on the collected mesh *)
Theorem gc_many ops d : def_ok d -> all_live ops d = true ->
  same_mesh (collect_garbage (run_def ops d)) (run_imm ops d (imode (collect_garbage d))) /\
  shift_inv2 (run_imm ops d (imode (collect_garbage d))).
Proof.
  intros Od L. pose proof Od as (R & F & Z & FS). pose proof (colt d R F Z FS) as Ct. cbv zeta in Ct. destruct Ct as (_ & It & _).
  destruct (gc_many_from ops d (imode (collect_garbage d)) Od L (imode_ok _ It) (same_mesh_sym _ _ (same_mesh_imode _))) as [A B].
  exact (conj A (proj1 B)).
Qed.
