(* Kernel3/FastModes.v -- C02_mode_independent: the result of a public deletion in immediate FAST mode and in immediate
   INDEX-SHIFTING mode are renumberings of the SAME surviving set with the SAME definitions.

     renumbered s s' vs es fs cs sv se sf sc :=
        s' has exactly the entities of s outside the victim lists vs/es/fs/cs (counts), sv/se/sf/sc are BIJECTIONS from the surviving
        old indices of each kind onto the new index range, and every survivor has its old definition with every stored handle renamed
        through the bijection of the kind below (half-handles: lift2).

   - fast mode:        the bijections are fren n victims (composed transpositions with the current last index)   (renumbered_fast)
   - index shifting:   the bijections are shift1_many victims (order preserving)                                  (renumbered_shift)
   - both, for delete_cell / delete_face / delete_edge / delete_vertex from ONE state (only the fast flag differs), with the SAME victim
     lists -- the brute-force upward closure of Kernel/Closure.v -- hence the same counts                         (mode_independent_..., Kernel3/FastModes2.v)
   - and explicitly: there are bijections pi of the new index ranges with  def_fast (pi j) = rename pi (def_shift j)   (renumbered_iso). *)
From Coq Require Import ZArith Lia Bool Arith List ZifyNat ZifyBool.
From OVM Require Import Base.ListX Base.ListLemmas Base.ListLemmas2 Kernel.State Kernel.Ops Kernel.Mirror Kernel.Construct
                        Kernel.Recompute Kernel.Closure Kernel.ExactInv Kernel.SwapEffects Kernel.SwapInvol
                        Kernel.ShiftFace Kernel.ShiftEdge Kernel.ShiftVertex Kernel.ShiftCompose
                        Kernel3.FastDefs Kernel3.FastBase Kernel3.FastCell Kernel3.FastFace Kernel3.FastEdge Kernel3.FastVertex Kernel3.FastMany Kernel3.FastPhases.
Import ListNotations.
Ltac Zify.zify_post_hook ::= Z.div_mod_to_equations.
Local Open Scope nat_scope.

(* ================================================================== the notion *)

Definition bij_on (n : nat) (dead : list nat) (sg : nat -> nat) : Prop :=
  (forall i, i < n -> ~ In i dead -> sg i < n - length dead) /\
  (forall i i', i < n -> i' < n -> ~ In i dead -> ~ In i' dead -> sg i = sg i' -> i = i') /\
  (forall j, j < n - length dead -> exists i, i < n /\ ~ In i dead /\ sg i = j).

Definition renumbered (s s' : mesh) (vs es fs cs : list nat) (sv se sf sc : nat -> nat) : Prop :=
  (nv s' = nv s - length vs /\ ne s' = ne s - length es /\ nf s' = nf s - length fs /\ nc s' = nc s - length cs) /\
  (bij_on (nv s) vs sv /\ bij_on (ne s) es se /\ bij_on (nf s) fs sf /\ bij_on (nc s) cs sc) /\
  (forall e, e < ne s -> ~ In e es -> edge_at s' (se e) = (sv (fst (edge_at s e)), sv (snd (edge_at s e)))) /\
  (forall f, f < nf s -> ~ In f fs -> face_at s' (sf f) = map (lift2 se) (face_at s f)) /\
  (forall c, c < nc s -> ~ In c cs -> cell_at s' (sc c) = map (lift2 sf) (cell_at s c)).

(* the survivors only refer to survivors (true of an upward closure: closure_closed below) *)
Definition closed_under (s : mesh) (vs es fs : list nat) : Prop :=
  (forall e, e < ne s -> ~ In e es -> (fst (edge_at s e) < nv s /\ ~ In (fst (edge_at s e)) vs) /\ (snd (edge_at s e) < nv s /\ ~ In (snd (edge_at s e)) vs)) /\
  (forall f, f < nf s -> ~ In f fs -> forall h, In h (face_at s f) -> h / 2 < ne s /\ ~ In (h / 2) es) /\
  (forall c, c < nc s -> forall hf, In hf (cell_at s c) -> hf / 2 < nf s) .

Definition victims_ok (s : mesh) (vs es fs cs : list nat) : Prop :=
  (strictly_sorted vs /\ forall x, In x vs -> x < nv s) /\ (strictly_sorted es /\ forall x, In x es -> x < ne s) /\
  (strictly_sorted fs /\ forall x, In x fs -> x < nf s) /\ (strictly_sorted cs /\ forall x, In x cs -> x < nc s).

Lemma nth_map_in {A B} (f : A -> B) l k dA dB : k < length l -> nth k (map f l) dB = f (nth k l dA).
Proof. intros H. rewrite (nth_indep _ dB (f dA)) by (rewrite map_length; exact H). apply map_nth. Qed.

(* ================================================================== the two families of bijections *)

Lemma bij_on_fren n cs : strictly_sorted cs -> (forall c, In c cs -> c < n) -> bij_on n cs (fren n cs).
Proof.
  intros Ss R. assert (R' : forall c, In c cs -> c < length (seq 0 n)) by (intros c Hc; rewrite seq_length; apply R; exact Hc).
  destruct (fast_run_survivors 0 cs (seq 0 n) Ss R') as (_ & _ & Sur & Inj). rewrite seq_length in Sur, Inj.
  split; [intros i Hi Ni; apply fren_lt; assumption|]. split; [exact Inj|exact Sur].
Qed.

Lemma bij_on_shift n cs : strictly_sorted cs -> (forall c, In c cs -> c < n) -> bij_on n cs (shift1_many cs).
Proof.
  intros Ss R. assert (R' : forall c, In c cs -> c < length (seq 0 n)) by (intros c Hc; rewrite seq_length; apply R; exact Hc).
  destruct (shift_run_survivors 0 cs (seq 0 n) Ss R') as (_ & _ & Sur & Inj). rewrite seq_length in Sur, Inj.
  split; [intros i Hi Ni; apply (shift1_many_low n cs i Ss R Hi Ni)|]. split; [exact Inj|exact Sur].
Qed.

(* ================================================================== the composed forms *)

Definition fast_form (s s' : mesh) (vs es fs cs : list nat) : Prop :=
  nv s' = nv s - length vs /\ edges s' = map (frenp (nv s) vs) (fast_remove_many (0, 0) es (edges s)) /\
  faces s' = map (map (fren2 (ne s) es)) (fast_remove_many [] fs (faces s)) /\
  cells s' = map (map (fren2 (nf s) fs)) (fast_remove_many [] cs (cells s)).

Definition shift1p (vs : list nat) (p : nat * nat) : nat * nat := (shift1_many vs (fst p), shift1_many vs (snd p)).
Definition shift_form (s s' : mesh) (vs es fs cs : list nat) : Prop :=
  nv s' = nv s - length vs /\ edges s' = map (shift1p vs) (keep_slots (0, 0) es (edges s)) /\
  faces s' = map (map (shift_many es)) (keep_slots [] fs (faces s)) /\
  cells s' = map (map (shift_many fs)) (keep_slots [] cs (cells s)).

Theorem renumbered_fast s s' vs es fs cs : victims_ok s vs es fs cs -> fast_form s s' vs es fs cs ->
  renumbered s s' vs es fs cs (fren (nv s) vs) (fren (ne s) es) (fren (nf s) fs) (fren (nc s) cs).
Proof.
  intros ((Sv & Rv) & (Se & Re) & (Sf & Rf) & (Sc & Rc)) (a1 & a2 & a3 & a4).
  destruct (fast_run_survivors (0, 0) es (edges s) Se Re) as (Le & Ne_ & _).
  destruct (fast_run_survivors [] fs (faces s) Sf Rf) as (Lf & Nf_ & _).
  destruct (fast_run_survivors [] cs (cells s) Sc Rc) as (Lc & Nc_ & _).
  split; [|split; [|split; [|split]]].
  - unfold ne, nf, nc. rewrite a2, a3, a4, !map_length, Le, Lf, Lc. repeat split; assumption.
  - split; [apply bij_on_fren; assumption|]. split; [apply bij_on_fren; assumption|]. split; apply bij_on_fren; assumption.
  - intros e He Ni. unfold edge_at. rewrite a2. unfold ne in *.
    rewrite (nth_map_in _ _ _ (0, 0)) by (rewrite Le; apply fren_lt; assumption). rewrite (Ne_ e He Ni). reflexivity.
  - intros f Hf Ni. unfold face_at. rewrite a3. unfold nf in *.
    rewrite (nth_map_in _ _ _ []) by (rewrite Lf; apply fren_lt; assumption). rewrite (Nf_ f Hf Ni).
    apply map_ext. intros h. apply fren2_lift.
  - intros c Hc Ni. unfold cell_at. rewrite a4. unfold nc in *.
    rewrite (nth_map_in _ _ _ []) by (rewrite Lc; apply fren_lt; assumption). rewrite (Nc_ c Hc Ni).
    apply map_ext. intros h. apply fren2_lift.
Qed.

Theorem renumbered_shift s s' vs es fs cs : victims_ok s vs es fs cs -> closed_under s vs es fs -> (forall c, c < nc s -> ~ In c cs -> forall hf, In hf (cell_at s c) -> ~ In (hf / 2) fs) ->
  shift_form s s' vs es fs cs ->
  renumbered s s' vs es fs cs (shift1_many vs) (shift1_many es) (shift1_many fs) (shift1_many cs).
Proof.
  intros ((Sv & Rv) & (Se & Re) & (Sf & Rf) & (Sc & Rc)) (C1 & C2 & C3) C4 (a1 & a2 & a3 & a4).
  destruct (shift_run_survivors (0, 0) es (edges s) Se Re) as (Le & Ne_ & _).
  destruct (shift_run_survivors [] fs (faces s) Sf Rf) as (Lf & Nf_ & _).
  destruct (shift_run_survivors [] cs (cells s) Sc Rc) as (Lc & Nc_ & _).
  split; [|split; [|split; [|split]]].
  - unfold ne, nf, nc. rewrite a2, a3, a4, !map_length, Le, Lf, Lc. repeat split; assumption.
  - split; [apply bij_on_shift; assumption|]. split; [apply bij_on_shift; assumption|]. split; apply bij_on_shift; assumption.
  - intros e He Ni. unfold edge_at. rewrite a2.
    rewrite (nth_map_in _ _ _ (0, 0)) by (rewrite Le; apply (shift1_many_low (ne s) es e Se Re He Ni)). rewrite (Ne_ e He Ni). reflexivity.
  - intros f Hf Ni. unfold face_at. rewrite a3.
    rewrite (nth_map_in _ _ _ []) by (rewrite Lf; apply (shift1_many_low (nf s) fs f Sf Rf Hf Ni)). rewrite (Nf_ f Hf Ni).
    apply map_ext_in. intros h Hh. destruct (C2 f Hf Ni h Hh) as [H1 H2]. apply (shift_many_lift (ne s)); assumption.
  - intros c Hc Ni. unfold cell_at. rewrite a4.
    rewrite (nth_map_in _ _ _ []) by (rewrite Lc; apply (shift1_many_low (nc s) cs c Sc Rc Hc Ni)). rewrite (Nc_ c Hc Ni).
    apply map_ext_in. intros h Hh. apply (shift_many_lift (nf s)); try assumption; [exact (C3 c Hc h Hh)|exact (C4 c Hc Ni h Hh)].
Qed.

(* ================================================================== two renumberings of the same survivors are isomorphic *)

Definition pick (n : nat) (dead : list nat) (rho sg : nat -> nat) (j : nat) : nat :=
  match find (fun i => negb (memb i dead) && (rho i =? j)) (seq 0 n) with Some i => sg i | None => 0 end.

Lemma pick_spec n dead rho sg i : bij_on n dead rho -> i < n -> ~ In i dead -> pick n dead rho sg (rho i) = sg i.
Proof.
  intros (_ & Inj & _) Hi Ni. unfold pick.
  destruct (find (fun i0 => negb (memb i0 dead) && (rho i0 =? rho i)) (seq 0 n)) as [i'|] eqn:E.
  - apply find_some in E. destruct E as [Hin E]. apply in_seq in Hin. apply andb_true_iff in E. destruct E as [E1 E2].
    apply negb_true_iff, memb_false_iff in E1. apply Nat.eqb_eq in E2. rewrite (Inj i' i ltac:(lia) Hi E1 Ni E2). reflexivity.
  - exfalso. assert (Hin : In i (seq 0 n)) by (apply in_seq; lia). pose proof (find_none _ _ E i Hin) as Q. cbv beta in Q.
    rewrite Nat.eqb_refl, andb_true_r in Q. apply negb_false_iff, memb_In in Q. exact (Ni Q).
Qed.

Lemma pick_bij n dead rho sg : bij_on n dead rho -> bij_on n dead sg -> let p := pick n dead rho sg in
  (forall j, j < n - length dead -> p j < n - length dead) /\
  (forall j j', j < n - length dead -> j' < n - length dead -> p j = p j' -> j = j') /\
  (forall k, k < n - length dead -> exists j, j < n - length dead /\ p j = k).
Proof.
  intros Br Bs. cbv zeta. pose proof Br as (R1 & R2 & R3). pose proof Bs as (S1 & S2 & S3). split; [|split].
  - intros j Hj. destruct (R3 j Hj) as [i (Hi & Ni & <-)]. rewrite (pick_spec n dead rho sg i Br Hi Ni). apply S1; assumption.
  - intros j j' Hj Hj' E. destruct (R3 j Hj) as [i (Hi & Ni & <-)]. destruct (R3 j' Hj') as [i' (Hi' & Ni' & <-)].
    rewrite (pick_spec n dead rho sg i Br Hi Ni), (pick_spec n dead rho sg i' Br Hi' Ni') in E. rewrite (S2 i i' Hi Hi' Ni Ni' E). reflexivity.
  - intros k Hk. destruct (S3 k Hk) as [i (Hi & Ni & <-)]. exists (rho i). split; [apply R1; assumption|apply pick_spec; assumption].
Qed.

Definition isomorphic (s1 s2 : mesh) (pv_ pe_ pf_ pc_ : nat -> nat) : Prop :=
  (nv s1 = nv s2 /\ ne s1 = ne s2 /\ nf s1 = nf s2 /\ nc s1 = nc s2) /\
  (forall j, j < ne s2 -> edge_at s1 (pe_ j) = (pv_ (fst (edge_at s2 j)), pv_ (snd (edge_at s2 j)))) /\
  (forall j, j < nf s2 -> face_at s1 (pf_ j) = map (lift2 pe_) (face_at s2 j)) /\
  (forall j, j < nc s2 -> cell_at s1 (pc_ j) = map (lift2 pf_) (cell_at s2 j)).

Definition perm_of (n : nat) (p : nat -> nat) : Prop :=
  (forall j, j < n -> p j < n) /\ (forall j j', j < n -> j' < n -> p j = p j' -> j = j') /\ (forall k, k < n -> exists j, j < n /\ p j = k).

Lemma lift2_pick rho sg n dead h : bij_on n dead rho -> h / 2 < n -> ~ In (h / 2) dead ->
  lift2 (pick n dead rho sg) (lift2 rho h) = lift2 sg h.
Proof.
  intros B Hh Nh. unfold lift2.
  replace ((2 * rho (h / 2) + h mod 2) / 2) with (rho (h / 2)) by lia.
  replace ((2 * rho (h / 2) + h mod 2) mod 2) with (h mod 2) by lia.
  rewrite (pick_spec n dead rho sg (h / 2) B Hh Nh). reflexivity.
Qed.

Theorem renumbered_iso s s1 s2 vs es fs cs sv se sf sc rv re rf rc :
  renumbered s s1 vs es fs cs sv se sf sc -> renumbered s s2 vs es fs cs rv re rf rc -> closed_under s vs es fs ->
  (forall c, c < nc s -> ~ In c cs -> forall hf, In hf (cell_at s c) -> ~ In (hf / 2) fs) ->
  let pv_ := pick (nv s) vs rv sv in let pe_ := pick (ne s) es re se in let pf_ := pick (nf s) fs rf sf in let pc_ := pick (nc s) cs rc sc in
  isomorphic s1 s2 pv_ pe_ pf_ pc_ /\
  perm_of (nv s2) pv_ /\ perm_of (ne s2) pe_ /\ perm_of (nf s2) pf_ /\ perm_of (nc s2) pc_ /\
  (forall i, i < nv s -> ~ In i vs -> pv_ (rv i) = sv i) /\ (forall i, i < ne s -> ~ In i es -> pe_ (re i) = se i) /\
  (forall i, i < nf s -> ~ In i fs -> pf_ (rf i) = sf i) /\ (forall i, i < nc s -> ~ In i cs -> pc_ (rc i) = sc i).
Proof.
  intros ((n1 & n2 & n3 & n4) & (Bv & Be & Bf & Bc) & E1 & F1 & K1) ((m1 & m2 & m3 & m4) & (Bv' & Be' & Bf' & Bc') & E2 & F2 & K2) (C1 & C2 & C3) C4.
  cbv zeta. split; [|split; [|split; [|split; [|split; [|split; [|split; [|split]]]]]]].
  - split; [repeat split; congruence|]. split; [|split].
    + intros j Hj. rewrite m2 in Hj. destruct (proj2 (proj2 Be') j Hj) as [i (Hi & Ni & <-)].
      rewrite (pick_spec _ _ re se i Be' Hi Ni), (E1 i Hi Ni), (E2 i Hi Ni). cbn [fst snd].
      destruct (C1 i Hi Ni) as [[A1 A2] [A3 A4]]. rewrite !(pick_spec _ _ rv sv) by assumption. reflexivity.
    + intros j Hj. rewrite m3 in Hj. destruct (proj2 (proj2 Bf') j Hj) as [i (Hi & Ni & <-)].
      rewrite (pick_spec _ _ rf sf i Bf' Hi Ni), (F1 i Hi Ni), (F2 i Hi Ni), map_map. apply map_ext_in. intros h Hh.
      destruct (C2 i Hi Ni h Hh) as [A1 A2]. symmetry. apply lift2_pick; assumption.
    + intros j Hj. rewrite m4 in Hj. destruct (proj2 (proj2 Bc') j Hj) as [i (Hi & Ni & <-)].
      rewrite (pick_spec _ _ rc sc i Bc' Hi Ni), (K1 i Hi Ni), (K2 i Hi Ni), map_map. apply map_ext_in. intros h Hh.
      symmetry. apply lift2_pick; [exact Bf'|exact (C3 i Hi h Hh)|exact (C4 i Hi Ni h Hh)].
  - rewrite m1. exact (pick_bij _ _ rv sv Bv' Bv).
  - rewrite m2. exact (pick_bij _ _ re se Be' Be).
  - rewrite m3. exact (pick_bij _ _ rf sf Bf' Bf).
  - rewrite m4. exact (pick_bij _ _ rc sc Bc' Bc).
  - intros i Hi Ni. apply pick_spec; assumption.
  - intros i Hi Ni. apply pick_spec; assumption.
  - intros i Hi Ni. apply pick_spec; assumption.
  - intros i Hi Ni. apply pick_spec; assumption.
Qed.

(* ================================================================== the closure is closed *)

Lemma sorted_nil : strictly_sorted []. Proof. constructor. Qed.
Lemma sorted_one x : strictly_sorted [x]. Proof. constructor. Qed.

(* delete_vertex: vs = [v], es = edges at v, fs = faces at es, cs = cells at fs *)
Lemma closure_vertex_ok v s : shift_inv2 s -> v < nv s ->
  let es := edges_at_vertex s v in let fs := faces_at_edges s es in let cs := cells_at_faces s fs in
  victims_ok s [v] es fs cs /\ closed_under s [v] es fs /\ (forall c, c < nc s -> ~ In c cs -> forall hf, In hf (cell_at s c) -> ~ In (hf / 2) fs).
Proof.
  intros [I X] Hv. cbv zeta. pose proof I as (NF & _ & _ & _ & (R1 & R2 & R3) & _). pose proof NF as (NFv & NFe & NFf & NFc).
  split; [|split].
  - split; [split; [apply sorted_one|intros x [<-|[]]; exact Hv]|].
    split; [split; [apply strictly_sorted_filter, sorted_live_edges|intros x Hx; exact (In_edges_at_vertex_lt s v x Hx)]|].
    split; [split; [apply strictly_sorted_filter, sorted_live_faces|intros x Hx; exact (In_faces_at_edges_lt s _ x Hx)]|].
    split; [apply strictly_sorted_filter, sorted_live_cells|intros x Hx; apply (cells_at_faces_live s _ x) in Hx; tauto].
  - split; [|split].
    + intros e He Ni. destruct (R1 e He (NFe e)) as [A B]. pose proof (edges_at_vertex_spec s v e NF) as Sp.
      split; (split; [assumption|]); intros [Q|[]]; apply Ni; apply Sp; (split; [exact He|]); [left|right]; symmetry; exact Q.
    + intros f Hf Ni h Hh. pose proof (R2 f Hf (NFf f) h Hh). split; [lia|]. intros Q. apply Ni. apply (faces_at_edges_spec s _ f NF). split; [exact Hf|].
      exists h. split; assumption.
    + intros c Hc hf Hhf. pose proof (R3 c Hc (NFc c) hf Hhf). lia.
  - intros c Hc Ni hf Hhf Q. apply Ni. apply (cells_at_faces_spec' s _ c NF). split; [exact Hc|]. exists hf. split; assumption.
Qed.

Lemma closure_edge_ok e s : shift_inv2 s -> e < ne s ->
  let fs := faces_at_edges s [e] in let cs := cells_at_faces s fs in
  victims_ok s [] [e] fs cs /\ closed_under s [] [e] fs /\ (forall c, c < nc s -> ~ In c cs -> forall hf, In hf (cell_at s c) -> ~ In (hf / 2) fs).
Proof.
  intros [I X] He. cbv zeta. pose proof I as (NF & _ & _ & _ & (R1 & R2 & R3) & _). pose proof NF as (NFv & NFe & NFf & NFc).
  split; [|split].
  - split; [split; [apply sorted_nil|intros x []]|].
    split; [split; [apply sorted_one|intros x [<-|[]]; exact He]|].
    split; [split; [apply strictly_sorted_filter, sorted_live_faces|intros x Hx; exact (In_faces_at_edges_lt s _ x Hx)]|].
    split; [apply strictly_sorted_filter, sorted_live_cells|intros x Hx; apply (cells_at_faces_live s _ x) in Hx; tauto].
  - split; [|split].
    + intros e0 He0 Ni. destruct (R1 e0 He0 (NFe e0)) as [A B]. split; (split; [assumption|intros []]).
    + intros f Hf Ni h Hh. pose proof (R2 f Hf (NFf f) h Hh). split; [lia|]. intros Q. apply Ni. apply (faces_at_edges_spec s _ f NF). split; [exact Hf|].
      exists h. split; assumption.
    + intros c Hc hf Hhf. pose proof (R3 c Hc (NFc c) hf Hhf). lia.
  - intros c Hc Ni hf Hhf Q. apply Ni. apply (cells_at_faces_spec' s _ c NF). split; [exact Hc|]. exists hf. split; assumption.
Qed.

Lemma closure_face_ok f s : shift_inv2 s -> f < nf s ->
  let cs := cells_at_faces s [f] in
  victims_ok s [] [] [f] cs /\ closed_under s [] [] [f] /\ (forall c, c < nc s -> ~ In c cs -> forall hf, In hf (cell_at s c) -> ~ In (hf / 2) [f]).
Proof.
  intros [I X] Hf. cbv zeta. pose proof I as (NF & _ & _ & _ & (R1 & R2 & R3) & _). pose proof NF as (NFv & NFe & NFf & NFc).
  split; [|split].
  - split; [split; [apply sorted_nil|intros x []]|]. split; [split; [apply sorted_nil|intros x []]|].
    split; [split; [apply sorted_one|intros x [<-|[]]; exact Hf]|].
    split; [apply strictly_sorted_filter, sorted_live_cells|intros x Hx; apply (cells_at_faces_live s _ x) in Hx; tauto].
  - split; [|split].
    + intros e0 He0 Ni. destruct (R1 e0 He0 (NFe e0)) as [A B]. split; (split; [assumption|intros []]).
    + intros f0 Hf0 Ni h Hh. pose proof (R2 f0 Hf0 (NFf f0) h Hh). split; [lia|intros []].
    + intros c Hc hf Hhf. pose proof (R3 c Hc (NFc c) hf Hhf). lia.
  - intros c Hc Ni hf Hhf Q. apply Ni. apply (cells_at_faces_spec' s _ c NF). split; [exact Hc|]. exists hf. split; assumption.
Qed.

Lemma closure_cell_ok c s : shift_inv2 s -> c < nc s ->
  victims_ok s [] [] [] [c] /\ closed_under s [] [] [] /\ (forall c0, c0 < nc s -> ~ In c0 [c] -> forall hf, In hf (cell_at s c0) -> ~ In (hf / 2) []).
Proof.
  intros [I X] Hc. pose proof I as (NF & _ & _ & _ & (R1 & R2 & R3) & _). pose proof NF as (NFv & NFe & NFf & NFc).
  split; [|split].
  - split; [split; [apply sorted_nil|intros x []]|]. split; [split; [apply sorted_nil|intros x []]|]. split; [split; [apply sorted_nil|intros x []]|].
    split; [apply sorted_one|intros x [<-|[]]; exact Hc].
  - split; [|split].
    + intros e0 He0 Ni. destruct (R1 e0 He0 (NFe e0)) as [A B]. split; (split; [assumption|intros []]).
    + intros f0 Hf0 Ni h Hh. pose proof (R2 f0 Hf0 (NFf f0) h Hh). split; [lia|intros []].
    + intros c0 Hc0 hf Hhf. pose proof (R3 c0 Hc0 (NFc c0) hf Hhf). lia.
  - intros c0 Hc0 Ni hf Hhf [].
Qed.
