(* Kernel3/FastVertex.v -- C02 / C01, immediate FAST mode: delete_vertex_core h = swap_vertex_indices h last, then remove the
   LAST vertex.  With no edge at vertex h (vertex_free: what delete_vertex establishes by deleting the incident edges first):
     - the vertex count drops by one, every edge definition has the old last vertex renamed to h (trp h last), faces and cells
       are untouched; the flag array and every vertex property undergo fast_remove h; nothing of another kind changes;
     - the invariant shift_inv2 (caches exact for every enabled subset of incidences, in-range references, array lengths, no
       flag set; with ebu and fbu on: duplicate-free lists, closed cells, simple faces) holds again;
     - the same right-hand sides for the cache-guided (vbu on) and the scan variant.
   Method: delete_vertex_core h s = delete_vertex_core last (swap h last s) (fast_vertex_split); the swap is the relabeling and keeps
   the invariant (C17); removing the last slot in fast mode IS the index-shifting removal of the last slot (Kernel/ShiftVertex.v:
   vertex_step) up to the fast flag (fast_vertex_last), where the shift is the identity. *)
From Coq Require Import ZArith Lia Bool Arith List ZifyNat ZifyBool.
From OVM Require Import Base.ListX Base.ListLemmas Base.ListLemmas2 Kernel.State Kernel.Ops Kernel.Mirror Kernel.Construct
                        Kernel.Recompute Kernel.Closure Kernel.ExactInv Kernel.SwapEffects Kernel.SwapInvol Kernel.PropLaws
                        Kernel.DeleteEffects Kernel.DeleteDefs Kernel.GcFacts Kernel.SwapVertexCache
                        Kernel2.LookupModel Kernel2.AdjacentProofs Kernel2.ReorderExact Kernel2.ExactBase Kernel2.ExactHistory
                        Kernel.ShiftFace Kernel.ShiftEdge Kernel.ShiftVertex Kernel.ShiftCompose Kernel3.FastDefs Kernel3.FastBase.
Import ListNotations.
Ltac Zify.zify_post_hook ::= Z.div_mod_to_equations.
Local Open Scope nat_scope.

Ltac rsq := cbn [set_fast set_nv set_edges set_faces set_cells set_vdel set_edel set_fdel set_cdel set_counts set_flags
                set_out_hes set_inc_hfs set_inc_cell set_props swap_prop_elems delete_prop_elem resize_props
                vertex_deleted edge_deleted face_deleted cell_deleted
                nv edges faces cells vdel edel fdel cdel ndv nde ndf ndc vbu ebu fbu deferred fast
                out_hes inc_hfs inc_cell pv pe phe pf phf pc pm props fst snd].

(* ================================================================== the core is "swap, then remove the last" *)

Lemma swap_vertex_modes a b s : let t := swap_vertex_indices a b s in
  deferred t = deferred s /\ fast t = fast s /\ nv t = nv s /\ vbu t = vbu s /\ ebu t = ebu s /\ fbu t = fbu s.
Proof.
  cbv zeta. destruct (Nat.eq_dec a b) as [->|N]; [rewrite swap_vertex_self; repeat split|].
  pose proof (swap_vertex_effect a b s N) as E. cbv zeta in E.
  destruct E as (c1&_&_&_&_&_&_&_&_&_&_&_&_&_&_&_&_&(f1&f2&f3&f4&f5)&_). repeat split; assumption.
Qed.

Lemma fast_vertex_split h s : deferred s = false -> fast s = true ->
  delete_vertex_core h s = delete_vertex_core (nv s - 1) (swap_vertex_indices h (nv s - 1) s).
Proof.
  intros D F. set (l := nv s - 1). set (t := swap_vertex_indices h l s).
  destruct (swap_vertex_modes h l s) as (Dt & Ft & Nt & _). fold t in Dt, Ft, Nt.
  unfold delete_vertex_core at 2. rewrite Ft, Dt, F, D, Nt. cbn [andb negb]. fold l. rewrite swap_vertex_self.
  unfold delete_vertex_core at 1. rewrite F, D. cbn [andb negb]. fold l. fold t. rewrite Dt. reflexivity.
Qed.

(* the code after the swap does not read the fast flag at all *)
Lemma fast_vertex_last t : deferred t = false -> fast t = true ->
  delete_vertex_core (nv t - 1) t = set_fast true (delete_vertex_core (nv t - 1) (set_fast false t)).
Proof.
  intros D F. set (l := nv t - 1). unfold delete_vertex_core. rewrite F, D. cbn [andb negb]. fold l. rewrite swap_vertex_self.
  change (out_at (set_fast false t)) with (out_at t). change (live_edges (set_fast false t)) with (live_edges t).
  destruct (vbu t) eqn:Vb; repeat (rsq; rewrite ?D, ?Vb; cbn [andb negb]); apply mesh_ext; rsq; rewrite ?F; reflexivity.
Qed.

(* ================================================================== the swap keeps the invariant and is the relabeling *)

Lemma no_deleted_edge_at_no_flags s a b : no_flags s -> no_deleted_edge_at s a b.
Proof. intros (_ & NFe & _) e He Hd. rewrite NFe in Hd. discriminate. Qed.

Lemma ext_inv_same_upper s t : faces t = faces s -> cells t = cells s -> fdel t = fdel s -> cdel t = cdel s ->
  inc_hfs t = inc_hfs s -> inc_cell t = inc_cell s -> ne t = ne s -> ebu t = ebu s -> fbu t = fbu s -> ext_inv s -> ext_inv t.
Proof.
  intros A B C D E G N Eb Fb X E' F'. rewrite Eb in E'. rewrite Fb in F'. destruct (X E' F') as (SN & LC & FS).
  assert (CL : cells_ref_live t -> True) by trivial.
  split; [|split].
  - intros k Hk. unfold hfs_at. rewrite E. apply SN. rewrite <- N. exact Hk.
  - revert LC. unfold live_cells_closed, closed_cell, adj_matches, nc, c_deleted, cell_at, cell_of, halfface, face_at. rewrite A, B, D, G. tauto.
  - revert FS. unfold faces_simple, nf, f_deleted, face_at. rewrite A, C. tauto.
Qed.

Theorem shift_inv2_swap_vertex a b s : shift_inv2 s -> a < nv s -> b < nv s -> shift_inv2 (swap_vertex_indices a b s).
Proof.
  intros [I X] Ha Hb. destruct (Nat.eq_dec a b) as [->|N]; [rewrite swap_vertex_self; exact (conj I X)|].
  pose proof I as (NF & VO & EO & FO & R & L).
  pose proof (bu_inv_swap_vertex a b s Ha Hb (conj VO (conj EO (conj FO (conj R L)))) (no_deleted_edge_at_no_flags s a b NF)) as (VO' & EO' & FO' & R' & L').
  pose proof (swap_vertex_effect a b s N) as E. cbv zeta in E.
  destruct E as (c1&c2&c3&c4&c5&c6&c7&c8&c9&c10&c11&c12&c13&c14&c15&c16&(n1&n2&n3&n4)&(f1&f2&f3&f4&f5)&ci).
  pose proof (swap_vertex_exact_relabeling a b s N Ha Hb VO (no_deleted_edge_at_no_flags s a b NF)) as Rl.
  assert (NE : ne (swap_vertex_indices a b s) = ne s) by (rewrite Rl; unfold ne, vertex_relabeled; cbn [edges]; apply map_length).
  destruct NF as (NFv & NFe & NFf & NFc).
  split.
  - split; [|tauto]. unfold no_flags, v_deleted, e_deleted, f_deleted, c_deleted. rewrite c2, c6, c7, c8.
    repeat split; try assumption. apply all_false_swap_nth. exact NFv.
  - apply (ext_inv_same_upper s); assumption.
Qed.

Lemma swap_vertex_edges a b s : shift_inv2 s -> a < nv s -> b < nv s ->
  edges (swap_vertex_indices a b s) = map (trp a b) (edges s).
Proof.
  intros [I X] Ha Hb. destruct (Nat.eq_dec a b) as [->|N]; [rewrite swap_vertex_self, map_trp_same; reflexivity|].
  pose proof I as (NF & VO & _).
  rewrite (swap_vertex_exact_relabeling a b s N Ha Hb VO (no_deleted_edge_at_no_flags s a b NF)). reflexivity.
Qed.

Lemma nth_map_trp a b es e : e < length es -> nth e (map (trp a b) es) (0, 0) = trp a b (nth e es (0, 0)).
Proof. intros H. rewrite (nth_indep _ (0, 0) (trp a b (0, 0))) by (rewrite map_length; exact H). apply map_nth. Qed.

(* ================================================================== the step theorem *)

(* flags and properties of a vertex removal in fast mode *)
Definition vertex_arrays_fast (h : nat) (s s' : mesh) : Prop :=
  vdel s' = fast_remove false h (vdel s) /\ edel s' = edel s /\ fdel s' = fdel s /\ cdel s' = cdel s /\
  pv s' = map (pfast h) (pv s) /\ pe s' = pe s /\ phe s' = phe s /\ pf s' = pf s /\ phf s' = phf s /\ pc s' = pc s /\ pm s' = pm s /\
  (ndv s' = ndv s /\ nde s' = nde s /\ ndf s' = ndf s /\ ndc s' = ndc s).

Theorem fast_vertex_arrays h s : deferred s = false -> fast s = true -> sized s -> h < nv s ->
  vertex_arrays_fast h s (delete_vertex_core h s).
Proof.
  intros D F (Lv & _ & _ & _ & Lp) Hh.
  pose proof (delete_vertex_core_props h s D) as P. cbv zeta in P. unfold victim in P. rewrite F, D in P. cbn [andb negb] in P.
  pose proof (cv_delete_vertex_core h s D) as C. unfold cv in C. injection C as k1 k2 k3 k4 _ _.
  set (l := nv s - 1) in *. destruct P as (p1 & p2 & p3 & p4 & p5 & p6 & p7 & p8 & p9 & p10 & p11).
  assert (Sw : vdel (swap_vertex_indices h l s) = swap_nth h l false (vdel s) /\ pv (swap_vertex_indices h l s) = map (pswap h l) (pv s) /\
               edel (swap_vertex_indices h l s) = edel s /\ fdel (swap_vertex_indices h l s) = fdel s /\ cdel (swap_vertex_indices h l s) = cdel s /\
               pe (swap_vertex_indices h l s) = pe s /\ phe (swap_vertex_indices h l s) = phe s /\ pf (swap_vertex_indices h l s) = pf s /\
               phf (swap_vertex_indices h l s) = phf s /\ pc (swap_vertex_indices h l s) = pc s /\ pm (swap_vertex_indices h l s) = pm s).
  { destruct (Nat.eq_dec h l) as [->|N].
    - rewrite swap_vertex_self, swap_nth_same. repeat split. rewrite <- (map_id (pv s)) at 1. apply map_ext. intros p. symmetry. apply pswap_same.
    - pose proof (swap_vertex_effect h l s N) as E. cbv zeta in E.
      destruct E as (c1&c2&c3&c4&c5&c6&c7&c8&c9&c10&c11&c12&c13&c14&c15&c16&_). repeat split; assumption. }
  destruct Sw as (w1 & w2 & w3 & w4 & w5 & w6 & w7 & w8 & w9 & w10 & w11).
  unfold vertex_arrays_fast. rewrite p1, p2, p3, p4, p5, p6, p7, p8, p9, p10, p11, w1, w2, w3, w4, w5, w6, w7, w8, w9, w10, w11.
  repeat split; try assumption.
  - unfold l. rewrite <- Lv. apply fast_remove_swap. rewrite Lv. exact Hh.
  - unfold l. apply map_pfast_swap; [|exact Hh]. intros p Hp. exact (Lp KV p Hp).
Qed.

Theorem fast_vertex_step h s : deferred s = false -> fast s = true -> shift_inv2 s -> h < nv s -> vertex_free s h ->
  let s' := delete_vertex_core h s in let l := nv s - 1 in
  shift_inv2 s' /\ deferred s' = false /\ fast s' = true /\
  nv s' = nv s - 1 /\ edges s' = map (trp h l) (edges s) /\ faces s' = faces s /\ cells s' = cells s /\
  (vbu s' = vbu s /\ ebu s' = ebu s /\ fbu s' = fbu s).
Proof.
  intros D F I Hh VF. cbv zeta. set (l := nv s - 1). assert (Hl : l < nv s) by (unfold l; lia).
  rewrite (fast_vertex_split h s D F). fold l. set (t := swap_vertex_indices h l s).
  destruct (swap_vertex_modes h l s) as (Dt & Ft & Nt & Vt & Et & Bt). fold t in Dt, Ft, Nt, Vt, Et, Bt.
  rewrite D in Dt. rewrite F in Ft.
  assert (It : shift_inv2 t) by (apply shift_inv2_swap_vertex; assumption).
  assert (Edt : edges t = map (trp h l) (edges s)) by (apply swap_vertex_edges; assumption).
  assert (Up : faces t = faces s /\ cells t = cells s).
  { unfold t. destruct (Nat.eq_dec h l) as [->|N]; [rewrite swap_vertex_self; split; reflexivity|].
    pose proof (swap_vertex_effect h l s N) as E. cbv zeta in E. destruct E as (_&_&_&c4&c5&_). split; assumption. }
  destruct Up as (Ft_ & Ct).
  assert (VFt : vertex_free t l).
  { intros e He. unfold ne in He. rewrite Edt, map_length in He. unfold edge_at. rewrite Edt, nth_map_trp by exact He.
    destruct (VF e He) as [A B]. fold (edge_at s e). unfold trp, tr. cbn [fst snd].
    pose proof I as (((_ & NFe & _) & _ & _ & _ & (R1 & _) & _) & _). destruct (R1 e He (NFe e)) as [Q1 Q2].
    split.
    - destruct (Nat.eqb_spec (fst (edge_at s e)) h); [congruence|]. destruct (Nat.eqb_spec (fst (edge_at s e)) l); congruence.
    - destruct (Nat.eqb_spec (snd (edge_at s e)) h); [congruence|]. destruct (Nat.eqb_spec (snd (edge_at s e)) l); congruence. }
  pose proof (fast_vertex_last t Dt Ft) as Br. rewrite Nt in Br. fold l in Br. rewrite Br. clear Br.
  pose proof (vertex_step l (set_fast false t) Dt eq_refl (proj1 (shift_inv2_set_fast false t) It) ltac:(change (l < nv t); lia) VFt) as St.
  cbv zeta in St. set (u := delete_vertex_core l (set_fast false t)) in *.
  destruct St as (Iu & Du & Fu & u1 & u2 & u3 & u4 & (u5 & u6 & u7)).
  change (nv (set_fast false t)) with (nv t) in u1. change (edges (set_fast false t)) with (edges t) in u2.
  change (faces (set_fast false t)) with (faces t) in u3. change (cells (set_fast false t)) with (cells t) in u4.
  change (vbu (set_fast false t)) with (vbu t) in u5. change (ebu (set_fast false t)) with (ebu t) in u6. change (fbu (set_fast false t)) with (fbu t) in u7.
  split; [apply (proj1 (shift_inv2_set_fast true u)); exact Iu|]. rsq.
  split; [exact Du|]. split; [reflexivity|]. split; [rewrite u1, Nt; reflexivity|]. split; [|repeat split; congruence].
  rewrite u2, Edt. apply map_cor1p_last. intros p Hp. rewrite <- Edt in Hp.
  destruct (In_nth _ _ (0, 0) Hp) as [e [He Ee]]. pose proof It as (((_ & NFe & _) & _ & _ & _ & (R1 & _) & _) & _).
  destruct (R1 e He (NFe e)) as [Q1 Q2]. unfold edge_at in Q1, Q2. rewrite Ee in Q1, Q2. rewrite Nt in Q1, Q2. unfold l. lia.
Qed.

(* everything in one statement, with flags / properties / counters (needs the C03 size invariant, true of every reachable state) *)
Theorem fast_vertex_step_full h s : deferred s = false -> fast s = true -> shift_inv2 s -> sized s -> h < nv s -> vertex_free s h ->
  let s' := delete_vertex_core h s in let l := nv s - 1 in
  shift_inv2 s' /\ sized s' /\ deferred s' = false /\ fast s' = true /\
  nv s' = nv s - 1 /\ edges s' = map (trp h l) (edges s) /\ faces s' = faces s /\ cells s' = cells s /\
  (vbu s' = vbu s /\ ebu s' = ebu s /\ fbu s' = fbu s) /\ vertex_arrays_fast h s s'.
Proof.
  intros D F I Z Hh VF. cbv zeta. pose proof (fast_vertex_step h s D F I Hh VF) as St. cbv zeta in St.
  destruct St as (a1 & a2 & a3 & a4 & a5 & a6 & a7 & a8).
  split; [exact a1|]. split; [apply Sizes.szd_sized, Sizes.szd_delete_vertex_core; [apply Sizes.szd_sized; exact Z|exact Hh]|].
  exact (conj a2 (conj a3 (conj a4 (conj a5 (conj a6 (conj a7 (conj a8 (fast_vertex_arrays h s D F Z Hh)))))))).
Qed.

(* the cache-guided (vbu on, exact) and the scan (vbu off) variants give the same definitions *)
Corollary fast_vertex_step_cache_is_scan h s t : deferred s = false -> fast s = true -> shift_inv2 s -> h < nv s -> vertex_free s h ->
  deferred t = false -> fast t = true -> shift_inv2 t -> nv t = nv s -> edges t = edges s -> faces t = faces s -> cells t = cells s ->
  let s' := delete_vertex_core h s in let t' := delete_vertex_core h t in
  nv t' = nv s' /\ edges t' = edges s' /\ faces t' = faces s' /\ cells t' = cells s'.
Proof.
  intros D F I Hh VF D' F' I' e0 e1 e2 e3. cbv zeta.
  assert (VF' : vertex_free t h) by (intros e He; unfold edge_at, ne in *; rewrite e1 in *; exact (VF e He)).
  pose proof (fast_vertex_step h s D F I Hh VF) as P. pose proof (fast_vertex_step h t D' F' I' ltac:(lia) VF') as Q. cbv zeta in P, Q.
  destruct P as (_ & _ & _ & p1 & p2 & p3 & p4 & _). destruct Q as (_ & _ & _ & q1 & q2 & q3 & q4 & _).
  rewrite p1, p2, p3, p4, q1, q2, q3, q4, e0, e1, e2, e3. repeat split.
Qed.
