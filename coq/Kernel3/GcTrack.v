(* Kernel3/GcTrack.v -- C04, tracking (StatusAttrib::garbage_collection, Kernel/StatusGC.v status_gc), NON-FAST mode.
   The old->new handle maps are read off four temporary index properties that ride through collect_garbage.  By the property part
   of the collection theorem the temporary property of kind k ends up as the list of the LIVE old indices in order, hence
   a tracked handle is mapped to its rank if its entity is live and to "invalid" (None) if it was removed; the mesh returned is
   the logical mesh of the state s2 the marks (and the manifoldness pass) produced, with the deferred-deletion mode restored. *)
From Coq Require Import ZArith Lia Bool Arith List ZifyNat ZifyBool.
From OVM Require Import Base.ListX Base.ListLemmas Kernel.State Kernel.Ops Kernel.StatusGC Kernel.GcFacts Kernel.ExactInv
                        Kernel2.ListAux Kernel2.ExactBase Kernel.ShiftFace Kernel.ShiftCompose
                        Kernel3.GcDefs Kernel3.GcList Kernel3.GcInv Kernel3.GcCell Kernel3.GcMain.
Import ListNotations.
Ltac Zify.zify_post_hook ::= Z.div_mod_to_equations.
Local Open Scope nat_scope.

(* ================================================================== the token lists *)

Lemma NoDup_alive del n : NoDup (alive del n).
Proof. unfold alive. apply Kernel.Recompute.NoDup_filter, seq_NoDup. Qed.

Lemma nth_rank_alive del i : forall n, i < n -> nth i del false = false -> nth (rank del i) (alive del n) 0 = i.
Proof.
  intros n Hn L. induction Hn as [|n Hn IH].
  - rewrite alive_S, L. unfold rank. apply nth_middle.
  - rewrite alive_S, app_nth1; [exact IH|]. change (length (alive del n)) with (rank del n). apply rank_lt; [lia|exact L].
Qed.

Lemma compact_seq del n : compact del (seq 0 n) = alive del n.
Proof.
  rewrite (compact_alive 0), seq_length. apply map_id_on. intros i Hi. apply In_alive in Hi. apply seq_nth. tauto.
Qed.

Lemma compact_map {A B} (g : A -> B) del : forall l, compact del (map g l) = map g (compact del l).
Proof.
  intros l. revert del. induction l as [|x t IH]; intros [|b del]; try reflexivity.
  cbn [map compact]. rewrite IH. destruct b; reflexivity.
Qed.

Lemma pcompact_idx del n : pcompact del (idx_prop n) = {| pdef := 0%Z; pdata := map Z.of_nat (alive del n) |}.
Proof. unfold pcompact, idx_prop. cbn [pdef pdata]. rewrite compact_map, compact_seq. reflexivity. Qed.

Lemma find_index_from_map {A B} (g : A -> B) (p : B -> bool) l : forall k, find_index_from p (map g l) k = find_index_from (fun x => p (g x)) l k.
Proof. induction l as [|x t IH]; intros k; [reflexivity|]. cbn [map find_index_from]. rewrite IH. reflexivity. Qed.

Lemma find_index_from_ext {A} (p q : A -> bool) l : (forall x, p x = q x) -> forall k, find_index_from p l k = find_index_from q l k.
Proof. intros H. induction l as [|x t IH]; intros k; [reflexivity|]. cbn [find_index_from]. rewrite H, IH. reflexivity. Qed.

(* the slot that holds token i after collection: the rank of i if i is live, nothing otherwise *)
Theorem new_of_old_tokens del n i :
  new_of_old {| pdef := 0%Z; pdata := map Z.of_nat (alive del n) |} i = if (i <? n) && negb (nth i del false) then Some (rank del i) else None.
Proof.
  unfold new_of_old, find_index. cbn [pdata]. rewrite find_index_from_map.
  rewrite (find_index_from_ext _ (Nat.eqb i)) by (intros x; destruct (Nat.eqb_spec i x) as [->|N]; [apply Z.eqb_refl|apply Z.eqb_neq; lia]).
  fold (find_index (Nat.eqb i) (alive del n)).
  destruct ((i <? n) && negb (nth i del false)) eqn:C.
  - apply andb_true_iff in C. destruct C as [C1 C2]. apply Nat.ltb_lt in C1. apply negb_true_iff in C2.
    rewrite <- (nth_rank_alive del i n C1 C2) at 1. apply find_index_nth_NoDup; [apply NoDup_alive|].
    change (length (alive del n)) with (rank del n). apply rank_lt; assumption.
  - apply find_index_None. intros x Hx. apply In_alive in Hx. apply Nat.eqb_neq. intros ->.
    destruct Hx as [A B]. apply Nat.ltb_lt in A. rewrite A, B in C. discriminate.
Qed.

(* ranks in the doubled flag array *)
Lemma rank_dbl_even del k : rank (dbl del) (2 * k) = 2 * rank del k.
Proof.
  induction k as [|k IH]; [reflexivity|]. replace (2 * S k) with (S (S (2 * k))) by lia. rewrite !rank_S, IH, !nth_dbl.
  replace (S (2 * k) / 2) with k by lia. replace (2 * k / 2) with k by lia. destruct (nth k del false); lia.
Qed.

Lemma rank_dbl_live del h : nth (h / 2) del false = false -> rank (dbl del) h = rank2 del h.
Proof.
  intros L. unfold rank2. assert (h = 2 * (h / 2) \/ h = S (2 * (h / 2))) as [E|E] by lia.
  - rewrite E at 1. rewrite rank_dbl_even. lia.
  - rewrite E at 1. rewrite rank_S, rank_dbl_even, nth_dbl. replace (2 * (h / 2) / 2) with (h / 2) by lia. rewrite L. lia.
Qed.

(* ================================================================== the temporary index properties through collect_garbage *)

Definition with_tokens (s : mesh) : mesh :=
  set_props KC (pc s ++ [idx_prop (nc s)]) (set_props KHF (phf s ++ [idx_prop (2 * nf s)])
    (set_props KHE (phe s ++ [idx_prop (2 * ne s)]) (set_props KV (pv s ++ [idx_prop (nv s)]) s))).
Definition without_tokens (s4 : mesh) : mesh :=
  set_props KC (removelast (pc s4)) (set_props KHF (removelast (phf s4)) (set_props KHE (removelast (phe s4)) (set_props KV (removelast (pv s4)) s4))).

Lemma gc_ready_with_tokens s : gc_ready s -> gc_ready (with_tokens s).
Proof. intros H. exact H. Qed.

Lemma last_prop_app l p : last_prop (l ++ [p]) = p.
Proof. unfold last_prop. apply last_last. Qed.

Lemma map_app_one {A B} (g : A -> B) l x : map g (l ++ [x]) = map g l ++ [g x].
Proof. rewrite map_app. reflexivity. Qed.

Definition track_v (s : mesh) (v : nat) : option nat := if live_v s v then Some (rank (vdel s) v) else None.
Definition track_he (s : mesh) (h : nat) : option nat := if live_he s h then Some (rank2 (edel s) h) else None.
Definition track_hf (s : mesh) (h : nat) : option nat := if live_hf s h then Some (rank2 (fdel s) h) else None.
Definition track_c (s : mesh) (c : nat) : option nat := if live_c s c then Some (rank (cdel s) c) else None.

Section Tokens.
Context (s : mesh) (R : gc_ready s) (F : fast s = false).

Lemma tok_compact : gc_compact_form (with_tokens s) (collect_garbage (with_tokens s)).
Proof. exact (collect_garbage_nonfast_compact (with_tokens s) (gc_ready_with_tokens s R) F). Qed.

Lemma tok_pv : pv (collect_garbage (with_tokens s)) = map (pcompact (vdel s)) (pv s) ++ [{| pdef := 0%Z; pdata := map Z.of_nat (alive (vdel s) (nv s)) |}].
Proof.
  destruct tok_compact as (_ & _ & _ & _ & _ & _ & _ & _ & _ & _ & _ & _ & _ & (q1 & _) & _). rewrite q1.
  change (vdel (with_tokens s)) with (vdel s). change (pv (with_tokens s)) with (pv s ++ [idx_prop (nv s)]).
  rewrite map_app_one, pcompact_idx. reflexivity.
Qed.
Lemma tok_phe : phe (collect_garbage (with_tokens s)) =
  map (pcompact (dbl (edel s))) (phe s) ++ [{| pdef := 0%Z; pdata := map Z.of_nat (alive (dbl (edel s)) (2 * ne s)) |}].
Proof.
  destruct tok_compact as (_ & _ & _ & _ & _ & _ & _ & _ & _ & _ & _ & _ & _ & (_ & _ & q3 & _) & _). rewrite q3.
  change (edel (with_tokens s)) with (edel s). change (phe (with_tokens s)) with (phe s ++ [idx_prop (2 * ne s)]).
  rewrite map_app_one, pcompact_idx. reflexivity.
Qed.
Lemma tok_phf : phf (collect_garbage (with_tokens s)) =
  map (pcompact (dbl (fdel s))) (phf s) ++ [{| pdef := 0%Z; pdata := map Z.of_nat (alive (dbl (fdel s)) (2 * nf s)) |}].
Proof.
  destruct tok_compact as (_ & _ & _ & _ & _ & _ & _ & _ & _ & _ & _ & _ & _ & (_ & _ & _ & _ & q5 & _) & _). rewrite q5.
  change (fdel (with_tokens s)) with (fdel s). change (phf (with_tokens s)) with (phf s ++ [idx_prop (2 * nf s)]).
  rewrite map_app_one, pcompact_idx. reflexivity.
Qed.
Lemma tok_pc : pc (collect_garbage (with_tokens s)) = map (pcompact (cdel s)) (pc s) ++ [{| pdef := 0%Z; pdata := map Z.of_nat (alive (cdel s) (nc s)) |}].
Proof.
  destruct tok_compact as (_ & _ & _ & _ & _ & _ & _ & _ & _ & _ & _ & _ & _ & (_ & _ & _ & _ & _ & q6 & _) & _). rewrite q6.
  change (cdel (with_tokens s)) with (cdel s). change (pc (with_tokens s)) with (pc s ++ [idx_prop (nc s)]).
  rewrite map_app_one, pcompact_idx. reflexivity.
Qed.

Lemma half_range h n : (h <? 2 * n) = (h / 2 <? n).
Proof. destruct (Nat.ltb_spec (h / 2) n); [apply Nat.ltb_lt|apply Nat.ltb_ge]; lia. Qed.

Theorem track_vertices v : new_of_old (last_prop (pv (collect_garbage (with_tokens s)))) v = track_v s v.
Proof. rewrite tok_pv, last_prop_app, new_of_old_tokens. reflexivity. Qed.
Theorem track_cells c : new_of_old (last_prop (pc (collect_garbage (with_tokens s)))) c = track_c s c.
Proof. rewrite tok_pc, last_prop_app, new_of_old_tokens. reflexivity. Qed.
Theorem track_halfedges h : new_of_old (last_prop (phe (collect_garbage (with_tokens s)))) h = track_he s h.
Proof.
  rewrite tok_phe, last_prop_app, new_of_old_tokens, nth_dbl, half_range. unfold track_he, live_he, live_e, e_deleted.
  destruct (h / 2 <? ne s); [|reflexivity]. cbn [andb]. destruct (nth (h / 2) (edel s) false) eqn:E; [reflexivity|]. cbn [negb].
  rewrite rank_dbl_live by exact E. reflexivity.
Qed.
Theorem track_halffaces h : new_of_old (last_prop (phf (collect_garbage (with_tokens s)))) h = track_hf s h.
Proof.
  rewrite tok_phf, last_prop_app, new_of_old_tokens, nth_dbl, half_range. unfold track_hf, live_hf, live_f, f_deleted.
  destruct (h / 2 <? nf s); [|reflexivity]. cbn [andb]. destruct (nth (h / 2) (fdel s) false) eqn:E; [reflexivity|]. cbn [negb].
  rewrite rank_dbl_live by exact E. reflexivity.
Qed.

Lemma logical_props_with_tokens k : logical_props k (with_tokens s) =
  match k with
  | KV => logical_props KV s ++ [pkeep (dead_slots KV s) (idx_prop (nv s))]
  | KHE => logical_props KHE s ++ [pkeep (dead_slots KHE s) (idx_prop (2 * ne s))]
  | KHF => logical_props KHF s ++ [pkeep (dead_slots KHF s) (idx_prop (2 * nf s))]
  | KC => logical_props KC s ++ [pkeep (dead_slots KC s) (idx_prop (nc s))]
  | _ => logical_props k s
  end.
Proof. unfold logical_props. destruct k; try reflexivity; cbn [props with_tokens set_props pv phe phf pc]; apply map_app_one. Qed.

Lemma wt_logical_nv : logical_nv (with_tokens s) = logical_nv s. Proof. reflexivity. Qed.
Lemma wt_logical_edges : logical_edges (with_tokens s) = logical_edges s. Proof. reflexivity. Qed.
Lemma wt_logical_faces : logical_faces (with_tokens s) = logical_faces s. Proof. reflexivity. Qed.
Lemma wt_logical_cells : logical_cells (with_tokens s) = logical_cells s. Proof. reflexivity. Qed.
Lemma wo_ginv t : ginv t -> ginv (without_tokens t). Proof. intros H. exact H. Qed.
Lemma wo_no_flags t : no_flags t -> no_flags (without_tokens t). Proof. intros H. exact H. Qed.
Lemma wo_fields t : nv (without_tokens t) = nv t /\ edges (without_tokens t) = edges t /\ faces (without_tokens t) = faces t /\
  cells (without_tokens t) = cells t /\ needs_gc (without_tokens t) = needs_gc t /\ deferred (without_tokens t) = deferred t /\
  fast (without_tokens t) = fast t /\ vbu (without_tokens t) = vbu t /\ ebu (without_tokens t) = ebu t /\ fbu (without_tokens t) = fbu t.
Proof. repeat split; reflexivity. Qed.
Lemma wo_props t k : props k (without_tokens t) =
  match k with KV => removelast (pv t) | KHE => removelast (phe t) | KHF => removelast (phf t) | KC => removelast (pc t) | _ => props k t end.
Proof. destruct k; reflexivity. Qed.
Lemma wt_modes : vbu (with_tokens s) = vbu s /\ ebu (with_tokens s) = ebu s /\ fbu (with_tokens s) = fbu s.
Proof. repeat split; reflexivity. Qed.

Theorem tokens_stripped : let s5 := without_tokens (collect_garbage (with_tokens s)) in
  nv s5 = logical_nv s /\ edges s5 = logical_edges s /\ faces s5 = logical_faces s /\ cells s5 = logical_cells s /\
  (forall k, props k s5 = logical_props k s) /\
  no_flags s5 /\ needs_gc s5 = false /\ deferred s5 = true /\ fast s5 = false /\ ginv s5 /\
  (vbu s5 = vbu s /\ ebu s5 = ebu s /\ fbu s5 = fbu s).
Proof.
  cbv zeta. pose proof (collect_garbage_nonfast_logical (with_tokens s) (gc_ready_with_tokens s R) F) as Lg. cbv zeta in Lg.
  generalize dependent (collect_garbage (with_tokens s)). intros s4 Lg.
  destruct Lg as (l1 & l2 & l3 & l4 & _ & _ & _ & _ & l9 & l10 & l11 & l12 & l13 & (m1 & m2 & m3) & (_ & _ & l15) & _).
  destruct (wo_fields s4) as (f1 & f2 & f3 & f4 & f5 & f6 & f7 & f8 & f9 & f10). destruct wt_modes as (w1 & w2 & w3).
  rewrite f1, f2, f3, f4, f5, f6, f7, f8, f9, f10, l1, l2, l3, l4, wt_logical_nv, wt_logical_edges, wt_logical_faces, wt_logical_cells, m1, m2, m3, w1, w2, w3.
  splits; try reflexivity; try assumption; try (apply wo_no_flags; exact l9); try (apply wo_ginv; exact l15).
  intros k. rewrite wo_props. pose proof (l11 k) as Lk. rewrite logical_props_with_tokens in Lk.
    destruct k; cbn [props] in Lk |- *; rewrite Lk; try reflexivity; apply removelast_last.
Qed.
End Tokens.
