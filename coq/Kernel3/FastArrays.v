(* Kernel3/FastArrays.v -- C02 / C03, immediate FAST mode: the deletion flags, all seven property arrays and the deleted-counters
   through the public deletions.  Needs only the C03 size invariant (sized: one slot per entity in every array, true of every
   reachable state) and in-range victims -- no cache exactness:
     - a descending run of delete_K_core over a strictly ascending victim list cs transforms the flag array of kind K by
       fast_remove_many cs, every property of kind K by pfast_many cs (half-entity properties: pfast2_many cs) and NOTHING else;
     - hence after delete_vertex v: vertex arrays fast_remove v, edge arrays fast_remove_many es, face arrays ... fs, cell arrays ... cs,
       where es, fs, cs are the lists the closure gathering returns (= the brute-force closure under the invariant, FastPhases.v);
     - the value laws: a survivor keeps its property values under the bijections fren / fren2 of Kernel3/FastMany.v. *)
From Coq Require Import ZArith Lia Bool Arith List ZifyNat ZifyBool.
From OVM Require Import Base.ListX Base.ListLemmas Base.ListLemmas2 Kernel.State Kernel.Ops Kernel.Mirror Kernel.Construct
                        Kernel.SwapEffects Kernel.SwapInvol Kernel.Sizes Kernel.PropLaws Kernel.DeleteEffects Kernel.DeleteDefs Kernel.GcFacts
                        Kernel.ShiftFace Kernel.ShiftCompose
                        Kernel3.FastDefs Kernel3.FastBase Kernel3.FastCell Kernel3.FastFace Kernel3.FastEdge Kernel3.FastVertex Kernel3.FastMany.
Import ListNotations.
Ltac Zify.zify_post_hook ::= Z.div_mod_to_equations.
Local Open Scope nat_scope.

(* the arrays, grouped by kind *)
Definition varr (s : mesh) := (vdel s, pv s).
Definition earr (s : mesh) := (edel s, pe s, phe s).
Definition farr (s : mesh) := (fdel s, pf s, phf s).
Definition carr (s : mesh) := (cdel s, pc s).
Definition marr (s : mesh) := (pm s, (ndv s, nde s, ndf s, ndc s)).
Definition cnts (s : mesh) := (nv s, ne s, nf s, nc s).
Definition imm_fast (s : mesh) : Prop := deferred s = false /\ fast s = true.

Lemma imm_fast_core (core : nat -> mesh -> mesh) : (forall h s, deferred s = false -> cv (core h s) = cv s) ->
  forall h s, imm_fast s -> imm_fast (core h s).
Proof. intros H h s [D F]. pose proof (H h s D) as C. unfold cv in C. injection C as _ _ _ _ k5 k6. split; congruence. Qed.

(* ================================================================== one core *)

Lemma nc_delete_cell_core_fast h s : imm_fast s -> h < nc s -> nc (delete_cell_core h s) = nc s - 1.
Proof.
  intros [D F] Hh. pose proof (delete_cell_core_defs h s D) as Df. cbv zeta in Df. destruct Df as (d1 & _ & _ & _ & d5).
  unfold victim in d1, d5. rewrite F, D in d1, d5. cbn [andb negb] in d1, d5. unfold nc in *. rewrite d1, d5.
  rewrite remove_nth_length by (rewrite swap_nth_length; lia). rewrite swap_nth_length. reflexivity.
Qed.
Lemma nf_delete_face_core_fast h s : imm_fast s -> h < nf s -> nf (delete_face_core h s) = nf s - 1.
Proof.
  intros [D F] Hh. pose proof (delete_face_core_defs h s D) as Df. cbv zeta in Df. destruct Df as (d1 & _ & _ & d5).
  unfold victim in d1, d5. rewrite F, D in d1, d5. cbn [andb negb] in d1, d5. unfold nf in *. rewrite d1, d5.
  rewrite remove_nth_length by (rewrite swap_nth_length; lia). rewrite swap_nth_length. reflexivity.
Qed.
Lemma ne_delete_edge_core_fast h s : imm_fast s -> h < ne s -> ne (delete_edge_core h s) = ne s - 1.
Proof.
  intros [D F] Hh. pose proof (delete_edge_core_defs h s D) as Df. cbv zeta in Df. destruct Df as (d1 & _ & _ & d5).
  unfold victim in d1, d5. rewrite F, D in d1, d5. cbn [andb negb] in d1, d5. unfold ne in *. rewrite d1, d5.
  rewrite remove_nth_length by (rewrite swap_nth_length; lia). rewrite swap_nth_length. reflexivity.
Qed.

Lemma cell_core_arrays h s : imm_fast s -> sized s -> h < nc s -> let s' := delete_cell_core h s in
  carr s' = (fast_remove false h (cdel s), map (pfast h) (pc s)) /\ varr s' = varr s /\ earr s' = earr s /\ farr s' = farr s /\ marr s' = marr s /\
  cnts s' = (nv s, ne s, nf s, nc s - 1) /\ sized s' /\ imm_fast s'.
Proof.
  intros M Z Hh. cbv zeta. pose proof M as [D F]. pose proof (fast_cell_arrays h s D F Z Hh) as (a1&a2&a3&a4&a5&a6&a7&a8&a9&a10&a11&(b1&b2&b3&b4)).
  pose proof (delete_cell_core_defs h s D) as Df. cbv zeta in Df. destruct Df as (_ & d2 & d3 & d4 & _).
  pose proof (nc_delete_cell_core_fast h s M Hh) as N.
  unfold carr, varr, earr, farr, marr, cnts. rewrite N. unfold ne, nf. rewrite a1, a2, a3, a4, a5, a6, a7, a8, a9, a10, a11, b1, b2, b3, b4, d2, d3, d4.
  assert (Zs : sized (delete_cell_core h s)) by (apply szd_sized, szd_delete_cell_core, szd_sized; exact Z).
  assert (Ms : imm_fast (delete_cell_core h s)) by (apply (imm_fast_core delete_cell_core cv_delete_cell_core); assumption).
  exact (conj eq_refl (conj eq_refl (conj eq_refl (conj eq_refl (conj eq_refl (conj eq_refl (conj Zs Ms))))))).
Qed.

Lemma face_core_arrays h s : imm_fast s -> sized s -> h < nf s -> nc (delete_face_core h s) = nc s -> let s' := delete_face_core h s in
  farr s' = (fast_remove false h (fdel s), map (pfast h) (pf s), map (pfast2 h) (phf s)) /\ varr s' = varr s /\ earr s' = earr s /\ carr s' = carr s /\
  marr s' = marr s /\ cnts s' = (nv s, ne s, nf s - 1, nc s) /\ sized s' /\ imm_fast s'.
Proof.
  intros M Z Hh NC. cbv zeta. pose proof M as [D F]. pose proof (fast_face_arrays h s D F Z Hh) as (a1&a2&a3&a4&a5&a6&a7&a8&a9&a10&a11&(b1&b2&b3&b4)).
  pose proof (delete_face_core_defs h s D) as Df. cbv zeta in Df. destruct Df as (_ & d2 & d3 & _).
  pose proof (nf_delete_face_core_fast h s M Hh) as N.
  unfold carr, varr, earr, farr, marr, cnts. rewrite N, NC. unfold ne. rewrite a1, a2, a3, a4, a5, a6, a7, a8, a9, a10, a11, b1, b2, b3, b4, d2, d3.
  assert (Zs : sized (delete_face_core h s)) by (apply szd_sized, szd_delete_face_core, szd_sized; exact Z).
  assert (Ms : imm_fast (delete_face_core h s)) by (apply (imm_fast_core delete_face_core cv_delete_face_core); assumption).
  exact (conj eq_refl (conj eq_refl (conj eq_refl (conj eq_refl (conj eq_refl (conj eq_refl (conj Zs Ms))))))).
Qed.

Lemma edge_core_arrays h s : imm_fast s -> sized s -> h < ne s -> nf (delete_edge_core h s) = nf s -> let s' := delete_edge_core h s in
  earr s' = (fast_remove false h (edel s), map (pfast h) (pe s), map (pfast2 h) (phe s)) /\ varr s' = varr s /\ farr s' = farr s /\ carr s' = carr s /\
  marr s' = marr s /\ cnts s' = (nv s, ne s - 1, nf s, nc s) /\ sized s' /\ imm_fast s'.
Proof.
  intros M Z Hh NF. cbv zeta. pose proof M as [D F]. pose proof (fast_edge_arrays h s D F Z Hh) as (a1&a2&a3&a4&a5&a6&a7&a8&a9&a10&a11&(b1&b2&b3&b4)).
  pose proof (delete_edge_core_defs h s D) as Df. cbv zeta in Df. destruct Df as (_ & d2 & d3 & _).
  pose proof (ne_delete_edge_core_fast h s M Hh) as N.
  unfold carr, varr, earr, farr, marr, cnts. rewrite N, NF. unfold nc. rewrite a1, a2, a3, a4, a5, a6, a7, a8, a9, a10, a11, b1, b2, b3, b4, d2, d3.
  assert (Zs : sized (delete_edge_core h s)) by (apply szd_sized, szd_delete_edge_core, szd_sized; exact Z).
  assert (Ms : imm_fast (delete_edge_core h s)) by (apply (imm_fast_core delete_edge_core cv_delete_edge_core); assumption).
  exact (conj eq_refl (conj eq_refl (conj eq_refl (conj eq_refl (conj eq_refl (conj eq_refl (conj Zs Ms))))))).
Qed.

Lemma vertex_core_arrays h s : imm_fast s -> sized s -> h < nv s -> let s' := delete_vertex_core h s in
  varr s' = (fast_remove false h (vdel s), map (pfast h) (pv s)) /\ earr s' = earr s /\ farr s' = farr s /\ carr s' = carr s /\ marr s' = marr s /\
  sized s' /\ imm_fast s'.
Proof.
  intros M Z Hh. cbv zeta. pose proof M as [D F]. pose proof (fast_vertex_arrays h s D F Z Hh) as (a1&a2&a3&a4&a5&a6&a7&a8&a9&a10&a11&(b1&b2&b3&b4)).
  unfold carr, varr, earr, farr, marr. rewrite a1, a2, a3, a4, a5, a6, a7, a8, a9, a10, a11, b1, b2, b3, b4.
  assert (Zs : sized (delete_vertex_core h s)) by (apply szd_sized, szd_delete_vertex_core; [apply szd_sized; exact Z|exact Hh]).
  assert (Ms : imm_fast (delete_vertex_core h s)) by (apply (imm_fast_core delete_vertex_core cv_delete_vertex_core); assumption).
  exact (conj eq_refl (conj eq_refl (conj eq_refl (conj eq_refl (conj eq_refl (conj Zs Ms)))))).
Qed.

(* the referring arrays keep their length in fast mode (they are renamed, not resized) *)
Lemma nc_delete_face_core_fast h s : imm_fast s -> nc (delete_face_core h s) = nc s.
Proof.
  intros [D F]. rewrite (fast_face_split h s D F). set (l := nf s - 1). set (t := swap_face_indices h l s).
  destruct (swap_face_modes h l s) as (Dt & Ft & Nt & _). fold t in Dt, Ft, Nt. rewrite D in Dt. rewrite F in Ft.
  pose proof (fast_face_view t Dt Ft) as V. cbv zeta in V. rewrite Nt in V. fold l in V. destruct V as (x1 & _). unfold nc. rewrite x1.
  unfold t. destruct (Nat.eq_dec h l) as [->|N]; [rewrite swap_face_self; reflexivity|].
  unfold swap_face_indices. rewrite (proj2 (Nat.eqb_neq h l) N).
  destruct (fbu s) eqn:Fb; destruct (ebu s) eqn:Eb; cbn [set_cells set_inc_hfs set_fdel set_faces set_inc_cell swap_prop_elems set_props cells fbu ebu];
    rewrite ?Fb, ?Eb; cbn [set_cells set_inc_hfs set_fdel set_faces set_inc_cell swap_prop_elems set_props cells fbu ebu]; rewrite ?map_length; try reflexivity.
  all: match goal with |- length (fst (fold_left ?f ?l0 (?c0, ?d0))) = _ =>
         assert (G : forall l1 acc, length (fst (fold_left f l1 acc)) = length (fst acc)); [|exact (G l0 (c0, d0))] end;
       induction l1 as [|x l1 IH]; intros [cs0 done]; [reflexivity|]; cbn [fold_left]; rewrite IH;
       destruct (cell_of s x) as [ch|]; [|reflexivity]; destruct (memb ch done); [reflexivity|]; cbn [fst]; apply upd_length.
Qed.

Lemma nf_delete_edge_core_fast h s : imm_fast s -> nf (delete_edge_core h s) = nf s.
Proof.
  intros [D F]. rewrite (fast_edge_split h s D F). set (l := ne s - 1). set (t := swap_edge_indices h l s).
  destruct (swap_edge_modes h l s) as (Dt & Ft & Nt & _). fold t in Dt, Ft, Nt. rewrite D in Dt. rewrite F in Ft.
  pose proof (fast_edge_view t Dt Ft) as V. cbv zeta in V. rewrite Nt in V. fold l in V. destruct V as (x1 & _). unfold nf. rewrite x1.
  unfold t. destruct (Nat.eq_dec h l) as [->|N]; [rewrite swap_edge_self; reflexivity|].
  unfold swap_edge_indices. rewrite (proj2 (Nat.eqb_neq h l) N).
  set (s1 := set_faces _ s). assert (E1 : length (faces s1) = length (faces s)).
  { unfold s1. cbn [faces set_faces]. destruct (ebu s); [|apply map_length].
    match goal with |- length (fst (fold_left ?f ?l0 (?c0, ?d0))) = _ =>
      assert (G : forall l1 acc, length (fst (fold_left f l1 acc)) = length (fst acc)); [|exact (G l0 (c0, d0))] end.
    induction l1 as [|x l1 IH]; intros [fs0 done]; [reflexivity|]. cbn [fold_left]. rewrite IH.
    destruct (memb (x / 2) done); [reflexivity|]. cbn [fst]. apply upd_length. }
  clearbody s1. destruct (edge_at s1 h) as [a0 a1]. destruct (edge_at s1 l) as [b0 b1].
  destruct (vbu s1); destruct (ebu s1) eqn:Eb;
    cbn [set_out_hes set_edel set_edges set_inc_hfs swap_prop_elems set_props faces ebu]; rewrite ?Eb;
    cbn [set_out_hes set_edel set_edges set_inc_hfs swap_prop_elems set_props faces ebu]; exact E1.
Qed.

(* ================================================================== descending runs *)

Theorem cells_run_arrays cs : forall s, strictly_sorted cs -> (forall c, In c cs -> c < nc s) -> imm_fast s -> sized s ->
  let t := del_desc delete_cell_core cs s in
  carr t = (fast_remove_many false cs (cdel s), map (pfast_many cs) (pc s)) /\ varr t = varr s /\ earr t = earr s /\ farr t = farr s /\ marr t = marr s /\
  cnts t = (nv s, ne s, nf s, nc s - length cs) /\ sized t /\ imm_fast t.
Proof.
  induction cs as [|a cs IH]; intros s Ss R M Z; cbv zeta.
  - unfold del_desc. cbn [rev fold_left length fast_remove_many]. unfold carr, cnts. rewrite Nat.sub_0_r.
    assert (E : map (pfast_many []) (pc s) = pc s) by (rewrite <- (map_id (pc s)) at 2; apply map_ext; reflexivity). rewrite E.
    exact (conj eq_refl (conj eq_refl (conj eq_refl (conj eq_refl (conj eq_refl (conj eq_refl (conj Z M))))))).
  - rewrite del_desc_cons. specialize (IH s (sorted_tail _ _ Ss) (fun c Hc => R c (or_intror Hc)) M Z). cbv zeta in IH.
    set (t := del_desc delete_cell_core cs s) in *. destruct IH as (t1 & t2 & t3 & t4 & t5 & t6 & Zt & Mt).
    unfold cnts in t6. injection t6 as n1 n2 n3 n4.
    assert (Ha : a < nc t) by (rewrite n4; pose proof (sorted_room a cs (nc s) Ss R); lia).
    pose proof (cell_core_arrays a t Mt Zt Ha) as St. cbv zeta in St. destruct St as (v1 & v2 & v3 & v4 & v5 & v6 & Zv & Mv).
    unfold carr in t1. injection t1 as c1 c2.
    split; [rewrite v1, c1, c2; cbn [fast_remove_many]; rewrite map_map; reflexivity|].
    split; [congruence|]. split; [congruence|]. split; [congruence|]. split; [congruence|].
    split; [rewrite v6, n1, n2, n3, n4; cbn [length]; f_equal; lia|]. split; assumption.
Qed.

Theorem faces_run_arrays fs : forall s, strictly_sorted fs -> (forall f, In f fs -> f < nf s) -> imm_fast s -> sized s ->
  let t := del_desc delete_face_core fs s in
  farr t = (fast_remove_many false fs (fdel s), map (pfast_many fs) (pf s), map (pfast2_many fs) (phf s)) /\
  varr t = varr s /\ earr t = earr s /\ carr t = carr s /\ marr t = marr s /\
  cnts t = (nv s, ne s, nf s - length fs, nc s) /\ sized t /\ imm_fast t.
Proof.
  induction fs as [|a fs IH]; intros s Ss R M Z; cbv zeta.
  - unfold del_desc. cbn [rev fold_left length fast_remove_many]. unfold farr, cnts. rewrite Nat.sub_0_r.
    assert (E : map (pfast_many []) (pf s) = pf s) by (rewrite <- (map_id (pf s)) at 2; apply map_ext; reflexivity). rewrite E.
    assert (E2 : map (pfast2_many []) (phf s) = phf s) by (rewrite <- (map_id (phf s)) at 2; apply map_ext; reflexivity). rewrite E2.
    exact (conj eq_refl (conj eq_refl (conj eq_refl (conj eq_refl (conj eq_refl (conj eq_refl (conj Z M))))))).
  - rewrite del_desc_cons. specialize (IH s (sorted_tail _ _ Ss) (fun c Hc => R c (or_intror Hc)) M Z). cbv zeta in IH.
    set (t := del_desc delete_face_core fs s) in *. destruct IH as (t1 & t2 & t3 & t4 & t5 & t6 & Zt & Mt).
    unfold cnts in t6. injection t6 as n1 n2 n3 n4.
    assert (Ha : a < nf t) by (rewrite n3; pose proof (sorted_room a fs (nf s) Ss R); lia).
    pose proof (face_core_arrays a t Mt Zt Ha (nc_delete_face_core_fast a t Mt)) as St. cbv zeta in St.
    destruct St as (v1 & v2 & v3 & v4 & v5 & v6 & Zv & Mv).
    unfold farr in t1. injection t1 as c1 c2 c3.
    split; [rewrite v1, c1, c2, c3; cbn [fast_remove_many]; rewrite !map_map; reflexivity|].
    split; [congruence|]. split; [congruence|]. split; [congruence|]. split; [congruence|].
    split; [rewrite v6, n1, n2, n3, n4; cbn [length]; f_equal; f_equal; lia|]. split; assumption.
Qed.

Theorem edges_run_arrays es : forall s, strictly_sorted es -> (forall e, In e es -> e < ne s) -> imm_fast s -> sized s ->
  let t := del_desc delete_edge_core es s in
  earr t = (fast_remove_many false es (edel s), map (pfast_many es) (pe s), map (pfast2_many es) (phe s)) /\
  varr t = varr s /\ farr t = farr s /\ carr t = carr s /\ marr t = marr s /\
  cnts t = (nv s, ne s - length es, nf s, nc s) /\ sized t /\ imm_fast t.
Proof.
  induction es as [|a es IH]; intros s Ss R M Z; cbv zeta.
  - unfold del_desc. cbn [rev fold_left length fast_remove_many]. unfold earr, cnts. rewrite Nat.sub_0_r.
    assert (E : map (pfast_many []) (pe s) = pe s) by (rewrite <- (map_id (pe s)) at 2; apply map_ext; reflexivity). rewrite E.
    assert (E2 : map (pfast2_many []) (phe s) = phe s) by (rewrite <- (map_id (phe s)) at 2; apply map_ext; reflexivity). rewrite E2.
    exact (conj eq_refl (conj eq_refl (conj eq_refl (conj eq_refl (conj eq_refl (conj eq_refl (conj Z M))))))).
  - rewrite del_desc_cons. specialize (IH s (sorted_tail _ _ Ss) (fun c Hc => R c (or_intror Hc)) M Z). cbv zeta in IH.
    set (t := del_desc delete_edge_core es s) in *. destruct IH as (t1 & t2 & t3 & t4 & t5 & t6 & Zt & Mt).
    unfold cnts in t6. injection t6 as n1 n2 n3 n4.
    assert (Ha : a < ne t) by (rewrite n2; pose proof (sorted_room a es (ne s) Ss R); lia).
    pose proof (edge_core_arrays a t Mt Zt Ha (nf_delete_edge_core_fast a t Mt)) as St. cbv zeta in St.
    destruct St as (v1 & v2 & v3 & v4 & v5 & v6 & Zv & Mv).
    unfold earr in t1. injection t1 as c1 c2 c3.
    split; [rewrite v1, c1, c2, c3; cbn [fast_remove_many]; rewrite !map_map; reflexivity|].
    split; [congruence|]. split; [congruence|]. split; [congruence|]. split; [congruence|].
    split; [rewrite v6, n1, n2, n3, n4; cbn [length]; f_equal; f_equal; f_equal; lia|]. split; assumption.
Qed.

(* ================================================================== the public deletions *)

(* stated for the victim lists the closure gathering returns (any strictly ascending in-range lists): no exactness needed here *)
Theorem delete_vertex_arrays_fast v s : imm_fast s -> sized s -> v < nv s ->
  let es := incident_edges_of_vertex s v in let fs := incident_faces_of_edges s es in let cs := incident_cells_of_faces s fs in
  strictly_sorted es -> strictly_sorted fs -> strictly_sorted cs ->
  (forall e, In e es -> e < ne s) -> (forall f, In f fs -> f < nf s) -> (forall c, In c cs -> c < nc s) ->
  let s' := delete_vertex v s in
  varr s' = (fast_remove false v (vdel s), map (pfast v) (pv s)) /\
  earr s' = (fast_remove_many false es (edel s), map (pfast_many es) (pe s), map (pfast2_many es) (phe s)) /\
  farr s' = (fast_remove_many false fs (fdel s), map (pfast_many fs) (pf s), map (pfast2_many fs) (phf s)) /\
  carr s' = (fast_remove_many false cs (cdel s), map (pfast_many cs) (pc s)) /\
  marr s' = marr s /\ sized s' /\ imm_fast s'.
Proof.
  intros M Z Hv es fs cs Ses Sfs Scs Res Rfs Rcs. cbv zeta. unfold delete_vertex. fold es. fold fs. fold cs.
  pose proof (cells_run_arrays cs s Scs Rcs M Z) as P. cbv zeta in P. set (t := del_desc delete_cell_core cs s) in *.
  destruct P as (t1 & t2 & t3 & t4 & t5 & t6 & Zt & Mt). unfold cnts in t6. injection t6 as tn1 tn2 tn3 tn4.
  pose proof (faces_run_arrays fs t Sfs ltac:(rewrite tn3; exact Rfs) Mt Zt) as Q. cbv zeta in Q. set (u := del_desc delete_face_core fs t) in *.
  destruct Q as (u1 & u2 & u3 & u4 & u5 & u6 & Zu & Mu). unfold cnts in u6. injection u6 as un1 un2 un3 un4.
  pose proof (edges_run_arrays es u Ses ltac:(rewrite un2, tn2; exact Res) Mu Zu) as W. cbv zeta in W. set (w := del_desc delete_edge_core es u) in *.
  destruct W as (w1 & w2 & w3 & w4 & w5 & w6 & Zw & Mw). unfold cnts in w6. injection w6 as wn1 wn2 wn3 wn4.
  pose proof (vertex_core_arrays v w Mw Zw ltac:(rewrite wn1, un1, tn1; exact Hv)) as X. cbv zeta in X.
  destruct X as (x1 & x2 & x3 & x4 & x5 & Zx & Mx).
  unfold varr in w2, u2, t2. injection w2 as wa wb. injection u2 as ua ub. injection t2 as ta tb.
  unfold earr in u3, t3. injection u3 as ue1 ue2 ue3. injection t3 as te1 te2 te3.
  unfold farr in w3, t4. injection w3 as wf1 wf2 wf3. injection t4 as tf1 tf2 tf3.
  unfold carr in w4, u4. injection w4 as wc1 wc2. injection u4 as uc1 uc2.
  split; [rewrite x1, wa, wb, ua, ub, ta, tb; reflexivity|].
  split; [rewrite x2, w1, ue1, ue2, ue3, te1, te2, te3; reflexivity|].
  split; [rewrite x3; unfold farr; rewrite wf1, wf2, wf3; fold (farr u); rewrite u1, tf1, tf2, tf3; reflexivity|].
  split; [rewrite x4; unfold carr; rewrite wc1, wc2, uc1, uc2; fold (carr t); exact t1|].
  split; [congruence|]. split; assumption.
Qed.

(* ================================================================== value laws: survivors keep their values *)

Theorem pval_pfast_many n cs p i : length (pdata p) = n -> strictly_sorted cs -> (forall c, In c cs -> c < n) -> i < n -> ~ In i cs ->
  pval (pfast_many cs p) (fren n cs i) = pval p i.
Proof.
  intros L Ss R Hi Ni. unfold pval. destruct (pdata_pfast_many cs p) as [E1 E2]. rewrite E1, E2. subst n.
  apply (fast_run_survivors (pdef p) cs (pdata p) Ss R); assumption.
Qed.

Lemma fast2_run_nth {A} (d : A) cs : forall l n, length l = 2 * n -> strictly_sorted cs -> (forall c, In c cs -> c < n) ->
  length (fast_remove2_many d cs l) = 2 * (n - length cs) /\
  forall x, x / 2 < n -> ~ In (x / 2) cs -> nth (fren2 n cs x) (fast_remove2_many d cs l) d = nth x l d.
Proof.
  induction cs as [|a r IH]; intros l n L Ss R.
  - cbn [fast_remove2_many fren2 length]. split; [lia|]. reflexivity.
  - assert (Sr : strictly_sorted r) by (apply (sorted_tail a); exact Ss).
    assert (Rr : forall c, In c r -> c < n) by (intros c Hc; apply R; right; exact Hc).
    destruct (IH l n L Sr Rr) as [Len Nth]. pose proof (sorted_room a r n Ss R) as Room.
    cbn [fast_remove2_many fren2 length]. split; [rewrite fast_remove2_length, Len; lia|].
    intros x Hx Nx. assert (Nr : ~ In (x / 2) r) by (intros H; apply Nx; right; exact H).
    assert (Nxa : x / 2 <> a) by (intros E; apply Nx; left; symmetry; exact E).
    set (y := fren2 n r x). destruct (fren2_spec n r x) as [Q1 Q2]. fold y in Q1, Q2.
    assert (Lt : y / 2 < n - length r) by (rewrite Q1; apply fren_lt; assumption).
    assert (Nya : y / 2 <> a).
    { rewrite Q1, fren_is_ren_asc. intros E. apply Nxa.
      refine (proj1 (proj2 (ren_asc_low rn_fast _ _ n r Sr Rr (x / 2) Hx Nr) a (strictly_sorted_lt a r Ss)) E);
        intros; unfold rn_fast, tr; repeat match goal with |- context [?u =? ?v] => destruct (Nat.eqb_spec u v) end; lia. }
    set (m := n - length r) in *. destruct (tr2_spec a (m - 1) y) as [T1 T2].
    rewrite nth_fast_remove2.
    + rewrite T1, T2, Len. fold m. unfold tr. destruct (Nat.eqb_spec (y / 2) a); [congruence|].
      destruct (Nat.eqb_spec (y / 2) (m - 1)) as [E|N2].
      * rewrite Nat.eqb_refl. rewrite <- (Nth x Hx Nr). fold y. f_equal. lia.
      * destruct (Nat.eqb_spec (y / 2) a); [congruence|]. rewrite <- (Nth x Hx Nr). fold y. f_equal.
        unfold tr2. destruct (Nat.eqb_spec (y / 2) a); [congruence|]. destruct (Nat.eqb_spec (y / 2) (m - 1)); [congruence|]. reflexivity.
    + rewrite Len. fold m. assert (tr a (m - 1) (y / 2) < m - 1) by (unfold tr; destruct (Nat.eqb_spec (y / 2) a); [congruence|]; destruct (Nat.eqb_spec (y / 2) (m - 1)); lia).
      lia.
Qed.

Theorem pval_pfast2_many n cs p x : length (pdata p) = 2 * n -> strictly_sorted cs -> (forall c, In c cs -> c < n) -> x / 2 < n -> ~ In (x / 2) cs ->
  pval (pfast2_many cs p) (fren2 n cs x) = pval p x.
Proof.
  intros L Ss R Hx Nx. unfold pval. destruct (pdata_pfast2_many cs p) as [E1 E2]. rewrite E1, E2.
  apply (proj2 (fast2_run_nth (pdef p) cs (pdata p) n L Ss R)); assumption.
Qed.
