(* Kernel3/GcFastCell.v -- C04, FAST mode, the cell pass of collect_garbage (flags of every kind pending):
     S3  gcfast_cell_last  : removing the LAST cell in fast mode = the index-shifting removal of it, up to the fast flag
     S4  gcfast_cell_step  : one step delete_cell_core h (clr_c h s) with c_deleted s h = true:
         ginv again, cells = fast_remove [] h, cell flags = fast_remove false h, rest untouched, cell properties pfast h. *)
From Coq Require Import ZArith Lia Bool Arith List ZifyNat ZifyBool.
From OVM Require Import Base.ListX Base.ListLemmas Base.ListLemmas2 Kernel.State Kernel.Ops Kernel.Mirror Kernel.Construct
                        Kernel.Recompute Kernel.Closure Kernel.ExactInv Kernel.ExactDelete Kernel.SwapEffects Kernel.SwapInvol Kernel.PropLaws
                        Kernel.DeleteEffects Kernel.DeleteDefs Kernel.GcFacts Kernel.SwapCellCache Kernel.SwapFaceCache Kernel.Sizes
                        Kernel2.LookupModel Kernel2.AdjacentProofs Kernel2.ReorderExact Kernel2.ExactBase Kernel2.ExactDelCell Kernel2.ExactHistory
                        Kernel.ShiftFace Kernel.ShiftEdge Kernel.ShiftVertex Kernel.ShiftCompose Kernel3.FastDefs Kernel3.FastBase
                        Kernel3.FastCell Kernel3.GcDefs Kernel3.GcList Kernel3.GcInv Kernel3.GcCell
                        Kernel3.GcFastBase Kernel3.GcFastCellSwap.
Import ListNotations.
Ltac Zify.zify_post_hook ::= Z.div_mod_to_equations.
Local Open Scope nat_scope.

Ltac rsgc := cbn [set_fast set_nv set_edges set_faces set_cells set_vdel set_edel set_fdel set_cdel set_counts set_flags
                set_out_hes set_inc_hfs set_inc_cell set_props swap_prop_elems delete_prop_elem resize_props
                vertex_deleted edge_deleted face_deleted cell_deleted
                nv edges faces cells vdel edel fdel cdel ndv nde ndf ndc vbu ebu fbu deferred fast
                out_hes inc_hfs inc_cell pv pe phe pf phf pc pm props fst snd].

(* ================================================================== S3 *)
Section CellLast.
Context (t : mesh).
Context (D : deferred t = false) (F : fast t = true) (I : ginv t) (Hn : 0 < nc t).

Local Notation l := (nc t - 1).
Local Notation u := (clr_c (nc t - 1) t).
Local Notation u0 := (clr_c (nc t - 1) (set_fast false t)).

Lemma gfc_inc_id : fbu t = true -> cell_inc l u = fold_left (clear_step l) (cell_at u l) (inc_cell u).
Proof.
  intros Fb. pose proof I as ((_ & _ & FO & _ & (_ & _ & L3 & _)) & _).
  unfold cell_inc. apply map_option_cor1_last. intros c Hc.
  destruct (In_nth _ _ None Hc) as [hf [Hhf Ehf]]. rewrite length_clear_fold in Hhf. change (inc_cell u) with (inc_cell t) in Hhf, Ehf.
  rewrite (L3 Fb) in Hhf. rewrite nth_clear_fold in Ehf.
  destruct (memb hf (cell_at u l) && is_h l (nth hf (inc_cell t) None)); [discriminate|].
  apply (FO Fb hf Hhf c) in Ehf. destruct Ehf as (Hc' & _). lia.
Qed.

Theorem gcfast_cell_last : delete_cell_core l u = set_fast true (delete_cell_core l u0).
Proof.
  assert (Hl : l < nc t) by lia.
  (* the fast side *)
  pose proof (fast_cell_view u D F) as V. cbv zeta in V. change (nc u) with (nc t) in V. destruct V as (x1 & x2 & x3 & (x5 & x6 & x7)).
  pose proof (delete_cell_core_defs l u D) as Df. cbv zeta in Df. unfold victim in Df. change (fast u) with (fast t) in Df.
  change (deferred u) with (deferred t) in Df. change (nc u) with (nc t) in Df. rewrite F, D in Df. cbn [andb negb] in Df.
  rewrite swap_cell_self in Df. destruct Df as (d1 & d2 & d3 & d4 & _).
  pose proof (delete_cell_core_props l u D) as P. cbv zeta in P. unfold victim in P. change (fast u) with (fast t) in P.
  change (deferred u) with (deferred t) in P. change (nc u) with (nc t) in P. rewrite F, D in P. cbn [andb negb] in P.
  rewrite swap_cell_self in P. destruct P as (p1 & p2 & p3 & p4 & p5 & p6 & p7 & p8 & p9 & p10 & p11).
  pose proof (cv_delete_cell_core l u D) as C. unfold cv in C. injection C as k1 k2 k3 k4 k5 k6.
  (* the index-shifting side *)
  pose proof (ShiftCompose.delete_cell_core_view l u0 D eq_refl) as W. cbv zeta in W.
  destruct W as (w1 & w2 & w3 & w4 & w5 & w6 & w7 & w8 & w9 & w10 & w11 & w12 & (m1 & m2 & m3 & m4 & m5)).
  pose proof (delete_cell_core_inc_hfs l u0 ltac:(reflexivity)) as Wh.
  pose proof (delete_cell_core_props l u0 D) as Q. cbv zeta in Q. unfold victim in Q. change (fast u0) with false in Q. cbn [andb] in Q.
  destruct Q as (q1 & q2 & q3 & q4 & q5 & q6 & q7 & q8 & q9 & q10 & q11).
  pose proof (cv_delete_cell_core l u0 D) as C'. unfold cv in C'. injection C' as j1 j2 j3 j4 j5 j6.
  pose proof gfc_inc_id as Cid.
  set (Y := delete_cell_core l u0) in *. set (Z := delete_cell_core l u) in *. clearbody Y Z.
  apply mesh_ext; rsgc.
  - rewrite d2, w1. reflexivity.
  - rewrite d3, w2. reflexivity.
  - rewrite d4, w3. reflexivity.
  - rewrite d1, w4. reflexivity.
  - rewrite p3, w5. reflexivity.
  - rewrite p4, w6. reflexivity.
  - rewrite p5, w7. reflexivity.
  - rewrite p1, q1. reflexivity.
  - rewrite k1, j1. reflexivity.
  - rewrite k2, j2. reflexivity.
  - rewrite k3, j3. reflexivity.
  - rewrite k4, j4. reflexivity.
  - rewrite x5, m1. reflexivity.
  - rewrite x6, m2. reflexivity.
  - rewrite x7, m3. reflexivity.
  - rewrite k5, j5. reflexivity.
  - rewrite k6. exact F.
  - rewrite x1, w9. reflexivity.
  - rewrite x3, Wh. symmetry. apply cell_loop_reads; [repeat split|reflexivity].
  - rewrite x2, w10, cell_loop_inc_cell. change (fbu u0) with (fbu t). change (fbu u) with (fbu t).
    change (inc_cell u0) with (inc_cell u). change (cell_inc l u0) with (cell_inc l u).
    destruct (fbu t) eqn:Fb; [symmetry; apply Cid; reflexivity|reflexivity].
  - rewrite p6, q6. reflexivity.
  - rewrite p7, q7. reflexivity.
  - rewrite p8, q8. reflexivity.
  - rewrite p9, q9. reflexivity.
  - rewrite p10, q10. reflexivity.
  - rewrite p2, q2. reflexivity.
  - rewrite p11, q11. reflexivity.
Qed.
End CellLast.

(* ================================================================== S3 + the non-fast step: removal of the flagged last cell *)

Lemma gcfast_cell_last_step t : deferred t = false -> fast t = true -> ginv t -> 0 < nc t ->
  c_deleted t (nc t - 1) = true ->
  let s' := delete_cell_core (nc t - 1) (clr_c (nc t - 1) t) in
  ginv s' /\ deferred s' = false /\ fast s' = true /\
  nv s' = nv t /\ edges s' = edges t /\ faces s' = faces t /\ cells s' = remove_nth (nc t - 1) (cells t) /\
  vdel s' = vdel t /\ edel s' = edel t /\ fdel s' = fdel t /\ cdel s' = remove_nth (nc t - 1) (cdel t) /\
  (vbu s' = vbu t /\ ebu s' = ebu t /\ fbu s' = fbu t).
Proof.
  intros Dt Ft It Hnt Hdt. cbv zeta.
  rewrite (gcfast_cell_last t Dt Ft It Hnt).
  pose proof (gc_cell_step (set_fast false t) (nc t - 1) Dt eq_refl (ginv_set_fast false t It) ltac:(change (nc t - 1 < nc t); lia) Hdt) as St.
  generalize dependent (delete_cell_core (nc t - 1) (clr_c (nc t - 1) (set_fast false t))). intros Y St.
  destruct St as (IY & DY & FY & a1 & a2 & a3 & a4 & a5 & a6 & a7 & a8 & (m1 & m2 & m3) & _).
  change (nv (set_fast false t)) with (nv t) in a1. change (edges (set_fast false t)) with (edges t) in a2.
  change (faces (set_fast false t)) with (faces t) in a3. change (cells (set_fast false t)) with (cells t) in a4.
  change (vdel (set_fast false t)) with (vdel t) in a5. change (edel (set_fast false t)) with (edel t) in a6.
  change (fdel (set_fast false t)) with (fdel t) in a7. change (cdel (set_fast false t)) with (cdel t) in a8.
  change (vbu (set_fast false t)) with (vbu t) in m1. change (ebu (set_fast false t)) with (ebu t) in m2.
  change (fbu (set_fast false t)) with (fbu t) in m3.
  split; [apply ginv_set_fast; exact IY|]. rsgc.
  split; [exact DY|]. split; [reflexivity|].
  exact (conj a1 (conj a2 (conj a3 (conj a4 (conj a5 (conj a6 (conj a7 (conj a8 (conj m1 (conj m2 m3)))))))))).
Qed.

(* ================================================================== S4: the step *)

Section CellStepFast.
Context (s : mesh) (h : nat).
Context (D : deferred s = false) (F : fast s = true) (I : ginv s) (Hh : h < nc s) (Hd : c_deleted s h = true).

Local Notation l := (nc s - 1).
Local Notation s' := (delete_cell_core h (clr_c h s)).

Lemma gcs_lens : length (cdel s) = nc s.
Proof. destruct I as ((_ & _ & _ & _ & (_ & _ & _ & _ & _ & L6)) & _). exact L6. Qed.

Lemma gcs_split : s' = delete_cell_core l (clr_c l (swap_cell_indices h l s)).
Proof.
  rewrite (fast_cell_split h (clr_c h s) D F). change (nc (clr_c h s)) with (nc s).
  rewrite swap_cell_clr by (rewrite gcs_lens; lia). reflexivity.
Qed.

Lemma gcs_swapped : let t := swap_cell_indices h l s in
  ginv t /\ deferred t = false /\ fast t = true /\ nc t = nc s /\ c_deleted t l = true /\
  nv t = nv s /\ edges t = edges s /\ faces t = faces s /\ cells t = swap_nth h l [] (cells s) /\
  vdel t = vdel s /\ edel t = edel s /\ fdel t = fdel s /\ cdel t = swap_nth h l false (cdel s) /\
  (vbu t = vbu s /\ ebu t = ebu s /\ fbu t = fbu s).
Proof.
  cbv zeta. assert (Hl : l < nc s) by lia.
  destruct (swap_cell_modes h l s) as (Dt & Ft & Nt & _ & _ & _ & Vt & Et & Bt).
  destruct (swap_cell_defs_g h l s) as (e1 & e2 & e3 & e4 & e5 & e6 & e7 & e8).
  split; [apply ginv_swap_cell; assumption|].
  split; [congruence|]. split; [congruence|]. split; [exact Nt|].
  split; [unfold c_deleted; rewrite e8, nth_swap_tr by (rewrite gcs_lens; lia); unfold tr; rewrite Nat.eqb_refl;
          destruct (Nat.eqb_spec l h) as [->|]; exact Hd|].
  repeat split; assumption.
Qed.

Theorem gcfast_cell_step :
  ginv s' /\ deferred s' = false /\ fast s' = true /\
  nv s' = nv s /\ edges s' = edges s /\ faces s' = faces s /\ cells s' = fast_remove [] h (cells s) /\
  vdel s' = vdel s /\ edel s' = edel s /\ fdel s' = fdel s /\ cdel s' = fast_remove false h (cdel s) /\
  (vbu s' = vbu s /\ ebu s' = ebu s /\ fbu s' = fbu s).
Proof.
  assert (Hl : l < nc s) by lia. pose proof gcs_lens as Lc.
  rewrite gcs_split. pose proof gcs_swapped as Sw. cbv zeta in Sw.
  generalize dependent (swap_cell_indices h l s). intros t Sw.
  destruct Sw as (It & Dt & Ft & Nt & Hdt & e1 & e2 & e3 & e4 & e5 & e6 & e7 & e8 & (b1 & b2 & b3)).
  rewrite <- Nt in Hdt. assert (Hnt : 0 < nc t) by lia.
  pose proof (gcfast_cell_last_step t Dt Ft It Hnt Hdt) as St. cbv zeta in St. rewrite Nt in St.
  generalize dependent (delete_cell_core l (clr_c l t)). intros Y St.
  destruct St as (IY & DY & FY & a1 & a2 & a3 & a4 & a5 & a6 & a7 & a8 & (m1 & m2 & m3)).
  refine (conj IY (conj DY (conj FY _))).
  rewrite a1, a2, a3, a4, a5, a6, a7, a8, m1, m2, m3, e1, e2, e3, e4, e5, e6, e7, e8, b1, b2, b3.
  splits; try reflexivity.
  - unfold nc. apply fast_remove_swap. exact Hh.
  - rewrite <- Lc. apply fast_remove_swap. rewrite Lc. exact Hh.
Qed.
End CellStepFast.

(* ================================================================== properties, sizes: unconditional *)

Lemma gcfast_cell_step_props s h : deferred s = false -> fast s = true -> sized s -> h < nc s ->
  let s' := delete_cell_core h (clr_c h s) in
  sized s' /\ pc s' = map (pfast h) (pc s) /\
  pv s' = pv s /\ pe s' = pe s /\ phe s' = phe s /\ pf s' = pf s /\ phf s' = phf s /\ pm s' = pm s.
Proof.
  intros D F Z Hh. cbv zeta.
  assert (Zc : sized (clr_c h s)) by (apply szd_sized; apply szd_upd_flag_c; apply szd_sized; exact Z).
  pose proof (fast_cell_arrays h (clr_c h s) D F Zc Hh) as A. unfold cell_arrays_fast in A.
  destruct A as (_ & _ & _ & _ & a5 & a6 & a7 & a8 & a9 & a10 & a11 & _).
  split; [apply szd_sized, szd_delete_cell_core; apply szd_sized; exact Zc|]. repeat split; assumption.
Qed.
