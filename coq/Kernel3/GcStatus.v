(* Kernel3/GcStatus.v -- C04: StatusAttrib::garbage_collection (Kernel/StatusGC.v status_gc), NON-FAST mode.
     status_pre     the state s2 after forcing deferred mode, deleting the status-marked entities and (option) the manifoldness pass
     status_gc_tracking        under gc_ready s2: the returned handle maps send a tracked handle to its rank if its entity is live in
                               s2 and to None if it was removed; the returned mesh is the logical mesh of s2, deferred mode restored
     Hinv_status_pre           gc_ready s2 holds when the call is made after a deferred-mode history (both values of the option)
   Not proved (see Props/Properties_C04_gc.v): WHICH entities the manifoldness pass flags, and the fast mode. *)
From Coq Require Import ZArith Lia Bool Arith List ZifyNat ZifyBool.
From OVM Require Import Base.ListX Base.ListLemmas Kernel.State Kernel.Ops Kernel.StatusGC Kernel.GcFacts Kernel.ExactInv Kernel.ExactRun
                        Kernel.DeferredDelete Kernel.Sizes Kernel.SwapInvol
                        Kernel2.ListAux Kernel2.ReorderExact Kernel2.ExactBase Kernel2.ExactDeletions Kernel2.ExactHistory
                        Kernel.ShiftFace Kernel.ShiftCompose
                        Kernel3.GcDefs Kernel3.GcList Kernel3.GcInv Kernel3.GcMain Kernel3.GcDeferred Kernel3.GcHist Kernel3.GcTrack.
Import ListNotations.
Ltac Zify.zify_post_hook ::= Z.div_mod_to_equations.
Local Open Scope nat_scope.

Definition status_pre (pm : bool) (mv me mf mc : list nat) (s : mesh) : mesh :=
  let s1 := sgc_marked mv me mf mc (enable_deferred true s) in if pm then sgc_manifold s1 else s1.

Definition tracking_on (tv the thf tc : list nat) : bool :=
  negb (match tv, the, thf, tc with [], [], [], [] => true | _, _, _, _ => false end).

Lemma status_gc_eq pm mv me mf mc tv the thf tc s :
  status_gc pm mv me mf mc tv the thf tc s =
  let s2 := status_pre pm mv me mf mc s in
  if tracking_on tv the thf tc then
    let s4 := collect_garbage (with_tokens s2) in
    (enable_deferred (deferred s) (without_tokens s4),
     (map (new_of_old (last_prop (pv s4))) tv, map (new_of_old (last_prop (phe s4))) the,
      map (new_of_old (last_prop (phf s4))) thf, map (new_of_old (last_prop (pc s4))) tc))
  else (enable_deferred (deferred s) (collect_garbage s2), ([], [], [], [])).
Proof. reflexivity. Qed.

Lemma enable_deferred_after_gc def t : deferred t = true -> needs_gc t = false ->
  enable_deferred def t = set_flags (vbu t) (ebu t) (fbu t) def (fast t) t.
Proof.
  intros D G. unfold enable_deferred. rewrite D. destruct def; cbn [negb andb]; [reflexivity|].
  rewrite (collect_garbage_noop_when_nothing_pending t G). reflexivity.
Qed.

Lemma set_mode_fields d t : let u := set_flags (vbu t) (ebu t) (fbu t) d (fast t) t in
  nv u = nv t /\ edges u = edges t /\ faces u = faces t /\ cells u = cells t /\ (forall k, props k u = props k t) /\
  deferred u = d /\ fast u = fast t /\ vbu u = vbu t /\ ebu u = ebu t /\ fbu u = fbu t.
Proof. cbv zeta. splits; reflexivity. Qed.
Lemma set_mode_no_flags d t : no_flags t -> no_flags (set_flags (vbu t) (ebu t) (fbu t) d (fast t) t).
Proof. intros H. exact H. Qed.
Lemma set_mode_ginv d t : ginv t -> ginv (set_flags (vbu t) (ebu t) (fbu t) d (fast t) t).
Proof. intros H. exact H. Qed.

(* what the caller gets back *)
Definition status_result (s2 : mesh) (def : bool) (t : mesh) : Prop :=
  nv t = logical_nv s2 /\ edges t = logical_edges s2 /\ faces t = logical_faces s2 /\ cells t = logical_cells s2 /\
  (forall k, props k t = logical_props k s2) /\ no_flags t /\ ginv t /\ deferred t = def /\ fast t = false /\
  (vbu t = vbu s2 /\ ebu t = ebu s2 /\ fbu t = fbu s2).

Theorem status_gc_tracking pm mv me mf mc tv the thf tc s :
  let s2 := status_pre pm mv me mf mc s in
  gc_ready s2 -> fast s2 = false ->
  let r := status_gc pm mv me mf mc tv the thf tc s in
  status_result s2 (deferred s) (fst r) /\
  (tracking_on tv the thf tc = true ->
   snd r = (map (track_v s2) tv, map (track_he s2) the, map (track_hf s2) thf, map (track_c s2) tc)) /\
  (tracking_on tv the thf tc = false -> snd r = ([], [], [], [])).
Proof.
  cbv zeta. intros R F. rewrite status_gc_eq. cbv zeta. set (s2 := status_pre pm mv me mf mc s) in *. clearbody s2.
  destruct (tracking_on tv the thf tc) eqn:T.
  - cbn [fst snd]. pose proof (tokens_stripped s2 R F) as St. cbv zeta in St.
    pose proof (track_vertices s2 R F) as Tv. pose proof (track_halfedges s2 R F) as The.
    pose proof (track_halffaces s2 R F) as Thf. pose proof (track_cells s2 R F) as Tc.
    generalize dependent (collect_garbage (with_tokens s2)). intros s4 St Tv The Thf Tc.
    destruct St as (a1 & a2 & a3 & a4 & a5 & a6 & a7 & a8 & a9 & a10 & (m1 & m2 & m3)).
    rewrite (enable_deferred_after_gc (deferred s) (without_tokens s4) a8 a7).
    pose proof (set_mode_fields (deferred s) (without_tokens s4)) as Fd. cbv zeta in Fd.
    pose proof (set_mode_no_flags (deferred s) (without_tokens s4) a6) as NFu. pose proof (set_mode_ginv (deferred s) (without_tokens s4) a10) as Iu.
    generalize dependent (set_flags (vbu (without_tokens s4)) (ebu (without_tokens s4)) (fbu (without_tokens s4)) (deferred s) (fast (without_tokens s4)) (without_tokens s4)).
    intros u (f1 & f2 & f3 & f4 & f5 & f6 & f7 & f8 & f9 & f10) NFu Iu.
    split; [|split; [|discriminate]].
    + unfold status_result. rewrite f1, f2, f3, f4, f6, f7, f8, f9, f10, a1, a2, a3, a4, a9, m1, m2, m3.
      splits; try reflexivity; try assumption. intros k. rewrite f5. apply a5.
    + intros _. f_equal; [f_equal; [f_equal|]|]; apply map_ext; assumption.
  - cbn [fst snd]. pose proof (collect_garbage_nonfast_logical s2 R F) as Lg. cbv zeta in Lg.
    generalize dependent (collect_garbage s2). intros t Lg.
    destruct Lg as (l1 & l2 & l3 & l4 & _ & _ & _ & _ & l9 & l10 & l11 & l12 & l13 & (m1 & m2 & m3) & (_ & _ & l15) & _).
    rewrite (enable_deferred_after_gc (deferred s) t l12 l10).
    pose proof (set_mode_fields (deferred s) t) as Fd. cbv zeta in Fd.
    pose proof (set_mode_no_flags (deferred s) t l9) as NFu. pose proof (set_mode_ginv (deferred s) t l15) as Iu.
    generalize dependent (set_flags (vbu t) (ebu t) (fbu t) (deferred s) (fast t) t).
    intros u (f1 & f2 & f3 & f4 & f5 & f6 & f7 & f8 & f9 & f10) NFu Iu.
    split; [|split; [discriminate|reflexivity]].
    unfold status_result. rewrite f1, f2, f3, f4, f6, f7, f8, f9, f10, l1, l2, l3, l4, l13, m1, m2, m3.
    splits; try reflexivity; try assumption. intros k. rewrite f5. apply l11.
Qed.

(* ================================================================== after a deferred-mode history the hypothesis holds for s2 *)

Lemma Hinv_fold {X} (step : mesh -> X -> mesh) l : (forall s x, Hinv s -> Hinv (step s x) /\ fast (step s x) = fast s) ->
  forall s, Hinv s -> Hinv (fold_left step l s) /\ fast (fold_left step l s) = fast s.
Proof.
  intros H. induction l as [|x l IH]; intros s Hs; [auto|]. cbn [fold_left]. destruct (H s x Hs) as [A B].
  destruct (IH _ A) as [C E]. split; [exact C|congruence].
Qed.

Lemma Hinv_del_op s o : Hinv s -> hist_op o = true -> valid_op2 s o = true -> Hinv (next s o).
Proof. intros H G V. apply Hinv_step; auto. Qed.

Lemma Hinv_deferred s : Hinv s -> deferred s = true.
Proof. intros H. exact (proj1 (hinv_parts s (Hinv_hinv s H))). Qed.

Lemma dstep_fast s s' a b c d : dstep s s' a b c d -> fast s' = fast s.
Proof. intros (_&_&_&_&_&_&_&_&_&_&_&_&(_&_&_&_&f5)&_). exact f5. Qed.

Lemma Hinv_delete_vertex s v : Hinv s -> live_v s v = true -> Hinv (delete_vertex v s) /\ fast (delete_vertex v s) = fast s.
Proof.
  intros H L. split.
  - pose proof (Hinv_del_op s (DelVertex v) H eq_refl eq_refl) as N. rewrite next_valid in N by exact L. exact N.
  - exact (dstep_fast _ _ _ _ _ _ (delete_vertex_deferred v s (Hinv_deferred s H))).
Qed.
Lemma Hinv_delete_edge s e : Hinv s -> live_e s e = true -> Hinv (delete_edge e s) /\ fast (delete_edge e s) = fast s.
Proof.
  intros H L. split.
  - pose proof (Hinv_del_op s (DelEdge e) H eq_refl eq_refl) as N. rewrite next_valid in N by exact L. exact N.
  - exact (dstep_fast _ _ _ _ _ _ (delete_edge_deferred e s (Hinv_deferred s H))).
Qed.
Lemma Hinv_delete_face s f : Hinv s -> live_f s f = true -> Hinv (delete_face f s) /\ fast (delete_face f s) = fast s.
Proof.
  intros H L. split.
  - pose proof (Hinv_del_op s (DelFace f) H eq_refl eq_refl) as N. rewrite next_valid in N by exact L. exact N.
  - exact (dstep_fast _ _ _ _ _ _ (delete_face_deferred f s (Hinv_deferred s H))).
Qed.
Lemma Hinv_delete_cell s c : Hinv s -> live_c s c = true -> Hinv (delete_cell c s) /\ fast (delete_cell c s) = fast s.
Proof.
  intros H L. split.
  - pose proof (Hinv_del_op s (DelCell c) H eq_refl eq_refl) as N. rewrite next_valid in N by exact L. exact N.
  - exact (dstep_fast _ _ _ _ _ _ (delete_cell_deferred c s (Hinv_deferred s H))).
Qed.

Theorem Hinv_sgc_marked mv me mf mc s : Hinv s -> Hinv (sgc_marked mv me mf mc s) /\ fast (sgc_marked mv me mf mc s) = fast s.
Proof.
  intros H. unfold sgc_marked.
  set (stv := fun s v => if live_v s v && memb v mv then delete_vertex v s else s).
  set (ste := fun s e => if live_e s e && memb e me then delete_edge e s else s).
  set (stf := fun s f => if live_f s f && memb f mf then delete_face f s else s).
  set (stc := fun s c => if live_c s c && memb c mc then delete_cell c s else s).
  assert (Sv : forall s x, Hinv s -> Hinv (stv s x) /\ fast (stv s x) = fast s).
  { intros t x Ht. unfold stv. destruct (live_v t x) eqn:L; [|auto]. destruct (memb x mv); [|auto]. apply Hinv_delete_vertex; assumption. }
  assert (Se : forall s x, Hinv s -> Hinv (ste s x) /\ fast (ste s x) = fast s).
  { intros t x Ht. unfold ste. destruct (live_e t x) eqn:L; [|auto]. destruct (memb x me); [|auto]. apply Hinv_delete_edge; assumption. }
  assert (Sf : forall s x, Hinv s -> Hinv (stf s x) /\ fast (stf s x) = fast s).
  { intros t x Ht. unfold stf. destruct (live_f t x) eqn:L; [|auto]. destruct (memb x mf); [|auto]. apply Hinv_delete_face; assumption. }
  assert (Sc : forall s x, Hinv s -> Hinv (stc s x) /\ fast (stc s x) = fast s).
  { intros t x Ht. unfold stc. destruct (live_c t x) eqn:L; [|auto]. destruct (memb x mc); [|auto]. apply Hinv_delete_cell; assumption. }
  cbv zeta.
  destruct (Hinv_fold stv (seq 0 (nv s)) Sv s H) as [H1 F1]. set (s1 := fold_left stv (seq 0 (nv s)) s) in *.
  destruct (Hinv_fold ste (seq 0 (ne s1)) Se s1 H1) as [H2 F2]. set (s2 := fold_left ste (seq 0 (ne s1)) s1) in *.
  destruct (Hinv_fold stf (seq 0 (nf s2)) Sf s2 H2) as [H3 F3]. set (s3 := fold_left stf (seq 0 (nf s2)) s2) in *.
  destruct (Hinv_fold stc (seq 0 (nc s3)) Sc s3 H3) as [H4 F4]. split; [exact H4|congruence].
Qed.

Lemma Hinv_enable_vbu b s : Hinv s -> Hinv (enable_vbu b s).
Proof.
  intros (B & Ks & Z). split; [apply bu_inv2_enable_vbu; exact B|]. split; [apply (K_kview s); [apply kview_enable_vbu|exact Ks]|apply szd_enable_vbu; exact Z].
Qed.

Lemma enable_ebu_on s : ebu s = true -> enable_ebu true s = set_flags (vbu s) true (fbu s) (deferred s) (fast s) s.
Proof. intros E. unfold enable_ebu. rewrite E. reflexivity. Qed.
Lemma enable_fbu_on s : fbu s = true -> enable_fbu true s = set_flags (vbu s) (ebu s) true (deferred s) (fast s) s.
Proof. intros E. unfold enable_fbu. rewrite E. reflexivity. Qed.

Lemma Hinv_same_flags s : Hinv s -> Hinv (set_flags (vbu s) (ebu s) (fbu s) (deferred s) (fast s) s).
Proof.
  intros (B & Ks & Z). split; [|split; [apply (K_kview s); [reflexivity|exact Ks]|apply szd_set_flags; exact Z]].
  exact B.
Qed.

Lemma Hinv_flags s : Hinv s -> ebu s = true /\ fbu s = true.
Proof. intros ((_ & E & Fb & _) & _). auto. Qed.

Lemma Hinv_enable_ebu_true s : Hinv s -> Hinv (enable_ebu true s) /\ fast (enable_ebu true s) = fast s.
Proof.
  intros H. destruct (Hinv_flags s H) as [E Fb]. rewrite (enable_ebu_on s E).
  assert (X : set_flags (vbu s) true (fbu s) (deferred s) (fast s) s = set_flags (vbu s) (ebu s) (fbu s) (deferred s) (fast s) s) by (rewrite E; reflexivity).
  rewrite X. split; [apply Hinv_same_flags; exact H|reflexivity].
Qed.
Lemma Hinv_enable_fbu_true s : Hinv s -> Hinv (enable_fbu true s) /\ fast (enable_fbu true s) = fast s.
Proof.
  intros H. destruct (Hinv_flags s H) as [E Fb]. rewrite (enable_fbu_on s Fb).
  assert (X : set_flags (vbu s) (ebu s) true (deferred s) (fast s) s = set_flags (vbu s) (ebu s) (fbu s) (deferred s) (fast s) s) by (rewrite Fb; reflexivity).
  rewrite X. split; [apply Hinv_same_flags; exact H|reflexivity].
Qed.
Lemma fast_enable_vbu b s : fast (enable_vbu b s) = fast s.
Proof. unfold enable_vbu. destruct b; destruct (vbu s); reflexivity. Qed.

Theorem Hinv_sgc_manifold s : Hinv s -> Hinv (sgc_manifold s) /\ fast (sgc_manifold s) = fast s.
Proof.
  intros H. unfold sgc_manifold.
  set (t0 := enable_fbu true (enable_ebu true (enable_vbu true s))).
  assert (H0 : Hinv t0 /\ fast t0 = fast s).
  { pose proof (Hinv_enable_vbu true s H) as Hv. destruct (Hinv_enable_ebu_true _ Hv) as [He Fe]. destruct (Hinv_enable_fbu_true _ He) as [Hf Ff].
    split; [exact Hf|]. unfold t0. rewrite Ff, Fe. apply fast_enable_vbu. }
  destruct H0 as [H0 F0]. clearbody t0.
  set (stf := fun s f => if live_f s f then match cell_of s (2 * f) with Some _ => s | None => match cell_of s (2 * f + 1) with Some _ => s | None => delete_face f s end end else s).
  set (ste := fun s e => if live_e s e && (length (hfs_at s (2 * e)) =? 0) then delete_edge e s else s).
  set (stv := fun s v => if live_v s v && (length (out_at s v) =? 0) then delete_vertex v s else s).
  assert (Sf : forall s x, Hinv s -> Hinv (stf s x) /\ fast (stf s x) = fast s).
  { intros t x Ht. unfold stf. destruct (live_f t x) eqn:L; [|auto]. destruct (cell_of t (2 * x)); [auto|]. destruct (cell_of t (2 * x + 1)); [auto|].
    apply Hinv_delete_face; assumption. }
  assert (Se : forall s x, Hinv s -> Hinv (ste s x) /\ fast (ste s x) = fast s).
  { intros t x Ht. unfold ste. destruct (live_e t x) eqn:L; [|auto]. destruct (length (hfs_at t (2 * x)) =? 0); [|auto]. apply Hinv_delete_edge; assumption. }
  assert (Sv : forall s x, Hinv s -> Hinv (stv s x) /\ fast (stv s x) = fast s).
  { intros t x Ht. unfold stv. destruct (live_v t x) eqn:L; [|auto]. destruct (length (out_at t x) =? 0); [|auto]. apply Hinv_delete_vertex; assumption. }
  cbv zeta.
  destruct (Hinv_fold stf (seq 0 (nf t0)) Sf t0 H0) as [H1 F1]. set (t1 := fold_left stf (seq 0 (nf t0)) t0) in *.
  destruct (Hinv_fold ste (seq 0 (ne t1)) Se t1 H1) as [H2 F2]. set (t2 := fold_left ste (seq 0 (ne t1)) t1) in *.
  destruct (Hinv_fold stv (seq 0 (nv t2)) Sv t2 H2) as [H3 F3]. split; [exact H3|congruence].
Qed.

Lemma enable_deferred_on s : deferred s = true -> enable_deferred true s = set_flags (vbu s) (ebu s) (fbu s) (deferred s) (fast s) s.
Proof. intros D. unfold enable_deferred. rewrite D. reflexivity. Qed.

Theorem Hinv_status_pre pm mv me mf mc s : Hinv s -> Hinv (status_pre pm mv me mf mc s) /\ fast (status_pre pm mv me mf mc s) = fast s.
Proof.
  intros H. unfold status_pre. cbv zeta. rewrite (enable_deferred_on s (Hinv_deferred s H)).
  pose proof (Hinv_same_flags s H) as H0. set (s0 := set_flags (vbu s) (ebu s) (fbu s) (deferred s) (fast s) s) in *.
  assert (F0 : fast s0 = fast s) by reflexivity. clearbody s0.
  destruct (Hinv_sgc_marked mv me mf mc s0 H0) as [H1 F1]. destruct pm; [|split; [exact H1|congruence]].
  destruct (Hinv_sgc_manifold _ H1) as [H2 F2]. split; [exact H2|congruence].
Qed.

(* StatusAttrib::garbage_collection after any deferred-mode history, fast deletion off, both values of the manifoldness option *)
Theorem status_gc_after_history ops pm mv me mf mc tv the thf tc : hist_ok ops = true -> fast (run ops) = false ->
  let s := run ops in let s2 := status_pre pm mv me mf mc s in
  let r := status_gc pm mv me mf mc tv the thf tc s in
  status_result s2 true (fst r) /\
  (tracking_on tv the thf tc = true ->
   snd r = (map (track_v s2) tv, map (track_he s2) the, map (track_hf s2) thf, map (track_c s2) tc)) /\
  (tracking_on tv the thf tc = false -> snd r = ([], [], [], [])).
Proof.
  intros Hk F. cbv zeta. pose proof (Hinv_along_histories ops Hk) as H. destruct (Hinv_status_pre pm mv me mf mc (run ops) H) as [H2 F2].
  pose proof (status_gc_tracking pm mv me mf mc tv the thf tc (run ops)) as T. cbv zeta in T.
  rewrite (Hinv_deferred _ H) in T. apply T; [apply Hinv_gc_ready; exact H2|congruence].
Qed.
