(* Kernel3/GcFastPassCF.v -- C04, FAST mode: the CELL pass and the FACE pass of collect_garbage (S5), by induction on the bound.
   Each pass yields a renumbering r of the live entities of its kind (Kernel3/GcFastRen.v): count = number of live ones, the
   definition / flag / property slot of the live index i is found at r i, the referrers are renamed through r2 r. *)
From Coq Require Import ZArith Lia Bool Arith List ZifyNat ZifyBool.
From OVM Require Import Base.ListX Base.ListLemmas Kernel.State Kernel.Ops Kernel.ExactInv Kernel.SwapInvol Kernel.PropLaws Kernel.ShiftFace
                        Kernel3.FastDefs Kernel3.FastBase Kernel3.GcDefs Kernel3.GcList Kernel3.GcInv
                        Kernel3.GcFastBase Kernel3.GcFastRen Kernel3.GcFastCell Kernel3.GcFastFace.
Import ListNotations.
Ltac Zify.zify_post_hook ::= Z.div_mod_to_equations.
Local Open Scope nat_scope.

Lemma ginv_len_cdel s : ginv s -> length (cdel s) = nc s.
Proof. intros ((_ & _ & _ & _ & (_ & _ & _ & _ & _ & L6)) & _). exact L6. Qed.
Lemma ginv_len_fdel s : ginv s -> length (fdel s) = nf s.
Proof. intros ((_ & _ & _ & _ & (_ & _ & _ & _ & L5 & _)) & _). exact L5. Qed.
Lemma ginv_len_edel s : ginv s -> length (edel s) = ne s.
Proof. intros ((_ & _ & _ & _ & (_ & _ & _ & L4 & _)) & _). exact L4. Qed.
Lemma ginv_len_vdel s : ginv s -> length (vdel s) = nv s.
Proof. intros (_ & LV & _). exact LV. Qed.

(* ================================================================== the cell pass *)

Definition cell_pass_post (s t : mesh) (r : nat -> nat) : Prop :=
  ginv t /\ deferred t = false /\ fast t = true /\ sized t /\ no_cflags t /\
  nv t = nv s /\ edges t = edges s /\ faces t = faces s /\
  vdel t = vdel s /\ edel t = edel s /\ fdel t = fdel s /\
  (vbu t = vbu s /\ ebu t = ebu s /\ fbu t = fbu s) /\
  ren_ok (cdel s) (nc s) r (nc t) /\ arr_ren [] (cdel s) (nc s) r (cells s) (cells t) /\
  props_ren (cdel s) (nc s) r (pc s) (pc t) /\
  (pv t = pv s /\ pe t = pe s /\ phe t = phe s /\ pf t = pf s /\ phf t = phf s /\ pm t = pm s).

Lemma cell_pass_post_step s s1 t r1 n : ginv s -> sized s -> n < nc s -> c_deleted s n = true ->
  (forall i, n < i -> c_deleted s i = false) ->
  nv s1 = nv s -> edges s1 = edges s -> faces s1 = faces s -> cells s1 = fast_remove [] n (cells s) ->
  vdel s1 = vdel s -> edel s1 = edel s -> fdel s1 = fdel s -> cdel s1 = fast_remove false n (cdel s) ->
  vbu s1 = vbu s -> ebu s1 = ebu s -> fbu s1 = fbu s ->
  pc s1 = map (pfast n) (pc s) -> pv s1 = pv s -> pe s1 = pe s -> phe s1 = phe s -> pf s1 = pf s -> phf s1 = phf s -> pm s1 = pm s ->
  cell_pass_post s1 t r1 -> cell_pass_post s t (fun i => r1 (tr n (nc s - 1) i)).
Proof.
  intros I Z Hlt Hd Ab a1 a2 a3 a4 a5 a6 a7 a8 m1 m2 m3 q1 q2 q3 q4 q5 q6 q7
         (It & Dt & Ft & Zt & NCt & b1 & b2 & b3 & b5 & b6 & b7 & (n1 & n2 & n3) & R & A & P & (r2_ & r3 & r4 & r5 & r6 & r7)).
  pose proof (ginv_len_cdel s I) as Lc. destruct Z as (_ & _ & _ & _ & Lp).
  assert (N1 : nc s1 = nc s - 1) by (unfold nc; rewrite a4, fast_remove_length; reflexivity).
  rewrite a8, N1 in R, A, P. rewrite a4 in A. rewrite q1 in P.
  unfold cell_pass_post. refine (conj It (conj Dt (conj Ft (conj Zt (conj NCt _))))).
  rewrite b1, b2, b3, b5, b6, b7, n1, n2, n3, r2_, r3, r4, r5, r6, r7, a1, a2, a3, a5, a6, a7, m1, m2, m3, q2, q3, q4, q5, q6, q7.
  splits; try reflexivity.
  - apply ren_ok_step; assumption.
  - apply arr_ren_step; try assumption. reflexivity.
  - apply props_ren_step; try assumption. intros p Hp. exact (Lp KC p Hp).
Qed.

Theorem gcfast_cell_pass n : forall s, deferred s = false -> fast s = true -> ginv s -> sized s -> n <= nc s ->
  (forall i, n <= i -> c_deleted s i = false) -> exists r, cell_pass_post s (pass_c n s) r.
Proof.
  unfold pass_c. induction n as [|n IH]; intros s D F I Z Hn Hi.
  - rewrite gc_pass_0. exists (fun i => i).
    assert (NC : forall i, nth i (cdel s) false = false) by (intros i; apply (Hi i); lia).
    unfold cell_pass_post. refine (conj I (conj D (conj F (conj Z (conj NC _))))). splits; try reflexivity.
    + apply ren_ok_id. exact NC.
    + apply arr_ren_id.
    + apply props_ren_id.
  - rewrite gc_pass_S. destruct (c_deleted s n) eqn:Hd.
    + assert (Hlt : n < nc s) by lia.
      pose proof (gcfast_cell_step s n D F I Hlt Hd) as St. pose proof (gcfast_cell_step_props s n D F Z Hlt) as Pr. cbv zeta in Pr.
      set (s1 := delete_cell_core n (clr_c n s)) in *. clearbody s1.
      destruct St as (I1 & D1 & F1 & a1 & a2 & a3 & a4 & a5 & a6 & a7 & a8 & (m1 & m2 & m3)).
      destruct Pr as (Z1 & q1 & q2 & q3 & q4 & q5 & q6 & q7).
      assert (Hn1 : n <= nc s1) by (unfold nc; rewrite a4, fast_remove_length; fold (nc s); lia).
      assert (Ab : forall i, n < i -> c_deleted s i = false) by (intros i Hgt; apply Hi; lia).
      assert (Hi1 : forall i, n <= i -> c_deleted s1 i = false).
      { intros i Hge. unfold c_deleted. rewrite a8. apply (flags_above_fast_remove (cdel s) n (nc s) (ginv_len_cdel s I) Hlt Ab). exact Hge. }
      destruct (IH s1 D1 F1 I1 Z1 Hn1 Hi1) as [r1 P1]. exists (fun i => r1 (tr n (nc s - 1) i)).
      apply (cell_pass_post_step s s1 _ r1 n); assumption.
    + apply (IH s D F I Z); [lia|]. intros i Hge. destruct (Nat.eq_dec i n) as [->|N]; [exact Hd|apply Hi; lia].
Qed.

(* ================================================================== the face pass *)

Definition face_pass_post (s t : mesh) (r : nat -> nat) : Prop :=
  ginv t /\ deferred t = false /\ fast t = true /\ sized t /\ no_cflags t /\ no_fflags t /\
  nv t = nv s /\ edges t = edges s /\ cells t = map (map (r2 r)) (cells s) /\
  vdel t = vdel s /\ edel t = edel s /\ cdel t = cdel s /\
  (vbu t = vbu s /\ ebu t = ebu s /\ fbu t = fbu s) /\
  ren_ok (fdel s) (nf s) r (nf t) /\ arr_ren [] (fdel s) (nf s) r (faces s) (faces t) /\
  props_ren (fdel s) (nf s) r (pf s) (pf t) /\ props_ren2 (fdel s) (nf s) r (phf s) (phf t) /\
  (pv t = pv s /\ pe t = pe s /\ phe t = phe s /\ pc t = pc s /\ pm t = pm s).

Lemma face_pass_post_step s s1 t r1 n : ginv s -> sized s -> n < nf s -> f_deleted s n = true ->
  (forall i, n < i -> f_deleted s i = false) ->
  nv s1 = nv s -> edges s1 = edges s -> faces s1 = fast_remove [] n (faces s) -> cells s1 = map (map (tr2 n (nf s - 1))) (cells s) ->
  vdel s1 = vdel s -> edel s1 = edel s -> fdel s1 = fast_remove false n (fdel s) -> cdel s1 = cdel s ->
  vbu s1 = vbu s -> ebu s1 = ebu s -> fbu s1 = fbu s ->
  pf s1 = map (pfast n) (pf s) -> phf s1 = map (pfast2 n) (phf s) ->
  pv s1 = pv s -> pe s1 = pe s -> phe s1 = phe s -> pc s1 = pc s -> pm s1 = pm s ->
  face_pass_post s1 t r1 -> face_pass_post s t (fun i => r1 (tr n (nf s - 1) i)).
Proof.
  intros I Z Hlt Hd Ab a1 a2 a3 a4 a5 a6 a7 a8 m1 m2 m3 q1 q2 q3 q4 q5 q6 q7
         (It & Dt & Ft & Zt & NCt & NFt & b1 & b2 & b4 & b5 & b6 & b8 & (n1 & n2 & n3) & R & A & P & P2 & (r3 & r4 & r5 & r6 & r7)).
  pose proof (ginv_len_fdel s I) as Lf. destruct Z as (_ & _ & _ & _ & Lp).
  assert (N1 : nf s1 = nf s - 1) by (unfold nf; rewrite a3, fast_remove_length; reflexivity).
  rewrite a7, N1 in R, A, P, P2. rewrite a3 in A. rewrite q1 in P. rewrite q2 in P2.
  unfold face_pass_post. refine (conj It (conj Dt (conj Ft (conj Zt (conj NCt (conj NFt _)))))).
  rewrite b1, b2, b4, b5, b6, b8, n1, n2, n3, r3, r4, r5, r6, r7, a1, a2, a4, a5, a6, a8, m1, m2, m3, q3, q4, q5, q6, q7.
  splits; try reflexivity.
  - apply map_map_r2_comp.
  - apply ren_ok_step; assumption.
  - apply arr_ren_step; try assumption. reflexivity.
  - apply props_ren_step; try assumption. intros p Hp. exact (Lp KF p Hp).
  - apply props_ren2_step; try assumption. intros p Hp. exact (Lp KHF p Hp).
Qed.

Theorem gcfast_face_pass n : forall s, deferred s = false -> fast s = true -> ginv s -> sized s -> no_cflags s -> n <= nf s ->
  (forall i, n <= i -> f_deleted s i = false) -> exists r, face_pass_post s (pass_f n s) r.
Proof.
  unfold pass_f. induction n as [|n IH]; intros s D F I Z NC Hn Hi.
  - rewrite gc_pass_0. exists (fun i => i).
    assert (NF : forall i, nth i (fdel s) false = false) by (intros i; apply (Hi i); lia).
    unfold face_pass_post. refine (conj I (conj D (conj F (conj Z (conj NC (conj NF _)))))). splits; try reflexivity.
    + symmetry. apply map_map_r2_id.
    + apply ren_ok_id. exact NF.
    + apply arr_ren_id.
    + apply props_ren_id.
    + apply props_ren2_id.
  - rewrite gc_pass_S. destruct (f_deleted s n) eqn:Hd.
    + assert (Hlt : n < nf s) by lia.
      pose proof (gcfast_face_step s n D F I NC Hlt Hd) as St. pose proof (gcfast_face_step_props s n D F Z Hlt) as Pr. cbv zeta in Pr.
      set (s1 := delete_face_core n (clr_f n s)) in *. clearbody s1.
      destruct St as (I1 & D1 & F1 & NC1 & a1 & a2 & a3 & a4 & a5 & a6 & a7 & a8 & (m1 & m2 & m3)).
      destruct Pr as (Z1 & q1 & q2 & q3 & q4 & q5 & q6 & q7).
      assert (Hn1 : n <= nf s1) by (unfold nf; rewrite a3, fast_remove_length; fold (nf s); lia).
      assert (Ab : forall i, n < i -> f_deleted s i = false) by (intros i Hgt; apply Hi; lia).
      assert (Hi1 : forall i, n <= i -> f_deleted s1 i = false).
      { intros i Hge. unfold f_deleted. rewrite a7. apply (flags_above_fast_remove (fdel s) n (nf s) (ginv_len_fdel s I) Hlt Ab). exact Hge. }
      destruct (IH s1 D1 F1 I1 Z1 NC1 Hn1 Hi1) as [r1 P1]. exists (fun i => r1 (tr n (nf s - 1) i)).
      apply (face_pass_post_step s s1 _ r1 n); assumption.
    + apply (IH s D F I Z NC); [lia|]. intros i Hge. destruct (Nat.eq_dec i n) as [->|N]; [exact Hd|apply Hi; lia].
Qed.
