(* Kernel3/GcFastCellSwap.v -- C04, FAST mode, cell pass, step S1: swap_cell_indices on a state WITH pending flags of every kind
   keeps ginv (the halfface->cell cache names only live cells: the flagged cell is named by no entry; the entries of the other cell
   are renamed). *)
From Coq Require Import ZArith Lia Bool Arith List ZifyNat ZifyBool.
From OVM Require Import Base.ListX Base.ListLemmas Base.ListLemmas2 Kernel.State Kernel.Ops Kernel.Mirror Kernel.Construct
                        Kernel.Recompute Kernel.Closure Kernel.ExactInv Kernel.ExactDelete Kernel.SwapEffects Kernel.SwapInvol Kernel.PropLaws
                        Kernel.DeleteEffects Kernel.DeleteDefs Kernel.GcFacts Kernel.SwapCellCache Kernel.SwapFaceCache
                        Kernel2.LookupModel Kernel2.AdjacentProofs Kernel2.ReorderExact Kernel2.ExactBase Kernel2.ExactDelCell Kernel2.ExactHistory
                        Kernel.ShiftFace Kernel.ShiftEdge Kernel.ShiftVertex Kernel.ShiftCompose Kernel3.FastDefs Kernel3.FastBase
                        Kernel3.FastCell Kernel3.GcDefs Kernel3.GcList Kernel3.GcInv Kernel3.GcFastBase.
Import ListNotations.
Ltac Zify.zify_post_hook ::= Z.div_mod_to_equations.
Local Open Scope nat_scope.

Theorem ginv_swap_cell a b s : ginv s -> a < nc s -> b < nc s -> ginv (swap_cell_indices a b s).
Proof.
  intros I Ha Hb. destruct (Nat.eq_dec a b) as [->|N]; [rewrite swap_cell_self; exact I|].
  pose proof I as ((VO & EO & FO & (R1 & R2 & R3) & (L1 & L2 & L3 & L4 & L5 & L6)) & LV & (U1 & U2 & U3) & X).
  pose proof (swap_cell_effect a b s N) as E. cbv zeta in E.
  assert (Inc : fbu s = true -> inc_cell (swap_cell_indices a b s) = map (option_map (swap_idx a b)) (inc_cell s)).
  { intros Fb. apply swap_cell_cache_relabeled; try assumption; apply cell_entries_sound_of_exact; auto. }
  generalize dependent (swap_cell_indices a b s). intros t E Inc.
  destruct E as (c1&c2&c3&c4&c5&c6&c7&c8&c9&c10&c11&c12&c13&c14&c15&c16&c17&(n1&n2&n3&n4)&(f1&f2&f3&f4&f5)&ci).
  assert (NE_ : ne t = ne s) by (unfold ne; rewrite c5; reflexivity).
  assert (NF_ : nf t = nf s) by (unfold nf; rewrite c6; reflexivity).
  assert (NC_ : nc t = nc s) by (unfold nc; rewrite c1; apply swap_nth_length).
  assert (CAt : forall c, cell_at t c = cell_at s (swap_idx a b c)) by (intros c; unfold cell_at; rewrite c1; apply nth_swap_idx; assumption).
  assert (CD : forall c, c_deleted t c = c_deleted s (swap_idx a b c)).
  { intros c. unfold c_deleted. rewrite c2. apply nth_swap_idx; rewrite L6; assumption. }
  assert (FD : forall f, f_deleted t f = f_deleted s f) by (intros f; unfold f_deleted; rewrite c9; reflexivity).
  assert (CO : fbu s = true -> forall hf, cell_of t hf = option_map (swap_idx a b) (cell_of s hf)).
  { intros Fb hf. unfold cell_of. rewrite (Inc Fb). apply nth_map_option_map. }
  assert (Lt : forall c, swap_idx a b c < nc s <-> c < nc s) by (intros c; apply swap_idx_lt; assumption).
  assert (FO' : fbu_ok t).
  { intros Fb hf Hhf c. rewrite f3 in Fb. rewrite NF_ in Hhf. rewrite (CO Fb hf), NC_, CD, CAt.
    pose proof (FO Fb hf Hhf (swap_idx a b c)) as T. pose proof (Lt c) as Ltc.
    destruct (cell_of s hf) as [c0|] eqn:Ec; cbn [option_map].
    - split.
      + intros Q. injection Q as Q. assert (c0 = swap_idx a b c) by (rewrite <- Q; symmetry; apply swap_idx_involutive). subst c0. tauto.
      + intros (B1 & B2 & B3). assert (Q : Some c0 = Some (swap_idx a b c)) by (apply T; tauto). injection Q as ->. rewrite swap_idx_involutive. reflexivity.
    - split; [discriminate|]. intros (B1 & B2 & B3). assert (Q : None = Some (swap_idx a b c)) by (apply T; tauto). discriminate. }
  split; [|split; [rewrite c7, c4; exact LV|split]].
  - (* bu_inv *)
    split; [|split; [|split; [exact FO'|split; [split; [|split]|unfold lens_ok; split; [|split; [|split; [|split; [|split]]]]]]]].
    + intros V v Hv x. rewrite f1 in V. rewrite c4 in Hv. unfold out_at, e_deleted, he_from, edge_at. rewrite c10, NE_, c8, c5. exact (VO V v Hv x).
    + intros Eb k Hk x. rewrite f2 in Eb. rewrite NE_ in Hk. unfold hfs_at, f_deleted, halfface, face_at. rewrite c11, NF_, c9, c6. exact (EO Eb k Hk x).
    + intros e He Hd. rewrite NE_ in He. unfold e_deleted in Hd. rewrite c8 in Hd. unfold edge_at. rewrite c5, c4. exact (R1 e He Hd).
    + intros f Hf Hd x Hx. rewrite NF_ in Hf. rewrite FD in Hd. unfold face_at in Hx. rewrite c6 in Hx. rewrite NE_. exact (R2 f Hf Hd x Hx).
    + intros c Hc Hd x Hx. rewrite NC_ in Hc. rewrite CD in Hd. rewrite CAt in Hx. rewrite NF_.
      exact (R3 _ (proj2 (Lt c) Hc) Hd x Hx).
    + intros V. rewrite f1 in V. rewrite c10, c4. exact (L1 V).
    + intros Eb. rewrite f2 in Eb. rewrite c11, NE_. exact (L2 Eb).
    + intros Fb. rewrite f3 in Fb. rewrite (Inc Fb), map_length, NF_. exact (L3 Fb).
    + rewrite c8, NE_. exact L4.
    + rewrite c9, NF_. exact L5.
    + rewrite c2, swap_nth_length, NC_. exact L6.
  - (* up_closed *)
    split; [|split].
    + intros e He Hd. rewrite NE_ in He. unfold e_deleted in Hd. rewrite c8 in Hd. unfold v_deleted, edge_at. rewrite c7, c5. exact (U1 e He Hd).
    + intros f Hf Hd he Hhe. rewrite NF_ in Hf. rewrite FD in Hd. unfold face_at in Hhe. rewrite c6 in Hhe. unfold e_deleted. rewrite c8.
      exact (U2 f Hf Hd he Hhe).
    + intros c Hc Hd hf Hhf. rewrite NC_ in Hc. rewrite CD in Hd. rewrite CAt in Hhf. rewrite FD.
      exact (U3 _ (proj2 (Lt c) Hc) Hd hf Hhf).
  - (* gext *)
    intros E' Fb'. rewrite f2 in E'. rewrite f3 in Fb'. destruct (X E' Fb') as (SN & LC). split.
    + intros k Hk. rewrite NE_ in Hk. unfold hfs_at. rewrite c11. exact (SN k Hk).
    + intros c Hc Hd. rewrite NC_ in Hc. rewrite CD in Hd. assert (Hu : swap_idx a b c < nc s) by (apply Lt; exact Hc).
      apply (closed_cell_same s t (swap_idx a b c) c (CAt c) c6); [|exact (LC _ Hu Hd)].
      intros y Hy. rewrite (CO Fb' y). rewrite (proj1 (LC _ Hu Hd y Hy)). cbn [option_map]. rewrite swap_idx_involutive. reflexivity.
Qed.

Lemma swap_cell_defs_g a b s : let t := swap_cell_indices a b s in
  nv t = nv s /\ edges t = edges s /\ faces t = faces s /\ cells t = swap_nth a b [] (cells s) /\
  vdel t = vdel s /\ edel t = edel s /\ fdel t = fdel s /\ cdel t = swap_nth a b false (cdel s).
Proof.
  cbv zeta. destruct (Nat.eq_dec a b) as [->|N]; [rewrite swap_cell_self, !swap_nth_same; repeat split|].
  pose proof (swap_cell_effect a b s N) as E. cbv zeta in E.
  destruct E as (c1&c2&c3&c4&c5&c6&c7&c8&c9&_). repeat split; assumption.
Qed.
