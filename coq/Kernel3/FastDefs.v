(* Kernel3/FastDefs.v -- C02, IMMEDIATE FAST mode (deferred = false, fast = true; swap-with-last deletion):
   DEFINITIONS ONLY (the lemmas about them are in Kernel3/FastBase.v, the step theorems in Kernel3/Fast{Cell,Face,Edge,Vertex}.v).

     tr a b       the transposition (a b) on entity handles            (= Kernel/Ops.v swap_idx, restated here)
     tr2 a b      its lift to halfedge / halfface handles: 2*x+side -> 2*(tr a b x)+side   (= swap_half)
     trp a b      its lift to an edge definition (from, to)
     fast_remove d h l    the slot view of an array of n = length l slots after the fast removal of slot h:
                          slot h holds what the LAST slot held, the last slot is gone (h = n-1: the last slot is just dropped)
     fast_remove2 d h l   the same for a half-entity array (2n slots): slots 2h, 2h+1 hold what slots 2(n-1), 2(n-1)+1 held
                          (side by side), the last two slots are gone
     pfast / pfast2       the same on a property array (its own default value fills nothing: lengths are right by C03)
     set_fast b s         the state with the fast-deletion flag set to b (nothing else differs)                          *)
From OVM Require Import Base.ListX Kernel.State Kernel.Ops.
Import ListNotations.
Local Open Scope nat_scope.

Definition tr (a b x : nat) : nat := if x =? a then b else if x =? b then a else x.

Definition tr2 (a b x : nat) : nat :=
  if x / 2 =? a then 2 * b + x mod 2
  else if x / 2 =? b then 2 * a + x mod 2
  else x.

Definition trp (a b : nat) (p : nat * nat) : nat * nat := (tr a b (fst p), tr a b (snd p)).

Definition fast_remove {A} (d : A) (h : nat) (l : list A) : list A :=
  firstn (length l - 1) (upd h (nth (length l - 1) l d) l).

Definition fast_remove2 {A} (d : A) (h : nat) (l : list A) : list A :=
  firstn (length l - 2) (upd (2 * h + 1) (nth (length l - 1) l d) (upd (2 * h) (nth (length l - 2) l d) l)).

Definition pfast (h : nat) (p : parray) : parray :=
  {| pdef := pdef p; pdata := fast_remove (pdef p) h (pdata p) |}.
Definition pfast2 (h : nat) (p : parray) : parray :=
  {| pdef := pdef p; pdata := fast_remove2 (pdef p) h (pdata p) |}.

Definition set_fast (b : bool) (s : mesh) : mesh := set_flags (vbu s) (ebu s) (fbu s) (deferred s) b s.

(* "the old last handle is renamed to h" (what the referrers see when h itself is referenced by nobody) *)
Definition ren_last (h l x : nat) : nat := if x =? l then h else x.
Definition ren_last2 (h l x : nat) : nat := if x / 2 =? l then 2 * h + x mod 2 else x.
