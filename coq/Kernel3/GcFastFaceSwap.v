(* Kernel3/GcFastFaceSwap.v -- C04, FAST mode, face pass, step S1: swap_face_indices on a state WITH pending face / edge /
   vertex flags (no cell flag): it is the relabeling face_relabeled and keeps ginv. *)
From Coq Require Import ZArith Lia Bool Arith List ZifyNat ZifyBool.
From OVM Require Import Base.ListX Base.ListLemmas Base.ListLemmas2 Kernel.State Kernel.Ops Kernel.Mirror Kernel.Construct
                        Kernel.Recompute Kernel.Closure Kernel.ExactInv Kernel.ExactDelete Kernel.SwapEffects Kernel.SwapInvol Kernel.PropLaws
                        Kernel.DeleteEffects Kernel.DeleteDefs Kernel.GcFacts Kernel.SwapFaceCache Kernel.SwapEdgeCache
                        Kernel2.LookupModel Kernel2.AdjacentProofs Kernel2.ReorderExact Kernel2.ExactBase Kernel2.ExactDelFace Kernel2.ExactHistory
                        Kernel.ShiftFace Kernel.ShiftEdge Kernel.ShiftVertex Kernel.ShiftCompose Kernel3.FastDefs Kernel3.FastBase
                        Kernel3.FastFace Kernel3.GcDefs Kernel3.GcList Kernel3.GcInv Kernel3.GcFastBase.
Import ListNotations.
Ltac Zify.zify_post_hook ::= Z.div_mod_to_equations.
Local Open Scope nat_scope.

Lemma no_deleted_cell_lists_no_cflags s a b : no_cflags s -> no_deleted_cell_lists s a b.
Proof. intros NC c Hc Hd. rewrite NC in Hd. discriminate. Qed.

Lemma swap_face_relabeled_g a b s : ginv s -> no_cflags s -> a <> b -> a < nf s -> b < nf s ->
  swap_face_indices a b s = face_relabeled a b s.
Proof.
  intros ((VO & EO & FO & R & L) & _) NC N Ha Hb. apply swap_face_exact_relabeling; try assumption.
  apply no_deleted_cell_lists_no_cflags. exact NC.
Qed.

Theorem ginv_face_relabeled a b s : ginv s -> a <> b -> a < nf s -> b < nf s -> ginv (face_relabeled a b s).
Proof.
  intros I N Ha Hb. pose proof I as (B & LV & (U1 & U2 & U3) & X).
  pose proof (bu_inv_face_relabeled a b s N Ha Hb B) as B'.
  pose proof B as (VO & EO & FO & (R1 & R2 & R3) & (L1 & L2 & L3 & L4 & L5 & L6)).
  set (t := face_relabeled a b s) in *.
  assert (NF_ : nf t = nf s) by apply nf_face_relabeled.
  assert (NC_ : nc t = nc s) by (unfold nc, t, face_relabeled; cbn [cells]; apply map_length).
  split; [exact B'|]. split; [exact LV|]. split; [split; [exact U1|split]|].
  - intros f Hf Hd he Hhe. rewrite NF_ in Hf. unfold t in Hd, Hhe. rewrite f_deleted_face_relabeled in Hd by lia.
    rewrite face_at_face_relabeled in Hhe by assumption. change (e_deleted s (he / 2) = false).
    apply (U2 (swap_idx a b f)); [apply (swap_idx_lt a b (nf s) f Ha Hb); exact Hf|exact Hd|exact Hhe].
  - intros c Hc Hd hf Hhf. rewrite NC_ in Hc. change (c_deleted s c = false) in Hd. unfold t in Hhf.
    rewrite cell_at_face_relabeled in Hhf. apply In_map_swap_half in Hhf. unfold t. rewrite f_deleted_face_relabeled by lia.
    destruct (swap_half_spec a b hf) as [Q _]. rewrite <- Q. exact (U3 c Hc Hd _ Hhf).
  - intros E' Fb'. change (ebu s = true) in E'. change (fbu s = true) in Fb'. destruct (X E' Fb') as (SN & LC). split.
    + intros k Hk. change (k < 2 * ne s) in Hk.
      replace (hfs_at t k) with (map (swap_half a b) (hfs_at s k))
        by (unfold hfs_at, t, face_relabeled; cbn [inc_hfs]; rewrite E'; symmetry; apply nth_map_map_half).
      apply NoDup_map_inj_on; [apply SN; exact Hk|]. intros x y _ _. apply swap_half_inj.
    + intros c Hc Hd. rewrite NC_ in Hc. change (c_deleted s c = false) in Hd. pose proof (LC c Hc Hd) as Cl.
      apply (closed_cell_rename s t c c (swap_half a b) (fun x => x)); [apply cell_at_face_relabeled| | | | |exact Cl].
      * intros y Hy. unfold t. rewrite cell_of_face_relabeled by (try assumption; exact (L3 Fb')). rewrite swap_half_involutive. exact (proj1 (Cl y Hy)).
      * intros y z Hy Hz. split; [apply eqb_inj; apply swap_half_inj|]. rewrite opp_swap_half. apply eqb_inj. apply swap_half_inj.
      * intros z Hz. unfold t. rewrite halfface_face_relabeled by assumption. rewrite swap_half_involutive, map_id. reflexivity.
      * intros; reflexivity.
Qed.

Theorem ginv_swap_face a b s : ginv s -> no_cflags s -> a < nf s -> b < nf s -> ginv (swap_face_indices a b s).
Proof.
  intros I NC Ha Hb. destruct (Nat.eq_dec a b) as [->|N]; [rewrite swap_face_self; exact I|].
  rewrite (swap_face_relabeled_g a b s I NC N Ha Hb). apply ginv_face_relabeled; assumption.
Qed.

(* the definitional effect, with flags *)
Lemma swap_face_defs_g a b s : ginv s -> no_cflags s -> a < nf s -> b < nf s -> let t := swap_face_indices a b s in
  nv t = nv s /\ edges t = edges s /\ faces t = swap_nth a b [] (faces s) /\ cells t = map (map (tr2 a b)) (cells s) /\
  vdel t = vdel s /\ edel t = edel s /\ fdel t = swap_nth a b false (fdel s) /\ cdel t = cdel s.
Proof.
  intros I NC Ha Hb. cbv zeta. destruct (Nat.eq_dec a b) as [->|N]; [rewrite swap_face_self, !swap_nth_same, map_tr2_same; repeat split|].
  rewrite (swap_face_relabeled_g a b s I NC N Ha Hb). repeat split.
Qed.
