(* Kernel3/GcCommute2.v -- C04, NON-FAST mode:
     collect_garbage (delete_x x d)  ~  delete_x (rank x) (imode (collect_garbage d))        for every gc_ready state d, x live,
   and its lift to LISTS of deletions: collecting after a sequence of deferred deletions gives the same mesh as performing
   the same deletions immediately (each handle translated to the numbering the immediate run has at that moment).
   "~" is same_mesh: vertex count, edges, faces, cells and the seven property-array lists. *)
From Coq Require Import ZArith Lia Bool Arith List ZifyNat ZifyBool Permutation.
From OVM Require Import Base.ListX Base.ListLemmas Kernel.State Kernel.Ops Kernel.Mirror Kernel.Recompute Kernel.Closure Kernel.ExactInv
                        Kernel.DeferredDelete Kernel.SwapInvol Kernel.Sizes
                        Kernel2.LookupModel Kernel2.ListAux Kernel2.AdjacentProofs Kernel2.ReorderExact Kernel2.ExactBase Kernel2.ExactDeletions
                        Kernel.ShiftFace Kernel.ShiftEdge Kernel.ShiftVertex Kernel.ShiftCompose
                        Kernel3.GcDefs Kernel3.GcList Kernel3.GcInv Kernel3.GcMain Kernel3.GcDeferred Kernel3.GcEquiv Kernel3.GcDeferredAny
                        Kernel3.GcImmProps Kernel3.GcTrack Kernel3.GcTwoStage Kernel3.GcCommute.
Import ListNotations.
Ltac Zify.zify_post_hook ::= Z.div_mod_to_equations.
Local Open Scope nat_scope.

Lemma same_mesh_trans a b c : same_mesh a b -> same_mesh b c -> same_mesh a c.
Proof.
  intros (a1 & a2 & a3 & a4 & a5) (b1 & b2 & b3 & b4 & b5). unfold same_mesh. splits; try congruence; intros k; rewrite a5; apply b5.
Qed.
Lemma same_mesh_sym a b : same_mesh a b -> same_mesh b a.
Proof. intros (a1 & a2 & a3 & a4 & a5). unfold same_mesh. splits; try congruence; intros k; symmetry; apply a5. Qed.
Lemma same_mesh_refl a : same_mesh a a.
Proof. unfold same_mesh. splits; reflexivity. Qed.

Lemma gc_ready_dmode t : gc_ready t -> gc_ready (dmode t).
Proof. intros (D & P & I). split; [reflexivity|]. split; [exact P|exact I]. Qed.
Lemma faces_simple_dmode t : faces_simple t -> faces_simple (dmode t).
Proof. intros H. exact H. Qed.
Lemma dmode_fields t : nv (dmode t) = nv t /\ edges (dmode t) = edges t /\ faces (dmode t) = faces t /\ cells (dmode t) = cells t /\
  vdel (dmode t) = vdel t /\ edel (dmode t) = edel t /\ fdel (dmode t) = fdel t /\ cdel (dmode t) = cdel t /\ (forall k, props k (dmode t) = props k t).
Proof. splits; reflexivity. Qed.
Lemma closure_dmode t x es fs : edges_at_vertex (dmode t) x = edges_at_vertex t x /\ faces_at_edges (dmode t) es = faces_at_edges t es /\
  cells_at_faces (dmode t) fs = cells_at_faces t fs.
Proof. splits; reflexivity. Qed.

(* ================================================================== what is known about the collected state *)

Section Base.
Context (d : mesh) (R : gc_ready d) (F : fast d = false) (Z : sized d) (FS : faces_simple d).

Lemma colt : let t := collect_garbage d in
  gc_ready t /\ shift_inv2 t /\ sized t /\ faces_simple t /\ fast t = false /\
  vdel t = repeat false (nv t) /\ edel t = repeat false (ne t) /\ fdel t = repeat false (nf t) /\ cdel t = repeat false (nc t).
Proof.
  cbv zeta. pose proof (collect_garbage_nonfast_logical d R F) as L. cbv zeta in L.
  pose proof (collect_garbage_nonfast_compact d R F) as C. pose proof (szd_collect_garbage d (proj2 (szd_sized d) Z)) as Zt.
  generalize dependent (collect_garbage d). intros t L C Zt.
  destruct L as (_ & _ & _ & _ & l5 & l6 & l7 & l8 & _ & _ & _ & _ & l13 & _ & l15 & _ & l17).
  destruct C as (_ & _ & _ & _ & _ & _ & _ & _ & _ & _ & _ & _ & _ & _ & CF).
  splits; try assumption; [exact (l17 FS)|apply szd_sized; exact Zt|exact (CF FS)].
Qed.
End Base.

(* ================================================================== the four commutations *)

Section Commute.
Context (d : mesh) (R : gc_ready d) (F : fast d = false) (Z : sized d) (FS : faces_simple d).

Let t := collect_garbage d.

Lemma dstep_fast_false s s' a b c e : dstep s s' a b c e -> fast s = false -> fast s' = false.
Proof. intros (_&_&_&_&_&_&_&_&_&_&_&_&(_&_&_&_&f5)&_) H. congruence. Qed.

(* the common part: two deferred steps whose flagged lists correspond *)
Lemma commute_core d2 t2 dv de df dc tv te tf tc :
  dstep d d2 dv de df dc -> dstep (dmode t) t2 tv te tf tc ->
  gc_ready d2 -> gc_ready t2 ->
  corr (vdel d) (nv d) dv tv -> corr (edel d) (ne d) de te -> corr (fdel d) (nf d) df tf -> corr (cdel d) (nc d) dc tc ->
  same_mesh (collect_garbage d2) (collect_garbage t2).
Proof.
  intros DSd DSt R2 Rt Cv Ce Cf Cc. pose proof (colt d R F Z FS) as Ct. cbv zeta in Ct. fold t in Ct.
  destruct Ct as (_ & _ & _ & _ & Ft & q1 & q2 & q3 & q4).
  destruct (col_counts d R F) as (n1 & n2 & n3 & n4). fold t in n1, n2, n3, n4. destruct (col_lens d R) as (Lv & Le & Lf & Lc).
  pose proof (dstep_fast_false _ _ _ _ _ _ DSd F) as F2. pose proof (dstep_fast_false _ _ _ _ _ _ DSt eq_refl) as Ft2.
  destruct DSd as (x1&x2&x3&x4&x5&x6&x7&x8&_&_&_&_&_&xp). destruct DSt as (y1&y2&y3&y4&y5&y6&y7&y8&_&_&_&_&_&yp).
  destruct (dmode_fields t) as (m1 & m2 & m3 & m4 & m5 & m6 & m7 & m8 & m9).
  assert (Sv : flags_incl (vdel d) (vdel d2)) by (rewrite x5; apply flags_incl_flag_all).
  assert (Se : flags_incl (edel d) (edel d2)) by (rewrite x6; apply flags_incl_flag_all).
  assert (Sf : flags_incl (fdel d) (fdel d2)) by (rewrite x7; apply flags_incl_flag_all).
  assert (Sc : flags_incl (cdel d) (cdel d2)) by (rewrite x8; apply flags_incl_flag_all).
  assert (Kv : length (vdel d2) = nv d) by (rewrite x5, flag_all_length; exact Lv).
  assert (Ke : length (edel d2) = ne d) by (rewrite x6, flag_all_length; exact Le).
  assert (Kf : length (fdel d2) = nf d) by (rewrite x7, flag_all_length; exact Lf).
  assert (Kc : length (cdel d2) = nc d) by (rewrite x8, flag_all_length; exact Lc).
  assert (Tn : nv t2 = nv t) by (rewrite y1; exact m1).
  assert (Te : edges t2 = edges t) by (rewrite y2; exact m2).
  assert (Tf : faces t2 = faces t) by (rewrite y3; exact m3).
  assert (Tc : cells t2 = cells t) by (rewrite y4; exact m4).
  assert (Tp : forall k, props k t2 = props k t) by (intros k; rewrite yp; apply m9).
  assert (Qv : vdel t2 = compact (vdel d) (vdel d2)) by (rewrite y5, m5, x5, q1, n1; apply compact_flag_all; assumption).
  assert (Qe : edel t2 = compact (edel d) (edel d2)) by (rewrite y6, m6, x6, q2, n2; apply compact_flag_all; assumption).
  assert (Qf : fdel t2 = compact (fdel d) (fdel d2)) by (rewrite y7, m7, x7, q3, n3; apply compact_flag_all; assumption).
  assert (Qc : cdel t2 = compact (cdel d) (cdel d2)) by (rewrite y8, m8, x8, q4, n4; apply compact_flag_all; assumption).
  exact (gc_two_stage d d2 t2 R F Z R2 F2 Rt Ft2 x1 x2 x3 x4 xp Sv Se Sf Sc Kv Ke Kf Kc Tn Te Tf Tc Tp Qv Qe Qf Qc).
Qed.

Lemma corr_nil del n : corr del n [] [].
Proof. intros i _ _. reflexivity. Qed.

Lemma col_base : deferred (dmode t) = true /\ vbu_ok (dmode t) /\ ebu_ok (dmode t) /\ fbu_ok (dmode t).
Proof. pose proof (colt d R F Z FS) as Ct. cbv zeta in Ct. fold t in Ct. destruct Ct as (_ & ((_ & VO & EO & FO & _) & _) & _). splits; [reflexivity|exact VO|exact EO|exact FO]. Qed.

Theorem commute_vertex x : x < nv d -> v_deleted d x = false ->
  same_mesh (collect_garbage (delete_vertex x d)) (delete_vertex (rank (vdel d) x) (imode (collect_garbage d))).
Proof.
  intros Hx Lx. pose proof (colt d R F Z FS) as Ct. cbv zeta in Ct. fold t in Ct. destruct Ct as (Rt & It & Zt & FSt & _).
  destruct (col_counts d R F) as (n1 & _). fold t in n1. fold t.
  assert (Hx' : rank (vdel d) x < nv t) by (rewrite n1; apply rank_lt; assumption).
  destruct (base_ok d R) as (D & VO & EO & FO). destruct col_base as (Dt & VOt & EOt & FOt).
  pose proof (dstep_delete_vertex d x D VO EO FO Hx) as DSd. cbv zeta in DSd.
  pose proof (dstep_delete_vertex (dmode t) _ Dt VOt EOt FOt Hx') as DSt. cbv zeta in DSt.
  apply (same_mesh_trans _ (collect_garbage (delete_vertex (rank (vdel d) x) (dmode t)))).
  - apply (commute_core _ _ _ _ _ _ _ _ _ _ DSd DSt).
    + exact (proj1 (ready_after_delete_vertex d R FS x Hx)).
    + exact (proj1 (ready_after_delete_vertex (dmode t) (gc_ready_dmode t Rt) (faces_simple_dmode t FSt) _ Hx')).
    + apply corr_single; assumption.
    + apply corr_rev. exact (corr_edges_of_vertex d R F x Hx Lx).
    + apply corr_rev. apply (corr_faces d R F). exact (corr_edges_of_vertex d R F x Hx Lx).
    + apply corr_rev. apply (corr_cells d R F). apply (corr_faces d R F). exact (corr_edges_of_vertex d R F x Hx Lx).
  - exact (proj1 (collection_equals_immediate_deletion_any t It Zt (rank (vdel d) x)) Hx').
Qed.

Theorem commute_edge x : x < ne d -> e_deleted d x = false ->
  same_mesh (collect_garbage (delete_edge x d)) (delete_edge (rank (edel d) x) (imode (collect_garbage d))).
Proof.
  intros Hx Lx. pose proof (colt d R F Z FS) as Ct. cbv zeta in Ct. fold t in Ct. destruct Ct as (Rt & It & Zt & FSt & _).
  destruct (col_counts d R F) as (_ & n2 & _). fold t in n2. fold t.
  assert (Hx' : rank (edel d) x < ne t) by (rewrite n2; apply rank_lt; assumption).
  assert (Lx' : e_deleted (dmode t) (rank (edel d) x) = false) by (apply (proj1 (proj2 (proj1 (proj1 It))))).
  destruct (base_ok d R) as (D & VO & EO & FO). destruct col_base as (Dt & VOt & EOt & FOt).
  pose proof (dstep_delete_edge d x D EO FO Hx) as DSd. cbv zeta in DSd.
  pose proof (dstep_delete_edge (dmode t) _ Dt EOt FOt Hx') as DSt. cbv zeta in DSt.
  apply (same_mesh_trans _ (collect_garbage (delete_edge (rank (edel d) x) (dmode t)))).
  - apply (commute_core _ _ _ _ _ _ _ _ _ _ DSd DSt).
    + exact (proj1 (ready_after_delete_edge d R FS x Hx Lx)).
    + exact (proj1 (ready_after_delete_edge (dmode t) (gc_ready_dmode t Rt) (faces_simple_dmode t FSt) _ Hx' Lx')).
    + apply corr_nil.
    + apply corr_single; assumption.
    + apply corr_rev. apply (corr_faces d R F). apply corr_single; assumption.
    + apply corr_rev. apply (corr_cells d R F). apply (corr_faces d R F). apply corr_single; assumption.
  - exact (proj1 (proj2 (collection_equals_immediate_deletion_any t It Zt (rank (edel d) x))) Hx').
Qed.

Theorem commute_face x : x < nf d -> f_deleted d x = false ->
  same_mesh (collect_garbage (delete_face x d)) (delete_face (rank (fdel d) x) (imode (collect_garbage d))).
Proof.
  intros Hx Lx. pose proof (colt d R F Z FS) as Ct. cbv zeta in Ct. fold t in Ct. destruct Ct as (Rt & It & Zt & FSt & _).
  destruct (col_counts d R F) as (_ & _ & n3 & _). fold t in n3. fold t.
  assert (Hx' : rank (fdel d) x < nf t) by (rewrite n3; apply rank_lt; assumption).
  assert (Lx' : f_deleted (dmode t) (rank (fdel d) x) = false) by (apply (proj1 (proj2 (proj2 (proj1 (proj1 It)))))).
  destruct (base_ok d R) as (D & VO & EO & FO). destruct col_base as (Dt & VOt & EOt & FOt).
  pose proof (dstep_delete_face d x D FO Hx) as DSd. pose proof (dstep_delete_face (dmode t) _ Dt FOt Hx') as DSt.
  apply (same_mesh_trans _ (collect_garbage (delete_face (rank (fdel d) x) (dmode t)))).
  - apply (commute_core _ _ _ _ _ _ _ _ _ _ DSd DSt).
    + exact (proj1 (ready_after_delete_face d R FS x Hx Lx)).
    + exact (proj1 (ready_after_delete_face (dmode t) (gc_ready_dmode t Rt) (faces_simple_dmode t FSt) _ Hx' Lx')).
    + apply corr_nil.
    + apply corr_nil.
    + apply corr_single; assumption.
    + apply corr_rev. apply (corr_cells d R F). apply corr_single; assumption.
  - exact (proj1 (proj2 (proj2 (collection_equals_immediate_deletion_any t It Zt (rank (fdel d) x)))) Hx').
Qed.

Theorem commute_cell x : x < nc d -> c_deleted d x = false ->
  same_mesh (collect_garbage (delete_cell x d)) (delete_cell (rank (cdel d) x) (imode (collect_garbage d))).
Proof.
  intros Hx Lx. pose proof (colt d R F Z FS) as Ct. cbv zeta in Ct. fold t in Ct. destruct Ct as (Rt & It & Zt & FSt & _).
  destruct (col_counts d R F) as (_ & _ & _ & n4). fold t in n4. fold t.
  assert (Hx' : rank (cdel d) x < nc t) by (rewrite n4; apply rank_lt; assumption).
  assert (Lx' : c_deleted (dmode t) (rank (cdel d) x) = false) by (apply (proj2 (proj2 (proj2 (proj1 (proj1 It)))))).
  destruct (base_ok d R) as (D & _).
  pose proof (delete_cell_deferred x d D) as DSd. pose proof (delete_cell_deferred (rank (cdel d) x) (dmode t) eq_refl) as DSt.
  apply (same_mesh_trans _ (collect_garbage (delete_cell (rank (cdel d) x) (dmode t)))).
  - apply (commute_core _ _ _ _ _ _ _ _ _ _ DSd DSt).
    + exact (proj1 (ready_after_delete_cell d R FS x Hx Lx)).
    + exact (proj1 (ready_after_delete_cell (dmode t) (gc_ready_dmode t Rt) (faces_simple_dmode t FSt) _ Hx' Lx')).
    + apply corr_nil.
    + apply corr_nil.
    + apply corr_nil.
    + apply corr_single; assumption.
  - exact (proj2 (proj2 (proj2 (collection_equals_immediate_deletion_any t It Zt (rank (cdel d) x)))) Hx').
Qed.
End Commute.
