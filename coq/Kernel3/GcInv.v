(* Kernel3/GcInv.v -- C04: the invariant ginv (Kernel3/GcDefs.v) - soundness of its checker, what it gives to the passes of
   collect_garbage, and the small state facts the four step lemmas share. *)
From Coq Require Import ZArith Lia Bool Arith List ZifyNat ZifyBool.
From OVM Require Import Base.ListX Base.ListLemmas Kernel.State Kernel.Ops Kernel.Recompute Kernel.Closure Kernel.ExactInv Kernel.InvB
                        Kernel2.LookupModel Kernel2.AdjacentProofs Kernel2.ReorderExact Kernel2.ExactBase
                        Kernel.ShiftFace Kernel.ShiftEdge Kernel.ShiftVertex Kernel.ShiftCompose
                        Kernel3.GcDefs Kernel3.GcList.
Import ListNotations.
Ltac Zify.zify_post_hook ::= Z.div_mod_to_equations.
Local Open Scope nat_scope.

(* ================================================================== no flag of one kind *)

Definition no_vflags (s : mesh) : Prop := forall i, v_deleted s i = false.
Definition no_eflags (s : mesh) : Prop := forall i, e_deleted s i = false.
Definition no_fflags (s : mesh) : Prop := forall i, f_deleted s i = false.
Definition no_cflags (s : mesh) : Prop := forall i, c_deleted s i = false.

Lemma no_flags_split s : no_flags s <-> no_vflags s /\ no_eflags s /\ no_fflags s /\ no_cflags s.
Proof. reflexivity. Qed.

(* ================================================================== the checker is sound *)

Lemma refs_live_b_sound s : refs_live_b s = true -> refs_ok s.
Proof.
  unfold refs_live_b. rewrite !andb_true_iff, !forallb_forall. intros [[A B] C]. split; [|split].
  - intros e He Hd. specialize (A e ltac:(apply in_seq; lia)). rewrite Hd in A. cbn [orb] in A.
    apply andb_true_iff in A. destruct A as [A1 A2]. apply Nat.ltb_lt in A1, A2. auto.
  - intros f Hf Hd h Hh. specialize (B f ltac:(apply in_seq; lia)). rewrite Hd in B. cbn [orb] in B.
    rewrite forallb_forall in B. apply Nat.ltb_lt. exact (B h Hh).
  - intros c Hc Hd h Hh. specialize (C c ltac:(apply in_seq; lia)). rewrite Hd in C. cbn [orb] in C.
    rewrite forallb_forall in C. apply Nat.ltb_lt. exact (C h Hh).
Qed.

Lemma up_closed_b_sound s : up_closed_b s = true -> up_closed s.
Proof.
  unfold up_closed_b. rewrite !andb_true_iff, !forallb_forall. intros [[A B] C]. split; [|split].
  - intros e He Hd. specialize (A e ltac:(apply in_seq; lia)). rewrite Hd in A. cbn [orb] in A.
    apply andb_true_iff in A. destruct A as [A1 A2]. apply negb_true_iff in A1, A2. auto.
  - intros f Hf Hd h Hh. specialize (B f ltac:(apply in_seq; lia)). rewrite Hd in B. cbn [orb] in B.
    rewrite forallb_forall in B. apply negb_true_iff. exact (B h Hh).
  - intros c Hc Hd h Hh. specialize (C c ltac:(apply in_seq; lia)). rewrite Hd in C. cbn [orb] in C.
    rewrite forallb_forall in C. apply negb_true_iff. exact (C h Hh).
Qed.

Theorem ginv_b_sound s : ginv_b s = true -> ginv s.
Proof.
  unfold ginv_b. rewrite !andb_true_iff. intros [[[[[[[A B] C] D] E] F] G] H].
  split; [|split; [apply Nat.eqb_eq; exact F|split; [apply up_closed_b_sound; exact G|]]].
  - split; [apply vbu_ok_b_sound; exact A|]. split; [apply ebu_ok_b_sound; exact B|]. split; [apply fbu_ok_b_sound; exact C|].
    split; [apply refs_live_b_sound; exact D|apply lens_ok_b_sound; exact E].
  - intros Eb Fb. rewrite Eb, Fb in H. cbn [andb negb orb] in H. apply andb_true_iff in H. destruct H as [H1 H2].
    split; [apply slots_nodup_b_sound; exact H1|apply live_cells_closed_b; exact H2].
Qed.

Theorem gc_ready_b_sound s : gc_ready_b s = true -> gc_ready s.
Proof.
  unfold gc_ready_b. rewrite !andb_true_iff. intros [[A P] B]. split; [exact A|]. split; [|apply ginv_b_sound; exact B].
  intros G. rewrite G in P. cbn [orb] in P. apply no_flags_b_sound. exact P.
Qed.

(* ================================================================== what ginv gives *)

Lemma ginv_cells_ref_live s : ginv s -> cells_ref_live s.
Proof.
  intros ((_ & _ & _ & (_ & _ & R3) & _) & _ & (_ & _ & U3) & _) c hf Hc Hd Hhf.
  split; [pose proof (R3 c Hc Hd hf Hhf); lia|exact (U3 c Hc Hd hf Hhf)].
Qed.

(* no not-deleted cell lists a halfface of a flagged face *)
Lemma ginv_face_free s h : ginv s -> no_cflags s -> f_deleted s h = true -> face_free s h.
Proof.
  intros (_ & _ & (_ & _ & U3) & _) NC Hh c hf Hhf E.
  destruct (Nat.lt_ge_cases c (nc s)) as [Hc|Hc]; [|unfold cell_at in Hhf; rewrite nth_overflow in Hhf by exact Hc; destruct Hhf].
  pose proof (U3 c Hc (NC c) hf Hhf) as L. rewrite E in L. congruence.
Qed.

Lemma ginv_edge_free s h : ginv s -> no_fflags s -> e_deleted s h = true -> edge_free s h.
Proof.
  intros (_ & _ & (_ & U2 & _) & _) NF Hh f he Hhe E.
  destruct (Nat.lt_ge_cases f (nf s)) as [Hf|Hf]; [|unfold face_at in Hhe; rewrite nth_overflow in Hhe by exact Hf; destruct Hhe].
  pose proof (U2 f Hf (NF f) he Hhe) as L. rewrite E in L. congruence.
Qed.

Lemma ginv_vertex_free s h : ginv s -> no_eflags s -> v_deleted s h = true -> vertex_free s h.
Proof.
  intros (_ & _ & (U1 & _ & _) & _) NE Hh e He. destruct (U1 e He (NE e)) as [A B]. split; intros E; rewrite E in *; congruence.
Qed.

(* ================================================================== flags after a slot removal *)

Lemma flag_after_remove del h i : nth i (remove_nth h del) false = nth (unshift1 h i) del false.
Proof. apply nth_remove_nth_unshift. Qed.

Lemma flag_after_clear del h i : nth i (upd h false del) false = if i =? h then false else nth i del false.
Proof.
  rewrite nth_upd. destruct (Nat.eqb_spec h i) as [->|N].
  - rewrite Nat.eqb_refl. cbn [andb]. destruct (Nat.ltb_spec i (length del)); [reflexivity|]. apply nth_overflow. lia.
  - cbn [andb]. destruct (Nat.eqb_spec i h); [congruence|reflexivity].
Qed.

Lemma unshift1_neq h i : unshift1 h i <> h.
Proof. unfold unshift1. destruct (Nat.ltb_spec i h); lia. Qed.

Lemma unshift1_ge h i : h <= i -> unshift1 h i = S i.
Proof. intros H. unfold unshift1. destruct (Nat.ltb_spec i h); lia. Qed.

Lemma length_remove_le {A} h (l : list A) : length (remove_nth h l) <= length l.
Proof.
  destruct (Nat.lt_ge_cases h (length l)) as [H|H]; [rewrite remove_nth_length by exact H; lia|rewrite remove_nth_overflow by exact H; lia].
Qed.
