(* Kernel3/FastCell.v -- C02 / C01, immediate FAST mode: delete_cell_core h = swap_cell_indices h last, then remove the LAST cell:
     - cells s' = fast_remove h (cells s) (the old last cell now has handle h), vertices, edges, faces untouched; cell flags and cell
       properties undergo fast_remove h; nothing of another kind changes;
     - the invariant shift_inv2 holds again: the halfface->cell cache names the moved cell by its new handle, the entries of the dying
       cell are cleared, the halfedge->halfface lists are re-ordered only.
   New here (not in C17): swap_cell_indices keeps the whole invariant (shift_inv2_swap_cell). *)
From Coq Require Import ZArith Lia Bool Arith List ZifyNat ZifyBool.
From OVM Require Import Base.ListX Base.ListLemmas Base.ListLemmas2 Kernel.State Kernel.Ops Kernel.Mirror Kernel.Construct
                        Kernel.Recompute Kernel.Closure Kernel.ExactInv Kernel.ExactDelete Kernel.SwapEffects Kernel.SwapInvol Kernel.PropLaws
                        Kernel.DeleteEffects Kernel.DeleteDefs Kernel.GcFacts Kernel.SwapCellCache Kernel.SwapFaceCache
                        Kernel2.LookupModel Kernel2.AdjacentProofs Kernel2.ReorderExact Kernel2.ExactBase Kernel2.ExactDelCell Kernel2.ExactHistory
                        Kernel.ShiftFace Kernel.ShiftEdge Kernel.ShiftVertex Kernel.ShiftCompose Kernel3.FastDefs Kernel3.FastBase.
Import ListNotations.
Ltac Zify.zify_post_hook ::= Z.div_mod_to_equations.
Local Open Scope nat_scope.

Ltac rsq := cbn [set_fast set_nv set_edges set_faces set_cells set_vdel set_edel set_fdel set_cdel set_counts set_flags
                set_out_hes set_inc_hfs set_inc_cell set_props swap_prop_elems delete_prop_elem resize_props
                vertex_deleted edge_deleted face_deleted cell_deleted
                nv edges faces cells vdel edel fdel cdel ndv nde ndf ndc vbu ebu fbu deferred fast
                out_hes inc_hfs inc_cell pv pe phe pf phf pc pm props fst snd].

(* ================================================================== the core is "swap, then remove the last" *)

Lemma swap_cell_modes a b s : let t := swap_cell_indices a b s in
  deferred t = deferred s /\ fast t = fast s /\ nc t = nc s /\ nv t = nv s /\ edges t = edges s /\ faces t = faces s /\
  vbu t = vbu s /\ ebu t = ebu s /\ fbu t = fbu s.
Proof.
  cbv zeta. destruct (Nat.eq_dec a b) as [->|N]; [rewrite swap_cell_self; repeat split|].
  pose proof (swap_cell_effect a b s N) as E. cbv zeta in E.
  destruct E as (c1&_&_&c4&c5&c6&_&_&_&_&_&_&_&_&_&_&_&_&(f1&f2&f3&f4&f5)&_). unfold nc. rewrite c1, swap_nth_length. repeat split; assumption.
Qed.

Lemma fast_cell_split h s : deferred s = false -> fast s = true ->
  delete_cell_core h s = delete_cell_core (nc s - 1) (swap_cell_indices h (nc s - 1) s).
Proof.
  intros D F. set (l := nc s - 1). set (t := swap_cell_indices h l s).
  destruct (swap_cell_modes h l s) as (Dt & Ft & Nt & _). fold t in Dt, Ft, Nt.
  unfold delete_cell_core at 2. rewrite Ft, Dt, F, D, Nt. cbn [andb negb]. fold l. rewrite swap_cell_self.
  unfold delete_cell_core at 1. rewrite F, D. cbn [andb negb]. fold l. fold t. reflexivity.
Qed.

(* the caches after the fast removal of the last cell: what the shared loop (clear the entries of the dying cell, re-order) leaves *)
Lemma fast_cell_view t : deferred t = false -> fast t = true -> let l := nc t - 1 in let s' := delete_cell_core l t in
  out_hes s' = out_hes t /\ inc_cell s' = inc_cell (cell_loop l t) /\ inc_hfs s' = inc_hfs (cell_loop l t) /\
  (vbu s' = vbu t /\ ebu s' = ebu t /\ fbu s' = fbu t).
Proof.
  intros D F. cbv zeta. set (l := nc t - 1). unfold delete_cell_core. rewrite F, D. cbn [andb negb]. fold l. rewrite swap_cell_self.
  match goal with |- context [if deferred ?x then _ else _] => set (s1 := x) end.
  assert (E1 : s1 = cell_loop l t) by reflexivity. clearbody s1. subst s1.
  destruct (cell_loop_frame l t) as [x [y ->]]. repeat (rsq; rewrite ?D, ?F; cbn [negb andb]). repeat split; reflexivity.
Qed.

Lemma cell_loop_inc_cell l t : inc_cell (cell_loop l t) = (if fbu t then fold_left (clear_step l) (cell_at t l) (inc_cell t) else inc_cell t).
Proof.
  unfold cell_loop. destruct (fbu t); [|reflexivity]. cbv zeta. change (ebu (cleared t l)) with (ebu t). destruct (ebu t); [|reflexivity].
  match goal with |- context [reorder_edges ?es ?u] => destruct (reorder_edges_frame2 es u) as [x [-> _]] end. reflexivity.
Qed.

(* ================================================================== fast removal of the last cell = index-shifting removal of it *)

Theorem fast_cell_last t : deferred t = false -> fast t = true -> shift_inv2 t -> 0 < nc t ->
  delete_cell_core (nc t - 1) t = set_fast true (delete_cell_core (nc t - 1) (set_fast false t)).
Proof.
  intros D F I Hn. set (l := nc t - 1). assert (Hl : l < nc t) by (unfold l; lia). set (t' := set_fast false t).
  pose proof I as (((NFv & NFe & NFf & NFc) & VO & EO & FO & (R1 & R2 & R3) & (L1 & L2 & L3 & L4 & L5 & L6)) & X).
  (* the fast side *)
  pose proof (fast_cell_view t D F) as V. cbv zeta in V. fold l in V. destruct V as (x1 & x2 & x3 & (x5 & x6 & x7)).
  pose proof (delete_cell_core_defs l t D) as Df. cbv zeta in Df. unfold victim in Df. rewrite F, D in Df. cbn [andb negb] in Df. fold l in Df.
  rewrite swap_cell_self in Df. destruct Df as (d1 & d2 & d3 & d4 & _).
  pose proof (delete_cell_core_props l t D) as P. cbv zeta in P. unfold victim in P. rewrite F, D in P. cbn [andb negb] in P. fold l in P.
  rewrite swap_cell_self in P. destruct P as (p1 & p2 & p3 & p4 & p5 & p6 & p7 & p8 & p9 & p10 & p11).
  pose proof (cv_delete_cell_core l t D) as C. unfold cv in C. injection C as k1 k2 k3 k4 k5 k6.
  (* the index-shifting side *)
  pose proof (ShiftCompose.delete_cell_core_view l t' D eq_refl) as W. cbv zeta in W.
  destruct W as (w1 & w2 & w3 & w4 & w5 & w6 & w7 & w8 & w9 & w10 & w11 & w12 & (m1 & m2 & m3 & m4 & m5)).
  pose proof (delete_cell_core_inc_hfs l t' ltac:(reflexivity)) as Wh.
  pose proof (delete_cell_core_props l t' D) as Q. cbv zeta in Q. unfold victim in Q. cbn [fast t' set_fast set_flags andb] in Q.
  destruct Q as (q1 & q2 & q3 & q4 & q5 & q6 & q7 & q8 & q9 & q10 & q11).
  pose proof (cv_delete_cell_core l t' D) as C'. unfold cv in C'. injection C' as j1 j2 j3 j4 j5 j6.
  set (Y := delete_cell_core l t') in *. set (Z := delete_cell_core l t) in *.
  assert (Cid : fbu t = true -> cell_inc l t = fold_left (clear_step l) (cell_at t l) (inc_cell t)).
  { intros Fb. unfold cell_inc. apply map_option_cor1_last. intros c Hc.
    destruct (In_nth _ _ None Hc) as [hf [Hhf Ehf]]. rewrite length_clear_fold, (L3 Fb) in Hhf. rewrite nth_clear_fold in Ehf.
    destruct (memb hf (cell_at t l) && is_h l (nth hf (inc_cell t) None)); [discriminate|].
    apply (FO Fb hf Hhf c) in Ehf. destruct Ehf as (Hc' & _). unfold l. lia. }
  apply mesh_ext; rsq.
  - rewrite d2, w1. reflexivity.
  - rewrite d3, w2. reflexivity.
  - rewrite d4, w3. reflexivity.
  - rewrite d1, w4. reflexivity.
  - rewrite p3, w5. reflexivity.
  - rewrite p4, w6. reflexivity.
  - rewrite p5, w7. reflexivity.
  - rewrite p1, q1. reflexivity.
  - rewrite k1, j1. reflexivity.
  - rewrite k2, j2. reflexivity.
  - rewrite k3, j3. reflexivity.
  - rewrite k4, j4. reflexivity.
  - rewrite x5, m1. reflexivity.
  - rewrite x6, m2. reflexivity.
  - rewrite x7, m3. reflexivity.
  - rewrite k5, j5. reflexivity.
  - rewrite k6. exact F.
  - rewrite x1, w9. reflexivity.
  - rewrite x3, Wh. symmetry. apply cell_loop_reads; [unfold t'; repeat split|reflexivity].
  - rewrite x2, w10, cell_loop_inc_cell. change (fbu t') with (fbu t). change (inc_cell t') with (inc_cell t). change (cell_inc l t') with (cell_inc l t).
    destruct (fbu t) eqn:Fb; [symmetry; apply Cid; reflexivity|reflexivity].
  - rewrite p6, q6. reflexivity.
  - rewrite p7, q7. reflexivity.
  - rewrite p8, q8. reflexivity.
  - rewrite p9, q9. reflexivity.
  - rewrite p10, q10. reflexivity.
  - rewrite p2, q2. reflexivity.
  - rewrite p11, q11. reflexivity.
Qed.

(* ================================================================== the cell swap keeps the invariant *)

Lemma nth_map_option_map (f : nat -> nat) l k : nth k (map (option_map f) l) None = option_map f (nth k l None).
Proof. change (@None nat) with (option_map f None) at 1. apply map_nth. Qed.

Lemma nth_swap_idx {A} a b (d : A) l k : a < length l -> b < length l -> nth k (swap_nth a b d l) d = nth (swap_idx a b k) l d.
Proof.
  intros Ha Hb. rewrite nth_swap_nth by assumption. unfold swap_idx.
  destruct (Nat.eqb_spec k a); [reflexivity|]. destruct (Nat.eqb_spec k b); reflexivity.
Qed.

Theorem shift_inv2_swap_cell a b s : shift_inv2 s -> a < nc s -> b < nc s -> shift_inv2 (swap_cell_indices a b s).
Proof.
  intros [I X] Ha Hb. destruct (Nat.eq_dec a b) as [->|N]; [rewrite swap_cell_self; exact (conj I X)|].
  pose proof I as ((NFv & NFe & NFf & NFc) & VO & EO & FO & (R1 & R2 & R3) & (L1 & L2 & L3 & L4 & L5 & L6)).
  pose proof (swap_cell_effect a b s N) as E. cbv zeta in E. set (t := swap_cell_indices a b s) in *.
  destruct E as (c1&c2&c3&c4&c5&c6&c7&c8&c9&c10&c11&c12&c13&c14&c15&c16&c17&(n1&n2&n3&n4)&(f1&f2&f3&f4&f5)&ci).
  assert (Inc : fbu s = true -> inc_cell t = map (option_map (swap_idx a b)) (inc_cell s)).
  { intros Fb. apply swap_cell_cache_relabeled; try assumption; apply cell_entries_sound_of_exact; auto. }
  assert (NE : ne t = ne s) by (unfold ne; rewrite c5; reflexivity).
  assert (NF_ : nf t = nf s) by (unfold nf; rewrite c6; reflexivity).
  assert (NC : nc t = nc s) by (unfold nc; rewrite c1; apply swap_nth_length).
  assert (CAt : forall c, cell_at t c = cell_at s (swap_idx a b c)) by (intros c; unfold cell_at; rewrite c1; apply nth_swap_idx; assumption).
  assert (CD : forall c, c_deleted t c = false).
  { intros c. unfold c_deleted. rewrite c2. apply all_false_swap_nth. exact NFc. }
  assert (CO : fbu s = true -> forall hf, cell_of t hf = option_map (swap_idx a b) (cell_of s hf)).
  { intros Fb hf. unfold cell_of. rewrite (Inc Fb). apply nth_map_option_map. }
  assert (FO' : fbu_ok t).
  { intros Fb hf Hhf c. rewrite f3 in Fb. rewrite NF_ in Hhf. rewrite (CO Fb hf), NC, CD, CAt.
    pose proof (FO Fb hf Hhf (swap_idx a b c)) as T. rewrite NFc in T. pose proof (swap_idx_lt a b (nc s) c Ha Hb) as Lt.
    destruct (cell_of s hf) as [c0|] eqn:Ec; cbn [option_map].
    - split.
      + intros Q. injection Q as Q. assert (c0 = swap_idx a b c) by (rewrite <- Q; symmetry; apply swap_idx_involutive). subst c0. tauto.
      + intros (B1 & _ & B3). assert (Q : Some c0 = Some (swap_idx a b c)) by (apply T; tauto). injection Q as ->. rewrite swap_idx_involutive. reflexivity.
    - split; [discriminate|]. intros (B1 & _ & B3). assert (Q : None = Some (swap_idx a b c)) by (apply T; tauto). discriminate. }
  split.
  - split; [|split; [|split; [|split; [exact FO'|split; [split; [|split]|unfold lens_ok; split; [|split; [|split; [|split; [|split]]]]]]]]].
    + unfold no_flags, v_deleted, e_deleted, f_deleted. rewrite c7, c8, c9. repeat split; assumption.
    + intros V v Hv x. rewrite f1 in V. rewrite c4 in Hv. unfold out_at, e_deleted, he_from, edge_at. rewrite c10, NE, c8, c5. exact (VO V v Hv x).
    + intros Eb k Hk x. rewrite f2 in Eb. rewrite NE in Hk. unfold hfs_at, f_deleted, halfface, face_at. rewrite c11, NF_, c9, c6. exact (EO Eb k Hk x).
    + intros e He _. rewrite NE in He. unfold edge_at. rewrite c5, c4. exact (R1 e He (NFe e)).
    + intros f Hf _ x Hx. rewrite NF_ in Hf. unfold face_at in Hx. rewrite c6 in Hx. rewrite NE. exact (R2 f Hf (NFf f) x Hx).
    + intros c Hc _ x Hx. rewrite NC in Hc. rewrite CAt in Hx. rewrite NF_.
      exact (R3 _ (proj2 (swap_idx_lt a b (nc s) c Ha Hb) Hc) (NFc _) x Hx).
    + intros V. rewrite f1 in V. rewrite c10, c4. exact (L1 V).
    + intros Eb. rewrite f2 in Eb. rewrite c11, NE. exact (L2 Eb).
    + intros Fb. rewrite f3 in Fb. rewrite (Inc Fb), map_length, NF_. exact (L3 Fb).
    + rewrite c8, NE. exact L4.
    + rewrite c9, NF_. exact L5.
    + rewrite c2, swap_nth_length, NC. exact L6.
  - intros E' Fb'. rewrite f2 in E'. rewrite f3 in Fb'. destruct (X E' Fb') as (SN & LC & FS). split; [|split].
    + intros k Hk. rewrite NE in Hk. unfold hfs_at. rewrite c11. exact (SN k Hk).
    + intros c Hc _. rewrite NC in Hc. assert (Hu : swap_idx a b c < nc s) by (apply (swap_idx_lt a b (nc s) c Ha Hb); exact Hc).
      apply (closed_cell_same s t (swap_idx a b c) c (CAt c) c6); [|exact (LC _ Hu (NFc _))].
      intros y Hy. rewrite (CO Fb' y). rewrite (proj1 (LC _ Hu (NFc _) y Hy)). cbn [option_map]. rewrite swap_idx_involutive. reflexivity.
    + intros f Hf _. rewrite NF_ in Hf. unfold face_at. rewrite c6. exact (FS f Hf (NFf f)).
Qed.

(* ================================================================== the step theorem *)

Definition cell_arrays_fast (h : nat) (s s' : mesh) : Prop :=
  vdel s' = vdel s /\ edel s' = edel s /\ fdel s' = fdel s /\ cdel s' = fast_remove false h (cdel s) /\
  pv s' = pv s /\ pe s' = pe s /\ phe s' = phe s /\ pf s' = pf s /\ phf s' = phf s /\ pc s' = map (pfast h) (pc s) /\ pm s' = pm s /\
  (ndv s' = ndv s /\ nde s' = nde s /\ ndf s' = ndf s /\ ndc s' = ndc s).

Theorem fast_cell_arrays h s : deferred s = false -> fast s = true -> sized s -> h < nc s -> cell_arrays_fast h s (delete_cell_core h s).
Proof.
  intros D F (_ & _ & _ & Lc & Lp) Hh.
  pose proof (delete_cell_core_props h s D) as P. cbv zeta in P. unfold victim in P. rewrite F, D in P. cbn [andb negb] in P.
  pose proof (cv_delete_cell_core h s D) as C. unfold cv in C. injection C as k1 k2 k3 k4 _ _.
  set (l := nc s - 1) in *. destruct P as (p1 & p2 & p3 & p4 & p5 & p6 & p7 & p8 & p9 & p10 & p11).
  set (t := swap_cell_indices h l s) in *.
  assert (Sw : cdel t = swap_nth h l false (cdel s) /\ pc t = map (pswap h l) (pc s) /\
               vdel t = vdel s /\ edel t = edel s /\ fdel t = fdel s /\
               pv t = pv s /\ pe t = pe s /\ phe t = phe s /\ pf t = pf s /\ phf t = phf s /\ pm t = pm s).
  { unfold t. destruct (Nat.eq_dec h l) as [->|N].
    - rewrite swap_cell_self, swap_nth_same. repeat split.
      rewrite <- (map_id (pc s)) at 1. apply map_ext. intros p. symmetry. apply pswap_same.
    - pose proof (swap_cell_effect h l s N) as E. cbv zeta in E.
      destruct E as (c1&c2&c3&c4&c5&c6&c7&c8&c9&c10&c11&c12&c13&c14&c15&c16&c17&_). repeat split; assumption. }
  destruct Sw as (w1 & w2 & w3 & w4 & w5 & w6 & w7 & w8 & w9 & w10 & w11).
  unfold cell_arrays_fast. rewrite p1, p2, p3, p4, p5, p6, p7, p8, p9, p10, p11, w1, w2, w3, w4, w5, w6, w7, w8, w9, w10, w11.
  repeat split; try assumption.
  - unfold l. rewrite <- Lc. apply fast_remove_swap. rewrite Lc. exact Hh.
  - unfold l. apply map_pfast_swap; [|exact Hh]. intros p Hp. exact (Lp KC p Hp).
Qed.

Theorem fast_cell_step h s : deferred s = false -> fast s = true -> shift_inv2 s -> h < nc s ->
  let s' := delete_cell_core h s in
  shift_inv2 s' /\ deferred s' = false /\ fast s' = true /\
  nv s' = nv s /\ edges s' = edges s /\ faces s' = faces s /\ cells s' = fast_remove [] h (cells s) /\
  (vbu s' = vbu s /\ ebu s' = ebu s /\ fbu s' = fbu s).
Proof.
  intros D F I Hh. cbv zeta. set (l := nc s - 1). assert (Hl : l < nc s) by (unfold l; lia).
  rewrite (fast_cell_split h s D F). fold l. set (t := swap_cell_indices h l s).
  destruct (swap_cell_modes h l s) as (Dt & Ft & Nt & Nvt & Edt & Fat & Vt & Et & Bt). fold t in Dt, Ft, Nt, Nvt, Edt, Fat, Vt, Et, Bt.
  rewrite D in Dt. rewrite F in Ft.
  assert (It : shift_inv2 t) by (apply shift_inv2_swap_cell; assumption).
  assert (Ct : cells t = swap_nth h l [] (cells s)).
  { unfold t. destruct (Nat.eq_dec h l) as [->|N]; [rewrite swap_cell_self, swap_nth_same; reflexivity|].
    pose proof (swap_cell_effect h l s N) as E. cbv zeta in E. destruct E as (c1&_). exact c1. }
  assert (Hn : 0 < nc t) by lia.
  pose proof (fast_cell_last t Dt Ft It Hn) as Br. rewrite Nt in Br. fold l in Br. rewrite Br. clear Br.
  assert (Hlt : l < nc (set_fast false t)) by (change (l < nc t); lia).
  pose proof (shift_inv2_delete_cell_core l (set_fast false t) Dt eq_refl (proj1 (shift_inv2_set_fast false t) It) Hlt) as Iu.
  pose proof (ShiftCompose.delete_cell_core_view l (set_fast false t) Dt eq_refl) as W. cbv zeta in W.
  set (u := delete_cell_core l (set_fast false t)) in *.
  destruct W as (u1 & u2 & u3 & u4 & _ & _ & _ & _ & _ & _ & _ & _ & (u5 & u6 & u7 & Du & Fu)).
  change (nv (set_fast false t)) with (nv t) in u1. change (edges (set_fast false t)) with (edges t) in u2.
  change (faces (set_fast false t)) with (faces t) in u3. change (cells (set_fast false t)) with (cells t) in u4.
  change (vbu (set_fast false t)) with (vbu t) in u5. change (ebu (set_fast false t)) with (ebu t) in u6. change (fbu (set_fast false t)) with (fbu t) in u7.
  split; [apply (proj1 (shift_inv2_set_fast true u)); exact Iu|]. rsq.
  split; [exact Du|]. split; [reflexivity|]. split; [congruence|]. split; [congruence|]. split; [congruence|].
  split; [rewrite u4, Ct; unfold l, nc; apply fast_remove_swap; exact Hh|]. repeat split; congruence.
Qed.

Theorem fast_cell_step_full h s : deferred s = false -> fast s = true -> shift_inv2 s -> sized s -> h < nc s ->
  let s' := delete_cell_core h s in
  shift_inv2 s' /\ sized s' /\ deferred s' = false /\ fast s' = true /\
  nv s' = nv s /\ edges s' = edges s /\ faces s' = faces s /\ cells s' = fast_remove [] h (cells s) /\
  (vbu s' = vbu s /\ ebu s' = ebu s /\ fbu s' = fbu s) /\ cell_arrays_fast h s s'.
Proof.
  intros D F I Z Hh. cbv zeta. pose proof (fast_cell_step h s D F I Hh) as St. cbv zeta in St.
  destruct St as (a1 & a2 & a3 & a4 & a5 & a6 & a7 & a8).
  split; [exact a1|]. split; [apply Sizes.szd_sized, Sizes.szd_delete_cell_core; apply Sizes.szd_sized; exact Z|].
  exact (conj a2 (conj a3 (conj a4 (conj a5 (conj a6 (conj a7 (conj a8 (fast_cell_arrays h s D F Z Hh)))))))).
Qed.
