(* Kernel3/GcManifold.v -- C04: the manifoldness pass of StatusAttrib::garbage_collection (Kernel/StatusGC.v sgc_manifold),
   called in deferred mode on a state satisfying the history invariant Hinv (Kernel3/GcHist.v: exact caches, edge and face
   incidences on).  It changes no definition and no cell flag, and flags IN ADDITION exactly
     - the live faces no live cell lists a halfface of,
     - then the live edges no live face (after the first stage) lists a halfedge of,
     - then the live vertices no live edge (after the second stage) has as an endpoint.
   The three loops decide through the caches (halfface->cell entries, halfedge->halfface lists, vertex->halfedge lists); a loop
   does not change the cache it consults, and the caches are exact. *)
From Coq Require Import ZArith Lia Bool Arith List ZifyNat ZifyBool Permutation.
From OVM Require Import Base.ListX Base.ListLemmas Kernel.State Kernel.Ops Kernel.StatusGC Kernel.Mirror Kernel.Recompute Kernel.Closure
                        Kernel.ExactInv Kernel.DeferredDelete Kernel.Sizes Kernel.SwapInvol
                        Kernel2.ListAux Kernel2.ReorderExact Kernel2.ExactBase Kernel2.ExactDelFace Kernel2.ExactDeletions Kernel2.ExactHistory
                        Kernel.ShiftFace Kernel.ShiftCompose
                        Kernel3.GcDefs Kernel3.GcList Kernel3.GcInv Kernel3.GcDeferred Kernel3.GcHist Kernel3.GcStatus.
Import ListNotations.
Ltac Zify.zify_post_hook ::= Z.div_mod_to_equations.
Local Open Scope nat_scope.

(* ================================================================== the three decisions, as the model takes them *)

Definition is_none (o : option nat) : bool := match o with None => true | Some _ => false end.
Definition condF (s : mesh) (f : nat) : bool := live_f s f && is_none (cell_of s (2 * f)) && is_none (cell_of s (2 * f + 1)).
Definition condE (s : mesh) (e : nat) : bool := live_e s e && (length (hfs_at s (2 * e)) =? 0).
Definition condV (s : mesh) (v : nat) : bool := live_v s v && (length (out_at s v) =? 0).

Definition stF (s : mesh) (f : nat) : mesh := if condF s f then delete_face f s else s.
Definition stE (s : mesh) (e : nat) : mesh := if condE s e then delete_edge e s else s.
Definition stV (s : mesh) (v : nat) : mesh := if condV s v then delete_vertex v s else s.

Definition all_on (s : mesh) : mesh := enable_fbu true (enable_ebu true (enable_vbu true s)).

Lemma sgc_manifold_eq s : sgc_manifold s =
  let t0 := all_on s in
  let t1 := fold_left stF (seq 0 (nf t0)) t0 in
  let t2 := fold_left stE (seq 0 (ne t1)) t1 in
  fold_left stV (seq 0 (nv t2)) t2.
Proof.
  unfold sgc_manifold, all_on. cbv zeta.
  assert (X : forall t f, (if live_f t f then match cell_of t (2 * f) with Some _ => t | None => match cell_of t (2 * f + 1) with Some _ => t | None => delete_face f t end end else t) = stF t f).
  { intros t f. unfold stF, condF. destruct (live_f t f); [|reflexivity]. destruct (cell_of t (2 * f)); [reflexivity|]. destruct (cell_of t (2 * f + 1)); reflexivity. }
  rewrite (fold_left_ext _ stF X). reflexivity.
Qed.

(* ================================================================== what one deletion with an empty closure does *)

Lemma set_of_list_nil : set_of_list [] = [].
Proof. reflexivity. Qed.

Lemma Hinv_modes s : Hinv s -> deferred s = true /\ ebu s = true /\ fbu s = true.
Proof. intros ((_ & E & Fb & D & _) & _). auto. Qed.

Lemma delete_face_unbounded s f : Hinv s -> condF s f = true ->
  delete_face f s = delete_face_core f s /\ dstep s (delete_face f s) [] [] [f] [] /\ inc_cell (delete_face f s) = inc_cell s.
Proof.
  intros H C. destruct (Hinv_modes s H) as (D & E & Fb). unfold condF in C. rewrite !andb_true_iff in C. destruct C as [[_ C1] C2].
  assert (Eq : delete_face f s = delete_face_core f s).
  { unfold delete_face, incident_cells_of_faces. rewrite Fb. cbn [flat_map]. destruct (cell_of s (2 * f)); [discriminate|]. destruct (cell_of s (2 * f + 1)); [discriminate|].
    reflexivity. }
  split; [exact Eq|]. rewrite Eq. split; [exact (delete_face_core_deferred f s D)|].
  pose proof (ExactDelFace.delete_face_core_view f s D E) as V. cbv zeta in V. destruct V as (_&_&_&_&_&_&_&_&w9&_). exact w9.
Qed.

Lemma delete_edge_core_inc_hfs h s : deferred s = true -> inc_hfs (delete_edge_core h s) = inc_hfs s.
Proof.
  intros D. unfold delete_edge_core. rewrite D. cbn [negb]. rewrite andb_false_r.
  destruct (vbu s); destruct (edge_at s h) as [v0 v1]; cbn [deferred set_out_hes]; rewrite D; reflexivity.
Qed.

Lemma delete_edge_unbounded s e : Hinv s -> condE s e = true ->
  dstep s (delete_edge e s) [] [e] [] [] /\ inc_hfs (delete_edge e s) = inc_hfs s.
Proof.
  intros H C. destruct (Hinv_modes s H) as (D & E & Fb). unfold condE in C. apply andb_true_iff in C. destruct C as [_ C]. apply Nat.eqb_eq in C.
  assert (Eq : delete_edge e s = delete_edge_core e s).
  { unfold delete_edge, incident_faces_of_edges, incident_cells_of_faces. rewrite E, Fb. cbn [map concat]. rewrite app_nil_r.
    destruct (hfs_at s (2 * e)); [|discriminate]. reflexivity. }
  rewrite Eq. split; [exact (delete_edge_core_deferred e s D)|exact (delete_edge_core_inc_hfs e s D)].
Qed.

Lemma delete_vertex_unbounded s v : Hinv s -> vbu s = true -> condV s v = true ->
  dstep s (delete_vertex v s) [v] [] [] [] /\ out_hes (delete_vertex v s) = out_hes s.
Proof.
  intros H Vb C. destruct (Hinv_modes s H) as (D & E & Fb). unfold condV in C. apply andb_true_iff in C. destruct C as [_ C]. apply Nat.eqb_eq in C.
  assert (Eq : delete_vertex v s = delete_vertex_core v s).
  { unfold delete_vertex, incident_edges_of_vertex, incident_faces_of_edges, incident_cells_of_faces. rewrite Vb, E, Fb.
    destruct (out_at s v); [|discriminate]. reflexivity. }
  rewrite Eq. split; [exact (delete_vertex_core_deferred v s D)|].
  unfold delete_vertex_core. rewrite D. cbn [negb]. rewrite andb_false_r, D. reflexivity.
Qed.

(* ================================================================== the three loops *)

Lemma filter_seq_S (p : nat -> bool) n : filter p (seq 0 (S n)) = filter p (seq 0 n) ++ (if p n then [n] else []).
Proof. rewrite seq_S, filter_app. cbn [filter plus]. destruct (p n); reflexivity. Qed.

Lemma not_in_filter_seq (p : nat -> bool) n : ~ In n (filter p (seq 0 n)).
Proof. intros H. apply filter_In in H. destruct H as [H _]. apply in_seq in H. lia. Qed.

Lemma flag_unchanged L l n : n < length l -> ~ In n L -> nth n (flag_all L l) false = nth n l false.
Proof.
  intros Hn Nin. rewrite nth_flag_all by exact Hn. replace (memb n L) with false; [apply orb_false_r|].
  symmetry. apply memb_false_iff. exact Nin.
Qed.

Lemma Hinv_lens s : Hinv s -> flag_lens s.
Proof. intros (_ & _ & Z). exact (szd_lens s Z). Qed.

Theorem stageF n : forall t0, Hinv t0 -> n <= nf t0 -> let t := fold_left stF (seq 0 n) t0 in
  Hinv t /\ dstep t0 t [] [] (filter (condF t0) (seq 0 n)) [] /\ inc_cell t = inc_cell t0 /\ vbu t = vbu t0.
Proof.
  induction n as [|n IH]; intros t0 H Hn; cbv zeta.
  - cbn [seq fold_left filter]. split; [exact H|]. split; [apply dstep_refl|split; reflexivity].
  - rewrite filter_seq_S, seq_S, fold_left_app. cbn [fold_left plus]. specialize (IH t0 H ltac:(lia)). cbv zeta in IH.
    set (t := fold_left stF (seq 0 n) t0) in *. destruct IH as (Ht & DS & IC & Vb).
    pose proof DS as (_&_&d3&_&_&_&d7&_). destruct (Hinv_lens t0 H) as (_ & _ & Lf & _).
    assert (Cn : condF t n = condF t0 n).
    { unfold condF, live_f, nf, f_deleted, cell_of. rewrite d3, d7, IC, flag_unchanged by (try apply not_in_filter_seq; rewrite Lf; lia). reflexivity. }
    change (stF t n) with (if condF t n then delete_face n t else t). rewrite <- Cn. destruct (condF t n) eqn:C.
    + destruct (delete_face_unbounded t n Ht C) as (_ & DS1 & IC1).
      assert (Lv : live_f t n = true) by (unfold condF in C; rewrite !andb_true_iff in C; tauto).
      destruct (Hinv_delete_face t n Ht Lv) as [Ht' _].
      split; [exact Ht'|]. split; [|split; [congruence|]].
      * pose proof (dstep_trans _ _ _ _ _ _ _ _ _ _ _ DS DS1) as T. cbn [app] in T. exact T.
      * destruct DS1 as (_&_&_&_&_&_&_&_&_&_&_&_&(f1&_)&_). congruence.
    + rewrite app_nil_r. split; [exact Ht|]. split; [exact DS|split; assumption].
Qed.

Theorem stageE n : forall t0, Hinv t0 -> n <= ne t0 -> let t := fold_left stE (seq 0 n) t0 in
  Hinv t /\ dstep t0 t [] (filter (condE t0) (seq 0 n)) [] [] /\ inc_hfs t = inc_hfs t0 /\ vbu t = vbu t0.
Proof.
  induction n as [|n IH]; intros t0 H Hn; cbv zeta.
  - cbn [seq fold_left filter]. split; [exact H|]. split; [apply dstep_refl|split; reflexivity].
  - rewrite filter_seq_S, seq_S, fold_left_app. cbn [fold_left plus]. specialize (IH t0 H ltac:(lia)). cbv zeta in IH.
    set (t := fold_left stE (seq 0 n) t0) in *. destruct IH as (Ht & DS & IC & Vb).
    pose proof DS as (_&d2&_&_&_&d6&_). destruct (Hinv_lens t0 H) as (_ & Le & _).
    assert (Cn : condE t n = condE t0 n).
    { unfold condE, live_e, ne, e_deleted, hfs_at. rewrite d2, d6, IC, flag_unchanged by (try apply not_in_filter_seq; rewrite Le; lia). reflexivity. }
    change (stE t n) with (if condE t n then delete_edge n t else t). rewrite <- Cn. destruct (condE t n) eqn:C.
    + destruct (delete_edge_unbounded t n Ht C) as (DS1 & IC1).
      assert (Lv : live_e t n = true) by (unfold condE in C; rewrite !andb_true_iff in C; tauto).
      destruct (Hinv_delete_edge t n Ht Lv) as [Ht' _].
      split; [exact Ht'|]. split; [|split; [congruence|]].
      * pose proof (dstep_trans _ _ _ _ _ _ _ _ _ _ _ DS DS1) as T. cbn [app] in T. exact T.
      * destruct DS1 as (_&_&_&_&_&_&_&_&_&_&_&_&(f1&_)&_). congruence.
    + rewrite app_nil_r. split; [exact Ht|]. split; [exact DS|split; assumption].
Qed.

Theorem stageV n : forall t0, Hinv t0 -> vbu t0 = true -> n <= nv t0 -> let t := fold_left stV (seq 0 n) t0 in
  Hinv t /\ dstep t0 t (filter (condV t0) (seq 0 n)) [] [] [] /\ out_hes t = out_hes t0 /\ vbu t = vbu t0.
Proof.
  induction n as [|n IH]; intros t0 H Vb0 Hn; cbv zeta.
  - cbn [seq fold_left filter]. split; [exact H|]. split; [apply dstep_refl|split; reflexivity].
  - rewrite filter_seq_S, seq_S, fold_left_app. cbn [fold_left plus]. specialize (IH t0 H Vb0 ltac:(lia)). cbv zeta in IH.
    set (t := fold_left stV (seq 0 n) t0) in *. destruct IH as (Ht & DS & IC & Vb).
    pose proof DS as (d1&_&_&_&d5&_). destruct (Hinv_lens t0 H) as (Lv0 & _).
    assert (Cn : condV t n = condV t0 n).
    { unfold condV, live_v, v_deleted, out_at. rewrite d1, d5, IC, flag_unchanged by (try apply not_in_filter_seq; rewrite Lv0; lia). reflexivity. }
    change (stV t n) with (if condV t n then delete_vertex n t else t). rewrite <- Cn. destruct (condV t n) eqn:C.
    + destruct (delete_vertex_unbounded t n Ht ltac:(congruence) C) as (DS1 & IC1).
      assert (Lv : live_v t n = true) by (unfold condV in C; rewrite !andb_true_iff in C; tauto).
      destruct (Hinv_delete_vertex t n Ht Lv) as [Ht' _].
      split; [exact Ht'|]. split; [|split; [congruence|]].
      * pose proof (dstep_trans _ _ _ _ _ _ _ _ _ _ _ DS DS1) as T. cbn [app] in T. exact T.
      * destruct DS1 as (_&_&_&_&_&_&_&_&_&_&_&_&(f1&_)&_). congruence.
    + rewrite app_nil_r. split; [exact Ht|]. split; [exact DS|split; assumption].
Qed.

(* ================================================================== the decisions are the brute-force ones (exact caches) *)

Definition face_unbounded (s : mesh) (f : nat) : Prop :=
  forall c, c < nc s -> c_deleted s c = false -> forall hf, In hf (cell_at s c) -> hf / 2 <> f.
Definition edge_unbounded (s : mesh) (e : nat) : Prop :=
  forall f, f < nf s -> f_deleted s f = false -> forall he, In he (face_at s f) -> he / 2 <> e.
Definition vertex_unbounded (s : mesh) (v : nat) : Prop :=
  forall e, e < ne s -> e_deleted s e = false -> fst (edge_at s e) <> v /\ snd (edge_at s e) <> v.

Lemma Hinv_caches s : Hinv s -> vbu_ok s /\ ebu_ok s /\ fbu_ok s /\ refs_ok s.
Proof. intros (((VO & EO & FO & R & _) & _) & _). auto. Qed.

Lemma condF_spec s f : Hinv s -> (condF s f = true <-> f < nf s /\ f_deleted s f = false /\ face_unbounded s f).
Proof.
  intros H. destruct (Hinv_modes s H) as (_ & _ & Fb). destruct (Hinv_caches s H) as (_ & _ & FO & (_ & _ & R3)).
  unfold condF. rewrite !andb_true_iff. split.
  - intros [[L C1] C2]. apply live_f_lt in L. destruct L as [A B]. split; [exact A|]. split; [exact B|].
    intros c Hc Hd hf Hhf Eq. assert (Hlt : hf < 2 * nf s) by (pose proof (R3 c Hc Hd hf Hhf); lia).
    assert (Co : cell_of s hf = Some c) by (apply (FO Fb hf Hlt c); auto).
    assert (hf = 2 * f \/ hf = 2 * f + 1) as [->| ->] by lia; rewrite Co in *; discriminate.
  - intros (A & B & U). split; [split|].
    + unfold live_f. rewrite B. cbn [negb]. rewrite andb_true_r. apply Nat.ltb_lt. exact A.
    + destruct (cell_of s (2 * f)) as [c|] eqn:Co; [|reflexivity]. exfalso. apply (FO Fb (2 * f) ltac:(lia) c) in Co. destruct Co as (c1 & c2 & c3).
      apply (U c c1 c2 _ c3). lia.
    + destruct (cell_of s (2 * f + 1)) as [c|] eqn:Co; [|reflexivity]. exfalso. apply (FO Fb (2 * f + 1) ltac:(lia) c) in Co. destruct Co as (c1 & c2 & c3).
      apply (U c c1 c2 _ c3). lia.
Qed.

Lemma length_zero_nil {A} (l : list A) : (length l =? 0) = true <-> l = [].
Proof. destruct l; cbn; split; intros; congruence. Qed.

Lemma condE_spec s e : Hinv s -> (condE s e = true <-> e < ne s /\ e_deleted s e = false /\ edge_unbounded s e).
Proof.
  intros H. destruct (Hinv_modes s H) as (_ & E & _). destruct (Hinv_caches s H) as (_ & EO & _).
  unfold condE. rewrite andb_true_iff, length_zero_nil. split.
  - intros [L C]. apply live_e_lt in L. destruct L as [A B]. split; [exact A|]. split; [exact B|].
    intros f Hf Hd he Hhe Eq.
    assert (J : In (2 * e) (halfface s (2 * f)) \/ In (2 * e) (halfface s (2 * f + 1))) by (apply In_face_either; exists he; auto).
    destruct J as [J|J].
    + assert (In (2 * f) (hfs_at s (2 * e))) by (apply (EO E (2 * e) ltac:(lia)); replace (2 * f / 2) with f by lia; auto). rewrite C in H0. destruct H0.
    + assert (In (2 * f + 1) (hfs_at s (2 * e))) by (apply (EO E (2 * e) ltac:(lia)); replace ((2 * f + 1) / 2) with f by lia; auto). rewrite C in H0. destruct H0.
  - intros (A & B & U). split.
    + unfold live_e. rewrite B. cbn [negb]. rewrite andb_true_r. apply Nat.ltb_lt. exact A.
    + destruct (hfs_at s (2 * e)) as [|x l] eqn:Hl; [reflexivity|]. exfalso.
      assert (Hx : In x (hfs_at s (2 * e))) by (rewrite Hl; left; reflexivity). apply (EO E (2 * e) ltac:(lia) x) in Hx. destruct Hx as (c1 & c2 & c3).
      assert (J : In (2 * e) (halfface s (2 * (x / 2))) \/ In (2 * e) (halfface s (2 * (x / 2) + 1))).
      { assert (x = 2 * (x / 2) \/ x = 2 * (x / 2) + 1) as [Q|Q] by lia; rewrite <- Q; tauto. }
      apply In_face_either in J. destruct J as [he [J1 J2]]. exact (U (x / 2) c1 c2 he J1 J2).
Qed.

Lemma condV_spec s v : Hinv s -> vbu s = true -> (condV s v = true <-> v < nv s /\ v_deleted s v = false /\ vertex_unbounded s v).
Proof.
  intros H Vb. destruct (Hinv_caches s H) as (VO & _).
  unfold condV. rewrite andb_true_iff, length_zero_nil. split.
  - intros [L C]. apply live_v_parts in L. destruct L as [A B]. split; [exact A|]. split; [exact B|].
    intros e He Hd. split; intros Eq.
    + assert (In (2 * e) (out_at s v)) by (apply (VO Vb v A); replace (2 * e / 2) with e by lia; rewrite he_from_even; auto). rewrite C in H0. destruct H0.
    + assert (In (2 * e + 1) (out_at s v)) by (apply (VO Vb v A); replace ((2 * e + 1) / 2) with e by lia; rewrite he_from_odd; auto). rewrite C in H0. destruct H0.
  - intros (A & B & U). split.
    + unfold live_v. rewrite B. cbn [negb]. rewrite andb_true_r. apply Nat.ltb_lt. exact A.
    + destruct (out_at s v) as [|x l] eqn:Hl; [reflexivity|]. exfalso.
      assert (Hx : In x (out_at s v)) by (rewrite Hl; left; reflexivity). apply (VO Vb v A x) in Hx. destruct Hx as (c1 & c2 & c3).
      destruct (U (x / 2) c1 c2) as [U1 U2]. rewrite he_from_cases in c3. destruct (x mod 2 =? 0); congruence.
Qed.

(* ================================================================== the pass as a whole *)

Lemma all_on_facts s : Hinv s ->
  Hinv (all_on s) /\ vbu (all_on s) = true /\ kview (all_on s) = kview s /\ nv (all_on s) = nv s /\ (forall k, props k (all_on s) = props k s).
Proof.
  intros H. unfold all_on. pose proof (Hinv_enable_vbu true s H) as Hv. destruct (Hinv_enable_ebu_true _ Hv) as [He _]. destruct (Hinv_enable_fbu_true _ He) as [Hf _].
  split; [exact Hf|]. destruct (Hinv_flags _ Hv) as [E Fb]. destruct (Hinv_flags _ He) as [E' Fb'].
  rewrite (enable_fbu_on _ Fb'), (enable_ebu_on _ E).
  assert (V : vbu (enable_vbu true s) = true /\ kview (enable_vbu true s) = kview s /\ nv (enable_vbu true s) = nv s /\ (forall k, props k (enable_vbu true s) = props k s)).
  { unfold enable_vbu. destruct (vbu s); cbn [andb negb]; splits; try reflexivity; intros k; destruct k; reflexivity. }
  destruct V as (v1 & v2 & v3 & v4). splits; [exact v1|exact v2|exact v3|exact v4].
Qed.

Lemma flag_read_true L l i : i < length l -> (nth i (flag_all L l) false = true <-> nth i l false = true \/ In i L).
Proof. intros Hi. rewrite nth_flag_all by exact Hi. rewrite orb_true_iff, Base.ListLemmas.memb_In. reflexivity. Qed.

Lemma In_filter_seq (p : nat -> bool) n i : In i (filter p (seq 0 n)) <-> i < n /\ p i = true.
Proof. rewrite filter_In, in_seq. intuition lia. Qed.

Lemma stages_exact s t0 t1 t2 t3 Lf Le Lv : Hinv t0 -> Hinv t1 -> Hinv t2 -> vbu t2 = true ->
  kview t0 = kview s -> nv t0 = nv s -> (forall k, props k t0 = props k s) ->
  dstep t0 t1 [] [] Lf [] -> dstep t1 t2 [] Le [] [] -> dstep t2 t3 Lv [] [] [] ->
  (forall f, In f Lf <-> f < nf t0 /\ condF t0 f = true) -> (forall e, In e Le <-> e < ne t1 /\ condE t1 e = true) ->
  (forall v, In v Lv <-> v < nv t2 /\ condV t2 v = true) ->
  nv t3 = nv s /\ edges t3 = edges s /\ faces t3 = faces s /\ cells t3 = cells s /\ cdel t3 = cdel s /\ (forall k, props k t3 = props k s) /\
  (forall f, f < nf s -> (f_deleted t3 f = true <-> f_deleted s f = true \/ (f_deleted s f = false /\ face_unbounded s f))) /\
  (forall e, e < ne s -> (e_deleted t3 e = true <-> e_deleted s e = true \/ (e_deleted s e = false /\ edge_unbounded t3 e))) /\
  (forall v, v < nv s -> (v_deleted t3 v = true <-> v_deleted s v = true \/ (v_deleted s v = false /\ vertex_unbounded t3 v))).
Proof.
  intros H0 H1 H2 V2 K0 N0 P0 DS1 DS2 DS3 MF ME MV.
  unfold kview in K0. injection K0 as k1 k2 k3 k4 k5 k6 k7 k8 k9 k10 k11.
  destruct (Hinv_lens t0 H0) as (Lv0 & Le0 & Lf0 & Lc0). destruct (Hinv_lens t1 H1) as (Lv1 & Le1 & Lf1 & Lc1). destruct (Hinv_lens t2 H2) as (Lv2 & Le2 & Lf2 & Lc2).
  destruct DS1 as (a1&a2&a3&a4&a5&a6&a7&a8&_&_&_&_&_&ap). destruct DS2 as (b1&b2&b3&b4&b5&b6&b7&b8&_&_&_&_&_&bp). destruct DS3 as (c1&c2&c3&c4&c5&c6&c7&c8&_&_&_&_&_&cp).
  unfold flag_all in a5, a6, a8, b5, b7, b8, c6, c7, c8. cbn [fold_left] in a5, a6, a8, b5, b7, b8, c6, c7, c8.
  split; [congruence|]. split; [congruence|]. split; [congruence|]. split; [congruence|]. split; [congruence|].
  split; [intros k; rewrite cp, bp, ap; apply P0|]. split; [|split].
  - intros f Hf. unfold f_deleted at 1. rewrite c7, b7, a7.
    assert (Hf0 : f < nf t0) by (unfold nf in *; rewrite k2; exact Hf).
    rewrite flag_read_true by (rewrite Lf0; exact Hf0). rewrite MF, (condF_spec t0 f H0).
    unfold face_unbounded, f_deleted, nf, nc, c_deleted, cell_at. rewrite k2, k3, k6, k7.
    destruct (nth f (fdel s) false); [split; intros _; left; reflexivity|]. split.
    + intros [X|(_ & _ & _ & U)]; [discriminate|]. right. split; [reflexivity|exact U].
    + intros [X|[_ U]]; [discriminate|]. right. unfold nf in Hf. splits; auto.
  - intros e He. unfold e_deleted at 1. rewrite c6, b6.
    assert (He1 : e < ne t1) by (unfold ne in *; rewrite a2, k1; exact He).
    rewrite flag_read_true by (rewrite Le1; exact He1). rewrite ME, (condE_spec t1 e H1).
    unfold edge_unbounded, e_deleted, ne, nf, f_deleted, face_at. rewrite a6, k5, a2, k1, c3, b3, c7, b7.
    destruct (nth e (edel s) false); [split; intros _; left; reflexivity|]. split.
    + intros [X|(_ & _ & _ & U)]; [discriminate|]. right. split; [reflexivity|exact U].
    + intros [X|[_ U]]; [discriminate|]. right. unfold ne in He. splits; auto.
  - intros v Hv. unfold v_deleted at 1. rewrite c5.
    assert (Hv2 : v < nv t2) by (rewrite b1, a1, N0; exact Hv).
    rewrite flag_read_true by (rewrite Lv2; exact Hv2). rewrite MV, (condV_spec t2 v H2 V2).
    unfold vertex_unbounded, v_deleted, ne, e_deleted, edge_at. rewrite b5, a5, k4, b1, a1, N0, c2, c6.
    destruct (nth v (vdel s) false); [split; intros _; left; reflexivity|]. split.
    + intros [X|(_ & _ & _ & U)]; [discriminate|]. right. split; [reflexivity|exact U].
    + intros [X|[_ U]]; [discriminate|]. right. splits; auto.
Qed.

Theorem sgc_manifold_exact s : Hinv s -> let m := sgc_manifold s in
  Hinv m /\ fast m = fast s /\
  (nv m = nv s /\ edges m = edges s /\ faces m = faces s /\ cells m = cells s /\ cdel m = cdel s /\ (forall k, props k m = props k s) /\
   (forall f, f < nf s -> (f_deleted m f = true <-> f_deleted s f = true \/ (f_deleted s f = false /\ face_unbounded s f))) /\
   (forall e, e < ne s -> (e_deleted m e = true <-> e_deleted s e = true \/ (e_deleted s e = false /\ edge_unbounded m e))) /\
   (forall v, v < nv s -> (v_deleted m v = true <-> v_deleted s v = true \/ (v_deleted s v = false /\ vertex_unbounded m v)))).
Proof.
  intros H. cbv zeta. destruct (Hinv_sgc_manifold s H) as [Hm Fm]. split; [exact Hm|]. split; [exact Fm|]. clear Hm Fm.
  rewrite sgc_manifold_eq. cbv zeta.
  destruct (all_on_facts s H) as (H0 & V0 & K0 & N0 & P0). revert H0 V0 K0 N0 P0. generalize (all_on s). intros t0 H0 V0 K0 N0 P0.
  destruct (stageF (nf t0) t0 H0 (le_n _)) as (H1 & DS1 & _ & V1). revert H1 DS1 V1. generalize (fold_left stF (seq 0 (nf t0)) t0). intros t1 H1 DS1 V1.
  destruct (stageE (ne t1) t1 H1 (le_n _)) as (H2 & DS2 & _ & V2). revert H2 DS2 V2. generalize (fold_left stE (seq 0 (ne t1)) t1). intros t2 H2 DS2 V2.
  assert (Vb2 : vbu t2 = true) by congruence.
  destruct (stageV (nv t2) t2 H2 Vb2 (le_n _)) as (_ & DS3 & _). revert DS3. generalize (fold_left stV (seq 0 (nv t2)) t2). intros t3 DS3.
  exact (stages_exact s t0 t1 t2 t3 _ _ _ H0 H1 H2 Vb2 K0 N0 P0 DS1 DS2 DS3 (In_filter_seq _ _) (In_filter_seq _ _) (In_filter_seq _ _)).
Qed.
