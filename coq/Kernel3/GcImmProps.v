(* Kernel3/GcImmProps.v -- C03/C04: the property arrays after the IMMEDIATE NON-FAST public deletions: every array of the kinds
   in the closure loses exactly the slots of the closure (keep_slots), nothing else changes.  Unconditional in the caches (each
   core applies delete-element to its own kind, Kernel/DeleteEffects.v); the closure lists are those of Kernel/ShiftCompose.v. *)
From Coq Require Import ZArith Lia Bool Arith List ZifyNat ZifyBool.
From OVM Require Import Base.ListX Base.ListLemmas Kernel.State Kernel.Ops Kernel.Recompute Kernel.Closure Kernel.DeleteEffects Kernel.GcFacts
                        Kernel.SwapInvol Kernel.ShiftFace Kernel.ShiftCompose Kernel3.GcDefs Kernel3.GcList.
Import ListNotations.
Ltac Zify.zify_post_hook ::= Z.div_mod_to_equations.
Local Open Scope nat_scope.

(* the two half-entity slots of every listed entity *)
Definition halves (l : list nat) : list nat := flat_map (fun i => [2 * i; 2 * i + 1]) l.

Definition pslots (cs : list nat) (p : parray) : parray := {| pdef := pdef p; pdata := remove_slots cs (pdata p) |}.

Lemma pslots_nil p : pslots [] p = p.
Proof. destruct p; reflexivity. Qed.
Lemma map_pslots_nil l : map (pslots []) l = l.
Proof. apply map_id_on. intros p _. apply pslots_nil. Qed.

Lemma pslots_cons a cs p : pslots (a :: cs) p = pdelete a (pslots cs p).
Proof. unfold pslots, pdelete. cbn [pdef pdata]. rewrite remove_slots_cons. reflexivity. Qed.
Lemma map_pslots_cons a cs l : map (pslots (a :: cs)) l = map (pdelete a) (map (pslots cs) l).
Proof. rewrite map_map. apply map_ext. intros p. apply pslots_cons. Qed.

Lemma pslots_halves_cons a cs p : pslots (halves (a :: cs)) p = pdelete (2 * a) (pdelete (2 * a + 1) (pslots (halves cs) p)).
Proof. change (halves (a :: cs)) with (2 * a :: 2 * a + 1 :: halves cs). rewrite !pslots_cons. reflexivity. Qed.
Lemma map_pslots_halves_cons a cs l :
  map (pslots (halves (a :: cs))) l = map (pdelete (2 * a)) (map (pdelete (2 * a + 1)) (map (pslots (halves cs)) l)).
Proof. rewrite !map_map. apply map_ext. intros p. apply pslots_halves_cons. Qed.

Lemma modes_of_cv s t : cv t = cv s -> deferred t = deferred s /\ fast t = fast s.
Proof. unfold cv. intros E. inversion E. auto. Qed.

(* ================================================================== descending runs of one core *)

Lemma del_desc_cells_props l : forall s, deferred s = false -> fast s = false -> let t := del_desc delete_cell_core l s in
  deferred t = false /\ fast t = false /\ pc t = map (pslots l) (pc s) /\
  pv t = pv s /\ pe t = pe s /\ phe t = phe s /\ pf t = pf s /\ phf t = phf s /\ pm t = pm s.
Proof.
  induction l as [|a l IH]; intros s D F; cbv zeta.
  - unfold del_desc. cbn [rev fold_left]. rewrite map_pslots_nil. repeat split; auto.
  - rewrite del_desc_cons. specialize (IH s D F). cbv zeta in IH. set (u := del_desc delete_cell_core l s) in *.
    destruct IH as (Du & Fu & a1 & a2 & a3 & a4 & a5 & a6 & a7).
    pose proof (delete_cell_core_props a u Du) as P. cbv zeta in P. unfold victim in P. rewrite Fu in P. cbn [andb] in P.
    destruct P as (_ & p2 & _ & _ & _ & p6 & p7 & p8 & p9 & p10 & p11).
    destruct (modes_of_cv u _ (cv_delete_cell_core a u Du)) as [Dt Ft].
    rewrite map_pslots_cons, <- a1. repeat split; congruence.
Qed.

Lemma del_desc_faces_props l : forall s, deferred s = false -> fast s = false -> let t := del_desc delete_face_core l s in
  deferred t = false /\ fast t = false /\ pf t = map (pslots l) (pf s) /\ phf t = map (pslots (halves l)) (phf s) /\
  pv t = pv s /\ pe t = pe s /\ phe t = phe s /\ pc t = pc s /\ pm t = pm s.
Proof.
  induction l as [|a l IH]; intros s D F; cbv zeta.
  - unfold del_desc. cbn [rev fold_left]. change (halves []) with (@nil nat). rewrite !map_pslots_nil. repeat split; auto.
  - rewrite del_desc_cons. specialize (IH s D F). cbv zeta in IH. set (u := del_desc delete_face_core l s) in *.
    destruct IH as (Du & Fu & a1 & a2 & a3 & a4 & a5 & a6 & a7).
    pose proof (delete_face_core_props a u Du) as P. cbv zeta in P. unfold victim in P. rewrite Fu in P. cbn [andb] in P.
    destruct P as (_ & p2 & p3 & _ & _ & _ & p7 & p8 & p9 & p10 & p11).
    destruct (modes_of_cv u _ (cv_delete_face_core a u Du)) as [Dt Ft].
    rewrite map_pslots_cons, map_pslots_halves_cons, <- a1, <- a2. repeat split; congruence.
Qed.

Lemma del_desc_edges_props l : forall s, deferred s = false -> fast s = false -> let t := del_desc delete_edge_core l s in
  deferred t = false /\ fast t = false /\ pe t = map (pslots l) (pe s) /\ phe t = map (pslots (halves l)) (phe s) /\
  pv t = pv s /\ pf t = pf s /\ phf t = phf s /\ pc t = pc s /\ pm t = pm s.
Proof.
  induction l as [|a l IH]; intros s D F; cbv zeta.
  - unfold del_desc. cbn [rev fold_left]. change (halves []) with (@nil nat). rewrite !map_pslots_nil. repeat split; auto.
  - rewrite del_desc_cons. specialize (IH s D F). cbv zeta in IH. set (u := del_desc delete_edge_core l s) in *.
    destruct IH as (Du & Fu & a1 & a2 & a3 & a4 & a5 & a6 & a7).
    pose proof (delete_edge_core_props a u Du) as P. cbv zeta in P. unfold victim in P. rewrite Fu in P. cbn [andb] in P.
    destruct P as (_ & p2 & p3 & _ & _ & _ & p7 & p8 & p9 & p10 & p11).
    destruct (modes_of_cv u _ (cv_delete_edge_core a u Du)) as [Dt Ft].
    rewrite map_pslots_cons, map_pslots_halves_cons, <- a1, <- a2. repeat split; congruence.
Qed.

Lemma vertex_core_props v s : deferred s = false -> fast s = false -> let t := delete_vertex_core v s in
  pv t = map (pdelete v) (pv s) /\ pe t = pe s /\ phe t = phe s /\ pf t = pf s /\ phf t = phf s /\ pc t = pc s /\ pm t = pm s.
Proof.
  intros D F. cbv zeta. pose proof (delete_vertex_core_props v s D) as P. cbv zeta in P. unfold victim in P. rewrite F in P. cbn [andb] in P.
  destruct P as (_ & p2 & _ & _ & _ & p6 & p7 & p8 & p9 & p10 & p11). repeat split; assumption.
Qed.

(* ================================================================== the public deletions (the closure gathered however) *)

Theorem delete_vertex_props_raw v s : deferred s = false -> fast s = false ->
  let es := incident_edges_of_vertex s v in let fs := incident_faces_of_edges s es in let cs := incident_cells_of_faces s fs in
  let t := delete_vertex v s in
  pv t = map (pdelete v) (pv s) /\ pe t = map (pslots es) (pe s) /\ phe t = map (pslots (halves es)) (phe s) /\
  pf t = map (pslots fs) (pf s) /\ phf t = map (pslots (halves fs)) (phf s) /\ pc t = map (pslots cs) (pc s) /\ pm t = pm s.
Proof.
  intros D F. cbv zeta. unfold delete_vertex.
  set (es := incident_edges_of_vertex s v). set (fs := incident_faces_of_edges s es). set (cs := incident_cells_of_faces s fs).
  pose proof (del_desc_cells_props cs s D F) as P1. cbv zeta in P1. set (t1 := del_desc delete_cell_core cs s) in *.
  destruct P1 as (D1 & F1 & a1 & a2 & a3 & a4 & a5 & a6 & a7).
  pose proof (del_desc_faces_props fs t1 D1 F1) as P2. cbv zeta in P2. set (t2 := del_desc delete_face_core fs t1) in *.
  destruct P2 as (D2 & F2 & b1 & b2 & b3 & b4 & b5 & b6 & b7).
  pose proof (del_desc_edges_props es t2 D2 F2) as P3. cbv zeta in P3. set (t3 := del_desc delete_edge_core es t2) in *.
  destruct P3 as (D3 & F3 & c1 & c2 & c3 & c4 & c5 & c6 & c7).
  pose proof (vertex_core_props v t3 D3 F3) as P4. cbv zeta in P4. destruct P4 as (d1 & d2 & d3 & d4 & d5 & d6 & d7).
  repeat split; congruence.
Qed.

Theorem delete_edge_props_raw e s : deferred s = false -> fast s = false ->
  let fs := incident_faces_of_edges s [e] in let cs := incident_cells_of_faces s fs in
  let t := delete_edge e s in
  pv t = pv s /\ pe t = map (pdelete e) (pe s) /\ phe t = map (pdelete (2 * e)) (map (pdelete (2 * e + 1)) (phe s)) /\
  pf t = map (pslots fs) (pf s) /\ phf t = map (pslots (halves fs)) (phf s) /\ pc t = map (pslots cs) (pc s) /\ pm t = pm s.
Proof.
  intros D F. cbv zeta. unfold delete_edge.
  set (fs := incident_faces_of_edges s [e]). set (cs := incident_cells_of_faces s fs).
  pose proof (del_desc_cells_props cs s D F) as P1. cbv zeta in P1. set (t1 := del_desc delete_cell_core cs s) in *.
  destruct P1 as (D1 & F1 & a1 & a2 & a3 & a4 & a5 & a6 & a7).
  pose proof (del_desc_faces_props fs t1 D1 F1) as P2. cbv zeta in P2. set (t2 := del_desc delete_face_core fs t1) in *.
  destruct P2 as (D2 & F2 & b1 & b2 & b3 & b4 & b5 & b6 & b7).
  pose proof (delete_edge_core_props e t2 D2) as P. cbv zeta in P. unfold victim in P. rewrite F2 in P. cbn [andb] in P.
  destruct P as (_ & p2 & p3 & _ & _ & _ & p7 & p8 & p9 & p10 & p11).
  repeat split; congruence.
Qed.

Theorem delete_face_props_raw f s : deferred s = false -> fast s = false ->
  let cs := incident_cells_of_faces s [f] in
  let t := delete_face f s in
  pv t = pv s /\ pe t = pe s /\ phe t = phe s /\
  pf t = map (pdelete f) (pf s) /\ phf t = map (pdelete (2 * f)) (map (pdelete (2 * f + 1)) (phf s)) /\ pc t = map (pslots cs) (pc s) /\ pm t = pm s.
Proof.
  intros D F. cbv zeta. unfold delete_face. set (cs := incident_cells_of_faces s [f]).
  pose proof (del_desc_cells_props cs s D F) as P1. cbv zeta in P1. set (t1 := del_desc delete_cell_core cs s) in *.
  destruct P1 as (D1 & F1 & a1 & a2 & a3 & a4 & a5 & a6 & a7).
  pose proof (delete_face_core_props f t1 D1) as P. cbv zeta in P. unfold victim in P. rewrite F1 in P. cbn [andb] in P.
  destruct P as (_ & p2 & p3 & _ & _ & _ & p7 & p8 & p9 & p10 & p11).
  repeat split; congruence.
Qed.

Theorem delete_cell_props_raw c s : deferred s = false -> fast s = false ->
  let t := delete_cell c s in
  pv t = pv s /\ pe t = pe s /\ phe t = phe s /\ pf t = pf s /\ phf t = phf s /\ pc t = map (pdelete c) (pc s) /\ pm t = pm s.
Proof.
  intros D F. cbv zeta. unfold delete_cell.
  pose proof (delete_cell_core_props c s D) as P. cbv zeta in P. unfold victim in P. rewrite F in P. cbn [andb] in P.
  destruct P as (_ & p2 & _ & _ & _ & p6 & p7 & p8 & p9 & p10 & p11). repeat split; assumption.
Qed.

(* ================================================================== remove_slots of a sorted in-range list = keep_slots *)

Lemma sorted_halves l : strictly_sorted l -> strictly_sorted (halves l).
Proof.
  induction l as [|a l IH]; intros H; [constructor|]. change (halves (a :: l)) with (2 * a :: 2 * a + 1 :: halves l).
  constructor; [lia|]. pose proof (IH (sorted_tail _ _ H)) as T. destruct l as [|b l]; [constructor|].
  change (halves (b :: l)) with (2 * b :: 2 * b + 1 :: halves l) in *. constructor; [|exact T].
  assert (a < b) by (inversion H; assumption). lia.
Qed.

Lemma In_halves l x : In x (halves l) <-> In (x / 2) l.
Proof.
  unfold halves. rewrite in_flat_map. split.
  - intros [i [Hi [E|[E|[]]]]]; subst x; [replace (2 * i / 2) with i by lia|replace ((2 * i + 1) / 2) with i by lia]; exact Hi.
  - intros H. exists (x / 2). split; [exact H|]. cbn [In]. lia.
Qed.

Lemma pslots_pkeep cs p : strictly_sorted cs -> (forall c, In c cs -> c < length (pdata p)) -> pslots cs p = pkeep cs p.
Proof. intros S R. unfold pslots, pkeep. rewrite (remove_slots_keep (pdef p) cs (pdata p) S R). reflexivity. Qed.

Lemma map_pslots_pkeep cs l n : strictly_sorted cs -> (forall c, In c cs -> c < n) -> (forall p, In p l -> length (pdata p) = n) ->
  map (pslots cs) l = map (pkeep cs) l.
Proof. intros S R L. apply map_ext_in. intros p Hp. apply pslots_pkeep; [exact S|]. intros c Hc. rewrite (L p Hp). exact (R c Hc). Qed.

Lemma pdelete_pkeep c p : c < length (pdata p) -> pdelete c p = pkeep [c] p.
Proof.
  intros H. rewrite <- pslots_pkeep; [|constructor|intros x [<-|[]]; exact H]. unfold pslots, pdelete, remove_slots. reflexivity.
Qed.

Lemma pkeep_ext cs cs' p : (forall i, i < length (pdata p) -> memb i cs = memb i cs') -> pkeep cs p = pkeep cs' p.
Proof.
  intros H. unfold pkeep. f_equal. unfold keep_slots. f_equal. apply filter_ext_in2. intros i Hi. apply in_seq in Hi. rewrite H by lia. reflexivity.
Qed.
