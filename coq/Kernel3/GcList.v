(* Kernel3/GcList.v -- C04: list facts behind the collection theorems:
     - compact (drop the flagged positions) commutes with removing a flagged slot, is keep_slots of the flagged indices, has
       rank-many elements; the compacted flag array is all-false;
     - rank is compositional: removing a flagged slot n and renaming by cor1 n (cor2 (2n+1) on half-handles) does not change ranks;
     - the doubled flag array of the half-entities. *)
From Coq Require Import ZArith Lia Bool Arith List ZifyNat ZifyBool.
From OVM Require Import Base.ListX Base.ListLemmas Kernel.State Kernel.Ops Kernel.ShiftFace Kernel.ShiftCompose Kernel3.GcDefs.
Import ListNotations.
Ltac Zify.zify_post_hook ::= Z.div_mod_to_equations.
Local Open Scope nat_scope.

(* split conjunctions only (never introduces hypotheses) *)
Ltac splits := repeat match goal with |- _ /\ _ => split end.

(* ================================================================== small list facts *)

Lemma remove_nth_upd_same {A} n (x : A) : forall l, remove_nth n (upd n x l) = remove_nth n l.
Proof. induction n as [|n IH]; intros [|a l]; cbn [upd remove_nth]; try reflexivity. rewrite IH. reflexivity. Qed.

Lemma map_nth_seq {A} (l : list A) d : map (fun i => nth i l d) (seq 0 (length l)) = l.
Proof.
  apply (list_ext_nth _ _ d); [rewrite map_length, seq_length; reflexivity|]. intros k Hk. rewrite map_length, seq_length in Hk.
  rewrite (nth_indep _ d (nth 0 l d)) by (rewrite map_length, seq_length; exact Hk).
  change (nth 0 l d) with ((fun i => nth i l d) 0). rewrite map_nth, seq_nth by exact Hk. reflexivity.
Qed.

Lemma filter_map_comm {A B} (p : B -> bool) (g : A -> B) l : filter p (map g l) = map g (filter (fun x => p (g x)) l).
Proof. induction l as [|a l IH]; [reflexivity|]. cbn [map filter]. destruct (p (g a)); cbn [map]; rewrite IH; reflexivity. Qed.

Lemma filter_ext_in2 {A} (p q : A -> bool) l : (forall x, In x l -> p x = q x) -> filter p l = filter q l.
Proof. intros H. induction l as [|a l IH]; [reflexivity|]. simpl. rewrite (H a) by (left; reflexivity). rewrite IH by (intros x Hx; apply H; right; exact Hx). reflexivity. Qed.

Lemma nth_false_nil i : nth i (@nil bool) false = false.
Proof. destruct i; reflexivity. Qed.

(* ================================================================== alive / dead / rank *)

Lemma alive_S del n : alive del (S n) = alive del n ++ (if nth n del false then [] else [n]).
Proof. unfold alive. rewrite seq_S, filter_app. cbn [filter plus]. destruct (nth n del false); reflexivity. Qed.

Lemma dead_S del n : dead del (S n) = dead del n ++ (if nth n del false then [n] else []).
Proof. unfold dead. rewrite seq_S, filter_app. cbn [filter plus]. destruct (nth n del false); reflexivity. Qed.

Lemma rank_0 del : rank del 0 = 0.
Proof. reflexivity. Qed.

Lemma rank_S del x : rank del (S x) = rank del x + (if nth x del false then 0 else 1).
Proof. unfold rank. rewrite alive_S, app_length. destruct (nth x del false); reflexivity. Qed.

Lemma rank_le del x : rank del x <= x.
Proof. induction x as [|x IH]; [rewrite rank_0; lia|]. rewrite rank_S. destruct (nth x del false); lia. Qed.

Lemma rank_mono del x y : x <= y -> rank del x <= rank del y.
Proof. induction 1 as [|y _ IH]; [lia|]. rewrite rank_S. lia. Qed.

(* a live index has a rank strictly below the rank of every larger index *)
Lemma rank_lt del x y : x < y -> nth x del false = false -> rank del x < rank del y.
Proof. intros H L. pose proof (rank_mono del (S x) y H) as M. rewrite rank_S, L in M. lia. Qed.

Lemma rank_inj_live del x y : nth x del false = false -> nth y del false = false -> rank del x = rank del y -> x = y.
Proof.
  intros Lx Ly E. destruct (Nat.lt_trichotomy x y) as [H|[H|H]]; [|exact H|].
  - pose proof (rank_lt del x y H Lx). lia.
  - pose proof (rank_lt del y x H Ly). lia.
Qed.

Lemma In_alive del n i : In i (alive del n) <-> i < n /\ nth i del false = false.
Proof. unfold alive. rewrite filter_In, in_seq, negb_true_iff. intuition lia. Qed.
Lemma In_dead del n i : In i (dead del n) <-> i < n /\ nth i del false = true.
Proof. unfold dead. rewrite filter_In, in_seq. intuition lia. Qed.

Lemma alive_all_false del n : (forall i, nth i del false = false) -> alive del n = seq 0 n.
Proof. intros H. unfold alive. apply filter_all. intros x _. rewrite H. reflexivity. Qed.

Lemma rank_all_false del x : (forall i, i < x -> nth i del false = false) -> rank del x = x.
Proof.
  induction x as [|x IH]; intros H; [reflexivity|]. rewrite rank_S, IH by (intros i Hi; apply H; lia). rewrite H by lia. lia.
Qed.

Lemma rank2_all_false del h : (forall i, nth i del false = false) -> rank2 del h = h.
Proof. intros H. unfold rank2. rewrite rank_all_false by (intros; apply H). lia. Qed.

Lemma rank_dead del x : rank del x + length (dead del x) = x.
Proof.
  induction x as [|x IH]; [reflexivity|]. rewrite rank_S, dead_S, app_length. destruct (nth x del false); cbn [length]; lia.
Qed.

(* the flags at and above n play no role for the ranks up to n *)
Lemma rank_ext del del' x : (forall i, i < x -> nth i del false = nth i del' false) -> rank del x = rank del' x.
Proof.
  induction x as [|x IH]; intros H; [reflexivity|]. rewrite !rank_S, IH by (intros i Hi; apply H; lia). rewrite H by lia. reflexivity.
Qed.

(* removing the flagged slot n and renaming the handles above it keeps every rank *)
Lemma rank_remove del n x : nth n del false = true -> rank (remove_nth n del) (cor1 n x) = rank del x.
Proof.
  intros Hn. induction x as [|x IH]; [reflexivity|]. rewrite rank_S. unfold cor1 in *.
  destruct (Nat.ltb_spec n (S x)) as [H1|H1]; destruct (Nat.ltb_spec n x) as [H2|H2]; try lia.
  - (* n < x *) replace (S x - 1) with (S (x - 1)) by lia. rewrite rank_S, IH, nth_remove_nth.
    replace (x - 1 <? n) with false by (symmetry; apply Nat.ltb_ge; lia). replace (S (x - 1)) with x by lia. reflexivity.
  - (* x = n *) assert (x = n) by lia. subst x. replace (S n - 1) with n by lia. rewrite IH, Hn. lia.
  - (* S x <= n *) rewrite rank_S, IH, nth_remove_nth. replace (x <? n) with true by (symmetry; apply Nat.ltb_lt; lia). reflexivity.
Qed.

Lemma rank2_remove del n h : nth n del false = true -> rank2 (remove_nth n del) (cor2 (2 * n + 1) h) = rank2 del h.
Proof.
  intros Hn. unfold rank2. rewrite <- (rank_remove del n (h / 2) Hn). unfold cor2, cor1.
  destruct (Nat.ltb_spec (2 * n + 1) h) as [H1|H1]; destruct (Nat.ltb_spec n (h / 2)) as [H2|H2]; try lia.
  - replace ((h - 2) / 2) with (h / 2 - 1) by lia. lia.
Qed.

Lemma rankp_remove del n p : nth n del false = true -> rankp (remove_nth n del) (cor1 n (fst p), cor1 n (snd p)) = rankp del p.
Proof. intros Hn. unfold rankp. cbn [fst snd]. rewrite !rank_remove by exact Hn. reflexivity. Qed.

(* ================================================================== compact *)

Lemma compact_nil_flags {A} (l : list A) : compact [] l = l.
Proof. destruct l; reflexivity. Qed.

Lemma compact_remove {A} n : forall del (l : list A), nth n del false = true ->
  compact (remove_nth n del) (remove_nth n l) = compact del l.
Proof.
  induction n as [|n IH]; intros [|b del] l H; cbn [nth] in H; try discriminate.
  - subst b. destruct l as [|x t]; [reflexivity|]. cbn [remove_nth compact]. reflexivity.
  - destruct l as [|x t]; [reflexivity|]. cbn [remove_nth compact]. rewrite (IH del t H). reflexivity.
Qed.

Lemma compact_all_false {A} : forall del (l : list A), (forall i, nth i del false = false) -> compact del l = l.
Proof.
  intros del l. revert del. induction l as [|x t IH]; intros [|b del] H; try reflexivity.
  cbn [compact]. pose proof (H 0) as H0. cbn [nth] in H0. subst b. f_equal. apply IH. intros i. exact (H (S i)).
Qed.

Lemma alive_cons b del n : alive (b :: del) (S n) = (if b then [] else [0]) ++ map S (alive del n).
Proof.
  unfold alive. rewrite <- cons_seq, <- seq_shift. cbn [filter nth]. rewrite filter_map_comm. cbn [nth].
  destruct b; reflexivity.
Qed.

Lemma compact_alive {A} (d : A) : forall l del, compact del l = map (fun i => nth i l d) (alive del (length l)).
Proof.
  induction l as [|x t IH]; intros del; [reflexivity|]. destruct del as [|b del].
  - rewrite compact_nil_flags, alive_all_false by (intros; apply nth_false_nil). symmetry. apply map_nth_seq.
  - cbn [compact length]. rewrite alive_cons, map_app, map_map. cbn [nth]. rewrite <- IH. destruct b; reflexivity.
Qed.

Lemma compact_keep {A} (d : A) del (l : list A) : compact del l = keep_slots d (dead del (length l)) l.
Proof.
  rewrite (compact_alive d). unfold keep_slots, alive. f_equal. apply filter_ext_in2. intros i Hi. apply in_seq in Hi. f_equal.
  destruct (nth i del false) eqn:E; symmetry.
  - apply Base.ListLemmas.memb_In. apply In_dead. split; [lia|exact E].
  - apply memb_false_iff. intros I. apply In_dead in I. destruct I as [_ I]. congruence.
Qed.

Lemma compact_length {A} del (l : list A) : length (compact del l) = rank del (length l).
Proof. destruct l as [|x t]; [reflexivity|]. rewrite (compact_alive x), map_length. reflexivity. Qed.

(* the compacted flag array: no flag left *)
Lemma compact_self_false : forall del i, nth i (compact del del) false = false.
Proof.
  induction del as [|b del IH]; intros i; [apply nth_false_nil|]. cbn [compact]. destruct b; [apply IH|].
  destruct i; [reflexivity|]. cbn [nth]. apply IH.
Qed.

Lemma compact_self_repeat del : compact del del = repeat false (rank del (length del)).
Proof.
  rewrite <- compact_length. apply (list_ext_nth _ _ false); [rewrite repeat_length; reflexivity|]. intros k _.
  rewrite compact_self_false. symmetry. apply nth_repeat.
Qed.

(* ================================================================== the doubled flag array *)

Lemma nth_dbl : forall del k, nth k (dbl del) false = nth (k / 2) del false.
Proof.
  induction del as [|b del IH]; intros k; [rewrite !nth_false_nil; reflexivity|].
  change (dbl (b :: del)) with (b :: b :: dbl del). destruct k as [|[|k]]; [reflexivity|reflexivity|].
  cbn [nth]. rewrite IH. replace (S (S k) / 2) with (S (k / 2)) by lia. reflexivity.
Qed.

Lemma dbl_length del : length (dbl del) = 2 * length del.
Proof. induction del as [|b del IH]; [reflexivity|]. change (dbl (b :: del)) with (b :: b :: dbl del). cbn [length]. lia. Qed.

Lemma dbl_remove2 n : forall del, remove_nth (2 * n) (remove_nth (2 * n + 1) (dbl del)) = dbl (remove_nth n del).
Proof.
  induction n as [|n IH]; intros [|b del]; try reflexivity.
  change (dbl (b :: del)) with (b :: b :: dbl del). replace (2 * S n + 1) with (S (S (2 * n + 1))) by lia.
  replace (2 * S n) with (S (S (2 * n))) by lia. cbn [remove_nth]. rewrite IH. reflexivity.
Qed.

Lemma compact_remove2 {A} n del (l : list A) : nth n del false = true ->
  compact (dbl (remove_nth n del)) (remove_nth (2 * n) (remove_nth (2 * n + 1) l)) = compact (dbl del) l.
Proof.
  intros H. rewrite <- dbl_remove2.
  rewrite compact_remove.
  - apply compact_remove. rewrite nth_dbl. replace ((2 * n + 1) / 2) with n by lia. exact H.
  - rewrite nth_remove_nth. replace (2 * n <? 2 * n + 1) with true by (symmetry; apply Nat.ltb_lt; lia).
    rewrite nth_dbl. replace (2 * n / 2) with n by lia. exact H.
Qed.

Lemma dbl_all_false del : (forall i, nth i del false = false) -> forall i, nth i (dbl del) false = false.
Proof. intros H i. rewrite nth_dbl. apply H. Qed.

Lemma In_dead_dbl del n x : In x (dead (dbl del) (2 * n)) <-> In (x / 2) (dead del n).
Proof. rewrite !In_dead, nth_dbl. split; intros [A B]; (split; [lia|exact B]). Qed.

(* ================================================================== gc_pass: one step *)

Lemma gc_pass_S n is_del clr core s :
  gc_pass (S n) is_del clr core s = gc_pass n is_del clr core (if is_del s n then core n (clr n s) else s).
Proof. unfold gc_pass. rewrite seq_S, rev_app_distr. reflexivity. Qed.

Lemma gc_pass_0 is_del clr core s : gc_pass 0 is_del clr core s = s.
Proof. reflexivity. Qed.
