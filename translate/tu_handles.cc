// driver TU for translate/leafs.py: forces instantiation of the handle conversion members
#include <OpenVolumeMesh/Core/Handles.hh>
#include <OpenVolumeMesh/Core/TopologyKernel.hh>
using namespace OpenVolumeMesh;
int use_subidx(HEH h) { return h.subidx(); }
EH use_full(HEH h) { return h.edge_handle(); }
HEH use_opp(HEH h) { return h.opposite_handle(); }
HEH use_half(EH e, int s) { return e.halfedge_handle(s); }
int use_subidxf(HFH h) { return h.subidx(); }
FH use_fullf(HFH h) { return h.face_handle(); }
HFH use_oppf(HFH h) { return h.opposite_handle(); }
HFH use_halff(FH e, int s) { return e.halfface_handle(s); }
bool use_valid(VH v) { return v.is_valid(); }
