#!/usr/bin/env python3
"""Leaf translators for the tet/hex components (C15, C16), built on translate/leafs.py:

  gen_hexorient() -> coq/Gen/HexOrient.v : the orientation constants XF..INVALID, opposite_orientation and
                     orthogonal_orientation of HexahedralMeshTopologyKernel.hh
  gen_tetlabels() -> coq/Gen/TetLabels.v : the label enums of TetTopology.hh and the constexpr label functions
                     (opposite, is_forward, hel, hel_from, hel_to, is_inner, inner, outer, has_start, hfl_vl)

Both fail closed (leafs.Unsupported) on anything outside the supported subset.  The templated label
functions are translated from their *template pattern*: a non-type template parameter becomes an
ordinary Z argument and `if constexpr` an ordinary `if` (the patterns only compare the parameters with
enumerators); falling off the end (the C++ is ill-formed for such arguments) yields 255.
"""
import json, os, sys
sys.path.insert(0, os.path.dirname(os.path.abspath(__file__)))
import leafs
from leafs import Unsupported, find_all, qual

VERIF = leafs.VERIF
TRDIR = os.path.join(VERIF, "build", "tr")

def write_tu(name, text):
    os.makedirs(TRDIR, exist_ok=True)
    p = os.path.join(TRDIR, name)
    try:
        if open(p).read() == text: return p
    except OSError:
        pass
    open(p, "w").write(text)
    return p

class TrX(leafs.Tr):
    """+ references to static const members / non-type template parameters, static_assert, if constexpr"""
    def __init__(self, consts, tparams, calls=None, enums=None):
        super().__init__({}, calls, enums)
        self.consts = consts
        self.tparams = tparams
    def i(self, n):
        k = n.get("kind")
        if k == "DeclRefExpr":
            ref = n.get("referencedDecl", {})
            nm = ref.get("name")
            if ref.get("kind") == "VarDecl" and nm in self.consts: return str(self.consts[nm])
            if ref.get("kind") == "NonTypeTemplateParmDecl" and nm in self.tparams: return self.tparams[nm]
        if k == "ImplicitCastExpr" and n.get("castKind") == "IntegralCast":
            sub = self.passthru(n)
            # promotions of enum / template parameters of enum type to int do not change the value
            if not self.is_bool(sub) and qual(n) in ("int", "unsigned int") and self._small(sub):
                return self.i(sub)
        if k in ("CXXStaticCastExpr",) and n.get("castKind") in ("IntegralCast", "NoOp"):
            t = qual(n)
            if "Label" in t:                       # cast to an enum with underlying uint8_t
                return "(c_u8 %s)" % self.i(self.passthru(n))
        return super().i(n)
    def _small(self, n):
        t = qual(n).replace("const ", "")
        return ("Label" in t) or t in ("unsigned char", "uint8_t", "bool")
    def is_noop(self, s):
        if s.get("kind") == "DeclStmt":
            inner = s.get("inner", [])
            if inner and all(c.get("kind") == "StaticAssertDecl" for c in inner): return True
        return super().is_noop(s)

def translate_fn(node, gname, consts=None, enums=None, calls=None, tparams_order=None, default=None):
    params = [c for c in node.get("inner", []) if c.get("kind") == "ParmVarDecl"]
    body = [c for c in node["inner"] if c.get("kind") == "CompoundStmt"][0]
    tr = TrX(consts or {}, {}, calls, enums)
    sig = []
    for tp in (tparams_order or []):
        g = "t_" + tp
        tr.tparams[tp] = g
        sig.append("(%s : Z)" % g)
    for p in params:
        nm = p.get("name", "_")
        g = "p_" + nm.strip("_")
        tr.params[nm] = g
        t = qual(p).replace("const ", "").strip()
        sig.append("(%s : %s)" % (g, "bool" if t == "bool" else "Z"))
    rt = qual(node).split("(")[0].strip()
    ret_bool = rt in ("bool", "const bool", "constexpr bool")
    expr = tr.stmts(body.get("inner", []), ret_bool, fall=default)
    return "Definition %s %s : %s :=\n  %s." % (gname, " ".join(sig), "bool" if ret_bool else "Z", expr)

# ---------------------------------------------------------------------------------- hex orientation

TU_HEX = """// driver TU for translate/leafs_tethex.py
#include <OpenVolumeMesh/Mesh/HexahedralMeshTopologyKernel.hh>
using namespace OpenVolumeMesh;
unsigned char use_oo(unsigned char a, unsigned char b) { return HexahedralMeshTopologyKernel::orthogonal_orientation(a, b); }
unsigned char use_op(unsigned char a) { return HexahedralMeshTopologyKernel::opposite_orientation(a); }
"""

def static_consts(docs, cls, names):
    out = {}
    for d in docs:
        vs = []
        find_all(d, lambda n: n.get("kind") == "VarDecl" and n.get("name") in names and n.get("storageClass") == "static", vs)
        for v in vs:
            lits = []
            find_all(v, lambda n: n.get("kind") == "IntegerLiteral", lits)
            if len(lits) != 1: raise Unsupported("initialiser of %s::%s is not one integer literal" % (cls, v.get("name")))
            out[v["name"]] = int(lits[0]["value"])
    missing = [n for n in names if n not in out]
    if missing: raise Unsupported("constants not found in %s: %s" % (cls, missing))
    return out

def gen_hexorient(out_path=None):
    tu = write_tu("tu_hexorient.cc", TU_HEX)
    docs = leafs.clang_ast(tu, "HexahedralMeshTopologyKernel")
    names = ["XF", "XB", "YF", "YB", "ZF", "ZB", "INVALID"]
    consts = static_consts(docs, "HexahedralMeshTopologyKernel", names)
    defs = ["Definition HEX_%s : Z := %d." % (n, consts[n]) for n in names]
    for mname, g in (("opposite_orientation", "HEX_opposite_orientation"), ("orthogonal_orientation", "HEX_orthogonal_orientation")):
        nodes = [n for n in leafs.method_nodes(docs, None, mname) if n.get("storageClass") == "static"]
        if not nodes: raise Unsupported("HexahedralMeshTopologyKernel::%s not found" % mname)
        defs.append(translate_fn(nodes[0], g, consts=consts))
    text = ("(* Gen/HexOrient.v -- GENERATED by translate/leafs_tethex.py from src/OpenVolumeMesh/Mesh/\n"
            "   HexahedralMeshTopologyKernel.hh of the current /repo working tree.  Do not edit. *)\n"
            "From OVM Require Import Base.Int32.\nLocal Open Scope Z_scope.\n\n" + "\n\n".join(defs) + "\n")
    if out_path:
        with open(out_path, "w") as f: f.write(text)
    return text

# ---------------------------------------------------------------------------------- TetTopology labels

TU_TET = """// driver TU for translate/leafs_tethex.py
#include <OpenVolumeMesh/Unstable/Topology/TetTopology.hh>
using namespace OpenVolumeMesh;
"""

def enum_values(docs, ename):
    """enumerators of enum `ename` with their values (explicit initialisers are evaluated by clang: ConstantExpr value)"""
    for d in docs:
        es = []
        find_all(d, lambda n: n.get("kind") == "EnumDecl" and n.get("name") == ename, es)
        for e in es:
            out, nxt = [], 0
            for c in e.get("inner", []):
                if c.get("kind") != "EnumConstantDecl": continue
                vals = []
                find_all(c, lambda n: n.get("kind") == "ConstantExpr" and "value" in n, vals)
                if vals: v = int(vals[0]["value"])
                else:
                    lits = []
                    find_all(c, lambda n: n.get("kind") == "IntegerLiteral", lits)
                    if c.get("inner") and not lits: raise Unsupported("enumerator %s::%s: initialiser not evaluated" % (ename, c.get("name")))
                    v = int(lits[0]["value"]) if lits else nxt
                out.append((c["name"], v)); nxt = v + 1
            if out: return out
    raise Unsupported("enum %s not found" % ename)

def template_patterns(docs, name):
    """FunctionTemplateDecl patterns named `name`: (template parameter names, CXXMethodDecl pattern)"""
    out = []
    for d in docs:
        ts = []
        find_all(d, lambda n: n.get("kind") == "FunctionTemplateDecl" and n.get("name") == name, ts)
        for t in ts:
            tps = [c["name"] for c in t.get("inner", []) if c.get("kind") == "NonTypeTemplateParmDecl"]
            ms = [c for c in t.get("inner", []) if c.get("kind") == "CXXMethodDecl" and any(x.get("kind") == "CompoundStmt" for x in c.get("inner", []))]
            if ms: out.append((tps, ms[0]))
    return out

def gen_tetlabels(out_path=None):
    tu = write_tu("tu_tetlabels.cc", TU_TET)
    docs = leafs.clang_ast(tu, "TetTopology")
    enums = {}
    defs = []
    for en, pre in (("VertexLabel", "VL"), ("HalfEdgeLabel", "HEL"), ("HalfFaceLabel", "HFL")):
        vals = enum_values(docs, en)
        for n, v in vals:
            if n in enums and enums[n] != v: raise Unsupported("enumerator name clash %s" % n)
            enums[n] = v
        defs.append("\n".join("Definition %s_%s : Z := %d." % (pre, n, v) for n, v in vals))
        defs.append("Definition %s_all : list Z := [%s]." % (pre, "; ".join(str(v) for _, v in vals)))
    def plain(mname, gname, param_type):
        ns = [n for n in leafs.method_nodes(docs, None, mname)
              if len([c for c in n.get("inner", []) if c.get("kind") == "ParmVarDecl"]) == 1
              and param_type in qual([c for c in n["inner"] if c.get("kind") == "ParmVarDecl"][0])]
        if not ns: raise Unsupported("TetTopology::%s(%s) not found" % (mname, param_type))
        defs.append(translate_fn(ns[0], gname, enums=enums))
    plain("opposite", "HEL_opposite", "HalfEdgeLabel")
    plain("is_forward", "HEL_is_forward", "HalfEdgeLabel")
    plain("opposite", "HFL_opposite", "HalfFaceLabel")
    plain("is_inner", "HFL_is_inner", "HalfFaceLabel")
    plain("inner", "HFL_inner", "HalfFaceLabel")
    plain("outer", "HFL_outer", "HalfFaceLabel")
    plain("has_start", "HFL_has_start", "HalfFaceLabel")
    def templ(mname, gname, ntp):
        ps = [p for p in template_patterns(docs, mname) if len(p[0]) == ntp and
              not [c for c in p[1].get("inner", []) if c.get("kind") == "ParmVarDecl"]]
        if not ps: raise Unsupported("template TetTopology::%s<%d params> not found" % (mname, ntp))
        tps, node = ps[0]
        defs.append(translate_fn(node, gname, enums=enums, tparams_order=tps, default="255",
                                 calls={"has_start": {"name": "HFL_has_start", "bool": True, "static_like": True}}))
    templ("hel", "TT_hel", 2)
    templ("hel_from", "TT_hel_from", 1)
    templ("hel_to", "TT_hel_to", 1)
    templ("hfl_vl", "TT_hfl_vl", 2)
    text = ("(* Gen/TetLabels.v -- GENERATED by translate/leafs_tethex.py from src/OpenVolumeMesh/Unstable/Topology/\n"
            "   TetTopology.hh of the current /repo working tree.  Do not edit.\n"
            "   Templated label functions are translated from their template patterns: template parameters are\n"
            "   ordinary arguments, `if constexpr` is `if`, falling off the end is 255. *)\n"
            "From Coq Require Import List.\nImport ListNotations.\n"
            "From OVM Require Import Base.Int32.\nLocal Open Scope Z_scope.\n\n" + "\n\n".join(defs) + "\n")
    if out_path:
        with open(out_path, "w") as f: f.write(text)
    return text

OUTPUTS = {"hexorient": "HexOrient.v", "tetlabels": "TetLabels.v"}

if __name__ == "__main__":
    which = sys.argv[1]
    try:
        text = globals()["gen_" + which](sys.argv[2] if len(sys.argv) > 2 else None)
        if len(sys.argv) <= 2: print(text)
    except Unsupported as e:
        print("TRANSLATION-REJECTED: %s" % e)
        sys.exit(3)
