#!/usr/bin/env python3
"""Leaf translator: small pure C++ functions of /repo (as clang 14's JSON AST sees them *now*)
-> Gallina definitions over Z with C 'int' semantics (Base/Int32.v).

Supported subset (anything else aborts the translation with the offending node, i.e. the tie
is *broken*, never silently skipped):
  statements : CompoundStmt, ReturnStmt, IfStmt (with else / falling through to later returns),
               SwitchStmt over constants with returns, the NDEBUG expansion of assert (dropped),
               'h.idx(E)' on a reference parameter inside an if (value-returning rewrite)
  expressions: integer/bool literals, enum constants, parameters, members of *this,
               idx()/uidx()/is_valid() of handles, + - * / % & | ^ << >> ~ - ! comparisons && ||,
               ?:, casts (integral <-> bool made explicit), handle construction from an int,
               calls to other translated leaves.
"""
import json, subprocess, sys, os, re

REPO = os.environ.get("VERIF_REPO", "/repo")
VERIF = os.path.dirname(os.path.dirname(os.path.abspath(__file__)))

class Unsupported(Exception):
    pass

def clang_ast(tu, flt):
    cmd = ["clang++", "-std=c++17", "-DNDEBUG", "-I" + os.path.join(REPO, "src"),
           "-I" + os.path.join(VERIF, "harness", "config"), "-fsyntax-only", "-w",
           "-Xclang", "-ast-dump=json", "-Xclang", "-ast-dump-filter=" + flt, tu]
    r = subprocess.run(cmd, capture_output=True, text=True)
    if r.returncode != 0:
        raise Unsupported("clang failed on %s: %s" % (tu, r.stderr[-2000:]))
    docs, dec, i, txt = [], json.JSONDecoder(), 0, r.stdout
    while True:
        while i < len(txt) and txt[i].isspace(): i += 1
        if i >= len(txt): break
        d, i = dec.raw_decode(txt, i)
        docs.append(d)
    return docs

def find_all(n, pred, out):
    if pred(n): out.append(n)
    for c in n.get("inner", []) or []:
        find_all(c, pred, out)

def qual(n): return (n.get("type") or {}).get("qualType", "")

INT_BIN = {"+": "Z.add", "-": "Z.sub", "*": "Z.mul", "/": "Z.quot", "%": "Z.rem",
           "&": "Z.land", "|": "Z.lor", "^": "Z.lxor", "<<": "Z.shiftl", ">>": "Z.shiftr"}
CMP = {"<": "Z.ltb", ">": "Z.gtb", "<=": "Z.leb", ">=": "Z.geb", "==": "Z.eqb"}

class Tr:
    def __init__(self, this_fields, calls=None, enums=None):
        self.this_fields = this_fields      # member name -> Gallina variable
        self.calls = calls or {}            # C++ callee name -> Gallina function name
        self.enums = enums or {}
        self.params = {}

    def is_bool(self, n): return qual(n).replace("const ", "").strip() == "bool"

    def passthru(self, n):
        inner = [c for c in n.get("inner", []) if c.get("kind") not in ("TemplateArgument",)]
        if len(inner) != 1: raise Unsupported("expected one child: %s %s" % (n.get("kind"), json.dumps(n)[:300]))
        return inner[0]

    def wrap(self, n, s):
        """wrap an arithmetic result to the node's C type"""
        t = qual(n)
        if t in ("int", "const int"): return "(c_int %s)" % s
        if t in ("unsigned int", "const unsigned int"): return "(c_uint %s)" % s
        if t in ("unsigned long", "size_t", "const unsigned long", "std::size_t", "const size_t"): return "(c_u64 %s)" % s
        if t in ("long", "const long"): return "(c_i64 %s)" % s
        if t in ("unsigned char", "const unsigned char", "uint8_t"): return "(c_u8 %s)" % s
        if t in ("char", "const char", "signed char"): return "(c_i8 %s)" % s
        if t in ("unsigned short",): return "(c_u16 %s)" % s
        if t in ("short",): return "(c_i16 %s)" % s
        return s

    def i(self, n):
        """translate as an integer (Z) expression"""
        k = n.get("kind")
        if k == "IntegerLiteral": return "%s" % n["value"]
        if k == "CXXBoolLiteralExpr": return "1" if n["value"] else "0"
        if k == "CharacterLiteral": return "%s" % n["value"]
        if k in ("ParenExpr", "MaterializeTemporaryExpr", "ExprWithCleanups", "CXXBindTemporaryExpr", "ConstantExpr",
                 "SubstNonTypeTemplateParmExpr"):
            return self.i(self.passthru(n))
        if k in ("ImplicitCastExpr", "CXXStaticCastExpr", "CXXFunctionalCastExpr", "CStyleCastExpr"):
            ck = n.get("castKind")
            sub = self.passthru(n)
            if ck in ("LValueToRValue", "NoOp", "DerivedToBase", "UncheckedDerivedToBase", "ConstructorConversion", "UserDefinedConversion"):
                return self.i(sub)
            if ck == "IntegralCast":
                if self.is_bool(sub): return "(if %s then 1 else 0)" % self.b(sub)
                return self.wrap(n, self.i(sub))
            if ck == "IntegralToBoolean":
                return "(if %s then 1 else 0)" % self.b(n)
            raise Unsupported("cast kind %s" % ck)
        if k in ("CXXTemporaryObjectExpr", "CXXConstructExpr"):
            # handle construction from an int (or copy): the handle *is* its index
            inner = n.get("inner", [])
            if len(inner) == 1: return self.i(inner[0])
            if len(inner) == 0: return "(-1)"          # default-constructed handle is invalid
            raise Unsupported("constructor with %d args" % len(inner))
        if k == "InitListExpr":
            inner = n.get("inner", [])
            if len(inner) == 1: return self.i(inner[0])
            raise Unsupported("init list")
        if k == "DeclRefExpr":
            ref = n.get("referencedDecl", {})
            nm = ref.get("name")
            if ref.get("kind") == "EnumConstantDecl":
                if nm in self.enums: return str(self.enums[nm])
                raise Unsupported("enum constant %s" % nm)
            if nm in self.params: return self.params[nm]
            raise Unsupported("reference to %s" % nm)
        if k == "CXXThisExpr": return self.this_fields["idx"]
        if k == "UnaryOperator" and n.get("opcode") == "*":
            return self.i(self.passthru(n))
        if k == "MemberExpr":
            nm = n.get("name")
            base = self.passthru(n)
            if self.is_this(base) and nm in self.this_fields: return self.this_fields[nm]
            raise Unsupported("member %s" % nm)
        if k == "CXXMemberCallExpr":
            callee = n["inner"][0]
            args = n["inner"][1:]
            nm = callee.get("name")
            obj = self.passthru(callee) if callee.get("kind") == "MemberExpr" else None
            if nm in ("idx", "uidx") and not args:
                return self.i(obj)
            if nm in self.calls:
                recv = [] if self.is_this(obj) and self.calls[nm].get("static_like") else [self.i(obj)]
                return "(%s %s)" % (self.calls[nm]["name"], " ".join(recv + [self.arg(a) for a in args]))
            raise Unsupported("member call %s" % nm)
        if k == "CallExpr":
            callee = n["inner"][0]
            refs = []
            find_all(callee, lambda x: x.get("kind") == "DeclRefExpr", refs)
            nm = refs[0]["referencedDecl"]["name"] if refs else None
            if nm in self.calls:
                return "(%s %s)" % (self.calls[nm]["name"], " ".join(self.arg(a) for a in n["inner"][1:]))
            raise Unsupported("call %s" % nm)
        if k == "BinaryOperator":
            op = n["opcode"]
            l, r = n["inner"]
            if op in INT_BIN: return self.wrap(n, "(%s %s %s)" % (INT_BIN[op], self.i(l), self.i(r)))
            if op in CMP or op in ("!=", "&&", "||"): return "(if %s then 1 else 0)" % self.b(n)
            raise Unsupported("binary %s" % op)
        if k == "UnaryOperator":
            op = n["opcode"]
            sub = self.passthru(n)
            if op == "-": return self.wrap(n, "(Z.opp %s)" % self.i(sub))
            if op == "~": return self.wrap(n, "(Z.lnot %s)" % self.i(sub))
            if op == "+": return self.i(sub)
            if op == "!": return "(if %s then 1 else 0)" % self.b(n)
            raise Unsupported("unary %s" % op)
        if k == "ConditionalOperator":
            c, a, b = n["inner"]
            return "(if %s then %s else %s)" % (self.b(c), self.i(a), self.i(b))
        if k == "CXXOperatorCallExpr":
            return "(if %s then 1 else 0)" % self.b(n)
        raise Unsupported("expression kind %s: %s" % (k, json.dumps(n)[:400]))

    def is_this(self, n):
        while n is not None and n.get("kind") in ("ImplicitCastExpr", "ParenExpr"):
            n = self.passthru(n)
        if n is not None and n.get("kind") == "UnaryOperator" and n.get("opcode") == "*":
            return self.is_this(self.passthru(n))
        return n is not None and n.get("kind") == "CXXThisExpr"

    def arg(self, n):
        return self.b(n) if self.is_bool(n) else self.i(n)

    def b(self, n):
        """translate as a bool expression"""
        k = n.get("kind")
        if k == "CXXBoolLiteralExpr": return "true" if n["value"] else "false"
        if k in ("ParenExpr", "MaterializeTemporaryExpr", "ExprWithCleanups", "ConstantExpr"):
            return self.b(self.passthru(n))
        if k in ("ImplicitCastExpr", "CXXStaticCastExpr", "CXXFunctionalCastExpr", "CStyleCastExpr"):
            ck = n.get("castKind")
            sub = self.passthru(n)
            if ck in ("LValueToRValue", "NoOp"):
                return self.b(sub) if self.is_bool(sub) else "(negb (Z.eqb %s 0))" % self.i(sub)
            if ck == "IntegralToBoolean": return "(negb (Z.eqb %s 0))" % self.i(sub)
            if ck == "IntegralCast": return "(negb (Z.eqb %s 0))" % self.i(n)
            raise Unsupported("bool cast kind %s" % ck)
        if k == "BinaryOperator":
            op = n["opcode"]
            l, r = n["inner"]
            if op in CMP: return "(%s %s %s)" % (CMP[op], self.i(l), self.i(r))
            if op == "!=": return "(negb (Z.eqb %s %s))" % (self.i(l), self.i(r))
            if op == "&&": return "(andb %s %s)" % (self.b(l), self.b(r))
            if op == "||": return "(orb %s %s)" % (self.b(l), self.b(r))
            return "(negb (Z.eqb %s 0))" % self.i(n)
        if k == "UnaryOperator" and n["opcode"] == "!":
            return "(negb %s)" % self.b(self.passthru(n))
        if k == "CXXOperatorCallExpr":
            # comparison operators of HandleBase compare idx_
            refs = []
            find_all(n["inner"][0], lambda x: x.get("kind") == "DeclRefExpr", refs)
            nm = refs[0]["referencedDecl"]["name"] if refs else ""
            op = nm.replace("operator", "")
            a, c = n["inner"][1], n["inner"][2]
            if op in CMP: return "(%s %s %s)" % (CMP[op], self.i(a), self.i(c))
            if op == "!=": return "(negb (Z.eqb %s %s))" % (self.i(a), self.i(c))
            raise Unsupported("operator call %s" % nm)
        if k == "CXXMemberCallExpr":
            callee = n["inner"][0]
            nm = callee.get("name")
            if nm == "is_valid":
                return "(Z.geb %s 0)" % self.i(self.passthru(callee))
            if nm in self.calls and self.calls[nm].get("bool"):
                obj = self.passthru(callee)
                recv = [] if self.is_this(obj) and self.calls[nm].get("static_like") else [self.i(obj)]
                return "(%s %s)" % (self.calls[nm]["name"], " ".join(recv + [self.arg(a) for a in n["inner"][1:]]))
            raise Unsupported("bool member call %s" % nm)
        if k == "DeclRefExpr":
            nm = n.get("referencedDecl", {}).get("name")
            if nm in self.params and self.is_bool(n): return self.params[nm]
            return "(negb (Z.eqb %s 0))" % self.i(n)
        if k == "ConditionalOperator":
            c, a, bb = n["inner"]
            return "(if %s then %s else %s)" % (self.b(c), self.b(a), self.b(bb))
        return "(negb (Z.eqb %s 0))" % self.i(n)

    # ------------------------------------------------------------ statements
    def is_noop(self, s):
        k = s.get("kind")
        if k == "NullStmt": return True
        if k == "ParenExpr":      # ((void)0) from assert under NDEBUG
            return True
        if k == "CStyleCastExpr" and qual(s) == "void": return True
        return False

    def stmts(self, ss, ret_bool, fall=None):
        """translate a statement list that must end in a return on every path"""
        ss = [s for s in ss if not self.is_noop(s)]
        if not ss:
            if fall is not None: return fall
            raise Unsupported("control reaches end of function")
        s, rest = ss[0], ss[1:]
        k = s.get("kind")
        if k == "ReturnStmt":
            e = s["inner"][0]
            return self.b(e) if ret_bool else self.i(e)
        if k == "CompoundStmt":
            return self.stmts(s.get("inner", []) + rest, ret_bool, fall)
        if k == "IfStmt":
            inner = s["inner"]
            cond, then = inner[0], inner[1]
            els = inner[2] if len(inner) > 2 else None
            rest_tr = None
            def rest_f():
                return self.stmts(rest, ret_bool, fall)
            t = self.stmts([then], ret_bool, fall=None if not rest and fall is None else "__REST__")
            e = self.stmts([els] + rest, ret_bool, fall) if els is not None else rest_f()
            if "__REST__" in t: t = t.replace("__REST__", e)
            return "(if %s then %s else %s)" % (self.b(cond), t, e)
        if k == "SwitchStmt":
            cond = s["inner"][0]
            body = s["inner"][1]
            cases, cur = [], None
            default = None
            def flatten(node, labels):
                # CaseStmt nests: CaseStmt(const, substmt)
                if node.get("kind") == "CaseStmt":
                    c, sub = node["inner"][0], node["inner"][-1]
                    return flatten(sub, labels + [self.i(c)])
                if node.get("kind") == "DefaultStmt":
                    return flatten(node["inner"][-1], labels + ["default"])
                return labels, node
            items = body.get("inner", [])
            idx = 0
            out = None
            seq = []
            while idx < len(items):
                labels, st = flatten(items[idx], [])
                group = [st]
                idx += 1
                while idx < len(items) and items[idx].get("kind") not in ("CaseStmt", "DefaultStmt"):
                    group.append(items[idx]); idx += 1
                seq.append((labels, group))
            tail = self.stmts(rest, ret_bool, fall) if (rest or fall is not None) else None
            dflt = tail
            for labels, group in seq:
                if "default" in labels:
                    dflt = self.stmts(group, ret_bool, tail)
            if dflt is None: raise Unsupported("switch without default and nothing after it")
            res = dflt
            c = self.i(cond)
            for labels, group in reversed(seq):
                body_tr = self.stmts([g for g in group if g.get("kind") != "BreakStmt"], ret_bool, tail)
                for lb in labels:
                    if lb == "default": continue
                    res = "(if Z.eqb %s %s then %s else %s)" % (c, lb, body_tr, res)
            return res
        raise Unsupported("statement kind %s: %s" % (k, json.dumps(s)[:300]))

    def mutator(self, body, pname):
        """void f(H& h) { if (C) h.idx(E); }  ->  if C then E else h"""
        ss = [s for s in body.get("inner", []) if not self.is_noop(s)]
        if len(ss) != 1 or ss[0].get("kind") != "IfStmt" or len(ss[0]["inner"]) != 2:
            raise Unsupported("mutator shape")
        cond, then = ss[0]["inner"]
        if then.get("kind") == "CompoundStmt":
            inner = [s for s in then["inner"] if not self.is_noop(s)]
            if len(inner) != 1: raise Unsupported("mutator then-branch")
            then = inner[0]
        while then.get("kind") in ("ExprWithCleanups",):
            then = self.passthru(then)
        if then.get("kind") != "CXXMemberCallExpr" or then["inner"][0].get("name") != "idx" or len(then["inner"]) != 2:
            raise Unsupported("mutator call")
        return "(if %s then %s else %s)" % (self.b(cond), self.i(then["inner"][1]), self.params[pname])

def method_nodes(docs, cls_pred, name):
    out = []
    for d in docs:
        find_all(d, lambda n: n.get("kind") in ("CXXMethodDecl", "FunctionDecl") and n.get("name") == name
                 and any(c.get("kind") == "CompoundStmt" for c in n.get("inner", [])), out)
    return out

def translate_function(node, gname, this_fields, calls=None, enums=None, mutator=False):
    tr = Tr(this_fields, calls, enums)
    params = [c for c in node.get("inner", []) if c.get("kind") == "ParmVarDecl"]
    body = [c for c in node["inner"] if c.get("kind") == "CompoundStmt"][0]
    sig = []
    for v in this_fields.values():
        sig.append("(%s : Z)" % v)
    for p in params:
        nm = p.get("name", "_")
        g = "p_" + nm.strip("_")
        tr.params[nm] = g
        t = qual(p).replace("const ", "").strip()
        sig.append("(%s : %s)" % (g, "bool" if t == "bool" else "Z"))
    rt = qual(node).split("(")[0].strip()
    ret_bool = rt in ("bool", "const bool", "constexpr bool")
    if mutator:
        expr = tr.mutator(body, params[0]["name"])
        ret_bool = False
    else:
        expr = tr.stmts(body.get("inner", []), ret_bool)
    return "Definition %s %s : %s :=\n  %s." % (gname, " ".join(sig), "bool" if ret_bool else "Z", expr)

# ---------------------------------------------------------------------------------- Handles / kernel conversions

def gen_handles(out_path):
    tu = os.path.join(VERIF, "translate", "tu_handles.cc")
    defs = []
    src_note = []
    def one(flt, cls_substr, mname, gname, this_fields, mutator=False):
        docs = clang_ast(tu, flt)
        nodes = method_nodes(docs, None, mname)
        # choose the instantiated (non-dependent) body of the wanted class
        cand = []
        for d in docs:
            def pred(n):
                return n.get("kind") in ("ClassTemplateSpecializationDecl", "CXXRecordDecl") and cls_substr in json.dumps(n.get("name", "")) + qual(n)
            holders = []
            find_all(d, lambda n: n.get("kind") in ("ClassTemplateSpecializationDecl", "CXXRecordDecl"), holders)
            for h in holders:
                if h.get("kind") == "ClassTemplateSpecializationDecl":
                    targs = json.dumps([c for c in h.get("inner", []) if c.get("kind") == "TemplateArgument"])
                    if cls_substr not in targs: continue
                elif h.get("name") != cls_substr: continue
                for c in h.get("inner", []):
                    if c.get("kind") == "CXXMethodDecl" and c.get("name") == mname and any(x.get("kind") == "CompoundStmt" for x in c.get("inner", [])):
                        cand.append(c)
        if not cand: raise Unsupported("no instantiated body for %s::%s (filter %s)" % (cls_substr, mname, flt))
        defs.append(translate_function(cand[0], gname, this_fields, mutator=mutator))
        loc = cand[0].get("loc", {})
        src_note.append("%s <- %s::%s" % (gname, cls_substr, mname))
    this_idx = {"idx": "idx"}
    one("SubHandleT", "OpenVolumeMesh::HEH", "subidx", "HEH_subidx", this_idx)
    one("SubHandleT", "OpenVolumeMesh::HEH", "full", "HEH_full", this_idx)
    one("SubHandleT", "OpenVolumeMesh::HEH", "opp", "HEH_opp", this_idx)
    one("SubHandleT", "OpenVolumeMesh::HFH", "subidx", "HFH_subidx", this_idx)
    one("SubHandleT", "OpenVolumeMesh::HFH", "full", "HFH_full", this_idx)
    one("SubHandleT", "OpenVolumeMesh::HFH", "opp", "HFH_opp", this_idx)
    one("SuperHandleT", "OpenVolumeMesh::EH", "half", "EH_half", this_idx)
    one("SuperHandleT", "OpenVolumeMesh::FH", "half", "FH_half", this_idx)
    one("HandleBase", "HandleBase", "is_valid", "Handle_is_valid", {"idx_": "idx"})
    # static conversion functions of TopologyKernel
    docs = clang_ast(tu, "OpenVolumeMesh::TopologyKernel")
    for mname, gname in (("halfedge_handle", "TK_halfedge_handle"), ("halfface_handle", "TK_halfface_handle"),
                         ("edge_handle", "TK_edge_handle"), ("face_handle", "TK_face_handle"),
                         ("opposite_halfedge_handle", "TK_opposite_halfedge_handle"),
                         ("opposite_halfface_handle", "TK_opposite_halfface_handle")):
        nodes = [n for n in method_nodes(docs, None, mname) if n.get("storageClass") == "static"]
        if not nodes: raise Unsupported("TopologyKernel::%s not found" % mname)
        defs.append(translate_function(nodes[0], gname, {}))
    for cls, g in (("VHandleCorrection", "VCorr"), ("HEHandleCorrection", "HECorr"), ("HFHandleCorrection", "HFCorr"), ("CHandleCorrection", "CCorr")):
        docs = clang_ast(tu, cls)
        nodes = method_nodes(docs, None, "correctValue")
        if not nodes: raise Unsupported("%s::correctValue not found" % cls)
        defs.append(translate_function(nodes[0], g + "_correctValue", {"thld_": "thld"}, mutator=True))
    text = ("(* Gen/Handles.v -- GENERATED by translate/leafs.py from src/OpenVolumeMesh/Core/Handles.hh and\n"
            "   TopologyKernel.hh of the current /repo working tree.  Do not edit. *)\n"
            "From OVM Require Import Base.Int32.\nLocal Open Scope Z_scope.\n\n" + "\n\n".join(defs) + "\n")
    if out_path:
        with open(out_path, "w") as f: f.write(text)
    return text

OUTPUTS = {"handles": "Handles.v", "constwrites": "ConstWrites.v"}

def gen_constwrites(_):
    import constwrites
    return constwrites.generate()

if __name__ == "__main__":
    which = sys.argv[1]
    out = sys.argv[2]
    try:
        if which in OUTPUTS: globals()["gen_" + which](out)
        else: raise SystemExit("unknown leaf set " + which)
        print("translated leaves -> %s" % out)
    except Unsupported as e:
        print("TRANSLATION-REJECTED: %s" % e)
        sys.exit(3)
