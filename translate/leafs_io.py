#!/usr/bin/env python3
"""OVMB format leaves: regenerates coq/Gen/OvmbFormat.v from the CURRENT /repo sources (clang JSON AST through
translate/leafs.py's translator, which this file only imports):

  * enum values of IntEncoding, PropertyEntity, TopoEntity, TopoType, VertexEncoding, ChunkFlags, ChunkType (ovmb_format.hh)
  * is_valid(IntEncoding|PropertyEntity|TopoEntity|TopoType|VertexEncoding|ChunkFlags|ChunkType)          (ovmb_format.hh)
  * elem_size(IntEncoding), elem_size(VertexEncoding)                                                      (ovmb_format.hh)
  * suitable_int_encoding(uint32_t)                                                                        (ovmb_format.cc)
  * the padding arithmetic of BinaryFileWriter::write_chunk (`padded`, `header.padding_bytes`)             (BinaryFileWriter.cc)
  * the WIDTH in which the reader computes its two size products (BinaryFileReader.cc): `header.valence * header.span.count`
    initialising `total_handles` in read_topo_chunk, and `header.span.count * pos_size` in the size comparison of
    read_vertices_chunk - the type clang gives the `*` BinaryOperator (after the usual arithmetic conversions)
  * ovmb_size<FileHeader|ChunkHeader|ArraySpan|PropChunkHeader|VertexChunkHeader|TopoChunkHeader>, the magic bytes and
    max_handle_idx: VALUED - a 10-line program including the real headers is compiled and run and its output recorded
    (these are initialisers of non-constexpr inline variables / an extern array; their value is what the compiler computes)

Fails closed: anything outside the supported subset raises leafs.Unsupported and the check records a broken tie.
"""
import json, os, subprocess, sys, hashlib
sys.path.insert(0, os.path.dirname(os.path.abspath(__file__)))
import leafs
from leafs import Unsupported, clang_ast, find_all, qual, Tr

REPO = leafs.REPO
VERIF = leafs.VERIF
FMT_HH = os.path.join(REPO, "src/OpenVolumeMesh/IO/detail/ovmb_format.hh")
FMT_CC = os.path.join(REPO, "src/OpenVolumeMesh/IO/detail/ovmb_format.cc")
WRITER_CC = os.path.join(REPO, "src/OpenVolumeMesh/IO/detail/BinaryFileWriter.cc")
READER_CC = os.path.join(REPO, "src/OpenVolumeMesh/IO/detail/BinaryFileReader.cc")

ENUMS = ["IntEncoding", "PropertyEntity", "TopoEntity", "TopoType", "VertexEncoding", "ChunkFlags", "ChunkType"]

class TrIO(Tr):
    """leafs.Tr + sizeof(float|double|intN), std::numeric_limits<T>::max()/min(), a few more integer type names"""
    WIDE = {"unsigned long long": "c_u64", "const unsigned long long": "c_u64", "long long": "c_i64", "uint64_t": "c_u64",
            "uint32_t": "c_uint", "const uint32_t": "c_uint", "uint16_t": "c_u16", "int32_t": "c_int", "int64_t": "c_i64",
            "const uint8_t": "c_u8", "const size_t": "c_u64"}
    SIZEOF = {"float": 4, "double": 8, "uint8_t": 1, "uint16_t": 2, "uint32_t": 4, "uint64_t": 8, "unsigned char": 1,
              "char": 1, "int": 4, "unsigned int": 4}
    LIMITS = {("max", "unsigned char"): 255, ("max", "unsigned short"): 65535, ("max", "unsigned int"): 4294967295,
              ("max", "int"): 2147483647, ("min", "unsigned char"): 0, ("min", "unsigned short"): 0, ("min", "unsigned int"): 0}
    def wrap(self, n, s):
        t = qual(n)
        if t in self.WIDE: return "(%s %s)" % (self.WIDE[t], s)
        return Tr.wrap(self, n, s)
    def i(self, n):
        k = n.get("kind")
        if k == "UnaryExprOrTypeTraitExpr" and n.get("name") == "sizeof":
            t = (n.get("argType") or {}).get("qualType")
            if t in self.SIZEOF: return str(self.SIZEOF[t])
            raise Unsupported("sizeof(%s)" % t)
        if k == "CallExpr":
            refs = []
            find_all(n["inner"][0], lambda x: x.get("kind") == "DeclRefExpr", refs)
            if refs and len(n["inner"]) == 1:
                nm = refs[0]["referencedDecl"].get("name")
                rt = qual(n)
                if (nm, rt) in self.LIMITS and "noexcept" in qual(refs[0]):
                    return str(self.LIMITS[(nm, rt)])
        return Tr.i(self, n)

def translate_function_io(node, gname, enums, params_override=None):
    tr = TrIO({}, {}, enums)
    params = [c for c in node.get("inner", []) if c.get("kind") == "ParmVarDecl"]
    body = [c for c in node["inner"] if c.get("kind") == "CompoundStmt"][0]
    sig = []
    for idx, p in enumerate(params):
        nm = p.get("name", "_")
        g = "p_" + (nm.strip("_") or "arg%d" % idx)
        tr.params[nm] = g
        sig.append("(%s : Z)" % g)
    rt = qual(node).split("(")[0].strip()
    ret_bool = rt in ("bool", "const bool", "constexpr bool")
    expr = tr.stmts(body.get("inner", []), ret_bool)
    return "Definition %s %s : %s :=\n  %s." % (gname, " ".join(sig), "bool" if ret_bool else "Z", expr)

def enum_tables():
    docs = clang_ast(FMT_HH, "OpenVolumeMesh::IO::detail")
    tables = {}
    for d in docs:
        ens = []
        find_all(d, lambda n: n.get("kind") == "EnumDecl" and n.get("name") in ENUMS, ens)
        for e in ens:
            consts = {}
            for c in e.get("inner", []):
                if c.get("kind") != "EnumConstantDecl": continue
                vals = []
                find_all(c, lambda n: n.get("kind") == "ConstantExpr" and "value" in n, vals)
                if not vals:
                    raise Unsupported("enum constant %s::%s has no evaluated value" % (e["name"], c.get("name")))
                consts[c["name"]] = int(vals[0]["value"])
            if consts: tables[e["name"]] = consts
    missing = [e for e in ENUMS if e not in tables]
    if missing: raise Unsupported("enums not found: %s" % missing)
    return tables, docs

def overloads(docs, name):
    out = []
    for d in docs:
        find_all(d, lambda n: n.get("kind") == "FunctionDecl" and n.get("name") == name
                 and any(c.get("kind") == "CompoundStmt" for c in n.get("inner", [])), out)
    seen, res = set(), []
    for n in out:
        if n.get("id") in seen: continue
        seen.add(n.get("id")); res.append(n)
    return res

def param_enum(node):
    ps = [c for c in node.get("inner", []) if c.get("kind") == "ParmVarDecl"]
    if len(ps) != 1: return None
    t = qual(ps[0])
    for e in ENUMS:
        if t.endswith("::" + e) or t == e: return e
    return None

def padding_defs():
    docs = clang_ast(WRITER_CC, "BinaryFileWriter::write_chunk")
    bodies = []
    for d in docs:
        find_all(d, lambda n: n.get("kind") == "CXXMethodDecl" and n.get("name") == "write_chunk"
                 and any(c.get("kind") == "CompoundStmt" for c in n.get("inner", [])), bodies)
    if not bodies: raise Unsupported("BinaryFileWriter::write_chunk body not found")
    body = [c for c in bodies[0]["inner"] if c.get("kind") == "CompoundStmt"][0]
    tr = TrIO({}, {}, {})
    tr.params["payload_length"] = "p_len"
    padded = None; padding = None
    vds = []
    find_all(body, lambda n: n.get("kind") == "VarDecl" and n.get("name") == "padded", vds)
    if not vds or not vds[0].get("inner"): raise Unsupported("write_chunk: no initialised variable 'padded'")
    padded = tr.i(vds[0]["inner"][0])
    pl = []
    find_all(body, lambda n: n.get("kind") == "VarDecl" and n.get("name") == "payload_length", pl)
    if not pl: raise Unsupported("write_chunk: no variable 'payload_length'")
    asg = []
    def is_pad_assign(n):
        if n.get("kind") != "BinaryOperator" or n.get("opcode") != "=": return False
        l = n["inner"][0]
        return l.get("kind") == "MemberExpr" and l.get("name") == "padding_bytes"
    find_all(body, is_pad_assign, asg)
    if len(asg) != 1: raise Unsupported("write_chunk: expected exactly one assignment to header.padding_bytes, found %d" % len(asg))
    tr.params["padded"] = "padded"
    padding = tr.i(asg[0]["inner"][1])
    fl = []
    def is_len_assign(n):
        if n.get("kind") != "BinaryOperator" or n.get("opcode") != "=": return False
        l = n["inner"][0]
        return l.get("kind") == "MemberExpr" and l.get("name") == "file_length"
    find_all(body, is_len_assign, fl)
    if len(fl) != 1: raise Unsupported("write_chunk: expected exactly one assignment to header.file_length")
    flen = tr.i(fl[0]["inner"][1])
    return ["Definition write_chunk_padded (p_len : Z) : Z :=\n  %s." % padded,
            "Definition write_chunk_padding_bytes (p_len : Z) : Z :=\n  let padded := write_chunk_padded p_len in\n  %s." % padding,
            "Definition write_chunk_file_length (p_len : Z) : Z :=\n  let padded := write_chunk_padded p_len in\n  %s." % flen]

# ---- the width of the reader's size products
PRODUCT_BITS = {"unsigned long": 64, "unsigned long long": 64, "uint64_t": 64, "size_t": 64, "std::size_t": 64,
                "unsigned int": 32, "uint32_t": 32, "int": 32}

def strip_casts(n):
    """through implicit casts, static_cast / functional / C-style casts to an integer type, and parentheses"""
    while n.get("kind") in ("ImplicitCastExpr", "CXXStaticCastExpr", "CXXFunctionalCastExpr", "CStyleCastExpr", "ParenExpr"):
        inner = [c for c in n.get("inner", []) if c.get("kind") != "TemplateArgument"]
        if len(inner) != 1: raise Unsupported("cast with %d children" % len(inner))
        n = inner[0]
    return n

def operand_name(n):
    """`header.valence` -> valence, `header.span.count` -> count, `pos_size` -> pos_size"""
    n = strip_casts(n)
    if n.get("kind") == "MemberExpr": return n.get("name")
    if n.get("kind") == "DeclRefExpr": return (n.get("referencedDecl") or {}).get("name")
    return None

def product_bits(mul, what, names):
    if mul.get("kind") != "BinaryOperator" or mul.get("opcode") != "*":
        raise Unsupported("%s: expected a multiplication, found %s" % (what, mul.get("kind")))
    ops = sorted(str(operand_name(c)) for c in mul["inner"])
    if ops != sorted(names): raise Unsupported("%s: expected the product of %s, found operands %s" % (what, names, ops))
    t = qual(mul)
    if t not in PRODUCT_BITS: raise Unsupported("%s: product computed in unsupported type '%s'" % (what, t))
    return PRODUCT_BITS[t]

def method_body(tu, name):
    docs = clang_ast(tu, "BinaryFileReader::" + name)
    bodies = []
    for d in docs:
        find_all(d, lambda n: n.get("kind") == "CXXMethodDecl" and n.get("name") == name
                 and any(c.get("kind") == "CompoundStmt" for c in n.get("inner", [])), bodies)
    if len(bodies) != 1: raise Unsupported("BinaryFileReader::%s: expected one body, found %d" % (name, len(bodies)))
    return [c for c in bodies[0]["inner"] if c.get("kind") == "CompoundStmt"][0]

def reader_product_defs():
    # (a) read_topo_chunk:  uint64_t total_handles = <header.valence * header.span.count, possibly under casts>;
    body = method_body(READER_CC, "read_topo_chunk")
    vds = []
    find_all(body, lambda n: n.get("kind") == "VarDecl" and n.get("name") == "total_handles", vds)
    if len(vds) != 1 or not vds[0].get("inner"): raise Unsupported("read_topo_chunk: expected one initialised variable 'total_handles'")
    init = vds[0]["inner"][0]
    # the initialiser is the product itself or an implicit conversion of it to the variable's type (NOT an explicit cast of
    # the product: that would not change the width the product is computed in, and strip_casts must not hide it either way)
    while init.get("kind") == "ImplicitCastExpr": init = init["inner"][0]
    topo = product_bits(init, "read_topo_chunk: initialiser of total_handles", ["valence", "count"])
    # (b) read_vertices_chunk:  if (reader.remaining_bytes() != header.span.count * pos_size)
    body = method_body(READER_CC, "read_vertices_chunk")
    hits = []
    def is_size_cmp(n):
        if n.get("kind") != "BinaryOperator" or n.get("opcode") != "!=": return False
        calls = []
        find_all(n["inner"][0], lambda x: x.get("kind") == "MemberExpr" and x.get("name") == "remaining_bytes", calls)
        return bool(calls)
    find_all(body, is_size_cmp, hits)
    if len(hits) != 1: raise Unsupported("read_vertices_chunk: expected one comparison remaining_bytes() != ..., found %d" % len(hits))
    rhs = hits[0]["inner"][1]
    while rhs.get("kind") == "ImplicitCastExpr": rhs = rhs["inner"][0]
    vert = product_bits(rhs, "read_vertices_chunk: size comparison", ["count", "pos_size"])
    return ["(* width of `header.valence * header.span.count` (read_topo_chunk) and of `header.span.count * pos_size`\n"
            "   (read_vertices_chunk) in BinaryFileReader.cc: the type of the multiplication after the usual arithmetic conversions *)\n"
            "Definition topo_product_bits : Z := %d." % topo,
            "Definition vert_product_bits : Z := %d." % vert]

VALUED_SRC = r'''
#include <OpenVolumeMesh/IO/detail/ovmb_format.hh>
#include <OpenVolumeMesh/IO/detail/BinaryFileReader.hh>
#include <cstdio>
namespace OpenVolumeMesh::IO::detail { const std::array<uint8_t, 8> ovmb_magic
#include "magic_init.inc"
; }
using namespace OpenVolumeMesh::IO::detail;
int main() {
    printf("FileHeader %zu\nChunkHeader %zu\nArraySpan %zu\nPropChunkHeader %zu\nVertexChunkHeader %zu\nTopoChunkHeader %zu\n",
           ovmb_size<FileHeader>, ovmb_size<ChunkHeader>, ovmb_size<ArraySpan>, ovmb_size<PropChunkHeader>,
           ovmb_size<VertexChunkHeader>, ovmb_size<TopoChunkHeader>);
    printf("max_handle_idx %zu\n", (size_t)max_handle_idx);
    printf("magic"); for (auto b : ovmb_magic) printf(" %u", (unsigned)b); printf("\n");
    return 0;
}
'''

def valued():
    """compile + run a tiny program against the real headers; the magic initialiser is cut textually from ovmb_format.cc"""
    src = open(FMT_CC).read()
    import re
    m = re.search(r"ovmb_magic\s*(\{[^;]*\})\s*;", src)
    if not m: raise Unsupported("ovmb_magic initialiser not found in ovmb_format.cc")
    d = os.path.join(VERIF, "build", "tr")
    os.makedirs(d, exist_ok=True)
    key = hashlib.sha256((VALUED_SRC + m.group(1) + open(FMT_HH).read() + REPO).encode()).hexdigest()[:16]
    outp = os.path.join(d, "ovmb_valued-%s.txt" % key)
    if not os.path.exists(outp):
        open(os.path.join(d, "magic_init.inc"), "w").write(m.group(1) + "\n")
        cc = os.path.join(d, "ovmb_valued.cc"); exe = os.path.join(d, "ovmb_valued-%d" % os.getpid())
        open(cc, "w").write(VALUED_SRC)
        r = subprocess.run(["clang++", "-std=c++17", "-DNDEBUG", "-DOVM_STATIC_DEFINE", "-w", "-I" + d, "-I" + os.path.join(REPO, "src"),
                            "-I" + os.path.join(VERIF, "harness", "config"), cc, "-o", exe], capture_output=True, text=True)
        if r.returncode != 0: raise Unsupported("valued probe does not compile: " + r.stderr[-1500:])
        r = subprocess.run([exe], capture_output=True, text=True)
        try: os.remove(exe)
        except OSError: pass
        if r.returncode != 0: raise Unsupported("valued probe failed")
        open(outp, "w").write(r.stdout)
    vals = {}
    for l in open(outp).read().strip().split("\n"):
        t = l.split()
        vals[t[0]] = [int(x) for x in t[1:]]
    return vals

def gen_ovmb_format(out_path=None):
    tables, docs = enum_tables()
    defs = []
    for e in ENUMS:
        for nm, v in tables[e].items():
            defs.append("Definition %s_%s : Z := %d." % (e, nm.replace(" ", "_"), v))
    for f in overloads(docs, "is_valid"):
        e = param_enum(f)
        if e is None: continue
        defs.append(translate_function_io(f, "is_valid_" + e, tables[e]))
    have = [d.split()[1] for d in defs]
    for e in ENUMS:
        if "is_valid_" + e not in have: raise Unsupported("is_valid(%s) not found" % e)
    for f in overloads(docs, "elem_size"):
        e = param_enum(f)
        if e is None: continue
        defs.append(translate_function_io(f, "elem_size_" + e, tables[e]))
    have = [d.split()[1] for d in defs]
    for e in ("IntEncoding", "VertexEncoding"):
        if "elem_size_" + e not in have: raise Unsupported("elem_size(%s) not found" % e)
    docs2 = clang_ast(FMT_CC, "suitable_int_encoding")
    sie = overloads(docs2, "suitable_int_encoding")
    if not sie: raise Unsupported("suitable_int_encoding body not found")
    defs.append(translate_function_io(sie[0], "suitable_int_encoding", tables["IntEncoding"]))
    defs += padding_defs()
    defs += reader_product_defs()
    v = valued()
    for k in ("FileHeader", "ChunkHeader", "ArraySpan", "PropChunkHeader", "VertexChunkHeader", "TopoChunkHeader"):
        defs.append("Definition ovmb_size_%s : Z := %d." % (k, v[k][0]))
    defs.append("Definition max_handle_idx : Z := %d." % v["max_handle_idx"][0])
    defs.append("Definition ovmb_magic : list Z := [%s]." % "; ".join(str(b) for b in v["magic"]))
    text = ("(* Gen/OvmbFormat.v -- GENERATED by translate/leafs_io.py from src/OpenVolumeMesh/IO/detail/ovmb_format.hh/.cc and\n"
            "   BinaryFileWriter.cc, BinaryFileReader.cc of the current /repo working tree.  Do not edit. *)\n"
            "From OVM Require Import Base.Int32.\nFrom Coq Require Import List.\nImport ListNotations.\nLocal Open Scope Z_scope.\n\n"
            + "\n\n".join(defs) + "\n")
    if out_path:
        with open(out_path, "w") as f: f.write(text)
    return text

if __name__ == "__main__":
    try:
        t = gen_ovmb_format(sys.argv[1] if len(sys.argv) > 1 else None)
        if len(sys.argv) <= 1: print(t)
    except Unsupported as e:
        print("TRANSLATION-REJECTED: %s" % e)
        sys.exit(3)
