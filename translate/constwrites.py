#!/usr/bin/env python3
"""constwrites.py -- C20 tie: from the clang JSON AST of the CURRENT sources, the table of every `const`
member function of TopologyKernel / ResourceManager (its base) / GeometryKernel / the tetrahedral and
hexahedral kernels / the property handle and storage classes (PropertyPtr, PropertyStoragePtr, PropertyStorageT,
PropertyStorageBase), and every constructor / operator / method of the iterator and circulator classes, with

  (i)   members assigned through `this` directly (own state),
  (ii)  members written THROUGH a pointer/reference member of `this` (state of another object, e.g. the mesh),
  (iii) `mutable` members touched,
  (iv)  const_casts (and C-style casts that drop const),
  (v)   function-local `static` / `thread_local` variables,
  (vi)  calls of non-const member functions through a pointer member of `this`,

emitted as coq/Gen/ConstWrites.v (a Gallina list of records + the `clean` criterion), regenerated on every
run of check_C20.  Fails closed: a const member of a kernel class whose body is not found in any scanned
translation unit gets m_body = false and is not `clean`; a clang failure raises.

    generate() -> text of ConstWrites.v          (python3 translate/constwrites.py prints it)

Soundness rests on the C++ const type system for everything else: inside a const member function (or through a
`const TopologyKernel*`) only the escape hatches listed above can modify an object.  Not seen: writes through
local aliases (`auto& r = member_; r = x`) of non-const objects, inline assembly, callees outside the scanned
classes (std::, property storage) which are trusted to honour their own const signatures.
"""
import json, os, re, subprocess, sys, concurrent.futures as cf

REPO = os.environ.get("VERIF_REPO", "/repo")
VERIF = os.path.dirname(os.path.dirname(os.path.abspath(__file__)))
SRC = os.path.join(REPO, "src")
OUT_NAME = "ConstWrites.v"

class TranslatorError(Exception):
    pass

KERNEL_CLASSES = {"TopologyKernel", "ResourceManager", "GeometryKernel", "TetrahedralMeshTopologyKernel",
                  "HexahedralMeshTopologyKernel",
                  # reading property values through existing handles (properties.jsonl C20 observe_at: PropertyPtr::operator[] const)
                  "PropertyPtr", "PropertyStoragePtr", "PropertyStorageT", "PropertyStorageBase"}
ITER_RE = re.compile(r"(Iter|Circulator)")
# the one piece of state const calls may legally touch (property creation/destruction), which the property excludes
ALLOWED_MUTABLE = ["ResourceManager::storage_trackers_"]

DRIVER = r"""
#include <OpenVolumeMesh/Mesh/PolyhedralMesh.hh>
#include <OpenVolumeMesh/Mesh/TetrahedralMesh.hh>
#include <OpenVolumeMesh/Mesh/HexahedralMesh.hh>
namespace OpenVolumeMesh {
template class GeometryKernel<Geometry::Vec3d, TopologyKernel>;
template class GeometryKernel<Geometry::Vec3d, TetrahedralMeshTopologyKernel>;
template class GeometryKernel<Geometry::Vec3d, HexahedralMeshTopologyKernel>;
}
"""

def translation_units():
    d = os.path.join(VERIF, "build", "tr")
    os.makedirs(d, exist_ok=True)
    drv = os.path.join(d, "tu_constwrites.cc")
    if not os.path.exists(drv) or open(drv).read() != DRIVER:
        open(drv, "w").write(DRIVER)
    rel = ["OpenVolumeMesh/Core/TopologyKernel.cc", "OpenVolumeMesh/Core/ResourceManager.cc", "OpenVolumeMesh/Core/Iterators.cc",
           "OpenVolumeMesh/Mesh/TetrahedralMeshTopologyKernel.cc", "OpenVolumeMesh/Mesh/HexahedralMeshTopologyKernel.cc",
           "OpenVolumeMesh/Mesh/TetrahedralMeshIterators.cc", "OpenVolumeMesh/Mesh/HexahedralMeshIterators.cc"]
    tus = [os.path.join(SRC, r) for r in rel]
    for t in tus:
        if not os.path.exists(t): raise TranslatorError("source file disappeared: " + t)
    # every iterator source must be reached through Iterators.cc (it #includes the .cc files)
    return tus + [drv]

def clang_docs(tu):
    cmd = ["clang++", "-std=c++17", "-DNDEBUG", "-I" + SRC, "-I" + os.path.join(VERIF, "harness", "config"),
           "-fsyntax-only", "-w", "-Xclang", "-ast-dump=json", "-Xclang", "-ast-dump-filter=OpenVolumeMesh", tu]
    r = subprocess.run(cmd, capture_output=True, text=True)
    if r.returncode != 0:
        raise TranslatorError("clang failed on %s: %s" % (tu, r.stderr[-2000:]))
    docs, dec, i, txt = [], json.JSONDecoder(), 0, r.stdout
    while True:
        while i < len(txt) and txt[i].isspace(): i += 1
        if i >= len(txt): break
        d, i = dec.raw_decode(txt, i)
        docs.append(d)
    if not docs: raise TranslatorError("clang produced no AST for " + tu)
    return docs

PASS = {"ParenExpr", "ImplicitCastExpr", "CXXStaticCastExpr", "MaterializeTemporaryExpr", "ExprWithCleanups", "CXXBindTemporaryExpr",
        "ConstantExpr", "CStyleCastExpr", "CXXConstCastExpr", "CXXFunctionalCastExpr", "CXXReinterpretCastExpr", "SubstNonTypeTemplateParmExpr"}
ASSIGN_OPS = {"=", "+=", "-=", "*=", "/=", "%=", "&=", "|=", "^=", "<<=", ">>="}
ASSIGN_OPERATORS = {"operator" + o for o in ASSIGN_OPS} | {"operator++", "operator--"}

def kids(n): return [c for c in (n.get("inner") or []) if isinstance(c, dict)]
def qual(n): return (n.get("type") or {}).get("qualType", "")

def strip(n):
    while n.get("kind") in PASS and kids(n): n = kids(n)[0]
    return n

def root(n, via=False):
    """the member of `this` an lvalue expression is rooted at: (name, reached through a pointer/reference load?) or None"""
    k = n.get("kind")
    if k in PASS:
        if not kids(n): return None
        if k == "ImplicitCastExpr" and n.get("castKind") == "LValueToRValue" and qual(n).rstrip().endswith("*"): via = True
        return root(kids(n)[0], via)
    if k == "CXXThisExpr": return ("*this", via)
    if k in ("MemberExpr", "CXXDependentScopeMemberExpr"):
        name = n.get("name") or n.get("member") or "?"
        ks = kids(n)
        if not ks: return (name, via)              # implicit this in a dependent context
        b = strip(ks[0])
        if b.get("kind") == "CXXThisExpr": return (name, via)
        return root(ks[0], via or (bool(n.get("isArrow")) and b.get("kind") != "CXXThisExpr"))
    if k == "ArraySubscriptExpr": return root(kids(n)[0], via) if kids(n) else None
    if k == "UnaryOperator" and n.get("opcode") == "*":
        if not kids(n): return None
        if strip(kids(n)[0]).get("kind") == "CXXThisExpr": return ("*this", via)      # (*this): the object itself, not a pointer member
        return root(kids(n)[0], True)
    if k in ("CXXOperatorCallExpr", "CXXMemberCallExpr", "CallExpr") and n.get("valueCategory") == "prvalue" and not qual(n).rstrip().endswith("*"):
        return None                 # a value returned by copy is a temporary, not (part of) a member
    if k == "CXXOperatorCallExpr":
        ks = kids(n)
        return root(ks[1], via) if len(ks) > 1 else None
    if k == "CXXMemberCallExpr":
        ks = kids(n)
        if ks and ks[0].get("kind") == "MemberExpr" and kids(ks[0]): return root(kids(ks[0])[0], via or bool(ks[0].get("isArrow")) and strip(kids(ks[0])[0]).get("kind") != "CXXThisExpr")
        return None
    if k == "UnresolvedMemberExpr":
        return ("?unresolved", via)
    return None

def callee_name(n):
    ks = kids(n)
    if not ks: return None
    c = strip(ks[0])
    if c.get("kind") == "DeclRefExpr": return (c.get("referencedDecl") or {}).get("name")
    if c.get("kind") in ("UnresolvedLookupExpr", "UnresolvedMemberExpr"): return c.get("name")
    return None

class Analysis:
    def __init__(self, mutable_ids, mutable_names, method_types):
        self.mutable_ids, self.mutable_names, self.method_types = mutable_ids, mutable_names, method_types
    def run(self, body):
        r = {"own": set(), "ptr": set(), "mut": set(), "cc": 0, "static": set(), "pcall": set()}
        self.walk(body, r)
        return r
    def write(self, target, r):
        t = root(target)
        if t is None: return
        (r["ptr"] if t[1] else r["own"]).add(t[0])
    def walk(self, n, r):
        k = n.get("kind")
        if k == "CXXConstCastExpr": r["cc"] += 1
        elif k == "CStyleCastExpr" and n.get("castKind") == "NoOp" and kids(n):
            src, dst = qual(kids(n)[0]), qual(n)
            if "const" in src and "const" not in dst and ("*" in dst or "&" in dst): r["cc"] += 1
        elif k == "VarDecl" and (n.get("storageClass") == "static" or n.get("tls")): r["static"].add(n.get("name", "?"))
        elif k in ("MemberExpr", "CXXDependentScopeMemberExpr"):
            mid = n.get("referencedMemberDecl")
            if mid in self.mutable_ids: r["mut"].add(self.mutable_ids[mid])
            elif mid is None and (n.get("name") or n.get("member")) in self.mutable_names: r["mut"].add(self.mutable_names[n.get("name") or n.get("member")])
        if k in ("BinaryOperator", "CompoundAssignOperator") and n.get("opcode") in ASSIGN_OPS and kids(n):
            self.write(kids(n)[0], r)
        elif k == "UnaryOperator" and n.get("opcode") in ("++", "--") and kids(n):
            self.write(kids(n)[0], r)
        elif k == "CXXOperatorCallExpr" and callee_name(n) in ASSIGN_OPERATORS and len(kids(n)) > 1:
            self.write(kids(n)[1], r)
        elif k == "CXXMemberCallExpr":
            ks = kids(n)
            if ks and ks[0].get("kind") == "MemberExpr" and kids(ks[0]):
                obj = kids(ks[0])[0]
                t = root(obj)
                mt = self.method_types.get(ks[0].get("referencedMemberDecl"))
                is_const_method = mt is not None and re.search(r"\)\s*const\b", mt) is not None
                obj_t = qual(obj)
                if t is not None and t[1] and not is_const_method and not re.search(r"\bconst\b", obj_t):
                    r["pcall"].add("%s->%s" % (t[0], ks[0].get("name", "?")))
        for c in kids(n): self.walk(c, r)

def generate():
    tus = translation_units()
    with cf.ThreadPoolExecutor(max_workers=8) as ex:
        all_docs = list(ex.map(clang_docs, tus))
    # ---- pass 1: indexes over everything dumped
    mutable_ids, mutable_names, method_types = {}, {}, {}
    prev_of = {}
    inclass = {}          # decl id -> (class, node) for member function declarations inside a class body
    records = []          # (class name, node) for every complete class definition of interest
    def index(n, cls, ns):
        k = n.get("kind")
        if k == "NamespaceDecl": ns = ns + [n.get("name", "")]
        if k in ("CXXRecordDecl", "ClassTemplateSpecializationDecl", "ClassTemplatePartialSpecializationDecl") and n.get("completeDefinition"):
            cls = n.get("name", "?")
            if "OpenVolumeMesh" in ns: records.append((cls, n))
        if k == "FieldDecl" and n.get("mutable") and "OpenVolumeMesh" in ns:
            mutable_ids[n["id"]] = "%s::%s" % (cls, n.get("name")); mutable_names[n.get("name")] = "%s::%s" % (cls, n.get("name"))
        if k in ("CXXMethodDecl", "CXXConstructorDecl", "CXXDestructorDecl", "CXXConversionDecl"):
            method_types[n["id"]] = qual(n)
            if n.get("previousDecl"): prev_of[n["id"]] = n["previousDecl"]
            if cls is not None and "parentDeclContextId" not in n: inclass[n["id"]] = (cls, n)
        for c in kids(n): index(c, cls, ns)
    for docs in all_docs:
        for d in docs: index(d, None, [])
    an = Analysis(mutable_ids, mutable_names, method_types)
    # ---- pass 2: every function definition (body) that belongs to a class of interest
    found = {}            # (class, name, signature) -> merged result
    declared = {}         # (class, name, signature) -> node of the in-class declaration
    def interesting(cls): return cls in KERNEL_CLASSES or ITER_RE.search(cls) is not None
    def add(cls, n, sig):
        body = [c for c in kids(n) if c.get("kind") in ("CompoundStmt", "CXXTryStmt")]
        key = (cls, n.get("name", "?"), sig)
        if not body: return
        r = an.run(body[0])
        # constructor initialisers write own members
        for c in kids(n):
            if c.get("kind") == "CXXCtorInitializer":
                nm = (c.get("anyInit") or {}).get("name") or (c.get("baseInit") or {}).get("qualType")
                if nm: r["own"].add(str(nm))
                for e in kids(c): an.walk(e, r)
        if key in found:
            for f in ("own", "ptr", "mut", "static", "pcall"): found[key][f] |= r[f]
            found[key]["cc"] = max(found[key]["cc"], r["cc"])
        else: found[key] = r
    def scan(n, cls, in_spec=False):
        k = n.get("kind")
        if k in ("CXXRecordDecl", "ClassTemplateSpecializationDecl", "ClassTemplatePartialSpecializationDecl") and n.get("completeDefinition"):
            cls = n.get("name", "?")
            # members of an implicit instantiation get a body only when used: "declared" is taken from the pattern
            in_spec = k != "CXXRecordDecl"
        if k in ("CXXMethodDecl", "CXXConstructorDecl", "CXXConversionDecl"):
            owner, sig = cls, qual(n)
            if "parentDeclContextId" in n:          # out-of-line definition: class and signature text of the in-class declaration
                prev, hops = n.get("previousDecl"), 0
                while prev is not None and prev not in inclass and hops < 8: prev, hops = prev_of.get(prev), hops + 1
                if prev not in inclass and n.get("id") in inclass: prev = n["id"]     # explicit specialisation of a member template: listed in-class under the same id
                owner, sig = (inclass[prev][0], qual(inclass[prev][1])) if prev in inclass else (None, sig)
            if owner is not None and interesting(owner):
                key = (owner, n.get("name", "?"), sig)
                if "parentDeclContextId" not in n and not in_spec and not n.get("isImplicit") and not n.get("explicitlyDeleted") and not n.get("explicitlyDefaulted") and not n.get("pure"):
                    declared.setdefault(key, n)
                add(owner, n, sig)
            return
        for c in kids(n): scan(c, cls, in_spec)
    for docs in all_docs:
        for d in docs: scan(d, None)
    # ---- table
    rows = []
    keys = set(found) | set(declared)
    for key in sorted(keys):
        cls, name, sig = key
        is_const = re.search(r"\)\s*const\b", sig) is not None
        n = declared.get(key)
        if n is not None and n.get("storageClass") == "static": continue
        if cls in KERNEL_CLASSES:
            if not is_const: continue
            kind = "KConst"
        else:
            kind = "KIter"
        r = found.get(key)
        if r is None:
            # a member (template) without a generic body whose explicit specialisations are defined: their union
            specs = [v for (c2, n2, s2), v in found.items() if c2 == cls and n2 == name]
            if specs:
                r = {"own": set(), "ptr": set(), "mut": set(), "cc": 0, "static": set(), "pcall": set()}
                for v in specs:
                    for f in ("own", "ptr", "mut", "static", "pcall"): r[f] |= v[f]
                    r["cc"] = max(r["cc"], v["cc"])
        rows.append((cls, name, sig, kind, r))
    kernel_rows = [x for x in rows if x[3] == "KConst"]
    iter_rows = [x for x in rows if x[3] == "KIter"]
    for need_cls, need in (("TopologyKernel", ["halfedge", "halfface", "is_boundary", "valence", "find_halfedge", "find_halfface", "incident_cell", "adjacent_halfface_in_cell", "is_deleted"]),
                           ("GeometryKernel", ["vertex", "barycenter", "normal", "vector", "length"]),
                           ("TetrahedralMeshTopologyKernel", ["get_cell_vertices"]), ("HexahedralMeshTopologyKernel", ["xfront_halfface", "adjacent_halfface_on_sheet"]),
                           ("PropertyStoragePtr", ["operator[]", "at", "size"]), ("PropertyStorageT", ["operator[]", "at", "size"]),
                           ("VertexOHalfEdgeIter", ["VertexOHalfEdgeIter", "operator++"]), ("HalfEdgeHalfFaceIter", ["HalfEdgeHalfFaceIter", "operator++"]),
                           ("CellVertexIter", ["CellVertexIter", "operator++"]), ("BoundaryItemIter", ["BoundaryItemIter", "operator++"])):
        have = {x[1] for x in rows if x[0] == need_cls and x[4] is not None}
        for m in need:
            if m not in have: raise TranslatorError("expected member not found in the AST (renamed or moved?): %s::%s" % (need_cls, m))
    if len(kernel_rows) < 100 or len(iter_rows) < 100:
        raise TranslatorError("suspiciously small table: %d const kernel members, %d iterator members" % (len(kernel_rows), len(iter_rows)))
    return render(rows, sorted(set(mutable_ids.values())))

def gstr(s): return '"' + s.replace('"', '""') + '"'
def glist(xs): return "[" + "; ".join(gstr(x) for x in sorted(xs)) + "]"

HEADER = """(* Gen/ConstWrites.v -- GENERATED by translate/constwrites.py from the clang AST of the current sources
   (Core/TopologyKernel.cc, Core/ResourceManager.cc, Core/Iterators.cc, the Tet/Hex kernels and iterators,
   GeometryKernel.hh instantiated).  Do not edit; regenerated on every run of `bin/check C20`. *)
From Coq Require Import String List Bool Arith.
Import ListNotations.
Local Open Scope string_scope.

Inductive mkind := KConst (* const member of a kernel / property-storage class *) | KIter (* member of an iterator / circulator class *).

Record cmethod := {
  m_class : string; m_name : string; m_sig : string; m_kind : mkind;
  m_body : bool;                  (* a definition was found and analysed *)
  m_writes_own : list string;     (* members of *this assigned directly *)
  m_writes_ptr : list string;     (* members reached THROUGH a pointer member of *this and assigned *)
  m_mutable : list string;        (* mutable members touched *)
  m_const_casts : nat;
  m_statics : list string;        (* function-local static / thread_local variables *)
  m_ptr_calls : list string       (* non-const member functions called through a pointer member *)
}.

Definition is_nil {A} (l : list A) : bool := match l with [] => true | _ => false end.
Definition subset (a b : list string) : bool := forallb (fun x => existsb (String.eqb x) b) a.

(* the mutable state the property itself excludes (property creation / destruction on const meshes) *)
Definition allowed_mutable : list string := %s.

(* no hidden shared state:
   - a const member of a kernel class writes nothing at all (not even through pointers), touches no mutable member
     outside the excluded registry set, has no const_cast and no function-local static;
   - an iterator member may write the iterator object itself (thread-private), but nothing through its pointer
     members (the mesh), with the same restrictions otherwise. *)
Definition cleanb (m : cmethod) : bool :=
  m_body m && is_nil (m_writes_ptr m) && subset (m_mutable m) allowed_mutable && Nat.eqb (m_const_casts m) 0 &&
  is_nil (m_statics m) && is_nil (m_ptr_calls m) &&
  match m_kind m with KConst => is_nil (m_writes_own m) | KIter => true end.
Definition clean (m : cmethod) : Prop := cleanb m = true.

Definition mutable_members_seen : list string := %s.

Definition mk c n s k b wo wp mu cc st pc : cmethod :=
  {| m_class := c; m_name := n; m_sig := s; m_kind := k; m_body := b; m_writes_own := wo; m_writes_ptr := wp;
     m_mutable := mu; m_const_casts := cc; m_statics := st; m_ptr_calls := pc |}.

Definition const_methods : list cmethod := [
"""

def render(rows, mutables):
    out = [HEADER % (glist(ALLOWED_MUTABLE), glist(mutables))]
    lines = []
    for cls, name, sig, kind, r in rows:
        if r is None:
            lines.append("  mk %s %s %s %s false [] [] [] 0 [] []" % (gstr(cls), gstr(name), gstr(sig), kind))
        else:
            lines.append("  mk %s %s %s %s true %s %s %s %d %s %s" % (gstr(cls), gstr(name), gstr(sig), kind, glist(r["own"]), glist(r["ptr"]),
                                                                   glist(r["mut"]), r["cc"], glist(r["static"]), glist(r["pcall"])))
    out.append(";\n".join(lines))
    out.append("\n].\n\nDefinition n_kernel_const : nat := %d.\nDefinition n_iter : nat := %d.\n" % (
        sum(1 for x in rows if x[3] == "KConst"), sum(1 for x in rows if x[3] == "KIter")))
    return "".join(out)

if __name__ == "__main__":
    sys.stdout.write(generate())
