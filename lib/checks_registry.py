"""C14 (property registry) and C13 (mesh copy / assignment deep and independent).

Model: coq/Reg/HeapModel.v + RegistryModel.v (a heap of storages, meshes with tracker / persistent sets, handles).
Theorems: coq/Props/Properties_C14.v, Properties_C13.v (over every reachable world).
Tie: ocaml/regdriver.ml (extracted model) and harness/run_registry.cc (real library, ASan+UBSan) run the same
multi-mesh scripts (gen/reggen.py + corpus/registry/*.scripts) and print the full canonical dump after every
operation; compared block by block.
Impl-side oracles (run_registry --oracle, independent of the model):
  IND  nothing outside the footprint of an operation changes (snapshot of every other mesh / handle before and after)
  UNCH a refused / throwing / rejected transition changes nothing at all
  INV  persistent -> shared -> named and unique; persistent set = tracked storages flagged persistent; handle ownership
  CPY  after copy / assignment: kernel state, persistent properties and positions equal; nothing else carried over;
       no storage shared; old storages of the target resized and not findable
"""
import hashlib, json, os, re, time
import fw, lockstep

CORPUS = os.path.join(fw.VERIF, "corpus", "registry")

# Genuine defects of the unchanged tree, reported and recorded rather than repaired (DESIGN section 8 policy).  The
# model is faithful to them, Properties_C14/C13 hold the corresponding `_refuted` lemmas, the generator avoids them
# in its normal streams, corpus/registry/known-findings.scripts replays each one.  An oracle failure / model-predicted
# crash with EXACTLY one of these signatures is not a violation; it is printed as KNOWN-FINDING only when
# KNOWN_FINDINGS.json lists it (property + status known + id).
#   signature = (oracle class, message key, operation that first produced it, extra predicate on the operation line)
KNOWN_SIGNATURES = [
    {"id": "D10", "property": "C14", "oracle": "INV", "key": ("shared_duplicate", "shared_anonymous"), "op": ("SetName",),
     "text": "set_name on a shared property creates a duplicate/anonymous shared property (D10)"},
    # After clear() anonymised the mesh's own position property the user can create a persistent Vec3d vertex property
    # named "ovm:position"; copy construction / assignment clone it, make_prop() (request_property) adopts the clone as
    # the position property and std::copy overwrites its values with the positions.  Only scripts that create such a
    # property by name match (the generator never does; corpus/registry/known-findings.scripts#F6 does).
    {"id": "F6-user-position-clobbered", "property": "C13", "oracle": "CPY", "key": ("persistent", "vertex"),
     "op": ("CopyMesh", "Assign"), "script_has": r"^(CreatePersistent|CreateShared|Request) \d+ \d+ V vec3d 1 ",
     "text": "a user-made persistent \"ovm:position\" property (possible after clear()) is overwritten with the positions in the copy"},
]

def sig_listed(sig):
    """is this signature recorded in KNOWN_FINDINGS.json (property, status known, same id / signature text)?"""
    for f in fw.known_findings(sig["property"]):
        blob = json.dumps(f)
        if f.get("id") == sig["id"] or sig["id"] in blob or sig["text"] in blob:
            return True
    return False

def match_known(oracle, key, opline, lines=()):
    toks = opline.split()
    op = toks[0] if toks else ""
    for sig in KNOWN_SIGNATURES:
        if sig["oracle"] != oracle or op not in sig["op"]: continue
        if not any(key.startswith(k) for k in sig["key"]): continue
        if "name_token" in sig:
            # Create* <h> <m> <kind> <type> <name> <def>
            if len(toks) < 6 or toks[5] != sig["name_token"]: continue
        if "script_has" in sig and not any(re.match(sig["script_has"], l) for l in lines): continue
        return sig
    return None

# ------------------------------------------------------------------------------------ scripts

def script_blocks(path):
    out, cur = {}, None
    for ln in open(path):
        s = ln.strip()
        if not s or s.startswith("%"): continue
        if s.startswith("####"):
            cur = []; out[s[4:].strip()] = cur
        elif cur is not None:
            cur.append(s)
    return out

def write_scripts(path, scripts):
    os.makedirs(os.path.dirname(path), exist_ok=True)
    with open(path, "w") as f:
        for name, lines in scripts.items():
            f.write("#### %s\n" % name)
            for l in lines: f.write(l + "\n")

def head_result(head):
    return head.rsplit("->", 1)[1].strip() if "->" in head else ""

def head_op(head):
    # "== n <echo> -> res"
    m = re.match(r"== \d+ (.*) -> ", head)
    return m.group(1) if m else ""

def component(line):
    t = line.split(" ")
    if t[0] == "==": return "result"
    if t[0] == "M" and len(t) > 2: return "M." + t[2]      # cnt / k / S / PS / pos
    return t[0]

def compare(iblocks, mblocks, name):
    """-> None or dict(step, component, impl, model, op, kind) ; kind in {divergence, crash, ub_survived, end_crash}"""
    n = max(len(iblocks), len(mblocks))
    for i in range(n):
        mb = mblocks[i] if i < len(mblocks) else None
        ib = iblocks[i] if i < len(iblocks) else None
        if mb is not None and head_result(mb[0]).startswith("UB"):
            if ib is not None and ib[0].startswith("!! CRASH"): return None          # predicted and observed: agree, script over
            return {"step": i + 1, "component": "crash", "kind": "ub_survived", "op": head_op(mb[0]),
                    "impl": ib[0] if ib else "<no output>", "model": mb[0]}
        if ib is not None and ib[0].startswith("!! CRASH"):
            if mb is None:
                return {"step": i + 1, "component": "crash", "kind": "end_crash", "op": "<destruction of all meshes and handles at the end of the script>",
                        "impl": ib[0], "model": "<end>"}
            return {"step": i + 1, "component": "crash", "kind": "crash", "op": head_op(mb[0]), "impl": ib[0], "model": mb[0]}
        if ib is None:
            return {"step": i + 1, "component": "missing", "kind": "divergence", "op": head_op(mb[0]), "impl": "<no output>", "model": mb[0]}
        if mb is None:
            return {"step": i + 1, "component": "missing", "kind": "divergence", "op": head_op(ib[0]), "impl": ib[0], "model": "<no output>"}
        if ib == mb: continue
        for j in range(max(len(ib), len(mb))):
            a = ib[j] if j < len(ib) else "<missing>"
            b = mb[j] if j < len(mb) else "<missing>"
            if a != b:
                return {"step": i + 1, "component": component(a if a != "<missing>" else b), "kind": "divergence", "op": head_op(mb[0]),
                        "impl": a, "model": b}
    return None

class RegRun:
    def __init__(self, ctx):
        self.ctx = ctx
        self.impl = fw.build_harness(ctx, "san", "run_registry")
        try:
            self.model = fw.build_driver(ctx, "Extract/ExtractReg.v", "regdriver.ml", "regdriver")
        except RuntimeError as ex:
            ctx.broken.append({"kind": "model-build", "name": "Extract/ExtractReg.v", "detail": str(ex)[-2500:]})
            self.model = None
        self.scripts = 0; self.steps = 0
        self.results = {}; self.ops = {}
        self.divs = []           # dicts incl. script name + lines
        self.oracle = []         # dicts: script, step, cls, key, msg, op, lines
        self.known_hits = {}     # sig id -> count
        self.ub_known = []
        self.seen = set(); self.nontrivial = set()
        self.samples = []
        self.validated = 0
        os.makedirs(os.path.join(fw.BUILD, "run"), exist_ok=True)

    def ok(self): return self.impl is not None and self.model is not None

    def run_raw(self, path, timeout=1500):
        io, ie, mo, me, irc, mrc, wall = lockstep.run_both([self.impl, "--oracle"], [self.model], path, timeout)
        if mrc != 0:
            raise RuntimeError("model driver failed: " + me[-2000:])
        of = []
        si = lockstep.split_scripts(io, of)
        sm = lockstep.split_scripts(mo)
        return si, sm, of, ie

    def run_file(self, path, nontrivial_rule, oracles_apply=lambda name: True):
        si, sm, of, ie = self.run_raw(path)
        scripts = script_blocks(path)
        by_script = {}
        for o in of: by_script.setdefault(o["script"], []).append(o)
        for name, mblocks in sm.items():
            self.scripts += 1; self.steps += len(mblocks)
            lines = scripts.get(name, [])
            d = compare(si.get(name, []), mblocks, name)
            if d:
                d["script"] = name; d["lines"] = lines[:d["step"]]
                self.divs.append(d)
            else:
                self.validated += 1
            heads = [b[0] for b in mblocks]
            for h in heads:
                r = head_result(h)
                if not (r in ("Ok handle", "Ok none", "Ok mesh") or r.startswith("UB")): r = r.split(" ")[0] if r else ""
                self.results[r] = self.results.get(r, 0) + 1
                o = head_op(h).split(" ")[0]
                self.ops[o] = self.ops.get(o, 0) + 1
            # model-predicted undefined behaviour, confirmed by a crash of the real library (compare() returned None)
            if heads and head_result(heads[-1]).startswith("UB") and not d:
                sig = match_known("UB", head_result(heads[-1]), head_op(heads[-1]))
                rec = {"script": name, "step": len(heads), "op": head_op(heads[-1]), "what": head_result(heads[-1]), "lines": lines[:len(heads)]}
                if sig: self.known_hits[sig["id"]] = self.known_hits.get(sig["id"], 0) + 1
                else: self.oracle.append(dict(rec, cls="UB", key=head_result(heads[-1]),
                                              msg="the model predicts undefined behaviour in the library and the real library crashed"))
            # impl-side oracle lines: judge only messages that are NEW at their step (a broken state persists)
            if oracles_apply(name):
                prev = set()
                steps = {}
                for o in by_script.get(name, []): steps.setdefault(o["step"], []).append(o)
                for stp in sorted(steps):
                    cur = set()
                    for o in steps[stp]:
                        key = (o["oracle"], o["what"])
                        cur.add(key)
                        if key in prev: continue
                        opline = head_op(mblocks[stp - 1][0]) if 0 < stp <= len(mblocks) else ""
                        sub = o["what"].split(" ")[0]
                        sig = match_known(o["oracle"], sub, opline, lines[:stp])
                        if sig:
                            self.known_hits[sig["id"]] = self.known_hits.get(sig["id"], 0) + 1
                        else:
                            self.oracle.append({"script": name, "step": stp, "cls": o["oracle"], "key": sub, "msg": o["what"], "op": opline,
                                                "lines": lines[:stp]})
                    prev = cur if stp + 1 in steps else set()
            h = hashlib.sha256("\n".join(lines).encode()).hexdigest()
            if h not in self.seen:
                self.seen.add(h)
                if nontrivial_rule(heads):
                    self.nontrivial.add(h)
                    if len(self.samples) < 3: self.samples.append({"script": name, "ops": lines[:50]})
        for name in si:
            if name not in sm:
                self.divs.append({"script": name, "step": 0, "component": "missing", "kind": "divergence", "op": "", "impl": "<script only on impl side>", "model": "", "lines": []})

    # ---- ddmin over script lines
    def fails(self, lines, pred):
        tmp = os.path.join(fw.BUILD, "run", "%s-shrink-%d.scripts" % (self.ctx.id, os.getpid()))
        write_scripts(tmp, {"shrink": lines})
        try:
            si, sm, of, ie = self.run_raw(tmp, timeout=120)
        except Exception:
            return False
        return pred(si.get("shrink", []), sm.get("shrink", []), [o for o in of if o["script"] == "shrink"])

    def shrink(self, lines, pred, budget_s=40):
        t0 = time.time()
        cur = list(lines)
        if not self.fails(cur, pred): return cur
        n = 2
        while len(cur) >= 2 and time.time() - t0 < budget_s:
            chunk = max(1, len(cur) // n)
            reduced = False
            for i in range(0, len(cur), chunk):
                cand = cur[:i] + cur[i + chunk:]
                if cand and self.fails(cand, pred):
                    cur = cand; n = max(n - 1, 2); reduced = True
                    break
                if time.time() - t0 > budget_s: break
            if not reduced:
                if chunk == 1: break
                n = min(len(cur), n * 2)
        return cur

def replay_scripts(ctx):
    if not getattr(ctx, "replay", None): return []
    try:
        rec = json.load(open(ctx.replay))
    except Exception:
        return []
    lines = rec.get("script")
    if not lines:
        for b in rec.get("broken") or []:
            d = b.get("detail")
            if isinstance(d, dict) and d.get("script_lines"): lines = d["script_lines"]; break
    if not lines: return []
    p = os.path.join(fw.BUILD, "run", "%s-replay.scripts" % ctx.id)
    write_scripts(p, {"replay": lines})
    return [p]

def c14_nontrivial(heads):
    """a script counts when it exercised a refusal AND a lifetime event: >= 1 throwing/refused transition
    (Throw or 'Ok none') and >= 1 successful handle drop or mesh destruction"""
    refused = any(head_result(h) in ("Throw", "Ok none") for h in heads)
    life = any(head_result(h) == "Ok" and head_op(h).split(" ")[0] in ("HDrop", "DelMesh") for h in heads)
    return refused and life

def c13_nontrivial(heads):
    """>= 1 successful copy / assignment followed by >= 1 successful mutation (kernel call or write through a handle)"""
    seen_copy = False
    for h in heads:
        o = head_op(h).split(" ")[0]; r = head_result(h)
        if o in ("CopyMesh", "Assign") and r.startswith("Ok"): seen_copy = True
        elif seen_copy and o in ("K", "HSet") and r.startswith("Ok"): return True
    return False

def judge(ctx, pid, rr, oracle_classes, crash_ops):
    ctx.cov["evaluations"] += rr.scripts
    ctx.cov["distinct_nontrivial"] += len(rr.nontrivial)
    ctx.cov["traces_validated_against_impl"] = rr.validated
    ctx.cov["lockstep_steps"] = rr.steps
    ctx.cov["op_histogram"] = rr.ops
    ctx.cov["result_histogram"] = rr.results
    ctx.cov["samples"] += rr.samples
    # known findings reproduced
    for sig in KNOWN_SIGNATURES:
        n = rr.known_hits.get(sig["id"], 0)
        if not n: continue
        if sig["property"] == pid and sig_listed(sig):
            ctx.known.append(sig["text"])
        else:
            ctx.notes.append("signature %s reproduced %d time(s) (%s) - tolerated via KNOWN_SIGNATURES%s" % (
                sig["id"], n, sig["text"], "" if sig["property"] != pid else "; no matching entry in KNOWN_FINDINGS.json yet"))
    # 1. oracle failures on the real library: concrete failing inputs (shrunk)
    done = 0
    for of in rr.oracle:
        if of["cls"] not in oracle_classes: continue
        if done >= 3: break
        done += 1
        cls, key = of["cls"], of["key"]
        def pred(ib, mb, ofs, cls=cls, key=key):
            if cls == "UB":
                return bool(mb) and head_result(mb[-1][0]).startswith("UB")
            prev = set()
            for o in ofs:
                if o["oracle"] == cls and o["what"].split(" ")[0] == key:
                    opl = head_op(mb[o["step"] - 1][0]) if 0 < o["step"] <= len(mb) else ""
                    if not match_known(cls, key, opl, [head_op(b[0]) for b in mb]): return True
            return False
        small = rr.shrink(of["lines"], pred)
        ctx.violations.append({"kind": "input", "oracle": cls + ":" + key, "what": of["msg"], "op": of["op"], "script_name": of["script"],
                               "first_bad_step": of["step"], "script": small, "script_unshrunk_len": len(of["lines"]),
                               "replay_hint": "bin/check %s quick --replay <this file>" % pid})
    # 2. crashes of the real library (ASan / UBSan / _GLIBCXX_ASSERTIONS) where the model predicts none
    for d in rr.divs:
        if d["kind"] in ("crash", "end_crash") and len([v for v in ctx.violations if v.get("oracle") == "sanitizer"]) < 2:
            def pred(ib, mb, ofs):
                return any(b[0].startswith("!! CRASH") for b in ib) and not any(head_result(b[0]).startswith("UB") for b in mb)
            small = rr.shrink(d["lines"] if d["kind"] == "crash" else rr_all_lines(rr, d), pred)
            ctx.violations.append({"kind": "input", "oracle": "sanitizer", "script_name": d["script"], "first_bad_step": d["step"],
                                   "what": "the library crashed / aborted (ASan, UBSan or _GLIBCXX_ASSERTIONS) executing: " + d["op"],
                                   "script": small})
    # 3. divergences: the correspondence no longer checks
    for d in [d for d in rr.divs if d["kind"] in ("divergence", "ub_survived")][:5]:
        ctx.broken.append({"kind": "correspondence", "name": "lock-step model/impl, component %s" % d["component"],
                           "detail": {"script": d["script"], "first_bad_step": d["step"], "op": d["op"], "impl_says": d["impl"],
                                      "model_says": d["model"], "script_lines": d["lines"]}})

_all_lines = {}
def rr_all_lines(rr, d):
    return _all_lines.get(d["script"], d.get("lines") or [])

def run_all(ctx, pid, profiles, count_quick, count_thorough, nops_quick, nops_thorough, rule, oracle_classes):
    import reggen
    rr = RegRun(ctx)
    if not rr.ok(): return rr
    files = sorted(os.path.join(CORPUS, f) for f in os.listdir(CORPUS) if f.endswith(".scripts")) + replay_scripts(ctx)
    not_x = lambda name: "xmesh" not in name
    for f in files:
        _all_lines.update(script_blocks(f))
        rr.run_file(f, rule, not_x)
    seeds = [ctx.seed] if ctx.quick() else [ctx.seed, ctx.seed + 1, ctx.seed + 2, ctx.seed + 3]
    for sd in seeds:
        out = os.path.join(fw.BUILD, "run", "%s-g-%d.scripts" % (pid, sd))
        reggen.generate(sd, count_quick if ctx.quick() else count_thorough, profiles, nops_quick if ctx.quick() else nops_thorough, out, prefix="g")
        _all_lines.update(script_blocks(out))
        rr.run_file(out, rule, not_x)
        try: os.remove(out)
        except OSError: pass
    judge(ctx, pid, rr, oracle_classes, None)
    return rr

COMMON_ASSUMPTIONS = [
    "property values are tokens (injective per value type; bool uses 0/1); names are tokens (0 = \"\", 1 = \"ovm:position\")",
    "set_shared / set_persistent are called on the mesh the property belongs to (a handle of another or of a destroyed mesh is out of "
    "contract: the library does not check it; the model is faithful to that and the xmesh stream compares it, but the invariants are "
    "proved for histories without such calls)",
    "iteration order of std::set<pointer> is not modelled; it is unobservable while shared properties are unique (proved)",
    "memory safety proper (no dangling pointer dereference) is observed by ASan/UBSan on the real side, not proved; the theorems prove "
    "the bookkeeping that makes it safe (every tracked / persistent / handle reference points to a live storage)",
]

def check_C14(ctx):
    fw.coq_prove(ctx, "Props/Properties_C14.v")
    rr = run_all(ctx, "C14", ["registry", "lifetime", "xmesh", "copy"], 200, 900, 30, 45, c14_nontrivial, {"INV", "UNCH", "IND"})
    ctx.cov["rule"] = ("multi-mesh registry scripts from gen/reggen.py (profiles registry / lifetime (all 120 orders of destroy-mesh, drop handle, "
                       "drop its copy, drop persistent handle, clear_all_props, enumerated) / copy / xmesh) + corpus/registry, run in lock step on "
                       "the extracted model and the real library (ASan+UBSan); after every operation the dump of every mesh (n_props, "
                       "n_persistent_props, kernel state, every tracked storage, persistent set, position property; sorted) and of every handle "
                       "is compared; impl-side oracles INV/UNCH/IND on every step.  distinct_nontrivial = distinct scripts with >= 1 "
                       "throwing/refused transition AND >= 1 successful handle drop or mesh destruction")
    ctx.cov["samples"] += [{"theorem": t} for t in fw.theorem_statements("Props/Properties_C14.v", 4)]
    ctx.assumptions += COMMON_ASSUMPTIONS + [
        "shared -> named and unique is proved for histories without set_name on a shared property; the unrestricted statement is "
        "refuted (C14_set_name_refuted, finding D10)"]

def check_C13(ctx):
    fw.coq_prove(ctx, "Props/Properties_C13.v")
    rr = run_all(ctx, "C13", ["copy", "lifetime"], 350, 1500, 30, 45, c13_nontrivial, {"CPY", "IND", "UB"})
    ctx.cov["rule"] = ("copy / assignment scripts from gen/reggen.py (copy construction, assignment into fresh and used meshes of the same and of "
                       "mixed types polyhedral/tetrahedral/hexahedral, self-assignment, chains; then kernel mutations, writes through handles "
                       "and registry operations on either side, reads through the handles the target had before) + corpus/registry, in lock "
                       "step on the extracted model and the real library; impl-side oracles CPY (equality right after the copy, nothing else "
                       "carried over, no shared storage, old handles resized/unfindable) and IND (every other mesh and handle unchanged by "
                       "every later operation).  distinct_nontrivial = distinct scripts with >= 1 successful copy/assignment followed by >= 1 "
                       "successful mutation")
    ctx.cov["samples"] += [{"theorem": t} for t in fw.theorem_statements("Props/Properties_C13.v", 4)]
    ctx.assumptions += COMMON_ASSUMPTIONS + [
        "the TopologyKernel members are copied memberwise (defaulted copy): modelled as copying the kernel record; their agreement is checked "
        "by the lock step (full kernel dump of both meshes) and the CPY oracle",
        "C13_copy_equal_partial assumes that a persistent property of the source with the key (vertex, Vec3d, \"ovm:position\") is "
        "its own position property; without that the statement is refuted (C13_copy_equal_refuted, signature F6): a user-made "
        "persistent \"ovm:position\" (possible after clear()) is overwritten with the positions in the copy",
        "positions: the copy receives all position values of the source (prefix equality); that both vectors have exactly n_vertices "
        "entries is a kernel invariant checked by the lock step, not proved here"]
