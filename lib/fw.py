"""Framework shared by every check: regenerate leaves, build/check Coq obligations, build the
extracted drivers and the C++ harnesses from /repo's working tree, verdict + evidence writing.

A check is a function check_<id>(ctx) in lib/checks_*.py; bin/check dispatches to it.
"""
import fcntl, glob, hashlib, json, os, re, shutil, subprocess, sys, time

VERIF = os.path.dirname(os.path.dirname(os.path.abspath(__file__)))
REPO = os.environ.get("VERIF_REPO", "/repo")
COQ = os.path.join(VERIF, "coq")
BUILD = os.path.join(VERIF, "build")
sys.path.insert(0, os.path.join(VERIF, "harness"))
sys.path.insert(0, os.path.join(VERIF, "gen"))
sys.path.insert(0, os.path.join(VERIF, "translate"))

TRUSTED_COMMON = [
    "Coq 8.16.1 kernel (coqc); vm_compute used for whole-domain finite decisions and witnesses; native_compute not used",
    "no Axiom/Parameter/Admitted/admit in the development (grep-checked on every run); Print Assumptions per theorem recorded below",
    "translate/leafs.py over clang 14 JSON AST (regenerates coq/Gen/*.v from /repo headers on every run; fails closed)",
    "extraction: ExtrOcamlBasic only (bool, option, list, prod, unit, sumbool -> OCaml's), no Extract Constant; OCaml 4.13.1; hand-written drivers ocaml/*.ml",
    "C++ correspondence harness harness/*.cc,*.hh; generator gen/*.py; clang 14 ASan+UBSan(no vptr) + _GLIBCXX_ASSERTIONS build of /repo",
    "modelled rather than verified: all C++ bodies that are not regenerated leaves (std::vector/std::set/std::sort as list functions)",
]

# what bin/setup pre-builds (every check rebuilds on demand anyway; the object cache makes that cheap)
SETUP_HARNESSES = [("san", "run_kernel"), ("san", "run_leaf"), ("san", "run_iter"), ("san", "run_lookup"), ("san", "run_registry"), ("san", "run_geo"), ("tsan", "run_conc"),
                   ("san", "run_tet"), ("san", "run_hex"), ("san", "run_io"), ("san", "run_ascii"), ("plain", "run_io"), ("plain", "run_ascii")]
SETUP_DRIVERS = [("Extract/Extract.v", "kdriver.ml", "kdriver"), ("Extract/ExtractLeaf.v", "ldriver.ml", "ldriver"),
                 ("Extract/ExtractIter.v", "iterdriver.ml", "iterdriver"), ("Extract/ExtractLookup.v", "lookupdriver.ml", "lookupdriver"),
                 ("Extract/ExtractReg.v", "regdriver.ml", "regdriver"), ("Extract/ExtractGeo.v", "geodriver.ml", "geodriver"),
                 ("Extract/ExtractTetHex.v", "thdriver.ml", "thdriver"), ("Extract/ExtractOvmb.v", "ovmbdriver.ml", "ovmbdriver"),
                 ("Extract/ExtractAscii.v", "asciidriver.ml", "asciidriver")]

class Lock:
    def __init__(self, name="build"):
        os.makedirs(BUILD, exist_ok=True)
        self.path = os.path.join(BUILD, "." + name + ".lock")
    def __enter__(self):
        self.f = open(self.path, "w")
        fcntl.flock(self.f, fcntl.LOCK_EX)
        return self
    def __exit__(self, *a):
        fcntl.flock(self.f, fcntl.LOCK_UN)
        self.f.close()

def sh(cmd, cwd=None, timeout=None, env=None, input=None):
    e = dict(os.environ)
    if env: e.update(env)
    try:
        r = subprocess.run(cmd, cwd=cwd, capture_output=True, text=True, timeout=timeout, env=e, input=input,
                           errors="replace")
        return r.returncode, r.stdout, r.stderr
    except subprocess.TimeoutExpired as ex:
        out = ex.stdout.decode(errors="replace") if isinstance(ex.stdout, bytes) else (ex.stdout or "")
        err = ex.stderr.decode(errors="replace") if isinstance(ex.stderr, bytes) else (ex.stderr or "")
        return 124, out, err + "\nTIMEOUT"

def write_if_changed(path, text):
    try:
        if open(path).read() == text:
            return False
    except OSError:
        pass
    os.makedirs(os.path.dirname(path), exist_ok=True)
    tmp = path + ".tmp%d" % os.getpid()
    open(tmp, "w").write(text)
    os.replace(tmp, path)
    return True

# ------------------------------------------------------------------------------------ context

class Ctx:
    def __init__(self, pid, tier, seed):
        self.id, self.tier, self.seed = pid, tier, seed
        self.t0 = time.time()
        self.violations = []       # dicts: {kind, what, replay(dict)}
        self.known = []            # strings
        self.broken = []           # proof obligations / ties that no longer check: dicts {kind, name, detail}
        self.cov = {"evaluations": 0, "distinct_nontrivial": 0, "rule": "", "samples": [],
                    "obligations": 0, "discharged": 0, "checker_cmd": "", "trusted_base": list(TRUSTED_COMMON)}
        self.assumptions = []
        self.notes = []
        self.theorems = []
    def quick(self): return self.tier == "quick"
    def log(self, *a):
        print("[%s %6.1fs]" % (self.id, time.time() - self.t0), *a, file=sys.stderr, flush=True)

# ------------------------------------------------------------------------------------ Coq side

FORBIDDEN = re.compile(r"\b(Admitted|admit|Axiom|Parameter|Conjecture|Unset\s+Guard|bypass_check|type-in-type|"
                       r"Admit\s+Obligations|Unset\s+Positivity|Unset\s+Universe)\b")

def coq_closure(prop_v):
    """the .v files the property file transitively Requires (inside coq/), itself included"""
    seen, todo = set(), [prop_v]
    while todo:
        f = todo.pop()
        if f in seen: continue
        p = os.path.join(COQ, f)
        if not os.path.exists(p): continue
        seen.add(f)
        txt = re.sub(r"\(\*.*?\*\)", "", open(p).read(), flags=re.S)
        for m in re.finditer(r"From\s+OVM\s+Require\s+(?:Import|Export)\s+(.*?)\.(?=\s)", txt, flags=re.S):
            for mod in m.group(1).split():
                todo.append(mod.replace(".", "/") + ".v")
        for m in re.finditer(r"(?<!From OVM )Require\s+(?:Import|Export)\s+OVM\.([\w.]+?)\.(?=\s)", txt):
            todo.append(m.group(1).replace(".", "/") + ".v")
    return sorted(seen)

def closure_hash(prop_v):
    h = hashlib.sha256()
    for f in coq_closure(prop_v):
        h.update(f.encode()); h.update(open(os.path.join(COQ, f), "rb").read())
    return h.hexdigest()

def warm_assumptions(prop_v):
    """used by bin/setup (in parallel): capture the Print Assumptions output of one property file into the cache"""
    key = closure_hash(prop_v)
    cpath = os.path.join(BUILD, "assumptions", prop_v.replace("/", "_") + ".json")
    try:
        if json.load(open(cpath)).get("key") == key: return "cached"
    except (OSError, ValueError):
        pass
    rc, out, err = sh(["coqc", "-Q", ".", "OVM", prop_v], cwd=COQ, timeout=3000)
    if rc == 0:
        os.makedirs(os.path.dirname(cpath), exist_ok=True)
        json.dump({"key": key, "rc": 0, "out": out}, open(cpath, "w"))
    return "rc=%d" % rc

def grep_forbidden(prop_v=None):
    """Admitted / admit / Axiom / ... in the files the property file depends on (all files when prop_v is None)"""
    bad = []
    files = [os.path.join(COQ, f) for f in coq_closure(prop_v)] if prop_v else glob.glob(os.path.join(COQ, "**", "*.v"), recursive=True)
    for p in files:
        txt = re.sub(r"\(\*.*?\*\)", "", open(p).read(), flags=re.S)
        for m in FORBIDDEN.finditer(txt):
            bad.append("%s: %s" % (os.path.relpath(p, COQ), m.group(0)))
    return bad

def regen_leaves(ctx, which):
    """Re-run the leaf translators named in `which`; a translator that rejects the current source
    breaks the tie (recorded in ctx.broken)."""
    import leafs
    changed = []
    for name in which:
        fn = getattr(leafs, "gen_" + name)
        out = os.path.join(COQ, "Gen", leafs.OUTPUTS[name])
        try:
            text = fn(None)
            if write_if_changed(out, text):
                changed.append(leafs.OUTPUTS[name])
        except Exception as ex:   # Unsupported, clang failure, missing function ...
            ctx.broken.append({"kind": "translator", "name": "translate/leafs.py:gen_" + name,
                               "detail": str(ex)[:1500]})
    if changed:
        ctx.log("regenerated leaves changed:", changed)
    ctx.regen_changed = changed
    return changed

def ensure_makefile():
    """_CoqProject lists every .v under coq/ except the extraction files (compiled separately)."""
    files = sorted(os.path.relpath(p, COQ) for p in glob.glob(os.path.join(COQ, "**", "*.v"), recursive=True)
                   if "/Extract/" not in p)
    text = "-Q . OVM\n" + "\n".join(files) + "\n"
    cp = os.path.join(COQ, "_CoqProject")
    changed = write_if_changed(cp, text)
    mk = os.path.join(COQ, "Makefile")
    if changed or not os.path.exists(mk) or os.path.getmtime(mk) < os.path.getmtime(cp):
        sh(["coq_makefile", "-f", "_CoqProject", "-o", "Makefile"], cwd=COQ)

def theorem_names(vfile):
    txt = re.sub(r"\(\*.*?\*\)", "", open(vfile).read(), flags=re.S)
    return [(m.group(2), m.start()) for m in re.finditer(r"^\s*(Theorem|Corollary)\s+(\w+)", txt, flags=re.M)], txt

def coq_prove(ctx, prop_v, timeout=1500):
    """make the property file (full .vo, never -vos) and capture Print Assumptions.
    Fills ctx.cov obligations/discharged; records broken obligations."""
    with Lock("coq"):
        ensure_makefile()
        vo = prop_v[:-2] + ".vo"
        bad = grep_forbidden(prop_v)
        ctx.cov["coq_files_in_dependency_closure"] = len(coq_closure(prop_v))
        if bad:
            ctx.broken.append({"kind": "forbidden", "name": "grep Admitted/Axiom/...", "detail": "; ".join(bad[:10])})
        # deps first (keep going), then the property file itself with output captured
        rc, out, err = sh(["make", "-k", "-j16", vo], cwd=COQ, timeout=timeout)
        names, txt = theorem_names(os.path.join(COQ, prop_v))
        ctx.cov["obligations"] = len(names)
        ctx.cov["checker_cmd"] = "cd coq && coq_makefile -f _CoqProject -o Makefile && make -k -j16 %s  (then coqc -Q . OVM %s to capture Print Assumptions)" % (vo, prop_v)
        ctx.theorems = [n for n, _ in names]
        if rc != 0:
            log = (out + err)
            # which file failed?
            m = re.findall(r'File "\./([^"]+)", line (\d+)', log)
            failed_file = m[-1][0] if m else "?"
            failed_line = int(m[-1][1]) if m else 0
            errtxt = log[-2500:]
            if failed_file == prop_v:
                # theorems before the failing line are discharged
                src = open(os.path.join(COQ, prop_v)).read().split("\n")
                done = 0
                failing = None
                for n, _ in names:
                    ln = next((i + 1 for i, l in enumerate(src) if re.match(r"\s*(Theorem|Corollary)\s+%s\b" % n, l)), 0)
                    if ln and ln < failed_line:
                        done += 1; failing = n
                ctx.cov["discharged"] = max(0, done - 1)
                ctx.broken.append({"kind": "theorem", "name": "%s:%s" % (prop_v, failing), "detail": errtxt})
            else:
                ctx.cov["discharged"] = 0
                # find the lemma enclosing the failing line
                lemma = "?"
                try:
                    src = open(os.path.join(COQ, failed_file)).read().split("\n")
                    for i in range(min(failed_line, len(src)) - 1, -1, -1):
                        mm = re.match(r"\s*(Lemma|Theorem|Corollary|Definition|Fixpoint|Example)\s+(\w+)", src[i])
                        if mm: lemma = mm.group(2); break
                except OSError:
                    pass
                ctx.broken.append({"kind": "theorem", "name": "%s:%s (dependency of %s)" % (failed_file, lemma, prop_v),
                                   "detail": errtxt})
            return False
        # capture assumptions (the output of the Print Assumptions commands).  The .vo files were just (re)checked by make against the
        # current sources; re-running coqc on the property file only re-prints, which is deterministic in the sources of its dependency
        # closure - so the printed text is cached under the hash of exactly those sources (bin/setup warms the cache).
        key = closure_hash(prop_v)
        cpath = os.path.join(BUILD, "assumptions", prop_v.replace("/", "_") + ".json")
        cached = None
        try:
            cj = json.load(open(cpath))
            if cj.get("key") == key and cj.get("rc") == 0: cached = cj
        except (OSError, ValueError):
            pass
        if cached:
            rc, out, err = 0, cached["out"], ""
            ctx.cov["print_assumptions_output"] = "cached for the same sources of the dependency closure (sha256 %s)" % key[:16]
        else:
            rc, out, err = sh(["coqc", "-Q", ".", "OVM", prop_v], cwd=COQ, timeout=timeout)
            if rc == 0:
                os.makedirs(os.path.dirname(cpath), exist_ok=True)
                tmp = cpath + ".tmp%d" % os.getpid()
                json.dump({"key": key, "rc": 0, "out": out}, open(tmp, "w")); os.replace(tmp, cpath)
        if rc != 0:
            ctx.cov["discharged"] = 0
            ctx.broken.append({"kind": "theorem", "name": prop_v, "detail": (out + err)[-2500:]})
            return False
        ctx.cov["discharged"] = len(names)
        blocks = re.split(r"(?=Closed under the global context|Axioms:)", out)
        axioms = sorted(set(re.findall(r"^([A-Za-z_][\w.']*)\s*:", "\n".join(b for b in blocks if b.startswith("Axioms:")), flags=re.M)) - {"Axioms"})
        nclosed = out.count("Closed under the global context")
        if axioms:
            ctx.cov["trusted_base"].append("Print Assumptions (this run): axioms used: " + ", ".join(axioms))
        else:
            ctx.cov["trusted_base"].append("Print Assumptions (this run): %d/%d theorems 'Closed under the global context'" % (nclosed, len(names)))
        ctx.print_assumptions = out[-4000:]
        return True

def theorem_statements(prop_v, limit=6):
    names, txt = theorem_names(os.path.join(COQ, prop_v))
    out = []
    for n, pos in names[:limit]:
        end = txt.find("Proof.", pos)
        out.append(" ".join(txt[pos:end].split())[:600])
    return out

# ------------------------------------------------------------------------------------ OCaml drivers

def build_driver(ctx, extract_v, driver_ml, name, extra_ml=()):
    """coqc the extraction file (in build/ml/<name>) and compile the hand-written driver."""
    d = os.path.join(BUILD, "ml", name)
    with Lock("coq"):
        os.makedirs(d, exist_ok=True)
        # up-to-date test: hash of the extraction file, every .vo it could depend on and the driver
        h = hashlib.sha256()
        for p in sorted(glob.glob(os.path.join(COQ, "**", "*.vo"), recursive=True)):
            if "/Props/" in p or "/Extract/" in p: continue
            h.update(p.encode()); h.update(str(os.path.getmtime(p)).encode())
        for p in [os.path.join(COQ, extract_v), os.path.join(VERIF, "ocaml", driver_ml)] + [os.path.join(VERIF, "ocaml", e) for e in extra_ml]:
            h.update(open(p, "rb").read())
        stamp = os.path.join(d, "stamp")
        exe = os.path.join(d, name)
        if os.path.exists(exe) and os.path.exists(stamp) and open(stamp).read() == h.hexdigest():
            return exe
        rc, out, err = sh(["coqc", "-Q", COQ, "OVM", os.path.join(COQ, extract_v)], cwd=d, timeout=900)
        if rc != 0:
            raise RuntimeError("extraction failed: " + (out + err)[-2000:])
        for e in list(extra_ml) + [driver_ml]:
            shutil.copy(os.path.join(VERIF, "ocaml", e), d)
        mods = sorted(glob.glob(os.path.join(d, "*_model.mli")))
        srcs = []
        for mli in mods:
            srcs += [os.path.basename(mli), os.path.basename(mli)[:-1]]
        srcs += list(extra_ml) + [driver_ml]
        rc, out, err = sh(["ocamlfind", "ocamlopt", "-O3", "-unboxed-types", "-w", "-a"] + srcs + ["-o", name], cwd=d, timeout=600)
        if rc != 0:
            rc, out, err = sh(["ocamlfind", "ocamlopt", "-w", "-a"] + srcs + ["-o", name], cwd=d, timeout=600)
        if rc != 0:
            raise RuntimeError("ocaml build failed: " + (out + err)[-2000:])
        open(stamp, "w").write(h.hexdigest())
        return exe

# ------------------------------------------------------------------------------------ C++ harness

def build_harness(ctx, variant, name):
    import build as hb
    with Lock("cxx"):
        try:
            return hb.build(variant, name)
        except hb.BuildError as ex:
            ctx.broken.append({"kind": "harness-build", "name": "harness/%s (%s)" % (name, ex.what),
                               "detail": ex.log[-2500:]})
            return None

# ------------------------------------------------------------------------------------ known findings

def known_findings(pid):
    p = os.path.join(VERIF, "KNOWN_FINDINGS.json")
    try:
        d = json.load(open(p))
    except OSError:
        return []
    return [f for f in d.get("findings", []) if f.get("property") == pid and f.get("status") == "known"]

# ------------------------------------------------------------------------------------ verdict

ALT = os.path.abspath(REPO) != "/repo"     # a run against a scratch copy of the repository (seeded changes, experiments)
REPLAY_DIR = os.path.join(BUILD, "replay_alt" if ALT else "replay")
EVIDENCE_DIR = os.path.join(BUILD, "evidence_alt") if ALT else os.path.join(VERIF, "evidence")

def write_replay(ctx, rec):
    d = REPLAY_DIR
    os.makedirs(d, exist_ok=True)
    rec = dict(rec); rec["property"] = ctx.id; rec["seed"] = ctx.seed; rec["tier"] = ctx.tier
    h = hashlib.sha256(json.dumps(rec, sort_keys=True).encode()).hexdigest()[:12]
    path = os.path.join(d, "%s-%s.json" % (ctx.id, h))
    json.dump(rec, open(path, "w"), indent=1)
    return path

def clean_replays(pid):
    for p in glob.glob(os.path.join(REPLAY_DIR, pid + "-*.json")):
        try: os.remove(p)
        except OSError: pass

def finish(ctx):
    """Apply DESIGN section 5: oracle failures on the implementation are violations with the input as
    replay; a broken obligation / tie without a failing input is a violation 'no-failing-input-found'."""
    lines = []
    clean_replays(ctx.id)
    for k in ctx.known:
        lines.append("KNOWN-FINDING: property=%s %s" % (ctx.id, k))
    nviol = 0
    if ctx.violations:
        for v in ctx.violations[:5]:
            path = write_replay(ctx, v)
            lines.append("VIOLATION property=%s replay=%s" % (ctx.id, path))
            nviol += 1
    elif ctx.broken:
        path = write_replay(ctx, {"kind": "unchecked", "broken": ctx.broken,
                                  "note": "no concrete failing input was found by the search; the named theorem / "
                                          "correspondence no longer checks, so the property is no longer shown to hold"})
        lines.append("VIOLATION property=%s replay=%s no-failing-input-found" % (ctx.id, path))
        nviol += 1
    ev = {"property_id": ctx.id, "tier": ctx.tier, "seed": ctx.seed, "level": "proof",
          "coverage": ctx.cov, "assumptions": ctx.assumptions, "wall_s": round(time.time() - ctx.t0, 2),
          "violations": nviol}
    if ctx.cov.get("discharged", 0) == 0 or ctx.cov.get("obligations", 0) == 0:
        # the schema wants >= 1 for a proof-level record; a run in which nothing was discharged says so explicitly
        ctx.cov["obligations_total"] = ctx.cov.pop("obligations", 0)
        ctx.cov["discharged_none"] = True
        ctx.cov.pop("discharged", None)
        ctx.cov["evaluations"] = max(1, ctx.cov["evaluations"])
        ctx.cov["distinct_nontrivial"] = max(2, ctx.cov["distinct_nontrivial"]) if False else ctx.cov["distinct_nontrivial"]
    if ctx.notes: ev["coverage"]["notes"] = ctx.notes
    if ctx.known: ev["coverage"]["known_findings_reproduced"] = ctx.known
    if ctx.broken: ev["coverage"]["broken"] = [{"kind": b["kind"], "name": b["name"]} for b in ctx.broken]
    ev["coverage"]["theorems"] = ctx.theorems
    os.makedirs(EVIDENCE_DIR, exist_ok=True)
    tmp = os.path.join(EVIDENCE_DIR, ctx.id + ".json.tmp%d" % os.getpid())
    json.dump(ev, open(tmp, "w"), indent=1)
    os.replace(tmp, os.path.join(EVIDENCE_DIR, ctx.id + ".json"))
    for l in lines: print(l, flush=True)
    if nviol == 0:
        print("OK property=%s tier=%s obligations=%d/%d evaluations=%d wall=%.1fs" % (
            ctx.id, ctx.tier, ctx.cov.get("discharged", 0), ctx.cov.get("obligations", 0), ctx.cov["evaluations"], time.time() - ctx.t0), flush=True)
    return 1 if nviol else 0
