#!/usr/bin/env python3
"""Regenerates the table of seeded changes in DESIGN.md section 12.6 from seeded/*/meta.json (+ first line of notes)."""
import json, os, re, glob
V = os.path.dirname(os.path.dirname(os.path.abspath(__file__)))
rows = []
for d in sorted(glob.glob(os.path.join(V, "seeded", "*"))):
    mp = os.path.join(d, "meta.json")
    if not os.path.exists(mp): continue
    m = json.load(open(mp))
    what = m.get("summary", "")
    if not what:
        try:
            diff = open(os.path.join(d, "patch.diff")).read()
            files = sorted(set(re.findall(r"^\+\+\+ b/src/OpenVolumeMesh/(\S+)", diff, flags=re.M)))
            what = ", ".join(files)
        except OSError:
            pass
    checks = "; ".join(c.replace(":", " ").replace("caught-with-input", "caught (failing input)").replace("caught-no-input", "caught (no-failing-input-found)")
                       for c in (m.get("checks") or []))
    if m.get("obsolete"): checks = (checks + "; " if checks else "") + "now obsolete: " + m["obsolete"] + " (result shown is from the HEAD recorded in meta.json)"
    rows.append("| %s | %s | %s | %s | %s |" % (os.path.basename(d), m.get("property"), what, "yes" if m.get("confirmed") else "NO", checks or "pending"))
table = ("\n\n| seeded change | breaks | touches | confirmed here (tests pass, demo fails with / passes without) | our checks on the changed tree |\n|---|---|---|---|---|\n"
         + "\n".join(rows) + "\n")
p = os.path.join(V, "DESIGN.md")
s = open(p).read()
a = s.index("<!-- SEEDED-TABLE-BEGIN -->") if "<!-- SEEDED-TABLE-BEGIN -->" in s else None
if a is None:
    s = s.replace("SEEDED_TABLE_PLACEHOLDER", "<!-- SEEDED-TABLE-BEGIN -->" + table + "<!-- SEEDED-TABLE-END -->")
else:
    b = s.index("<!-- SEEDED-TABLE-END -->")
    s = s[:a] + "<!-- SEEDED-TABLE-BEGIN -->" + table + s[b:]
open(p, "w").write(s)
print("\n".join(rows))
