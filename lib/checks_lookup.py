"""check_C10 (lookup queries sound and complete) and check_C09 (halffaces around an edge in rotational
order; in-cell adjacency involutive).

Each: (1) the Coq obligations of Props/Properties_<id>.v; (2) lock step of the extracted lookup / kernel
models (ocaml/lookupdriver.ml over coq/Kernel2/LookupModel.v + coq/Kernel/Ops.v) against the real library
(harness/run_lookup.cc) on generated scripts with exhaustive query batches (gen/lookupgen.py);
(3) the impl-side brute-force oracles of run_lookup.cc (independent of the model), which provide the concrete
failing input when something breaks."""
import hashlib, json, os, re
import fw, kernel_engine as ke, lockstep

DRIVER = ("Extract/ExtractLookup.v", "lookupdriver.ml", "lookupdriver")

# Genuine behaviours of the unchanged tree that contradict the *unconditional* reading of the property and are
# reported as findings (the model is faithful to them, the Coq files carry the `_refuted` lemma with the same
# witness, the oracle does not judge them, the generator still produces them on purpose in profile lkdegen):
KNOWN_SIGNATURES = [
    # find_halfface(vertices) / find_halfface_extensive locate the face through find_halfedge(v0,v1), which returns
    # the FIRST live halfedge v0->v1 in the vertex's outgoing list; with parallel (duplicate) edges a face that
    # uses another of the parallel edges is not found although it exists (completeness fails).
    {"id": "parallel-edges", "oracle": "C10",
     "script": ["AddVs 3", "@AddE 0 1 0", "@AddE 0 1 1", "@AddE 1 2 0", "@AddE 2 0 0", "@AddF 1 2 4 6", "QLookup 1 1"],
     "expect_line": "Q fhf 0,1,2 : - -",
     "what": "find_halfface([0,1,2]) and find_halfface_extensive([0,1,2]) return the invalid handle although the live halfface 0 "
             "has exactly this vertex cycle (it uses the second of two parallel edges 0-1)"},
    # reorder_incident_halffaces can write a NON-permutation when cells are not closed (C01 finding, Coq:
    # Kernel2/ReorderExact.v reorder_permutation_refuted): two cells accepted by add_cell without topology check hold
    # three halffaces each at edge 0-1; after the second add_cell halfedge_halffaces(0) lists halfface 2 twice and has
    # lost halfface 8.  Not a single fan, so the C09 oracle does not judge it; listed here so that the replay stays visible.
    {"id": "nonmanifold-cells-reorder", "oracle": "C09",
     "script": ["AddVs 7", "@AddFV 0 1 2", "@AddFV 0 1 3", "@AddFV 0 1 4", "@AddFV 0 1 5", "@AddFV 0 1 6", "@AddC 0 3 6 0", "@AddC 0 2 5 1"],
     "expect_line": "HFS [6 2 0 2 4] [5 3 1 3 7] [0] [1] [0] [1] [2] [3] [2] [3] [4] [5] [4] [5] [6] [7] [6] [7] [8] [9] [8] [9]",
     "what": "after add_cell of two non-closed cells the halfedge->halfface list of halfedge 0 is [6 2 0 2 4]: halfface 2 twice, "
             "halfface 8 lost (brute force: [0 2 4 6 8])"},
]

def _replay_scripts(ctx):
    if not getattr(ctx, "replay", None): return []
    try:
        rec = json.load(open(ctx.replay))
    except Exception:
        return []
    lines = rec.get("script") or (rec.get("broken") or [{}])[0].get("detail", {}).get("script_lines")
    if not lines: return []
    p = os.path.join(fw.BUILD, "run", "%s-replay.scripts" % ctx.id)
    os.makedirs(os.path.dirname(p), exist_ok=True)
    ke.write_scripts(p, {"replay": lines})
    return [p]

# hand-written histories that are run first on every check (regressions of things seen while building this
# component: fans attached out of order, self-adjacent cell, deferred-deleted neighbours, parallel edges)
FIXED_SCRIPTS = {
    # 3 tets closing a ring around edge 0-1, attached in the order 2nd, 3rd, 1st; then faces / cells deleted
    "fx-ring3-order-120": ["EnDef 1", "EnFast 0", "AddVs 5", "@AddFV 0 1 3", "@AddFV 0 3 4", "@AddFV 0 4 1", "@AddFV 1 4 3", "@AddC 1 2 0 6 4",
                           "@AddFV 0 4 2", "@AddFV 0 2 1", "@AddFV 1 2 4", "@AddC 0 10 12 5 8", "@AddFV 0 2 3", "@AddFV 1 3 2", "@AddC 0 14 1 16 11",
                           "QLookup 551536 3", "@DelF 5", "QLookup 519129 3", "@DelF 8", "QLookup 515970 3", "@DelC 0", "QLookup 239360 3",
                           "GC", "QLookup 7 3", "EnFBU 0", "EnFBU 1", "QLookup 950237 3"],
    # 2 tets forming an open chain around edge 0-1, second one attached first; immediate deletion mode
    "fx-open2-order-10": ["EnDef 0", "EnFast 1", "AddVs 5", "@AddFV 0 1 3", "@AddFV 0 3 4", "@AddFV 0 4 1", "@AddFV 1 4 3", "@AddC 0 4 0 6 2",
                          "@AddFV 0 1 2", "@AddFV 0 2 3", "@AddFV 1 3 2", "@AddC 1 10 8 12 1", "QLookup 274974 3", "@DelF 0", "QLookup 547832 3",
                          "EnEBU 0", "EnEBU 1", "QLookup 3 3"],
    # one prism glued to itself: the cell contains a triangle and its opposite (closed, self-adjacent)
    "fx-self-adjacent-cell": ["AddVs 3", "@AddE 0 1 0", "@AddE 1 2 0", "@AddE 2 0 0", "@AddE 0 0 0", "@AddE 1 1 0", "@AddE 2 2 0",
                              "@AddF 1 0 2 4", "@AddF 1 0 8 1 7", "@AddF 1 2 10 3 9", "@AddF 1 4 6 5 11", "@AddC 0 0 1 2 4 6", "QLookup 1 3",
                              "@DelF 2", "QLookup 2 3"],
    "fx-parallel-edges": KNOWN_SIGNATURES[0]["script"] + ["@AddF 1 0 4 6", "QLookup 2 3"],
    "fx-incidences-off": ["AddVs 4", "@AddFV 0 1 2", "@AddFV 0 2 3", "@AddFV 0 3 1", "@AddFV 1 3 2", "@AddC 1 0 2 4 6", "EnVBU 0", "QLookup 1 3",
                          "EnEBU 0", "QLookup 2 3", "EnFBU 0", "QLookup 3 3", "EnFBU 1", "EnEBU 1", "EnVBU 1", "QLookup 4 3"],
}

def _fixed_file(ctx):
    p = os.path.join(fw.BUILD, "run", "%s-fixed.scripts" % ctx.id)
    os.makedirs(os.path.dirname(p), exist_ok=True)
    ke.write_scripts(p, FIXED_SCRIPTS)
    return p

def _count_q(text, tags):
    """number of individual query results on the Q lines of the given groups"""
    n = 0
    for ln in text.split("\n"):
        if not ln.startswith("Q ") or ":" not in ln: continue
        t = ln.split(" ", 2)[1]
        if t not in tags: continue
        body = ln.split(":", 1)[1]
        n += max(1, body.count("]")) if t in ("ghvv", "ghvh") else max(1, len(body.split()))
    return n

C10_TAGS = {"fhe", "fhec", "fhf", "fhfc", "fhfh", "ghv", "ghvv", "ghvh", "inc", "nvc", "nxt"}
C09_TAGS = {"adj", "closed"}

def _known_signature_replay(ctx, kr):
    """the listed signatures must still be what the library does (otherwise the list is stale: say so)"""
    for ks in KNOWN_SIGNATURES:
        if ks["oracle"] != ctx.id: continue
        p = os.path.join(fw.BUILD, "run", "%s-known-%s.scripts" % (ctx.id, ks["id"]))
        ke.write_scripts(p, {"known-" + ks["id"]: ks["script"]})
        divs, st = lockstep.lockstep([kr.impl, "--oracle", ctx.id], [kr.model], p, timeout=120)
        same = ks["expect_line"] in st["impl_out"].split("\n")
        model_same = ks["expect_line"] in st["model_out"].split("\n")
        ctx.notes.append("known signature '%s' (%s): library %s, model %s" % (
            ks["id"], ks["what"], "reproduces it" if same else "NO LONGER shows it", "reproduces it" if model_same else "does not"))
        ctx.cov.setdefault("known_signatures", []).append({"id": ks["id"], "library_reproduces": same, "model_reproduces": model_same})
        # reported (never counted) when KNOWN_FINDINGS.json lists it and the replay still shows it
        if same and any(f.get("id") == ks["id"] for f in fw.known_findings(ctx.id)):
            ctx.known.append(ks["what"] + " (" + ks["id"] + ")")

def _lookup_run(ctx, pid, mask, profiles, relevant_ops, tags, count_quick, count_thorough, nops_quick, nops_thorough):
    import lookupgen
    kr = ke.KernelRun(ctx, harness="run_lookup", driver=DRIVER)
    if not kr.ok():
        return kr
    qtotal = 0
    fans = [0, 0]
    def run(path):
        nonlocal qtotal
        divs, st = kr.run_file(path, relevant_ops, pid)
        qtotal += _count_q(st["model_out"], tags)
        for m in re.finditer(r"^FANS (\d+) (\d+)$", st["impl_stderr_tail"], flags=re.M):
            fans[0] += int(m.group(1)); fans[1] += int(m.group(2))
        return divs, st
    run(_fixed_file(ctx))
    for f in _replay_scripts(ctx): run(f)
    seeds = [ctx.seed] if ctx.quick() else [ctx.seed, ctx.seed + 1, ctx.seed + 2]
    for sd in seeds:
        path = os.path.join(fw.BUILD, "run", "%s-lk-%d.scripts" % (pid, sd))
        lookupgen.generate(kr.model, sd, count_quick if ctx.quick() else count_thorough, profiles,
                           nops_quick if ctx.quick() else nops_thorough, path, mask, quick=ctx.quick())
        run(path)
        try: os.remove(path)
        except OSError: pass
    _known_signature_replay(ctx, kr)
    ke.judge(ctx, pid, kr, pid)
    ctx.cov["query_results_compared"] = qtotal
    if pid == "C09":
        ctx.cov["fan_edges_checked_by_oracle_in_last_3000_chars_of_log"] = {"all": fans[0], "with_3_or_more_halffaces": fans[1]}
    # QX lines (in-cell forms on cells that are not closed: outside the contract) are reported, never judged
    qx = [d for d in kr.divs if d.component == "QX"]
    if qx:
        ctx.notes.append("%d scripts differ first in an out-of-contract QX line (not judged), e.g. %s" % (len(qx), json.dumps(qx[0].as_dict())[:400]))
    return kr

def check_C10(ctx):
    fw.coq_prove(ctx, "Props/Properties_C10.v")
    import checks; checks.also_prove_file(ctx, "Props/Properties_C05_C10_history.v")   # the cache/well-formedness hypotheses hold in every reachable state (Kernel6/HistHyps.v)
    _lookup_run(ctx, "C10", 1, ["lkvalid", "lkdegen", "lksetops", "fans"], {"QLookup"}, C10_TAGS,
                count_quick=12, count_thorough=60, nops_quick=8, nops_thorough=16)
    ctx.cov["rule"] = ("scripts from gen/lookupgen.py (kgen fragments + fans in given attachment orders + degenerate meshes with parallel edges, "
                       "2-gons, non-simple faces, deferred-deleted entities; one SplitMix64 state per script) run on the extracted model and the real "
                       "library; at every 'QLookup' line both print EVERY lookup on an exhaustive batch (all ordered vertex pairs, all (pair, cell), "
                       "vertex tuples of every live halfface as is / rotated / reversed / truncated / with a foreign vertex + random tuples, all halfedge "
                       "pairs, all (hf), (hf,v), (hf,he), all (face,edge), every cell) and the lines are compared; the impl-side oracle checks each result "
                       "against the brute-force relation over the stored definitions. evaluations = scripts; query_results_compared = individual lookup "
                       "results compared; distinct_nontrivial = distinct scripts (text hash) with at least one query batch executed on a mesh with a cell")
    ctx.cov["samples"] += [{"theorem": t} for t in fw.theorem_statements("Props/Properties_C10.v", 4)]
    ctx.assumptions += [
        "theorems are stated under explicit hypotheses (predicates of Kernel2/LookupProofs.v): cache exactness (vertex->outgoing halfedges, "
        "halfedge->halffaces, halfface->cell hold exactly the live incident entities) and well-formedness (live faces reference live in-range edges); "
        "that they hold in every reachable state is proved elsewhere (C01), here they are only checked by the lock step + oracle",
        "documented preconditions: at least 3 vertices / 2 halfedges in the tuple; closed cell for find_halfface_in_cell soundness; "
        "completeness of the vertex forms needs a mesh without parallel edges (refuted otherwise: KNOWN_SIGNATURES 'parallel-edges')",
        "handles below 2^30 as the library assumes silently"]

def check_C09(ctx):
    fw.coq_prove(ctx, "Props/Properties_C09.v")
    # the history-level statement: rotational order around every single-fan edge in EVERY state of every history of C01's class
    import checks
    checks.also_prove_file(ctx, "Props/Properties_C09_history.v")
    _lookup_run(ctx, "C09", 2, ["fans", "lkvalid"],
                {"QLookup", "AddC", "DelF", "DelC", "DelE", "DelV", "GC", "EnEBU", "EnFBU", "SwapF", "SwapE", "SwapC", "SwapV"}, C09_TAGS,
                count_quick=30, count_thorough=120, nops_quick=8, nops_thorough=16)
    ctx.cov["rule"] = ("fan scripts from gen/lookupgen.py: k tets around an edge, closed ring / open chain, attached in EVERY order for k<=3 and sampled "
                       "orders for k=4,5(,6), then deletions of cells and faces in every deletion mode, incidence toggles, garbage collection, swaps, "
                       "plus kgen 'valid' histories; lock step of the ordered halfedge->halfface lists (HFS), the halfface->cell cache (CELL) and "
                       "adjacent_halfface_in_cell on every (halfface, halfedge) with the halfedge or its opposite in the halfface; impl-side oracle after "
                       "EVERY operation: every live edge it classifies (by brute force over the definitions) as a single fan must be listed by "
                       "halfedge_halffaces in sigma-successor order and mirrored on the opposite halfedge; on closed cells adjacent_halfface_in_cell must be "
                       "the unique other halfface and an involution. evaluations = scripts; distinct_nontrivial = distinct scripts that executed one of "
                       "the reorder-triggering operations with Ok on a mesh with a cell")
    ctx.cov["samples"] += [{"theorem": t} for t in fw.theorem_statements("Props/Properties_C09.v", 4)]
    ctx.assumptions += [
        "C09_reorder_post is a theorem about ONE call of reorder_incident_halffaces on a state whose edge is a single fan; that every operation "
        "that changes the fan re-runs it (the history-level invariant) is checked by the lock step and the per-step oracle, not by a theorem",
        "set_face / set_cell / set_edge are excluded (the code documents that they do not reorder): the per-step oracle is switched off once a script used them",
        "cache exactness for the halfface->cell cache is a hypothesis of the theorems (proved elsewhere, C01)"]
