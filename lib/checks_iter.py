"""C05 (iterators and circulators enumerate exactly the live / incident entities) and the QUERY side of C01.

check_C05(ctx)      the check registered for bin/check C05
run_queries(ctx)    helper for the C01 check: runs the query correspondence + the impl-side brute-force oracles
                    and returns the QueryRun (divergences, oracle failures, statistics) without judging
"""
import hashlib, json, os, re
import fw, kernel_engine as ke, lockstep

CORPUS = os.path.join(fw.VERIF, "corpus", "iter")
DRIVER = ("Extract/ExtractIter.v", "iterdriver.ml", "iterdriver")
PROFILES = ["iter", "valid", "iterdel", "setops", "itermodes", "malformed", "swaps"]

# Oracle messages that are NOT counted, with the reason (AGENT_GUIDE: "make the check print nothing for that exact
# signature ... until I decide").  Each is reported to the lead as a finding candidate with a minimal replay in
# corpus/iter/findings.scripts and has a `_refuted` lemma in coq/Iter/BuildersProofs.v.
KNOWN_SIGNATURES = [
    # vertex_cells(v) walks the halffaces that contain an OUTGOING halfedge of v, edge_cells(e) those that contain
    # halfedge 0 of e.  On cells/faces accepted WITHOUT topology check (an open face, a cell made of one halfface)
    # a live cell that touches v / e through the other halfedge only is not reported.  With closed faces and closed
    # cells (everything add_face/add_cell accept with the check on, or build from vertices) the two sets coincide
    # (theorems vc_natural / ec_natural).
    # Not a finding (lead's decision): faces / cells accepted without topology check are outside "valid".  Suppressed ONLY
    # when the impl-side oracle itself established that the centre touches a non-closed face / cell ("natural-open");
    # the same mismatch on closed faces and cells is reported by the harness as a C05 oracle failure ("natural ...").
    (re.compile(r"^natural-open (vc|ec)\("), "vc_iter/ec_iter on a centre that touches a non-closed (unchecked) face / cell"),
]

# the finding that is reproduced by a corpus script and reported through ctx.known ONLY when KNOWN_FINDINGS.json lists it
# (matched on the `id` field); otherwise it is skipped silently.  (D8 and D15 are repaired in /repo: their corpus scripts
# are plain regression cases now - a crash or a model/impl difference on them is a violation like any other.)
FINDING_D11 = "D11-step-back-from-end-stays-invalid"

def _listed(pid, fid):
    for f in fw.known_findings(pid):
        if f.get("id") == fid or fid in (f.get("replay") or "") or fid.split("-")[0] in (f.get("signature") or ""):
            return f
    return None

class QueryRun(ke.KernelRun):
    """KernelRun over harness/run_iter.cc and ocaml/iterdriver.ml, with the statistics a query check needs"""
    def __init__(self, ctx):
        super().__init__(ctx, harness="run_iter", driver=DRIVER)
        self.qstats = {"queries": 0, "accessor_lines": 0, "nonempty_lines": 0, "classes": {}, "modes": {}, "states_with_deleted": 0,
                       "ub_lines": 0, "walk_lines": 0}
        self.distinct = set()
        self.crashes = []          # (script, step, echo)
        self.qsamples = []

    def run_file(self, path, relevant_ops=None, oracle=None):
        divs, st = super().run_file(path, relevant_ops, None)
        # crash detection: the harness flushes the header of a Query before touching the library
        marks = []
        iblocks = lockstep.split_scripts(st["impl_out"], marks)
        tainted = {}
        for m in marks:
            if m["oracle"] == "__taint__": tainted[m["script"]] = min(tainted.get(m["script"], 1 << 30), m["step"])
        self.qstats["tainted_scripts"] = self.qstats.get("tainted_scripts", 0) + len(tainted)
        for name, blocks in iblocks.items():
            for i, b in enumerate(blocks):
                if b[0].startswith("!! CRASH"):
                    prev = blocks[i - 1][0] if i else ""
                    if name in tainted and tainted[name] <= i:
                        # the history had left the contract (e.g. set_cell put a halfface into two cells) before the crash: not judged
                        self.qstats["crashes_out_of_contract"] = self.qstats.get("crashes_out_of_contract", 0) + 1
                        self.out_of_contract = getattr(self, "out_of_contract", set()) | {name}
                        continue
                    self.crashes.append({"script": name, "step": i, "op": prev, "lines": ke.script_blocks(path).get(name, [])[:i]})
        mblocks = lockstep.split_scripts(st["model_out"])
        for name, blocks in mblocks.items():
            for b in blocks:
                if " Query" not in b[0]: continue
                self.qstats["queries"] += 1
                flags = next((l for l in b if l.startswith("flags ")), "")
                self.qstats["modes"][flags] = self.qstats["modes"].get(flags, 0) + 1
                dl = next((l for l in b if l.startswith("del ")), "")
                if "1" in dl: self.qstats["states_with_deleted"] += 1
                for l in b[1:]:
                    t = l.split(" ", 3)
                    if t[0] not in ("I", "C", "B", "BI"): continue
                    self.qstats["accessor_lines"] += 1
                    key = t[0] + " " + t[1]
                    self.qstats["classes"][key] = self.qstats["classes"].get(key, 0) + 1
                    if l.endswith(": U") or " U " in l: self.qstats["ub_lines"] += 1
                    if " walk " in l: self.qstats["walk_lines"] += 1
                    body = l.split(" : ", 1)[1] if " : " in l else ""
                    first = body.split("|")[0].strip()
                    if first and first != "U":
                        self.qstats["nonempty_lines"] += 1
                        self.distinct.add(hashlib.sha256((flags + dl + l).encode()).hexdigest()[:16])
                        if len(self.qsamples) < 6 and t[0] == "C" and " walk " in l and self.qstats["accessor_lines"] % 977 == 3:
                            self.qsamples.append({"script": name, "state_flags": flags, "line": l})
        return divs, st

    def generate(self, seed, count, profiles, nops, tag):
        import itergen
        out = os.path.join(fw.BUILD, "run", "%s-%s-%d.scripts" % (self.ctx.id, tag, seed))
        itergen.generate(self.model, seed, count, profiles, nops, out, prefix=tag)
        return out

def corpus_files():
    if not os.path.isdir(CORPUS): return []
    return sorted(os.path.join(CORPUS, f) for f in os.listdir(CORPUS) if f.endswith(".scripts"))

def run_queries(ctx, count_quick=105, count_thorough=1400, extra_files=()):
    """corpus + generated query scripts in lock step (model vs real iterators) + impl-side oracles.
    Returns the QueryRun; nothing is judged here."""
    qr = QueryRun(ctx)
    if not qr.ok():
        return qr
    for f in corpus_files() + list(extra_files):
        qr.run_file(f)
    seeds = [ctx.seed] if ctx.quick() else [ctx.seed, ctx.seed + 1, ctx.seed + 2, ctx.seed + 3]
    count = count_quick if ctx.quick() else count_thorough // len(seeds)
    for sd in seeds:
        path = qr.generate(sd, count, PROFILES, 18 if ctx.quick() else 30, "q")
        qr.run_file(path)
        try: os.remove(path)
        except OSError: pass
    return qr

def known_signature(msg):
    for rx, why in KNOWN_SIGNATURES:
        if rx.search(msg): return why
    return None

def judge_queries(ctx, qr, oracles=("C05",)):
    """fills ctx from a QueryRun: oracle failures of the given oracles are violations with the script as replay,
    a crash on a Query is a violation, a model/impl difference breaks the correspondence."""
    d11 = _listed(ctx.id, FINDING_D11)
    d11_seen = False
    suppressed = {}
    for of in qr.oracle_fails:
        why = known_signature(of["what"])
        if why:
            suppressed[why] = suppressed.get(why, 0) + 1
            continue
        if of["what"].startswith("D11 "):
            if of["script"].startswith(FINDING_D11):
                d11_seen = True
                continue           # reported once below (or skipped silently when not listed)
        if of["oracle"] not in oracles: continue
        ctx.violations.append({"kind": "input", "oracle": of["oracle"], "what": of["what"], "script_name": of["script"],
                               "first_bad_step": of["step"], "script": of.get("lines"),
                               "replay_hint": "bin/check %s quick --replay <this file>" % ctx.id})
    crashed_scripts = set()
    for c in qr.crashes:
        crashed_scripts.add(c["script"])
        ctx.violations.append({"kind": "input", "oracle": "sanitizer", "script_name": c["script"], "first_bad_step": c["step"],
                               "what": "the library crashed / aborted (ASan, UBSan or _GLIBCXX_ASSERTIONS) while executing: " + c["op"],
                               "script": c["lines"]})
    for d in qr.divs:
        if d.script in crashed_scripts: continue     # already accounted for above
        if d.component == "crash-out-of-contract": continue
        ctx.broken.append({"kind": "correspondence", "name": "lock-step iterator model / real iterators, component %s" % d.component,
                           "detail": dict(d.as_dict(), script_lines=getattr(d, "lines", None))})
        if len(ctx.broken) > 6: break
    if d11_seen and d11: ctx.known.append(d11.get("line") or "--end() / ++ to end then -- yields the last handle with valid()==false")
    if suppressed: ctx.notes.append({"suppressed_known_signatures": suppressed})
    ctx.cov["corpus_findings_reproduced"] = {"D11": d11_seen}

def fill_coverage(ctx, qr):
    ctx.cov["evaluations"] += qr.qstats["accessor_lines"]
    ctx.cov["distinct_nontrivial"] += len(qr.distinct)
    crashed = {c["script"] for c in qr.crashes}
    unexpected = [d for d in qr.divs if d.script not in crashed and d.component != "crash-out-of-contract"]
    ctx.cov["traces_validated_against_impl"] = qr.qstats["accessor_lines"] if not unexpected else 0
    ctx.cov["unexpected_divergences"] = len(unexpected)
    ctx.cov["query_stats"] = {k: v for k, v in qr.qstats.items() if k not in ("classes",)}
    ctx.cov["accessor_histogram"] = qr.qstats["classes"]
    ctx.cov["scripts"] = qr.stats["scripts"]
    ctx.cov["lockstep_steps"] = qr.stats["steps"]
    ctx.cov["op_histogram"] = qr.stats["ops"]
    ctx.cov["samples"] += qr.qsamples[:4] + qr.samples[:1]

def replay_scripts(ctx):
    if not getattr(ctx, "replay", None): return []
    try:
        rec = json.load(open(ctx.replay))
    except Exception:
        return []
    lines = rec.get("script") or (rec.get("broken") or [{}])[0].get("detail", {}).get("script_lines")
    if not lines: return []
    p = os.path.join(fw.BUILD, "run", "%s-replay.scripts" % ctx.id)
    os.makedirs(os.path.dirname(p), exist_ok=True)
    ke.write_scripts(p, {"replay": lines})
    return [p]

def check_C05(ctx):
    fw.coq_prove(ctx, "Props/Properties_C05.v")
    import checks; checks.also_prove_file(ctx, "Props/Properties_C05_C10_history.v")   # the state hypotheses hold in every reachable state (Kernel6/HistHyps.v)
    qr = run_queries(ctx, extra_files=replay_scripts(ctx))
    if qr.ok():
        judge_queries(ctx, qr, oracles=("C05",))
        fill_coverage(ctx, qr)
    ctx.cov["rule"] = ("query scripts from gen/itergen.py (kernel histories of gen/kgen.py + own fragments: deferred deletions at front/middle/end, every "
                       "subset of incidence kinds, empty/tiny circulators, self-loops, parallel edges, 2-gons, open cells) with 'Query max_laps walks' lines; at a Query "
                       "both sides print, for the 6 entity iterators, the 26 circulator classes on EVERY centre entity, valence, is_boundary and the 6 boundary "
                       "iterators: forward trace (max_laps 1 and 2), terminal state, end circulator and ==, range-for, and (*it,valid,lap) after each step of each walk; "
                       "plus the copying forms it+2, (it+2)-1, it-1; lines compared textually model vs real library; impl-side oracles compare every forward trace with the brute-force incident set computed from "
                       "edge()/face()/cell()/is_deleted only, check end==advanced begin, --(++it)==it inside the valid range, empty => invalid.  vertex_cells / edge_cells are additionally compared with the natural incident set (all live cells with a face touching the vertex / on the edge); "
                       "a mismatch is suppressed only when the oracle itself establishes that the centre touches a face that is not a closed loop or a cell that is not a closed surface "
                       "(accepted without topology check, outside the valid histories), otherwise it is a C05 failure.  evaluations = accessor "
                       "lines compared; distinct_nontrivial = distinct (state flags, deletion flags, accessor line) whose forward trace / walk is non-empty")
    ctx.cov["samples"] += [{"theorem": t} for t in fw.theorem_statements("Props/Properties_C05.v", 4)]
    ctx.assumptions += ["max_laps >= 1; circulator steps are only claimed where the C++ performs no out-of-range read (theorems carry the explicit non-UB outcome)",
                        "builder theorems assume the invariant bu_exact (caches hold exactly the live incident entities, NoDup) and wf_iter (live entities reference live "
                        "sub-entities); that every reachable state satisfies them is C01's theorem, checked here only through the lock step + brute-force oracles",
                        "the wrappers vih/ve are extracted as the plain machine over the mapped list (justified by the simulation lemma C05_wrapper_sim)"]
