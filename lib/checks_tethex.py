"""C15 (tetrahedral kernel) and C16 (hexahedral kernel): regenerate the label / orientation leaves, check the Coq
obligations, run the extracted model (build/ml/thdriver) and the real library (harness/run_tet.cc, run_hex.cc) in lock
step on corpus + generated scripts, run the impl-side oracles, fill ctx (DESIGN.md sections 5, 6)."""
import hashlib, itertools, os, time
import fw, kernel_engine as ke, lockstep

DRIVER = ("Extract/ExtractTetHex.v", "thdriver.ml", "thdriver")

# Findings of this component and their state:
#   fixed in /repo (8e6fbe9, 50db8ef): hex checked add_cell with an invalid handle / a non-cube closed surface, tet checked
#     add_cell accepting two pillows.  Their replays stay in the corpus (hex-invalid-handle-*, hex-non-cube-accepted,
#     tet-two-pillows) and run first; NOTHING about them is suppressed: if they return, the model (which follows the fixed
#     code) and the library diverge / the library crashes and the check reports it.
#   known (KNOWN_FINDINGS.json id "collapse-props-parity", listed under C15 and C03): collapse_edge swaps halfedge / halfface
#     property values once per rebuilt tet.  The token oracle in harness/run_tet.cc reports EXACTLY that outcome with the prefix
#     below; every other deviation of a property value is an ordinary oracle failure.
KNOWN_PREFIX = "KNOWN[collapse-props-parity]"
KNOWN_ID = "collapse-props-parity"

# ------------------------------------------------------------------------------------ corpus (always run first)

TET_CORPUS = {
    "tet-basic": """Mesh tet
AddVs 5
@TAddCellV 1 0 1 2 3
@TAddCell4 0 1 2 3 4
QTetAll
@TCollapse 0
QTetAll
GC
QTetAll""",
    # shared faces pre-existing in every rotation and on either side
    "tet-rotations": """Mesh tet
AddVs 6
@AddFV 2 0 1
@AddFV 3 2 0
@AddFV 1 3 0
@AddFV 2 3 1
@TAddCellV 1 0 1 2 3
@AddFV 4 1 2
@TAddCell4 1 1 2 3 4
@AddFV 5 0 1
@AddFV 0 5 3
@TAddCellV 0 0 1 3 5
QTetAll""",
    # the refutation witness of C15_four_distinct_vertices_refuted, replayed on the library
    "tet-two-pillows": """Mesh tet
AddVs 6
@AddFV 0 1 2
@AddF 0 0 2 4
@AddFV 3 4 5
@AddF 0 6 8 10
@AddC 1 0 3 4 7
@QCV 0
@QCVV 0 1
@QHOV 0
@QVOH 0 1
@QTVI 0 1""",
    # former finding (fixed in /repo: 814053a "checked tet add_cell must reject four triangles on fewer than four vertex triples"):
    # two pillows on FOUR vertices over a parallel edge / on duplicate faces - four triangles, four distinct vertices, every halfedge
    # matched once.  The checked add_cell must reject both (model and library agree).  (The unchecked add_cell stores such a pillow -
    # the caller's responsibility, Theorem C15_unchecked_add_cell_stores_two_pillows; not replayed: the impl-side oracle judges every
    # cell on four distinct vertices.)
    # Regression Examples C15_two_pillows_on_a_parallel_edge_rejected / _on_duplicate_faces_rejected (Props/Properties_C15_C16_created.v)
    "tet-two-pillows-parallel-edge": """Mesh tet
AddVs 4
@AddFV 0 1 2
@AddE 1 2 1
@AddE 2 3 0
@AddE 3 1 0
@AddF 1 6 8 10
@AddC 1 0 1 2 3
QTetAll""",
    "tet-two-pillows-duplicate-faces": """Mesh tet
AddVs 4
@AddFV 0 1 2
@AddF 1 0 2 4
@AddE 1 2 1
@AddE 2 3 0
@AddE 3 1 0
@AddF 1 6 8 10
@AddF 1 6 8 10
@AddC 1 0 3 4 7
QTetAll""",
    # the witnesses of C15_tet_shape_invariant_unconditional_refuted (Props/Properties_C15_C16_full.v): two tets on the SAME
    # halfface 0 (the second added without topology check).  OUT OF CONTRACT (C01's quantifier "no halfface is used by two live
    # cells" is inherited): run for the lock step (model and library agree on the three-halfface survivor), not judged by the
    # shape oracle (harness/run_tet.cc taints the history as soon as a halfface is in two live cells)
    "tet-shared-halfface-immediate": """Mesh tet
AddVs 5
@TAddCellV 1 0 1 2 3
@TAddCellV 0 0 1 2 4
EnFast 0
EnDef 0
@DelF 0
QTetAll""",
    "tet-shared-halfface-gc": """Mesh tet
AddVs 5
@TAddCellV 1 0 1 2 3
@TAddCellV 0 0 1 2 4
EnFast 0
@DelF 0
GC
QTetAll""",
    # every valence guard from below and from above (accepted only at exactly 3 halfedges / vertices, 4 halffaces on
    # triangles), unchecked and checked, then the valid ones
    "tet-rejected-adds": """Mesh tet
AddVs 6
@AddE 0 1 0
@AddE 1 2 0
@AddE 2 3 0
@AddE 3 0 0
@AddE 2 0 0
@AddF 0 0 2
@AddF 0 0 2 4 6
@AddF 1 0 2 4 6
@AddF 0 0 2 4 6 0
@AddF 1 0 2 8
@AddFV 0 1
@AddFV 0 1 2 3
@AddFV 0 1 2 3 4
@AddFV 0 1 2
@AddFV 0 2 3
@AddFV 0 3 1
@AddFV 1 3 2
@AddC 0 2 4 6
@AddC 0 2 4 6 8 3
@AddC 1 2 4 6 8 3
@AddC 1 2 4 6
@TAddCellV 1 0 1 2
@TAddCellV 1 0 1 2 3 4
@TAddCellV 0 0 1 2 3 4
@SetF 0 0 2 4 6
@AddC 0 0 4 6 8
@AddC 1 2 4 6 8
@TAddCellV 1 0 1 2 3
QTetAll
""",
    # an interior vertex 0 inside the tetrahedron 1 2 3 4, collapsed onto the LAST vertex (the handle that the
    # immediate fast mode moves) and onto a middle one, in all four deletion modes, with property arrays on every kind
    "tet-collapse-modes": "\n".join(["Mesh tet"] + sum([[
        "Clear 0", "EnDef %d" % d, "EnFast %d" % f, "AddVs 5"] + (["PCreate V 0 int", "PCreate C 0 int", "PCreate HF 0 int", "PCreate HE 0 int", "PCreate HE 0 bool", "PCreate HF 0 bool",
           "PCreate E 0 string", "PCreate F 0 int", "PCreate M 0 int", "PCreate V 0 bool", "PCreate C 0 bool"] if (d, f, he) == (0, 0, 1) else []) + [
        "@TAddCellV 1 4 0 3 1", "@TAddCellV 1 0 1 2 3", "@TAddCell4 1 0 1 4 2", "@TAddCellV 1 0 2 4 3",
        "@PSet V 0 0 10", "@PSet V 0 1 11", "@PSet V 0 2 12", "@PSet V 0 4 14", "@PSet C 0 0 20", "@PSet C 0 3 23",
        "@PSet HF 0 0 30", "@PSet HF 0 5 35", "@PSet HE 0 1 41", "@PSet HE 0 6 46"] +
        ["@PSet HE 1 %d 1" % i for i in range(0, 20, 1)] + ["@PSet HF 1 %d 1" % i for i in range(0, 14, 1)] +
        ["@PSet V 1 %d 1" % i for i in range(5)] + ["@PSet C 1 %d 1" % i for i in range(4)] + ["@PSet E 0 3 7", "@PSet F 0 2 9", "@PSet M 0 0 5",
        "QTetAll", "@TCollapse %d" % he, "QTetAll", "GC", "QTetAll"] for d in (0, 1) for f in (0, 1) for he in (1, 0, 7)], [])),
    # KNOWN_FINDINGS "collapse-props-parity": two tets sharing the face (0,2,4), collapse 0 -> 1 along a free edge; the
    # halfedges on the two shared edges at vertex 0 are swapped twice (values dropped), the unshared ones once (carried)
    "tet-collapse-props-parity": "\n".join(["Mesh tet", "AddVs 6", "@THalfEdge 0 1", "@TAddCellV 1 0 3 2 4", "@TAddCellV 1 0 4 2 5",
        "PCreate HE 0 int"] + ["@PSet HE 0 %d %d" % (i, 100 + i) for i in range(20)] + ["@TCollapse 0"]),
}

HEX_CORPUS = {
    "hex-basic": """Mesh hex
AddVs 12
@HAddCellV 1 0 1 2 3 4 7 6 5
@HAddCellV 0 4 7 6 5 8 11 10 9
QHexAll
QOrthAll
@AddC 1 3 0 2 4 6 8
@DelC 1
@AddC 1 20 12 18 1 14 16
QHexAll""",
    # the witness of C16_checked_add_cell_invalid_handle_refuted, with and without face incidences
    "hex-invalid-handle-fbu": """Mesh hex
AddVs 12
@AddFV 0 1 5 4
@AddFV 0 3 2 1
@AddFV 4 5 6 7
@AddFV 1 2 6 5
@AddFV 2 3 7 6
@AddFV 3 0 4 7
@AddFV 8 9 10 11
@AddC 1 5 7 9 11 3 12""",
    "hex-invalid-handle-nofbu": """Mesh hex
EnFBU 0
AddVs 12
@AddFV 0 1 5 4
@AddFV 0 3 2 1
@AddFV 4 5 6 7
@AddFV 1 2 6 5
@AddFV 2 3 7 6
@AddFV 3 0 4 7
@AddFV 8 9 10 11
@AddC 1 5 7 9 11 3 12""",
    # the witness of C16_checked_add_cell_layout_refuted: six quads closing up to a sphere that is not a cube
    "hex-non-cube-accepted": """Mesh hex
AddVs 8
@AddFV 0 1 2 3
@AddFV 1 0 4 5
@AddFV 2 1 5 6
@AddFV 3 2 6 7
@AddFV 6 0 3 7
@AddFV 5 4 0 6
@AddC 1 0 2 4 6 8 10
QHexAll""",
    # regressions of the fix "checked hex add_cell must reject cells without eight distinct vertices" (e0de5bf; Examples
    # C16_pinched_cell_rejected_*, C16_two_components_rejected): both must be REJECTED with the mesh unchanged; before the fix
    # the library accepted them (7 resp. 10 distinct vertices) - the oracle "accepted with topology check on N distinct
    # vertices" of harness/run_hex.cc reports that, and the lock step diverges from the model
    "hex-pinched-rejected": """Mesh hex
AddVs 8
@HAddCellV 1 0 1 2 3 4 5 0 7
@AddFV 3 2 1 0
@AddFV 7 0 5 4
@AddFV 1 2 0 7
@AddFV 4 5 3 0
@AddFV 1 7 4 0
@AddFV 2 3 5 0
@AddC 1 0 2 4 6 8 10
QHexAll""",
    "hex-two-components-rejected": """Mesh hex
AddVs 10
@AddFV 0 1 2 3
@AddFV 2 1 0 4
@AddFV 3 2 4 5
@AddFV 6 7 8 9
@AddFV 0 3 5 4
@AddFV 9 8 7 6
@AddC 1 0 2 4 6 8 10
QHexAll""",
    # regression of the fix "hex halfface ordering check must require vertex-disjoint top and bottom faces" (de91a3d; Example
    # C16_twisted_cell_rejected): six quads on eight vertices whose top (0,1,2,3) and bottom (0,4,2,5) share two vertices; must be
    # REJECTED (before the fix the library accepted it: oracles "accepted with topology check but halffaces 0 and 1 share the
    # vertex ..." / "not in the XF,XB,.. layout")
    "hex-noncube-eight-vertices-rejected": """Mesh hex
AddVs 8
@AddFV 0 1 2 3
@AddFV 0 4 2 5
@AddFV 1 0 5 6
@AddFV 3 2 4 7
@AddFV 5 2 1 6
@AddFV 4 0 3 7
@AddC 1 0 2 4 6 8 10
QHexAll""",
    # the witness of C16_hex_shape_invariant_unconditional_refuted: two cubes on the same halfface (out of contract, lock step
    # only: harness/run_hex.cc taints the history as soon as a halfface is in two live cells)
    "hex-shared-halfface-immediate": """Mesh hex
AddVs 12
@HAddCellV 1 0 1 2 3 4 5 6 7
@HAddCellV 0 0 1 2 3 8 9 10 11
EnFast 0
EnDef 0
@DelF 0""",
    "hex-rejected-adds": """Mesh hex
AddVs 10
@AddE 0 1 0
@AddE 1 2 0
@AddE 2 3 0
@AddE 3 0 0
@AddE 3 4 0
@AddE 4 0 0
@AddF 0 0 2 4
@AddF 0 0 2 4 8 10
@AddF 1 0 2 4 8 10
@AddF 1 0 2 4 6
@AddFV 0 1 2
@AddFV 0 1 2 3 4
@AddFV 5 6 7 8
@AddC 0 0 1 0 1 0
@AddC 1 0 1 0 1 0
@AddC 0 0 1 0 1 0 1 0
@AddC 1 0 1 0 1 0 1 0
@SetF 1 0 2 4
@AddC 0 0 1 2 3 0 1
@AddC 1 0 1 2 3 0 1
@HAddCellV 1 0 1 2 3 4 5 6
@HAddCellV 0 0 1 2 3 4 5 6 7 8
@HAddCellV 1 0 1 2 3 4 7 6 5
@HAddCellV 1 0 1 2 3 4 7 6 5
QHexAll""",
}

def regen_leaf(ctx, name):
    """regenerate coq/Gen/HexOrient.v or TetLabels.v from the current headers; a rejected translation breaks the tie"""
    try:
        import leafs_tethex
        out = os.path.join(fw.COQ, "Gen", leafs_tethex.OUTPUTS[name])
        text = getattr(leafs_tethex, "gen_" + name)(None)
        if fw.write_if_changed(out, text):
            ctx.log("regenerated leaf changed:", leafs_tethex.OUTPUTS[name])
            ctx.notes.append("regenerated Gen/%s differs from the previous run" % leafs_tethex.OUTPUTS[name])
    except Exception as ex:
        ctx.broken.append({"kind": "translator", "name": "translate/leafs_tethex.py:gen_" + name, "detail": str(ex)[:1500]})

def build_models(ctx):
    """the extraction needs every model file of this component (the property file of one id only pulls its own)"""
    with fw.Lock("coq"):
        fw.ensure_makefile()
        rc, out, err = fw.sh(["make", "-k", "-j8", "Mesh/TetTopoModel.vo", "Mesh/HexIterModel.vo"], cwd=fw.COQ, timeout=1200)
        if rc != 0:
            ctx.broken.append({"kind": "model-build", "name": "coq/Mesh models", "detail": (out + err)[-2000:]})

def op_of(head):
    t = head.split(" ")
    return t[2].lstrip("@") if len(t) > 2 else ""

class Runner:
    def __init__(self, ctx, pid, harness, corpus, relevant_ops):
        self.ctx, self.pid, self.relevant = ctx, pid, relevant_ops
        self.kr = ke.KernelRun(ctx, harness=harness, driver=DRIVER)
        self.corpus = corpus
        self.ub_agreements = []
        self.qlines = 0
        self.q_ub = 0
        self.dir = os.path.join(fw.BUILD, "run")
        os.makedirs(self.dir, exist_ok=True)

    def ok(self): return self.kr.ok()

    def run(self, path):
        self.stats_file = os.path.join(self.dir, "%s-oracle-stats-%d.txt" % (self.pid, os.getpid()))
        os.environ["TH_STATS"] = self.stats_file
        t0 = time.time()
        divs, st = self.kr.run_file(path, self.relevant, self.pid)
        self.ctx.log("lock step %s: %d scripts, %d steps, %.1fs" % (os.path.basename(path), st["scripts"], st["steps"], time.time() - t0))
        for l in st["model_out"].split("\n"):
            if l.startswith("Q "):
                self.qlines += 1
                if l.endswith(": UB"): self.q_ub += 1
        return divs, st

    def oracle_stats(self):
        out = {}
        try:
            for l in open(self.stats_file):
                l = l.strip()
                if l: out[l] = out.get(l, 0) + 1
            os.remove(self.stats_file)
        except (OSError, AttributeError):
            pass
        return out

    def run_corpus(self):
        p = os.path.join(self.dir, "%s-corpus.scripts" % self.pid)
        ke.write_scripts(p, {k: v.split("\n") for k, v in self.corpus.items()})
        return self.run(p)

    def generate(self, seed, count, profiles, nops, tag, perms=40):
        import thgen
        out = os.path.join(self.dir, "%s-%s-%d.scripts" % (self.pid, tag, seed))
        thgen.generate(self.kr.model, seed, count, profiles, nops, out, prefix=tag, perm_count=perms)
        return out

    # ------------------------------------------------------------------ verdict
    def judge(self):
        ctx, kr, pid = self.ctx, self.kr, self.pid
        ctx.cov["evaluations"] += kr.stats["scripts"]
        ctx.cov["distinct_nontrivial"] += len(kr.nontrivial)
        ctx.cov["lockstep_steps"] = kr.stats["steps"]
        ctx.cov["query_lines_compared"] = self.qlines
        ctx.cov["query_lines_model_UB_equals_library_crash"] = self.q_ub
        ctx.cov["oracle_events"] = self.oracle_stats()
        ctx.cov["op_histogram"] = kr.stats["ops"]
        ctx.cov["outcome_histogram"] = kr.stats["outcomes"]
        ctx.cov["mode_histogram_final_state"] = kr.modes
        ctx.cov["samples"] += kr.samples
        real_divs = []
        for d in kr.divs:
            if d.component == "crash" and d.model.rstrip().endswith("-> UB"):
                self.ub_agreements.append(d)        # the model predicts UB exactly where the library dies
                continue
            real_divs.append(d)
        ctx.cov["traces_validated_against_impl"] = kr.stats["scripts"] - len(real_divs)
        # 1. oracle failures on the real library: concrete failing inputs
        listed_ids = {f.get("id") for f in fw.known_findings(pid)}
        n_known = 0
        for of in kr.oracle_fails:
            if of["oracle"] != pid: continue
            if of["what"].startswith(KNOWN_PREFIX) and KNOWN_ID in listed_ids:
                n_known += 1
                if n_known == 1:
                    ctx.known.append("%s (script %s step %d): %s" % (KNOWN_ID, of["script"], of["step"], of["what"][len(KNOWN_PREFIX):].strip()))
                continue
            lines = of.get("lines")
            ctx.violations.append({"kind": "input", "oracle": pid, "what": of["what"], "script_name": of["script"],
                                   "first_bad_step": of["step"], "script": lines,
                                   "replay_hint": "bin/check %s quick --replay <this file>" % pid})
        # 2. the library crashed where the model predicts a defined outcome
        for d in real_divs:
            if d.component == "crash" and "Rejected" not in d.echo:
                ctx.violations.append({"kind": "input", "oracle": "sanitizer", "script_name": d.script, "first_bad_step": d.step,
                                       "what": "the library crashed / aborted (ASan, UBSan, _GLIBCXX_ASSERTIONS or timeout) executing "
                                               + d.echo + " where the model predicts a defined outcome",
                                       "script": getattr(d, "lines", None)})
        # 3. any other difference: the correspondence no longer checks
        for d in [x for x in real_divs if x.component != "crash"][:5]:
            ctx.broken.append({"kind": "correspondence", "name": "lock-step model/impl, component %s" % (d.component or "Q"),
                               "detail": dict(d.as_dict(), script_lines=getattr(d, "lines", None))})
        if n_known: ctx.cov["known_finding_occurrences"] = {KNOWN_ID: n_known}
        # model outcome UB == library crash: only reachable through out-of-contract mesh states of the malformed stream
        # (e.g. add_cell(v0..v3) without vertex incidences); counted, not suppressed as a finding
        seen = {}
        for d in self.ub_agreements:
            o = op_of(d.model)
            seen[o] = seen.get(o, 0) + 1
        if seen:
            ctx.cov["model_UB_equals_library_crash"] = seen
            ctx.notes.append("model outcome UB coincides with a crash of the library for operations %s" % seen)

    def fails(self, lines, pred):
        tmp = os.path.join(self.dir, "%s-shrink-%d.scripts" % (self.pid, os.getpid()))
        ke.write_scripts(tmp, {"shrink": lines})
        divs, st = lockstep.lockstep([self.kr.impl, "--oracle", self.pid], [self.kr.model], tmp, timeout=120)
        return pred(divs, st)

    def ddmin(self, head, lines, pred, budget_s=45):
        """ddmin over script lines; the 'Mesh tet|hex' line stays"""
        t0, n, cur = time.time(), 2, list(lines)
        while len(cur) >= 2 and time.time() - t0 < budget_s:
            chunk = max(1, len(cur) // n)
            reduced = False
            for i in range(0, len(cur), chunk):
                cand = cur[:i] + cur[i + chunk:]
                if cand and self.fails(head + cand, pred):
                    cur, n, reduced = cand, max(n - 1, 2), True
                    break
                if time.time() - t0 > budget_s: break
            if not reduced:
                if chunk == 1: break
                n = min(len(cur), n * 2)
        return head + cur

    def shrink_first_violation(self):
        ctx, pid = self.ctx, self.pid
        for v in ctx.violations[:1]:
            lines = v.get("script")
            if not lines or v.get("oracle") != pid: continue
            tail = v["what"].split(":")[0] if v["what"].startswith("collapse_edge property") else v["what"].split(":")[-1]
            def pred(divs, st):
                return any(of["oracle"] == pid and not of["what"].startswith(KNOWN_PREFIX) and
                           (of["what"].split(":")[0] == tail or of["what"].split(":")[-1] == tail) for of in st["oracle_fails"])
            try:
                head = [l for l in lines[:1] if l.startswith("Mesh ")]
                v["script_shrunk"] = self.ddmin(head, lines[len(head):], pred)
            except Exception as ex:      # shrinking is best effort
                v["shrink_error"] = str(ex)[:300]

def finish_common(ctx, runner, prop_v, rule):
    runner.judge()
    if ctx.violations: runner.shrink_first_violation()
    ctx.cov["rule"] = rule
    ctx.cov["samples"] += [{"theorem": t} for t in fw.theorem_statements(prop_v, 5)]

def search_more(ctx, runner, profiles, nops, count, seeds, perms=40):
    """DESIGN section 5: an obligation or the correspondence broke and no failing input is known yet - spend a larger,
    aimed budget looking for one (impl-side oracles decide)"""
    t0 = time.time()
    for sd in seeds:
        if ctx.violations or time.time() - t0 > 90: break
        try:
            path = runner.generate(sd, count, profiles, nops, "s", perms)
        except Exception as ex:
            ctx.notes.append("search generation failed: %s" % str(ex)[:200]); break
        runner.run(path)
        for of in runner.kr.oracle_fails:
            if of["oracle"] == runner.pid:
                return

# ------------------------------------------------------------------------------------ C15

C15_OPS = {"TAddCellV", "TAddCell4", "THalfEdge", "THalfFaceV", "THalfFace", "TCollapse", "AddC", "AddF", "AddFV", "QTetAll",
           "DelV", "DelE", "DelF", "DelC", "GC", "QCV", "QCVV", "QCVH", "QCVHE", "QHOV", "QVOH", "QTVI", "QTT", "QTTCV", "QTRI"}

def check_C15(ctx):
    regen_leaf(ctx, "tetlabels"); regen_leaf(ctx, "hexorient")
    fw.coq_prove(ctx, "Props/Properties_C15.v")
    import checks
    checks.also_prove_file(ctx, "Props/Properties_C15_C16_full.v")
    checks.also_prove_file(ctx, "Props/Properties_C15_C16_created.v")
    build_models(ctx)
    r = Runner(ctx, "C15", "run_tet", TET_CORPUS, C15_OPS)
    if r.ok():
        r.run_corpus()
        for f in ke_replay(ctx): r.run(f)
        seeds = [ctx.seed] if ctx.quick() else [ctx.seed + i for i in range(2)]
        count = 60 if ctx.quick() else 250
        nops = 15 if ctx.quick() else 20        # thorough took > 40 min on a loaded machine with 3 x 300 x 24
        for sd in seeds:
            r.run(r.generate(sd, count, ["tetvalid", "tetmal", "tetvalid"], nops, "g"))
        if (ctx.broken or any(d.component != "crash" for d in r.kr.divs)) and not r.kr.oracle_fails:
            search_more(ctx, r, ["tetvalid"], 25, 80, [ctx.seed + 100 + i for i in range(4)])
    finish_common(ctx, r, "Props/Properties_C15.v",
        "tet scripts (kernel script language + TAddCellV/TAddCell4/THalfEdge/THalfFaceV/THalfFace/TCollapse + Q* queries) from "
        "gen/thgen.py, profiles tetvalid (strips, fans, balls of tets through every construction path, shared faces pre-existing in "
        "either rotation and on either side, all four deletion modes, collapses of edges that satisfy the link condition and - in "
        "deferred mode - of edges that do not) and tetmal (wrong valences, pillows, repeated halffaces, queries on arguments that "
        "do not belong together), one SplitMix64 state per script; run in lock step on the extracted model and the real library, "
        "full canonical state compared after every operation and every query line compared; QTetAll asks get_cell_vertices (4 "
        "overloads), both opposite maps, the tet vertex iterator, TetTopology (4 constructors; all accessors over all 4+12+32 "
        "labels; get_label; triangle_topology over all 24 labels) and TriangleTopology for all 24 (halfface,start) choices of every "
        "live cell; impl-side oracles after every operation: valence scan, query contracts and TetTopology consistency recomputed "
        "from definitions / label names on every well-formed tet, collapse result = brute-force expected multiset of oriented cells "
        "+ surviving handle when the link condition holds.  distinct_nontrivial = distinct scripts (text hash) that executed with "
        "Ok at least one tet construction / collapse / deletion / query operation on a mesh that already has a cell")
    ctx.assumptions += [
        "tet_shape: Props/Properties_C15.v proves it for every history without slow physical removal (_partial); "
        "Props/Properties_C15_C16_full.v for ALL FOUR deletion modes incl. collapse_edge, where a slow physical removal step carries the "
        "hypothesis of the kernel's C02 / C04 theorems (shift_inv2 / gc_ready, decidable checkers); the unconditional statement is "
        "refuted (a halfface used by two live cells - out of C01's contract; corpus scripts tet-shared-halfface-*, lock step only); "
        "set_face / set_cell stay outside",
        "four distinct vertices: proved for every cell accepted by the topology-checked add_cell(halffaces) "
        "(C15_checked_add_cell_four_distinct_vertices, after the fix 50db8ef; the former counterexample 'two pillows' is a corpus "
        "replay and an Example); as an invariant of all additions it stays refuted for the UNCHECKED add_cell "
        "(C15_four_distinct_vertices_unchecked_refuted); query contracts are proved under the explicit hypothesis tet_wf",
        "property values across collapse_edge: known finding collapse-props-parity (C15_collapse_props_refuted); proved: sizes in "
        "every mode, vertex/mesh arrays untouched in deferred mode; the rest is judged by the token oracle (which reports exactly the "
        "once-per-tet swap outcome as KNOWN and every other deviation as a violation)",
        "collapse_edge: Properties_C15_C16_full.v proves the cell-set characterisation in deferred mode (stored definitions and "
        "get_cell_vertices) under collapse_ready (kernel invariant bu_inv2, triangles = closed loops of live halfedges, rebuilt tets "
        "simplicial at the edge; decidable checker), the untouched part (through get_cell_vertices under fbu_ok of the result = the link "
        "condition; refuted without), and the immediate modes as 'deferred collapse + collection' through C04 (slow: logical mesh and "
        "returned handle = rank of b; fast: bijection) with gc_ready of the deferred result as hypothesis; that the result satisfies the "
        "kernel invariant again is computed on examples and checked by lock step + the brute-force oracle",
        "TetTopology: label algebra decided over the whole label domains on the regenerated functions; the constructor (all five "
        "forms) is proved for every cell satisfying tet_cell_ok_b (tet_wf without the cache clause + closed loops + halfedge-level "
        "closure; both additions refuted as necessary) in Properties_C15_C16_full.v",
    ]
    ctx.cov["level_note"] = "partial: see assumptions (theorems named _partial / _refuted in Props/Properties_C15.v)"

# ------------------------------------------------------------------------------------ C16

C16_OPS = {"HAddCellV", "AddC", "AddF", "AddFV", "QHexAll", "DelV", "DelE", "DelF", "DelC", "GC", "QHV", "QOR", "QOPP", "QGOH",
           "QSHEET", "QSURF", "QCSC", "QHFSHF", "QLAYOUT"}

def all_perm_scripts(r, seed, variants):
    """thorough: ALL 720 permutations of the halfface list of `variants` cubes (faces stored in different rotations / sides)"""
    import thgen
    out = os.path.join(r.dir, "C16-perm720-%d.scripts" % seed)
    thgen.generate(r.kr.model, seed, variants, ["hexperm"], 0, out, prefix="p720", perm_count=720)
    return out

def check_C16(ctx):
    regen_leaf(ctx, "hexorient"); regen_leaf(ctx, "tetlabels")
    fw.coq_prove(ctx, "Props/Properties_C16.v")
    import checks
    checks.also_prove_file(ctx, "Props/Properties_C15_C16_full.v")
    checks.also_prove_file(ctx, "Props/Properties_C15_C16_created.v")
    build_models(ctx)
    r = Runner(ctx, "C16", "run_hex", HEX_CORPUS, C16_OPS)
    if r.ok():
        r.run_corpus()
        for f in ke_replay(ctx): r.run(f)
        seeds = [ctx.seed] if ctx.quick() else [ctx.seed + i for i in range(4)]
        count = 60 if ctx.quick() else 400
        nops = 14 if ctx.quick() else 30
        for sd in seeds:
            r.run(r.generate(sd, count, ["hexvalid", "hexmal", "hexperm", "hexvalid"], nops, "g", perms=60))
        if not ctx.quick():
            r.run(all_perm_scripts(r, ctx.seed, 8))
        if (ctx.broken or any(d.component != "crash" for d in r.kr.divs)) and not r.kr.oracle_fails:
            search_more(ctx, r, ["hexvalid", "hexperm"], 25, 80, [ctx.seed + 100 + i for i in range(4)], perms=120)
    finish_common(ctx, r, "Props/Properties_C16.v",
        "hex scripts (kernel script language + HAddCellV + Q* queries) from gen/thgen.py, profiles hexvalid (blocks 1x1x1..2x2x2 with "
        "holes = bent / L / U shapes, closed rings = sheets closing on themselves, cells entered with their first axis rotated, faces "
        "pre-existing in other rotations, delete + topology-checked re-add with the halfface list permuted), hexperm (one cube with "
        "faces stored in random rotation / side, a stratified subset of the 720 orderings of its halfface list through the checked "
        "add_cell: every first halfface x every position of its opposite, then random; ALL 720 x 8 cubes in thorough) and hexmal "
        "(wrong valences, damaged / open / doubled lists with topology check, queries on odd arguments); lock step on the extracted "
        "model and the real library, full state after every operation, every query line (hex_vertices, orientation, opposite in cell, "
        "x..z accessors incl. INVALID, sheet cells for 7 directions, halfface sheet with common edges, adjacent_halfface_on_sheet / "
        "_on_surface for every halfedge, layout by definition, the 7x7 orientation tables); impl-side oracles after every operation: "
        "valence scan, layout from the definition for every cell created from 8 vertices / accepted with check, accessors vs stored "
        "positions, orientation tables = cross product, hex_vertices cube pattern, sheet circulators from definitions. "
        "distinct_nontrivial = distinct scripts that executed with Ok at least one hex construction / deletion / query on a mesh "
        "that already has a cell")
    ctx.assumptions += [
        "hex_shape: as for C15 - Properties_C16.v without slow physical removal, Properties_C15_C16_full.v for all four deletion modes "
        "under the C02 / C04 hypotheses at the slow removal steps; unconditional statement refuted (halfface in two live cells, out of "
        "contract; corpus hex-shared-halfface-immediate, lock step only)",
        "checked add_cell (after the fixes 8e6fbe9 and e0de5bf): proved for every state and list - rejected with the mesh unchanged, or "
        "one cell appended whose stored list passes cell_check and the ordering check in the new state, is duplicate-free, consists of "
        "the given halffaces and has exactly eight distinct vertices; add_cell from eight vertices with check: eight distinct vertices "
        "under the kernel's cache invariant; the former witnesses (pinched cell on 7 vertices, two closed components on 10) are corpus "
        "replays (hex-pinched-rejected, hex-two-components-rejected), Examples, a generator case (hexmal) and an impl-side oracle",
        "hex_vertices cube pattern / layout / opposite faces vertex-disjoint: proved for EVERY stored cell that passes "
        "check_halfface_ordering under hex_cell_wf_b (closed cell with exact cache entries, faces closed loops, first two halffaces on "
        "eight distinct vertices); each conjunct refuted as necessary; hex_cell_wf_b of a cell accepted with topology check does NOT "
        "follow (C16_checked_add_cell_accepts_a_non_cube_on_eight_vertices_refuted: top and bottom sharing two vertices - the library "
        "accepts the same input), on proper cubes it is carried by lock step + the definition-based layout oracle",
    ]
    ctx.cov["level_note"] = "partial: see assumptions (theorems named _partial / _refuted in Props/Properties_C16.v)"

def ke_replay(ctx):
    """--replay <file>: script of an earlier replay record, run first"""
    import json
    if not getattr(ctx, "replay", None): return []
    try:
        rec = json.load(open(ctx.replay))
    except Exception:
        return []
    lines = rec.get("script_shrunk") or rec.get("script") or (rec.get("broken") or [{}])[0].get("detail", {}).get("script_lines")
    if not lines: return []
    p = os.path.join(fw.BUILD, "run", "%s-replay.scripts" % ctx.id)
    os.makedirs(os.path.dirname(p), exist_ok=True)
    ke.write_scripts(p, {"replay": lines})
    return [p]


# ------------------------------------------------------------------------------------ C03: property values across collapse_edge

def collapse_props_part(ctx):
    """Called by check_C03: property tokens (int / bool / string / ... on all seven kinds) across collapse_edge, through the
    lock step (property lines 'P ...' of the extracted model vs. the library) and the impl-side token oracle of harness/run_tet.cc
    (--oracle C03).  Oracle failures -> ctx.violations, divergences in property lines -> ctx.broken, the known signature
    'collapse-props-parity' -> ctx.known if listed under C03.  Adds to ctx.cov evaluations / distinct_nontrivial, leaves the
    obligations alone."""
    build_models(ctx)
    r = Runner(ctx, "C03", "run_tet", {k: TET_CORPUS[k] for k in ("tet-collapse-modes", "tet-collapse-props-parity")}, {"TCollapse"})
    if not r.ok():
        return r
    r.run_corpus()
    count = 16 if ctx.quick() else 200
    for sd in ([ctx.seed] if ctx.quick() else [ctx.seed, ctx.seed + 1, ctx.seed + 2]):
        r.run(r.generate(sd, count, ["tetprops"], 10 if ctx.quick() else 20, "cp"))
    kr = r.kr
    ctx.cov["evaluations"] += kr.stats["scripts"]
    ctx.cov["distinct_nontrivial"] += len(kr.nontrivial)
    ctx.cov["collapse_part"] = {"scripts": kr.stats["scripts"], "steps": kr.stats["steps"], "collapses": kr.stats["ops"].get("TCollapse", 0),
                                "oracle_events": r.oracle_stats(),
                                "rule": "tet scripts with property arrays of type int/bool/string/double/vec3d/vh on all seven entity kinds, filled with "
                                        "distinct tokens, then collapses (link condition satisfied in immediate mode, arbitrary edges of clean "
                                        "simplicial meshes in deferred mode) in all four deletion modes; every P line compared in lock step; token "
                                        "oracle: every entity outside the merge keeps its value, rebuilt cells carry theirs, merged half-entities carry "
                                        "own/carried value (the once-per-tet swap outcome is the known finding collapse-props-parity)"}
    listed_ids = {f.get("id") for f in fw.known_findings("C03")}
    n_known = 0
    for of in kr.oracle_fails:
        if of["oracle"] != "C03": continue
        if of["what"].startswith(KNOWN_PREFIX) and KNOWN_ID in listed_ids:
            n_known += 1
            if n_known == 1:
                ctx.known.append("%s (script %s step %d): %s" % (KNOWN_ID, of["script"], of["step"], of["what"][len(KNOWN_PREFIX):].strip()))
            continue
        ctx.violations.append({"kind": "input", "oracle": "C03", "what": of["what"], "script_name": of["script"],
                               "first_bad_step": of["step"], "script": of.get("lines"),
                               "replay_hint": "tet script: build/bin/san/run_tet --oracle C03 <script file>"})
    for d in kr.divs:
        if d.component == "crash":
            if not d.model.rstrip().endswith("-> UB"):
                ctx.violations.append({"kind": "input", "oracle": "sanitizer", "script_name": d.script, "first_bad_step": d.step,
                                       "what": "the library crashed executing " + d.echo, "script": getattr(d, "lines", None)})
        elif d.component.startswith("P"):
            ctx.broken.append({"kind": "correspondence", "name": "lock-step model/impl across collapse_edge, component %s" % d.component,
                               "detail": dict(d.as_dict(), script_lines=getattr(d, "lines", None))})
    if n_known: ctx.cov["collapse_part"]["known_finding_occurrences"] = n_known
    return r
